"""Static table: property -> op domains, theorem module, op-name -> properties served."""

TRUSTED_BASE = [
    "Lean 4.33.0 kernel (re-checked by leanchecker in the thorough tier); axioms allowed: propext, Classical.choice, Quot.sound; no native_decide, bv_decide, sorry, user axioms",
    "the hand-written Lean model (lean/SMD/Model) is modelled, not verified: its tie to /repo is the correspondence harness (generators, VX1 printer in Go, VX1 parser/printer in Lean, canonicalisation of Go map order, the line diff); a side-by-side review of model and code (DESIGN.md section 8.4) found 14 differences outside the generated inputs: 12 corrected and now generated, 2 recorded as limits (a schema spelling `fields: []` for an untyped-deduced map; error-then-panic order of the walkers on unvalidated values with unresolvable references)",
    "factgen (harness/cmd/factgen) is trusted to report every range over a map-typed expression, every selector access to the listed shared fields with its guard context (incl. locks inherited by unexported helpers) and every CopyInto call site",
    "external code outside the model: Go runtime and memory model, sync, sort, reflect, encoding/json (modelled as jsonV for the C18 theorem), strconv (float32 shortest decimal), encoding/base64, jsoniter, goyaml",
    "readings R1-R13 of natural-language clauses recorded in DESIGN.md section 6",
]

# op name -> properties for which a model/implementation difference on that op is a broken tie
OP_PROPS = {
    "val.cmp": ["C17", "C18"],
    "fl.cmp": ["C17"],
    "fl.sort": ["C17"],
    "pe.cmp": ["C17"],
    "path.cmp": ["C17"],
    "pem.cmp": ["C17", "C19"],
    "pes.build": ["C17", "C15"],
    "pemap.build": ["C17"],
    "set.new": ["C15", "C16"],
    "set.bin": ["C15", "C19"],
    "set.leaves": ["C15"],
    "set.has": ["C15"],
    "set.prefix": ["C15", "C14"],
    "typ.schema": ["C11", "C12", "C13", "C14"],
    "typ.validate": ["C13"],
    "typ.fs": ["C14", "C13"],
    "typ.cmp": ["C11", "C13"],
    "typ.merge": ["C12", "C13"],
    "typ.remove": ["C14", "C13"],
    "typ.extract": ["C14", "C13"],
    "sch.equals": ["C17"],
    "ser.pe": ["C16"],
    "ser.depe": ["C16"],
    "ser.emit": ["C16"],
    "ser.read": ["C16"],
    "flt.apply": ["C19"],
    "flt.ensure": ["C02", "C03", "C15"],
    "rec.reconcile": ["C20"],
    "upd.reset": ["C01", "C02", "C03", "C04", "C05", "C06", "C07", "C19", "C20"],
    "upd.apply": ["C01", "C02", "C03", "C04", "C05", "C06", "C07", "C19", "C20"],
    "upd.update": ["C05", "C06", "C19", "C20"],
}

PROPS = {
    "C17": {
        "domains": [
            {"name": "val", "n_quick": 3000, "n_thorough": 60000},
            {"name": "pe", "n_quick": 2000, "n_thorough": 40000},
            {"name": "sch", "n_quick": 150, "n_thorough": 3000},
        ],
        "lean_modules": ["SMD.Proofs.ValueOrder", "SMD.Properties.C17"],
        "theorems": [],
        "assumptions": ["ints compared with floats stay within |i| <= 2^53 (the property's quantifier); no NaN/Inf; valid UTF-8"],
    },
    "C15": {
        "domains": [{"name": "set", "n_quick": 3000, "n_thorough": 30000}, {"name": "hlp", "n_quick": 600, "n_thorough": 15000}],
        "lean_modules": ["SMD.Proofs.SetAlgebra", "SMD.Properties.C15", "SMD.Properties.C15Laws", "SMD.Properties.C04Exact"],
        "theorems": [],
        "assumptions": [],
    },
}

for _p in ("C11", "C12", "C13", "C14"):
    PROPS[_p] = {
        "domains": [{"name": "typ", "n_quick": 1500, "n_thorough": 30000}],
        "lean_modules": ["SMD.Properties." + _p],
        "theorems": [],
        "assumptions": ["schemas of the generated family (sgen): structs, maps, sets, keyed lists (1, 2, defaulted keys), atomic list/map/struct, recursive types, deduced type, named / inlined / relationship-overriding references"],
    }

for _p in ("C01", "C02", "C03", "C04", "C05", "C06", "C07", "C19"):
    PROPS[_p] = {
        "domains": [{"name": "upd", "n_quick": 1200, "n_thorough": 30000}],
        "lean_modules": ["SMD.Properties." + _p],
        "theorems": [],
        "assumptions": ["identity converter over 1-4 version labels; schemas of the generated family (sgen)"],
    }

for _p in ("C01", "C02", "C03", "C04", "C05", "C06", "C07"):
    PROPS[_p]["domains"] = PROPS[_p]["domains"] + [{"name": "updx", "n_quick": 6000, "n_thorough": 200000}]
for _p in ("C04", "C05"):
    PROPS[_p]["domains"] = PROPS[_p]["domains"] + [{"name": "hlp", "n_quick": 600, "n_thorough": 15000}]
# C05 also over real version conversion: the single-version run is the reference for every other manager's record
PROPS["C05"]["domains"] = PROPS["C05"]["domains"] + [{"name": "mv", "n_quick": 800, "n_thorough": 20000}]
PROPS["C02"]["lean_modules"] = ["SMD.Properties.C02", "SMD.Properties.FindingWitnesses2"]
PROPS["C03"]["lean_modules"] = ["SMD.Properties.C03", "SMD.Properties.C02Apply"]
PROPS["C05"]["lean_modules"] = ["SMD.Properties.C05", "SMD.Properties.C04Exact"]
PROPS["C19"]["lean_modules"] = ["SMD.Properties.C19", "SMD.Properties.FindingWitnesses", "SMD.Properties.C05Exact"]
for _p in ("C11", "C12", "C13", "C14"):
    PROPS[_p]["domains"] = PROPS[_p]["domains"] + [{"name": "typx", "n_quick": 20000, "n_thorough": 250000}]
PROPS["C13"]["domains"].append({"name": "sch", "n_quick": 150, "n_thorough": 3000})
PROPS["C19"]["domains"].append({"name": "flt", "n_quick": 1500, "n_thorough": 30000})
PROPS["C20"] = {
    "domains": [{"name": "rec", "n_quick": 3000, "n_thorough": 60000},
                {"name": "upd", "n_quick": 800, "n_thorough": 20000}],
    "lean_modules": ["SMD.Properties.C20", "SMD.Properties.FindingWitnesses"],
    "theorems": [],
    "assumptions": ["identity converter; lossless renaming converters are future work of this check (see DESIGN)"],
}

PROPS["C08"] = {
    "domains": [{"name": "upd", "n_quick": 800, "n_thorough": 20000},
                {"name": "typ", "n_quick": 800, "n_thorough": 20000},
                {"name": "set", "n_quick": 1500, "n_thorough": 20000},
                {"name": "flt", "n_quick": 500, "n_thorough": 10000},
                {"name": "rec", "n_quick": 1000, "n_thorough": 20000}],
    "lean_modules": ["SMD.Properties.C08"],
    "theorems": [],
    "assumptions": ["partial: the model has value semantics, so 'arguments unchanged' is decided observationally by deep snapshots (canonical encodings of live object, submitted object, managed fields incl. every trie, set operands) taken before and after every call of every domain; the theorems cover the conversion-failure clause for every converter and failure position"],
    "explanation": "partial by proof: aliasing of arbitrary Go data is a runtime matter that the value-semantic model cannot exhibit",
}

PROPS["C16"] = {
    "domains": [{"name": "ser", "n_quick": 2500, "n_thorough": 60000},
                {"name": "set", "n_quick": 500, "n_thorough": 5000},
                # exhaustive: every prefix+suffix up to the bound (the count is the cap, above the total)
                {"name": "serx", "n_quick": 140000, "n_thorough": 1800000}],
    "lean_modules": ["SMD.Properties.C16"],
    "theorems": [],
    "assumptions": ["the JSON text layer (jsoniter lexer, escaping, number formatting) is external: the model's printer/reader covers standard JSON with numbers whose shortest decimal form is exact; other payloads are answered 'unsupported' by the model and judged on the implementation only"],
}

PROPS["C09"] = {
    "domains": [{"name": "upd", "n_quick": 800, "n_thorough": 20000},
                {"name": "typ", "n_quick": 800, "n_thorough": 20000},
                {"name": "val", "n_quick": 1500, "n_thorough": 30000},
                {"name": "ser", "n_quick": 800, "n_thorough": 20000},
                {"name": "iso", "n_quick": 60, "n_thorough": 1500}],
    # the model is a pure function of the op line and the explicit state: any op of these domains on
    # which the implementation differs from it is an unexplained dependence
    "all_ops": True,
    "lean_modules": ["SMD.Properties.C09", "SMD.Spec.Facts", "SMD.Generated.MapRanges", "SMD.Generated.PoolFacts", "SMD.Properties.FindingWitnesses"],
    "theorems": ["SMD.C09.all_map_ranges_covered", "SMD.C09.pooled_walkers_reset"],
    "assumptions": ["partial: state left in pooled walkers and freelist reuse are runtime matters decided observationally by the repeat-call judges (every op repeated after unrelated, failing and conflicting calls and after GC); the theorem covers the iteration order of every Go map, against a table regenerated from the source on every run"],
    "explanation": "partial by proof",
}
PROPS["C10"] = {
    "domains": [{"name": "conc", "n_quick": 120, "n_thorough": 3000, "race": True}],
    "lean_modules": ["SMD.Properties.C10", "SMD.Spec.Facts", "SMD.Generated.SyncFacts"],
    "theorems": ["SMD.C10.guard_table_admissible"],
    "assumptions": ["partial: the Go memory model is not modelled; the harness is built with -race and a race report fails the check with the report as replay; the theorem checks the guard context of every access to the shared lazily-initialised fields against a table regenerated from the source on every run"],
    "explanation": "partial by proof",
}
OP_PROPS["conc.round"] = ["C10"]
OP_PROPS["gmap.ops"] = ["C18"]
OP_PROPS["iso.pair"] = ["C09"]
OP_PROPS["typ.xops"] = ["C11", "C12", "C13"]
OP_PROPS["hlp.sfv"] = ["C15"]
OP_PROPS["hlp.mfeq"] = ["C05"]
OP_PROPS["hlp.mfdiff"] = ["C05"]
OP_PROPS["hlp.cf"] = ["C04"]
OP_PROPS["rfl.conv"] = ["C18"]
OP_PROPS["rfl.json"] = ["C18"]
OP_PROPS["rfl.set"] = ["C18"]
OP_PROPS["rfl.del"] = ["C18"]
OP_PROPS["upd.mode"] = ["C20"]
OP_PROPS["upd.sync"] = ["C20"]
OP_PROPS["upd.conv"] = ["C08", "C20"]
PROPS["C20"]["domains"].append({"name": "mv", "n_quick": 800, "n_thorough": 20000})
PROPS["C20"]["assumptions"] = ["identity converter with versions lost / failing mid-history (upd), and a lossless field-renaming converter over three versions (mv); the model's renaming converter assumes the converted object is valid in the target type (losslessness)"]
PROPS["C18"] = {
    "domains": [{"name": "rfl", "n_quick": 2500, "n_thorough": 60000},
                {"name": "val", "n_quick": 1500, "n_thorough": 30000}],
    "lean_modules": ["SMD.Properties.C18"],
    "theorems": [],
    "assumptions": ["partial: encoding/json, jsoniter and goyaml are external libraries; the agreement of reflection with the JSON round trip is decided by the rfl domain on run-time generated types (embedded structs carry the inline option, no uint64, no omitzero, float values exactly representable), not by a theorem; the theorems cover the contract of the generic map interface on the abstract value"],
    "explanation": "partial by proof",
}

HOOK_COMMITS = []
NOT_APPLICABLE = {}


# which clause of each property is decided how (copied into the evidence of every run)
CLAUSES = {
    "C01": {"merge right-wins against the independent resolver; a manager's first apply takes effect (paths without positional elements, scalar key fields; paths of field names unconditionally); refutations of the unrestricted statements": "theorems",
            "general case (configuration survives pruning)": "correspondence + judges configuration-takes-effect (library's own extraction, and the independent resolver nodeAt with key defaults) after every successful apply"},
    "C02": {"frame law of the merge and of a first apply (what the configuration is silent about is kept, where the merge descends); refutations without that condition": "theorems",
            "adds/changes only configuration fields; removes only beneath abandoned fields; others keep values (apply with pruning)": "correspondence + judges (frame conditions on Compare(live, result))",
            "disjoint configurations commute": "judge disjoint-configurations-commute (reading R13)"},
    "C03": {"a manager's first apply removes nothing; what prune keeps (owned way / outside the previous record); an abandoned unowned scalar leaf is removed; C01 for every apply (single version)": "theorems",
            "containers left without content; multi-version; exactness of the removed set": "correspondence + judge abandoned-field-removed (reading R3)"},
    "C04": {"force never conflicts; unforced success = forced; conflict non-empty, other managers only; the conflict list is exactly the other managers' paths the comparison reports modified or added (identity converter)": "theorems",
            "the comparison itself": "C11 theorems; judge with an independent changed-leaf detection (resolver)"},
    "C05": {"applier owns exactly its (filtered) configuration; others only shrink, keep version/status; no empty record; updater equation; exact change of every other record after Update and after Apply, under any per-version ignore configuration (comparison filtered with the filter of the record's own version; unfiltered form under the C19 invariant, refuted without it); ManagedFields.Equals / Difference laws": "theorems (managed fields sorted by manager = Go map invariant; identity converter)",
            "the same through the implementation": "judges against an independent diff (each record under the configuration of its own version); under a real renaming converter the single-version run is the reference (mv domain); hlp domain"},
    "C06": {"along every history of Updates: live object valid, managed fields well formed, every owned path designates a node of the live object (independent resolver); one-step lemmas for Update and a first Apply": "theorems (Compare facts discharged from C11 exactness)",
            "apply with pruning; only conflict errors": "correspondence + judges (independent path resolver)",
            "typed operations total on accepted values": "theorems SMD.C13.*_ok_of_valid"},
    "C07": {"no-op signal exact": "theorems",
            "re-apply fixed point when nothing was pruned (first apply) / when the merge absorbs the configuration; refutations for configurations with empty items or containers (O10)": "theorems",
            "re-apply / extract-apply fixed point in general": "judge (second Apply after every successful apply, plain configurations)"},
    "C08": {"conversion failure at any recorded version surfaces as an error with no object": "theorems (for every converter)",
            "arguments unchanged": "observational: canonical snapshots before/after every call in every domain"},
    "C09": {"every Go map iteration accounted for; pooled walkers reset every field except listed scratch fields; permutation invariance of conflicts, per-version unions, map validation, map field sets; D10 witness": "theorems (fact tables regenerated from /repo each run)",
            "independence of call history / pooled state / representation / process-wide caches": "observational: repeat-call judges, 3x3 representations, iso domain (fresh-process pairs); every op of the property's domains counts (the model is a pure function)"},
    "C10": {"protocols (once, mutex memo, copy-on-write cache) linearizable, sound, exclusive": "theorems over all interleavings",
            "every access to the shared fields inside its protocol": "theorem guard_table_admissible on the table regenerated from /repo each run",
            "no data race in the Go memory model": "race detector on the conc domain (search tool)"},
    "C11": {"self-comparison empty; from/to nothing only adds/removes; result sets well formed; operand swap; pairwise disjointness (duplicate-free operands); added / removed / modified characterised by the nodes the operands hold (nodeAt, and Nodes.present for associative lists)": "theorems",
            "empty exactly when equal up to member order; duplicates": "correspondence + judges (independent normal form)"},
    "C12": {"scalar right-wins; merge with nothing; result valid (duplicates allowed on the left); duplicate-free result, field set ⊆ union, R's field set ⊆ result's, merging R again is a no-op (scalar key fields; refutations otherwise); panic only from unresolved inline reference; totality": "theorems",
            "right wins / no removal at nodes: C01 and C02 theorems": "theorems",
            "associativity / ordering of members": "correspondence + judges"},
    "C13": {"accepted iff conforms (independent reference validator); never panics; resolve congruence; operations total on accepted values": "theorems",
            "schema documents accepted iff they conform to the schema of schemas": "correspondence against validation of the decoded document under the schema of schemas shipped from the source"},
    "C14": {"remove/extract nothing; field sets well formed; no invented entries; node laws; extracting all leaves reproduces the object; field set of remove(S) disjoint from S; partition law for values without lists and for field leaves": "theorems",
            "partition law with whole list items in S (equality up to member order)": "judge; exhaustive over leaf subsets in typx"},
    "C15": {"all clauses": "theorems (refinement of every trie operation to set algebra on paths, invariant closure, iteration order, extensional equality)"},
    "C16": {"parse(emit s) = s; every parse well formed; unknown kinds skipped; repeated keys tolerated": "theorems (tree level, any lawful key codec)",
            "the concrete codec is lawful down to JSON text (sorted keys, numbers and indexes in the range of the Go types: PE.inGoDomain; refuted outside); whatever the text, maps inside a parsed element are canonical; the key sort is stable; canonical form: equal sets with plainly spelled numbers serialise identically; D6 witness": "theorems",
            "bytes of jsoniter, byte fuzz": "correspondence + judges; known finding D6"},
    "C17": {"all clauses for values, key lists, path elements, matchers, paths, sorted containers": "theorems",
            "schema equality is an equivalence and relates exactly the schemas identical up to the sign of zero defaults": "theorems (+ correspondence on re-parses and single-point edits incl. unions)"},
    "C18": {"Set/Delete change exactly that entry (abstract value)": "theorems",
            "Set/Delete on reflected Go data at any depth: a successful operation changes exactly that entry of the library's reading (everything outside the container unchanged), incl. the replacement copy of a struct held in a Go map; outcome ok / refused / panic characterised": "theorems about the model ReflectSet.lean (C18Set), tied to the real Map.Set / Map.Delete by rfl.set / rfl.del; judge through encoding/json alone; known findings D20, D21",
            "reflection = encoding/json round trip on the Go family (reflectV vs jsonV: both total, Equal results, same keys, sorted fields)": "theorems about the two models (uint below 2^63: above it the code differs from encoding/json, known finding D23, refuted in the model); both models tied to the real NewValueReflect and encoding/json by rfl.conv / rfl.json",
            "equality/ordering/typed operations agree across representations; custom marshalers; JSON/YAML round trips": "correspondence + judges (external libraries)"},
    "C19": {"the merge of include patterns / matcher trees is correct: compatible with the merged matcher = compatible with one of the patterns (merge_patterns_spec, merge_trees_spec)": "theorems",
            "filter algebra (exclude = recursive difference, include = compatible paths); actor never owns ignored paths; over all histories: records well formed, and every record respects the configuration of its own version (any mix of exclusion sets, include patterns and versions without an entry: reachable_respects_version_filter); ignored-only changes: no conflict, nothing taken": "theorems",
            "ignored values flow": "judges; known finding D8 (kernel-checked witness)"},
    "C20": {"records at missing versions dropped without effect": "theorems",
            "granular -> atomic reconcile": "correspondence + judge (cut at outermost atomic prefix, idempotent); theorems when present in the audit (C20Reconcile)",
            "lossless converter transparency": "false of the code (known finding D11, kernel-checked witness d11_versioned_reapply_differs_witness); elsewhere correspondence (renaming converter in the model) + judge versioned run = single-version run"},
}
for _p, _c in CLAUSES.items():
    if _p in PROPS:
        PROPS[_p]["clauses"] = _c
