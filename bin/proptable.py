"""Static table: property -> op domains, theorem module, op-name -> properties served."""

TRUSTED_BASE = [
    "Lean 4.33.0 kernel (re-checked by leanchecker in the thorough tier); axioms allowed: propext, Classical.choice, Quot.sound; no native_decide, bv_decide, sorry, user axioms",
    "the hand-written Lean model (lean/SMD/Model) is modelled, not verified: its tie to /repo is the correspondence harness (generators, VX1 printer in Go, VX1 parser/printer in Lean, canonicalisation of Go map order, the line diff)",
    "external code outside the model: Go runtime, sort, reflect, encoding/json, jsoniter, goyaml",
    "readings R1-R9 of natural-language clauses recorded in DESIGN.md section 6.0",
]

# op name -> properties for which a model/implementation difference on that op is a broken tie
OP_PROPS = {
    "val.cmp": ["C17", "C18"],
    "fl.cmp": ["C17"],
    "fl.sort": ["C17"],
    "pe.cmp": ["C17"],
    "path.cmp": ["C17"],
    "pem.cmp": ["C17", "C19"],
    "pes.build": ["C17", "C15"],
    "pemap.build": ["C17"],
    "set.new": ["C15", "C16"],
    "set.bin": ["C15", "C19"],
    "set.leaves": ["C15"],
    "set.has": ["C15"],
    "set.prefix": ["C15", "C14"],
    "typ.schema": ["C11", "C12", "C13", "C14"],
    "typ.validate": ["C13"],
    "typ.fs": ["C14", "C13"],
    "typ.cmp": ["C11", "C13"],
    "typ.merge": ["C12", "C13"],
    "typ.remove": ["C14", "C13"],
    "typ.extract": ["C14", "C13"],
    "sch.equals": ["C17"],
    "ser.pe": ["C16"],
    "ser.depe": ["C16"],
    "ser.emit": ["C16"],
    "ser.read": ["C16"],
    "flt.apply": ["C19"],
    "flt.ensure": ["C02", "C03", "C15"],
    "rec.reconcile": ["C20"],
    "upd.reset": ["C01", "C02", "C03", "C04", "C05", "C06", "C07", "C19", "C20"],
    "upd.apply": ["C01", "C02", "C03", "C04", "C05", "C06", "C07", "C19", "C20"],
    "upd.update": ["C05", "C06", "C19", "C20"],
}

PROPS = {
    "C17": {
        "domains": [
            {"name": "val", "n_quick": 3000, "n_thorough": 60000},
            {"name": "pe", "n_quick": 2000, "n_thorough": 40000},
            {"name": "sch", "n_quick": 150, "n_thorough": 3000},
        ],
        "lean_modules": ["SMD.Proofs.ValueOrder", "SMD.Properties.C17"],
        "theorems": [],
        "assumptions": ["ints compared with floats stay within |i| <= 2^53 (the property's quantifier); no NaN/Inf; valid UTF-8"],
    },
    "C15": {
        "domains": [{"name": "set", "n_quick": 3000, "n_thorough": 30000}],
        "lean_modules": ["SMD.Proofs.SetAlgebra", "SMD.Properties.C15"],
        "theorems": [],
        "assumptions": [],
    },
}

for _p in ("C11", "C12", "C13", "C14"):
    PROPS[_p] = {
        "domains": [{"name": "typ", "n_quick": 1500, "n_thorough": 30000}],
        "lean_modules": ["SMD.Properties." + _p],
        "theorems": [],
        "assumptions": ["schemas of the generated family (sgen): structs, maps, sets, keyed lists (1, 2, defaulted keys), atomic list/map/struct, recursive types, deduced type, named / inlined / relationship-overriding references"],
    }

for _p in ("C01", "C02", "C03", "C04", "C05", "C06", "C07", "C19"):
    PROPS[_p] = {
        "domains": [{"name": "upd", "n_quick": 1200, "n_thorough": 30000}],
        "lean_modules": ["SMD.Properties." + _p],
        "theorems": [],
        "assumptions": ["identity converter over 1-4 version labels; schemas of the generated family (sgen)"],
    }

PROPS["C13"]["domains"].append({"name": "sch", "n_quick": 150, "n_thorough": 3000})
PROPS["C19"]["domains"].append({"name": "flt", "n_quick": 1500, "n_thorough": 30000})
PROPS["C20"] = {
    "domains": [{"name": "rec", "n_quick": 3000, "n_thorough": 60000},
                {"name": "upd", "n_quick": 800, "n_thorough": 20000}],
    "lean_modules": ["SMD.Properties.C20"],
    "theorems": [],
    "assumptions": ["identity converter; lossless renaming converters are future work of this check (see DESIGN)"],
}

PROPS["C08"] = {
    "domains": [{"name": "upd", "n_quick": 800, "n_thorough": 20000},
                {"name": "typ", "n_quick": 800, "n_thorough": 20000},
                {"name": "set", "n_quick": 1500, "n_thorough": 20000},
                {"name": "flt", "n_quick": 500, "n_thorough": 10000},
                {"name": "rec", "n_quick": 1000, "n_thorough": 20000}],
    "lean_modules": ["SMD.Properties.C08"],
    "theorems": [],
    "assumptions": ["partial: the model has value semantics, so 'arguments unchanged' is decided observationally by deep snapshots (canonical encodings of live object, submitted object, managed fields incl. every trie, set operands) taken before and after every call of every domain; the theorems cover the conversion-failure clause for every converter and failure position"],
    "explanation": "partial by proof: aliasing of arbitrary Go data is a runtime matter that the value-semantic model cannot exhibit",
}

PROPS["C16"] = {
    "domains": [{"name": "ser", "n_quick": 2500, "n_thorough": 60000},
                {"name": "set", "n_quick": 500, "n_thorough": 5000}],
    "lean_modules": ["SMD.Properties.C16"],
    "theorems": [],
    "assumptions": ["the JSON text layer (jsoniter lexer, escaping, number formatting) is external: the model's printer/reader covers standard JSON with numbers whose shortest decimal form is exact; other payloads are answered 'unsupported' by the model and judged on the implementation only"],
}

PROPS["C09"] = {
    "domains": [{"name": "upd", "n_quick": 800, "n_thorough": 20000},
                {"name": "typ", "n_quick": 800, "n_thorough": 20000},
                {"name": "val", "n_quick": 1500, "n_thorough": 30000},
                {"name": "ser", "n_quick": 800, "n_thorough": 20000}],
    "lean_modules": ["SMD.Properties.C09", "SMD.Spec.Facts", "SMD.Generated.MapRanges"],
    "theorems": ["SMD.C09.all_map_ranges_covered"],
    "assumptions": ["partial: state left in pooled walkers and freelist reuse are runtime matters decided observationally by the repeat-call judges (every op repeated after unrelated, failing and conflicting calls and after GC); the theorem covers the iteration order of every Go map, against a table regenerated from the source on every run"],
    "explanation": "partial by proof",
}
PROPS["C10"] = {
    "domains": [{"name": "conc", "n_quick": 120, "n_thorough": 3000, "race": True}],
    "lean_modules": ["SMD.Properties.C10", "SMD.Spec.Facts", "SMD.Generated.SyncFacts"],
    "theorems": ["SMD.C10.guard_table_admissible"],
    "assumptions": ["partial: the Go memory model is not modelled; the harness is built with -race and a race report fails the check with the report as replay; the theorem checks the guard context of every access to the shared lazily-initialised fields against a table regenerated from the source on every run"],
    "explanation": "partial by proof",
}
OP_PROPS["conc.round"] = ["C10"]
OP_PROPS["gmap.ops"] = ["C18"]
OP_PROPS["upd.mode"] = ["C20"]
OP_PROPS["upd.sync"] = ["C20"]
OP_PROPS["upd.conv"] = ["C08", "C20"]
PROPS["C20"]["domains"].append({"name": "mv", "n_quick": 800, "n_thorough": 20000})
PROPS["C20"]["assumptions"] = ["identity converter with versions lost / failing mid-history (upd), and a lossless field-renaming converter over three versions (mv); the model's renaming converter assumes the converted object is valid in the target type (losslessness)"]
PROPS["C18"] = {
    "domains": [{"name": "rfl", "n_quick": 2500, "n_thorough": 60000},
                {"name": "val", "n_quick": 1500, "n_thorough": 30000}],
    "lean_modules": ["SMD.Properties.C18"],
    "theorems": [],
    "assumptions": ["partial: encoding/json, jsoniter and goyaml are external libraries; the agreement of reflection with the JSON round trip is decided by the rfl domain on run-time generated types (embedded structs carry the inline option, no uint64, no omitzero, float values exactly representable), not by a theorem; the theorems cover the contract of the generic map interface on the abstract value"],
    "explanation": "partial by proof",
}

HOOK_COMMITS = []
NOT_APPLICABLE = {}
