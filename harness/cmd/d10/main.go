// Command d10 replays the witness of finding D10 (DESIGN.md §7): with managers at three API versions
// the result of Apply depends on Go's map iteration order in addBackOwnedItems.
package main

import (
	"fmt"

	"sigs.k8s.io/structured-merge-diff/v6/fieldpath"
	"sigs.k8s.io/structured-merge-diff/v6/merge"
	"sigs.k8s.io/structured-merge-diff/v6/typed"
)

type same struct{}

func (same) Convert(o *typed.TypedValue, v fieldpath.APIVersion) (*typed.TypedValue, error) { return o, nil }
func (same) IsMissingVersionError(error) bool                                              { return false }

func main() {
	p, err := typed.NewParser(`types:
- name: root
  map:
    fields:
    - name: l
      type:
        list:
          elementRelationship: associative
          keys: ["name"]
          elementType: {namedType: item}
- name: item
  map:
    fields:
    - name: name
      type: {scalar: string}
    - name: sub
      type:
        list:
          elementRelationship: associative
          elementType: {scalar: numeric}
`)
	if err != nil {
		panic(err)
	}
	up := (&merge.UpdaterBuilder{Converter: same{}}).BuildUpdater()
	tv := func(s string) *typed.TypedValue {
		v, err := p.Type("root").FromYAML(typed.YAMLObject(s))
		if err != nil {
			panic(err)
		}
		return v
	}
	outcomes := map[string]int{}
	for i := 0; i < 200; i++ {
		live := tv("null")
		m := fieldpath.ManagedFields{}
		// a1 applies item c at v2
		live, m, err = up.Apply(live, tv(`{"l":[{"name":"c","sub":[0]}]}`), "v2", m, "a1", false)
		if err != nil {
			panic(err)
		}
		// u1 (an updater, at v1) adds a member to the item's set: it owns l[name=c].sub[=1] only
		obj := tv(`{"l":[{"name":"c","sub":[0,1]}]}`)
		live, m, err = up.Update(live, obj, "v1", m, "u1")
		if err != nil {
			panic(err)
		}
		// a1 re-applies the item without its set member, now at v4: sub[=0] must go, sub[=1] (u1's) must stay
		res, _, err := up.Apply(live, tv(`{"l":[{"name":"c"}]}`), "v4", m, "a1", false)
		if err != nil {
			panic(err)
		}
		if res == nil {
			outcomes["<unchanged>"]++
		} else {
			outcomes[fmt.Sprint(res.AsValue().Unstructured())]++
		}
	}
	fmt.Println("outcomes of the identical third call over 200 runs:", outcomes)
}
