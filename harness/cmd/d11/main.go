// Command d11 replays the witness of finding D11 (DESIGN.md §7): with managers at two API versions
// (labels only: the converter is the identity) a re-apply gives another object than the same
// requests sent at one version, because addBackOwnedItems adds back version by version.
package main

import (
	"fmt"

	"sigs.k8s.io/structured-merge-diff/v6/fieldpath"
	"sigs.k8s.io/structured-merge-diff/v6/merge"
	"sigs.k8s.io/structured-merge-diff/v6/typed"
)

type same struct{}

func (same) Convert(o *typed.TypedValue, v fieldpath.APIVersion) (*typed.TypedValue, error) { return o, nil }
func (same) IsMissingVersionError(error) bool                                              { return false }

func main() {
	p, err := typed.NewParser(`types:
- name: root
  map:
    fields:
    - name: l
      type:
        list:
          elementRelationship: associative
          keys: ["name"]
          elementType: {namedType: item}
- name: item
  map:
    fields:
    - name: name
      type: {scalar: string}
    - name: sub
      type:
        list:
          elementRelationship: associative
          elementType: {scalar: numeric}
`)
	if err != nil {
		panic(err)
	}
	up := (&merge.UpdaterBuilder{Converter: same{}}).BuildUpdater()
	tv := func(s string) *typed.TypedValue {
		v, err := p.Type("root").FromYAML(typed.YAMLObject(s))
		if err != nil {
			panic(err)
		}
		return v
	}
	run := func(second fieldpath.APIVersion) string {
		live := tv("null")
		m := fieldpath.ManagedFields{}
		// a1 applies item c with a set member, at v1
		live, m, err = up.Apply(live, tv(`{"l":[{"name":"c","sub":[0]}]}`), "v1", m, "a1", false)
		if err != nil {
			panic(err)
		}
		// u1 (an updater, at v1) adds a member to the item's set: it owns l[name=c].sub[=1] only
		live, m, err = up.Update(live, tv(`{"l":[{"name":"c","sub":[0,1]}]}`), "v1", m, "u1")
		if err != nil {
			panic(err)
		}
		// a1 re-applies the item without its set member: sub[=0] must go, sub[=1] (u1's) must stay
		res, _, err := up.Apply(live, tv(`{"l":[{"name":"c"}]}`), second, m, "a1", false)
		if err != nil {
			panic(err)
		}
		if res == nil {
			res = live
		}
		return fmt.Sprint(res.AsValue().Unstructured())
	}
	fmt.Println("re-apply at v1 (single-version run):", run("v1"))
	fmt.Println("re-apply at v2 (a1 switched version):", run("v2"))
}
