// Command d17 replays the witness of finding D17 (DESIGN.md §8.1): an empty list owned by another
// manager disappears, with its record, when an applier abandons the last other field of the struct that
// holds it; an empty map in the same place is kept.
package main

import (
	"fmt"

	"sigs.k8s.io/structured-merge-diff/v6/fieldpath"
	"sigs.k8s.io/structured-merge-diff/v6/merge"
	"sigs.k8s.io/structured-merge-diff/v6/typed"
)

type same struct{}

func (same) Convert(o *typed.TypedValue, v fieldpath.APIVersion) (*typed.TypedValue, error) { return o, nil }
func (same) IsMissingVersionError(error) bool                                              { return false }

func main() {
	p, err := typed.NewParser(`types:
- name: root
  map:
    fields:
    - name: spec
      type: {namedType: spec}
    - name: other
      type: {scalar: numeric}
- name: spec
  map:
    fields:
    - name: f
      type: {scalar: numeric}
    - name: sibl
      type:
        list:
          elementRelationship: associative
          elementType: {scalar: numeric}
    - name: sibm
      type:
        map:
          elementType: {scalar: numeric}
`)
	if err != nil {
		panic(err)
	}
	up := (&merge.UpdaterBuilder{Converter: same{}}).BuildUpdater()
	tv := func(s string) *typed.TypedValue {
		v, err := p.Type("root").FromYAML(typed.YAMLObject(s))
		if err != nil {
			panic(err)
		}
		return v
	}
	for _, sib := range []string{`"sibl": []`, `"sibm": {}`} {
		live := tv("null")
		m := fieldpath.ManagedFields{}
		obj, m, err := up.Apply(live, tv(`{"spec": {"f": 1}, "other": 1}`), "v1", m, "a", false)
		if err != nil {
			panic(err)
		}
		live = obj
		newObj := tv(`{"spec": {"f": 1, ` + sib + `}, "other": 1}`)
		_, m, err = up.Update(live, newObj, "v1", m, "u")
		if err != nil {
			panic(err)
		}
		live = newObj
		fmt.Printf("u updates to %v and owns %v\n", live.AsValue().Unstructured(), m["u"].Set())
		obj, m, err = up.Apply(live, tv(`{"other": 1}`), "v1", m, "a", false)
		if err != nil {
			panic(err)
		}
		if obj != nil {
			live = obj
		}
		_, stillThere := m["u"]
		fmt.Printf("a re-applies {other: 1} (drops spec.f): live = %v ; u still has a record: %v\n\n", live.AsValue().Unstructured(), stillThere)
	}
}
