// Command d8 replays the minimal witness of finding D8 (DESIGN.md §7) against the real code.
package main

import (
	"fmt"

	"sigs.k8s.io/structured-merge-diff/v6/fieldpath"
	"sigs.k8s.io/structured-merge-diff/v6/merge"
	"sigs.k8s.io/structured-merge-diff/v6/typed"
)

type same struct{}

func (same) Convert(o *typed.TypedValue, v fieldpath.APIVersion) (*typed.TypedValue, error) { return o, nil }
func (same) IsMissingVersionError(error) bool                                              { return false }

func main() {
	p, err := typed.NewParser(`types:
- name: root
  map:
    fields:
    - name: f1
      type: {namedType: pt}
- name: pt
  map:
    fields:
    - name: "x"
      type: {scalar: numeric}
    - name: "y"
      type: {scalar: numeric}
`)
	if err != nil {
		panic(err)
	}
	ignored := fieldpath.NewSet(fieldpath.MakePathOrDie("f1", "y"))
	up := (&merge.UpdaterBuilder{Converter: same{}, IgnoredFields: map[fieldpath.APIVersion]*fieldpath.Set{"v1": ignored}}).BuildUpdater()
	live, _ := p.Type("root").FromYAML("null")
	managers := fieldpath.ManagedFields{}
	for i, cfg := range []string{`{"f1": {"x": 1, "y": 1}}`, `{"f1": {"y": 2}}`} {
		tv, err := p.Type("root").FromYAML(typed.YAMLObject(cfg))
		if err != nil {
			panic(err)
		}
		obj, m, err := up.Apply(live, tv, "v1", managers, "a1", false)
		if err != nil {
			panic(err)
		}
		if obj != nil {
			live = obj
		}
		managers = m
		fmt.Printf("step %d: applied %s -> live = %v ; managed = %v\n", i+1, cfg, live.AsValue().Unstructured(), managers)
	}
}
