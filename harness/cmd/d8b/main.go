package main

import (
	"fmt"

	"sigs.k8s.io/structured-merge-diff/v6/fieldpath"
	"sigs.k8s.io/structured-merge-diff/v6/merge"
	"sigs.k8s.io/structured-merge-diff/v6/typed"
	"sigs.k8s.io/structured-merge-diff/v6/value"
)

type conv struct{}

func (conv) Convert(o *typed.TypedValue, v fieldpath.APIVersion) (*typed.TypedValue, error) { return o, nil }
func (conv) IsMissingVersionError(error) bool                                                { return false }

func main() {
	parser, err := typed.NewParser(`types:
- name: root
  map:
    fields:
    - name: f0
      type: {scalar: string}
    - name: f4
      type:
        list:
          elementType: {namedType: item}
          elementRelationship: associative
          keys: [port, proto]
- name: item
  map:
    fields:
    - name: port
      type: {scalar: numeric}
    - name: proto
      type: {scalar: string}
      default: "TCP"
    - name: value
      type: {scalar: numeric}
`)
	if err != nil {
		panic(err)
	}
	pt := parser.Type("root")
	b := "b"
	_ = b
	ign := fieldpath.NewSet(fieldpath.MakePathOrDie("f4", fieldpath.KeyByFields("port", 0, "proto", "b"), "proto"))
	for _, withIgnore := range []bool{false, true} {
		bld := &merge.UpdaterBuilder{Converter: conv{}}
		if withIgnore {
			bld.IgnoreFilter = map[fieldpath.APIVersion]fieldpath.Filter{"v1": fieldpath.NewExcludeSetFilter(ign)}
		}
		u := bld.BuildUpdater()
		live, _ := pt.FromYAML("{}")
		cfg1, err := pt.FromYAML(`{f0: a, f4: [{port: 0}, {port: 0, proto: b, value: 1}]}`)
		if err != nil {
			panic(err)
		}
		o1, m1, err := u.Apply(live, cfg1, "v1", fieldpath.ManagedFields{}, "a1", false)
		fmt.Println("ignore:", withIgnore, "first apply err:", err)
		if o1 == nil {
			o1 = live
		}
		for _, second := range []string{`{f0: a, f4: [{port: 0}, {port: 0, proto: b, value: 1}]}`, `{f0: null, f4: [{port: 0}, {port: 0, proto: b, value: 1}]}`, `{f4: [{port: 0}, {port: 0, proto: b, value: 2}]}`} {
			cfg2, err := pt.FromYAML(typed.YAMLObject(second))
			if err != nil {
				panic(err)
			}
			o2, _, err := u.Apply(o1, cfg2, "v1", m1, "a1", true)
			var out interface{}
			if o2 != nil {
				out = o2.AsValue().Unstructured()
			}
			fmt.Printf("   re-apply %s -> err=%v obj=%v\n", second, err, out)
		}
	}
	_ = value.NewValueInterface
}
