// Command factgen regenerates Lean fact tables from /repo's current source (DESIGN.md §4, C09/C10):
//
//	MapRanges.lean   every `range` over a map-typed expression in non-test code
//	SyncFacts.lean   every access to the shared, lazily initialised fields with its guard context
package main

import (
	"flag"
	"fmt"
	"go/ast"
	"go/importer"
	"go/parser"
	"go/token"
	"go/types"
	"os"
	"path/filepath"
	"sort"
	"strings"
)

var pkgs = []string{"value", "fieldpath", "schema", "typed", "merge"}

type mapRange struct{ file, fn, expr string }

type access struct{ file, fn, field, base, guard string }

type callSite struct{ file, fn, callee, guard string }

func main() {
	repo := flag.String("repo", "/repo", "repository root")
	out := flag.String("out", ".", "output directory for generated Lean files")
	flag.Parse()
	if err := os.Chdir(*repo); err != nil {
		fatal(err)
	}
	fset := token.NewFileSet()
	imp := importer.ForCompiler(fset, "source", nil)
	var ranges []mapRange
	var accesses []access
	var calls []callSite
	var pools []poolFact
	for _, p := range pkgs {
		dir := filepath.Join(*repo, p)
		parsed, err := parser.ParseDir(fset, dir, func(fi os.FileInfo) bool { return !strings.HasSuffix(fi.Name(), "_test.go") }, parser.ParseComments)
		if err != nil {
			fatal(err)
		}
		for _, pkg := range parsed {
			var files []*ast.File
			var names []string
			for n := range pkg.Files {
				names = append(names, n)
			}
			sort.Strings(names)
			for _, n := range names {
				f := pkg.Files[n]
				if hasBuildTag(f, "verif") {
					continue
				}
				files = append(files, f)
			}
			info := &types.Info{Types: map[ast.Expr]types.TypeAndValue{}, Selections: map[*ast.SelectorExpr]*types.Selection{},
				Uses: map[*ast.Ident]types.Object{}, Defs: map[*ast.Ident]types.Object{}}
			conf := types.Config{Importer: imp, Error: func(error) {}}
			if _, err := conf.Check("sigs.k8s.io/structured-merge-diff/v6/"+p, fset, files, info); err != nil {
				fmt.Fprintln(os.Stderr, "factgen: type check:", err)
			}
			pools = append(pools, poolFacts(p, fset, files, info)...)
			underLock := lockInheritance(files, info)
			for _, f := range files {
				fname := p + "/" + filepath.Base(fset.Position(f.Pos()).Filename)
				for _, d := range f.Decls {
					fd, ok := d.(*ast.FuncDecl)
					if !ok || fd.Body == nil {
						continue
					}
					fn := funcName(fd)
					inherits := underLock(fd)
					ast.Inspect(fd.Body, func(n ast.Node) bool {
						if rs, ok := n.(*ast.RangeStmt); ok {
							if tv, ok := info.Types[rs.X]; ok {
								if _, isMap := tv.Type.Underlying().(*types.Map); isMap {
									ranges = append(ranges, mapRange{fname, fn, exprString(rs.X)})
								}
							}
						}
						return true
					})
					for _, a := range syncAccesses(fname, fn, fd, info) {
						if a.guard == "none" && inherits {
							a.guard = "locked"
						}
						accesses = append(accesses, a)
					}
					for _, c := range copyIntoCalls(fname, fn, fd, info) {
						if c.guard == "none" && inherits {
							c.guard = "locked"
						}
						calls = append(calls, c)
					}
				}
			}
		}
	}
	sort.Slice(ranges, func(i, j int) bool {
		a, b := ranges[i], ranges[j]
		return a.file+a.fn+a.expr < b.file+b.fn+b.expr
	})
	sort.Slice(accesses, func(i, j int) bool {
		a, b := accesses[i], accesses[j]
		return a.file+a.fn+a.field+a.base+a.guard < b.file+b.fn+b.field+b.base+b.guard
	})
	writeMapRanges(filepath.Join(*out, "MapRanges.lean"), ranges)
	sort.Slice(calls, func(i, j int) bool {
		a, b := calls[i], calls[j]
		return a.file+a.fn+a.callee+a.guard < b.file+b.fn+b.callee+b.guard
	})
	writeSync(filepath.Join(*out, "SyncFacts.lean"), accesses, calls)
	sort.Slice(pools, func(i, j int) bool {
		a, b := pools[i], pools[j]
		return a.file+a.walker+a.field < b.file+b.walker+b.field
	})
	writePools(filepath.Join(*out, "PoolFacts.lean"), pools)
	fmt.Printf("factgen: %d map ranges, %d shared-field accesses\n", len(ranges), len(accesses))
}

// poolFact: a field of a pooled object that is assigned neither where the object is taken from its
// sync.Pool nor where it is put back (it keeps its value from the previous use).
type poolFact struct{ file, walker, field string }

// poolFacts: for every package-level sync.Pool whose New returns &T{}, the fields of T that no function
// containing a Get or Put of that pool assigns (through any expression of type *T, closures included).
func poolFacts(pkg string, fset *token.FileSet, files []*ast.File, info *types.Info) []poolFact {
	type pool struct {
		obj   types.Object
		named *types.Named
		file  string
	}
	var pools []pool
	for _, f := range files {
		for _, d := range f.Decls {
			gd, ok := d.(*ast.GenDecl)
			if !ok || gd.Tok != token.VAR {
				continue
			}
			for _, sp := range gd.Specs {
				vs, ok := sp.(*ast.ValueSpec)
				if !ok || len(vs.Names) != 1 || len(vs.Values) != 1 {
					continue
				}
				cl, ok := vs.Values[0].(*ast.CompositeLit)
				if !ok {
					continue
				}
				if tv, ok := info.Types[cl]; !ok || tv.Type.String() != "sync.Pool" {
					continue
				}
				// New: func() interface{} { return &T{} }
				var named *types.Named
				ast.Inspect(cl, func(n ast.Node) bool {
					if ue, ok := n.(*ast.UnaryExpr); ok && ue.Op == token.AND {
						if tv, ok := info.Types[ue.X]; ok {
							if nm, ok := tv.Type.(*types.Named); ok {
								named = nm
							}
						}
					}
					return true
				})
				if named != nil {
					pools = append(pools, pool{info.Defs[vs.Names[0]], named, pkg + "/" + filepath.Base(fset.Position(f.Pos()).Filename)})
				}
			}
		}
	}
	var out []poolFact
	for _, pl := range pools {
		st, ok := pl.named.Underlying().(*types.Struct)
		if !ok {
			continue
		}
		assigned := map[string]bool{}
		for _, f := range files {
			for _, d := range f.Decls {
				fd, ok := d.(*ast.FuncDecl)
				if !ok || fd.Body == nil {
					continue
				}
				uses := false
				ast.Inspect(fd.Body, func(n ast.Node) bool {
					if ce, ok := n.(*ast.CallExpr); ok {
						if se, ok := ce.Fun.(*ast.SelectorExpr); ok && (se.Sel.Name == "Get" || se.Sel.Name == "Put") {
							if id, ok := se.X.(*ast.Ident); ok && info.Uses[id] == pl.obj {
								uses = true
							}
						}
					}
					return true
				})
				if !uses {
					continue
				}
				ast.Inspect(fd.Body, func(n ast.Node) bool {
					as, ok := n.(*ast.AssignStmt)
					if !ok {
						return true
					}
					for _, lhs := range as.Lhs {
						se, ok := lhs.(*ast.SelectorExpr)
						if !ok {
							continue
						}
						if tv, ok := info.Types[se.X]; ok {
							t := tv.Type
							if p, ok := t.(*types.Pointer); ok {
								t = p.Elem()
							}
							if nm, ok := t.(*types.Named); ok && nm.Obj() == pl.named.Obj() {
								assigned[se.Sel.Name] = true
							}
						}
					}
					return true
				})
			}
		}
		for i := 0; i < st.NumFields(); i++ {
			if !assigned[st.Field(i).Name()] {
				out = append(out, poolFact{pl.file, pl.named.Obj().Name(), st.Field(i).Name()})
			}
		}
	}
	return out
}

func writePools(path string, ps []poolFact) {
	var b strings.Builder
	b.WriteString("/- GENERATED by harness/cmd/factgen from /repo on every run. Do not edit. -/\nnamespace SMD.Generated\n\n")
	b.WriteString("/-- fields of pooled walkers that are assigned neither where the walker is taken from its sync.Pool nor\nwhere it is put back: (file of the pool, walker type, field) -/\n")
	b.WriteString("def poolKept : List (String × String × String) := [\n")
	for i, p := range ps {
		sep := ","
		if i == len(ps)-1 {
			sep = ""
		}
		fmt.Fprintf(&b, "  (%s, %s, %s)%s\n", leanStr(p.file), leanStr(p.walker), leanStr(p.field), sep)
	}
	b.WriteString("]\n\nend SMD.Generated\n")
	writeIfChanged(path, b.String())
}

// firstLock: the position of the first <x>.Lock() call in fd (NoPos if none).
func firstLock(fd *ast.FuncDecl) token.Pos {
	pos := token.NoPos
	ast.Inspect(fd.Body, func(n ast.Node) bool {
		if ce, ok := n.(*ast.CallExpr); ok {
			if se, ok := ce.Fun.(*ast.SelectorExpr); ok && se.Sel.Name == "Lock" && pos == token.NoPos {
				pos = ce.Pos()
			}
		}
		return true
	})
	return pos
}

// lockInheritance: an unexported function all of whose call sites in the package lie after a Lock() in
// their caller (or in a function that itself inherits the lock) runs under that lock: its accesses
// count as locked. Exported functions and functions without call sites inherit nothing.
func lockInheritance(files []*ast.File, info *types.Info) func(*ast.FuncDecl) bool {
	type site struct {
		caller *ast.FuncDecl
		pos    token.Pos
	}
	declOf := map[types.Object]*ast.FuncDecl{}
	var decls []*ast.FuncDecl
	for _, f := range files {
		for _, d := range f.Decls {
			if fd, ok := d.(*ast.FuncDecl); ok && fd.Body != nil {
				if obj := info.Defs[fd.Name]; obj != nil {
					declOf[obj] = fd
				}
				decls = append(decls, fd)
			}
		}
	}
	sites := map[*ast.FuncDecl][]site{}
	for _, caller := range decls {
		caller := caller
		ast.Inspect(caller.Body, func(n ast.Node) bool {
			ce, ok := n.(*ast.CallExpr)
			if !ok {
				return true
			}
			var id *ast.Ident
			switch f := ce.Fun.(type) {
			case *ast.Ident:
				id = f
			case *ast.SelectorExpr:
				id = f.Sel
			}
			if id != nil {
				if callee, ok := declOf[info.Uses[id]]; ok {
					sites[callee] = append(sites[callee], site{caller, ce.Pos()})
				}
			}
			return true
		})
	}
	// any other mention of the function (as a value) defeats the analysis
	mentioned := map[*ast.FuncDecl]int{}
	for id, obj := range info.Uses {
		_ = id
		if fd, ok := declOf[obj]; ok {
			mentioned[fd]++
		}
	}
	var inherits func(fd *ast.FuncDecl, visiting map[*ast.FuncDecl]bool) bool
	inherits = func(fd *ast.FuncDecl, visiting map[*ast.FuncDecl]bool) bool {
		if ast.IsExported(fd.Name.Name) || len(sites[fd]) == 0 || mentioned[fd] != len(sites[fd]) || visiting[fd] {
			return false
		}
		visiting[fd] = true
		defer delete(visiting, fd)
		for _, s := range sites[fd] {
			lp := firstLock(s.caller)
			if lp != token.NoPos && s.pos > lp {
				continue
			}
			if !inherits(s.caller, visiting) {
				return false
			}
		}
		return true
	}
	return func(fd *ast.FuncDecl) bool { return inherits(fd, map[*ast.FuncDecl]bool{}) }
}

func hasBuildTag(f *ast.File, tag string) bool {
	for _, cg := range f.Comments {
		if cg.Pos() > f.Package {
			break
		}
		for _, c := range cg.List {
			if strings.HasPrefix(c.Text, "//go:build") && strings.Contains(c.Text, tag) {
				return true
			}
		}
	}
	return false
}

func funcName(fd *ast.FuncDecl) string {
	if fd.Recv != nil && len(fd.Recv.List) > 0 {
		return exprString(fd.Recv.List[0].Type) + "." + fd.Name.Name
	}
	return fd.Name.Name
}

func exprString(e ast.Expr) string {
	switch t := e.(type) {
	case *ast.Ident:
		return t.Name
	case *ast.SelectorExpr:
		return exprString(t.X) + "." + t.Sel.Name
	case *ast.StarExpr:
		return "*" + exprString(t.X)
	case *ast.CallExpr:
		return exprString(t.Fun) + "()"
	case *ast.IndexExpr:
		return exprString(t.X) + "[]"
	case *ast.ParenExpr:
		return "(" + exprString(t.X) + ")"
	case *ast.UnaryExpr:
		return t.Op.String() + exprString(t.X)
	}
	return fmt.Sprintf("%T", e)
}

// ---------------------------------------------------------------------------------------------
// shared fields and their guard contexts

// sharedFields: struct type name -> field names that are written after construction and read concurrently
var sharedFields = map[string][]string{
	"Schema":           {"m", "resolvedTypes"},
	"Map":              {"m"},
	"typeReflectCache": {"value"},
}

// syncAccesses classifies every selector access to a shared field in fd:
//
//	once-init   inside the function literal passed to <recv>.once.Do
//	after-once  in a function that calls <recv>.once.Do before (textually) the access
//	locked      after a call to <x>.lock.Lock() / <x>.mu.Lock() in the same function (with deferred or later Unlock)
//	atomic      a method call on the field (Load / Store of atomic.Value)
//	none        anything else
func syncAccesses(file, fn string, fd *ast.FuncDecl, info *types.Info) []access {
	var out []access
	var onceDoPos, lockPos token.Pos = token.NoPos, token.NoPos
	var onceLits []*ast.FuncLit
	ast.Inspect(fd.Body, func(n ast.Node) bool {
		ce, ok := n.(*ast.CallExpr)
		if !ok {
			return true
		}
		se, ok := ce.Fun.(*ast.SelectorExpr)
		if !ok {
			return true
		}
		if se.Sel.Name == "Do" {
			if inner, ok := se.X.(*ast.SelectorExpr); ok && inner.Sel.Name == "once" {
				if onceDoPos == token.NoPos {
					onceDoPos = ce.Pos()
				}
				for _, a := range ce.Args {
					if fl, ok := a.(*ast.FuncLit); ok {
						onceLits = append(onceLits, fl)
					}
				}
			}
		}
		if se.Sel.Name == "Lock" {
			if lockPos == token.NoPos {
				lockPos = ce.Pos()
			}
		}
		return true
	})
	inOnceLit := func(p token.Pos) bool {
		for _, fl := range onceLits {
			if fl.Pos() <= p && p <= fl.End() {
				return true
			}
		}
		return false
	}
	var parents []ast.Node
	ast.Inspect(fd.Body, func(n ast.Node) bool {
		if n == nil {
			parents = parents[:len(parents)-1]
			return true
		}
		parents = append(parents, n)
		se, ok := n.(*ast.SelectorExpr)
		if !ok {
			return true
		}
		sel, ok := info.Selections[se]
		if !ok || sel.Kind() != types.FieldVal {
			return true
		}
		recv := sel.Recv()
		if p, ok := recv.(*types.Pointer); ok {
			recv = p.Elem()
		}
		named, ok := recv.(*types.Named)
		if !ok {
			return true
		}
		fields, ok := sharedFields[named.Obj().Name()]
		if !ok {
			return true
		}
		isShared := false
		for _, f := range fields {
			if f == se.Sel.Name {
				isShared = true
			}
		}
		if !isShared {
			return true
		}
		guard := "none"
		// method call on the field itself (atomic.Value Load/Store)?
		if len(parents) >= 2 {
			if pse, ok := parents[len(parents)-2].(*ast.SelectorExpr); ok && pse.X == se {
				if pse.Sel.Name == "Load" || pse.Sel.Name == "Store" {
					guard = "atomic"
				}
			}
		}
		switch {
		case guard == "atomic":
		case inOnceLit(se.Pos()):
			guard = "once-init"
		case lockPos != token.NoPos && se.Pos() > lockPos:
			guard = "locked"
		case onceDoPos != token.NoPos && se.Pos() > onceDoPos:
			guard = "after-once"
		}
		out = append(out, access{file, fn, named.Obj().Name() + "." + se.Sel.Name, exprString(se.X), guard})
		return true
	})
	return out
}

// ---------------------------------------------------------------------------------------------

func leanStr(s string) string { return "\"" + strings.ReplaceAll(strings.ReplaceAll(s, "\\", "\\\\"), "\"", "\\\"") + "\"" }

func writeMapRanges(path string, rs []mapRange) {
	var b strings.Builder
	b.WriteString("/- GENERATED by harness/cmd/factgen from /repo on every run. Do not edit. -/\nnamespace SMD.Generated\n\n")
	b.WriteString("/-- every `range` over a map-typed expression in non-test code: (file, function, ranged expression) -/\n")
	b.WriteString("def mapRanges : List (String × String × String) := [\n")
	for i, r := range rs {
		sep := ","
		if i == len(rs)-1 {
			sep = ""
		}
		fmt.Fprintf(&b, "  (%s, %s, %s)%s\n", leanStr(r.file), leanStr(r.fn), leanStr(r.expr), sep)
	}
	b.WriteString("]\n\nend SMD.Generated\n")
	writeIfChanged(path, b.String())
}

// copyIntoCalls lists the call sites of the documented not-thread-safe CopyInto helpers with the
// lock context of the caller ("locked" when a Lock() call precedes the site in the same function).
func copyIntoCalls(file, fn string, fd *ast.FuncDecl, info *types.Info) []callSite {
	var out []callSite
	var lockPos token.Pos = token.NoPos
	ast.Inspect(fd.Body, func(n ast.Node) bool {
		if ce, ok := n.(*ast.CallExpr); ok {
			if se, ok := ce.Fun.(*ast.SelectorExpr); ok && se.Sel.Name == "Lock" && lockPos == token.NoPos {
				lockPos = ce.Pos()
			}
		}
		return true
	})
	ast.Inspect(fd.Body, func(n ast.Node) bool {
		ce, ok := n.(*ast.CallExpr)
		if !ok {
			return true
		}
		se, ok := ce.Fun.(*ast.SelectorExpr)
		if !ok || se.Sel.Name != "CopyInto" {
			return true
		}
		recv := "?"
		if tv, ok := info.Types[se.X]; ok {
			t := tv.Type
			if p, ok := t.(*types.Pointer); ok {
				t = p.Elem()
			}
			if nm, ok := t.(*types.Named); ok {
				recv = nm.Obj().Name()
			}
		}
		guard := "none"
		if lockPos != token.NoPos && ce.Pos() > lockPos {
			guard = "locked"
		}
		out = append(out, callSite{file, fn, recv + ".CopyInto", guard})
		return true
	})
	return out
}

func writeSync(path string, as []access, calls []callSite) {
	var b strings.Builder
	b.WriteString("/- GENERATED by harness/cmd/factgen from /repo on every run. Do not edit. -/\nnamespace SMD.Generated\n\n")
	b.WriteString("/-- every access to a shared lazily-initialised field: (file, function, field, base expression, guard context) -/\n")
	b.WriteString("def syncAccesses : List (String × String × String × String × String) := [\n")
	for i, a := range as {
		sep := ","
		if i == len(as)-1 {
			sep = ""
		}
		fmt.Fprintf(&b, "  (%s, %s, %s, %s, %s)%s\n", leanStr(a.file), leanStr(a.fn), leanStr(a.field), leanStr(a.base), leanStr(a.guard), sep)
	}
	b.WriteString("]\n\n/-- call sites of the not-thread-safe CopyInto helpers: (file, caller, callee, lock context) -/\n")
	b.WriteString("def copyIntoCalls : List (String × String × String × String) := [\n")
	for i, c := range calls {
		sep := ","
		if i == len(calls)-1 {
			sep = ""
		}
		fmt.Fprintf(&b, "  (%s, %s, %s, %s)%s\n", leanStr(c.file), leanStr(c.fn), leanStr(c.callee), leanStr(c.guard), sep)
	}
	b.WriteString("]\n\nend SMD.Generated\n")
	writeIfChanged(path, b.String())
}

// writeIfChanged keeps the file's mtime when the content is unchanged, so that lake does not rebuild.
func writeIfChanged(path, content string) {
	old, err := os.ReadFile(path)
	if err == nil && string(old) == content {
		return
	}
	if err := os.WriteFile(path, []byte(content), 0o644); err != nil {
		fatal(err)
	}
}

func fatal(err error) {
	fmt.Fprintln(os.Stderr, "factgen:", err)
	os.Exit(2)
}
