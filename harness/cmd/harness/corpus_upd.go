package main

import (
	"fmt"

	"sigs.k8s.io/structured-merge-diff/v6/fieldpath"
	"sigs.k8s.io/structured-merge-diff/v6/merge"
	"sigs.k8s.io/structured-merge-diff/v6/typed"
	"sigs.k8s.io/structured-merge-diff/v6/value"
)

// corpusWitnesses replays the minimal histories of the recorded findings on every run (judge only), so
// that a listed finding is re-confirmed against the current tree, and disappears from the output
// as soon as the code no longer exhibits it.
func corpusWitnesses(o *Out) {
	p, err := typed.NewParser(`types:
- name: root
  map:
    fields:
    - name: f1
      type: {namedType: pt}
    - name: l
      type:
        list:
          elementRelationship: associative
          keys: ["name"]
          elementType: {namedType: item}
- name: pt
  map:
    fields:
    - name: "x"
      type: {scalar: numeric}
    - name: "y"
      type: {scalar: numeric}
- name: item
  map:
    fields:
    - name: name
      type: {scalar: string}
    - name: sub
      type:
        list:
          elementRelationship: associative
          elementType: {scalar: numeric}
`)
	if err != nil {
		return
	}
	tv := func(s string) *typed.TypedValue {
		v, err := p.Type("root").FromYAML(typed.YAMLObject(s))
		if err != nil {
			panic(err)
		}
		return v
	}
	defer func() { recover() }()

	// D8 (C19): ignore {.f1.y}; a1 applies {f1:{x:1,y:1}} then {f1:{y:2}}: the applied ignored value is lost
	{
		ignored := fieldpath.NewSet(fieldpath.MakePathOrDie("f1", "y"))
		up := (&merge.UpdaterBuilder{Converter: sameVersionConverter{}, IgnoredFields: map[fieldpath.APIVersion]*fieldpath.Set{"v1": ignored}}).BuildUpdater()
		live := tv("null")
		m := fieldpath.ManagedFields{}
		obj, m, err := up.Apply(live, tv(`{"f1": {"x": 1, "y": 1}}`), "v1", m, "a1", false)
		if err == nil && obj != nil {
			obj2, _, err := up.Apply(obj, tv(`{"f1": {"y": 2}}`), "v1", m, "a1", false)
			if err == nil {
				res := obj
				if obj2 != nil {
					res = obj2
				}
				want := tv(`{"f1": {"y": 2}}`)
				ex := res.ExtractItems(fieldpath.NewSet(fieldpath.MakePathOrDie("f1", "y")))
				if cmp, err := want.Compare(ex); err != nil || !cmp.IsSame() {
					o.Fail("C19", "ignored-values-flow", fmt.Sprintf("corpus witness: result %v", res.AsValue().Unstructured()),
						"ignored-values-flow/D8-prune-under-ignore-configuration corpus", "corpus:D8")
				}
			}
		}
	}

	// D10 (C09): three versions take part in the add-back of a re-apply; the identical call is repeated
	{
		up := (&merge.UpdaterBuilder{Converter: sameVersionConverter{}}).BuildUpdater()
		outcomes := map[string]bool{}
		for i := 0; i < 120 && len(outcomes) < 2; i++ {
			live := tv("null")
			m := fieldpath.ManagedFields{}
			live, m, err = up.Apply(live, tv(`{"l":[{"name":"c","sub":[0]}]}`), "v2", m, "a1", false)
			if err != nil {
				return
			}
			live, m, err = up.Update(live, tv(`{"l":[{"name":"c","sub":[0,1]}]}`), "v1", m, "u1")
			if err != nil {
				return
			}
			res, _, err := up.Apply(live, tv(`{"l":[{"name":"c"}]}`), "v4", m, "a1", false)
			if err != nil {
				return
			}
			if res == nil {
				res = live
			}
			outcomes[fmt.Sprint(res.AsValue().Unstructured())] = true
		}
		if len(outcomes) > 1 {
			keys := ""
			for k := range outcomes {
				keys += k + " | "
			}
			o.Fail("C09", "same-call-same-result-after-other-calls", "corpus witness: the identical call returned "+keys,
				"same-call-same-result-after-other-calls/D10-version-iteration-order corpus", "corpus:D10")
		}
	}
	// D11 (C20): two version labels, identity converter; a1's re-apply at another version loses what
	// the updater owns beneath the item, the same requests at one version keep it
	{
		up := (&merge.UpdaterBuilder{Converter: sameVersionConverter{}}).BuildUpdater()
		run := func(second fieldpath.APIVersion) (string, bool) {
			live := tv("null")
			m := fieldpath.ManagedFields{}
			live, m, err := up.Apply(live, tv(`{"l":[{"name":"c","sub":[0]}]}`), "v1", m, "a1", false)
			if err != nil {
				return "", false
			}
			live, m, err = up.Update(live, tv(`{"l":[{"name":"c","sub":[0,1]}]}`), "v1", m, "u1")
			if err != nil {
				return "", false
			}
			res, _, err := up.Apply(live, tv(`{"l":[{"name":"c"}]}`), second, m, "a1", false)
			if err != nil {
				return "", false
			}
			if res == nil {
				res = live
			}
			return fmt.Sprint(res.AsValue().Unstructured()), true
		}
		single, ok1 := run("v1")
		multi, ok2 := run("v2")
		if ok1 && ok2 && single != multi {
			o.Fail("C20", "versioned-run-equals-single-version-run/object", "corpus witness: single-version run "+single+", versioned run "+multi,
				"versioned-run-equals-single-version-run/D11-version-by-version-add-back corpus", "corpus:D11")
		}
	}
	// D17 (C02): an empty list owned by an updater disappears when the applier abandons the only other
	// field of the struct that holds it
	{
		p2, err := typed.NewParser(`types:
- name: root
  map:
    fields:
    - name: spec
      type: {namedType: spec}
    - name: other
      type: {scalar: numeric}
- name: spec
  map:
    fields:
    - name: f
      type: {scalar: numeric}
    - name: sibl
      type:
        list:
          elementRelationship: associative
          elementType: {scalar: numeric}
`)
		if err == nil {
			tv2 := func(s string) *typed.TypedValue {
				v, err := p2.Type("root").FromYAML(typed.YAMLObject(s))
				if err != nil {
					panic(err)
				}
				return v
			}
			up := (&merge.UpdaterBuilder{Converter: sameVersionConverter{}}).BuildUpdater()
			live, m, err := up.Apply(tv2("null"), tv2(`{"spec": {"f": 1}, "other": 1}`), "v1", fieldpath.ManagedFields{}, "a", false)
			if err == nil && live != nil {
				newObj := tv2(`{"spec": {"f": 1, "sibl": []}, "other": 1}`)
				if _, m, err = up.Update(live, newObj, "v1", m, "u"); err == nil {
					res, m2, err := up.Apply(newObj, tv2(`{"other": 1}`), "v1", m, "a", false)
					if err == nil && res != nil {
						spec, has := res.AsValue().AsMap().Get("spec")
						_, uKept := m2["u"]
						if !has || spec.IsNull() || !uKept {
							o.Fail("C02", "others-owned-node-kept", fmt.Sprintf("corpus witness: result %v, u keeps a record: %v", res.AsValue().Unstructured(), uKept),
								"others-owned-node-kept/D17-empty-list-invisible corpus", "corpus:D17")
						}
					}
				}
			}
		}
	}
	_ = value.NewValueInterface
}
