package main

import (
	"fmt"
	"reflect"
	"runtime"
	"sync"

	"sigs.k8s.io/structured-merge-diff/v6/fieldpath"
	"sigs.k8s.io/structured-merge-diff/v6/typed"
	"sigs.k8s.io/structured-merge-diff/v6/value"

	"verifharness/internal/gen"
	"verifharness/internal/sgen"
	"verifharness/internal/vx"
)

func init() {
	register("conc", []string{"C10"},
		"rounds of N (2..16) goroutines started together on a FRESH parser (lazy indexes, resolution cache with overriding references not yet populated) and on Go struct types created at run time with reflect.StructOf (reflection cache not yet populated); every worker validates, builds field sets, compares, merges, extracts, serialises and applies its own objects; each worker's transcript is compared with the transcript of the same operations run sequentially on another fresh parser; built with -race in the check (a race report fails the run); non-trivial = rounds whose schema has relationship-overriding references; distinct by round",
		domConc)
}

// workerOps runs a fixed list of operations for one worker against parser p and returns the transcript.
func workerOps(p *typed.Parser, gs *sgen.Schema, seed uint64, structType reflect.Type) string {
	r := gen.New(seed)
	out := ""
	up := ignoreCfg{kind: "none"}.updater(false)
	for k := 0; k < 6; k++ {
		name := gen.Pick(r, []string{"root", "root", "itemList", "openStruct", "tree"})
		ref := sgen.Ref{Named: name}
		pt := p.Type(name)
		v1 := gs.RootValue(r, ref, 3, &sgen.VOpts{Plain: true, KeySpace: 3})
		v2 := gs.RootValue(r, ref, 3, &sgen.VOpts{Plain: true, KeySpace: 3})
		a, err1 := pt.FromUnstructured(v1)
		b, err2 := pt.FromUnstructured(v2)
		if err1 != nil || err2 != nil {
			out += "invalid;"
			continue
		}
		fs, err := a.ToFieldSet()
		if err != nil {
			out += "fserr;"
			continue
		}
		js, _ := fs.ToJSON()
		out += string(js) + ";"
		if cmp, err := a.Compare(b); err == nil {
			out += vx.Iterate(cmp.Added) + vx.Iterate(cmp.Modified) + vx.Iterate(cmp.Removed) + ";"
		}
		if m, err := a.Merge(b); err == nil {
			out += vx.Value(m.AsValue()) + ";"
		}
		out += vx.Value(a.ExtractItems(fs.Leaves(), typed.WithAppendKeyFields()).AsValue()) + ";"
		live, _ := pt.FromUnstructured(nil)
		obj, mf, err := up.Apply(live, a, "v1", fieldpath.ManagedFields{}, "m", false)
		if err == nil && obj != nil {
			obj2, mf2, err := up.Apply(obj, b, "v1", mf, "n", true)
			if err == nil && obj2 != nil {
				out += vx.Value(obj2.AsValue()) + encManaged(mf2) + ";"
			}
		}
		// every field of the root resolves through its (possibly overriding) reference
		if td, ok := p.Schema.FindNamedType("root"); ok && td.Map != nil {
			for _, f := range td.Map.Fields {
				at, ok := p.Schema.Resolve(f.Type)
				out += fmt.Sprint(ok, at.Map != nil, at.List != nil) + ","
			}
		}
	}
	// reflection over a type unseen so far
	if structType != nil {
		pv := reflect.New(structType)
		pv.Elem().Field(0).SetInt(int64(seed % 7))
		pv.Elem().Field(1).SetString("s")
		rv, err := value.NewValueReflect(pv.Interface())
		if err == nil {
			out += vx.Value(rv) + ";"
		}
	}
	return out
}

var concTypeCounter int

func freshStructType() reflect.Type {
	concTypeCounter++
	return reflect.StructOf([]reflect.StructField{
		{Name: "A", Type: reflect.TypeOf(int64(0)), Tag: reflect.StructTag(fmt.Sprintf(`json:"a%d"`, concTypeCounter))},
		{Name: "B", Type: reflect.TypeOf(""), Tag: `json:"b,omitempty"`},
		{Name: "C", Type: reflect.TypeOf([]string{}), Tag: `json:"c,omitempty"`},
		{Name: "D", Type: reflect.TypeOf(map[string]int{}), Tag: `json:"d,omitempty"`},
	})
}

func domConc(r *gen.Rng, n int, thorough bool, o *Out) {
	rounds := n
	for round := 0; round < rounds; round++ {
		cr := r.Fork(uint64(round))
		gs := sgen.Generate(cr)
		doc := typed.YAMLObject(gs.JSON())
		shared, err := typed.NewParser(doc)
		if err != nil {
			panic(err)
		}
		workers := 2 + cr.Intn(15)
		if workers > runtime.NumCPU() {
			workers = runtime.NumCPU()
		}
		st := freshStructType()
		seeds := make([]uint64, workers)
		for w := range seeds {
			seeds[w] = cr.Next()
		}
		results := make([]string, workers)
		var wg sync.WaitGroup
		start := make(chan struct{})
		for w := 0; w < workers; w++ {
			wg.Add(1)
			go func(w int) {
				defer wg.Done()
				<-start
				results[w] = safe(func() string { return workerOps(shared, gs, seeds[w], st) })
			}(w)
		}
		close(start)
		wg.Wait()
		op := fmt.Sprintf("conc.round %d %d", round, workers)
		o.Emit(op, func() string {
			// sequential reference on another fresh parser and another fresh (but structurally equal) type
			ref, _ := typed.NewParser(doc)
			for w := 0; w < workers; w++ {
				want := workerOps(ref, gs, seeds[w], st)
				if results[w] != want {
					o.Fail("C10", "worker-result-equals-sequential", fmt.Sprintf("round %d worker %d", round, w),
						fmt.Sprintf("worker-result-equals-sequential seed=%d round=%d", o.Seed, round), op)
				}
			}
			return "ok"
		})
		o.Cases++
		o.Tag(fmt.Sprintf("conc:workers=%d", workers))
		o.Nontrivial(op)
	}
}
