package main

import (
	"fmt"

	"sigs.k8s.io/structured-merge-diff/v6/fieldpath"
	"sigs.k8s.io/structured-merge-diff/v6/typed"
	"sigs.k8s.io/structured-merge-diff/v6/value"

	"verifharness/internal/gen"
	"verifharness/internal/sgen"
	"verifharness/internal/vx"
)

func init() {
	register("flt", []string{"C19", "C20", "C15"},
		"field sets taken from generated typed values (all paths of 1-2 values of a random schema) plus random paths; include filters from 1-6 prefix patterns derived from those paths with wildcards (shared prefixes, repeated patterns, wildcard next to specific members), exclusion sets, EnsureNamedFieldsAreMembers under the value's type, ReconcileFieldSetWithSchema under the same schema with a random subset of struct/map/list types switched between granular and atomic; non-trivial = the filter removes something but not everything; distinct by op line",
		domFlt)
}

type pattern []fieldpath.PathElementMatcher

// compatibleRef is the independent reference for the include filter, on pattern LISTS (not on the
// merged matcher): every element up to the shorter length matches; a wildcard at a position shadows
// the specific patterns at that position.
func compatibleRef(q fieldpath.Path, pats []pattern) bool {
	if len(q) == 0 {
		return true
	}
	for _, p := range pats {
		if len(p) == 0 {
			return true // a consumed pattern matches everything beneath it
		}
	}
	var wild, spec []pattern
	for _, p := range pats {
		if p[0].Wildcard {
			wild = append(wild, p[1:])
		} else if p[0].PathElement.Equals(q[0]) {
			spec = append(spec, p[1:])
		}
	}
	if len(wild) > 0 {
		return compatibleRef(q[1:], wild)
	}
	if len(spec) > 0 {
		return compatibleRef(q[1:], spec)
	}
	return false
}

// mtree is the harness's own record of a matcher tree handed to NewSetMatcher
type mtree struct {
	wild    bool
	members []mmember
}

type mmember struct {
	path  fieldpath.PathElementMatcher
	child *mtree
}

// treesRef is the independent reference for a filter made of matcher trees without repeated paths in a
// node: compatibleRef on trees (a wildcard set matches everything; at each position wildcard members
// shadow the specific ones; members of the same path from different trees are united).
func treesRef(q fieldpath.Path, ts []*mtree) bool {
	for _, t := range ts {
		if t.wild {
			return true
		}
	}
	if len(q) == 0 {
		return true
	}
	var wild, spec []*mtree
	for _, t := range ts {
		for _, m := range t.members {
			if m.path.Wildcard {
				wild = append(wild, m.child)
			} else if m.path.PathElement.Equals(q[0]) {
				spec = append(spec, m.child)
			}
		}
	}
	if len(wild) > 0 {
		return treesRef(q[1:], wild)
	}
	if len(spec) > 0 {
		return treesRef(q[1:], spec)
	}
	return false
}

// fltExhaustive: EVERY matcher tree of depth <= 2 with at most two members a node over the paths a, b
// and the wildcard (children: MatchAnySet or a depth-1 tree; repeated paths included), and every pair of
// depth-1 trees, applied as an include filter to the set of all paths of length <= 3 over a, b. Tied to
// the model; trees without a repeated path are also judged against the independent reference.
func fltExhaustive(o *Out) {
	fa, fb := "a", "b"
	pa, pb := fieldpath.PathElement{FieldName: &fa}, fieldpath.PathElement{FieldName: &fb}
	var paths []fieldpath.Path
	for _, x := range []fieldpath.PathElement{pa, pb} {
		paths = append(paths, fieldpath.Path{x})
		for _, y := range []fieldpath.PathElement{pa, pb} {
			paths = append(paths, fieldpath.Path{x, y})
			for _, z := range []fieldpath.PathElement{pa, pb} {
				paths = append(paths, fieldpath.Path{x, y, z})
			}
		}
	}
	zs := vx.Paths(paths)
	pms := []fieldpath.PathElementMatcher{{PathElement: pa}, {PathElement: pb}, fieldpath.MatchAnyPathElement()}
	type tree struct {
		sh  *mtree
		enc string
		dup bool
	}
	anyT := tree{&mtree{wild: true}, "W", false}
	mk := func(ms []mmember, encs []string) tree {
		t := tree{sh: &mtree{members: ms}, enc: "NF"}
		for i, m := range ms {
			t.enc += "(" + encMatcher(m.path) + encs[i] + ")"
			for _, prev := range ms[:i] {
				if prev.path.Equals(m.path) {
					t.dup = true
				}
			}
		}
		t.enc += ";"
		return t
	}
	build := func(children []tree) []tree {
		out := []tree{mk(nil, nil)}
		for _, p1 := range pms {
			for _, c1 := range children {
				out = append(out, mk([]mmember{{p1, c1.sh}}, []string{c1.enc}))
				for _, p2 := range pms {
					for _, c2 := range children {
						t := mk([]mmember{{p1, c1.sh}, {p2, c2.sh}}, []string{c1.enc, c2.enc})
						t.dup = t.dup || c1.dup || c2.dup
						out = append(out, t)
					}
				}
			}
		}
		return out
	}
	d1 := append([]tree{anyT}, build([]tree{anyT})...)
	d2 := build(d1)
	var toGo func(t *mtree) *fieldpath.SetMatcher
	toGo = func(t *mtree) *fieldpath.SetMatcher {
		if t.wild && len(t.members) == 0 {
			return fieldpath.MatchAnySet()
		}
		var mem []*fieldpath.SetMemberMatcher
		for _, m := range t.members {
			mem = append(mem, &fieldpath.SetMemberMatcher{Path: m.path, Child: toGo(m.child)})
		}
		return fieldpath.NewSetMatcher(t.wild, mem...)
	}
	run := func(ts []tree) {
		enc := "t"
		dup := false
		var shadows []*mtree
		for _, t := range ts {
			enc += t.enc
			dup = dup || t.dup
			shadows = append(shadows, t.sh)
		}
		enc += ";"
		op := "flt.apply " + zs + " " + enc
		o.Emit(op, func() string {
			var ms []*fieldpath.SetMatcher
			for _, t := range ts {
				ms = append(ms, toGo(t.sh))
			}
			set := fieldpath.NewSet(paths...)
			out := fieldpath.NewIncludeMatcherFilter(ms...).Filter(set)
			if !dup {
				set.Iterate(func(p fieldpath.Path) {
					if want := treesRef(p, shadows); out.Has(p) != want {
						o.Fail("C19", "include-filter-keeps-exactly-compatible", fmt.Sprintf("matcher trees (exhaustive block): path %s kept=%v compatible=%v", vx.Path(p), out.Has(p), want),
							"include-filter-keeps-exactly-compatible "+op, op)
					}
				})
			}
			return vx.Trie(out)
		})
		o.Tag("flt:exhaustive-trees")
	}
	for _, t := range d2 {
		run([]tree{t})
	}
	for _, a := range d1 {
		for _, b := range d1 {
			run([]tree{a, b})
		}
	}
}

func domFlt(r *gen.Rng, n int, thorough bool, o *Out) {
	fltExhaustive(o)
	var c *typCtx
	for i := 0; i < n; i++ {
		cr := r.Fork(uint64(i))
		if i%30 == 0 {
			c = newTypCtx(o, cr)
		}
		rootRef := sgen.Ref{Named: gen.Pick(cr, []string{"root", "root", "itemList", "item2List", "openStruct", "tree"})}
		tr := c.typeRef(rootRef)
		var paths []fieldpath.Path
		for k := 0; k < 1+cr.Intn(2); k++ {
			v := c.gs.RootValue(cr, rootRef, 3, &sgen.VOpts{Plain: cr.Chance(70), KeySpace: 3})
			tv, err := typed.AsTyped(value.NewValueInterface(v), c.sc, tr)
			if err == nil {
				paths = append(paths, allPaths(tv)...)
			}
		}
		if cr.Chance(20) {
			paths = append(paths, gen.PathSet(cr, gen.PEUniverse(), 3, 3)...)
		}
		if len(paths) == 0 {
			continue
		}
		paths = gen.Shuffle(cr, paths)
		zs := vx.Paths(paths)

		// --- include filter
		np := 1 + cr.Intn(6)
		var pats []pattern
		enc := "i"
		var ms []*fieldpath.SetMatcher
		for k := 0; k < np; k++ {
			base := gen.Pick(cr, paths)
			if len(pats) > 0 && cr.Chance(30) {
				// share a prefix with an earlier pattern, then diverge
				prev := pats[cr.Intn(len(pats))]
				var pat pattern
				cut := cr.Intn(len(prev) + 1)
				pat = append(pat, prev[:cut]...)
				if cut < len(base) {
					for _, pe := range base[cut:] {
						pat = append(pat, fieldpath.PathElementMatcher{PathElement: pe})
					}
				}
				if len(pat) == 0 {
					pat = pattern{fieldpath.PathElementMatcher{PathElement: base[0]}}
				}
				pats = append(pats, pat)
			} else {
				nlen := 1 + cr.Intn(len(base))
				var pat pattern
				for _, pe := range base[:nlen] {
					if cr.Chance(20) {
						pat = append(pat, fieldpath.MatchAnyPathElement())
					} else {
						pat = append(pat, fieldpath.PathElementMatcher{PathElement: pe})
					}
				}
				pats = append(pats, pat)
			}
		}
		for _, pat := range pats {
			parts := make([]interface{}, len(pat))
			enc += "p"
			for j, m := range pat {
				parts[j] = m
				enc += encMatcher(m)
			}
			enc += ";"
			ms = append(ms, fieldpath.MakePrefixMatcherOrDie(parts...))
		}
		enc += ";"
		opI := "flt.apply " + zs + " " + enc
		o.Emit(opI, func() string {
			set := fieldpath.NewSet(paths...)
			before := vx.Trie(set)
			// what each matcher selects on its own, before it takes part in a merge
			alone := make([]string, len(ms))
			for i, m := range ms {
				alone[i] = vx.Trie(fieldpath.NewIncludeMatcherFilter(m).Filter(set))
			}
			out := fieldpath.NewIncludeMatcherFilter(ms...).Filter(set)
			if vx.Trie(set) != before {
				o.Fail("C08", "set/filter-operand-unchanged", "", "set/filter-operand-unchanged "+opI, opI)
			}
			// merging matchers (NewIncludeMatcherFilter merges its arguments, and SetMatcher.Merge directly)
			// leaves every operand as it was: each still selects what it selected alone
			if len(ms) >= 2 {
				_ = ms[0].Merge(ms[1])
				_ = ms[len(ms)-1].Merge(ms[0])
			}
			for i, m := range ms {
				if got := vx.Trie(fieldpath.NewIncludeMatcherFilter(m).Filter(set)); got != alone[i] {
					o.Fail("C08", "matcher/merge-operand-unchanged", fmt.Sprintf("matcher %d selected %s before the merge, %s after", i, alone[i], got),
						"matcher/merge-operand-unchanged "+opI, opI)
				}
			}
			kept := 0
			set.Iterate(func(p fieldpath.Path) {
				want := compatibleRef(p, pats)
				if out.Has(p) != want {
					o.Fail("C19", "include-filter-keeps-exactly-compatible", fmt.Sprintf("path %s kept=%v compatible=%v", vx.Path(p), out.Has(p), want),
						"include-filter-keeps-exactly-compatible "+opI, opI)
				}
				if want {
					kept++
				}
			})
			if !out.Difference(set).Empty() {
				o.Fail("C19", "include-filter-invents-path", "", "include-filter-invents-path "+opI, opI)
			}
			if kept > 0 && kept < set.Size() {
				o.Nontrivial(opI)
			}
			return vx.Trie(out)
		})

		// --- exclusion set: as IgnoredFields semantics (recursive difference) and as the equivalent filter
		var ex []fieldpath.Path
		for _, p := range paths {
			if cr.Chance(20) {
				if len(p) > 1 && cr.Bool() {
					p = p[:1+cr.Intn(len(p)-1)]
				}
				ex = append(ex, p)
			}
		}
		opX := "flt.apply " + zs + " x" + vx.Paths(ex)
		o.Emit(opX, func() string {
			set := fieldpath.NewSet(paths...)
			exs := fieldpath.NewSet(ex...)
			out := fieldpath.NewExcludeSetFilter(exs).Filter(set)
			if !out.Equals(set.RecursiveDifference(exs)) {
				o.Fail("C19", "exclusion-set-equals-filter", "", "exclusion-set-equals-filter "+opX, opX)
			}
			set.Iterate(func(p fieldpath.Path) {
				if out.Has(p) == beneathAny(p, exs) {
					o.Fail("C19", "exclude-filter-drops-exactly-ignored", vx.Path(p), "exclude-filter-drops-exactly-ignored "+opX, opX)
				}
			})
			return vx.Trie(out)
		})

		// --- matcher TREES built with NewSetMatcher directly: members with equal paths (the first one
		// given decides), wildcard members next to specific ones, wildcard sets with members, merged in
		// both orders. Only trees of at most four members per node (sort.Sort is an insertion sort there).
		{
			hasDup := false
			allowDup := cr.Chance(25) // three ops in four have no path twice in a node: those are judged
			var encT func(d int, at []fieldpath.Path) (*fieldpath.SetMatcher, string, *mtree)
			encT = func(d int, at []fieldpath.Path) (*fieldpath.SetMatcher, string, *mtree) {
				if d == 0 || len(at) == 0 || cr.Chance(25) {
					return fieldpath.MatchAnySet(), "W", &mtree{wild: true}
				}
				nm := 1 + cr.Intn(4)
				var mem []*fieldpath.SetMemberMatcher
				sh := &mtree{}
				enc := ""
				for k := 0; k < nm; k++ {
					var pm fieldpath.PathElementMatcher
					var below []fieldpath.Path
					if allowDup && len(mem) > 0 && cr.Chance(30) {
						pm = mem[cr.Intn(len(mem))].Path // the same path again
					} else if cr.Chance(20) {
						pm = fieldpath.MatchAnyPathElement()
					} else {
						pm = fieldpath.PathElementMatcher{PathElement: gen.Pick(cr, at)[0]}
					}
					dup := false
					for _, prev := range mem {
						if prev.Path.Equals(pm) {
							dup = true
						}
					}
					if dup && !allowDup {
						continue // (fewer members rather than a repeated path)
					}
					if dup {
						hasDup = true
					}
					for _, q := range at {
						if len(q) > 1 && (pm.Wildcard || q[0].Equals(pm.PathElement)) {
							below = append(below, q[1:])
						}
					}
					child, ce, cs := encT(d-1, below)
					mem = append(mem, &fieldpath.SetMemberMatcher{Path: pm, Child: child})
					sh.members = append(sh.members, mmember{pm, cs})
					enc += "(" + encMatcher(pm) + ce + ")"
				}
				w := cr.Chance(5)
				sh.wild = w
				wf := "F"
				if w {
					wf = "T"
				}
				return fieldpath.NewSetMatcher(w, mem...), "N" + wf + enc + ";", sh
			}
			nt := 1 + cr.Intn(3)
			var trees []*fieldpath.SetMatcher
			var shadows []*mtree
			enc := "t"
			for k := 0; k < nt; k++ {
				m, e, sh := encT(3, paths)
				trees = append(trees, m)
				shadows = append(shadows, sh)
				enc += e
			}
			enc += ";"
			opT := "flt.apply " + zs + " " + enc
			o.Emit(opT, func() string {
				set := fieldpath.NewSet(paths...)
				out := fieldpath.NewIncludeMatcherFilter(trees...).Filter(set)
				if !out.Difference(set).Empty() {
					o.Fail("C19", "include-filter-invents-path", "", "include-filter-invents-path "+opT, opT)
				}
				if !hasDup {
					// no node lists one path twice: the merged filter keeps exactly the paths compatible with the
					// union of the trees (members of equal path united, a wildcard member shadowing specific ones)
					set.Iterate(func(p fieldpath.Path) {
						want := treesRef(p, shadows)
						if out.Has(p) != want {
							o.Fail("C19", "include-filter-keeps-exactly-compatible", fmt.Sprintf("matcher trees: path %s kept=%v compatible=%v", vx.Path(p), out.Has(p), want),
								"include-filter-keeps-exactly-compatible "+opT, opT)
						}
					})
					o.Tag("flt:trees-judged")
				} else {
					o.Tag("flt:trees-with-repeated-path")
				}
				return vx.Trie(out)
			})
		}

		// --- EnsureNamedFieldsAreMembers
		opE := "flt.ensure " + vx.TypeRef(tr) + " " + zs
		o.Emit(opE, func() string {
			set := fieldpath.NewSet(paths...)
			return vx.Trie(set.EnsureNamedFieldsAreMembers(c.sc, tr))
		})
		o.Cases++
		o.Tag(fmt.Sprintf("flt:patterns=%d", np))
	}
}
