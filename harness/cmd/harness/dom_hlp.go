package main

import (
	"fmt"

	"sigs.k8s.io/structured-merge-diff/v6/fieldpath"
	"sigs.k8s.io/structured-merge-diff/v6/merge"

	"verifharness/internal/gen"
	"verifharness/internal/vx"
)

func init() {
	register("hlp", []string{"C15", "C05", "C04"},
		"the remaining exported helpers: SetFromValue on generic values whose list items carry the candidate key fields key / id / name (scalar, null, nested, absent) in every representation; ManagedFields.Equals / Difference on pairs of managed-field maps over a small path universe (shared, one-sided and empty records, equal and different versions and applied flags); ConflictsFromManagers / ToSet / Equals; non-trivial = operands differ; distinct by op line",
		domHlp)
}

// keyedValue: generic data in which list items are often maps with candidate key fields.
func keyedValue(r *gen.Rng, depth int) interface{} {
	if depth <= 0 || r.Chance(25) {
		return gen.SimpleScalar(r)
	}
	switch r.Intn(4) {
	case 0:
		n := r.Intn(4)
		l := make([]interface{}, 0, n)
		for i := 0; i < n; i++ {
			if r.Chance(65) {
				item := map[string]interface{}{}
				for _, k := range []string{"key", "id", "name"} {
					switch r.Intn(6) {
					case 0:
						item[k] = gen.Pick(r, []interface{}{"a", "b", int64(1), 1.5, true})
					case 1:
						item[k] = nil
					case 2:
						item[k] = keyedValue(r, depth-1)
					}
				}
				if r.Bool() {
					item["x"] = keyedValue(r, depth-1)
				}
				l = append(l, item)
			} else {
				l = append(l, keyedValue(r, depth-1))
			}
		}
		return l
	case 1, 2:
		m := map[string]interface{}{}
		for i := 0; i < r.Intn(4); i++ {
			m[gen.Pick(r, []string{"a", "b", "key", "name", "l"})] = keyedValue(r, depth-1)
		}
		return m
	default:
		return gen.SimpleScalar(r)
	}
}

func randManaged(r *gen.Rng, univ []fieldpath.PathElement, base fieldpath.ManagedFields) fieldpath.ManagedFields {
	out := fieldpath.ManagedFields{}
	for _, k := range []string{"a1", "a2", "u1", "u2"} {
		if b, ok := base[k]; ok && r.Chance(50) {
			// related to the other operand: same record, or same version with an edited set, or other version / flag
			switch r.Intn(4) {
			case 0:
				out[k] = b
			case 1:
				out[k] = fieldpath.NewVersionedSet(b.Set().Union(fieldpath.NewSet(gen.PathSet(r, univ, r.Intn(3), 3)...)), b.APIVersion(), b.Applied())
			case 2:
				out[k] = fieldpath.NewVersionedSet(b.Set(), b.APIVersion()+"x", b.Applied())
			default:
				out[k] = fieldpath.NewVersionedSet(b.Set(), b.APIVersion(), !b.Applied())
			}
			continue
		}
		if r.Chance(55) {
			out[k] = fieldpath.NewVersionedSet(fieldpath.NewSet(gen.PathSet(r, univ, r.Intn(5), 3)...),
				fieldpath.APIVersion(gen.Pick(r, []string{"v1", "v2"})), r.Bool())
		}
	}
	return out
}

func domHlp(r *gen.Rng, n int, thorough bool, o *Out) {
	// without int/float twins (1 and 1.0 are Equal path elements; which representative a set keeps
	// depends on insertion order — finding D6 —, and ConflictsFromManagers inserts in Go map order)
	var univ []fieldpath.PathElement
	for _, pe := range gen.PEUniverse() {
		twin := pe.Value != nil && (*pe.Value).IsFloat() && (*pe.Value).AsFloat() == float64(int64((*pe.Value).AsFloat()))
		if pe.Key != nil {
			for _, f := range *pe.Key {
				if f.Value.IsFloat() && f.Value.AsFloat() == float64(int64(f.Value.AsFloat())) {
					twin = true
				}
			}
		}
		if !twin {
			univ = append(univ, pe)
		}
	}
	for i := 0; i < n; i++ {
		cr := r.Fork(uint64(i))
		u := keyedValue(cr, 4)
		op := "hlp.sfv " + vx.Unstructured(u)
		o.Emit(op, func() string {
			out := ""
			for rep := 0; rep < gen.NumReps; rep++ {
				s := vx.Trie(fieldpath.SetFromValue(gen.Rep(gen.DeepCopy(u), rep)))
				if rep == 0 {
					out = s
				} else if s != out {
					o.Fail("C15", "set-from-value-same-in-every-representation", fmt.Sprintf("representation %d: %s vs %s", rep, s, out),
						"set-from-value-same-in-every-representation "+op, op)
				}
			}
			// (not judged: "the set holds leaves only" — two list items with the same guessed key, one with a
			// scalar and one with a map under the same field, legitimately give a path and an extension of
			// it; kernel-checked counterexample C15.cexTwins, theorem setFromValue_leaves_only_of_distinctElems)
			return out
		})
		a := randManaged(cr, univ, nil)
		b := randManaged(cr, univ, a)
		ea, eb := encManaged(a), encManaged(b)
		o.Emit("hlp.mfeq "+ea+" "+eb, func() string {
			if a.Equals(b) != b.Equals(a) || !a.Equals(a.Copy()) {
				o.Fail("C05", "managed-equals-symmetric-reflexive", "", "managed-equals-symmetric-reflexive "+ea+" "+eb, "hlp.mfeq "+ea+" "+eb)
			}
			return vx.Bool(a.Equals(b))
		})
		o.Emit("hlp.mfdiff "+ea+" "+eb, func() string {
			d := a.Difference(b)
			if len(a.Difference(a)) != 0 {
				o.Fail("C05", "managed-difference-with-itself-empty", "", "managed-difference-with-itself-empty "+ea, "hlp.mfdiff "+ea+" "+ea)
			}
			if a.Equals(b) && len(d) != 0 {
				o.Fail("C05", "managed-equal-then-no-difference", "", "managed-equal-then-no-difference "+ea+" "+eb, "hlp.mfdiff "+ea+" "+eb)
			}
			return encManaged(d)
		})
		o.Emit("hlp.cf "+ea, func() string {
			cs := merge.ConflictsFromManagers(a)
			// ConflictsFromManagers ranges over a Go map: compare as the set of (manager, path) pairs, grouped by manager
			return encConflicts(cs) + " set=" + vx.Trie(cs.ToSet()) + " self=" + vx.Bool(cs.Equals(cs))
		})
		o.Cases++
		if ea != eb {
			o.Nontrivial(ea + eb)
		}
	}
}
