package main

import (
	"bytes"
	"flag"
	"fmt"
	"os"
	"os/exec"
	"strconv"

	"sigs.k8s.io/structured-merge-diff/v6/typed"

	"verifharness/internal/gen"
	"verifharness/internal/sgen"
)

// Domain iso (C09): the same battery of calls under schema B is run in two fresh processes, once
// alone and once after a battery under another schema A of the same family (same type names,
// other field sets, defaults, relationships). The two outputs must be identical: a result that
// depends on what ran earlier in the process (a process-wide cache keyed by too little, state
// left in a pool) shows as a difference, with the two seeds as the replay.

var (
	isoChild = flag.String("isochild", "", "internal: run as a child of the iso domain (only|both)")
	isoA     = flag.Uint64("isoa", 0, "internal: seed of schema A")
	isoB     = flag.Uint64("isob", 0, "internal: seed of schema B")
)

func init() {
	register("iso", []string{"C09"},
		"pairs of generated schemas (A, B) of the sgen family; a fixed battery of calls under B (validate, field set, set JSON, compare, merge, extract, two applies, type resolution, reflection over a fresh struct type) run in a fresh process alone and in a fresh process after the same battery under A; non-trivial = every pair (the schemas differ); distinct by seed pair",
		domIso)
}

func isoBattery(seed uint64, withStruct bool) string {
	gs := sgen.Generate(gen.New(seed))
	p, err := typed.NewParser(typed.YAMLObject(gs.JSON()))
	if err != nil {
		return "schema rejected: " + err.Error()
	}
	if withStruct {
		return safe(func() string { return workerOps(p, gs, seed+1, freshStructType()) })
	}
	return safe(func() string { return workerOps(p, gs, seed+1, nil) })
}

// isoChildMain is the child's entry point (called from main when -isochild is set).
func isoChildMain() {
	if *isoChild == "both" {
		_ = isoBattery(*isoA, true)
		concTypeCounter = 0 // the struct type of B's battery is the one A's battery has already used
	}
	fmt.Print(isoBattery(*isoB, true))
}

func runIsoChild(mode string, a, b uint64) (string, error) {
	exe, err := os.Executable()
	if err != nil {
		return "", err
	}
	cmd := exec.Command(exe, "-isochild", mode, "-isoa", strconv.FormatUint(a, 10), "-isob", strconv.FormatUint(b, 10))
	var stdout, stderr bytes.Buffer
	cmd.Stdout, cmd.Stderr = &stdout, &stderr
	if err := cmd.Run(); err != nil {
		return stdout.String(), fmt.Errorf("%v: %s", err, stderr.String())
	}
	return stdout.String(), nil
}

func domIso(r *gen.Rng, n int, thorough bool, o *Out) {
	for i := 0; i < n; i++ {
		a, b := r.Next(), r.Next()
		op := fmt.Sprintf("iso.pair %d %d", a, b)
		o.Emit(op, func() string {
			only, err1 := runIsoChild("only", a, b)
			both, err2 := runIsoChild("both", a, b)
			if err1 != nil || err2 != nil {
				o.Fail("C09", "result-independent-of-earlier-calls-in-process", fmt.Sprint("child failed: ", err1, err2),
					"result-independent-of-earlier-calls-in-process/child "+op, op)
				return "ok"
			}
			if only != both {
				k := 0
				for k < len(only) && k < len(both) && only[k] == both[k] {
					k++
				}
				lo := k - 120
				if lo < 0 {
					lo = 0
				}
				cut := func(s string) string {
					hi := k + 200
					if hi > len(s) {
						hi = len(s)
					}
					return s[lo:hi]
				}
				o.Fail("C09", "result-independent-of-earlier-calls-in-process",
					fmt.Sprintf("battery under schema(seed %d): alone …%s… | after the battery under schema(seed %d) …%s…", b, cut(only), a, cut(both)),
					"result-independent-of-earlier-calls-in-process "+op, op)
			}
			return "ok"
		})
		o.Cases++
		o.Nontrivial(op)
	}
}
