package main

import (
	"fmt"
	"strings"

	"sigs.k8s.io/structured-merge-diff/v6/fieldpath"
	"sigs.k8s.io/structured-merge-diff/v6/merge"
	"sigs.k8s.io/structured-merge-diff/v6/typed"
	"sigs.k8s.io/structured-merge-diff/v6/value"

	"verifharness/internal/gen"
	"verifharness/internal/sgen"
	"verifharness/internal/vx"
)

func init() {
	register("mv", []string{"C20", "C09"},
		"histories over 1-3 API versions related by a lossless field-renaming converter (one copy of every type per version, struct fields carrying the version as a suffix; the version label is the object's type name, as in merge/multiple_appliers_test.go): every updater identity keeps one version, appliers switch freely; the live object is converted to the request's version before each call; compared step by step with the model (renaming converter) and, translated to the base version, with a single-version run of the same requests; non-trivial = histories using at least two versions; distinct by transcript",
		domMV)
}

type renamingConverter struct{ p *typed.Parser }

func renameUnstructured(v value.Value, oldS, newS string) interface{} {
	if v.IsMap() {
		out := map[string]interface{}{}
		v.AsMap().Iterate(func(key string, x value.Value) bool {
			if strings.HasSuffix(key, oldS) {
				out[strings.TrimSuffix(key, oldS)+newS] = renameUnstructured(x, oldS, newS)
			} else {
				out[key] = renameUnstructured(x, oldS, newS)
			}
			return true
		})
		return out
	}
	if v.IsList() {
		out := []interface{}{}
		l := v.AsList()
		for i := 0; i < l.Length(); i++ {
			out = append(out, renameUnstructured(l.At(i), oldS, newS))
		}
		return out
	}
	return v.Unstructured()
}

func (r renamingConverter) Convert(v *typed.TypedValue, version fieldpath.APIVersion) (*typed.TypedValue, error) {
	if v.TypeRef().NamedType == nil {
		return nil, fmt.Errorf("object without a named type")
	}
	in := *v.TypeRef().NamedType
	return r.p.Type(string(version)).FromUnstructured(renameUnstructured(v.AsValue(), in, string(version)), typed.AllowDuplicates)
}
func (renamingConverter) IsMissingVersionError(error) bool { return false }

// translateSet renames the version suffix of field-name path elements.
func translateSet(s *fieldpath.Set, oldS, newS string) *fieldpath.Set {
	out := fieldpath.NewSet()
	s.Iterate(func(p fieldpath.Path) {
		q := make(fieldpath.Path, len(p))
		for i, pe := range p {
			if pe.FieldName != nil && strings.HasSuffix(*pe.FieldName, oldS) {
				n := strings.TrimSuffix(*pe.FieldName, oldS) + newS
				q[i] = fieldpath.PathElement{FieldName: &n}
			} else {
				q[i] = pe
			}
		}
		out.Insert(q)
	})
	return out
}

// splitOwnership: the layout behind finding D11. The applier's previous record (pruned first) holds
// an item path q (a list item or a map entry: a member with members beneath it); some record at version va holds a path
// strictly beneath q while no record at va holds q itself, and a record at another version does.
// addBackOwnedItems then visits va, finds q neither kept nor owned there and removes the item with
// everything beneath it; the visit of the other version puts the item back without what va's managers
// owned beneath it. A single-version run sees q and the paths beneath it in one union and keeps both.
// Sets are compared after translation to the base version. newSet is the applier's new record.
func splitOwnership(m fieldpath.ManagedFields, mgr string, ver string, newSet *fieldpath.Set) bool {
	last, had := m[mgr]
	if !had || !last.Applied() {
		return false
	}
	type rec struct {
		ver string
		set *fieldpath.Set
	}
	recs := []rec{{ver, translateSet(newSet, ver, "v1")}}
	for k, vs := range m {
		if k != mgr {
			recs = append(recs, rec{string(vs.APIVersion()), translateSet(vs.Set(), string(vs.APIVersion()), "v1")})
		}
	}
	hasAt := func(v string, q fieldpath.Path, same bool) bool {
		for _, r := range recs {
			if (r.ver == v) == same && r.set.Has(q) {
				return true
			}
		}
		return false
	}
	lastSet := translateSet(last.Set(), string(last.APIVersion()), "v1")
	found := false
	for _, r := range recs {
		r.set.Iterate(func(p fieldpath.Path) {
			for i := 1; i < len(p) && !found; i++ {
				q := p[:i]
				if !lastSet.Has(q) {
					continue
				}
				if !hasAt(r.ver, q, true) && hasAt(r.ver, q, false) {
					found = true
				}
			}
		})
	}
	return found
}

func domMV(r *gen.Rng, n int, thorough bool, o *Out) {
	versions := []string{"v1", "v2", "v3"}
	var c *typCtx
	var gs *sgen.Schema
	for h := 0; h < n; h++ {
		cr := r.Fork(uint64(h))
		if h%25 == 0 {
			gs = sgen.Versioned(sgen.Generate(cr), versions)
			p, err := typed.NewParser(typed.YAMLObject(gs.JSON()))
			if err != nil {
				panic("versioned schema rejected: " + err.Error())
			}
			c = &typCtx{gs: gs, parser: p, sc: &p.Schema}
			o.Emit("typ.schema "+vx.Schema(&p.Schema), func() string { return fmt.Sprintf("ok types=%d", len(p.Schema.Types)) })
		}
		conv := renamingConverter{c.parser}
		upA := (&merge.UpdaterBuilder{Converter: conv}).BuildUpdater()
		upB := (&merge.UpdaterBuilder{Converter: conv}).BuildUpdater()
		trV1 := c.typeRef(sgen.Ref{Named: "v1"})
		o.Emit("upd.reset "+vx.TypeRef(trV1)+" n F", func() string { return "ok" })
		o.Emit("upd.mode T", func() string { return "ok" })
		liveA, _ := typed.AsTyped(value.NewValueInterface(nil), c.sc, trV1)
		liveB := liveA
		mA, mB := fieldpath.ManagedFields{}, fieldpath.ManagedFields{}
		nv := 1 + cr.Intn(3)
		steps := 2 + cr.Intn(6)
		appliers := []string{"a1", "a2"}[:1+cr.Intn(2)]
		updaters := []string{"u1", "u2"}[:cr.Intn(3)]
		updVersion := map[string]string{"u1": versions[cr.Intn(nv)], "u2": versions[cr.Intn(nv)]}
		used := map[string]bool{}
		tainted := false // D10 can make the two runs diverge legitimately
		transcript := ""
		// configurations are generated at v1 and translated
		var pool []interface{}
		for k := 0; k < 4; k++ {
			pool = append(pool, c.gs.RootValue(cr.Fork(uint64(300+k)), sgen.Ref{Named: "v1"}, 3, &sgen.VOpts{Plain: true, KeySpace: 3}))
		}
		for s := 0; s < steps; s++ {
			isUpdate := len(updaters) > 0 && cr.Chance(35)
			var mgr, ver string
			if isUpdate {
				mgr = gen.Pick(cr, updaters)
				ver = updVersion[mgr]
			} else {
				mgr = gen.Pick(cr, appliers)
				ver = versions[cr.Intn(nv)]
			}
			used[ver] = true
			objV1 := gen.Pick(cr, pool)
			if cr.Chance(30) {
				objV1 = dropSome(cr, objV1)
			}
			if isUpdate {
				// live (in v1) merged with the pool value
				a, err1 := typed.AsTyped(value.NewValueInterface(gen.DeepCopy(liveB.AsValue().Unstructured())), c.sc, trV1, typed.AllowDuplicates)
				b, err2 := typed.AsTyped(value.NewValueInterface(objV1), c.sc, trV1)
				if err1 == nil && err2 == nil {
					if m, err := a.Merge(b); err == nil {
						objV1 = m.AsValue().Unstructured()
					}
				}
			}
			tvV1, err := typed.AsTyped(value.NewValueInterface(objV1), c.sc, trV1, typed.AllowDuplicates)
			if err != nil {
				continue
			}
			tvVer, err := conv.Convert(tvV1, fieldpath.APIVersion(ver))
			if err != nil {
				o.Fail("C20", "lossless-conversion-succeeds", err.Error(), "lossless-conversion-succeeds "+vx.Value(tvV1.AsValue()), "mv")
				continue
			}
			var op string
			if isUpdate {
				op = "upd.update " + vx.Str(mgr) + " " + vx.Str(ver) + " " + vx.Value(tvVer.AsValue())
			} else {
				op = "upd.apply " + vx.Str(mgr) + " " + vx.Str(ver) + " T " + vx.Value(tvVer.AsValue())
			}
			if orderDependentVersions(mA, mgr, fieldpath.APIVersion(ver)) >= 2 {
				tainted = true
			}
			split := false
			if !isUpdate && !tainted {
				if ns, err := tvVer.ToFieldSet(); err == nil {
					split = splitOwnership(mA, mgr, ver, ns)
				}
			}
			okStep := false
			res := o.Emit(op, func() string {
				// run A: at the request's version, live converted first
				la, err := conv.Convert(liveA, fieldpath.APIVersion(ver))
				if err != nil {
					return "err"
				}
				// run B: everything at v1
				if isUpdate {
					_, ma2, errA := upA.Update(la, tvVer, fieldpath.APIVersion(ver), mA, mgr)
					_, mb2, errB := upB.Update(liveB, tvV1, "v1", mB, mgr)
					if errA != nil || errB != nil {
						if (errA == nil) != (errB == nil) {
							o.Fail("C20", "versioned-run-equals-single-version-run/outcome", fmt.Sprint(errA, errB), "versioned-run-equals-single-version-run/outcome "+op, op)
						}
						return "err"
					}
					liveA, mA, liveB, mB = tvVer, ma2, tvV1, mb2
					okStep = true
					return "ok " + encManaged(mA)
				}
				oa, ma2, errA := upA.Apply(la, tvVer, fieldpath.APIVersion(ver), mA, mgr, true)
				ob, mb2, errB := upB.Apply(liveB, tvV1, "v1", mB, mgr, true)
				if errA != nil || errB != nil {
					if (errA == nil) != (errB == nil) {
						o.Fail("C20", "versioned-run-equals-single-version-run/outcome", fmt.Sprint(errA, errB), "versioned-run-equals-single-version-run/outcome "+op, op)
					}
					return "err"
				}
				objs := "_"
				if oa != nil {
					liveA = oa
					objs = vx.Value(oa.AsValue())
				} else {
					liveA = la
				}
				if ob != nil {
					liveB = ob
				}
				mA, mB = ma2, mb2
				okStep = true
				return "ok obj=" + objs + " " + encManaged(mA)
			})
			// the model runs forced applies: patch the op line? No: the op carries F (unforced) for the
			// model too — both sides must agree, so emit the request as forced on both sides
			_ = res
			if okStep {
				o.Emit("upd.sync "+vx.Value(liveA.AsValue())+" "+encManaged(mA), func() string { return "ok" })
				if !tainted {
					// translated to the base version, run A equals run B: object and records
					clause, det := "", ""
					otherDiffers := ""
					back, err := conv.Convert(liveA, "v1")
					if err != nil {
						clause, det = "object", err.Error()
					} else if vx.CanonValue(back.AsValue()) != vx.CanonValue(liveB.AsValue()) {
						clause, det = "object", "versioned run (translated): "+vx.CanonValue(back.AsValue())+" single-version run: "+vx.CanonValue(liveB.AsValue())
					} else if len(mA) != len(mB) {
						clause, det = "ownership", "different managers"
					} else {
						for k, va := range mA {
							vb, ok := mB[k]
							if !ok || va.Applied() != vb.Applied() || !translateSet(va.Set(), string(va.APIVersion()), "v1").Equals(vb.Set()) {
								clause, det = "ownership", k+": versioned "+translateSet(va.Set(), string(va.APIVersion()), "v1").String()
								if ok {
									det += " single-version " + vb.Set().String()
								}
								if k != mgr {
									otherDiffers = k
								}
							}
						}
					}
					if otherDiffers != "" && !split {
						// C05 with the single-version run as the reference: another manager's record must lose exactly
						// the fields the operation changed, whatever version it is recorded at
						o.Fail("C05", "others/lose-exactly-changed-fields/versioned", det, "others/lose-exactly-changed-fields/versioned "+op, op)
					}
					if clause != "" {
						sig := "versioned-run-equals-single-version-run/" + clause + " " + op
						if split {
							// finding D11; from here on the two runs are in different states
							sig = "versioned-run-equals-single-version-run/D11-version-by-version-add-back " + op
							o.Tag("mv:split-ownership(D11)")
						}
						o.Fail("C20", "versioned-run-equals-single-version-run/"+clause, det, sig, op)
						tainted = true
					}
				}
			}
			transcript += op[:10] + ver
		}
		o.Cases++
		o.Tag(fmt.Sprintf("mv:versions=%d", len(used)))
		if tainted {
			o.Tag("mv:order-dependent(D10)")
		}
		if len(used) >= 2 {
			o.Nontrivial(fmt.Sprintf("%d:%s", h, transcript))
		}
	}
}
