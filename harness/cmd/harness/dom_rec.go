package main

import (
	"fmt"

	"sigs.k8s.io/structured-merge-diff/v6/fieldpath"
	"sigs.k8s.io/structured-merge-diff/v6/schema"
	"sigs.k8s.io/structured-merge-diff/v6/typed"
	"sigs.k8s.io/structured-merge-diff/v6/value"

	"verifharness/internal/gen"
	"verifharness/internal/sgen"
	"verifharness/internal/vx"
)

func init() {
	register("rec", []string{"C20"},
		"ownership records (field sets of generated values, subsets of them, with item / container paths) written under a generated schema and reconciled under a copy of it in which a random subset (35%) of list and map types switched between granular and atomic; reference: every owned path is cut at its outermost atomic prefix; plus idempotence; non-trivial = the reconcile changes the record; distinct by op line",
		domRec)
}

// cutAtomic is the independent reference: the path cut at its outermost atomic (list or map) prefix
// under schema sc, walking the types the way reconcile dispatches them (map, then scalar, then list).
func cutAtomic(sc *schema.Schema, tr schema.TypeRef, p fieldpath.Path) fieldpath.Path {
	for i := 0; i <= len(p); i++ {
		a, ok := sc.Resolve(tr)
		if !ok {
			return p
		}
		switch {
		case a.Map != nil:
			if refIsUntypedDeduced(a.Map.ElementType) && a.Map.Fields == nil {
				return p
			}
			if a.Map.ElementRelationship == schema.Atomic {
				if i == 0 {
					return p // the root itself cannot be owned
				}
				return p[:i]
			}
			if i == len(p) {
				return p
			}
			next := a.Map.ElementType
			if p[i].FieldName != nil {
				if sf, ok := a.Map.FindField(*p[i].FieldName); ok {
					next = sf.Type
				}
			}
			if next == (schema.TypeRef{}) {
				return p
			}
			tr = next
		case a.Scalar != nil:
			return p
		case a.List != nil:
			if a.List.ElementRelationship == schema.Atomic {
				if i == 0 {
					return p
				}
				return p[:i]
			}
			if i == len(p) {
				return p
			}
			tr = a.List.ElementType
		default:
			return p
		}
	}
	return p
}

func refIsUntypedDeduced(t schema.TypeRef) bool {
	if t.NamedType != nil {
		return *t.NamedType == "__untyped_deduced_"
	}
	return t.Inlined.Scalar != nil && *t.Inlined.Scalar == "untyped"
}

func domRec(r *gen.Rng, n int, thorough bool, o *Out) {
	var c, c2 *typCtx
	for i := 0; i < n; i++ {
		cr := r.Fork(uint64(i))
		if i%20 == 0 {
			// old schema (not sent to the model: reconcile only needs the new one)
			gs := sgen.Generate(cr)
			p, err := typed.NewParser(typed.YAMLObject(gs.JSON()))
			if err != nil {
				panic(err)
			}
			c = &typCtx{gs: gs, parser: p, sc: &p.Schema}
			gs2 := sgen.ToggleAtomic(cr, gs)
			p2, err := typed.NewParser(typed.YAMLObject(gs2.JSON()))
			if err != nil {
				panic(err)
			}
			c2 = &typCtx{gs: gs2, parser: p2, sc: &p2.Schema}
			o.Emit("typ.schema "+vx.Schema(&p2.Schema), func() string { return fmt.Sprintf("ok types=%d", len(p2.Schema.Types)) })
		}
		rootRef := sgen.Ref{Named: gen.Pick(cr, []string{"root", "root", "root", "item2List", "openStruct", "tree"})}
		tr := c.typeRef(rootRef)
		v := c.gs.RootValue(cr, rootRef, 4, &sgen.VOpts{Plain: cr.Chance(70), KeySpace: 3})
		tv, err := typed.AsTyped(value.NewValueInterface(v), c.sc, tr)
		if err != nil {
			continue
		}
		var paths []fieldpath.Path
		for _, p := range allPaths(tv) {
			if cr.Chance(60) {
				paths = append(paths, p)
			}
			if len(p) > 1 && cr.Chance(15) {
				paths = append(paths, p[:1+cr.Intn(len(p)-1)]) // container / item paths, as updaters own them
			}
		}
		if len(paths) == 0 {
			continue
		}
		op := "rec.reconcile " + vx.TypeRef(tr) + " " + vx.Paths(paths)
		o.Emit(op, func() string {
			set := fieldpath.NewSet(paths...)
			before := vx.Trie(set)
			newTV := typed.AsTypedUnvalidated(value.NewValueInterface(v), c2.sc, tr)
			out, err := typed.ReconcileFieldSetWithSchema(set, newTV)
			if vx.Trie(set) != before {
				o.Fail("C08", "reconcile/record-unchanged", "", "reconcile/record-unchanged "+op, op)
			}
			if err != nil {
				o.Fail("C20", "reconcile/no-error", err.Error(), "reconcile/no-error "+op, op)
				return "err"
			}
			result := out
			if out == nil {
				result = set
			}
			// reference: image of the record under "cut at the outermost atomic prefix"
			want := fieldpath.NewSet()
			set.Iterate(func(p fieldpath.Path) { want.Insert(cutAtomic(c2.sc, tr, p)) })
			if !result.Equals(want) {
				o.Fail("C20", "reconcile/each-path-cut-at-atomic-field", "got "+vx.Iterate(result)+" want "+vx.Iterate(want),
					"reconcile/each-path-cut-at-atomic-field "+op, op)
			}
			// idempotent
			again, err := typed.ReconcileFieldSetWithSchema(result, newTV)
			if err != nil || (again != nil && !again.Equals(result)) {
				o.Fail("C20", "reconcile/idempotent", "", "reconcile/idempotent "+op, op)
			}
			if out == nil {
				return "unchanged"
			}
			if !out.Equals(set) {
				o.Nontrivial(op)
			}
			return vx.Trie(out)
		})
		o.Cases++
	}
}
