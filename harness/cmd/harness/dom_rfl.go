package main

import (
	"bytes"
	"encoding/json"
	"fmt"
	"math"
	"reflect"
	"sort"
	"strings"

	"sigs.k8s.io/structured-merge-diff/v6/typed"
	"sigs.k8s.io/structured-merge-diff/v6/value"
	yaml "sigs.k8s.io/yaml/goyaml.v2"

	"verifharness/internal/gen"
	"verifharness/internal/vx"
)

func init() {
	register("rfl", []string{"C18", "C09"},
		"Go types built at run time with reflect.StructOf (nested structs, embedded structs, pointers, slices, maps, interfaces, every int / uint (except uint64) / float width, strings, []byte; tags: name, omitempty, '-', none) plus compiled types with custom marshalers; random values (zero / non-zero, nil / non-nil); the reflected value is compared, through the generic Value interface, with the value obtained by encoding/json round trip: structure, Equals, Compare, typed operations under the deduced type, Map.Set / Delete; JSON and YAML round trips of generic values; non-trivial = struct types with at least 3 fields; distinct by op line",
		domRfl)
}

// ---------------------------------------------------------------------------------------------
// run-time types

type tgen struct {
	r     *gen.Rng
	depth int
	n     int
	// bigUint: a `uint` (64 bits here) holding a value of 2^63 or more was generated (finding D23)
	bigUint bool
}

var scalarTypes = []reflect.Type{
	reflect.TypeOf(false), reflect.TypeOf(int(0)), reflect.TypeOf(int8(0)), reflect.TypeOf(int16(0)), reflect.TypeOf(int32(0)), reflect.TypeOf(int64(0)),
	reflect.TypeOf(uint(0)), reflect.TypeOf(uint8(0)), reflect.TypeOf(uint16(0)), reflect.TypeOf(uint32(0)),
	reflect.TypeOf(float32(0)), reflect.TypeOf(float64(0)), reflect.TypeOf(""), reflect.TypeOf([]byte(nil)),
}

func (g *tgen) typ(depth int) reflect.Type {
	k := g.r.Intn(12)
	if depth <= 0 {
		k = g.r.Intn(5)
	}
	switch {
	case k < 5:
		return gen.Pick(g.r, scalarTypes)
	case k < 6:
		if g.r.Chance(15) {
			return reflect.PointerTo(reflect.PointerTo(gen.Pick(g.r, scalarTypes[:13])))
		}
		return reflect.PointerTo(gen.Pick(g.r, scalarTypes[:13]))
	case k < 7:
		return reflect.SliceOf(g.typ(depth - 1))
	case k < 8:
		return reflect.MapOf(reflect.TypeOf(""), g.typ(depth-1))
	case k < 9:
		return reflect.TypeOf((*interface{})(nil)).Elem()
	case k < 11:
		return g.structType(depth - 1)
	default:
		return reflect.PointerTo(g.structType(depth - 1))
	}
}

func (g *tgen) structType(depth int) reflect.Type {
	nf := 1 + g.r.Intn(5)
	var fields []reflect.StructField
	used := map[string]bool{}
	for i := 0; i < nf; i++ {
		name := fmt.Sprintf("F%d", i)
		jsonName := gen.Pick(g.r, []string{"a", "b", "c", "d", "e", "f", "g"})
		for used[jsonName] {
			jsonName += "x"
		}
		used[jsonName] = true
		var tag string
		switch g.r.Intn(6) {
		case 0:
			tag = `json:"` + jsonName + `"`
		case 1, 2:
			tag = `json:"` + jsonName + `,omitempty"`
		case 3:
			tag = `json:"-"`
		case 4:
			tag = "" // Go field name
			used[name] = true
		default:
			tag = `json:",omitempty"`
			used[name] = true
		}
		fields = append(fields, reflect.StructField{Name: name, Type: g.typ(depth), Tag: reflect.StructTag(tag)})
	}
	return reflect.StructOf(fields)
}

// structTypeWild: outside the family of the JSON judges (DESIGN.md R12) — embedded structs with and
// without the inline option, inline on fields that are not embedded or not structs, repeated JSON
// names. Used for the model tie only (`rfl.conv` / `rfl.json`), never judged against encoding/json.
func (g *tgen) structTypeWild(depth int) reflect.Type {
	nf := 1 + g.r.Intn(5)
	var fields []reflect.StructField
	for i := 0; i < nf; i++ {
		name := fmt.Sprintf("F%d", i)
		jsonName := gen.Pick(g.r, []string{"a", "b", "c", "F0", "F1"})
		k := g.r.Intn(20)
		switch {
		case k < 5 && depth > 0:
			var inner reflect.Type
			if g.r.Bool() {
				inner = g.structTypeWild(depth - 1)
			} else {
				inner = gen.Pick(g.r, []reflect.Type{reflect.TypeOf(Inner{}), reflect.TypeOf(In3{}), reflect.TypeOf(In2{})})
			}
			if g.r.Chance(40) {
				inner = reflect.PointerTo(inner)
			}
			tag := gen.Pick(g.r, []string{`json:",inline"`, `json:",inline"`, `json:",inline"`, ``, `json:"` + jsonName + `"`, `json:",inline,omitempty"`, `json:"-"`})
			fields = append(fields, reflect.StructField{Name: fmt.Sprintf("E%d", i), Type: inner, Anonymous: true, Tag: reflect.StructTag(tag)})
		case k < 7:
			t := gen.Pick(g.r, []reflect.Type{reflect.TypeOf(Inner{}), reflect.TypeOf(&Inner{}), reflect.TypeOf(0), reflect.TypeOf([]string{}), reflect.TypeOf(map[string]int{})})
			fields = append(fields, reflect.StructField{Name: name, Type: t, Tag: `json:",inline"`})
		default:
			tag := gen.Pick(g.r, []string{`json:"` + jsonName + `"`, `json:"` + jsonName + `,omitempty"`, `json:"` + jsonName + `,omitempty"`, `json:"-"`, ``, `json:",omitempty"`})
			fields = append(fields, reflect.StructField{Name: name, Type: g.typ(depth), Tag: reflect.StructTag(tag)})
		}
	}
	return reflect.StructOf(fields)
}

// fill sets v (addressable) to a random value of its type.
func (g *tgen) fill(v reflect.Value, depth int) {
	switch v.Kind() {
	case reflect.Bool:
		v.SetBool(g.r.Bool())
	case reflect.Int, reflect.Int8, reflect.Int16, reflect.Int32, reflect.Int64:
		v.SetInt(int64(g.r.Intn(5)) - 1)
	case reflect.Uint, reflect.Uint8, reflect.Uint16, reflect.Uint32:
		v.SetUint(uint64(g.r.Intn(4)))
		if v.Kind() == reflect.Uint && v.Type().Size() == 8 {
			// (own stream: the other draws stay as they were)
			if br := g.r.Fork(424_242); br.Chance(2) {
				v.SetUint(gen.Pick(br, []uint64{1 << 63, 1<<63 + 5, 1<<64 - 1}))
				g.bigUint = true
			}
		}
	case reflect.Float32, reflect.Float64:
		v.SetFloat(gen.Pick(g.r, []float64{0, 1, 0.5, -1.25, 2, 1024.5, 0.1, 1e-7, 16777217}))
	case reflect.String:
		v.SetString(gen.Pick(g.r, []string{"", "a", "b", "é", "x y"}))
	case reflect.Slice:
		if g.r.Chance(25) {
			return // nil
		}
		if v.Type().Elem().Kind() == reflect.Uint8 {
			v.SetBytes([]byte(gen.Pick(g.r, []string{"", "hi", "\x00\xff"})))
			return
		}
		n := g.r.Intn(3)
		s := reflect.MakeSlice(v.Type(), n, n)
		for i := 0; i < n; i++ {
			g.fill(s.Index(i), depth-1)
		}
		v.Set(s)
	case reflect.Map:
		if g.r.Chance(25) {
			return
		}
		m := reflect.MakeMap(v.Type())
		for i := 0; i < g.r.Intn(3); i++ {
			e := reflect.New(v.Type().Elem()).Elem()
			g.fill(e, depth-1)
			m.SetMapIndex(reflect.ValueOf(gen.Pick(g.r, []string{"k1", "k2", "k3"})), e)
		}
		v.Set(m)
	case reflect.Ptr:
		if g.r.Chance(35) {
			return
		}
		p := reflect.New(v.Type().Elem())
		g.fill(p.Elem(), depth-1)
		v.Set(p)
	case reflect.Interface:
		switch g.r.Intn(7) {
		case 0:
		case 1:
			v.Set(reflect.ValueOf(int64(g.r.Intn(3))))
		case 2:
			v.Set(reflect.ValueOf("s"))
		case 3:
			v.Set(reflect.ValueOf(map[string]interface{}{"q": int64(1), "r": []interface{}{true}}))
		case 4:
			v.Set(reflect.ValueOf([]interface{}{int64(1), "x"}))
		default:
			// typed Go values behind an interface (inside free-form containers too): encoding/json encodes
			// them by their dynamic type
			typedVals := []interface{}{
				[]string{"-v", "--all"}, map[string]string{"k": "v"}, Inner{X: 1, Y: "y"}, &Inner{X: 2}, []byte("hi"),
				int32(3), uint8(4), float32(0.5), map[string]int{"n": 1}, []Inner{{X: 1}}, In3{A: "a"},
				customMarshal{1}, &customMarshal{2}, []customMarshal{{3}}, float32(0.1),
				strMarshal{1}, numMarshal{4}, &numMarshal{5}, arrMarshal{2}, &ptrMarshal{3}, convMarshal{6}, boolMarshal{true}, nullMarshal{}, ptrMarshal{7},
			}
			tv := gen.Pick(g.r, typedVals)
			switch g.r.Intn(3) {
			case 0:
				v.Set(reflect.ValueOf(tv))
			case 1:
				v.Set(reflect.ValueOf(map[string]interface{}{"t": tv, "u": int64(1)}))
			default:
				v.Set(reflect.ValueOf([]interface{}{tv, "x"}))
			}
		}
	case reflect.Struct:
		for i := 0; i < v.NumField(); i++ {
			g.fill(v.Field(i), depth-1)
		}
	}
}

// ---------------------------------------------------------------------------------------------
// compiled types with custom marshalers (cannot be built with StructOf)

type customMarshal struct{ N int }

func (c customMarshal) MarshalJSON() ([]byte, error) {
	return []byte(fmt.Sprintf(`{"n":%d,"tag":"custom"}`, c.N)), nil
}

type withCustom struct {
	A customMarshal  `json:"a"`
	P *customMarshal `json:"p,omitempty"`
	L []customMarshal `json:"l,omitempty"`
	// embedded structs carry the explicit inline option (the Kubernetes convention the library follows;
	// an embedded struct WITHOUT it is flattened by encoding/json but kept nested by the library: outside
	// the family, recorded in DESIGN.md)
	Inner `json:",inline"`
	Q     string `json:"q,omitempty"`
}

type Inner struct {
	X int    `json:"x"`
	Y string `json:"y,omitempty"`
}

// marshalers producing every JSON kind, by value and by pointer receiver, and the optional direct converter
type strMarshal struct{ N int }

func (m strMarshal) MarshalJSON() ([]byte, error) { return []byte(fmt.Sprintf(`"s-%d"`, m.N)), nil }

type numMarshal struct{ N int }

func (m numMarshal) MarshalJSON() ([]byte, error) {
	switch m.N % 3 {
	case 0:
		return []byte(fmt.Sprintf(`%d`, m.N)), nil
	case 1:
		return []byte(fmt.Sprintf(`%d.5`, m.N)), nil
	default:
		return []byte(fmt.Sprintf(`%de2`, m.N)), nil
	}
}

type boolMarshal struct{ B bool }

func (m boolMarshal) MarshalJSON() ([]byte, error) {
	if m.B {
		return []byte("true"), nil
	}
	return []byte("false"), nil
}

type nullMarshal struct{ N int }

func (m nullMarshal) MarshalJSON() ([]byte, error) { return []byte("null"), nil }

type arrMarshal struct{ N int }

func (m arrMarshal) MarshalJSON() ([]byte, error) { return []byte(fmt.Sprintf(`[%d,"a",{"k":null}]`, m.N)), nil }

type ptrMarshal struct{ N int }

func (m *ptrMarshal) MarshalJSON() ([]byte, error) { return []byte(fmt.Sprintf(`"p-%d"`, m.N)), nil }

type convMarshal struct{ N int }

func (m convMarshal) MarshalJSON() ([]byte, error) { return []byte(fmt.Sprintf(`"c-%d"`, m.N)), nil }
func (m convMarshal) ToUnstructured() interface{}  { return fmt.Sprintf("c-%d", m.N) }

type withMarshalers struct {
	S  strMarshal             `json:"s"`
	SP *strMarshal            `json:"sp,omitempty"`
	N  numMarshal             `json:"n"`
	B  boolMarshal            `json:"b"`
	Z  nullMarshal            `json:"z"`
	ZO *nullMarshal           `json:"zo,omitempty"`
	A  arrMarshal             `json:"a"`
	P  ptrMarshal             `json:"p"`
	PP *ptrMarshal            `json:"pp"`
	C  convMarshal            `json:"c"`
	L  []numMarshal           `json:"l,omitempty"`
	LP []ptrMarshal           `json:"lp,omitempty"`
	M  map[string]strMarshal  `json:"m,omitempty"`
	MP map[string]*ptrMarshal `json:"mp,omitempty"`
	MV map[string]ptrMarshal  `json:"mv,omitempty"`
	I  interface{}            `json:"i,omitempty"`
}

// nested inline embedding, three and four levels deep, by value and by pointer
type In3 struct {
	A string `json:"a3"`
	B string `json:"b3,omitempty"`
	C int    `json:"c3"`
}

type In2 struct {
	In3 `json:",inline"`
	D   string `json:"d2"`
	E   int    `json:"e2,omitempty"`
}

type In1 struct {
	In2 `json:",inline"`
	F   string `json:"f1"`
	G   *int   `json:"g1,omitempty"`
}

type deepInline struct {
	In1 `json:",inline"`
	H   string `json:"h0"`
	I   []In3  `json:"i0,omitempty"`
}

type PIn2 struct {
	*In3 `json:",inline"`
	D    string `json:"d2"`
}

type ptrInline struct {
	*PIn2 `json:",inline"`
	H     string                 `json:"h0"`
	M     map[string]interface{} `json:"m0,omitempty"`
	L     []interface{}          `json:"l0,omitempty"`
}

var compiledTypes = []reflect.Type{reflect.TypeOf(deepInline{}), reflect.TypeOf(ptrInline{}), reflect.TypeOf(In1{}), reflect.TypeOf(PIn2{}),
	reflect.TypeOf(withMarshalers{}), reflect.TypeOf(withMarshalers{})}

// ---------------------------------------------------------------------------------------------

// viaJSON: encoding/json round trip into generic data, numbers as int64 when integral else float64.
func viaJSON(p interface{}) (interface{}, error) {
	b, err := json.Marshal(p)
	if err != nil {
		return nil, err
	}
	dec := json.NewDecoder(bytes.NewReader(b))
	dec.UseNumber()
	var out interface{}
	if err := dec.Decode(&out); err != nil {
		return nil, err
	}
	return convNumbers(out), nil
}

func convNumbers(v interface{}) interface{} {
	switch t := v.(type) {
	case json.Number:
		if i, err := t.Int64(); err == nil {
			return i
		}
		f, _ := t.Float64()
		return f
	case []interface{}:
		for i := range t {
			t[i] = convNumbers(t[i])
		}
		return t
	case map[string]interface{}:
		for k := range t {
			t[k] = convNumbers(t[k])
		}
		return t
	}
	return v
}

func domRfl(r *gen.Rng, n int, thorough bool, o *Out) {
	g := &tgen{r: r}
	for i := 0; i < n; i++ {
		cr := r.Fork(uint64(i))
		g.r = cr
		g.bigUint = false
		var ptr reflect.Value
		if cr.Chance(10) {
			w := &withCustom{A: customMarshal{cr.Intn(3)}, Q: gen.Pick(cr, []string{"", "q"})}
			if cr.Bool() {
				w.P = &customMarshal{7}
			}
			if cr.Bool() {
				w.L = []customMarshal{{1}, {2}}
			}
			w.X = cr.Intn(3)
			if cr.Bool() {
				w.Y = "y"
			}
			ptr = reflect.ValueOf(w)
		} else if cr.Chance(12) {
			// the model tie only
			var st reflect.Type
			if safe(func() string { st = g.structTypeWild(2); return "ok" }) != "ok" || st == nil {
				continue
			}
			ptr = reflect.New(st)
			g.fill(ptr.Elem(), 3)
			if ts, ok := vx.GoType(st); ok {
				if vs, ok := vx.GoVal(ptr.Elem()); ok {
					o.Emit("rfl.conv "+ts+" "+vs, func() string {
						rv, err := value.NewValueReflect(ptr.Interface())
						if err != nil {
							return "err"
						}
						return vx.Value(rv)
					})
					if want, err := viaJSON(ptr.Interface()); err == nil {
						o.Emit("rfl.json "+ts+" "+vs, func() string { return vx.Unstructured(want) })
					}
					o.Tag("rfl:modelled-wild")
				}
			}
			o.Cases++
			continue
		} else if cr.Chance(15) {
			ptr = reflect.New(gen.Pick(cr, compiledTypes))
			g.fill(ptr.Elem(), 5)
			o.Tag("rfl:compiled-inline")
		} else {
			st := g.structType(2)
			ptr = reflect.New(st)
			g.fill(ptr.Elem(), 3)
		}
		want, err := viaJSON(ptr.Interface())
		if err != nil {
			continue
		}
		wantS := vx.CanonValue(value.NewValueInterface(want))
		// the reflected value seen through the generic Value interface
		var gotS, unstructS string
		res := safe(func() string {
			rv, err := value.NewValueReflect(ptr.Interface())
			if err != nil {
				return "err:" + err.Error()
			}
			// integral floats and ints coincide: JSON does not keep the distinction (1.0 is written "1")
			gotS = vx.CanonValue(rv)
			unstructS = vx.CanonValue(value.NewValueInterface(rv.Unstructured()))
			return "ok"
		})
		typeDesc := ptr.Type().String()
		if len(typeDesc) > 300 {
			typeDesc = typeDesc[:300]
		}
		sig := fmt.Sprintf("type=%s json=%s", typeDesc, wantS)
		if res != "ok" {
			o.Fail("C18", "reflect/wrap-succeeds", res+" "+lastPanic, "reflect/wrap-succeeds "+sig, "rfl:"+sig)
			continue
		}
		if g.bigUint {
			// finding D23: valueReflect.AsInt converts a uint with int64(...): 2^63 and above wrap to negative
			// numbers, encoding/json writes the positive number. Only this clause is judged for such a case.
			if gotS != wantS {
				o.Fail("C18", "reflect/structure-equals-json-round-trip", "reflected "+gotS+" json "+wantS, "reflect/structure-equals-json-round-trip/D23-uint-above-int64 "+sig, "rfl:"+sig)
			}
			o.Tag("rfl:uint-above-int64")
			o.Cases++
			continue
		}
		if gotS != wantS {
			o.Fail("C18", "reflect/structure-equals-json-round-trip", "reflected "+gotS+" json "+wantS, "reflect/structure-equals-json-round-trip "+sig, "rfl:"+sig)
		}
		// the Map / List interfaces agree with themselves and with the generic twin, under both allocators
		safe(func() string {
			rv, err := value.NewValueReflect(ptr.Interface())
			if err != nil {
				return ""
			}
			var walk func(v value.Value, path string)
			walk = func(v value.Value, path string) {
				switch {
				case v.IsMap():
					m := v.AsMap()
					n := 0
					var keys []string
					m.Iterate(func(k string, _ value.Value) bool { n++; keys = append(keys, k); return true })
					if m.Length() != n || m.Empty() != (n == 0) {
						o.Fail("C18", "reflect/length-equals-iteration", fmt.Sprintf("%s: Length %d, Empty %v, iterated %d", path, m.Length(), m.Empty(), n),
							"reflect/length-equals-iteration "+sig, "rfl:"+sig)
					}
					for _, k := range keys {
						if x, ok := m.Get(k); ok {
							walk(x, path+"."+k)
						} else {
							o.Fail("C18", "reflect/iterated-key-gettable", path+"."+k, "reflect/iterated-key-gettable "+sig, "rfl:"+sig)
						}
					}
				case v.IsList():
					l := v.AsList()
					for i := 0; i < l.Length(); i++ {
						walk(l.At(i), fmt.Sprintf("%s[%d]", path, i))
					}
				}
			}
			walk(rv, "")
			gv := value.NewValueInterface(want)
			for _, a := range []value.Allocator{value.HeapAllocator, value.NewFreelistAllocator()} {
				if !value.EqualsUsing(a, rv, gv) || !value.EqualsUsing(a, gv, rv) || value.CompareUsing(a, rv, gv) != 0 {
					o.Fail("C18", "reflect/equals-its-json-round-trip", "", "reflect/equals-its-json-round-trip "+sig, "rfl:"+sig)
					break
				}
			}
			return ""
		})
		if unstructS != wantS {
			o.Fail("C18", "reflect/unstructured-equals-json-round-trip", "Unstructured() "+unstructS+" json "+wantS, "reflect/unstructured-equals-json-round-trip "+sig, "rfl:"+sig)
		}
		// the reflection model: the library's reading and encoding/json's reading of the same Go data
		if ts, ok := vx.GoType(ptr.Type().Elem()); ok {
			if vs, ok := vx.GoVal(ptr.Elem()); ok {
				o.Emit("rfl.conv "+ts+" "+vs, func() string {
					rv, err := value.NewValueReflect(ptr.Interface())
					if err != nil {
						return "err"
					}
					return vx.Value(rv)
				})
				o.Emit("rfl.json "+ts+" "+vs, func() string { return vx.Unstructured(want) })
				o.Tag("rfl:modelled")
			}
		}
		// equality / ordering between the reflected value and generic values: tied to the model through val.cmp
		other := gen.Mutate(cr, gen.DeepCopy(want), 2)
		for _, b := range []interface{}{want, other} {
			b := b
			op := "val.cmp " + vx.Unstructured(want) + " " + vx.Unstructured(b)
			o.Emit(op, func() string {
				rv, _ := value.NewValueReflect(ptr.Interface())
				bv := value.NewValueInterface(b)
				ans := valAns(rv, bv)
				rev := valAns(bv, rv)
				if sign(ans.c) != -sign(rev.c) || ans.e != rev.e {
					o.Fail("C18", "reflect/equality-and-order-symmetric", "", "reflect/equality-and-order-symmetric "+op, op)
				}
				return ans.String()
			})
		}
		// two reflected values of one Go type against each other (the struct-to-struct zip), tied to the
		// model through val.cmp on their JSON round trips
		safe(func() string {
			ptr2 := reflect.New(ptr.Type().Elem())
			g.fill(ptr2.Elem(), 3)
			if g.bigUint {
				// finding D23 is judged on single values only
				g.bigUint = false
				return ""
			}
			if cr.Chance(30) {
				ptr2.Elem().Set(ptr.Elem())
			}
			want2, err := viaJSON(ptr2.Interface())
			if err != nil {
				return ""
			}
			op := "val.cmp " + vx.Unstructured(want) + " " + vx.Unstructured(want2)
			o.Emit(op, func() string {
				ra, _ := value.NewValueReflect(ptr.Interface())
				rb, _ := value.NewValueReflect(ptr2.Interface())
				ans := valAns(ra, rb)
				rev := valAns(rb, ra)
				if sign(ans.c) != -sign(rev.c) || ans.e != rev.e {
					o.Fail("C18", "reflect/equality-and-order-symmetric", "two reflected values of one type", "reflect/equality-and-order-symmetric "+op, op)
				}
				return ans.String()
			})
			// typed operations on two reflection-backed objects (the unordered reflect-to-reflect zip) give
			// what they give on the two JSON round trips
			ta, e1 := typed.DeducedParseableType.FromStructured(ptr.Interface())
			tb, e2 := typed.DeducedParseableType.FromStructured(ptr2.Interface())
			ua, e3 := typed.DeducedParseableType.FromUnstructured(want)
			ub, e4 := typed.DeducedParseableType.FromUnstructured(want2)
			if e1 == nil && e2 == nil && e3 == nil && e4 == nil {
				c1, err1 := ta.Compare(tb)
				c2, err2 := ua.Compare(ub)
				if (err1 == nil) != (err2 == nil) || (err1 == nil && cmpString(c1) != cmpString(c2)) {
					o.Fail("C18", "reflect/typed-compare-of-two-reflected-agrees", "", "reflect/typed-compare-of-two-reflected-agrees "+sig, "rfl:"+sig)
				}
				m1, err1 := ta.Merge(tb)
				m2, err2 := ua.Merge(ub)
				if (err1 == nil) != (err2 == nil) || (err1 == nil && vx.CanonValue(m1.AsValue()) != vx.CanonValue(m2.AsValue())) {
					o.Fail("C18", "reflect/typed-merge-of-two-reflected-agrees", "", "reflect/typed-merge-of-two-reflected-agrees "+sig, "rfl:"+sig)
				}
			}
			return ""
		})
		// Map.Set through the generic interface on a reflected struct: a field whose Go type takes
		// unstructured data as it is (string, bool, int64, float64, interface{}) is given the value the
		// same field has in another instance; exactly that entry changes
		if ptr.Type().Elem().Kind() == reflect.Struct {
			safe(func() string {
				st := ptr.Type().Elem()
				var cands []int
				for i := 0; i < st.NumField(); i++ {
					f := st.Field(i)
					if f.Anonymous || f.Tag.Get("json") == "-" || strings.Contains(f.Tag.Get("json"), "inline") {
						continue
					}
					switch f.Type {
					case reflect.TypeOf(""), reflect.TypeOf(false), reflect.TypeOf(int64(0)), reflect.TypeOf(float64(0)), reflect.TypeOf((*interface{})(nil)).Elem():
						cands = append(cands, i)
					}
				}
				if len(cands) == 0 {
					return ""
				}
				i := gen.Pick(cr, cands)
				f := st.Field(i)
				name := f.Name
				if tag := f.Tag.Get("json"); tag != "" && !strings.HasPrefix(tag, ",") {
					name = strings.Split(tag, ",")[0]
				}
				src := reflect.New(st)
				g.fill(src.Elem(), 3)
				nv := src.Elem().Field(i)
				if nv.Kind() == reflect.Interface && nv.IsNil() {
					return ""
				}
				nu, err := viaJSON(nv.Interface())
				if err != nil || nu == nil {
					// a null carries no Go type: what Set(name, null) stores is judged in dom_rset.go
					return ""
				}
				if f.Type == reflect.TypeOf(float64(0)) {
					nu = nv.Float() // Set takes the Go value as it is: keep a float a float
				}
				cp := reflect.New(st)
				cp.Elem().Set(ptr.Elem())
				rv, err := value.NewValueReflect(cp.Interface())
				if err != nil || !rv.IsMap() {
					return ""
				}
				rv.AsMap().Set(name, value.NewValueInterface(nu))
				exp := reflect.New(st)
				exp.Elem().Set(ptr.Elem())
				exp.Elem().Field(i).Set(nv)
				wantAfter, err1 := viaJSON(exp.Interface())
				gotAfter, err2 := viaJSON(cp.Interface())
				if err1 != nil || err2 != nil {
					return ""
				}
				if vx.CanonValue(value.NewValueInterface(gotAfter)) != vx.CanonValue(value.NewValueInterface(wantAfter)) {
					o.Fail("C18", "map/set-changes-exactly-that-entry", "field "+name+": "+vx.CanonValue(value.NewValueInterface(gotAfter))+" want "+vx.CanonValue(value.NewValueInterface(wantAfter)),
						"map/set-changes-exactly-that-entry "+sig, "rfl:"+sig)
				}
				if vx.CanonValue(rv) != vx.CanonValue(value.NewValueInterface(wantAfter)) {
					o.Fail("C18", "map/set-consistent-with-data", "", "map/set-consistent-with-data "+sig, "rfl:"+sig)
				}
				o.Tag("rfl:struct-set")
				return ""
			})
		}
		// typed operations under the deduced type give the same answers
		safe(func() string {
			rv, _ := value.NewValueReflect(ptr.Interface())
			a, err1 := typed.DeducedParseableType.FromStructured(ptr.Interface())
			b, err2 := typed.DeducedParseableType.FromUnstructured(want)
			if (err1 == nil) != (err2 == nil) {
				o.Fail("C18", "reflect/typed-validation-agrees", fmt.Sprint(err1, err2), "reflect/typed-validation-agrees "+sig, "rfl:"+sig)
				return ""
			}
			if err1 != nil {
				return ""
			}
			fa, e1 := a.ToFieldSet()
			fb, e2 := b.ToFieldSet()
			if e1 != nil || e2 != nil || !fa.Equals(fb) {
				o.Fail("C18", "reflect/typed-fieldset-agrees", "", "reflect/typed-fieldset-agrees "+sig, "rfl:"+sig)
			}
			if cmp, err := a.Compare(b); err != nil || !cmp.IsSame() {
				o.Fail("C18", "reflect/typed-compare-agrees", "", "reflect/typed-compare-agrees "+sig, "rfl:"+sig)
			}
			_ = rv
			return ""
		})
		// Map.Set / Map.Delete through the generic interface change exactly that entry
		if m, ok := want.(map[string]interface{}); ok {
			keys := make([]string, 0, len(m))
			for k := range m {
				keys = append(keys, k)
			}
			sort.Strings(keys)
			if len(keys) > 0 {
				k := gen.Pick(cr, keys)
				safe(func() string {
					cp := reflect.New(ptr.Type().Elem())
					cp.Elem().Set(ptr.Elem())
					rv, err := value.NewValueReflect(cp.Interface())
					if err != nil || !rv.IsMap() {
						return ""
					}
					rv.AsMap().Delete(k) // panics by design when the field is neither a pointer nor omitempty
					after := vx.CanonValue(rv)
					// exactly that entry changed: every other entry is as before (the entry itself is gone, or
					// shows null / its zero value when the Go field cannot be omitted)
					gotU, _ := rv.Unstructured().(map[string]interface{})
					exp := gen.DeepCopy(want).(map[string]interface{})
					delete(exp, k)
					if gotU != nil {
						rest := map[string]interface{}{}
						for kk, vv := range gotU {
							if kk != k {
								rest[kk] = vv
							}
						}
						if vx.CanonValue(value.NewValueInterface(rest)) != vx.CanonValue(value.NewValueInterface(exp)) {
							o.Fail("C18", "map/delete-changes-exactly-that-entry", "after "+after, "map/delete-changes-exactly-that-entry "+sig, "rfl:"+sig)
						}
					}
					// and the Go data agrees with what the generic view shows
					got, _ := viaJSON(cp.Interface())
					if after != vx.CanonValue(value.NewValueInterface(got)) {
						o.Fail("C18", "map/delete-consistent-with-data", "", "map/delete-consistent-with-data "+sig, "rfl:"+sig)
					}
					return ""
				})
			}
		}
		o.Cases++
		o.Tag("rfl:" + strings.SplitN(wantS, "S", 2)[0])
		if ptr.Type().Elem().Kind() == reflect.Struct && ptr.Type().Elem().NumField() >= 3 {
			o.Nontrivial(sig)
		}
	}
	// Set / Delete on reflected structs and maps at any depth (dom_rset.go)
	rsetExhaustive(o)
	// (every case builds fresh struct types, which reflect keeps for ever: the count is capped)
	nset := 2 * n
	if nset > 6000 {
		nset = 6000 + (n-3000)/10
	}
	for i := 0; i < nset; i++ {
		rsetCase(o, g, r.Fork(uint64(9_000_000+i)))
	}
	// the generic map interface on every map representation: Set then Delete, against the model
	for i := 0; i < n; i++ {
		cr := r.Fork(uint64(7_000_000 + i))
		m := map[string]interface{}{}
		for k := 0; k < cr.Intn(4); k++ {
			m[gen.Pick(cr, []string{"a", "b", "c", "d"})] = gen.SimpleScalar(cr)
		}
		k := gen.Pick(cr, []string{"a", "b", "c", "e", ""})
		v := gen.SimpleScalar(cr)
		d := gen.Pick(cr, []string{"a", "b", "c", "e", k})
		op := "gmap.ops " + vx.Unstructured(m) + " " + vx.Str(k) + " " + vx.Unstructured(v) + " " + vx.Str(d)
		o.Emit(op, func() string {
			out := ""
			for rep := 0; rep < gen.NumReps; rep++ {
				mv := gen.Rep(gen.DeepCopy(m), rep)
				mm := mv.AsMap()
				mm.Set(k, value.NewValueInterface(v))
				s1 := vx.Value(mv)
				mm.Delete(d)
				s2 := vx.Value(mv)
				res := s1 + " " + s2 + " has=" + vx.Bool(mm.Has(d)) + " len=" + fmt.Sprint(mm.Length())
				if rep == 0 {
					out = res
				} else if res != out {
					o.Fail("C18", "map/set-delete-same-in-every-representation", fmt.Sprintf("representation %d: %s vs %s", rep, res, out),
						"map/set-delete-same-in-every-representation "+op, op)
				}
			}
			return out
		})
	}
	// JSON / YAML round trips of generic values
	for i := 0; i < n; i++ {
		cr := r.Fork(uint64(5_000_000 + i))
		u := gen.Unstructured(cr, 3)
		if hasExtremeFloat(u) {
			continue
		}
		us := vx.Unstructured(u)
		op := "val.cmp " + us + " " + us
		o.Emit(op, func() string {
			v := value.NewValueInterface(u)
			jb, err := value.ToJSON(v)
			if err != nil {
				o.Fail("C18", "codec/json-encodes", err.Error(), "codec/json-encodes "+op, op)
				return valAns(v, v).String()
			}
			back, err := value.FromJSON(jb)
			if err != nil || !value.Equals(v, back) || vx.CanonValue(back) != vx.CanonValue(v) {
				o.Fail("C18", "codec/json-round-trip", string(jb), "codec/json-round-trip "+op, op)
			}
			yb, err := value.ToYAML(v)
			if err == nil {
				var yv interface{}
				if err := yaml.Unmarshal(yb, &yv); err != nil || vx.CanonValue(value.NewValueInterface(yv)) != vx.CanonValue(v) {
					o.Fail("C18", "codec/yaml-round-trip", string(yb), "codec/yaml-round-trip "+op, op)
				}
			}
			return valAns(v, back).String()
		})
	}
}

func hasExtremeFloat(v interface{}) bool {
	switch t := v.(type) {
	case float64:
		return math.Abs(t) > 1e15 || (t != 0 && math.Abs(t) < 1e-6)
	case int64:
		return t > 1<<52 || t < -(1<<52)
	case []interface{}:
		for _, x := range t {
			if hasExtremeFloat(x) {
				return true
			}
		}
	case map[string]interface{}:
		for _, x := range t {
			if hasExtremeFloat(x) {
				return true
			}
		}
	}
	return false
}
