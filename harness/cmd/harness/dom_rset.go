package main

// Set / Delete through the generic Map interface on reflected Go data (C18: "setting or deleting an
// entry through the generic map interface changes exactly that entry, whatever the representation
// behind it"). The containers are Go structs and maps built at run time, reached at any depth below
// the root: inside structs, behind pointers, inside slices, and as elements of Go maps (which are
// not addressable: the library writes a replacement into the parent map).
//
// The judge is independent of the library's reflection code: the whole root is read as generic data
// before and after, and the expected result is computed on the generic data.

import (
	"encoding/json"
	"fmt"
	"reflect"
	"strconv"
	"strings"

	"sigs.k8s.io/structured-merge-diff/v6/value"

	"verifharness/internal/gen"
	"verifharness/internal/vx"
)

type rstep struct {
	key   string
	index int
	isKey bool
}

func (s rstep) String() string {
	if s.isKey {
		return "." + s.key
	}
	return fmt.Sprintf("[%d]", s.index)
}

func pathString(p []rstep) string {
	var b strings.Builder
	for _, s := range p {
		b.WriteString(s.String())
	}
	if b.Len() == 0 {
		return "(root)"
	}
	return b.String()
}

// genericTypes: field types a generic value can be assigned to as it is
var genericTypes = []reflect.Type{
	reflect.TypeOf(int64(0)), reflect.TypeOf(float64(0)), reflect.TypeOf(""), reflect.TypeOf(false),
	reflect.TypeOf((*interface{})(nil)).Elem(), reflect.TypeOf(map[string]interface{}{}), reflect.TypeOf([]interface{}{}),
}

func (g *tgen) genericStruct(depth int) reflect.Type {
	nf := 2 + g.r.Intn(4)
	var fields []reflect.StructField
	for i := 0; i < nf; i++ {
		jsonName := string(rune('a' + i))
		tag := `json:"` + jsonName + `"`
		if g.r.Chance(40) {
			tag = `json:"` + jsonName + `,omitempty"`
		}
		var t reflect.Type
		switch k := g.r.Intn(10); {
		case k < 6 || depth <= 0:
			t = gen.Pick(g.r, genericTypes)
		case k < 7:
			t = g.genericStruct(depth - 1)
		case k < 8:
			t = reflect.MapOf(reflect.TypeOf(""), g.genericStruct(depth-1))
		case k < 9:
			t = reflect.SliceOf(g.genericStruct(depth - 1))
		default:
			t = reflect.PointerTo(g.genericStruct(depth - 1))
		}
		fields = append(fields, reflect.StructField{Name: fmt.Sprintf("F%d", i), Type: t, Tag: reflect.StructTag(tag)})
	}
	return reflect.StructOf(fields)
}

// fillFull: like fill, but no nil maps / slices / pointers and at least one element, so that nested
// containers exist to be operated on
func (g *tgen) fillFull(v reflect.Value, depth int) {
	switch v.Kind() {
	case reflect.Slice:
		if v.Type().Elem().Kind() == reflect.Uint8 {
			g.fill(v, depth)
			return
		}
		n := 1 + g.r.Intn(2)
		s := reflect.MakeSlice(v.Type(), n, n)
		for i := 0; i < n; i++ {
			g.fillFull(s.Index(i), depth-1)
		}
		v.Set(s)
	case reflect.Map:
		m := reflect.MakeMap(v.Type())
		for _, k := range []string{"k", "o"}[:1+g.r.Intn(2)] {
			e := reflect.New(v.Type().Elem()).Elem()
			g.fillFull(e, depth-1)
			m.SetMapIndex(reflect.ValueOf(k).Convert(v.Type().Key()), e)
		}
		v.Set(m)
	case reflect.Ptr:
		p := reflect.New(v.Type().Elem())
		g.fillFull(p.Elem(), depth-1)
		v.Set(p)
	case reflect.Struct:
		for i := 0; i < v.NumField(); i++ {
			if v.Type().Field(i).PkgPath == "" {
				g.fillFull(v.Field(i), depth-1)
			}
		}
	case reflect.Interface:
		// generic data only: typed values with custom marshalers are read through a converted copy, and
		// operations on that copy are outside this judge (DESIGN.md §11)
		if x := gen.Unstructured(g.r, 2); x != nil {
			v.Set(reflect.ValueOf(x))
		}
	default:
		g.fill(v, depth)
		if v.IsZero() && g.r.Chance(70) {
			switch v.Kind() {
			case reflect.Int, reflect.Int8, reflect.Int16, reflect.Int32, reflect.Int64:
				v.SetInt(int64(1 + g.r.Intn(5)))
			case reflect.Uint, reflect.Uint8, reflect.Uint16, reflect.Uint32:
				v.SetUint(uint64(1 + g.r.Intn(5)))
			case reflect.String:
				v.SetString(gen.Pick(g.r, []string{"p", "q", "r"}))
			case reflect.Bool:
				v.SetBool(true)
			case reflect.Float32, reflect.Float64:
				v.SetFloat(gen.Pick(g.r, []float64{1.5, 2, -0.25}))
			}
		}
	}
}

// collectMaps lists the paths of every Map reachable in v (v itself included).
func collectMaps(v value.Value, at []rstep, out *[][]rstep, budget *int) {
	if *budget <= 0 {
		return
	}
	*budget--
	switch {
	case v.IsMap():
		*out = append(*out, append([]rstep(nil), at...))
		v.AsMap().Iterate(func(k string, c value.Value) bool {
			collectMaps(c, append(append([]rstep(nil), at...), rstep{key: k, isKey: true}), out, budget)
			return true
		})
	case v.IsList():
		l := v.AsList()
		for i := 0; i < l.Length(); i++ {
			collectMaps(l.At(i), append(append([]rstep(nil), at...), rstep{index: i}), out, budget)
		}
	}
}

func navigate(v value.Value, p []rstep) (value.Value, bool) {
	for _, s := range p {
		if s.isKey {
			if !v.IsMap() {
				return nil, false
			}
			c, ok := v.AsMap().Get(s.key)
			if !ok {
				return nil, false
			}
			v = c
		} else {
			if !v.IsList() || s.index >= v.AsList().Length() {
				return nil, false
			}
			v = v.AsList().At(s.index)
		}
	}
	return v, true
}

// genericAt returns the map at path p inside generic data
func genericAt(root interface{}, p []rstep) (map[string]interface{}, bool) {
	cur := root
	for _, s := range p {
		if s.isKey {
			m, ok := cur.(map[string]interface{})
			if !ok {
				return nil, false
			}
			cur, ok = m[s.key]
			if !ok {
				return nil, false
			}
		} else {
			l, ok := cur.([]interface{})
			if !ok || s.index >= len(l) {
				return nil, false
			}
			cur = l[s.index]
		}
	}
	m, ok := cur.(map[string]interface{})
	return m, ok
}

func isEmptyGeneric(v interface{}) bool {
	switch t := v.(type) {
	case nil:
		return true
	case bool:
		return !t
	case int64:
		return t == 0
	case float64:
		return t == 0
	case string:
		return t == ""
	case []interface{}:
		return len(t) == 0
	case map[string]interface{}:
		return len(t) == 0
	}
	return false
}

func canonG(v interface{}) string { return vx.CanonValue(value.NewValueInterface(v)) }

// rsetCase runs one Set or Delete and judges it.
func rsetCase(o *Out, g *tgen, cr *gen.Rng) {
	g.r = cr
	var root reflect.Type
	family := "generic"
	switch k := cr.Intn(10); {
	case k < 4:
		root = g.genericStruct(2)
	case k < 6:
		root = reflect.MapOf(reflect.TypeOf(""), g.genericStruct(1))
	case k < 7:
		root = reflect.MapOf(reflect.TypeOf(""), gen.Pick(cr, genericTypes))
	case k < 8:
		root = reflect.StructOf([]reflect.StructField{
			{Name: "M", Type: reflect.MapOf(reflect.TypeOf(""), g.genericStruct(1)), Tag: `json:"m"`},
			{Name: "L", Type: reflect.SliceOf(g.genericStruct(1)), Tag: `json:"l,omitempty"`},
			{Name: "N", Type: reflect.TypeOf(int64(0)), Tag: `json:"n"`},
		})
	default:
		// every width, pointers, nested maps: most Sets are refused here (finding D20)
		family = "any-width"
		root = g.structType(2)
	}
	pa, pb := reflect.New(root), reflect.New(root)
	g.fillFull(pa.Elem(), 4)
	g.fillFull(pb.Elem(), 4)
	rv, err := value.NewValueReflect(pa.Interface())
	if err != nil {
		return
	}
	rb, err := value.NewValueReflect(pb.Interface())
	if err != nil {
		return
	}
	var targets [][]rstep
	budget := 200
	if safe(func() string { collectMaps(rv, nil, &targets, &budget); return "ok" }) != "ok" || len(targets) == 0 {
		return
	}
	path := gen.Pick(cr, targets)
	before := gen.DeepCopy(rv.Unstructured())
	bm, ok := genericAt(before, path)
	if !ok {
		return
	}
	// candidate keys: the entries there now, those of the second instance at the same place, one new
	keys := []string{}
	for k := range bm {
		keys = append(keys, k)
	}
	var other map[string]interface{}
	if ob, ok := genericAt(gen.DeepCopy(rb.Unstructured()), path); ok {
		other = ob
		for k := range ob {
			if _, dup := bm[k]; !dup {
				keys = append(keys, k)
			}
		}
	}
	sortStrings(keys)
	known := len(keys)
	keys = append(keys, "nokey")
	key := keys[cr.Intn(len(keys))]
	if cr.Chance(85) && known > 0 {
		key = keys[cr.Intn(known)]
	}
	doSet := cr.Chance(60)
	var newV interface{}
	if doSet {
		if ov, ok := other[key]; ok && cr.Chance(75) {
			newV = ov
		} else if cur, ok := bm[key]; ok && cr.Chance(50) {
			// a value of the same kind as the present one
			switch cur.(type) {
			case int64:
				newV = int64(40 + cr.Intn(3))
			case float64:
				newV = 2.5
			case string:
				newV = "new"
			case bool:
				newV = true
			default:
				newV = gen.SimpleScalar(cr)
			}
		} else if cr.Chance(20) {
			newV = nil
		} else {
			newV = gen.SimpleScalar(cr)
		}
	}
	rsetRun(o, root, pa, rv, before, bm, other, path, key, doSet, newV, family)
}

// rsetRun performs one Set or Delete on the reflected value rv of *pa at path and judges it (see the
// head of this file). before / bm: the generic reading of the root and of the container before the
// operation; other: the entries a second instance has at the same place (may be nil).
func rsetRun(o *Out, root reflect.Type, pa reflect.Value, rv value.Value, before interface{}, bm, other map[string]interface{},
	path []rstep, key string, doSet bool, newV interface{}, family string) {
	what := fmt.Sprintf("Delete(%q)", key)
	if doSet {
		what = fmt.Sprintf("Set(%q, %s)", key, canonG(newV))
	}
	desc := fmt.Sprintf("type=%s before=%s at=%s %s", shortType(root), canonG(before), pathString(path), what)
	heldInGoMap := false
	if len(path) > 0 && path[len(path)-1].isKey {
		if parent, ok := navigate(rv, path[:len(path)-1]); ok {
			if u, isU := parent.Unstructured().(map[string]interface{}); isU && u != nil {
				// a struct reached through a Go map: find out by reflection on the root
				heldInGoMap = parentIsGoMap(pa.Elem(), path[:len(path)-1])
			}
		}
	}
	// expected, on generic data; both sides are then read through encoding/json alone: the expectation is
	// decoded into a fresh instance of the root type and encoded again (which applies omitempty and the
	// null / absent conventions of the type), the result is the Go data itself encoded
	exp := gen.DeepCopy(before)
	em, _ := genericAt(exp, path)
	if doSet {
		em[key] = gen.DeepCopy(newV)
	} else {
		delete(em, key)
	}
	norm := func(x interface{}) (string, bool) {
		b, err := json.Marshal(x)
		if err != nil {
			return "", false
		}
		fresh := reflect.New(root)
		if err := json.Unmarshal(b, fresh.Interface()); err != nil {
			return "", false
		}
		back, err := viaJSON(fresh.Interface())
		if err != nil {
			return "", false
		}
		return canonG(back), true
	}
	want, ok1 := norm(exp)
	// the type reads its own JSON back unchanged (no one-way marshalers, no lossy fields)?
	selfBefore, ok2 := norm(before)
	throughTyped := crossesTypedInterface(pa.Elem(), path)
	// the same operation for the model (generic family only: there `i` on the wire means int64)
	opLine := ""
	if family == "generic" {
		if ts, ok := vx.GoType(root); ok {
			if vs, ok := vx.GoVal(pa.Elem()); ok {
				pe := "Q"
				for _, st := range path {
					if st.isKey {
						pe += "k" + vx.Str(st.key)
					} else {
						pe += "i" + strconv.Itoa(st.index) + ";"
					}
				}
				pe += ";"
				if doSet {
					opLine = "rfl.set " + ts + " " + vs + " " + pe + " " + vx.Str(key) + " " + vx.Unstructured(newV)
				} else {
					opLine = "rfl.del " + ts + " " + vs + " " + pe + " " + vx.Str(key)
				}
			}
		}
	}
	res := safe(func() string {
		t, ok := navigate(rv, path)
		if !ok || !t.IsMap() {
			return "gone"
		}
		if doSet {
			t.AsMap().Set(key, value.NewValueInterface(gen.DeepCopy(newV)))
		} else {
			t.AsMap().Delete(key)
		}
		return "ok"
	})
	o.Cases++
	tag := "rset:" + family
	if doSet {
		tag += "/set"
	} else {
		tag += "/delete"
	}
	if heldInGoMap {
		tag += "/held-in-map"
	}
	fail := func(clause, detail string) {
		sig := "map/set-delete-changes-exactly-that-entry/" + clause
		o.Fail("C18", sig, detail+"  ["+desc+"]", sig+" "+desc, "rset: "+desc)
	}
	if res == "gone" {
		return
	}
	if opLine != "" && !strings.ContainsAny(opLine, "\n\r") {
		ans := "panic"
		switch {
		case res == "ok":
			ans = safe(func() string { return "ok " + vx.Value(rv) })
		case strings.Contains(lastPanic, "does not exist"), strings.Contains(lastPanic, "neither a pointer nor an omitempty field"),
			strings.Contains(lastPanic, "behind a nil pointer"):
			ans = "refused"
		}
		if !strings.ContainsAny(ans, "\n\r") {
			saved := lastPanic
			o.Emit(opLine, func() string { return ans })
			lastPanic = saved
		}
	}
	if res == "panic" {
		msg := lastPanic
		_, present := bm[key]
		_, inOther := other[key]
		switch {
		case strings.Contains(msg, "does not exist"):
			o.Tag(tag + "=refused-no-such-field")
			if present || inOther {
				fail("refused-existing-field", msg)
			}
		case strings.Contains(msg, "neither a pointer nor an omitempty field"):
			o.Tag(tag + "=refused-delete-of-plain-field")
			if doSet {
				fail("refused", msg)
			}
		case strings.Contains(msg, "behind a nil pointer"):
			o.Tag(tag + "=refused-nil-inline")
		case strings.Contains(msg, "not assignable") || strings.Contains(msg, "reflect.Set:") || strings.Contains(msg, "SetMapIndex"):
			if !ok1 {
				// encoding/json cannot put this value there either: a value of the wrong kind
				o.Tag(tag + "=refused-wrong-kind")
			} else if throughTyped {
				// the field's type is hidden behind an interface: whether encoding/json could store the value
				// there cannot be asked through the root type
				o.Tag(tag + "=refused-typed-value-behind-interface")
			} else {
				o.Tag(tag + "=panic-not-assignable")
				fail("panic-not-assignable", msg)
			}
		case strings.Contains(msg, "zero Value"):
			o.Tag(tag + "=panic-null-value")
			fail("panic-null-value", msg)
		case strings.Contains(msg, "not settable"):
			o.Tag(tag + "=panic-not-settable")
			fail("panic-not-settable", msg)
		default:
			o.Tag(tag + "=panic-other")
			fail("panic", msg)
		}
		// a refusal must leave everything as it was
		if after := canonG(rv.Unstructured()); after != canonG(before) {
			fail("refusal-changed-the-value", "after the panic the value reads "+after)
		}
		return
	}
	afterJSON, err := viaJSON(pa.Interface())
	if !ok1 || !ok2 || err != nil || selfBefore != canonG(before) {
		o.Tag(tag + "=skipped-not-representable")
		return
	}
	if throughTyped {
		// (only the model tie and the view-equals-data clause apply)
		if view := canonG(rv.Unstructured()); view != canonG(afterJSON) {
			fail("view-differs-from-data", "the reflected view reads "+view+" but the Go data encodes as "+canonG(afterJSON))
		}
		o.Tag(tag + "=typed-value-behind-interface")
		return
	}
	got := canonG(afterJSON)
	after := rv.Unstructured()
	if view := canonG(after); view != got {
		fail("view-differs-from-data", "the reflected view reads "+view+" but the Go data encodes as "+got)
	}
	accept := []string{want}
	if got == want {
		o.Tag(tag + "=exact")
		if len(path) > 0 {
			o.Nontrivial("rset " + desc)
		}
		return
	}
	clause := "other-entries-changed"
	if am, ok := genericAt(after, path); ok {
		same := true
		for k, v := range bm {
			if k == key {
				continue
			}
			if av, has := am[k]; !has || canonG(av) != canonG(v) {
				same = false
			}
		}
		for k := range am {
			if _, had := bm[k]; !had && k != key {
				same = false
			}
		}
		if same {
			clause = "entry-not-as-set"
			if doSet && newV == nil {
				clause = "entry-not-as-set/null-value"
			}
		}
	}
	if heldInGoMap {
		clause += "/struct-held-in-map"
	}
	o.Tag(tag + "=" + clause)
	fail(clause, "after: "+got+"  expected: "+accept[0])
}


// parentIsGoMap: the value at path p under root (by Go reflection) is a Go map whose elements are
// structs (not pointers): such elements are not addressable.
func parentIsGoMap(root reflect.Value, p []rstep) bool {
	cur := root
	deref := func(v reflect.Value) reflect.Value {
		for v.IsValid() && (v.Kind() == reflect.Ptr || v.Kind() == reflect.Interface) {
			if v.IsNil() {
				return reflect.Value{}
			}
			v = v.Elem()
		}
		return v
	}
	for _, s := range p {
		cur = deref(cur)
		if !cur.IsValid() {
			return false
		}
		switch cur.Kind() {
		case reflect.Struct:
			if !s.isKey {
				return false
			}
			found := false
			for i := 0; i < cur.NumField(); i++ {
				f := cur.Type().Field(i)
				name := strings.Split(f.Tag.Get("json"), ",")[0]
				if name == "" {
					name = f.Name
				}
				if name == s.key {
					cur = cur.Field(i)
					found = true
					break
				}
			}
			if !found {
				return false
			}
		case reflect.Map:
			if !s.isKey {
				return false
			}
			cur = cur.MapIndex(reflect.ValueOf(s.key).Convert(cur.Type().Key()))
		case reflect.Slice:
			if s.isKey || s.index >= cur.Len() {
				return false
			}
			cur = cur.Index(s.index)
		default:
			return false
		}
	}
	cur = deref(cur)
	return cur.IsValid() && cur.Kind() == reflect.Map && cur.Type().Elem().Kind() == reflect.Struct
}

// crossesTypedInterface: on the way to (and including) the container at path p an interface holds a
// typed Go value (a struct, a pointer, a typed map or slice). Decoding JSON into a fresh instance of the
// root type gives generic data there, so the expectation cannot be normalised through the type.
func crossesTypedInterface(root reflect.Value, p []rstep) bool {
	cur := root
	typed := false
	deref := func(v reflect.Value) reflect.Value {
		for v.IsValid() && (v.Kind() == reflect.Ptr || v.Kind() == reflect.Interface) {
			if v.IsNil() {
				return reflect.Value{}
			}
			if v.Kind() == reflect.Interface {
				switch v.Elem().Interface().(type) {
				case map[string]interface{}, []interface{}, int64, float64, string, bool:
				default:
					typed = true
				}
			}
			v = v.Elem()
		}
		return v
	}
	for i := 0; i <= len(p); i++ {
		cur = deref(cur)
		if !cur.IsValid() || i == len(p) {
			break
		}
		s := p[i]
		switch cur.Kind() {
		case reflect.Struct:
			found := false
			for j := 0; j < cur.NumField(); j++ {
				f := cur.Type().Field(j)
				name := strings.Split(f.Tag.Get("json"), ",")[0]
				if name == "" {
					name = f.Name
				}
				if s.isKey && name == s.key {
					cur = cur.Field(j)
					found = true
					break
				}
			}
			if !found {
				return typed
			}
		case reflect.Map:
			if !s.isKey {
				return typed
			}
			cur = cur.MapIndex(reflect.ValueOf(s.key).Convert(cur.Type().Key()))
		case reflect.Slice:
			if s.isKey || s.index >= cur.Len() {
				return typed
			}
			cur = cur.Index(s.index)
		default:
			return typed
		}
	}
	return typed
}

func shortType(t reflect.Type) string {
	s := t.String()
	if len(s) > 400 {
		s = s[:400] + "..."
	}
	return s
}

// ---- an exhaustive block on one fixed type: every Set (six values) and Delete at every container of the
// value, for every key of the container and one key that is none

type rxIn struct {
	X int64  `json:"x"`
	Z string `json:"z,omitempty"`
}

type rxOuter struct {
	A int64                  `json:"a"`
	B *int64                 `json:"b,omitempty"`
	C string                 `json:"c,omitempty"`
	M map[string]rxIn        `json:"m"`
	G map[string]interface{} `json:"g,omitempty"`
	N interface{}            `json:"n"`
	S rxIn                   `json:"s,omitempty"`
	P *rxIn                  `json:"p"`
	L []rxIn                 `json:"l,omitempty"`
	E map[string]*rxIn       `json:"e,omitempty"`
}

func rsetExhaustive(o *Out) {
	mkRoot := func(variant int) *rxOuter {
		b := int64(2)
		r := &rxOuter{A: 1, B: &b, C: "c", M: map[string]rxIn{"k": {X: 1, Z: "z"}, "o": {X: 2}},
			G: map[string]interface{}{"q": int64(1), "r": map[string]interface{}{"t": "u"}},
			N: map[string]interface{}{"x": int64(5)}, S: rxIn{X: 3, Z: "s"}, P: &rxIn{X: 4}, L: []rxIn{{X: 6, Z: "l"}},
			E: map[string]*rxIn{"k": {X: 7}}}
		switch variant {
		case 1: // sparse: nil pointers and maps, empty strings
			r = &rxOuter{A: 0, M: map[string]rxIn{"k": {}}, N: rxIn{X: 1}, P: nil}
		case 2: // the interface holds a pointer to a struct, the map of pointers holds a nil
			r.N = &rxIn{X: 9, Z: "n"}
			r.E["n"] = nil
		}
		return r
	}
	values := []interface{}{nil, int64(7), "s", true, map[string]interface{}{}, map[string]interface{}{"x": int64(1)}}
	for variant := 0; variant < 3; variant++ {
		probe := mkRoot(variant)
		rvp, err := value.NewValueReflect(probe)
		if err != nil {
			continue
		}
		var targets [][]rstep
		budget := 200
		collectMaps(rvp, nil, &targets, &budget)
		for _, path := range targets {
			view := gen.DeepCopy(rvp.Unstructured())
			bmp, ok := genericAt(view, path)
			if !ok {
				continue
			}
			keys := []string{"nokey"}
			for k := range bmp {
				keys = append(keys, k)
			}
			// the declared names as well (fields omitted from the view)
			for _, k := range []string{"a", "b", "c", "m", "g", "n", "s", "p", "l", "e", "x", "z"} {
				if _, has := bmp[k]; !has {
					keys = append(keys, k)
				}
			}
			sortStrings(keys)
			for _, key := range keys {
				for vi := -1; vi < len(values); vi++ {
					pa := reflect.ValueOf(mkRoot(variant))
					rv, err := value.NewValueReflect(pa.Interface())
					if err != nil {
						continue
					}
					before := gen.DeepCopy(rv.Unstructured())
					bm, ok := genericAt(before, path)
					if !ok {
						continue
					}
					var newV interface{}
					if vi >= 0 {
						newV = values[vi]
					}
					rsetRun(o, pa.Type().Elem(), pa, rv, before, bm, nil, path, key, vi >= 0, newV, "generic")
					o.Tag("rset:exhaustive-block")
				}
			}
		}
	}
}
