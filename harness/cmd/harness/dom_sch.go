package main

import (
	"fmt"
	"sort"

	"sigs.k8s.io/structured-merge-diff/v6/schema"
	"sigs.k8s.io/structured-merge-diff/v6/typed"
	"sigs.k8s.io/structured-merge-diff/v6/value"
	yaml "sigs.k8s.io/yaml/goyaml.v2"

	"verifharness/internal/gen"
	"verifharness/internal/sgen"
	"verifharness/internal/vx"
)

func init() {
	register("sch", []string{"C13", "C17"},
		"schema documents: generated schemas (sgen), their single-point structural edits and single-point corruptions of the document; NewParser accept/reject vs the model's validation of the decoded document against the schema of schemas (sent over from schema.SchemaSchemaYAML on every run); Schema.Equals on two parses of one document, on edits, reflexive/symmetric; non-trivial = rejected documents and unequal pairs; distinct by document",
		domSch)
}

func normalizeYAML(v interface{}) interface{} {
	switch t := v.(type) {
	case map[interface{}]interface{}:
		out := map[string]interface{}{}
		for k, x := range t {
			out[fmt.Sprint(k)] = normalizeYAML(x)
		}
		return out
	case map[string]interface{}:
		out := map[string]interface{}{}
		for k, x := range t {
			out[k] = normalizeYAML(x)
		}
		return out
	case []interface{}:
		out := make([]interface{}, len(t))
		for i := range t {
			out[i] = normalizeYAML(t[i])
		}
		return out
	case int:
		return int64(t)
	}
	return v
}

func hasNonStringKey(v interface{}) bool {
	switch t := v.(type) {
	case map[interface{}]interface{}:
		for k, x := range t {
			if _, ok := k.(string); !ok {
				return true
			}
			if hasNonStringKey(x) {
				return true
			}
		}
	case []interface{}:
		for _, x := range t {
			if hasNonStringKey(x) {
				return true
			}
		}
	}
	return false
}

func domSch(r *gen.Rng, n int, thorough bool, o *Out) {
	ss, err := typed.NewParser(typed.YAMLObject(schema.SchemaSchemaYAML))
	if err != nil {
		o.Fail("C13", "schema-of-schemas-validates-itself", err.Error(), "schema-of-schemas-validates-itself", "typ.schema")
		return
	}
	o.Emit("typ.schema "+vx.Schema(&ss.Schema), func() string { return fmt.Sprintf("ok types=%d", len(ss.Schema.Types)) })
	ssType := "schema"
	ssRef := vx.TypeRef(schema.TypeRef{NamedType: &ssType})

	accept := func(doc string) {
		var v interface{}
		if err := yaml.Unmarshal([]byte(doc), &v); err != nil || hasNonStringKey(v) {
			return // not a document of the modelled domain
		}
		u := normalizeYAML(v)
		op := "typ.validate " + ssRef + " F " + vx.Unstructured(u)
		o.Emit(op, func() string {
			_, err := typed.NewParser(typed.YAMLObject(doc))
			// independent of the library: is the decoded document valid against the schema of schemas?
			_, verr := ss.Type("schema").FromUnstructured(u)
			if (err == nil) != (verr == nil) {
				o.Fail("C13", "schema-accepted-iff-conforms", fmt.Sprintf("NewParser err=%v, validation err=%v", err, verr), "schema-accepted-iff-conforms "+op, op)
			}
			if err != nil {
				o.Tag("sch:rejected")
				o.Nontrivial(op)
				return "err"
			}
			o.Tag("sch:accepted")
			return "ok"
		})
	}

	for i := 0; i < n; i++ {
		cr := r.Fork(uint64(i))
		gs := sgen.Generate(cr)
		doc := gs.JSON()
		accept(doc)
		// corruptions of the document
		var v interface{}
		_ = yaml.Unmarshal([]byte(doc), &v)
		for k := 0; k < 3; k++ {
			cv := sgen.Corrupt(cr, normalizeYAML(v))
			b, err := yaml.Marshal(cv)
			if err == nil {
				accept(string(b))
			}
		}

		// Schema.Equals
		p1, err1 := typed.NewParser(typed.YAMLObject(doc))
		p2, err2 := typed.NewParser(typed.YAMLObject(doc))
		if err1 != nil || err2 != nil {
			continue
		}
		eqOp := func(a, b *schema.Schema, want string, what string) {
			op := "sch.equals " + vx.Schema(a) + " " + vx.Schema(b)
			o.Emit(op, func() string {
				got := a.Equals(b)
				if rev := b.Equals(a); rev != got {
					o.Fail("C17", "schema/equals-symmetric", what, "schema/equals-symmetric "+what, op)
				}
				if want == "true" && !got {
					o.Fail("C17", "schema/two-parses-equal", what, "schema/two-parses-equal "+what, op)
				}
				if want == "false" && got {
					o.Fail("C17", "schema/edit-detected", what, "schema/edit-detected "+what, op)
				}
				return vx.Bool(got)
			})
		}
		eqOp(&p1.Schema, &p2.Schema, "true", "two parses of one document")
		eqOp(&p1.Schema, &p1.Schema, "true", "reflexive")
		for k := 0; k < 4; k++ {
			ed, what := sgen.Edit(cr, gs)
			pe, err := typed.NewParser(typed.YAMLObject(ed.JSON()))
			if err != nil {
				continue
			}
			eqOp(&p1.Schema, &pe.Schema, "false", "edit: "+what)
			o.Tag("sch:edit=" + what)
			o.Nontrivial(what + fmt.Sprint(i, k))
		}
		// resolution congruence: named / inlined / overriding references (C13): every field of the
		// root resolves, and references resolving to the same structure validate the same values
		root, ok := p1.Schema.FindNamedType("root")
		if ok && root.Map != nil {
			names := []string{}
			for _, f := range root.Map.Fields {
				names = append(names, f.Name)
			}
			sort.Strings(names)
			_ = names
		}
		o.Cases++
	}
	_ = value.NewValueInterface
}
