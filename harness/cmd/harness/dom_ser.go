package main

import (
	"bytes"
	"encoding/json"
	"fmt"
	"math"
	"strings"

	"sigs.k8s.io/structured-merge-diff/v6/fieldpath"
	"sigs.k8s.io/structured-merge-diff/v6/value"

	"verifharness/internal/gen"
	"verifharness/internal/vx"
)

func init() {
	register("ser", []string{"C16", "C09"},
		"sets over all four path-element kinds with strings that need escaping and exactly printable numbers: SerializePathElement / DeserializePathElement on generated elements and on malformed keys; ToJSON tokenised into an ordered key tree; FromJSON on generated trees (emitted documents with members permuted at every depth, repeated keys, unknown element kinds, non-object values, null) ; byte-level mutation fuzz of valid documents (judge only: no panic, error or well-formed set); non-trivial = documents with >= 2 levels; distinct by op line",
		domSer)
}

// jtree is an ordered JSON object tree (keys in document order, repeats allowed).
type jtree struct {
	kind    byte // 'O' object, 'N' null, 'X' other
	members []jmember
}
type jmember struct {
	key string
	val *jtree
}

func (t *jtree) enc() string {
	switch t.kind {
	case 'N':
		return "N"
	case 'X':
		return "X"
	}
	var b strings.Builder
	b.WriteString("O[")
	for _, m := range t.members {
		b.WriteString("(" + vx.Str(m.key) + m.val.enc() + ")")
	}
	b.WriteString("]")
	return b.String()
}

// render prints the tree as JSON text with standard escaping (the harness's own encoder).
func (t *jtree) render(b *bytes.Buffer) {
	switch t.kind {
	case 'N':
		b.WriteString("null")
		return
	case 'X':
		b.WriteString("1")
		return
	}
	b.WriteString("{")
	for i, m := range t.members {
		if i > 0 {
			b.WriteString(",")
		}
		k, _ := json.Marshal(m.key)
		b.Write(k)
		b.WriteString(":")
		m.val.render(b)
	}
	b.WriteString("}")
}

// tokenise parses JSON text into a jtree with encoding/json's tokenizer (order and repeats kept).
func tokenise(data []byte) (*jtree, error) {
	dec := json.NewDecoder(bytes.NewReader(data))
	t, err := parseTree(dec)
	if err != nil {
		return nil, err
	}
	if _, err := dec.Token(); err == nil {
		return nil, fmt.Errorf("trailing data")
	}
	return t, nil
}

func parseTree(dec *json.Decoder) (*jtree, error) {
	tok, err := dec.Token()
	if err != nil {
		return nil, err
	}
	switch d := tok.(type) {
	case json.Delim:
		if d == '{' {
			t := &jtree{kind: 'O'}
			for dec.More() {
				kt, err := dec.Token()
				if err != nil {
					return nil, err
				}
				k, ok := kt.(string)
				if !ok {
					return nil, fmt.Errorf("non-string key")
				}
				v, err := parseTree(dec)
				if err != nil {
					return nil, err
				}
				t.members = append(t.members, jmember{k, v})
			}
			if _, err := dec.Token(); err != nil {
				return nil, err
			}
			return t, nil
		}
		if d == '[' {
			depth := 1
			for depth > 0 {
				tk, err := dec.Token()
				if err != nil {
					return nil, err
				}
				if dd, ok := tk.(json.Delim); ok {
					if dd == '[' || dd == '{' {
						depth++
					} else {
						depth--
					}
				}
			}
			return &jtree{kind: 'X'}, nil
		}
		return nil, fmt.Errorf("unexpected delimiter")
	case nil:
		return &jtree{kind: 'N'}, nil
	default:
		return &jtree{kind: 'X'}, nil
	}
}

// wfSet: member and child slices strictly ascending, no empty child (observed through the exported API).
func wfSet(s *fieldpath.Set) bool {
	var prev *fieldpath.PathElement
	ok := true
	s.Members.Iterate(func(pe fieldpath.PathElement) {
		if prev != nil && !prev.Less(pe) {
			ok = false
		}
		p := pe
		prev = &p
	})
	prev = nil
	s.Children.Iterate(func(pe fieldpath.PathElement) {
		if prev != nil && !prev.Less(pe) {
			ok = false
		}
		p := pe
		prev = &p
		sub, has := s.Children.Get(pe)
		if !has || sub.Empty() || !wfSet(sub) {
			ok = false
		}
	})
	return ok
}

var serStrings = []string{"a", "b", "", "a b", "é", "日本", "z\"q", "b\\s", "t\tab", "\u0001c", "<x>&", "key", "name", "\u2028", "i:1", "f:x", "."}

func serScalar(r *gen.Rng) interface{} {
	switch r.Intn(7) {
	case 0, 1:
		return int64(r.Intn(7) - 3)
	case 2:
		return gen.Pick(r, []float64{0, 1, -1, 0.5, 1.5, -2.75, 2.25, 1024, 1.0 / 1024, 123456.5, math.Copysign(0, -1)})
	case 3, 4, 5:
		return gen.Pick(r, serStrings)
	default:
		return r.Bool()
	}
}

func serPE(r *gen.Rng) fieldpath.PathElement {
	switch r.Intn(8) {
	case 0, 1, 2:
		s := gen.Pick(r, serStrings)
		return fieldpath.PathElement{FieldName: &s}
	case 3, 4:
		n := 1 + r.Intn(2)
		fl := value.FieldList{}
		for _, nm := range gen.Shuffle(r, []string{"name", "key", "z\"q", "é", "a<b&c>", "z\u2028", "\u0001n"})[:n] {
			fl = append(fl, value.Field{Name: nm, Value: value.NewValueInterface(serScalar(r))})
		}
		fl.Sort()
		return fieldpath.PathElement{Key: &fl}
	case 5, 6:
		v := value.NewValueInterface(serScalar(r))
		return fieldpath.PathElement{Value: &v}
	default:
		i := r.Intn(5)
		return fieldpath.PathElement{Index: &i}
	}
}

// hasNegZero: the set contains a -0.0 somewhere (finding D6: equal sets, different bytes)
func pathsHaveNegZero(ps []fieldpath.Path) bool {
	return strings.Contains(vx.Paths(ps), "D-0p0;")
}

func permute(r *gen.Rng, t *jtree) *jtree {
	if t.kind != 'O' {
		return t
	}
	out := &jtree{kind: 'O'}
	for _, m := range gen.Shuffle(r, t.members) {
		out.members = append(out.members, jmember{m.key, permute(r, m.val)})
	}
	return out
}

func domSer(r *gen.Rng, n int, thorough bool, o *Out) {
	malformed := []string{"", "f", "f:", "x", "xx", "f-abc", "i:", "i:x", "i:1.5", "i:+3", "i:-2", "v:", "v:tru", "v:\"abc", "k:", "k:1", "k:{\"a\"}", "k:{\"a\":}", "k:null", "k:{}",
		"q:1", "z:{}", "::", "v:1 trailing", "v:[1,2]", "v:{\"a\":1}", "v:null", "k:{\"b\":1,\"a\":\"x\"}", "v:1e3", "v:0.1"}
	for _, k := range malformed {
		k := k
		op := "ser.depe " + vx.Str(k)
		o.Emit(op, func() string { return depe(o, op, k) })
	}
	// hand-written path-element texts (number grammar, repeated names, nested maps, escapes)
	wn := 3 * n
	for i := 0; i < wn; i++ {
		k := wildPEText(r.Fork(uint64(1_000_000 + i)))
		op := "ser.depe " + vx.Str(k)
		o.Emit(op, func() string {
			res := depe(o, op, k)
			o.Tag("ser:wild=" + strings.SplitN(res, " ", 2)[0])
			return res
		})
		// a set document with this member: errors and skipped members must agree as well
		opR := "ser.read " + (&jtree{kind: 'O', members: []jmember{{k, &jtree{kind: 'O'}}, {"f:a", &jtree{kind: 'O'}}}}).enc()
		o.Emit(opR, func() string {
			var buf bytes.Buffer
			(&jtree{kind: 'O', members: []jmember{{k, &jtree{kind: 'O'}}, {"f:a", &jtree{kind: 'O'}}}}).render(&buf)
			var s fieldpath.Set
			if err := s.FromJSON(bytes.NewReader(buf.Bytes())); err != nil {
				return "err"
			}
			if !wfSet(&s) {
				o.Fail("C16", "parsed-set-well-formed", buf.String(), "parsed-set-well-formed "+opR, opR)
			}
			return vx.Trie(&s) + " wf=" + vx.Bool(wfSet(&s))
		})
	}
	// equal sets built with different spellings of equal members must serialise identically
	{
		f := func(x interface{}) fieldpath.Path {
			v := value.NewValueInterface(x)
			return fieldpath.Path{fieldpath.PathElement{Value: &v}}
		}
		twins := [][2]interface{}{{int64(1), 1.0}, {0.0, math.Copysign(0, -1)}, {int64(0), math.Copysign(0, -1)}, {int64(-2), -2.0}}
		for _, tw := range twins {
			a, b := f(tw[0]), f(tw[1])
			op := "ser.emit " + vx.Paths([]fieldpath.Path{a, b})
			o.Emit(op, func() string {
				s1 := fieldpath.NewSet(a, b)
				s2 := fieldpath.NewSet(b, a)
				b1, _ := s1.ToJSON()
				b2, _ := s2.ToJSON()
				if s1.Equals(s2) && !bytes.Equal(b1, b2) {
					sig := "canonical-bytes "
					if pathsHaveNegZero([]fieldpath.Path{a, b}) {
						sig = "canonical-bytes/D6-negative-zero "
					}
					o.Fail("C16", "canonical-bytes", string(b1)+" vs "+string(b2), sig+op, op)
				}
				t, err := tokenise(b1)
				if err != nil {
					return "err"
				}
				return t.enc()
			})
		}
	}
	for i := 0; i < n; i++ {
		cr := r.Fork(uint64(i))
		// --- single path elements
		pe := serPE(cr)
		opS := "ser.pe " + vx.PE(pe)
		var key string
		o.Emit(opS, func() string {
			s, err := fieldpath.SerializePathElement(pe)
			if err != nil {
				return "err"
			}
			key = s
			back, err := fieldpath.DeserializePathElement(s)
			if err != nil || !back.Equals(pe) {
				o.Fail("C16", "path-element-round-trip", fmt.Sprintf("%q -> %v (%v)", s, back, err), "path-element-round-trip "+opS, opS)
			}
			return vx.Str(s)
		})
		if key != "" {
			k := key
			opD := "ser.depe " + vx.Str(k)
			o.Emit(opD, func() string { return depe(o, opD, k) })
		}

		// --- sets
		np := 1 + cr.Intn(7)
		univ := make([]fieldpath.PathElement, 0, 6)
		for k := 0; k < 6; k++ {
			univ = append(univ, serPE(cr))
		}
		paths := gen.PathSet(cr, univ, np, 3)
		opE := "ser.emit " + vx.Paths(paths)
		var doc []byte
		var tree *jtree
		o.Emit(opE, func() string {
			s := fieldpath.NewSet(paths...)
			b, err := s.ToJSON()
			if err != nil {
				return "err"
			}
			doc = b
			// canonical: shuffled construction gives identical bytes
			b2, _ := fieldpath.NewSet(gen.Shuffle(cr, paths)...).ToJSON()
			if !bytes.Equal(b, b2) {
				sig := "canonical-bytes "
				if pathsHaveNegZero(paths) {
					sig = "canonical-bytes/D6-negative-zero "
				}
				o.Fail("C16", "canonical-bytes", string(b)+" vs "+string(b2), sig+opE, opE)
			}
			// lossless
			var back fieldpath.Set
			if err := back.FromJSON(bytes.NewReader(b)); err != nil || !back.Equals(s) {
				o.Fail("C16", "round-trip", string(b), "round-trip "+opE, opE)
			}
			t, err := tokenise(b)
			if err != nil {
				o.Fail("C16", "emits-json", err.Error()+": "+string(b), "emits-json "+opE, opE)
				return "err"
			}
			tree = t
			return t.enc()
		})
		if tree == nil {
			continue
		}
		// --- reading: the emitted tree, a permutation, with repeated / unknown / malformed members
		variants := []*jtree{tree, permute(cr, tree)}
		mut := permute(cr, tree)
		if len(mut.members) > 0 {
			switch cr.Intn(5) {
			case 0: // repeated key with another subtree
				m := mut.members[cr.Intn(len(mut.members))]
				mut.members = append(mut.members, jmember{m.key, gen.Pick(cr, []*jtree{{kind: 'O'}, tree, {kind: 'N'}})})
			case 1: // unknown element kind, at top and nested
				mut.members = append(mut.members, jmember{"x:unk", tree}, jmember{"y:{}", &jtree{kind: 'O'}})
			case 2: // malformed key
				mut.members = append(mut.members, jmember{gen.Pick(cr, malformed), &jtree{kind: 'O'}})
			case 3: // non-object value
				mut.members[cr.Intn(len(mut.members))].val = gen.Pick(cr, []*jtree{{kind: 'X'}, {kind: 'N'}})
			default: // the "." marker in odd places
				mut.members = append(mut.members, jmember{".", &jtree{kind: 'O'}}, jmember{".", &jtree{kind: 'X'}})
			}
		}
		variants = append(variants, mut)
		for vi, v := range variants {
			v := v
			vi := vi
			opR := "ser.read " + v.enc()
			o.Emit(opR, func() string {
				var buf bytes.Buffer
				v.render(&buf)
				var s fieldpath.Set
				err := s.FromJSON(bytes.NewReader(buf.Bytes()))
				if err != nil {
					if vi < 2 {
						o.Fail("C16", "accepts-any-member-order", err.Error(), "accepts-any-member-order "+opR, opR)
					}
					return "err"
				}
				if !wfSet(&s) {
					o.Fail("C16", "parsed-set-well-formed", buf.String(), "parsed-set-well-formed "+opR, opR)
				}
				if vi < 2 && !s.Equals(fieldpath.NewSet(paths...)) {
					o.Fail("C16", "accepts-any-member-order", "permuted document reads as a different set", "accepts-any-member-order "+opR, opR)
				}
				return vx.Trie(&s) + " wf=" + vx.Bool(wfSet(&s))
			})
		}
		// --- byte fuzz (judge only)
		for k := 0; k < 4; k++ {
			fz := append([]byte{}, doc...)
			if len(fz) == 0 {
				break
			}
			switch cr.Intn(4) {
			case 0:
				fz[cr.Intn(len(fz))] ^= byte(1 << uint(cr.Intn(8)))
			case 1:
				fz = fz[:cr.Intn(len(fz))]
			case 2:
				p := cr.Intn(len(fz))
				fz = append(append(append([]byte{}, fz[:p]...), doc...), fz[p:]...)
			default:
				p := cr.Intn(len(fz))
				fz = append(fz[:p], fz[p+1:]...)
			}
			res := safe(func() string {
				var s fieldpath.Set
				if err := s.FromJSON(bytes.NewReader(fz)); err != nil {
					return "err"
				}
				if !wfSet(&s) {
					return "illformed"
				}
				return "ok"
			})
			o.Tag("ser:fuzz=" + res)
			if res == "panic" || res == "illformed" {
				o.Fail("C16", "arbitrary-bytes-error-or-well-formed", res+": "+fmt.Sprintf("%q", fz), "arbitrary-bytes-error-or-well-formed "+fmt.Sprintf("%q", fz), opE)
			}
		}
		o.Cases++
		if len(paths) > 1 {
			o.Nontrivial(opE)
		}
	}
}

// wildPEText writes a serialized path element by hand: number spellings the library never emits
// (leading zeros, trailing dots, values that need rounding, out-of-range indexes), key objects with
// repeated / unsorted / oddly escaped names, nested maps with repeated and unsorted members, escaped
// surrogate pairs, a multi-byte type character. The text contains no raw line breaks.
func wildPEText(r *gen.Rng) string {
	num := func() string {
		return gen.Pick(r, []string{"0", "1", "-1", "01", "-01", "1.", "1.5", "1.50", "-0", "-0.0", "0.5", ".5", "-.5", "-", "+1", "1.5.5", "1-2", "1x", "1e2", "1E2", "1e", "2.25",
			"9007199254740992", "9007199254740993", "9007199254740994", "-9007199254740993", "4503599627370496.5", "4503599627370497.5", "0.1", "0.125", "123456789012345678901234567890",
			"9223372036854775807", "9223372036854775808", "-9223372036854775808", "-9223372036854775809", "18446744073709551616", "007", "1_0", "0x10", "1 ", " 1"})
	}
	str := func() string {
		return gen.Pick(r, []string{`"a"`, `"b"`, `""`, `"a<b&c>"`, `"a\u003cb"`, `"\ud83d\ude00"`, `"\ud83d"`, `"\ude00x"`, `"\u00e9"`, `"é"`, `"\u2028"`, "\"\u2028\"", `"\/"`, `"\b\f"`, `"\t\""`, `"\x"`,
			`"\u12"`, `"a`, `"😀"`, `"\u0000"`, `"key"`, `"name"`})
	}
	var val func(d int) string
	obj := func(d int) string {
		n := r.Intn(4)
		parts := []string{}
		for i := 0; i < n; i++ {
			k := str()
			if r.Chance(5) {
				k = "null"
			}
			parts = append(parts, k+":"+val(d-1))
		}
		return "{" + strings.Join(parts, ",") + "}"
	}
	val = func(d int) string {
		c := r.Intn(10)
		switch {
		case c < 4:
			return num()
		case c < 6:
			return str()
		case c == 6:
			return gen.Pick(r, []string{"true", "false", "null", "tru", "nul"})
		case c == 7 && d > 0:
			n := r.Intn(3)
			parts := []string{}
			for i := 0; i < n; i++ {
				parts = append(parts, val(d-1))
			}
			return "[" + strings.Join(parts, ",") + "]"
		case d > 0:
			return obj(d)
		default:
			return num()
		}
	}
	switch r.Intn(10) {
	case 0:
		return "i:" + num()
	case 1, 2, 3:
		return "v:" + val(2)
	case 4, 5, 6, 7:
		return "k:" + obj(2)
	case 8:
		return gen.Pick(r, []string{"é:x", "é", "日:1", "f:é", "f:", "F:a", "I:1", " f:a", "f :a", "v :1", "k:{} ", "k: {\"a\":1}", "v: 1", "i: 1", "i:1 "})
	default:
		return "f:" + gen.Pick(r, serStrings)
	}
}

func depe(o *Out, op, k string) string {
	pe, err := fieldpath.DeserializePathElement(k)
	if err == fieldpath.ErrUnknownPathElementType {
		return "unknown"
	}
	if err != nil {
		return "err"
	}
	return "ok " + vx.PE(pe)
}
