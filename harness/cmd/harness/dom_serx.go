package main

// serx: EXHAUSTIVE reading of short serialized path elements. For each of a few prefixes that put the
// reader into a particular state (a `v:` value, an `i:` index, a value inside a `k:` object, inside a
// list, inside a nested map) every suffix up to a length bound over an alphabet of the characters the
// number / string / structure grammar of the reader distinguishes is handed to DeserializePathElement
// and to the model. No sampling: the tie covers the whole language up to the bound.

import (
	"bytes"

	"sigs.k8s.io/structured-merge-diff/v6/fieldpath"

	"verifharness/internal/gen"
	"verifharness/internal/vx"
)

func init() {
	register("serx", []string{"C16"},
		"exhaustive: every string prefix+suffix with prefix in {v:, i:, k:{\"a\":, v:[, v:{\"a\":} and suffix of length 0..4 (quick) / 0..5 (thorough) over the alphabet 1 0 . - e + \" a , } ] and blank, read by DeserializePathElement and by the model; then every set document of depth <= 2 with at most two members an object (any order, repeats) over the keys f:a f:b i:1 . x:q with values {} / null / a number, read by Set.FromJSON and by the model; non-trivial = accepted inputs; distinct by op line",
		domSerx)
}

var serxPrefixes = []string{"v:", "i:", "k:{\"a\":", "v:[", "v:{\"a\":"}
var serxAlphabet = []byte{'1', '0', '.', '-', 'e', '+', '"', 'a', ',', '}', ']', ' '}

func domSerx(r *gen.Rng, n int, thorough bool, o *Out) {
	maxLen := 4
	if thorough {
		maxLen = 5
	}
	count := 0
	var rec func(cur []byte)
	emit := func(k string) {
		op := "ser.depe " + vx.Str(k)
		res := o.Emit(op, func() string {
			pe, err := fieldpath.DeserializePathElement(k)
			if err == fieldpath.ErrUnknownPathElementType {
				return "unknown"
			}
			if err != nil {
				return "err"
			}
			// what was read prints again, and reads back as an equal element
			if s, err := fieldpath.SerializePathElement(pe); err == nil {
				back, err := fieldpath.DeserializePathElement(s)
				if err != nil || !back.Equals(pe) {
					o.Fail("C16", "path-element-round-trip", k+" -> "+s, "path-element-round-trip "+op, op)
				}
			}
			return "ok " + vx.PE(pe)
		})
		count++
		if len(res) > 2 && res[:2] == "ok" {
			o.Nontrivial(op)
			o.Tag("serx:accepted")
		} else {
			o.Tag("serx:" + res)
		}
	}
	for _, p := range serxPrefixes {
		base := []byte(p)
		rec = func(cur []byte) {
			if count >= n {
				return
			}
			emit(string(cur))
			if len(cur)-len(base) >= maxLen {
				return
			}
			for _, c := range serxAlphabet {
				rec(append(append([]byte(nil), cur...), c))
			}
		}
		rec(base)
	}
	// ---- the tree layer of Set.FromJSON, exhaustively: every document of depth <= 2 whose objects list
	// at most two members (in any order, with repeats) over the keys f:a, f:b, i:1, "." and the unknown
	// kind x:q; inner values are {} or null, outer values any inner document, null, or a number
	keys := []string{"f:a", "f:b", "i:1", ".", "x:q"}
	var inner []*jtree
	leafVals := []*jtree{{kind: 'O'}, {kind: 'N'}}
	inner = append(inner, &jtree{kind: 'O'})
	for _, k1 := range keys {
		for _, v1 := range leafVals {
			inner = append(inner, &jtree{kind: 'O', members: []jmember{{k1, v1}}})
			for _, k2 := range keys {
				for _, v2 := range leafVals {
					inner = append(inner, &jtree{kind: 'O', members: []jmember{{k1, v1}, {k2, v2}}})
				}
			}
		}
	}
	outerVals := append(append([]*jtree{}, inner...), &jtree{kind: 'N'}, &jtree{kind: 'X'})
	emitTree := func(t *jtree) {
		if count >= n {
			return
		}
		op := "ser.read " + t.enc()
		res := o.Emit(op, func() string {
			var buf bytes.Buffer
			t.render(&buf)
			var set fieldpath.Set
			if err := set.FromJSON(bytes.NewReader(buf.Bytes())); err != nil {
				return "err"
			}
			if !wfSet(&set) {
				o.Fail("C16", "parsed-set-well-formed", buf.String(), "parsed-set-well-formed "+op, op)
			}
			return vx.Trie(&set) + " wf=" + vx.Bool(wfSet(&set))
		})
		count++
		if res != "err" {
			o.Nontrivial(op)
		}
		o.Tag("serx:tree=" + map[bool]string{true: "err", false: "ok"}[res == "err"])
	}
	emitTree(&jtree{kind: 'O'})
	for _, k1 := range keys {
		for _, v1 := range outerVals {
			emitTree(&jtree{kind: 'O', members: []jmember{{k1, v1}}})
		}
	}
	// two outer members: all pairs when thorough, otherwise the pairs whose second value is small
	second := outerVals
	if !thorough {
		second = []*jtree{{kind: 'O'}, {kind: 'N'}, {kind: 'X'}, inner[1], inner[3], inner[len(inner)-1]}
	}
	for _, k1 := range keys {
		for _, v1 := range outerVals {
			for _, k2 := range keys {
				for _, v2 := range second {
					emitTree(&jtree{kind: 'O', members: []jmember{{k1, v1}, {k2, v2}}})
				}
			}
		}
	}
	o.Cases = count
}
