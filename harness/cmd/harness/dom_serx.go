package main

// serx: EXHAUSTIVE reading of short serialized path elements. For each of a few prefixes that put the
// reader into a particular state (a `v:` value, an `i:` index, a value inside a `k:` object, inside a
// list, inside a nested map) every suffix up to a length bound over an alphabet of the characters the
// number / string / structure grammar of the reader distinguishes is handed to DeserializePathElement
// and to the model. No sampling: the tie covers the whole language up to the bound.

import (
	"sigs.k8s.io/structured-merge-diff/v6/fieldpath"

	"verifharness/internal/gen"
	"verifharness/internal/vx"
)

func init() {
	register("serx", []string{"C16"},
		"exhaustive: every string prefix+suffix with prefix in {v:, i:, k:{\"a\":, v:[, v:{\"a\":} and suffix of length 0..4 (quick) / 0..5 (thorough) over the alphabet 1 0 . - e + \" a , } ] and blank, read by DeserializePathElement and by the model; non-trivial = accepted strings; distinct by op line",
		domSerx)
}

var serxPrefixes = []string{"v:", "i:", "k:{\"a\":", "v:[", "v:{\"a\":"}
var serxAlphabet = []byte{'1', '0', '.', '-', 'e', '+', '"', 'a', ',', '}', ']', ' '}

func domSerx(r *gen.Rng, n int, thorough bool, o *Out) {
	maxLen := 4
	if thorough {
		maxLen = 5
	}
	count := 0
	var rec func(cur []byte)
	emit := func(k string) {
		op := "ser.depe " + vx.Str(k)
		res := o.Emit(op, func() string {
			pe, err := fieldpath.DeserializePathElement(k)
			if err == fieldpath.ErrUnknownPathElementType {
				return "unknown"
			}
			if err != nil {
				return "err"
			}
			// what was read prints again, and reads back as an equal element
			if s, err := fieldpath.SerializePathElement(pe); err == nil {
				back, err := fieldpath.DeserializePathElement(s)
				if err != nil || !back.Equals(pe) {
					o.Fail("C16", "path-element-round-trip", k+" -> "+s, "path-element-round-trip "+op, op)
				}
			}
			return "ok " + vx.PE(pe)
		})
		count++
		if len(res) > 2 && res[:2] == "ok" {
			o.Nontrivial(op)
			o.Tag("serx:accepted")
		} else {
			o.Tag("serx:" + res)
		}
	}
	for _, p := range serxPrefixes {
		base := []byte(p)
		rec = func(cur []byte) {
			if count >= n {
				return
			}
			emit(string(cur))
			if len(cur)-len(base) >= maxLen {
				return
			}
			for _, c := range serxAlphabet {
				rec(append(append([]byte(nil), cur...), c))
			}
		}
		rec(base)
	}
	o.Cases = count
}
