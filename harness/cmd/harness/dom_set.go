package main

import (
	"fmt"
	"sort"
	"strings"

	"sigs.k8s.io/structured-merge-diff/v6/fieldpath"

	"verifharness/internal/gen"
	"verifharness/internal/vx"
)

func init() {
	register("set", []string{"C15", "C08", "C09"},
		"pairs of sets drawn from an 18-element path-element universe (all four kinds, int/float twins) to depth 3 with frequent prefix/extension overlaps; thorough adds every ordered pair of subsets of a 9-path universe; every binary and unary operation, probes for Has; non-trivial = both operands non-empty and not equal; distinct by operand pair",
		domSet)
}

// refSet is the independent reference: a set of canonical path strings. Canonicalisation maps a
// path to a string in which numerically equal ints and floats coincide (PathElement.Equals
// identifies 1 and 1.0).
type refSet map[string]fieldpath.Path

func canonPath(p fieldpath.Path) string {
	parts := make([]string, len(p))
	for i, pe := range p {
		parts[i] = canonPE(pe)
	}
	return strings.Join(parts, "/")
}

func canonPE(pe fieldpath.PathElement) string {
	return vx.CanonPE(pe)
}

func refOf(ps []fieldpath.Path) refSet {
	r := refSet{}
	for _, p := range ps {
		if len(p) == 0 {
			continue
		}
		k := canonPath(p)
		if _, ok := r[k]; !ok {
			r[k] = p
		}
	}
	return r
}

func refOfSet(s *fieldpath.Set) (refSet, int) {
	r := refSet{}
	n := 0
	s.Iterate(func(p fieldpath.Path) {
		n++
		r[canonPath(p)] = p.Copy()
	})
	return r, n
}

func (a refSet) keys() []string {
	out := make([]string, 0, len(a))
	for k := range a {
		out = append(out, k)
	}
	sort.Strings(out)
	return out
}

func sameKeys(a, b refSet) bool {
	if len(a) != len(b) {
		return false
	}
	for k := range a {
		if _, ok := b[k]; !ok {
			return false
		}
	}
	return true
}

// hasPrefixIn reports whether p or a proper prefix of p is in b.
func hasPrefixIn(p fieldpath.Path, b refSet) bool {
	for i := 1; i <= len(p); i++ {
		if _, ok := b[canonPath(p[:i])]; ok {
			return true
		}
	}
	return false
}

func setJudge(o *Out, op string, pa, pb []fieldpath.Path, a, b, u, in, d, rd *fieldpath.Set, eq bool) {
	fail := func(clause, detail string) {
		o.Fail("C15", clause, detail, clause+" "+op, op)
	}
	ra, rb := refOf(pa), refOf(pb)
	ga, na := refOfSet(a)
	if !sameKeys(ra, ga) || na != len(ra) {
		fail("construction/iterate-each-member-once", fmt.Sprintf("inserted %d distinct, iterate yields %d (%d distinct)", len(ra), na, len(ga)))
	}
	if a.Size() != len(ra) {
		fail("size", fmt.Sprintf("Size=%d want %d", a.Size(), len(ra)))
	}
	if a.Empty() != (len(ra) == 0) {
		fail("empty", "")
	}
	if eq != sameKeys(ra, rb) {
		fail("equality-extensional", fmt.Sprintf("Equals=%v, same members=%v", eq, sameKeys(ra, rb)))
	}
	check := func(name string, got *fieldpath.Set, want func(k string, p fieldpath.Path, inA, inB bool) bool) {
		g, n := refOfSet(got)
		if n != len(g) {
			fail(name+"/duplicates-in-iteration", "")
		}
		all := refSet{}
		for k, p := range ra {
			all[k] = p
		}
		for k, p := range rb {
			all[k] = p
		}
		for k := range g {
			if _, ok := all[k]; !ok {
				fail(name+"/invented-member", k)
			}
		}
		for k, p := range all {
			_, inA := ra[k]
			_, inB := rb[k]
			_, inG := g[k]
			if inG != want(k, p, inA, inB) {
				fail(name, fmt.Sprintf("path %s: inA=%v inB=%v got=%v", vx.Path(p), inA, inB, inG))
			}
		}
		if got.Size() != len(g) || got.Empty() != (len(g) == 0) {
			fail(name+"/size-empty", "")
		}
	}
	check("union", u, func(_ string, _ fieldpath.Path, x, y bool) bool { return x || y })
	check("intersection", in, func(_ string, _ fieldpath.Path, x, y bool) bool { return x && y })
	check("difference", d, func(_ string, _ fieldpath.Path, x, y bool) bool { return x && !y })
	check("recursive-difference", rd, func(_ string, p fieldpath.Path, x, _ bool) bool { return x && !hasPrefixIn(p, rb) })
}

func domSet(r *gen.Rng, n int, thorough bool, o *Out) {
	univ := gen.PEUniverse()
	one := func(cr *gen.Rng, pa, pb []fieldpath.Path) {
		opNew := "set.new " + vx.Paths(pa)
		var a, b *fieldpath.Set
		o.Emit(opNew, func() string {
			a = fieldpath.NewSet(pa...)
			return vx.Trie(a) + " size=" + fmt.Sprint(a.Size()) + " empty=" + vx.Bool(a.Empty()) + " it=" + vx.Iterate(a)
		})
		op := "set.bin " + vx.Paths(pa) + " " + vx.Paths(pb)
		var u, in, d, rd *fieldpath.Set
		var eq bool
		o.Emit(op, func() string {
			a = fieldpath.NewSet(pa...)
			b = fieldpath.NewSet(pb...)
			sa, sb := vx.Trie(a), vx.Trie(b)
			u, in, d, rd = a.Union(b), a.Intersection(b), a.Difference(b), a.RecursiveDifference(b)
			eq = a.Equals(b)
			if vx.Trie(a) != sa || vx.Trie(b) != sb {
				o.Fail("C08", "set/operands-unchanged", "", "set/operands-unchanged "+op, op)
			}
			return "u=" + vx.Trie(u) + " i=" + vx.Trie(in) + " d=" + vx.Trie(d) + " r=" + vx.Trie(rd) + " eq=" + vx.Bool(eq)
		})
		if u != nil {
			setJudge(o, op, pa, pb, a, b, u, in, d, rd, eq)
			// construction-order independence: shuffled re-construction is Equal and serialises identically
			a2 := fieldpath.NewSet(gen.Shuffle(cr, pa)...)
			if !a.Equals(a2) || vx.Trie(a) != vx.Trie(a2) && !hasTwins(pa) {
				o.Fail("C15", "construction-order-independent", "", "construction-order-independent "+opNew, opNew)
			}
		}
		opL := "set.leaves " + vx.Paths(pa)
		var lv *fieldpath.Set
		o.Emit(opL, func() string { lv = fieldpath.NewSet(pa...).Leaves(); return vx.Trie(lv) })
		if lv != nil {
			ra := refOf(pa)
			g, _ := refOfSet(lv)
			for k, p := range ra {
				isLeaf := true
				for k2, p2 := range ra {
					if k2 != k && len(p2) > len(p) && canonPath(p2[:len(p)]) == k {
						isLeaf = false
					}
				}
				if _, ok := g[k]; ok != isLeaf {
					o.Fail("C15", "leaves", "path "+vx.Path(p), "leaves "+opL, opL)
				}
			}
			for k := range g {
				if _, ok := ra[k]; !ok {
					o.Fail("C15", "leaves/invented-member", k, "leaves/invented-member "+opL, opL)
				}
			}
		}
		// probes: all members of both, plus prefixes and extensions
		var probes []fieldpath.Path
		probes = append(probes, pb...)
		for _, p := range pa {
			probes = append(probes, p)
			if len(p) > 1 {
				probes = append(probes, p[:len(p)-1])
			}
		}
		probes = append(probes, fieldpath.Path{})
		opH := "set.has " + vx.Paths(pa) + " " + vx.Paths(probes)
		o.Emit(opH, func() string {
			s := fieldpath.NewSet(pa...)
			ra := refOf(pa)
			out := ""
			for _, p := range probes {
				h := s.Has(p)
				_, want := ra[canonPath(p)]
				if len(p) == 0 {
					want = false
				}
				if h != want {
					o.Fail("C15", "membership", "probe "+vx.Path(p), "membership "+opH, opH)
				}
				if h {
					out += "1"
				} else {
					out += "0"
				}
			}
			return out
		})
		pe := gen.Pick(cr, univ)
		opP := "set.prefix " + vx.Paths(pa) + " " + vx.PE(pe)
		o.Emit(opP, func() string {
			s := fieldpath.NewSet(pa...)
			w := s.WithPrefix(pe)
			// judge: exactly the paths beginning with pe, prefix removed
			g, _ := refOfSet(w)
			want := refSet{}
			for _, p := range pa {
				if len(p) > 1 && p[0].Equals(pe) {
					want[canonPath(p[1:])] = p[1:]
				}
			}
			if !sameKeys(g, want) {
				o.Fail("C15", "prefix-selection", "", "prefix-selection "+opP, opP)
			}
			return vx.Trie(w)
		})
		o.Cases++
		o.Tag(fmt.Sprintf("set:|a|=%d,|b|=%d", min(len(pa), 9), min(len(pb), 9)))
		if len(pa) > 0 && len(pb) > 0 && !eq {
			o.Nontrivial(op)
		}
	}

	if thorough {
		// every ordered pair of subsets of a small universe with member/child overlaps and twins
		f := func(i int) fieldpath.PathElement { return univ[i] }
		small := []fieldpath.Path{
			{f(0)}, {f(0), f(1)}, {f(0), f(1), f(15)}, {f(1)}, {f(9)}, {f(10)}, {f(0), f(9)}, {f(4), f(0)}, {f(0), f(10)},
		}
		nb := len(small)
		sub := func(mask int) []fieldpath.Path {
			var out []fieldpath.Path
			for i := 0; i < nb; i++ {
				if mask&(1<<i) != 0 {
					out = append(out, small[i])
				}
			}
			return out
		}
		for ma := 0; ma < 1<<nb; ma++ {
			for mb := 0; mb < 1<<nb; mb++ {
				one(r, sub(ma), sub(mb))
			}
		}
		o.Dist["exhaustive-pairs"] = 1 << (2 * nb)
	}
	for i := 0; i < n; i++ {
		cr := r.Fork(uint64(i))
		pa := gen.PathSet(cr, univ, cr.Intn(9), 3)
		var pb []fieldpath.Path
		switch cr.Intn(4) {
		case 0:
			pb = gen.PathSet(cr, univ, cr.Intn(9), 3)
		case 1: // a perturbed copy of pa
			pb = gen.Shuffle(cr, pa)
			if len(pb) > 0 && cr.Bool() {
				pb = pb[:len(pb)-1]
			}
			pb = append(pb, gen.PathSet(cr, univ, cr.Intn(3), 3)...)
		case 2: // prefixes of pa (recursive difference bites)
			for _, p := range pa {
				if len(p) > 1 && cr.Bool() {
					pb = append(pb, p[:1+cr.Intn(len(p)-1)].Copy())
				} else if cr.Chance(30) {
					pb = append(pb, p.Copy())
				}
			}
		default:
			pb = gen.Shuffle(cr, pa)
		}
		one(cr, pa, pb)
	}
}

// hasTwins reports whether two distinct spellings of equal path elements occur (then the stored
// representative depends on insertion order, which no property forbids; only Equals must hold).
func hasTwins(ps []fieldpath.Path) bool {
	seen := map[string]string{}
	for _, p := range ps {
		for _, pe := range p {
			c, raw := canonPE(pe), vx.PE(pe)
			if prev, ok := seen[c]; ok && prev != raw {
				return true
			}
			seen[c] = raw
		}
	}
	return false
}

func min(a, b int) int {
	if a < b {
		return a
	}
	return b
}
