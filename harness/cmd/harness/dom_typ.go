package main

import (
	"math"
	"fmt"

	"sigs.k8s.io/structured-merge-diff/v6/fieldpath"
	"sigs.k8s.io/structured-merge-diff/v6/schema"
	"sigs.k8s.io/structured-merge-diff/v6/typed"
	"sigs.k8s.io/structured-merge-diff/v6/value"

	"verifharness/internal/gen"
	"verifharness/internal/sgen"
	"verifharness/internal/vx"
)

func init() {
	register("typ", []string{"C11", "C12", "C13", "C14", "C08", "C09"},
		"random schemas of the generated family (sgen), one per 40 cases; per case a type (root or a pool type), a conforming value, a mutated/related second value; streams: plain, degenerate (nulls/empties), duplicates, single-point corruptions; ops validate / fieldset / compare / merge / remove / extract with subsets of leaf paths; non-trivial = operands differ and both validate; distinct by op line",
		domTyp)
}

type typCtx struct {
	gs     *sgen.Schema
	parser *typed.Parser
	sc     *schema.Schema
}

func newTypCtx(o *Out, r *gen.Rng) *typCtx {
	gs := sgen.Generate(r)
	doc := gs.JSON()
	p, err := typed.NewParser(typed.YAMLObject(doc))
	if err != nil {
		panic("generated schema rejected by NewParser: " + err.Error() + "\n" + doc)
	}
	c := &typCtx{gs: gs, parser: p, sc: &p.Schema}
	o.Emit("typ.schema "+vx.Schema(&p.Schema), func() string { return fmt.Sprintf("ok types=%d", len(p.Schema.Types)) })
	return c
}

func (c *typCtx) typeRef(ref sgen.Ref) schema.TypeRef {
	// build the library's TypeRef through its own parser so that inlined atoms are decoded by goyaml
	if ref.Named != "" && ref.Rel == "" {
		n := ref.Named
		return schema.TypeRef{NamedType: &n}
	}
	if ref.Named != "" {
		n := ref.Named
		rel := schema.ElementRelationship(ref.Rel)
		return schema.TypeRef{NamedType: &n, ElementRelationship: &rel}
	}
	panic("typeRef: inlined refs are reached through fields only")
}

func asTyped(c *typCtx, v interface{}, tr schema.TypeRef, dup bool) (*typed.TypedValue, error) {
	if dup {
		return typed.AsTyped(value.NewValueInterface(v), c.sc, tr, typed.AllowDuplicates)
	}
	return typed.AsTyped(value.NewValueInterface(v), c.sc, tr)
}

func cmpString(cmp *typed.Comparison) string {
	return "r=" + vx.Trie(cmp.Removed) + " m=" + vx.Trie(cmp.Modified) + " a=" + vx.Trie(cmp.Added) + " same=" + vx.Bool(cmp.IsSame())
}

// leafPaths returns the leaf paths of the field set of tv.
func leafPaths(tv *typed.TypedValue) []fieldpath.Path {
	fs, err := tv.ToFieldSet()
	if err != nil {
		return nil
	}
	var out []fieldpath.Path
	fs.Leaves().Iterate(func(p fieldpath.Path) { out = append(out, p.Copy()) })
	return out
}

func allPaths(tv *typed.TypedValue) []fieldpath.Path {
	fs, err := tv.ToFieldSet()
	if err != nil {
		return nil
	}
	var out []fieldpath.Path
	fs.Iterate(func(p fieldpath.Path) { out = append(out, p.Copy()) })
	return out
}

func domTyp(r *gen.Rng, n int, thorough bool, o *Out) {
	var c *typCtx
	typePool := []string{"root", "root", "root", "matrix", "itemList", "item2List", "itemDList", "tree", "__untyped_deduced_", "openStruct", "numSet", "anySet", "strMap", "point"}
	for i := 0; i < n; i++ {
		cr := r.Fork(uint64(i))
		if i%40 == 0 {
			c = newTypCtx(o, cr)
		}
		tname := gen.Pick(cr, typePool)
		ref := sgen.Ref{Named: tname}
		tr := c.typeRef(ref)
		trs := vx.TypeRef(tr)

		stream := cr.Intn(10)
		opts := &sgen.VOpts{Plain: true, KeySpace: 3}
		dupL, dupR := false, false
		switch {
		case stream < 4: // plain
		case stream < 6: // degenerate
			opts.Plain = false
		case stream < 7: // rich scalars
			opts.Rich = true
		case stream < 9: // duplicates (left only: what an update can put into a live object)
			opts.Dups = true
			dupL = true
			if cr.Chance(30) {
				dupR = true
			}
		default: // degenerate + dups
			opts.Plain = false
			opts.Dups = true
			dupL, dupR = true, true
		}
		v1 := c.gs.RootValue(cr, ref, 4, opts)
		var v2 interface{}
		optsR := *opts
		if !dupR {
			optsR.Dups = false
		}
		switch cr.Intn(4) {
		case 0:
			v2 = c.gs.RootValue(cr, ref, 4, &optsR)
		case 1:
			v2 = gen.DeepCopy(v1)
			if !dupR {
				v2 = c.gs.RootValue(cr, ref, 3, &optsR)
			}
		default:
			// a related value: regenerate with the same key universe (shares many members)
			v2 = c.gs.RootValue(cr.Fork(7), ref, 4, &optsR)
		}
		if cr.Chance(25) {
			// the same object with one or two scalar leaves changed in place (type preserving): a difference
			// deep inside nested lists / maps with everything before it equal
			v2 = tweakLeaf(cr, gen.DeepCopy(v1))
			if cr.Bool() {
				v2 = tweakLeaf(cr, v2)
			}
		}
		rootLeafPair := false
		if cr.Chance(4) { // root-leaf pairs: empty / null on both sides (not necessarily conforming)
			v1 = gen.Pick(cr, []interface{}{nil, map[string]interface{}{}, []interface{}{}})
			v2 = gen.Pick(cr, []interface{}{nil, map[string]interface{}{}, []interface{}{}, gen.DeepCopy(v1)})
			rootLeafPair = true
		}
		if dupL && dupR && cr.Chance(50) {
			// duplicates on both sides with different multiplicities: v2 = v1 with one more copy of a member
			v2 = addDuplicate(cr, gen.DeepCopy(v1))
			if cr.Bool() {
				v1 = addDuplicate(cr, gen.DeepCopy(v1))
				v2 = addDuplicate(cr, gen.DeepCopy(v1))
			}
		}
		corrupt := cr.Chance(12)
		if rootLeafPair {
			corrupt = false
		}
		if corrupt {
			v1 = sgen.Corrupt(cr, v1)
			o.Tag("typ:corrupted")
		}
		o.Tag(fmt.Sprintf("typ:stream=%d", stream))
		o.Tag("typ:type=" + tname)

		s1, s2 := vx.Unstructured(v1), vx.Unstructured(v2)

		// --- validate
		for _, dup := range []bool{false, true} {
			dup := dup
			op := "typ.validate " + trs + " " + vx.Flag(dup) + " " + s1
			o.Emit(op, func() string {
				_, err := asTyped(c, v1, tr, dup)
				if err != nil {
					o.Tag("typ:validate=err")
					if dup && !corrupt && !rootLeafPair {
						// the generator only emits conforming values (its own reading of the schema documentation)
						o.Fail("C13", "conforming-value-accepted", err.Error(), "conforming-value-accepted "+op, op)
					}
					return "err"
				}
				o.Tag("typ:validate=ok")
				return "ok"
			})
		}

		// --- field set
		opFS := "typ.fs " + trs + " " + vx.Flag(dupL) + " " + s1
		o.Emit(opFS, func() string {
			tv, err := asTyped(c, v1, tr, dupL)
			if err != nil {
				return "invalid"
			}
			fs, err := tv.ToFieldSet()
			if err != nil {
				return "err"
			}
			return vx.Trie(fs)
		})

		// --- compare
		opC := "typ.cmp " + trs + " " + vx.Flag(dupL) + " " + s1 + " " + vx.Flag(dupR) + " " + s2
		var same bool
		var cmpOK bool
		o.Emit(opC, func() string {
			a, err1 := asTyped(c, v1, tr, dupL)
			b, err2 := asTyped(c, v2, tr, dupR)
			if err1 != nil || err2 != nil {
				return "invalid"
			}
			cmp, err := a.Compare(b)
			if err != nil {
				o.Fail("C13", "ops-total/compare", err.Error(), "ops-total/compare "+opC, opC)
				return "err"
			}
			same, cmpOK = cmp.IsSame(), true
			judgeCompare(o, opC, a, b, cmp, dupL || dupR)
			if !corrupt && !rootIsLeaf(c.gs, ref, v1, v2) {
				n1, n2 := normalForm(c.gs, ref, v1), normalForm(c.gs, ref, v2)
				if (n1 == n2) != cmp.IsSame() {
					o.Fail("C11", "empty-iff-equal-up-to-member-order", fmt.Sprintf("IsSame=%v, normal forms equal=%v", cmp.IsSame(), n1 == n2),
						"empty-iff-equal-up-to-member-order "+opC, opC)
				}
			}
			if cr.Chance(30) {
				disturb(c, cr)
				if again, err := a.Compare(b); err != nil || cmpString(again) != cmpString(cmp) {
					o.Fail("C09", "same-call-same-result-after-other-calls", "Compare", "same-call-same-result-after-other-calls "+opC, opC)
				}
			}
			return cmpString(cmp)
		})

		// --- operands of two different types of one schema: Compare and Merge refuse them
		if cr.Chance(8) {
			t2 := gen.Pick(cr, typePool)
			ref2 := sgen.Ref{Named: t2}
			tr2 := c.typeRef(ref2)
			w := c.gs.RootValue(cr, ref2, 3, &sgen.VOpts{Plain: true, KeySpace: 3})
			sw := vx.Unstructured(w)
			opX := "typ.xops " + trs + " " + s1 + " " + vx.TypeRef(tr2) + " " + sw
			o.Emit(opX, func() string {
				a, err1 := asTyped(c, v1, tr, true)
				b, err2 := asTyped(c, w, tr2, true)
				if err1 != nil || err2 != nil {
					return "invalid"
				}
				out := ""
				if cmp, err := a.Compare(b); err != nil {
					out += "cmp=err"
				} else {
					out += "cmp=" + cmpString(cmp)
				}
				if m, err := a.Merge(b); err != nil {
					out += " merge=err"
				} else {
					out += " merge=" + vx.Value(m.AsValue())
				}
				o.Tag("typ:cross-type")
				return out
			})
		}

		// --- merge
		opM := "typ.merge " + trs + " " + vx.Flag(dupL) + " " + s1 + " " + vx.Flag(dupR) + " " + s2
		o.Emit(opM, func() string {
			a, err1 := asTyped(c, v1, tr, dupL)
			b, err2 := asTyped(c, v2, tr, dupR)
			if err1 != nil || err2 != nil {
				return "invalid"
			}
			before1, before2 := vx.Value(a.AsValue()), vx.Value(b.AsValue())
			m, err := a.Merge(b)
			if vx.Value(a.AsValue()) != before1 || vx.Value(b.AsValue()) != before2 {
				o.Fail("C08", "typed/merge-operands-unchanged", "", "typed/merge-operands-unchanged "+opM, opM)
			}
			if err != nil {
				if !dupR {
					o.Fail("C13", "ops-total/merge", err.Error(), "ops-total/merge "+opM, opM)
				}
				return "err"
			}
			judgeMerge(o, opM, c, tr, a, b, m, opts.Plain && !opts.Dups, dupR)
			return vx.Value(m.AsValue())
		})

		// --- remove / extract with subsets of the paths of v1
		tv1, err := asTyped(c, v1, tr, dupL)
		if err == nil {
			leaves := leafPaths(tv1)
			all := allPaths(tv1)
			nsub := 2
			if thorough {
				nsub = 6
			}
			for k := 0; k < nsub; k++ {
				var sub []fieldpath.Path
				src := leaves
				if cr.Chance(25) {
					src = all
				}
				for _, p := range src {
					if cr.Chance(40) {
						sub = append(sub, p)
					}
				}
				if cr.Chance(10) {
					sub = append(sub, gen.PathFrom(cr, gen.PEUniverse(), 2))
				}
				ps := vx.Paths(sub)
				opR := "typ.remove " + trs + " " + vx.Flag(dupL) + " " + s1 + " " + ps
				o.Emit(opR, func() string {
					tv, _ := asTyped(c, v1, tr, dupL)
					before := vx.Value(tv.AsValue())
					set := fieldpath.NewSet(sub...)
					sb := vx.Trie(set)
					out := tv.RemoveItems(set)
					if vx.Value(tv.AsValue()) != before || vx.Trie(set) != sb {
						o.Fail("C08", "typed/remove-operands-unchanged", "", "typed/remove-operands-unchanged "+opR, opR)
					}
					return vx.Value(out.AsValue())
				})
				keys := cr.Bool()
				opE := "typ.extract " + trs + " " + vx.Flag(dupL) + " " + s1 + " " + ps + " " + vx.Flag(keys)
				o.Emit(opE, func() string {
					tv, _ := asTyped(c, v1, tr, dupL)
					set := fieldpath.NewSet(sub...)
					var out *typed.TypedValue
					if keys {
						out = tv.ExtractItems(set, typed.WithAppendKeyFields())
					} else {
						out = tv.ExtractItems(set)
					}
					return vx.Value(out.AsValue())
				})
				if opts.Plain && !opts.Dups && !corrupt && src != nil && len(all) > 0 {
					judgePartition(o, opR, c, tr, tv1, sub, leaves)
				}
			}
		}
		o.Cases++
		if cmpOK && !same {
			o.Nontrivial(opC)
		}
	}
}

// tweakLeaf changes one scalar leaf of v to another scalar of the same Go kind, somewhere deep.
func tweakLeaf(r *gen.Rng, v interface{}) interface{} {
	switch t := v.(type) {
	case map[string]interface{}:
		if len(t) == 0 {
			return t
		}
		keys := make([]string, 0, len(t))
		for k := range t {
			keys = append(keys, k)
		}
		sortStrings(keys)
		k := gen.Pick(r, keys)
		t[k] = tweakLeaf(r, t[k])
		return t
	case []interface{}:
		if len(t) == 0 {
			return t
		}
		// prefer a late element: everything before it stays equal
		i := len(t) - 1
		if r.Chance(40) {
			i = r.Intn(len(t))
		}
		t[i] = tweakLeaf(r, t[i])
		return t
	case int64:
		return t + 1 + int64(r.Intn(2))
	case float64:
		return t + 0.5
	case string:
		return t + "x"
	case bool:
		return !t
	}
	return v
}

// judgeCompare: C11 laws on the implementation's own answers.
func judgeCompare(o *Out, op string, a, b *typed.TypedValue, cmp *typed.Comparison, dups bool) {
	fail := func(clause, detail string) { o.Fail("C11", clause, detail, clause+" "+op, op) }
	if !dups {
		if !cmp.Removed.Intersection(cmp.Modified).Empty() || !cmp.Removed.Intersection(cmp.Added).Empty() || !cmp.Modified.Intersection(cmp.Added).Empty() {
			fail("disjoint", "")
		}
	}
	rev, err := b.Compare(a)
	if err != nil {
		fail("swap/error", err.Error())
		return
	}
	if !rev.Added.Equals(cmp.Removed) || !rev.Removed.Equals(cmp.Added) || !rev.Modified.Equals(cmp.Modified) {
		fail("swap", "")
	}
	self, err := a.Compare(a)
	if err != nil || !self.IsSame() {
		fail("self-is-same", "")
	}
	// empty exactly when equal up to the order of set / associative-list members
	eq := equalUpToOrder(a.AsValue(), b.AsValue())
	if eq && !cmp.IsSame() {
		fail("same-if-equal", "values are Equal but the comparison is not empty")
	}
	if cmp.IsSame() && value.Equals(a.AsValue(), b.AsValue()) != true {
		// allowed only if they differ by member order; checked through the sorted normal form
		if !eq {
			o.Tag("typ:same-but-reordered")
		}
	}
	// comparing nothing with X reports X's field set as added
	empty := a.Empty()
	c0, err := empty.Compare(b)
	if err == nil {
		fs, err2 := b.ToFieldSet()
		if err2 == nil {
			// every path of the field set is reported added
			missing := fs.Difference(c0.Added)
			if !missing.Empty() || !c0.Removed.Empty() {
				fail("from-nothing", "")
			}
		}
	}
}

// equalUpToOrder: value.Equals (order sensitive) — a sufficient condition used by judgeCompare.
func equalUpToOrder(a, b value.Value) bool { return value.Equals(a, b) }

func judgeMerge(o *Out, op string, c *typCtx, tr schema.TypeRef, a, b, m *typed.TypedValue, plain bool, dupR bool) {
	fail := func(clause, detail string) { o.Fail("C12", clause, detail, clause+" "+op, op) }
	// result valid (duplicates allowed when the left side had them)
	if _, err := typed.AsTyped(m.AsValue(), c.sc, tr, typed.AllowDuplicates); err != nil {
		fail("result-valid", err.Error())
		return
	}
	if _, err := typed.AsTyped(a.AsValue(), c.sc, tr); err == nil {
		if _, err := typed.AsTyped(b.AsValue(), c.sc, tr); err == nil {
			// both sides are duplicate-free: so must be the result. (A right side that is only valid with
			// duplicates allowed either makes the merge fail or carries its duplicates inside a value taken
			// whole - an atomic list - which the merge does not look into.)
			if _, err := typed.AsTyped(m.AsValue(), c.sc, tr); err != nil {
				fail("result-valid/duplicate-free", err.Error())
			}
		}
	}
	// merging R again is a no-op (syntactic)
	m2, err := m.Merge(b)
	if err != nil {
		// the first merge of R succeeded, so merging R again must be a no-op, not an error
		fail("idempotent/error", err.Error())
	} else if !value.Equals(m.AsValue(), m2.AsValue()) {
		fail("idempotent", "")
	}
	// every field of R is in the result with R's value: comparing result with R removes nothing R has
	fb, err1 := b.ToFieldSet()
	fm, err2 := m.ToFieldSet()
	if err1 == nil && err2 == nil {
		if miss := fb.Leaves().Difference(fm); !miss.Empty() && plain {
			fail("right-wins/present", "fields of R missing from the result: "+vx.Iterate(miss))
		}
		if plain {
			// right wins: extracting R's leaves from the result reproduces R
			ex := m.ExtractItems(fb.Leaves())
			if c, err := b.Compare(ex); err == nil && !c.IsSame() {
				fail("right-wins/value", c.String())
			}
		}
		if dupR {
			// error-or-lawful: a successful merge must not have dropped part of R. A degenerate field of
			// R (null / empty) legitimately yields to L's content at that path (reading R5), so a
			// missing leaf only counts when the result has nothing at or beneath it either.
			miss := fb.Leaves().Difference(fm)
			var lost []fieldpath.Path
			miss.Iterate(func(p fieldpath.Path) {
				sub := fm
				for _, pe := range p {
					sub = sub.WithPrefix(pe)
				}
				if sub.Empty() {
					lost = append(lost, p.Copy())
				}
			})
			if len(lost) > 0 {
				fail("error-or-lawful", "merge succeeded but fields of R are missing: "+vx.Paths(lost))
			}
		}
		if plain {
			fa, err3 := a.ToFieldSet()
			if err3 == nil {
				if !fm.Equals(fa.Union(fb)) {
					// kind changes under the deduced type legitimately drop L's fields beneath
					o.Tag("typ:merge-fieldset-not-union")
					if miss := fb.Difference(fm); !miss.Empty() {
						fail("fieldset-union/R-missing", vx.Iterate(miss))
					}
				}
			}
		}
	}
	// merging with itself is the identity
	ms, err := a.Merge(a)
	if err == nil && !value.Equals(ms.AsValue(), a.AsValue()) && plain {
		fail("self-identity", "")
	}
}

// judgePartition: C14 on the plain domain — remove S, extract S with keys, merge gives back the object.
func judgePartition(o *Out, op string, c *typCtx, tr schema.TypeRef, tv *typed.TypedValue, sub, leaves []fieldpath.Path) {
	fail := func(clause, detail string) { o.Fail("C14", clause, detail, clause+" "+op, op) }
	// restrict S to leaf paths that are not key fields of an item
	var s []fieldpath.Path
	for _, p := range sub {
		if isLeafOf(p, leaves) && !isKeyFieldPath(p) {
			s = append(s, p)
		}
	}
	set := fieldpath.NewSet(s...)
	removed := tv.RemoveItems(set)
	extracted := tv.ExtractItems(set, typed.WithAppendKeyFields())
	if _, err := typed.AsTyped(extracted.AsValue(), c.sc, tr); err != nil {
		fail("extract-valid", err.Error())
		return
	}
	if _, err := typed.AsTyped(removed.AsValue(), c.sc, tr); err != nil {
		fail("remove-valid", err.Error())
		return
	}
	fr, err := removed.ToFieldSet()
	if err == nil {
		if !fr.Intersection(set).Empty() {
			fail("remove-contains-member-of-S", "")
		}
	}
	back, err := removed.Merge(extracted)
	if err != nil {
		fail("partition/merge-error", err.Error())
		return
	}
	cmp, err := tv.Compare(back)
	if err != nil {
		fail("partition/compare-error", err.Error())
		return
	}
	if !cmp.IsSame() {
		fail("partition", "remove(S) merged with extract(S) differs from the original: "+cmp.String())
	}
	// extracting all leaves reproduces the object
	all := tv.ExtractItems(fieldpath.NewSet(leaves...))
	cmp2, err := tv.Compare(all)
	if err == nil && !cmp2.IsSame() {
		fail("extract-all-leaves", cmp2.String())
	}
}

func isLeafOf(p fieldpath.Path, leaves []fieldpath.Path) bool {
	for _, l := range leaves {
		if l.Equals(p) {
			return true
		}
	}
	return false
}

// isKeyFieldPath: the last element is a field named like a key of the enclosing keyed item
func isKeyFieldPath(p fieldpath.Path) bool {
	if len(p) < 2 {
		return false
	}
	last, prev := p[len(p)-1], p[len(p)-2]
	if last.FieldName == nil || prev.Key == nil {
		return false
	}
	for _, f := range *prev.Key {
		if f.Name == *last.FieldName {
			return true
		}
	}
	return false
}

// normalForm: an independent canonical text of a value of type ref in which the members of sets and
// keyed lists are sorted (so that two values have the same normal form exactly when they are equal up
// to the order of set / associative-list members) and numerically equal numbers coincide.
func normalForm(gs *sgen.Schema, ref sgen.Ref, v interface{}) string {
	a := gs.Resolve(ref)
	switch t := v.(type) {
	case nil:
		return "null"
	case map[string]interface{}:
		keys := make([]string, 0, len(t))
		for k := range t {
			keys = append(keys, k)
		}
		sortStrings(keys)
		out := "{"
		for _, k := range keys {
			var ft sgen.Ref
			atomic := a == nil || a.Map == nil || a.Map.Rel == "atomic"
			if !atomic {
				ft = fieldRef(a.Map, k)
			}
			if atomic {
				out += fmt.Sprintf("%q:%s,", k, normalForm(gs, sgen.Ref{Inline: &sgen.Atom{Scalar: "untyped"}}, t[k]))
			} else {
				out += fmt.Sprintf("%q:%s,", k, normalForm(gs, ft, t[k]))
			}
		}
		return out + "}"
	case []interface{}:
		if a == nil || a.List == nil || a.List.Rel != "associative" {
			out := "["
			for _, x := range t {
				var et sgen.Ref
				if a != nil && a.List != nil && a.List.Rel != "atomic" {
					et = a.List.Elem
				} else {
					et = sgen.Ref{Inline: &sgen.Atom{Scalar: "untyped"}}
				}
				out += normalForm(gs, et, x) + ","
			}
			return out + "]"
		}
		items := make([]string, 0, len(t))
		for _, x := range t {
			items = append(items, normalForm(gs, a.List.Elem, x))
		}
		// sort by the member's identity first (key fields / scalar value), then by full text; members with
		// the same identity (duplicates) keep their relative order: a duplicate group is compared as a list
		type it struct{ id, text string; pos int }
		var its []it
		for i, x := range t {
			id := ""
			if len(a.List.Keys) > 0 {
				if m, ok := x.(map[string]interface{}); ok {
					ea := gs.Resolve(a.List.Elem)
					for _, kf := range a.List.Keys {
						kv, has := m[kf]
						if !has && ea != nil && ea.Map != nil {
							for _, f := range ea.Map.Fields {
								if f.Name == kf {
									kv = f.Default
								}
							}
						}
						id += kf + "=" + normalForm(gs, sgen.Ref{Inline: &sgen.Atom{Scalar: "untyped"}}, kv) + ";"
					}
				}
			} else {
				id = items[i]
			}
			its = append(its, it{id, items[i], i})
		}
		sortSlice(len(its), func(i, j int) bool {
			if its[i].id != its[j].id {
				return its[i].id < its[j].id
			}
			return its[i].pos < its[j].pos
		}, func(i, j int) { its[i], its[j] = its[j], its[i] })
		out := "<"
		for _, x := range its {
			out += x.text + ","
		}
		return out + ">"
	case int64:
		// exact: ints beyond 2^53 differ from their neighbours although their float64 images coincide
		return fmt.Sprintf("n%d", t)
	case float64:
		if t == 0 {
			return "n0"
		}
		if t == math.Trunc(t) && math.Abs(t) <= 1<<53 {
			return fmt.Sprintf("n%d", int64(t))
		}
		return fmt.Sprintf("n%v", t)
	case string:
		return fmt.Sprintf("%q", t)
	case bool:
		return fmt.Sprint(t)
	}
	return fmt.Sprintf("?%T", v)
}

func fieldRef(m *sgen.Map, name string) sgen.Ref {
	for i := len(m.Fields) - 1; i >= 0; i-- {
		if m.Fields[i].Name == name {
			return m.Fields[i].Type
		}
	}
	if m.Elem != nil {
		return *m.Elem
	}
	return sgen.Ref{}
}

func sortStrings(s []string) { sortSlice(len(s), func(i, j int) bool { return s[i] < s[j] }, func(i, j int) { s[i], s[j] = s[j], s[i] }) }

// sortSlice: insertion sort (stable), enough for the small member lists here
func sortSlice(n int, less func(i, j int) bool, swap func(i, j int)) {
	for i := 1; i < n; i++ {
		for j := i; j > 0 && less(j, j-1); j-- {
			swap(j, j-1)
		}
	}
}

// rootIsLeaf: a difference at the root itself cannot be reported (the empty path is never a member of
// a field set), so the "empty exactly when equal" clause is only evaluated when both roots are
// non-empty granular containers of the same kind.
func rootIsLeaf(gs *sgen.Schema, ref sgen.Ref, v1, v2 interface{}) bool {
	a := gs.Resolve(ref)
	if a == nil {
		return true
	}
	m1, ok1 := v1.(map[string]interface{})
	m2, ok2 := v2.(map[string]interface{})
	if ok1 && ok2 {
		return len(m1) == 0 || len(m2) == 0 || a.Map == nil || a.Map.Rel == "atomic"
	}
	l1, ok1 := v1.([]interface{})
	l2, ok2 := v2.([]interface{})
	if ok1 && ok2 {
		return len(l1) == 0 || len(l2) == 0 || a.List == nil || a.List.Rel == "atomic"
	}
	return true
}
