package main

import (
	"fmt"

	"sigs.k8s.io/structured-merge-diff/v6/fieldpath"
	"sigs.k8s.io/structured-merge-diff/v6/typed"

	"verifharness/internal/gen"
	"verifharness/internal/vx"
)

// Domain typx: EVERY ordered pair of a small universe of objects of one fixed schema (the updx schema):
// the product of a few alternatives per field (absent, null, empty, one / two / reordered members,
// shared and disjoint keys, a duplicate) — compare and merge on every pair, remove / extract with every
// subset of the leaf paths (objects with at most six leaves) of every object.

func init() {
	register("typx", []string{"C11", "C12", "C13", "C14", "C08"},
		"exhaustive: all ordered pairs (cut at -n pairs; enumeration order fixed) of the universe f1 x at x s x l (5 x 3 x 5 x 6 = 450 objects of the fixed updx schema) for compare and merge; remove / extract with every subset of the leaf paths of every object with at most 6 leaves (else 16 random subsets); judges of the typ domain; non-trivial = the two objects differ; distinct by pair",
		domTypx)
}

func typxUniverse() []interface{} {
	m := func(kv ...interface{}) map[string]interface{} {
		out := map[string]interface{}{}
		for i := 0; i+1 < len(kv); i += 2 {
			out[kv[i].(string)] = kv[i+1]
		}
		return out
	}
	l := func(xs ...interface{}) []interface{} { return xs }
	type alt struct {
		present bool
		v       interface{}
	}
	f1 := []alt{{false, nil}, {true, m("x", int64(1))}, {true, m("x", int64(2), "y", int64(1))}, {true, m()}, {true, nil}}
	at := []alt{{false, nil}, {true, m("x", int64(1))}, {true, m("y", int64(2))}}
	s := []alt{{false, nil}, {true, l(int64(1))}, {true, l(int64(1), int64(2))}, {true, l(int64(2), int64(1))}, {true, l()}}
	ll := []alt{{false, nil}, {true, l(m("name", "a"))}, {true, l(m("name", "a", "sub", l(int64(1))), m("name", "b"))},
		{true, l(m("name", "b", "sub", l(int64(1), int64(2))), m("name", "a", "sub", l(int64(2))))},
		{true, l(m("name", "a"), m("name", "a", "sub", l(int64(3))))}, {true, l(m("name", "c", "sub", l()))}}
	var out []interface{}
	for _, a := range f1 {
		for _, b := range at {
			for _, c := range s {
				for _, d := range ll {
					o := map[string]interface{}{}
					if a.present {
						o["f1"] = a.v
					}
					if b.present {
						o["at"] = b.v
					}
					if c.present {
						o["s"] = c.v
					}
					if d.present {
						o["l"] = d.v
					}
					out = append(out, o)
				}
			}
		}
	}
	return out
}

func domTypx(r *gen.Rng, n int, thorough bool, o *Out) {
	p, err := typed.NewParser(typed.YAMLObject(updxSchema))
	if err != nil {
		panic("typx schema rejected: " + err.Error())
	}
	c := &typCtx{parser: p, sc: &p.Schema}
	o.Emit("typ.schema "+vx.Schema(&p.Schema), func() string { return fmt.Sprintf("ok types=%d", len(p.Schema.Types)) })
	tr := p.Type("root").TypeRef
	trs := vx.TypeRef(tr)
	univ := typxUniverse()
	enc := make([]string, len(univ))
	for i, u := range univ {
		enc[i] = vx.Unstructured(u)
	}
	// remove / extract: every object, every subset of its leaves
	for i, u := range univ {
		tv, err := asTyped(c, u, tr, true)
		if err != nil {
			continue
		}
		_, errStrict := asTyped(c, u, tr, false)
		leaves := leafPaths(tv)
		var subsets [][]fieldpath.Path
		if len(leaves) <= 6 {
			for mask := 0; mask < 1<<uint(len(leaves)); mask++ {
				var sub []fieldpath.Path
				for k, lp := range leaves {
					if mask&(1<<uint(k)) != 0 {
						sub = append(sub, lp)
					}
				}
				subsets = append(subsets, sub)
			}
		} else {
			cr := r.Fork(uint64(i))
			for k := 0; k < 16; k++ {
				var sub []fieldpath.Path
				for _, lp := range leaves {
					if cr.Chance(45) {
						sub = append(sub, lp)
					}
				}
				subsets = append(subsets, sub)
			}
		}
		for _, sub := range subsets {
			sub := sub
			ps := vx.Paths(sub)
			opR := "typ.remove " + trs + " T " + enc[i] + " " + ps
			o.Emit(opR, func() string {
				t2, _ := asTyped(c, u, tr, true)
				return vx.Value(t2.RemoveItems(fieldpath.NewSet(sub...)).AsValue())
			})
			opE := "typ.extract " + trs + " T " + enc[i] + " " + ps + " T"
			o.Emit(opE, func() string {
				t2, _ := asTyped(c, u, tr, true)
				return vx.Value(t2.ExtractItems(fieldpath.NewSet(sub...), typed.WithAppendKeyFields()).AsValue())
			})
			if errStrict == nil && plainValue(u) {
				judgePartition(o, opR, c, tr, tv, sub, leaves)
			}
		}
		o.Cases++
	}
	// compare / merge: every ordered pair
	done := 0
	for i := range univ {
		for j := range univ {
			if done >= n {
				return
			}
			done++
			i, j := i, j
			_, e1 := asTyped(c, univ[i], tr, false)
			_, e2 := asTyped(c, univ[j], tr, false)
			dupL, dupR := e1 != nil, e2 != nil
			opC := "typ.cmp " + trs + " " + vx.Flag(dupL) + " " + enc[i] + " " + vx.Flag(dupR) + " " + enc[j]
			o.Emit(opC, func() string {
				a, err1 := asTyped(c, univ[i], tr, dupL)
				b, err2 := asTyped(c, univ[j], tr, dupR)
				if err1 != nil || err2 != nil {
					return "invalid"
				}
				cmp, err := a.Compare(b)
				if err != nil {
					o.Fail("C13", "ops-total/compare", err.Error(), "ops-total/compare "+opC, opC)
					return "err"
				}
				judgeCompare(o, opC, a, b, cmp, dupL || dupR)
				if i == j && !cmp.IsSame() {
					o.Fail("C11", "self-is-same", "", "self-is-same "+opC, opC)
				}
				return cmpString(cmp)
			})
			opM := "typ.merge " + trs + " " + vx.Flag(dupL) + " " + enc[i] + " " + vx.Flag(dupR) + " " + enc[j]
			o.Emit(opM, func() string {
				a, err1 := asTyped(c, univ[i], tr, dupL)
				b, err2 := asTyped(c, univ[j], tr, dupR)
				if err1 != nil || err2 != nil {
					return "invalid"
				}
				before1, before2 := vx.Value(a.AsValue()), vx.Value(b.AsValue())
				m, err := a.Merge(b)
				if vx.Value(a.AsValue()) != before1 || vx.Value(b.AsValue()) != before2 {
					o.Fail("C08", "typed/merge-operands-unchanged", "", "typed/merge-operands-unchanged "+opM, opM)
				}
				if err != nil {
					if !dupR {
						o.Fail("C13", "ops-total/merge", err.Error(), "ops-total/merge "+opM, opM)
					}
					return "err"
				}
				judgeMerge(o, opM, c, tr, a, b, m, plainValue(univ[i]) && plainValue(univ[j]) && !dupL && !dupR, dupR)
				return vx.Value(m.AsValue())
			})
			o.Cases++
			if i != j {
				o.Nontrivial(fmt.Sprint(i, ",", j))
			}
		}
	}
}

// plainValue: no explicit null, no empty list or map anywhere.
func plainValue(v interface{}) bool {
	switch t := v.(type) {
	case nil:
		return false
	case map[string]interface{}:
		if len(t) == 0 {
			return false
		}
		for _, x := range t {
			if !plainValue(x) {
				return false
			}
		}
	case []interface{}:
		if len(t) == 0 {
			return false
		}
		for _, x := range t {
			if !plainValue(x) {
				return false
			}
		}
	}
	return true
}
