package main

import (
	"bufio"
	"io"
	"fmt"
	"runtime"
	"sort"
	"strings"

	"sigs.k8s.io/structured-merge-diff/v6/fieldpath"
	"sigs.k8s.io/structured-merge-diff/v6/merge"
	"sigs.k8s.io/structured-merge-diff/v6/schema"
	"sigs.k8s.io/structured-merge-diff/v6/typed"
	"sigs.k8s.io/structured-merge-diff/v6/value"

	"verifharness/internal/gen"
	"verifharness/internal/sgen"
	"verifharness/internal/vx"
)

func init() {
	register("upd", []string{"C01", "C02", "C03", "C04", "C05", "C06", "C07", "C08", "C09", "C19", "C20"},
		"histories of apply / forced apply / update by 1-3 appliers and 0-2 updaters over 1-4 version labels (identity converter) on random schemas of the generated family; configurations plain (70%) or degenerate; updates = live merged with a random value, or live with random leaves removed, or with duplicate members added; ignore configuration none / exclusion set / include patterns; after every step the result kind, object and managed fields are compared with the model and the judges C01-C07, C19 run on the implementation's pre/post state; non-trivial = history with at least one conflict or one pruned field; distinct by history transcript",
		domUpd)
}

// sameVersionConverter: identity on objects; versions can be switched to "missing" (the converter
// reports the version as gone) or "failing" (ordinary conversion error) during a history.
type sameVersionConverter struct {
	missing map[fieldpath.APIVersion]bool
	failing map[fieldpath.APIVersion]bool
}

type missingVersionError struct{ v fieldpath.APIVersion }

func (e missingVersionError) Error() string { return "missing version " + string(e.v) }

func (c sameVersionConverter) Convert(object *typed.TypedValue, version fieldpath.APIVersion) (*typed.TypedValue, error) {
	if c.failing[version] {
		return nil, fmt.Errorf("conversion to %s failed", version)
	}
	if c.missing[version] {
		return nil, missingVersionError{version}
	}
	return object, nil
}
func (sameVersionConverter) IsMissingVersionError(err error) bool {
	_, ok := err.(missingVersionError)
	return ok
}

func (c sameVersionConverter) enc() string {
	f := func(m map[fieldpath.APIVersion]bool) string {
		var names []string
		for _, v := range versionLabels {
			if m[v] {
				names = append(names, vx.Str(string(v)))
			}
		}
		return "[" + strings.Join(names, "") + "]"
	}
	return f(c.missing) + " " + f(c.failing)
}

func (c sameVersionConverter) degraded() bool { return len(c.missing)+len(c.failing) > 0 }

func encManaged(m fieldpath.ManagedFields) string {
	names := make([]string, 0, len(m))
	for k := range m {
		names = append(names, k)
	}
	sort.Strings(names)
	var b strings.Builder
	b.WriteString("mf[")
	for _, k := range names {
		vs := m[k]
		b.WriteString("(" + vx.Str(k) + vx.Str(string(vs.APIVersion())) + vx.Flag(vs.Applied()) + vx.Trie(vs.Set()) + ")")
	}
	b.WriteString("]")
	return b.String()
}

func encConflicts(cs merge.Conflicts) string {
	// conflicts are compared as a set of (manager, path) pairs (reading R9): sort by manager, keep the
	// per-manager Iterate order
	byMgr := map[string][]fieldpath.Path{}
	for _, c := range cs {
		byMgr[c.Manager] = append(byMgr[c.Manager], c.Path)
	}
	names := make([]string, 0, len(byMgr))
	for k := range byMgr {
		names = append(names, k)
	}
	sort.Strings(names)
	var b strings.Builder
	b.WriteString("conflict[")
	for _, k := range names {
		for _, p := range byMgr[k] {
			b.WriteString("(" + vx.Str(k) + vx.Path(p) + ")")
		}
	}
	b.WriteString("]")
	return b.String()
}

type ignoreCfg struct {
	enc     string
	exclude *fieldpath.Set
	filter  fieldpath.Filter
	kind    string
	// versions: the API versions the configuration is given for (nil: all of them). The configuration
	// maps of the Updater are per version; a version without an entry has nothing ignored.
	versions []fieldpath.APIVersion
}

func (ig ignoreCfg) partial() bool { return ig.versions != nil }

func (ig ignoreCfg) appliesTo() []fieldpath.APIVersion {
	if ig.versions != nil {
		return ig.versions
	}
	return versionLabels
}

// at: the configuration in force for records and requests at version v
func (ig ignoreCfg) at(v fieldpath.APIVersion) ignoreCfg {
	for _, w := range ig.appliesTo() {
		if w == v {
			return ig
		}
	}
	return ignoreCfg{enc: "n", kind: "none"}
}

// restrictVersions gives the configuration for a proper non-empty subset of the version labels only
func (ig ignoreCfg) restrictVersions(r *gen.Rng) ignoreCfg {
	if ig.kind == "none" {
		return ig
	}
	sh := gen.Shuffle(r, versionLabels)
	vs := append([]fieldpath.APIVersion(nil), sh[:1+r.Intn(len(sh)-1)]...)
	sort.Slice(vs, func(i, j int) bool { return vs[i] < vs[j] })
	enc := "@["
	for _, v := range vs {
		enc += vx.Str(string(v))
	}
	ig.enc = enc + "]" + ig.enc
	ig.versions = vs
	return ig
}

func encMatcherPart(m fieldpath.PathElementMatcher) string { return encMatcher(m) }

func genIgnore(r *gen.Rng, c *typCtx, rootRef sgen.Ref) ignoreCfg {
	switch r.Intn(10) {
	case 0, 1: // exclusion set built from paths of a random value
		v := c.gs.RootValue(r, rootRef, 3, &sgen.VOpts{Plain: true, KeySpace: 3})
		tv, err := typed.AsTyped(value.NewValueInterface(v), c.sc, c.typeRef(rootRef))
		var paths []fieldpath.Path
		if err == nil {
			for _, p := range allPaths(tv) {
				if r.Chance(25) {
					if len(p) > 1 && r.Bool() {
						p = p[:1+r.Intn(len(p)-1)]
					}
					paths = append(paths, p)
				}
			}
		}
		if len(paths) == 0 {
			return ignoreCfg{enc: "n", kind: "none"}
		}
		s := fieldpath.NewSet(paths...)
		return ignoreCfg{enc: "x" + vx.Paths(paths), exclude: s, kind: "exclude"}
	case 2, 3: // include patterns
		v := c.gs.RootValue(r, rootRef, 3, &sgen.VOpts{Plain: true, KeySpace: 3})
		tv, err := typed.AsTyped(value.NewValueInterface(v), c.sc, c.typeRef(rootRef))
		var pats [][]fieldpath.PathElementMatcher
		if err == nil {
			for _, p := range allPaths(tv) {
				if r.Chance(30) {
					n := 1 + r.Intn(len(p))
					var pat []fieldpath.PathElementMatcher
					for _, pe := range p[:n] {
						if r.Chance(25) {
							pat = append(pat, fieldpath.MatchAnyPathElement())
						} else {
							pat = append(pat, fieldpath.PathElementMatcher{PathElement: pe})
						}
					}
					pats = append(pats, pat)
				}
			}
		}
		if len(pats) == 0 {
			return ignoreCfg{enc: "n", kind: "none"}
		}
		var ms []*fieldpath.SetMatcher
		enc := "i"
		for _, pat := range pats {
			parts := make([]interface{}, len(pat))
			enc += "p"
			for i, m := range pat {
				parts[i] = m
				enc += encMatcherPart(m)
			}
			enc += ";"
			ms = append(ms, fieldpath.MakePrefixMatcherOrDie(parts...))
		}
		enc += ";"
		return ignoreCfg{enc: enc, filter: fieldpath.NewIncludeMatcherFilter(ms...), kind: "include"}
	}
	return ignoreCfg{enc: "n", kind: "none"}
}

var versionLabels = []fieldpath.APIVersion{"v1", "v2", "v3", "v4"}

// equivalentFilterUpdater: the exclusion set given as the equivalent Filter (C19: identical results).
func (ig ignoreCfg) equivalentFilterUpdater(noop bool, conv sameVersionConverter) *merge.Updater {
	if ig.kind != "exclude" {
		return nil
	}
	b := &merge.UpdaterBuilder{Converter: conv, ReturnInputOnNoop: noop}
	b.IgnoreFilter = map[fieldpath.APIVersion]fieldpath.Filter{}
	for _, v := range ig.appliesTo() {
		b.IgnoreFilter[v] = fieldpath.NewExcludeSetFilter(ig.exclude)
	}
	return b.BuildUpdater()
}

func (ig ignoreCfg) updater(noop bool) *merge.Updater {
	return ig.updaterWith(noop, sameVersionConverter{})
}

func (ig ignoreCfg) updaterWith(noop bool, conv sameVersionConverter) *merge.Updater {
	b := &merge.UpdaterBuilder{Converter: conv, ReturnInputOnNoop: noop}
	switch ig.kind {
	case "exclude":
		b.IgnoredFields = map[fieldpath.APIVersion]*fieldpath.Set{}
		for _, v := range ig.appliesTo() {
			b.IgnoredFields[v] = ig.exclude
		}
	case "include":
		b.IgnoreFilter = map[fieldpath.APIVersion]fieldpath.Filter{}
		for _, v := range ig.appliesTo() {
			b.IgnoreFilter[v] = ig.filter
		}
	}
	return b.BuildUpdater()
}

type updState struct {
	live     *typed.TypedValue
	managers fieldpath.ManagedFields
	conv     sameVersionConverter
	rng      *gen.Rng
	// prevLive: the live object before the step just executed (for the classification of finding D17)
	prevLive *typed.TypedValue
	// d17: (manager|path) pairs already attributed to finding D17 in this history; the stale ownership
	// stays in later states until that manager acts again
	d17 map[string]bool
	// tainted: an earlier step of this history already hit finding D8 (pruning under an ignore
	// configuration); the state is then inconsistent and later inconsistencies are consequences.
	tainted bool
}

func copyManaged(m fieldpath.ManagedFields) fieldpath.ManagedFields {
	out := fieldpath.ManagedFields{}
	for k, v := range m {
		out[k] = v
	}
	return out
}

// rootValue: like RootValue, but a history's objects are maps/lists of the root type's principal kind
// (for the deduced type: maps, as for a custom resource).
func rootValue(c *typCtx, r *gen.Rng, ref sgen.Ref, depth int, o *sgen.VOpts) interface{} {
	for i := 0; i < 30; i++ {
		v := c.gs.RootValue(r, ref, depth, o)
		if ref.Named != "__untyped_deduced_" {
			return v
		}
		if _, ok := v.(map[string]interface{}); ok {
			return v
		}
	}
	return map[string]interface{}{"a": int64(1)}
}

func domUpd(r *gen.Rng, n int, thorough bool, o *Out) {
	corpusWitnesses(o)
	var c *typCtx
	for h := 0; h < n; h++ {
		cr := r.Fork(uint64(h))
		if h%25 == 0 {
			c = newTypCtx(o, cr)
		}
		rootName := "root"
		if cr.Chance(15) {
			rootName = gen.Pick(cr, []string{"itemList", "item2List", "__untyped_deduced_", "openStruct", "tree"})
		}
		rootRef := sgen.Ref{Named: rootName}
		tr := c.typeRef(rootRef)
		ig := genIgnore(cr, c, rootRef)
		if pr := cr.Fork(7_777); pr.Chance(20) {
			// the configuration given for some of the versions only (own stream: the other draws stay as they were)
			ig = ig.restrictVersions(pr)
		}
		noop := cr.Chance(10)
		conv := sameVersionConverter{missing: map[fieldpath.APIVersion]bool{}, failing: map[fieldpath.APIVersion]bool{}}
		up := ig.updaterWith(noop, conv)
		o.Emit("upd.reset "+vx.TypeRef(tr)+" "+ig.enc+" "+vx.Flag(noop), func() string { return "ok" })
		live, err := typed.AsTyped(value.NewValueInterface(nil), c.sc, tr)
		if err != nil {
			panic(err)
		}
		st := &updState{live: live, managers: fieldpath.ManagedFields{}, conv: conv, rng: cr}
		failuresBefore := len(o.Failures)
		var rec []updStep
		degrade := cr.Chance(12) // some histories lose or break a version mid-way
		steps := 2 + cr.Intn(7)
		if thorough {
			steps = 2 + cr.Intn(23)
		}
		nv := 1 + cr.Intn(4)
		appliers := []string{"a1", "a2", "a3"}[:1+cr.Intn(3)]
		updaters := []string{"u1", "u2"}[:cr.Intn(3)]
		transcript := ""
		interesting := false
		// a small pool of related configurations per history so that re-applies, omissions and overlaps are frequent
		vopts := &sgen.VOpts{Plain: true, KeySpace: 3}
		if cr.Chance(30) {
			vopts.Plain = false
		}
		var pool []interface{}
		for k := 0; k < 4; k++ {
			pool = append(pool, rootValue(c, cr.Fork(uint64(100+k)), rootRef, 3, vopts))
		}
		lastCfg := map[string]interface{}{}
		for s := 0; s < steps; s++ {
			if degrade && s >= 1 && cr.Chance(30) {
				v := versionLabels[cr.Intn(nv)]
				if cr.Chance(70) {
					conv.missing[v] = true
				} else {
					conv.failing[v] = !conv.failing[v]
				}
				o.Emit("upd.conv "+conv.enc(), func() string { return "ok" })
				o.Tag("upd:converter-degraded")
				rec = append(rec, updStep{kind: "conv", missing: copyVers(conv.missing), failing: copyVers(conv.failing)})
			}
			ver := versionLabels[cr.Intn(nv)]
			for tries := 0; conv.missing[ver] && tries < 8; tries++ {
				// requests are never issued at a version the converter reports as gone
				ver = versionLabels[cr.Intn(len(versionLabels))]
			}
			if conv.missing[ver] {
				continue
			}
			isUpdate := len(updaters) > 0 && cr.Chance(35)
			if len(appliers) >= 2 && vopts.Plain && ig.kind == "none" && !conv.degraded() && cr.Chance(25) {
				judgeCommute(o, c, up, st, tr, cr, pool, ver)
			}
			if !isUpdate {
				mgr := gen.Pick(cr, appliers)
				force := cr.Chance(35)
				var cfg interface{}
				if cr.Chance(75) {
					cfg = gen.Pick(cr, pool)
				} else {
					cfg = rootValue(c, cr, rootRef, 3, vopts)
				}
				if cr.Chance(30) {
					cfg = dropSome(cr, cfg)
				}
				if !vopts.Plain && cr.Chance(25) {
					cfg = swapEntryForNull(cr, cfg)
				}
				// the manager's previous configuration with a null entry added, or with the key of a null
				// entry renamed: the object changes (one null entry goes, another comes) while both maps keep
				// their size (own stream: the other draws stay as they were)
				stepPlain := vopts.Plain
				if pr := cr.Fork(uint64(8_800 + s)); pr.Chance(12) {
					if prev, ok := lastCfg[mgr]; ok {
						cfg = nullEntryTwin(pr, prev)
						stepPlain = false // explicit nulls: outside the plain stream (reading R4)
						o.Tag("upd:null-entry-twin")
					}
				}
				lastCfg[mgr] = cfg
				rec = append(rec, updStep{kind: "apply", mgr: mgr, ver: ver, force: force, obj: cfg, plain: stepPlain})
				res := stepApply(o, c, up, ig, st, tr, mgr, ver, force, cfg, stepPlain, noop)
				if strings.HasPrefix(res, "ok") {
					emitSync(o, st)
				}
				transcript += "A" + mgr + res[:1]
				if strings.HasPrefix(res, "conflict") {
					interesting = true
				}
			} else {
				mgr := gen.Pick(cr, updaters)
				obj := genUpdateObject(cr, c, st, rootRef, tr, pool)
				rec = append(rec, updStep{kind: "update", mgr: mgr, ver: ver, obj: obj})
				res := stepUpdate(o, c, up, ig, st, tr, mgr, ver, obj)
				if strings.HasPrefix(res, "ok") {
					emitSync(o, st)
				}
				transcript += "U" + mgr + res[:1]
			}
		}
		if len(o.Failures) > failuresBefore && failuresBefore < 12 {
			minimizeHistory(o, failuresBefore, c, ig, noop, tr, rec)
		}
		o.Cases++
		o.Tag(fmt.Sprintf("upd:steps=%d", steps))
		o.Tag("upd:ignore=" + ig.kind)
		if ig.partial() {
			o.Tag("upd:ignore-for-some-versions-only")
		}
		if interesting {
			o.Nontrivial(fmt.Sprintf("%d:%s", h, transcript))
		}
	}
}

// updStep: one recorded step of a history (concrete arguments), for re-execution.
type updStep struct {
	kind             string // apply | update | conv
	mgr              string
	ver              fieldpath.APIVersion
	force, plain     bool
	obj              interface{}
	missing, failing map[fieldpath.APIVersion]bool
}

func copyVers(m map[fieldpath.APIVersion]bool) map[fieldpath.APIVersion]bool {
	out := map[fieldpath.APIVersion]bool{}
	for k, v := range m {
		out[k] = v
	}
	return out
}

// runSteps re-executes recorded steps from the empty object on a scratch output (judges included) and
// returns the scratch output and, per executed step, the number of failures recorded so far.
func runSteps(c *typCtx, ig ignoreCfg, noop bool, tr schema.TypeRef, steps []updStep, seed uint64) (*Out, []int) {
	so := &Out{domain: "upd", ops: bufio.NewWriter(io.Discard), impl: bufio.NewWriter(io.Discard),
		Dist: map[string]int{}, Distinct: map[string]struct{}{}}
	so.schemaLine = "(schema as above)"
	conv := sameVersionConverter{missing: map[fieldpath.APIVersion]bool{}, failing: map[fieldpath.APIVersion]bool{}}
	up := ig.updaterWith(noop, conv)
	so.Emit("upd.reset "+vx.TypeRef(tr)+" "+ig.enc+" "+vx.Flag(noop), func() string { return "ok" })
	live, err := typed.AsTyped(value.NewValueInterface(nil), c.sc, tr)
	if err != nil {
		return so, nil
	}
	st := &updState{live: live, managers: fieldpath.ManagedFields{}, conv: conv, rng: gen.New(seed)}
	var counts []int
	for _, s := range steps {
		switch s.kind {
		case "conv":
			for k := range conv.missing {
				delete(conv.missing, k)
			}
			for k, v := range s.missing {
				conv.missing[k] = v
			}
			for k := range conv.failing {
				delete(conv.failing, k)
			}
			for k, v := range s.failing {
				conv.failing[k] = v
			}
			so.Emit("upd.conv "+conv.enc(), func() string { return "ok" })
		case "apply":
			if conv.missing[s.ver] {
				break
			}
			if res := stepApply(so, c, up, ig, st, tr, s.mgr, s.ver, s.force, s.obj, s.plain, noop); strings.HasPrefix(res, "ok") {
				emitSync(so, st)
			}
		case "update":
			if conv.missing[s.ver] {
				break
			}
			if res := stepUpdate(so, c, up, ig, st, tr, s.mgr, s.ver, s.obj); strings.HasPrefix(res, "ok") {
				emitSync(so, st)
			}
		}
		counts = append(counts, len(so.Failures))
	}
	return so, counts
}

// minimizeHistory: for the first failure of this history, drop steps greedily while the same clause of
// the same property still fails on re-execution from the empty object, cut after the step at which it
// fails, and attach the shorter history to the failures of this history with that clause.
func minimizeHistory(o *Out, from int, c *typCtx, ig ignoreCfg, noop bool, tr schema.TypeRef, rec []updStep) {
	defer func() { recover() }()
	target := o.Failures[from]
	fails := func(steps []updStep) (bool, *Out, int) {
		so, counts := runSteps(c, ig, noop, tr, steps, 12345)
		for i, f := range so.Failures {
			if f.Property == target.Property && f.Clause == target.Clause {
				// the step at which it was recorded
				at := len(steps) - 1
				for k, n := range counts {
					if n > i {
						at = k
						break
					}
				}
				return true, so, at
			}
		}
		return false, so, 0
	}
	cur := append([]updStep{}, rec...)
	ok, _, at := fails(cur)
	if !ok {
		return // not reproducible from the recorded steps alone (e.g. depends on the judge's random choices)
	}
	cur = cur[:at+1]
	for changed := true; changed; {
		changed = false
		for i := len(cur) - 2; i >= 0; i-- {
			cand := append(append([]updStep{}, cur[:i]...), cur[i+1:]...)
			if ok, _, at := fails(cand); ok {
				cur = cand[:at+1]
				changed = true
				break
			}
		}
	}
	_, so, _ := fails(cur)
	min := append([]string{o.schemaLine}, so.history...)
	for i := from; i < len(o.Failures); i++ {
		if o.Failures[i].Property == target.Property && o.Failures[i].Clause == target.Clause {
			o.Failures[i].Minimized = min
		}
	}
	o.Tag(fmt.Sprintf("upd:minimized %d->%d steps", len(rec), len(cur)))
}

// dropSome removes some entries of a configuration (the applier stops applying them).
func dropSome(r *gen.Rng, v interface{}) interface{} {
	switch t := v.(type) {
	case map[string]interface{}:
		out := map[string]interface{}{}
		keys := make([]string, 0, len(t))
		for k := range t {
			keys = append(keys, k)
		}
		sort.Strings(keys)
		for _, k := range keys {
			if len(keys) > 1 && r.Chance(25) {
				continue
			}
			if r.Chance(40) {
				out[k] = dropSome(r, t[k])
			} else {
				out[k] = t[k]
			}
		}
		if len(out) == 0 {
			return v
		}
		return out
	case []interface{}:
		var out []interface{}
		for _, x := range t {
			if len(t) > 1 && r.Chance(30) {
				continue
			}
			if _, isMap := x.(map[string]interface{}); isMap && r.Chance(30) {
				// keep key fields: only drop non-key entries by recursing on sub-containers
				out = append(out, x)
			} else {
				out = append(out, x)
			}
		}
		if len(out) == 0 {
			return v
		}
		return out
	}
	return v
}

// swapEntryForNull: somewhere in the configuration one map entry is dropped and another key is given an
// explicit null, so that the map keeps its size (degenerate configurations only).
func swapEntryForNull(r *gen.Rng, v interface{}) interface{} {
	m, ok := v.(map[string]interface{})
	if !ok || len(m) == 0 {
		return v
	}
	keys := make([]string, 0, len(m))
	for k := range m {
		keys = append(keys, k)
	}
	sort.Strings(keys)
	out := map[string]interface{}{}
	for k, x := range m {
		out[k] = x
	}
	k := gen.Pick(r, keys)
	if sub, isMap := m[k].(map[string]interface{}); isMap && len(sub) > 0 && r.Chance(70) {
		out[k] = swapEntryForNull(r, sub)
		return out
	}
	// same level: drop k, add a sibling key with null (declared names of the generated schemas and free keys)
	delete(out, k)
	for _, cand := range []string{"a", "b", "c", "d", "e", "x", "y", "value", "known", "v", "next"} {
		if _, has := m[cand]; !has {
			out[cand] = nil
			break
		}
	}
	return out
}

// nullEntryTwin: a copy of v in which, in one map (at any depth), the key of an entry holding null is
// renamed to a name not present (declared names of the generated schemas and free keys); when there is
// no such entry yet, one entry's value is replaced by null (so that a later twin can rename it).
func nullEntryTwin(r *gen.Rng, v interface{}) interface{} {
	m, ok := v.(map[string]interface{})
	if !ok || len(m) == 0 {
		return v
	}
	keys := make([]string, 0, len(m))
	for k := range m {
		keys = append(keys, k)
	}
	sort.Strings(keys)
	out := map[string]interface{}{}
	for k, x := range m {
		out[k] = x
	}
	var nulls, maps []string
	for _, k := range keys {
		if m[k] == nil {
			nulls = append(nulls, k)
		} else if sub, isMap := m[k].(map[string]interface{}); isMap && len(sub) > 0 {
			maps = append(maps, k)
		}
	}
	if len(nulls) > 0 && (len(maps) == 0 || r.Chance(70)) {
		k := gen.Pick(r, nulls)
		for _, cand := range gen.Shuffle(r, []string{"a", "b", "c", "d", "e", "x", "y", "value", "known", "v", "next", "pt", "f1", "f4", "f9"}) {
			if _, has := m[cand]; !has {
				delete(out, k)
				out[cand] = nil
				return out
			}
		}
		return out
	}
	if len(maps) > 0 && r.Chance(70) {
		k := gen.Pick(r, maps)
		out[k] = nullEntryTwin(r, m[k])
		return out
	}
	out[gen.Pick(r, keys)] = nil
	return out
}

// judgeCommute (C02): two managers applying configurations with disjoint field sets reach the same
// object (up to member order, R1) and the same ownership in either order, from the current state.
func judgeCommute(o *Out, c *typCtx, up *merge.Updater, st *updState, tr schema.TypeRef, r *gen.Rng, pool []interface{}, ver fieldpath.APIVersion) {
	defer func() { recover() }()
	cfgA, err := typed.AsTyped(value.NewValueInterface(gen.Pick(r, pool)), c.sc, tr)
	if err != nil {
		return
	}
	cfgB0, err := typed.AsTyped(value.NewValueInterface(gen.Pick(r, pool)), c.sc, tr)
	if err != nil {
		return
	}
	fsA, err := cfgA.ToFieldSet()
	if err != nil {
		return
	}
	// make B's field set disjoint from A's: drop A's fields from B
	cfgB := cfgB0.RemoveItems(fsA)
	if cfgB.AsValue().IsNull() {
		return
	}
	if _, err := typed.AsTyped(cfgB.AsValue(), c.sc, tr); err != nil {
		return
	}
	fsB, err := cfgB.ToFieldSet()
	if err != nil || fsB.Empty() || !fsA.Intersection(fsB).Empty() || !isPlainValue(cfgB.AsValue()) {
		return
	}
	// disjoint also structurally: no field of one lies at, above or beneath a field of the other
	overlap := false
	fsA.Iterate(func(p fieldpath.Path) {
		if beneathAny(p, fsB) || anyBeneath(p, fsB) {
			overlap = true
		}
	})
	if overlap {
		return
	}
	// the two managers own nothing yet on this base (reading R13): with previous records of their own,
	// what each abandons depends on what the other co-owns, and the order legitimately matters
	desc := "commute c1:" + vx.Value(cfgA.AsValue()) + " c2:" + vx.Value(cfgB.AsValue()) + " on live " + vx.Value(st.live.AsValue()) + " " + encManaged(st.managers)
	run := func(first, second *typed.TypedValue, m1, m2 string) (string, *typed.TypedValue, fieldpath.ManagedFields) {
		live := st.live
		o1, mf, err := up.Apply(live, first, ver, st.managers, m1, false)
		if err != nil {
			return "conflict-or-error@1", nil, nil
		}
		if o1 != nil {
			live = o1
		}
		o2, mf2, err := up.Apply(live, second, ver, mf, m2, false)
		if err != nil {
			return "conflict-or-error@2", nil, nil
		}
		if o2 != nil {
			live = o2
		}
		return "ok", live, mf2
	}
	k1, l1, m1 := run(cfgA, cfgB, "c1", "c2")
	k2, l2, m2 := run(cfgB, cfgA, "c2", "c1")
	o.Tag("upd:commute=" + k1[:2] + "/" + k2[:2])
	if (k1 == "ok") != (k2 == "ok") {
		o.Fail("C02", "disjoint-configurations-commute/outcome", k1+" vs "+k2+" : "+desc, "disjoint-configurations-commute/outcome "+desc, "commute")
		return
	}
	if k1 != "ok" {
		return
	}
	if cmp, err := l1.Compare(l2); err != nil || !cmp.IsSame() {
		d := ""
		if cmp != nil {
			d = cmp.String()
		}
		o.Fail("C02", "disjoint-configurations-commute/object", d+" : "+desc, "disjoint-configurations-commute/object "+desc, "commute")
	}
	if !m1.Equals(m2) {
		o.Fail("C02", "disjoint-configurations-commute/ownership", encManaged(m1)+" vs "+encManaged(m2)+" : "+desc, "disjoint-configurations-commute/ownership "+desc, "commute")
	}
}

// isPlainValue: no explicit null, no empty list or map
func isPlainValue(v value.Value) bool {
	switch {
	case v.IsNull():
		return false
	case v.IsList():
		l := v.AsList()
		if l.Length() == 0 {
			return false
		}
		for i := 0; i < l.Length(); i++ {
			if !isPlainValue(l.At(i)) {
				return false
			}
		}
	case v.IsMap():
		m := v.AsMap()
		if m.Length() == 0 {
			return false
		}
		ok := true
		var keys []string
		m.Iterate(func(k string, _ value.Value) bool { keys = append(keys, k); return true })
		for _, k := range keys {
			x, _ := m.Get(k)
			if !isPlainValue(x) {
				ok = false
			}
		}
		return ok
	}
	return true
}

func genUpdateObject(r *gen.Rng, c *typCtx, st *updState, rootRef sgen.Ref, tr schema.TypeRef, pool []interface{}) interface{} {
	liveU := gen.DeepCopy(normalize(st.live.AsValue().Unstructured()))
	switch r.Intn(7) {
	case 6: // live with an empty list or map put into a declared field of some struct
		return emptyMember(r, c, tr, liveU, 3)
	case 5: // live with a twin of some list item whose key field is an explicit null
		return nullKeyTwin(r, liveU)
	case 0: // a fresh object
		return rootValue(c, r, rootRef, 3, &sgen.VOpts{Plain: r.Chance(70), KeySpace: 3, Dups: r.Chance(30)})
	case 1, 2: // live merged with something
		other := gen.Pick(r, pool)
		if r.Bool() {
			other = rootValue(c, r, rootRef, 3, &sgen.VOpts{Plain: true, KeySpace: 3})
		}
		a, err1 := typed.AsTyped(value.NewValueInterface(liveU), c.sc, tr, typed.AllowDuplicates)
		b, err2 := typed.AsTyped(value.NewValueInterface(other), c.sc, tr)
		if err1 == nil && err2 == nil {
			if m, err := a.Merge(b); err == nil {
				return normalize(m.AsValue().Unstructured())
			}
		}
		return other
	case 3: // live with some leaves removed
		a, err := typed.AsTyped(value.NewValueInterface(liveU), c.sc, tr, typed.AllowDuplicates)
		if err == nil {
			var sub []fieldpath.Path
			for _, p := range leafPaths(a) {
				if r.Chance(30) {
					sub = append(sub, p)
				}
			}
			out := a.RemoveItems(fieldpath.NewSet(sub...))
			return normalize(out.AsValue().Unstructured())
		}
		return liveU
	default: // live with a duplicated list member somewhere
		return addDuplicate(r, liveU)
	}
}

// normalize converts map[interface{}]interface{} (never produced here) and typed nils; identity otherwise.
func normalize(v interface{}) interface{} { return v }

// emptyMember: somewhere in the object (type directed) a declared list / map field of a struct is set to
// an empty list / map: a node that field sets do not show but that an updater comes to own.
func emptyMember(r *gen.Rng, c *typCtx, tr schema.TypeRef, v interface{}, depth int) interface{} {
	m, ok := v.(map[string]interface{})
	if !ok || depth <= 0 {
		return v
	}
	atom, ok := c.sc.Resolve(tr)
	if !ok || atom.Map == nil || len(atom.Map.Fields) == 0 {
		return v
	}
	out := map[string]interface{}{}
	for k, x := range m {
		out[k] = x
	}
	// descend into a struct-valued field half of the time
	if r.Bool() {
		for _, f := range atom.Map.Fields {
			if sub, isMap := m[f.Name].(map[string]interface{}); isMap && len(sub) > 0 {
				if fa, ok := c.sc.Resolve(f.Type); ok && fa.Map != nil && len(fa.Map.Fields) > 0 && fa.Map.ElementRelationship != schema.Atomic {
					out[f.Name] = emptyMember(r, c, f.Type, sub, depth-1)
					return out
				}
			}
		}
	}
	var cands []int
	for i, f := range atom.Map.Fields {
		if fa, ok := c.sc.Resolve(f.Type); ok && (fa.List != nil || fa.Map != nil) && fa.Scalar == nil {
			cands = append(cands, i)
		}
	}
	if len(cands) == 0 {
		return out
	}
	f := atom.Map.Fields[gen.Pick(r, cands)]
	fa, _ := c.sc.Resolve(f.Type)
	if fa.List != nil && (fa.Map == nil || r.Bool()) {
		out[f.Name] = []interface{}{}
	} else {
		out[f.Name] = map[string]interface{}{}
	}
	return out
}

// nullKeyTwin: somewhere in the object a list of maps gets a copy of one of its items in which one of
// the (possible) key fields is an explicit null: another item than the original, also when the
// original relies on the schema default of that key.
func nullKeyTwin(r *gen.Rng, v interface{}) interface{} {
	switch t := v.(type) {
	case map[string]interface{}:
		keys := make([]string, 0, len(t))
		for k := range t {
			keys = append(keys, k)
		}
		sort.Strings(keys)
		out := map[string]interface{}{}
		for k, x := range t {
			out[k] = x
		}
		// the lists that hold maps, in random order; in the chosen item a field that is a key of the
		// generated keyed lists is set to null (for the list with defaulted keys: `proto` or `port`)
		var lists []string
		for _, k := range keys {
			if l, ok := t[k].([]interface{}); ok && len(l) > 0 {
				if _, isMap := l[0].(map[string]interface{}); isMap {
					lists = append(lists, k)
				}
			}
		}
		if len(lists) > 0 && r.Chance(85) {
			k := gen.Pick(r, lists)
			l := t[k].([]interface{})
			if item, ok := l[r.Intn(len(l))].(map[string]interface{}); ok {
				twin := map[string]interface{}{}
				for kk, x := range item {
					twin[kk] = x
				}
				cands := []string{"name"}
				if _, has := item["port"]; has {
					cands = []string{"proto", "proto", "port"}
				} else if _, has := item["id"]; has {
					cands = []string{"id", "name"}
				}
				twin[gen.Pick(r, cands)] = nil
				out[k] = append(append([]interface{}{}, l...), twin)
				return out
			}
		}
		for _, k := range keys {
			if _, ok := t[k].(map[string]interface{}); ok {
				out[k] = nullKeyTwin(r, t[k])
				return out
			}
		}
		return out
	}
	return v
}

func addDuplicate(r *gen.Rng, v interface{}) interface{} {
	switch t := v.(type) {
	case map[string]interface{}:
		keys := make([]string, 0, len(t))
		for k := range t {
			keys = append(keys, k)
		}
		sort.Strings(keys)
		out := map[string]interface{}{}
		for k, x := range t {
			out[k] = x
		}
		for _, k := range gen.Shuffle(r, keys) {
			if _, ok := t[k].([]interface{}); ok {
				out[k] = addDuplicate(r, t[k])
				return out
			}
		}
		for _, k := range keys {
			if _, ok := t[k].(map[string]interface{}); ok {
				out[k] = addDuplicate(r, t[k])
				return out
			}
		}
		return out
	case []interface{}:
		if len(t) == 0 {
			return t
		}
		out := append([]interface{}{}, t...)
		i := r.Intn(len(t))
		dup := gen.DeepCopy(t[i])
		switch r.Intn(4) {
		case 0:
			// a third copy, with another item behind it: [.., x, x', x'', y]
			out = append(out, dup, gen.DeepCopy(t[i]))
			if len(t) > 1 {
				out = append(out, gen.DeepCopy(t[(i+1)%len(t)]))
			}
		case 1:
			// the copy in front, differing in a leaf (a stale twin of the same identity)
			out = append([]interface{}{tweakLeafKeepKeys(r, dup)}, out...)
		default:
			out = append(out, dup)
		}
		return out
	}
	return v
}

// tweakLeafKeepKeys changes a non-key scalar of a map item (fields named name / id / port / proto / key are
// left alone, so that the identity stays).
func tweakLeafKeepKeys(r *gen.Rng, v interface{}) interface{} {
	m, ok := v.(map[string]interface{})
	if !ok {
		return v
	}
	for _, k := range []string{"value", "x", "y", "v", "known"} {
		if x, has := m[k]; has {
			switch t := x.(type) {
			case int64:
				m[k] = t + 5
				return m
			case string:
				m[k] = t + "-stale"
				return m
			case bool:
				m[k] = !t
				return m
			case float64:
				m[k] = t + 5
				return m
			}
		}
	}
	return m
}

// emitSync hands the implementation's state to the model: after a step whose outcome depends on Go's
// map iteration order (finding D10) the model cannot know which order Go took.
func emitSync(o *Out, st *updState) {
	o.Emit("upd.sync "+vx.Value(st.live.AsValue())+" "+encManaged(st.managers), func() string { return "ok" })
}

// orderDependentVersions: the number of versions addBackOwnedItems visits in Go map order for this
// request, i.e. the versions of the new record and of the other managers except the pruned version
// (the applier's previous one), which is always visited first. With two or more of them the result
// can depend on the order (finding D10).
func orderDependentVersions(m fieldpath.ManagedFields, mgr string, ver fieldpath.APIVersion) int {
	last, had := m[mgr]
	if !had {
		return 0
	}
	seen := map[fieldpath.APIVersion]bool{ver: true}
	for k, vs := range m {
		if k != mgr {
			seen[vs.APIVersion()] = true
		}
	}
	delete(seen, last.APIVersion())
	return len(seen)
}

func stepUpdate(o *Out, c *typCtx, up *merge.Updater, ig ignoreCfg, st *updState, tr schema.TypeRef, mgr string, ver fieldpath.APIVersion, obj interface{}) string {
	op := "upd.update " + vx.Str(mgr) + " " + vx.Str(string(ver)) + " " + vx.Unstructured(obj)
	return o.Emit(op, func() string {
		tv, err := typed.AsTyped(value.NewValueInterface(obj), c.sc, tr, typed.AllowDuplicates)
		if err != nil {
			return "invalid"
		}
		before := snapshot(st, tv)
		pre := copyManaged(st.managers)
		if up2 := ig.equivalentFilterUpdater(false, st.conv); up2 != nil {
			// a panic of the exclusion-set form that the equivalent filter form does not share (the call is
			// made once more below, where the panic ends the step)
			if safe(func() string { up.Update(st.live, tv, ver, st.managers, mgr); return "ok" }) == "panic" {
				msg := lastPanic
				if safe(func() string { up2.Update(st.live, tv, ver, st.managers, mgr); return "ok" }) == "ok" {
					o.Fail("C19", "exclusion-set-equals-filter", "the exclusion-set form panics ("+msg+"), the filter form does not", "exclusion-set-equals-filter/panic "+op, op)
				}
			}
		}
		newObj, managers, err := up.Update(st.live, tv, ver, st.managers, mgr)
		checkSnapshot(o, op, before, st, tv)
		if up2 := ig.equivalentFilterUpdater(false, st.conv); up2 != nil {
			_, m2, e2 := up2.Update(st.live, tv, ver, st.managers, mgr)
			if (e2 == nil) != (err == nil) || (err == nil && !m2.Equals(managers)) {
				o.Fail("C19", "exclusion-set-equals-filter", "", "exclusion-set-equals-filter "+op, op)
			}
		}
		if err != nil {
			if newObj != nil || len(managers) != 0 {
				o.Fail("C08", "updater/failure-returns-no-object", err.Error(), "updater/failure-returns-no-object "+op, op)
			}
			if !st.conv.degraded() {
				if ig.kind != "none" && st.tainted && strings.Contains(err.Error(), "failed to compare objects") {
					// the live object was mutilated by an earlier re-apply under the ignore configuration (finding D8)
					o.Fail("C19", "live-object-valid-under-ignore", err.Error(), "live-object-valid-under-ignore/D8-prune-under-ignore-configuration "+op, op)
				} else {
					o.Fail("C06", "update-never-fails-on-valid-input", err.Error(), "update-never-fails-on-valid-input "+op, op)
				}
			}
			return "err"
		}
		repeatCheck(o, op, c, st, func() string {
			_, m2, e2 := up.Update(st.live, tv, ver, st.managers, mgr)
			if e2 != nil {
				return "err"
			}
			return encManagedBytes(m2)
		}, encManagedBytes(managers), false)
		degradedNow = st.conv.degraded()
		if !ig.partial() {
			judgeUpdate(o, op, c, ig, st.live, tv, newObj, pre, managers, mgr, ver)
		} else if !degradedNow {
			// configuration given for some versions only: the other managers' records, each under the
			// configuration of its own version (the versions are labels here: one comparison serves all)
			if cmp, err := st.live.Compare(tv); err == nil {
				judgeOthers(o, op, ig, cmp, pre, managers, mgr)
			}
		}
		st.prevLive = st.live
		st.live, st.managers = newObj, managers
		if !ig.partial() {
			judgeInvariantIg(o, op, c, tr, st, ig.kind, "", false)
		}
		judgeIgnored(o, op, ig, managers)
		return "ok " + encManaged(managers)
	})
}

func stepApply(o *Out, c *typCtx, up *merge.Updater, ig ignoreCfg, st *updState, tr schema.TypeRef, mgr string, ver fieldpath.APIVersion, force bool, cfg interface{}, plain bool, noop bool) string {
	op := "upd.apply " + vx.Str(mgr) + " " + vx.Str(string(ver)) + " " + vx.Flag(force) + " " + vx.Unstructured(cfg)
	return o.Emit(op, func() string {
		tv, err := typed.AsTyped(value.NewValueInterface(cfg), c.sc, tr)
		if err != nil {
			return "invalid"
		}
		before := snapshot(st, tv)
		pre := copyManaged(st.managers)
		if up2 := ig.equivalentFilterUpdater(noop, st.conv); up2 != nil {
			if safe(func() string { up.Apply(st.live, tv, ver, st.managers, mgr, force); return "ok" }) == "panic" {
				msg := lastPanic
				if safe(func() string { up2.Apply(st.live, tv, ver, st.managers, mgr, force); return "ok" }) == "ok" {
					o.Fail("C19", "exclusion-set-equals-filter", "the exclusion-set form panics ("+msg+"), the filter form does not", "exclusion-set-equals-filter/panic "+op, op)
				}
			}
		}
		newObj, managers, err := up.Apply(st.live, tv, ver, st.managers, mgr, force)
		checkSnapshot(o, op, before, st, tv)
		if up2 := ig.equivalentFilterUpdater(noop, st.conv); up2 != nil && orderDependentVersions(st.managers, mgr, ver) < 2 {
			// (under finding D10 two separate calls may legitimately differ: not compared)
			o2, m2, e2 := up2.Apply(st.live, tv, ver, st.managers, mgr, force)
			same := (e2 == nil) == (err == nil) && (o2 == nil) == (newObj == nil)
			if same && err == nil {
				same = m2.Equals(managers) && (o2 == nil || value.Equals(o2.AsValue(), newObj.AsValue()))
			}
			if !same {
				o.Fail("C19", "exclusion-set-equals-filter", "", "exclusion-set-equals-filter "+op, op)
			}
		}
		// the other mode, on the same state, for C04
		fObj, fManagers, fErr := up.Apply(st.live, tv, ver, st.managers, mgr, !force)
		checkSnapshot(o, op, before, st, tv)
		var forcedObj *typed.TypedValue
		var forcedManagers fieldpath.ManagedFields
		var forcedErr, unforcedErr error
		var unforcedObj *typed.TypedValue
		var unforcedManagers fieldpath.ManagedFields
		if force {
			forcedObj, forcedManagers, forcedErr = newObj, managers, err
			unforcedObj, unforcedManagers, unforcedErr = fObj, fManagers, fErr
		} else {
			forcedObj, forcedManagers, forcedErr = fObj, fManagers, fErr
			unforcedObj, unforcedManagers, unforcedErr = newObj, managers, err
		}
		if !ig.partial() {
			judgeConflicts(o, op, c, ig, st, tv, mgr, ver, forcedObj, forcedManagers, forcedErr, unforcedObj, unforcedManagers, unforcedErr, noop)
		}
		if err != nil {
			if cs, ok := err.(merge.Conflicts); ok {
				if newObj != nil || len(managers) != 0 {
					o.Fail("C04", "conflict-returns-no-state", "", "conflict-returns-no-state "+op, op)
				}
				return encConflicts(cs)
			}
			if newObj != nil || len(managers) != 0 {
				o.Fail("C08", "updater/failure-returns-no-object", err.Error(), "updater/failure-returns-no-object "+op, op)
			}
			if !st.conv.degraded() {
				_, hadRecord := pre[mgr]
				if ig.kind != "none" && (hadRecord || st.tainted) && strings.Contains(err.Error(), "failed to compare objects") {
					// finding D8 in its hardest form: under an ignore configuration the re-apply prunes an item of
					// which a key field is ignored or kept apart from the rest (the item loses its key, or is
					// left as a null element) and the apply itself fails on the mutilated object ("failed to
					// compare objects: … omits key field" / "… may not have a null element")
					st.tainted = true
					o.Fail("C19", "live-object-valid-under-ignore", err.Error(), "live-object-valid-under-ignore/D8-prune-under-ignore-configuration "+op, op)
				} else {
					o.Fail("C06", "apply-fails-only-with-conflicts", err.Error(), "apply-fails-only-with-conflicts "+op, op)
				}
			}
			return "err"
		}
		repeatCheck(o, op, c, st, func() string {
			o2, m2, e2 := up.Apply(st.live, tv, ver, st.managers, mgr, force)
			if e2 != nil {
				return "err"
			}
			if o2 == nil {
				return "_ " + encManagedBytes(m2)
			}
			return vx.Value(o2.AsValue()) + " " + encManagedBytes(m2)
		}, func() string {
			if newObj == nil {
				return "_ " + encManagedBytes(managers)
			}
			return vx.Value(newObj.AsValue()) + " " + encManagedBytes(managers)
		}(), orderDependentVersions(st.managers, mgr, ver) >= 2)
		result := newObj
		if result == nil {
			result = st.live
		}
		if !ig.partial() {
			judgeApply(o, op, c, ig, up, st, tv, result, newObj == nil, pre, managers, mgr, ver, plain, noop)
		} else if !st.conv.degraded() {
			if cmp, err := st.live.Compare(result); err == nil {
				judgeOthers(o, op, ig, cmp, pre, managers, mgr)
			}
		}
		objs := "_"
		if newObj != nil {
			objs = vx.Value(newObj.AsValue())
		}
		st.prevLive = st.live
		st.live, st.managers = result, managers
		_, hadRecord := pre[mgr]
		if !ig.partial() {
			judgeInvariantIg(o, op, c, tr, st, ig.kind, mgr, hadRecord)
		}
		judgeIgnored(o, op, ig, managers)
		return "ok obj=" + objs + " " + encManaged(managers)
	})
}

var degradedNow bool

// encManagedBytes: managers with the serialised bytes of every record (C09: byte-identical serialisations)
func encManagedBytes(m fieldpath.ManagedFields) string {
	names := make([]string, 0, len(m))
	for k := range m {
		names = append(names, k)
	}
	sort.Strings(names)
	out := ""
	for _, k := range names {
		b, _ := m[k].Set().ToJSON()
		out += fmt.Sprintf("%s/%s/%v/%s;", k, m[k].APIVersion(), m[k].Applied(), b)
	}
	return out
}

// disturb runs unrelated calls that leave state in the pooled walkers: root-leaf comparisons and
// merges (empty / null / scalar roots), failing validations, failing merges, conflicts; sometimes a GC.
func disturb(c *typCtx, r *gen.Rng) {
	defer func() { recover() }()
	for _, name := range []string{"root", "num", "numSet", "atomicMap", "__untyped_deduced_"} {
		pt := c.parser.Type(name)
		for _, v := range []interface{}{nil, map[string]interface{}{}, []interface{}{}, int64(1)} {
			a, err1 := pt.FromUnstructured(v)
			b, err2 := pt.FromUnstructured(v)
			if err1 != nil || err2 != nil {
				continue
			}
			a.Compare(b)
			a.Merge(b)
			a.ToFieldSet()
		}
	}
	pt := c.parser.Type("root")
	pt.FromUnstructured(map[string]interface{}{"zz_undeclared": []interface{}{int64(1)}})
	pt.FromUnstructured([]interface{}{int64(1)})
	if l, err := c.parser.Type("numSet").FromUnstructured([]interface{}{int64(1)}); err == nil {
		if d, err := c.parser.Type("numSet").FromUnstructured([]interface{}{int64(2), int64(2)}, typed.AllowDuplicates); err == nil {
			l.Merge(d)
			l.Compare(d)
		}
	}
	if r.Chance(10) {
		runtime.GC()
	}
}

// repeatCheck: the same call after unrelated traffic must give the same answer (C09).
func repeatCheck(o *Out, op string, c *typCtx, st *updState, f func() string, first string, d10 bool) {
	if st.rng == nil || !st.rng.Chance(35) {
		return
	}
	disturb(c, st.rng)
	for k := 0; k < 3; k++ {
		second := safe(f)
		if second != first {
			sig := "same-call-same-result-after-other-calls "
			if d10 {
				// >= 3 API versions take part in the add-back of a re-apply: finding D10
				sig = "same-call-same-result-after-other-calls/D10-version-iteration-order "
			}
			o.Fail("C09", "same-call-same-result-after-other-calls", "first: "+first+" | repeated: "+second, sig+op, op)
			return
		}
	}
}

// --- C08: snapshots of the arguments -------------------------------------------------------------

type snap struct{ live, arg, managers string }

func snapshot(st *updState, arg *typed.TypedValue) snap {
	return snap{vx.Value(st.live.AsValue()), vx.Value(arg.AsValue()), encManaged(st.managers)}
}

func checkSnapshot(o *Out, op string, before snap, st *updState, arg *typed.TypedValue) {
	after := snapshot(st, arg)
	if after.live != before.live {
		o.Fail("C08", "updater/live-object-unchanged", "", "updater/live-object-unchanged "+op, op)
	}
	if after.arg != before.arg {
		o.Fail("C08", "updater/argument-unchanged", "", "updater/argument-unchanged "+op, op)
	}
	if after.managers != before.managers {
		o.Fail("C08", "updater/managed-fields-unchanged", "before "+before.managers+" after "+after.managers, "updater/managed-fields-unchanged "+op, op)
	}
}

// --- judges ---------------------------------------------------------------------------------------

func applyFilter(ig ignoreCfg, s *fieldpath.Set) *fieldpath.Set {
	switch ig.kind {
	case "exclude":
		return s.RecursiveDifference(ig.exclude)
	case "include":
		return ig.filter.Filter(s)
	}
	return s
}

// beneathAny reports whether p or a prefix of p is a member of s.
func beneathAny(p fieldpath.Path, s *fieldpath.Set) bool {
	for i := 1; i <= len(p); i++ {
		if s.Has(p[:i]) {
			return true
		}
	}
	return false
}

// anyBeneath reports whether s has a member at or beneath p.
func anyBeneath(p fieldpath.Path, s *fieldpath.Set) bool {
	if s.Has(p) {
		return true
	}
	sub := s
	for _, pe := range p {
		sub = sub.WithPrefix(pe)
	}
	return !sub.Empty()
}

func judgeConflicts(o *Out, op string, c *typCtx, ig ignoreCfg, st *updState, cfg *typed.TypedValue, mgr string, ver fieldpath.APIVersion,
	fObj *typed.TypedValue, fManagers fieldpath.ManagedFields, fErr error,
	uObj *typed.TypedValue, uManagers fieldpath.ManagedFields, uErr error, noop bool) {
	fail := func(clause, detail string) { o.Fail("C04", clause, detail, clause+" "+op, op) }
	if st.conv.degraded() {
		return // conflicts are computed per version; with lost versions the single-version reference does not apply
	}
	if fErr != nil {
		if _, ok := fErr.(merge.Conflicts); ok {
			fail("force-never-conflicts", fErr.Error())
		}
		return
	}
	forcedResult := fObj
	if forcedResult == nil {
		forcedResult = st.live
	}
	// independent conflict set: other managers' fields modified or added between live and the forced result
	cmp, err := st.live.Compare(forcedResult)
	if err != nil {
		return
	}
	changed := applyFilter(ig, cmp.Modified.Union(cmp.Added))
	want := map[string]bool{}
	for m, vs := range st.managers {
		if m == mgr {
			continue
		}
		vs.Set().Intersection(changed).Iterate(func(p fieldpath.Path) { want[m+"|"+vx.Path(p)] = true })
	}
	// independently of the library's Compare: a path owned by another manager that designates (own
	// resolver) leaf-like nodes — scalar, null, empty list or map — on both sides, with different
	// values, has changed, [] against null included
	if ig.kind == "none" {
		lu, ru := st.live.AsValue().Unstructured(), forcedResult.AsValue().Unstructured()
		leafLike := func(x interface{}) bool {
			switch t := x.(type) {
			case map[string]interface{}:
				return len(t) == 0
			case []interface{}:
				return len(t) == 0
			}
			return true
		}
		for m, vs := range st.managers {
			if m == mgr {
				continue
			}
			m := m
			vs.Set().Iterate(func(p fieldpath.Path) {
				a, ok1 := nodeAt(c.sc, cfg.TypeRef(), lu, p)
				b, ok2 := nodeAt(c.sc, cfg.TypeRef(), ru, p)
				if ok1 && ok2 && leafLike(a) && leafLike(b) &&
					vx.CanonValue(value.NewValueInterface(a)) != vx.CanonValue(value.NewValueInterface(b)) {
					k := m + "|" + vx.Path(p)
					if !want[k] {
						want[k] = true
						o.Tag("upd:conflict-by-resolver-only")
					}
				}
			})
		}
	}
	if uErr != nil {
		cs, ok := uErr.(merge.Conflicts)
		if !ok {
			return
		}
		got := map[string]bool{}
		for _, cf := range cs {
			got[cf.Manager+"|"+vx.Path(cf.Path)] = true
		}
		if len(want) == 0 {
			fail("spurious-conflict", uErr.Error())
		}
		for k := range want {
			if !got[k] {
				fail("missed-conflict-pair", k)
			}
		}
		for k := range got {
			if !want[k] {
				fail("extra-conflict-pair", k)
			}
		}
		o.Tag("upd:conflict")
		return
	}
	// unforced succeeded
	if orderDependentVersions(st.managers, mgr, ver) >= 2 {
		// two separate calls may visit the versions in different orders (finding D10, reported under C09):
		// comparing them with each other is not meaningful
		return
	}
	if len(want) != 0 {
		keys := []string{}
		for k := range want {
			keys = append(keys, k)
		}
		sort.Strings(keys)
		fail("missed-conflict", strings.Join(keys, ", "))
	}
	if (uObj == nil) != (fObj == nil) || (uObj != nil && !value.Equals(uObj.AsValue(), fObj.AsValue())) {
		fail("unforced-success-equals-forced/object", "")
	}
	if !uManagers.Equals(fManagers) {
		fail("unforced-success-equals-forced/ownership", "")
	}
}

func judgeApply(o *Out, op string, c *typCtx, ig ignoreCfg, up *merge.Updater, st *updState, cfg, result *typed.TypedValue, wasNoop bool,
	pre, managers fieldpath.ManagedFields, mgr string, ver fieldpath.APIVersion, plain bool, noopMode bool) {
	if st.conv.degraded() {
		return
	}
	fsCfg, err := cfg.ToFieldSet()
	if err != nil {
		return
	}
	fsRes, err := result.ToFieldSet()
	if err != nil {
		o.Fail("C06", "result-has-field-set", err.Error(), "result-has-field-set "+op, op)
		return
	}
	// C01: the configuration takes effect (plain domain). Under an ignore configuration the same
	// demand is C19's "values of ignored fields are merged and returned like any other".
	if plain && ig.kind == "none" {
		// independently of the library's own path-element construction: every leaf of the configuration
		// resolves in the result (by key fields incl. schema defaults) to the configuration's scalar
		cu, ru := cfg.AsValue().Unstructured(), result.AsValue().Unstructured()
		fsCfg.Leaves().Iterate(func(p fieldpath.Path) {
			want, ok1 := nodeAt(c.sc, cfg.TypeRef(), cu, p)
			got, ok2 := nodeAt(c.sc, cfg.TypeRef(), ru, p)
			if !ok1 {
				return
			}
			if !ok2 {
				o.Fail("C01", "configuration-takes-effect", "absent: "+p.String(), "configuration-takes-effect/resolver "+op, op)
				return
			}
			switch want.(type) {
			case map[string]interface{}, []interface{}:
			default:
				if !value.Equals(value.NewValueInterface(want), value.NewValueInterface(got)) {
					o.Fail("C01", "configuration-takes-effect", "other value at "+p.String(), "configuration-takes-effect/resolver "+op, op)
				}
			}
		})
	}
	// C02, independently of field sets and Compare: a leaf-like node (scalar, null, empty list or map) that
	// another manager owns, that the configuration does not touch (no configuration path at, above or
	// beneath it) and that does not lie beneath something the applier itself applied before (reading R2:
	// what it abandons may take sub-items along), keeps its value
	if plain && ig.kind == "none" && orderDependentVersions(pre, mgr, ver) < 2 {
		lu, ru := st.live.AsValue().Unstructured(), result.AsValue().Unstructured()
		var lastSet *fieldpath.Set
		if last, had := pre[mgr]; had {
			lastSet = last.Set()
		}
		for m, vs := range pre {
			if m == mgr {
				continue
			}
			m := m
			vs.Set().Iterate(func(p fieldpath.Path) {
				a, ok := nodeAt(c.sc, cfg.TypeRef(), lu, p)
				if !ok {
					return
				}
				switch t := a.(type) {
				case map[string]interface{}:
					if len(t) != 0 {
						return
					}
				case []interface{}:
					if len(t) != 0 {
						return
					}
				}
				if anyBeneath(p, fsCfg) || beneathAny(p, fsCfg) || fsCfg.Has(p) {
					return
				}
				if lastSet != nil {
					for i := 1; i < len(p); i++ {
						if lastSet.Has(p[:i]) {
							return
						}
					}
				}
				b, ok2 := nodeAt(c.sc, cfg.TypeRef(), ru, p)
				if ok2 && vx.CanonValue(value.NewValueInterface(a)) == vx.CanonValue(value.NewValueInterface(b)) {
					return
				}
				sig := "others-owned-node-kept "
				if l, isList := a.([]interface{}); isList && len(l) == 0 {
					// finding D17: an empty list is invisible to field sets, so the add-back of dangling items
					// does not see that its parent still has content
					sig = "others-owned-node-kept/D17-empty-list-invisible "
				}
				o.Fail("C02", "others-owned-node-kept", m+" owns "+p.String()+" = "+vx.CanonValue(value.NewValueInterface(a))+", gone or changed after the apply", sig+op, op)
			})
		}
	}
	if plain {
		ex := result.ExtractItems(fsCfg.Leaves())
		if cmp, err := cfg.Compare(ex); err != nil || !cmp.IsSame() {
			d := ""
			if cmp != nil {
				d = cmp.String()
			}
			if ig.kind == "none" {
				o.Fail("C01", "configuration-takes-effect", d, "configuration-takes-effect "+op, op)
			} else {
				// classify: is every missing field an ignored one lying beneath a named parent that the
				// applier's previous record (with named parents) contained?  (finding D8)
				sig := "ignored-values-flow "
				if _, had := pre[mgr]; had || st.tainted {
					sig = "ignored-values-flow/D8-prune-under-ignore-configuration "
					st.tainted = true
				}
				o.Fail("C19", "ignored-values-flow", d, sig+op, op)
			}
		}
	}
	// C05: the applier owns exactly the fields of its configuration, marked applied
	wantSet := applyFilter(ig, fsCfg)
	got, ok := managers[mgr]
	if wantSet.Empty() {
		if ok {
			o.Fail("C05", "apply/empty-record-remains", "", "apply/empty-record-remains "+op, op)
		}
	} else if !ok || !got.Set().Equals(wantSet) || !got.Applied() || got.APIVersion() != ver {
		o.Fail("C05", "apply/owner-owns-exactly-config", "", "apply/owner-owns-exactly-config "+op, op)
	}
	cmp, err := st.live.Compare(result)
	if err == nil {
		judgeOthers(o, op, ig, cmp, pre, managers, mgr)
		// C03: fields the manager stops applying are removed
		if last, had := pre[mgr]; had && ig.kind == "none" {
			last.Set().Difference(fsCfg).Iterate(func(p fieldpath.Path) {
				for m, vs := range pre {
					if m != mgr && vs.Set().Has(p) {
						return // owned by someone else: stays
					}
					// a named (struct) field stays while another manager owns something beneath it:
					// ownership of a sub-field implies the named parents (EnsureNamedFieldsAreMembers)
					if m != mgr && p[len(p)-1].FieldName != nil && anyBeneath(p, vs.Set()) {
						return
					}
				}
				if ig.kind != "none" {
					return // ignored fields are outside this clause
				}
				// (a configuration leaf above p — an atomic or scalar value given to an ancestor — replaces what
				// is beneath it; an item or field of the configuration above p does not exempt p)
				if anyBeneath(p, fsRes) && !beneathAny(p, fsCfg.Leaves()) && !anyBeneath(p, fsCfg) {
					// still present although abandoned and unowned
					o.Fail("C03", "abandoned-field-removed", "still present: "+vx.Path(p), "abandoned-field-removed "+op, op)
				}
				for m, vs := range managers {
					if vs.Set().Has(p) && m == mgr {
						o.Fail("C03", "abandoned-field-leaves-record", vx.Path(p), "abandoned-field-leaves-record "+op, op)
					}
				}
			})
		} else if !had && !cmp.Removed.Empty() && sameRootKind(st.live, result) {
			// first apply removes nothing (except beneath a kind change, which shows as Modified above it)
			bad := false
			cmp.Removed.Iterate(func(p fieldpath.Path) {
				if !beneathAny(p, cmp.Modified) && !beneathAny(p, fsCfg) {
					bad = true
				}
			})
			if bad {
				o.Fail("C03", "first-apply-removes-nothing", cmp.Removed.String(), "first-apply-removes-nothing "+op, op)
			}
		}
		// C02 (frame, necessary conditions): additions and changes lie at, beneath or above configuration fields
		if plain && ig.kind == "none" {
			cmp.Added.Union(cmp.Modified).Iterate(func(p fieldpath.Path) {
				if !beneathAny(p, fsCfg) && !anyBeneath(p, fsCfg) {
					o.Fail("C02", "adds-or-changes-only-config-fields", vx.Path(p), "adds-or-changes-only-config-fields "+op, op)
				}
			})
			if last, had := pre[mgr]; had {
				lastEN := last.Set().EnsureNamedFieldsAreMembers(c.sc, cfg.TypeRef())
				cmp.Removed.Iterate(func(p fieldpath.Path) {
					if !beneathAny(p, lastEN) && !beneathAny(p, fsCfg) && !anyBeneath(p, fsCfg) && !beneathAny(p, cmp.Modified) {
						o.Fail("C02", "removes-only-beneath-abandoned", vx.Path(p), "removes-only-beneath-abandoned "+op, op)
					}
				})
			}
		}
	}
	// C07: exact no-op signal, re-apply is a fixed point (these clauses compare separate calls with
	// each other: not meaningful where finding D10 makes a single call's outcome order dependent)
	if !noopMode && orderDependentVersions(pre, mgr, ver) < 2 && orderDependentVersions(managers, mgr, ver) < 2 {
		// independent equality: canonical encodings (numerically equal ints/floats coincide)
		eq := vx.CanonValue(st.live.AsValue()) == vx.CanonValue(result.AsValue())
		if wasNoop {
			// nothing was returned: obtain the resulting object from the same request with ReturnInputOnNoop
			exposing := ig.updaterWith(true, st.conv)
			if o2, _, err2 := exposing.Apply(st.live, cfg, ver, pre, mgr, false); err2 == nil && o2 != nil {
				eq = vx.CanonValue(st.live.AsValue()) == vx.CanonValue(o2.AsValue())
			} else if o2, _, err2 := exposing.Apply(st.live, cfg, ver, pre, mgr, true); err2 == nil && o2 != nil {
				eq = vx.CanonValue(st.live.AsValue()) == vx.CanonValue(o2.AsValue())
			}
		}
		if wasNoop != eq {
			o.Fail("C07", "noop-signal-exact", fmt.Sprintf("returned nil=%v, equal=%v", wasNoop, eq), "noop-signal-exact "+op, op)
		}
		if plain && ig.kind == "none" {
			again, m2, err := up.Apply(result, cfg, ver, managers, mgr, false)
			if err != nil {
				o.Fail("C07", "reapply-fixed-point/error", err.Error(), "reapply-fixed-point/error "+op, op)
			} else {
				if again != nil {
					o.Fail("C07", "reapply-fixed-point/object", "", "reapply-fixed-point/object "+op, op)
				}
				if !m2.Equals(managers) {
					o.Fail("C07", "reapply-fixed-point/ownership", "", "reapply-fixed-point/ownership "+op, op)
				}
			}
		}
	}
}

// judgeOthers: every other manager's record only shrinks, by exactly the fields the operation changed,
// created or removed; version and applied flag kept; no empty record remains (C05).
func judgeOthers(o *Out, op string, ig ignoreCfg, cmp *typed.Comparison, pre, post fieldpath.ManagedFields, mgr string) {
	for m, before := range pre {
		if m == mgr {
			continue
		}
		// what counts as changed for a record is decided by the configuration of the record's own version
		igm := ig.at(before.APIVersion())
		changed := applyFilter(igm, cmp.Modified.Union(cmp.Added))
		removed := applyFilter(igm, cmp.Removed)
		want := before.Set().Difference(before.Set().Intersection(changed)).Difference(removed)
		after, ok := post[m]
		if want.Empty() {
			if ok {
				o.Fail("C05", "others/empty-record-remains", m, "others/empty-record-remains "+op, op)
			}
			continue
		}
		if !ok || !after.Set().Equals(want) {
			o.Fail("C05", "others/lose-exactly-changed-fields", m, "others/lose-exactly-changed-fields "+op, op)
			continue
		}
		if after.APIVersion() != before.APIVersion() || after.Applied() != before.Applied() {
			o.Fail("C05", "others/keep-version-and-status", m, "others/keep-version-and-status "+op, op)
		}
	}
	for m, vs := range post {
		if vs.Set().Empty() {
			o.Fail("C05", "no-empty-record", m, "no-empty-record "+op, op)
		}
		if _, ok := pre[m]; !ok && m != mgr {
			o.Fail("C05", "no-new-manager", m, "no-new-manager "+op, op)
		}
	}
}

func judgeUpdate(o *Out, op string, c *typCtx, ig ignoreCfg, live, submitted, returned *typed.TypedValue, pre, post fieldpath.ManagedFields, mgr string, ver fieldpath.APIVersion) {
	if degradedNow {
		return
	}
	if returned != submitted && !value.Equals(returned.AsValue(), submitted.AsValue()) {
		o.Fail("C05", "update/returns-submitted-object", "", "update/returns-submitted-object "+op, op)
	}
	cmp, err := live.Compare(submitted)
	if err != nil {
		return
	}
	judgeOthers(o, op, ig, cmp, pre, post, mgr)
	old := fieldpath.NewSet()
	if b, ok := pre[mgr]; ok {
		old = b.Set()
	}
	f := func(s *fieldpath.Set) *fieldpath.Set { return applyFilter(ig, s) }
	want := f(old.Difference(f(cmp.Removed)).Union(f(cmp.Modified)).Union(f(cmp.Added)))
	got, ok := post[mgr]
	if want.Empty() {
		if ok {
			o.Fail("C05", "update/empty-record-remains", "", "update/empty-record-remains "+op, op)
		}
		return
	}
	if !ok || !got.Set().Equals(want) || got.Applied() || got.APIVersion() != ver {
		o.Fail("C05", "update/owner-record-exact", "", "update/owner-record-exact "+op, op)
	}
}

// judgeInvariant: C06 (+ C19 first clause) on the state after a step.
func judgeInvariant(o *Out, op string, c *typCtx, tr schema.TypeRef, st *updState) {
	judgeInvariantIg(o, op, c, tr, st, "none", "", false)
}

func judgeInvariantIg(o *Out, op string, c *typCtx, tr schema.TypeRef, st *updState, igKind string, actor string, actorHadRecord bool) {
	if _, err := typed.AsTyped(st.live.AsValue(), c.sc, tr, typed.AllowDuplicates); err != nil {
		if igKind == "none" {
			o.Fail("C06", "live-object-valid", err.Error(), "live-object-valid "+op, op)
		} else {
			sig := "live-object-valid-under-ignore "
			if actorHadRecord || st.tainted {
				sig = "live-object-valid-under-ignore/D8-prune-under-ignore-configuration "
				st.tainted = true
			}
			o.Fail("C19", "live-object-valid-under-ignore", err.Error(), sig+op, op)
		}
		return
	}
	u := st.live.AsValue().Unstructured()
	for m, vs := range st.managers {
		vs.Set().Iterate(func(p fieldpath.Path) {
			if !present(c.sc, tr, u, p) {
				if igKind == "none" {
					sig := "owned-field-present "
					if st.prevLive != nil {
						// finding D17: the node was there before this step and held an empty list somewhere: field
						// sets do not show empty lists, so the add-back of dangling items took the node for emptied
						if x, ok := nodeAt(c.sc, tr, st.prevLive.AsValue().Unstructured(), p); ok && holdsEmptyList(x) {
							sig = "owned-field-present/D17-empty-list-invisible "
							if st.d17 == nil {
								st.d17 = map[string]bool{}
							}
							st.d17[m+"|"+vx.Path(p)] = true
						}
					}
					if st.d17[m+"|"+vx.Path(p)] {
						sig = "owned-field-present/D17-empty-list-invisible "
					}
					o.Fail("C06", "owned-field-present", m+" owns "+vx.Path(p), sig+op, op)
				} else {
					sig := "ownership-consistent-under-ignore "
					if actorHadRecord || st.tainted {
						sig = "ownership-consistent-under-ignore/D8-prune-under-ignore-configuration "
						st.tainted = true
					}
					o.Fail("C19", "ownership-consistent-under-ignore", m+" owns "+vx.Path(p), sig+op, op)
				}
			}
		})
	}
}

// holdsEmptyList: an empty list occurs in v (at any depth).
func holdsEmptyList(v interface{}) bool {
	switch t := v.(type) {
	case []interface{}:
		if len(t) == 0 {
			return true
		}
		for _, x := range t {
			if holdsEmptyList(x) {
				return true
			}
		}
	case map[string]interface{}:
		for _, x := range t {
			if holdsEmptyList(x) {
				return true
			}
		}
	}
	return false
}

func judgeIgnored(o *Out, op string, ig ignoreCfg, managers fieldpath.ManagedFields) {
	if ig.kind == "none" {
		return
	}
	for m, vs := range managers {
		if !applyFilter(ig.at(vs.APIVersion()), vs.Set()).Equals(vs.Set()) {
			o.Fail("C19", "never-owns-ignored", m, "never-owns-ignored "+op, op)
		}
	}
}

func sameRootKind(a, b *typed.TypedValue) bool {
	x, y := a.AsValue(), b.AsValue()
	return x.IsMap() == y.IsMap() && x.IsList() == y.IsList()
}

// present is the independent path resolver of C06: does p designate something in the unstructured
// object u of type tr?  (fields by key, keyed items by their key fields incl. schema defaults, set
// members by value, indexes by position; the empty path is the object itself.)
func nodeAt(sc *schema.Schema, tr schema.TypeRef, u interface{}, p fieldpath.Path) (interface{}, bool) {
	if len(p) == 0 {
		return u, true
	}
	atom, ok := sc.Resolve(tr)
	if !ok {
		return nil, false
	}
	pe := p[0]
	switch t := u.(type) {
	case map[string]interface{}:
		if pe.FieldName == nil || atom.Map == nil {
			return nil, false
		}
		child, ok := t[*pe.FieldName]
		if !ok {
			return nil, false
		}
		ft := atom.Map.ElementType
		if sf, ok := atom.Map.FindField(*pe.FieldName); ok {
			ft = sf.Type
		}
		return nodeAt(sc, ft, child, p[1:])
	case []interface{}:
		if atom.List == nil {
			return nil, false
		}
		for i, item := range t {
			match := false
			switch {
			case pe.Index != nil:
				match = i == *pe.Index
			case pe.Value != nil:
				switch item.(type) {
				case map[string]interface{}, []interface{}, nil:
				default:
					match = value.Equals(*pe.Value, value.NewValueInterface(item))
				}
			case pe.Key != nil:
				im, isMap := item.(map[string]interface{})
				if !isMap {
					break
				}
				match = true
				for _, kf := range *pe.Key {
					got, has := im[kf.Name]
					if !has {
						// defaulted key
						ea, ok := sc.Resolve(atom.List.ElementType)
						if !ok || ea.Map == nil {
							match = false
							break
						}
						sf, _ := ea.Map.FindField(kf.Name)
						if sf.Default == nil {
							match = false
							break
						}
						got = sf.Default
					}
					if !value.Equals(kf.Value, value.NewValueInterface(got)) {
						match = false
						break
					}
				}
			}
			if match {
				if x, ok := nodeAt(sc, atom.List.ElementType, item, p[1:]); ok {
					return x, true
				}
			}
		}
		return nil, false
	}
	return nil, false
}

func present(sc *schema.Schema, tr schema.TypeRef, u interface{}, p fieldpath.Path) bool {
	_, ok := nodeAt(sc, tr, u, p)
	return ok
}
