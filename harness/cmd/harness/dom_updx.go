package main

import (
	"fmt"
	"strings"

	"sigs.k8s.io/structured-merge-diff/v6/fieldpath"
	"sigs.k8s.io/structured-merge-diff/v6/typed"
	"sigs.k8s.io/structured-merge-diff/v6/value"

	"verifharness/internal/gen"
	"verifharness/internal/vx"
)

// Domain updx: EVERY history up to a bounded length over a small fixed universe (one schema with a
// struct, an atomic struct, a set and a keyed list whose items hold a set; eight objects; appliers a1
// (unforced, v1) and a2 (forced, v2), updater u1 (v1), and a1 switching to v2): all interleavings, re-applies, omissions and
// co-ownerships of that universe, each step compared with the model and judged like the upd domain.
// -n bounds the number of histories (enumeration order: by length, then lexicographic).

func init() {
	register("updx", []string{"C01", "C02", "C03", "C04", "C05", "C06", "C07", "C19", "C20"},
		"exhaustive: every history of 1..L steps (L = 3 quick, 4 thorough; cut at -n histories) over 32 step kinds = {a1 applies unforced at v1, a1 applies unforced at v2, a2 applies forced at v2, u1 updates at v1} x 8 objects of one fixed schema (struct, atomic struct, set, keyed list with nested set); identity converter, no ignore configuration; non-trivial = histories of length >= 2; distinct by step sequence",
		domUpdx)
}

const updxSchema = `types:
- name: root
  map:
    fields:
    - name: f1
      type: {namedType: pt}
    - name: at
      type: {namedType: apt}
    - name: s
      type:
        list:
          elementRelationship: associative
          elementType: {scalar: numeric}
    - name: l
      type:
        list:
          elementRelationship: associative
          keys: ["name"]
          elementType: {namedType: item}
- name: pt
  map:
    fields:
    - name: "x"
      type: {scalar: numeric}
    - name: "y"
      type: {scalar: numeric}
- name: apt
  map:
    elementRelationship: atomic
    fields:
    - name: "x"
      type: {scalar: numeric}
    - name: "y"
      type: {scalar: numeric}
- name: num
  scalar: numeric
- name: numSet
  list:
    elementRelationship: associative
    elementType: {scalar: numeric}
- name: atomicMap
  map:
    elementRelationship: atomic
    elementType: {scalar: untyped}
- name: item
  map:
    fields:
    - name: name
      type: {scalar: string}
    - name: sub
      type:
        list:
          elementRelationship: associative
          elementType: {scalar: numeric}
`

func updxObjects() []interface{} {
	m := func(kv ...interface{}) map[string]interface{} {
		out := map[string]interface{}{}
		for i := 0; i+1 < len(kv); i += 2 {
			out[kv[i].(string)] = kv[i+1]
		}
		return out
	}
	l := func(xs ...interface{}) []interface{} { return xs }
	return []interface{}{
		m(),
		m("f1", m("x", int64(1))),
		m("f1", m("x", int64(2), "y", int64(1)), "s", l(int64(1))),
		m("at", m("x", int64(1)), "s", l(int64(1), int64(2))),
		m("at", m("y", int64(2))),
		m("l", l(m("name", "a"))),
		m("l", l(m("name", "a", "sub", l(int64(1))), m("name", "b"))),
		m("l", l(m("name", "b", "sub", l(int64(1), int64(2))), m("name", "a", "sub", l(int64(2)))), "f1", m("y", int64(1))),
	}
}

func domUpdx(r *gen.Rng, n int, thorough bool, o *Out) {
	p, err := typed.NewParser(typed.YAMLObject(updxSchema))
	if err != nil {
		panic("updx schema rejected: " + err.Error())
	}
	c := &typCtx{parser: p, sc: &p.Schema}
	o.Emit("typ.schema "+vx.Schema(&p.Schema), func() string { return fmt.Sprintf("ok types=%d", len(p.Schema.Types)) })
	rootName := "root"
	tr := p.Type(rootName).TypeRef
	objs := updxObjects()
	type kind struct {
		tag   string
		mgr   string
		ver   fieldpath.APIVersion
		upd   bool
		force bool
	}
	kinds := []kind{{"A", "a1", "v1", false, false}, {"F", "a2", "v2", false, true}, {"U", "u1", "v1", true, false}, {"S", "a1", "v2", false, false}}
	nk := len(kinds) * len(objs)
	maxLen := 3
	if thorough {
		maxLen = 4
	}
	ig := ignoreCfg{enc: "n", kind: "none"}
	done := 0
	for length := 1; length <= maxLen && done < n; length++ {
		total := 1
		for i := 0; i < length; i++ {
			total *= nk
		}
		for code := 0; code < total && done < n; code++ {
			conv := sameVersionConverter{missing: map[fieldpath.APIVersion]bool{}, failing: map[fieldpath.APIVersion]bool{}}
			up := ig.updaterWith(false, conv)
			o.Emit("upd.reset "+vx.TypeRef(tr)+" "+ig.enc+" "+vx.Flag(false), func() string { return "ok" })
			live, err := typed.AsTyped(value.NewValueInterface(nil), c.sc, tr)
			if err != nil {
				panic(err)
			}
			st := &updState{live: live, managers: fieldpath.ManagedFields{}, conv: conv, rng: r.Fork(uint64(done))}
			failuresBefore := len(o.Failures)
			var rec []updStep
			x := code
			transcript := ""
			for s := 0; s < length; s++ {
				k := kinds[(x%nk)/len(objs)]
				obj := gen.DeepCopy(objs[x%len(objs)])
				x /= nk
				var res string
				if k.upd {
					rec = append(rec, updStep{kind: "update", mgr: k.mgr, ver: k.ver, obj: obj})
					res = stepUpdate(o, c, up, ig, st, tr, k.mgr, k.ver, obj)
				} else {
					rec = append(rec, updStep{kind: "apply", mgr: k.mgr, ver: k.ver, force: k.force, obj: obj, plain: false})
					res = stepApply(o, c, up, ig, st, tr, k.mgr, k.ver, k.force, obj, false, false)
				}
				if strings.HasPrefix(res, "ok") {
					emitSync(o, st)
				}
				transcript += k.tag + res[:1]
			}
			if len(o.Failures) > failuresBefore && failuresBefore < 12 {
				minimizeHistory(o, failuresBefore, c, ig, false, tr, rec)
			}
			o.Cases++
			done++
			o.Tag(fmt.Sprintf("updx:len=%d", length))
			o.Tag("updx:" + transcript)
			if length >= 2 {
				o.Nontrivial(fmt.Sprint(length, ":", code))
			}
		}
	}
}
