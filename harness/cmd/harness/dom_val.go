package main

import (
	"fmt"
	"math/big"

	"sigs.k8s.io/structured-merge-diff/v6/fieldpath"
	"sigs.k8s.io/structured-merge-diff/v6/value"

	"verifharness/internal/gen"
	"verifharness/internal/vx"
)

func init() {
	register("val", []string{"C17", "C18", "C09"},
		"pairs/triples of unstructured values (universe of boundary scalars, twins 1/1.0/±0, nested lists and maps sharing prefixes; second and third operand are single-point mutations of the first half of the time); each pair evaluated in all 3x3 Go representations; non-trivial = operands differ in kind or both are containers; distinct by op line",
		domVal)
	register("pe", []string{"C17"},
		"pairs/triples of path elements, matchers and paths over a universe with all four kinds and int/float twins; shuffled insertion sequences (len<=12) into PathElementSet / PathElementMap with probes; distinct by op line",
		domPE)
}

type cmpAns struct {
	c    int
	e, l bool
}

func (a cmpAns) String() string {
	return "c=" + vx.Sign(a.c) + " e=" + vx.Bool(a.e) + " l=" + vx.Bool(a.l)
}

func sign(c int) int {
	if c < 0 {
		return -1
	}
	if c > 0 {
		return 1
	}
	return 0
}

// lawsTriple checks the order/equality laws of C17 on the implementation's own answers.
func lawsTriple(o *Out, carrier string, ab, ba, bc, ac, aa cmpAns, ops ...string) {
	fail := func(clause, detail string) {
		o.Fail("C17", carrier+"/"+clause, detail, carrier+"/"+clause+" "+ops[0], ops...)
	}
	if (sign(ab.c) == 0) != ab.e {
		fail("compare-zero-iff-equals", fmt.Sprintf("compare=%d equals=%v", ab.c, ab.e))
	}
	if sign(ab.c) != -sign(ba.c) {
		fail("antisymmetry", fmt.Sprintf("compare(a,b)=%d compare(b,a)=%d", ab.c, ba.c))
	}
	if ab.l != (ab.c < 0) {
		fail("less-iff-negative", fmt.Sprintf("less=%v compare=%d", ab.l, ab.c))
	}
	if ab.e != ba.e {
		fail("equals-symmetric", "")
	}
	if !aa.e || aa.c != 0 {
		fail("reflexive", fmt.Sprintf("equals(a,a)=%v compare(a,a)=%d", aa.e, aa.c))
	}
	if ab.c <= 0 && bc.c <= 0 && ac.c > 0 {
		fail("transitivity", fmt.Sprintf("a<=b, b<=c but compare(a,c)=%d", ac.c))
	}
	if ab.c == 0 && sign(bc.c) != sign(ac.c) {
		fail("congruence", "a~b but compare(a,c) != compare(b,c)")
	}
}

func valAns(a, b value.Value) cmpAns {
	return cmpAns{value.Compare(a, b), value.Equals(a, b), value.Less(a, b)}
}

// exact numeric comparison of two unstructured numbers, independent of the library
func numCmp(a, b interface{}) (int, bool) {
	ra, ok1 := toRat(a)
	rb, ok2 := toRat(b)
	if !ok1 || !ok2 {
		return 0, false
	}
	return ra.Cmp(rb), true
}

func toRat(v interface{}) (*big.Rat, bool) {
	switch t := v.(type) {
	case int64:
		return new(big.Rat).SetInt64(t), true
	case float64:
		r := new(big.Rat)
		if r.SetFloat64(t) == nil {
			return nil, false
		}
		return r, true
	}
	return nil, false
}

func kindOf(v interface{}) string {
	switch v.(type) {
	case nil:
		return "null"
	case bool:
		return "bool"
	case int64:
		return "int"
	case float64:
		return "float"
	case string:
		return "string"
	case []interface{}:
		return "list"
	case map[string]interface{}:
		return "map"
	}
	return "?"
}

func valTriple(r *gen.Rng, o *Out, a, b, c interface{}) {
	opAB := "val.cmp " + vx.Unstructured(a) + " " + vx.Unstructured(b)
	var ans [5]cmpAns
	pairs := [5][2]interface{}{{a, b}, {b, a}, {b, c}, {a, c}, {a, a}}
	ops := make([]string, 5)
	for i, p := range pairs {
		x, y := p[0], p[1]
		ops[i] = "val.cmp " + vx.Unstructured(x) + " " + vx.Unstructured(y)
		o.Emit(ops[i], func() string {
			ans[i] = valAns(gen.Rep(x, 0), gen.Rep(y, 0))
			// every representation must give the same answer (C18 / C17 "in every representation")
			for ra := 0; ra < gen.NumReps; ra++ {
				for rb := 0; rb < gen.NumReps; rb++ {
					if ra == 0 && rb == 0 {
						continue
					}
					got := valAns(gen.Rep(x, ra), gen.Rep(y, rb))
					if got != ans[i] {
						o.Fail("C18", "value/representation-independence",
							fmt.Sprintf("reps (%d,%d) give %v, unstructured gives %v", ra, rb, got, ans[i]),
							"value/representation-independence "+ops[i], ops[i])
					}
				}
			}
			return ans[i].String()
		})
	}
	lawsTriple(o, "value", ans[0], ans[1], ans[2], ans[3], ans[4], ops...)
	if n, ok := numCmp(a, b); ok && n != sign(ans[0].c) {
		o.Fail("C17", "value/numeric", fmt.Sprintf("exact order %d, compare %d", n, ans[0].c), "value/numeric "+opAB, opAB)
	}
	ka, kb := kindOf(a), kindOf(b)
	o.Tag("val:" + ka + "/" + kb)
	if ka != kb || ka == "list" || ka == "map" {
		o.Nontrivial(opAB)
	}
}

func domVal(r *gen.Rng, n int, thorough bool, o *Out) {
	// fixed universe first: all pairs (quick) / all triples (thorough)
	univ := valueUniverse()
	if thorough {
		for _, a := range univ {
			for _, b := range univ {
				for _, c := range univ {
					valTriple(r, o, a, b, c)
					o.Cases++
				}
			}
		}
	} else {
		for _, a := range univ {
			for _, b := range univ {
				valTriple(r, o, a, b, gen.Pick(r, univ))
				o.Cases++
			}
		}
	}
	for i := 0; i < n; i++ {
		cr := r.Fork(uint64(i))
		a := gen.Unstructured(cr, 3)
		var b, c interface{}
		if cr.Bool() {
			b = gen.Mutate(cr, a, 2)
		} else {
			b = gen.Unstructured(cr, 3)
		}
		if cr.Bool() {
			c = gen.Mutate(cr, b, 2)
		} else {
			c = gen.Unstructured(cr, 2)
		}
		valTriple(cr, o, a, b, c)
		o.Cases++
	}
	// key lists (FieldList)
	for i := 0; i < n/2; i++ {
		cr := r.Fork(uint64(1_000_000 + i))
		a, b, c := gen.KeyFields(cr), gen.KeyFields(cr), gen.KeyFields(cr)
		if cr.Chance(30) {
			b = append(value.FieldList(nil), a...)
		}
		flTriple(o, a, b, c)
		o.Cases++
	}
}

func flAns(a, b value.FieldList) cmpAns {
	return cmpAns{a.Compare(b), a.Equals(b), a.Less(b)}
}

func flTriple(o *Out, a, b, c value.FieldList) {
	var ans [5]cmpAns
	pairs := [5][2]value.FieldList{{a, b}, {b, a}, {b, c}, {a, c}, {a, a}}
	ops := make([]string, 5)
	for i, p := range pairs {
		x, y := p[0], p[1]
		ops[i] = "fl.cmp " + vx.FieldList(x) + " " + vx.FieldList(y)
		o.Emit(ops[i], func() string { ans[i] = flAns(x, y); return ans[i].String() })
	}
	lawsTriple(o, "fieldlist", ans[0], ans[1], ans[2], ans[3], ans[4], ops...)
	o.Tag("fl")
	o.Nontrivial(ops[0])
}

func valueUniverse() []interface{} {
	m := func(kv ...interface{}) map[string]interface{} {
		out := map[string]interface{}{}
		for i := 0; i+1 < len(kv); i += 2 {
			out[kv[i].(string)] = kv[i+1]
		}
		return out
	}
	l := func(xs ...interface{}) []interface{} { return append([]interface{}{}, xs...) }
	negz := gen.Floats[1]
	return []interface{}{
		nil, true, false,
		int64(0), int64(1), int64(-1), int64(2), int64(1 << 53), int64(-(1 << 53)), int64(1<<53 - 1),
		0.0, negz, 1.0, -1.0, 1.5, 0.5, 2.0, float64(1 << 53), float64(1<<53 - 1), 1e300, 5e-324,
		"", "a", "ab", "b", "é",
		l(), l(int64(1)), l(1.0), l(int64(1), int64(2)), l(int64(1), "a"), l(nil), l(l()), l(int64(2)),
		m(), m("a", int64(1)), m("a", 1.0), m("a", int64(2)), m("b", int64(1)), m("a", int64(1), "b", int64(1)),
		m("a", nil), m("a", m()), m("a", int64(1), "c", int64(1)), m("ab", int64(0)),
		m("b", nil), m("a", int64(1), "b", nil), m("a", int64(1), "c", nil), m("a", nil, "b", nil),
	}
}

// ---------------------------------------------------------------------------------------------

func peAns(a, b fieldpath.PathElement) cmpAns {
	return cmpAns{a.Compare(b), a.Equals(b), a.Less(b)}
}

func peTriple(o *Out, a, b, c fieldpath.PathElement) {
	var ans [5]cmpAns
	pairs := [5][2]fieldpath.PathElement{{a, b}, {b, a}, {b, c}, {a, c}, {a, a}}
	ops := make([]string, 5)
	for i, p := range pairs {
		x, y := p[0], p[1]
		ops[i] = "pe.cmp " + vx.PE(x) + " " + vx.PE(y)
		o.Emit(ops[i], func() string { ans[i] = peAns(x, y); return ans[i].String() })
	}
	lawsTriple(o, "pathelement", ans[0], ans[1], ans[2], ans[3], ans[4], ops...)
	o.Tag("pe:" + vx.PE(a)[:1] + "/" + vx.PE(b)[:1])
	o.Nontrivial(ops[0])
}

func encMatcher(m fieldpath.PathElementMatcher) string {
	if m.Wildcard {
		return "mT" + vx.PE(m.PathElement)
	}
	return "mF" + vx.PE(m.PathElement)
}

func pemAns(a, b fieldpath.PathElementMatcher) cmpAns {
	return cmpAns{a.Compare(b), a.Equals(b), a.Less(b)}
}

func pemTriple(o *Out, a, b, c fieldpath.PathElementMatcher) {
	var ans [5]cmpAns
	pairs := [5][2]fieldpath.PathElementMatcher{{a, b}, {b, a}, {b, c}, {a, c}, {a, a}}
	ops := make([]string, 5)
	for i, p := range pairs {
		x, y := p[0], p[1]
		ops[i] = "pem.cmp " + encMatcher(x) + " " + encMatcher(y)
		o.Emit(ops[i], func() string { ans[i] = pemAns(x, y); return ans[i].String() })
	}
	lawsTriple(o, "matcher", ans[0], ans[1], ans[2], ans[3], ans[4], ops...)
	o.Tag("pem")
	o.Nontrivial(ops[0])
}

func pathAns(a, b fieldpath.Path) cmpAns {
	c := a.Compare(b)
	return cmpAns{c, a.Equals(b), c < 0}
}

func pathTriple(o *Out, a, b, c fieldpath.Path) {
	var ans [5]cmpAns
	pairs := [5][2]fieldpath.Path{{a, b}, {b, a}, {b, c}, {a, c}, {a, a}}
	ops := make([]string, 5)
	for i, p := range pairs {
		x, y := p[0], p[1]
		ops[i] = "path.cmp " + vx.Path(x) + " " + vx.Path(y)
		o.Emit(ops[i], func() string {
			ans[i] = pathAns(x, y)
			return "c=" + vx.Sign(ans[i].c) + " e=" + vx.Bool(ans[i].e)
		})
	}
	lawsTriple(o, "path", ans[0], ans[1], ans[2], ans[3], ans[4], ops...)
	o.Tag("path")
	o.Nontrivial(ops[0])
}

func domPE(r *gen.Rng, n int, thorough bool, o *Out) {
	univ := gen.PEUniverse()
	// all pairs (quick) or all triples (thorough) of the fixed universe
	for _, a := range univ {
		for _, b := range univ {
			if thorough {
				for _, c := range univ {
					peTriple(o, a, b, c)
					o.Cases++
				}
			} else {
				peTriple(o, a, b, gen.Pick(r, univ))
				o.Cases++
			}
		}
	}
	// matchers over a sub-universe, all triples
	var ms []fieldpath.PathElementMatcher
	ms = append(ms, fieldpath.MatchAnyPathElement())
	ms = append(ms, fieldpath.PathElementMatcher{Wildcard: true, PathElement: univ[0]})
	for _, pe := range []int{0, 1, 4, 6, 7, 9, 10, 15} {
		ms = append(ms, fieldpath.PathElementMatcher{PathElement: univ[pe]})
	}
	for _, a := range ms {
		for _, b := range ms {
			for _, c := range ms {
				pemTriple(o, a, b, c)
				o.Cases++
			}
		}
	}
	for i := 0; i < n; i++ {
		cr := r.Fork(uint64(i))
		a, b, c := gen.PathElement(cr), gen.PathElement(cr), gen.PathElement(cr)
		peTriple(o, a, b, c)
		pa, pb, pc := gen.PathFrom(cr, univ, 3), gen.PathFrom(cr, univ, 3), gen.PathFrom(cr, univ, 3)
		if cr.Chance(40) {
			pb = append(pa.Copy(), gen.Pick(cr, univ))
		}
		if cr.Chance(20) {
			pc = pa.Copy()
		}
		pathTriple(o, pa, pb, pc)
		o.Cases++
	}
	// sorted containers: shuffled insertion sequences, then probes
	for i := 0; i < n; i++ {
		cr := r.Fork(uint64(2_000_000 + i))
		k := 1 + cr.Intn(12)
		ins := make(fieldpath.Path, 0, k)
		for j := 0; j < k; j++ {
			if cr.Chance(70) {
				ins = append(ins, gen.Pick(cr, univ))
			} else {
				ins = append(ins, gen.PathElement(cr))
			}
		}
		probes := append(fieldpath.Path{}, univ...)
		op := "pes.build " + vx.Path(ins) + " " + vx.Path(probes)
		var members fieldpath.Path
		var has []bool
		o.Emit(op, func() string {
			s := fieldpath.MakePathElementSet(0)
			for _, pe := range ins {
				s.Insert(pe)
			}
			members = members[:0]
			s.Iterate(func(pe fieldpath.PathElement) { members = append(members, pe) })
			hs := ""
			has = has[:0]
			for _, pe := range probes {
				h := s.Has(pe)
				has = append(has, h)
				if h {
					hs += "1"
				} else {
					hs += "0"
				}
			}
			return vx.Path(members) + " size=" + fmt.Sprint(s.Size()) + " has=" + hs
		})
		// judge: Has(pe) iff some inserted element Equals pe; members strictly sorted
		for pi, pe := range probes {
			want := false
			for _, x := range ins {
				if x.Equals(pe) {
					want = true
				}
			}
			if pi < len(has) && has[pi] != want {
				o.Fail("C17", "container/has-iff-inserted", "probe "+vx.PE(pe), "container/has-iff-inserted "+op, op)
			}
		}
		for j := 1; j < len(members); j++ {
			if !members[j-1].Less(members[j]) {
				o.Fail("C17", "container/strictly-sorted", "", "container/strictly-sorted "+op, op)
			}
		}
		// insertion-order independence
		sh := gen.Shuffle(cr, []fieldpath.PathElement(ins))
		s1, s2 := fieldpath.MakePathElementSet(0), fieldpath.MakePathElementSet(0)
		for _, pe := range ins {
			s1.Insert(pe)
		}
		for _, pe := range sh {
			s2.Insert(pe)
		}
		if !s1.Equals(&s2) {
			o.Fail("C17", "container/order-independent", "", "container/order-independent "+op, op)
		}

		op2 := "pemap.build " + vx.Path(ins) + " " + vx.Path(probes)
		o.Emit(op2, func() string {
			m := fieldpath.MakePathElementMap(0)
			for idx, pe := range ins {
				m.Insert(pe, idx)
			}
			// the map has no iterator; dump through probes of the inserted keys in sorted order
			s := fieldpath.MakePathElementSet(0)
			for _, pe := range ins {
				s.Insert(pe)
			}
			out := ""
			s.Iterate(func(pe fieldpath.PathElement) {
				v, _ := m.Get(pe)
				out += vx.PE(pe) + "=" + fmt.Sprint(v) + ","
			})
			out += " get="
			for _, pe := range probes {
				v, ok := m.Get(pe)
				// judge: last value inserted under an equal key
				want, wok := -1, false
				for idx, x := range ins {
					if x.Equals(pe) {
						want, wok = idx, true
					}
				}
				if ok != wok || (ok && v.(int) != want) {
					o.Fail("C17", "container/map-returns-last-inserted", "probe "+vx.PE(pe), "container/map-returns-last-inserted "+op2, op2)
				}
				if ok {
					out += fmt.Sprint(v) + ","
				} else {
					out += "-,"
				}
			}
			return out
		})
		o.Tag("container")
		o.Nontrivial(op)
		o.Cases++
	}
}
