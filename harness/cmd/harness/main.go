// Command harness runs the real structured-merge-diff code (built from /repo's working tree) on
// generated operations and writes, per domain:
//
//	<out>/<domain>.ops    one operation per line (VX1), the input of the Lean driver
//	<out>/<domain>.impl   the implementation's canonical result, line for line
//	<out>/<domain>.json   statistics, samples and judge failures (property laws evaluated on the
//	                      implementation's own answers)
package main

import (
	"bufio"
	"encoding/json"
	"flag"
	"fmt"
	"os"
	"path/filepath"
	"sort"
	"strings"

	"verifharness/internal/gen"
)

// JudgeFailure is a concrete input on which a property, evaluated on the implementation, fails.
type JudgeFailure struct {
	Property string   `json:"property"`
	Clause   string   `json:"clause"`
	Detail   string   `json:"detail"`
	Ops      []string `json:"ops"`
	// History: for stateful domains, the schema line and every operation of the current history up to
	// and including the failing one (a self-contained replay for the driver and for a reader)
	History []string `json:"history,omitempty"`
	// Signature identifies the failure for known_findings.json (clause + canonical minimal input).
	Signature string `json:"signature"`
	// Minimized: for the histories of the upd domain, a shorter history (steps dropped greedily while the
	// same clause of the same property still fails, then cut after the failing step)
	Minimized []string `json:"minimized_history,omitempty"`
}

type Out struct {
	domain   string
	ops      *bufio.Writer
	impl     *bufio.Writer
	Lines    int                `json:"lines"`
	Cases    int                `json:"cases"`
	Dist     map[string]int     `json:"distribution"`
	Samples  []string           `json:"samples"`
	Failures []JudgeFailure     `json:"judge_failures"`
	Distinct map[string]struct{} `json:"-"`
	NDist    int                `json:"distinct_nontrivial"`
	Rule     string             `json:"rule"`
	Seed     uint64             `json:"seed"`
	schemaLine string
	history    []string
	Props    []string           `json:"serves"`
}

// Emit writes one op line and the implementation's answer, computed by f under recover.
func (o *Out) Emit(op string, f func() string) string {
	res := safe(f)
	if strings.ContainsAny(op, "\n\r") || strings.ContainsAny(res, "\n\r") {
		panic("harness: newline in protocol line: " + op)
	}
	switch {
	case strings.HasPrefix(op, "typ.schema "):
		o.schemaLine = op
		o.history = nil
	case strings.HasPrefix(op, "upd.reset "):
		o.history = []string{op}
	case strings.HasPrefix(op, "upd."):
		o.history = append(o.history, op)
	}
	o.ops.WriteString(op)
	o.ops.WriteByte('\n')
	o.impl.WriteString(res)
	o.impl.WriteByte('\n')
	o.Lines++
	if len(o.Samples) < 6 {
		o.Samples = append(o.Samples, op+"  =>  "+res)
	}
	return res
}

func safe(f func() string) (res string) {
	defer func() {
		if r := recover(); r != nil {
			res = "panic"
			lastPanic = fmt.Sprint(r)
			if debugPanic {
				fmt.Fprintln(os.Stderr, "panic:", lastPanic)
			}
		}
	}()
	return f()
}

var lastPanic string

func (o *Out) Tag(t string) { o.Dist[t]++ }

// Nontrivial records a case key; distinct keys are counted.
func (o *Out) Nontrivial(key string) {
	if _, ok := o.Distinct[key]; !ok {
		o.Distinct[key] = struct{}{}
	}
}

func (o *Out) Fail(prop, clause, detail, sig string, ops ...string) {
	// at most 12 failures are kept per clause, so that a frequent (possibly known) finding cannot crowd
	// out a different one; the distribution below counts all of them
	if o.Dist["judge-fail:"+prop+":"+clause] < 12 && len(o.Failures) < 600 {
		f := JudgeFailure{Property: prop, Clause: clause, Detail: detail, Ops: ops, Signature: sig}
		if len(o.history) > 0 && len(o.Failures) < 20 {
			f.History = append([]string{o.schemaLine}, o.history...)
			// the failing op is emitted after the judge ran: include it
			if len(ops) > 0 && (len(o.history) == 0 || o.history[len(o.history)-1] != ops[0]) {
				f.History = append(f.History, ops[0])
			}
		}
		o.Failures = append(o.Failures, f)
	}
	o.Dist["judge-fail:"+prop+":"+clause]++
}

type domainFn func(r *gen.Rng, n int, thorough bool, o *Out)

type domain struct {
	fn    domainFn
	props []string
	rule  string
}

var domains = map[string]domain{}

func register(name string, props []string, rule string, fn domainFn) {
	domains[name] = domain{fn: fn, props: props, rule: rule}
}

func main() {
	dom := flag.String("domain", "", "op domain (comma separated) or 'all'")
	seed := flag.Uint64("seed", 1, "seed")
	n := flag.Int("n", 1000, "number of generated cases per domain")
	out := flag.String("out", ".", "output directory")
	thorough := flag.Bool("thorough", false, "include the exhaustive small-universe enumerations")
	list := flag.Bool("list", false, "list domains")
	flag.Parse()
	if *isoChild != "" {
		isoChildMain()
		return
	}
	if *list {
		names := []string{}
		for k := range domains {
			names = append(names, k)
		}
		sort.Strings(names)
		for _, k := range names {
			fmt.Println(k, strings.Join(domains[k].props, ","))
		}
		return
	}
	var names []string
	if *dom == "all" {
		for k := range domains {
			names = append(names, k)
		}
		sort.Strings(names)
	} else {
		names = strings.Split(*dom, ",")
	}
	if err := os.MkdirAll(*out, 0o755); err != nil {
		fatal(err)
	}
	for _, name := range names {
		d, ok := domains[name]
		if !ok {
			fatal(fmt.Errorf("unknown domain %q", name))
		}
		runDomain(name, d, *seed, *n, *thorough, *out)
	}
}

func runDomain(name string, d domain, seed uint64, n int, thorough bool, dir string) {
	fo, err := os.Create(filepath.Join(dir, name+".ops"))
	if err != nil {
		fatal(err)
	}
	fi, err := os.Create(filepath.Join(dir, name+".impl"))
	if err != nil {
		fatal(err)
	}
	o := &Out{domain: name, ops: bufio.NewWriterSize(fo, 1<<20), impl: bufio.NewWriterSize(fi, 1<<20),
		Dist: map[string]int{}, Distinct: map[string]struct{}{}, Rule: d.rule, Seed: seed, Props: d.props}
	r := gen.New(seed ^ hashName(name))
	d.fn(r, n, thorough, o)
	o.ops.Flush()
	o.impl.Flush()
	fo.Close()
	fi.Close()
	o.NDist = len(o.Distinct)
	js, _ := json.MarshalIndent(o, "", " ")
	if err := os.WriteFile(filepath.Join(dir, name+".json"), js, 0o644); err != nil {
		fatal(err)
	}
}

func hashName(s string) uint64 {
	h := uint64(1469598103934665603)
	for i := 0; i < len(s); i++ {
		h ^= uint64(s[i])
		h *= 1099511628211
	}
	return h
}

func fatal(err error) {
	fmt.Fprintln(os.Stderr, "harness:", err)
	os.Exit(2)
}

func init() {
	if os.Getenv("VERIF_DEBUG_PANIC") != "" {
		debugPanic = true
	}
}

var debugPanic bool
