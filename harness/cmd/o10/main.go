// Command o10 replays observation O10 (DESIGN.md §8.2): re-applying a configuration that holds an empty
// map is not a fixed point (outside C07's quantifier: the configuration is not plain).
package main

import (
	"fmt"

	"sigs.k8s.io/structured-merge-diff/v6/fieldpath"
	"sigs.k8s.io/structured-merge-diff/v6/merge"
	"sigs.k8s.io/structured-merge-diff/v6/typed"
)

type same struct{}

func (same) Convert(o *typed.TypedValue, v fieldpath.APIVersion) (*typed.TypedValue, error) { return o, nil }
func (same) IsMissingVersionError(error) bool                                              { return false }

func main() {
	p, err := typed.NewParser(`types:
- name: root
  map:
    fields:
    - name: spec
      type: {namedType: spec}
- name: spec
  map:
    fields:
    - name: a
      type: {scalar: numeric}
    - name: b
      type:
        list:
          elementRelationship: associative
          elementType: {scalar: numeric}
`)
	if err != nil {
		panic(err)
	}
	up := (&merge.UpdaterBuilder{Converter: same{}}).BuildUpdater()
	tv := func(s string) *typed.TypedValue {
		v, err := p.Type("root").FromYAML(typed.YAMLObject(s))
		if err != nil {
			panic(err)
		}
		return v
	}
	live := tv(`{"spec": {"a": 1, "b": []}}`)
	m := fieldpath.ManagedFields{}
	cfg := tv(`{"spec": {}}`)
	for i := 1; i <= 2; i++ {
		obj, m2, err := up.Apply(live, cfg, "v1", m, "m", false)
		if err != nil {
			panic(err)
		}
		if obj != nil {
			live = obj
		}
		m = m2
		fmt.Printf("apply %d: returned object %v; live = %v; managed = %v\n", i, obj != nil, live.AsValue().Unstructured(), m)
	}
}
