module verifharness

go 1.19

require (
	sigs.k8s.io/structured-merge-diff/v6 v6.0.0
	sigs.k8s.io/yaml v1.4.0
)

require (
	github.com/json-iterator/go v1.1.12 // indirect
	github.com/modern-go/concurrent v0.0.0-20180306012644-bacd9c7ef1dd // indirect
	github.com/modern-go/reflect2 v1.0.2 // indirect
)

replace sigs.k8s.io/structured-merge-diff/v6 => /repo
