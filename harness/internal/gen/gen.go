// Package gen holds the deterministic generators. Every random choice derives from one splitmix64
// state, so (seed, index) replays a case exactly.
package gen

import (
	"math"
	"sort"

	"sigs.k8s.io/structured-merge-diff/v6/fieldpath"
	"sigs.k8s.io/structured-merge-diff/v6/value"
)

type Rng struct{ s uint64 }

func New(seed uint64) *Rng { return &Rng{s: seed*0x9E3779B97F4A7C15 + 0x1234567} }

func (r *Rng) Next() uint64 {
	r.s += 0x9E3779B97F4A7C15
	z := r.s
	z = (z ^ (z >> 30)) * 0xBF58476D1CE4E5B9
	z = (z ^ (z >> 27)) * 0x94D049BB133111EB
	return z ^ (z >> 31)
}

// Fork derives an independent stream (used per case so that cases are replayable by index).
func (r *Rng) Fork(i uint64) *Rng { return New(r.s ^ (i+1)*0xD6E8FEB86659FD93) }

func (r *Rng) Intn(n int) int {
	if n <= 0 {
		return 0
	}
	return int(r.Next() % uint64(n))
}
func (r *Rng) Bool() bool        { return r.Next()&1 == 1 }
func (r *Rng) Chance(p int) bool { return r.Intn(100) < p }

func Pick[T any](r *Rng, xs []T) T { return xs[r.Intn(len(xs))] }

func Shuffle[T any](r *Rng, xs []T) []T {
	out := append([]T(nil), xs...)
	for i := len(out) - 1; i > 0; i-- {
		j := r.Intn(i + 1)
		out[i], out[j] = out[j], out[i]
	}
	return out
}

// ---------------------------------------------------------------------------------------------
// scalar universes

var Strings = []string{"", "a", "ab", "b", "a b", "é", "日本", "z\"q", "b\\s", "t\tab", "\u0001c", "key", "name", "A", "aa"}

var Ints = []int64{0, 1, -1, 2, -2, 3, 7, 1 << 53, -(1 << 53), (1 << 53) - 1, 1<<53 - 2, 100, -100}

var Floats = []float64{0, math.Copysign(0, -1), 1, -1, 2, 0.5, -0.5, 1.5, 2.25, -2.75, 3, 7, 1 << 53, -(1 << 53), (1 << 53) - 1,
	100, 1e21, 1e-7, 1.0 / 1024, 4503599627370497.5, 1e300, 5e-324}

// Scalar returns a random unstructured scalar (never null).
func Scalar(r *Rng) interface{} {
	switch r.Intn(8) {
	case 0, 1:
		return Pick(r, Ints)
	case 2:
		return int64(r.Intn(9) - 4)
	case 3, 4:
		return Pick(r, Floats)
	case 5, 6:
		return Pick(r, Strings)
	default:
		return r.Bool()
	}
}

// SimpleScalar is a scalar without the extreme numbers (readable samples, exact JSON text).
func SimpleScalar(r *Rng) interface{} {
	switch r.Intn(6) {
	case 0, 1:
		return int64(r.Intn(5))
	case 2:
		return Pick(r, []float64{0, 1, 0.5, 1.5, 2, 2.25})
	case 3, 4:
		return Pick(r, []string{"a", "b", "c", "", "é"})
	default:
		return r.Bool()
	}
}

// Unstructured returns a random unstructured value of bounded depth.
func Unstructured(r *Rng, depth int) interface{} {
	k := r.Intn(10)
	if depth <= 0 && k >= 6 {
		k = r.Intn(6)
	}
	switch {
	case k == 0:
		return nil
	case k < 6:
		return Scalar(r)
	case k < 8:
		n := r.Intn(4)
		l := make([]interface{}, 0, n)
		for i := 0; i < n; i++ {
			l = append(l, Unstructured(r, depth-1))
		}
		return l
	default:
		n := r.Intn(4)
		m := map[string]interface{}{}
		for i := 0; i < n; i++ {
			m[Pick(r, Strings[:8])] = Unstructured(r, depth-1)
		}
		return m
	}
}

// Mutate returns a near copy of v: equal, or differing at one point (so that pairs share prefixes).
func Mutate(r *Rng, v interface{}, depth int) interface{} {
	if r.Chance(25) {
		return Twin(v)
	}
	switch t := v.(type) {
	case []interface{}:
		out := append([]interface{}(nil), t...)
		switch {
		case len(out) > 0 && r.Chance(60):
			i := r.Intn(len(out))
			out[i] = Mutate(r, out[i], depth-1)
		case r.Chance(50):
			out = append(out, Unstructured(r, depth-1))
		case len(out) > 0:
			out = out[:len(out)-1]
		}
		return out
	case map[string]interface{}:
		out := map[string]interface{}{}
		keys := make([]string, 0, len(t))
		for k, x := range t {
			out[k] = x
			keys = append(keys, k)
		}
		sort.Strings(keys)
		switch {
		case len(keys) > 0 && r.Chance(60):
			k := Pick(r, keys)
			out[k] = Mutate(r, out[k], depth-1)
		case r.Chance(50):
			out[Pick(r, Strings[:8])] = Unstructured(r, depth-1)
		case len(keys) > 0:
			delete(out, Pick(r, keys))
		}
		return out
	default:
		return Unstructured(r, depth)
	}
}

// Twin returns a value Equal to v but possibly with another numeric representation (1 vs 1.0, ±0).
func Twin(v interface{}) interface{} {
	switch t := v.(type) {
	case int64:
		if t > -(1<<53) && t < 1<<53 {
			return float64(t)
		}
		return t
	case float64:
		if t == math.Trunc(t) && math.Abs(t) < 1<<53 {
			return int64(t)
		}
		return t
	case []interface{}:
		out := make([]interface{}, len(t))
		for i := range t {
			out[i] = Twin(t[i])
		}
		return out
	case map[string]interface{}:
		out := map[string]interface{}{}
		for k, x := range t {
			out[k] = Twin(x)
		}
		return out
	}
	return v
}

// ---------------------------------------------------------------------------------------------
// representations

// Rep builds a value.Value for an unstructured value in representation rep:
// 0 = string-keyed unstructured, 1 = interface-keyed unstructured maps, 2 = reflection wrappers.
func Rep(v interface{}, rep int) value.Value {
	switch rep {
	case 1:
		return value.NewValueInterface(ifaceKeyed(v))
	case 2:
		// reflection needs a pointer to a concretely typed variable (one level of indirection)
		var rv value.Value
		var err error
		switch t := DeepCopy(v).(type) {
		case nil:
			rv, err = value.NewValueReflect(nil)
		case bool:
			rv, err = value.NewValueReflect(&t)
		case int64:
			rv, err = value.NewValueReflect(&t)
		case float64:
			rv, err = value.NewValueReflect(&t)
		case string:
			rv, err = value.NewValueReflect(&t)
		case []interface{}:
			rv, err = value.NewValueReflect(&t)
		case map[string]interface{}:
			rv, err = value.NewValueReflect(&t)
		default:
			panic("gen.Rep: unsupported")
		}
		if err != nil {
			panic(err)
		}
		return rv
	}
	return value.NewValueInterface(v)
}

const NumReps = 3

func ifaceKeyed(v interface{}) interface{} {
	switch t := v.(type) {
	case []interface{}:
		out := make([]interface{}, len(t))
		for i := range t {
			out[i] = ifaceKeyed(t[i])
		}
		return out
	case map[string]interface{}:
		out := map[interface{}]interface{}{}
		for k, x := range t {
			out[k] = ifaceKeyed(x)
		}
		return out
	}
	return v
}

func DeepCopy(v interface{}) interface{} {
	switch t := v.(type) {
	case []interface{}:
		out := make([]interface{}, len(t))
		for i := range t {
			out[i] = DeepCopy(t[i])
		}
		return out
	case map[string]interface{}:
		out := make(map[string]interface{}, len(t))
		for k, x := range t {
			out[k] = DeepCopy(x)
		}
		return out
	}
	return v
}

// ---------------------------------------------------------------------------------------------
// path elements, paths, sets

func KeyFields(r *Rng) value.FieldList {
	n := 1 + r.Intn(2)
	names := Shuffle(r, []string{"name", "key", "id", "a"})[:n]
	fl := value.FieldList{}
	for _, nm := range names {
		fl = append(fl, value.Field{Name: nm, Value: value.NewValueInterface(SimpleOrScalar(r))})
	}
	fl.Sort()
	return fl
}

func SimpleOrScalar(r *Rng) interface{} {
	if r.Chance(70) {
		return SimpleScalar(r)
	}
	return Scalar(r)
}

func PathElement(r *Rng) fieldpath.PathElement {
	switch r.Intn(7) {
	case 0, 1, 2:
		s := Pick(r, Strings)
		return fieldpath.PathElement{FieldName: &s}
	case 3:
		fl := KeyFields(r)
		return fieldpath.PathElement{Key: &fl}
	case 4, 5:
		v := value.NewValueInterface(SimpleOrScalar(r))
		return fieldpath.PathElement{Value: &v}
	default:
		i := r.Intn(4)
		return fieldpath.PathElement{Index: &i}
	}
}

// PEUniverse is a small fixed universe mixing all four kinds (incl. int/float twins).
func PEUniverse() []fieldpath.PathElement {
	s := func(x string) fieldpath.PathElement { return fieldpath.PathElement{FieldName: &x} }
	v := func(x interface{}) fieldpath.PathElement {
		vv := value.NewValueInterface(x)
		return fieldpath.PathElement{Value: &vv}
	}
	i := func(x int) fieldpath.PathElement { return fieldpath.PathElement{Index: &x} }
	k := func(nv ...interface{}) fieldpath.PathElement {
		return fieldpath.PathElement{Key: fieldpath.KeyByFields(nv...)}
	}
	return []fieldpath.PathElement{
		s("a"), s("b"), s(""), s("ab"),
		k("name", "x"), k("name", "y"), k("name", int64(1)), k("name", 1.0), k("id", int64(1), "name", "x"),
		v(int64(1)), v(1.0), v(int64(2)), v("a"), v(true), v(1.5),
		i(0), i(1), i(2),
	}
}

func PathFrom(r *Rng, univ []fieldpath.PathElement, maxLen int) fieldpath.Path {
	n := 1 + r.Intn(maxLen)
	p := make(fieldpath.Path, 0, n)
	for j := 0; j < n; j++ {
		p = append(p, Pick(r, univ))
	}
	return p
}

// PathSet draws n paths from a narrow universe so that prefixes and collisions are frequent.
func PathSet(r *Rng, univ []fieldpath.PathElement, n, maxLen int) []fieldpath.Path {
	out := make([]fieldpath.Path, 0, n)
	for j := 0; j < n; j++ {
		if len(out) > 0 && r.Chance(40) {
			// extend or truncate an existing path: creates member/child overlaps
			base := Pick(r, out)
			if r.Bool() && len(base) < maxLen {
				out = append(out, append(base.Copy(), Pick(r, univ)))
			} else if len(base) > 1 {
				out = append(out, base[:len(base)-1].Copy())
			} else {
				out = append(out, PathFrom(r, univ, maxLen))
			}
			continue
		}
		out = append(out, PathFrom(r, univ, maxLen))
	}
	return out
}
