// Package sgen generates schemas of the family named by the properties (structs, maps with element
// type, preserve-unknown structs, sets, keyed lists with one / two / defaulted keys, atomic
// lists / maps / structs, recursive named types, the deduced type, named vs inlined vs
// relationship-overriding references) together with type-directed values.
package sgen

import (
	"encoding/json"
	"fmt"
	"sort"

	"verifharness/internal/gen"
)

type Atom struct {
	Scalar string // "" = unset
	List   *List
	Map    *Map
}

type Ref struct {
	Named  string // "" = inlined
	Inline *Atom
	Rel    string // elementRelationship override ("" = none)
}

type List struct {
	Elem Ref
	Rel  string
	Keys []string
}

type Field struct {
	Name    string
	Type    Ref
	Default interface{}
}

type UnionField struct {
	FieldName          string
	DiscriminatorValue string
}

type Union struct {
	Discriminator string // "" = none
	Deduce        bool
	Fields        []UnionField
}

type Map struct {
	Fields []Field
	Elem   *Ref
	Rel    string
	Unions []Union
}

type TypeDef struct {
	Name string
	Atom Atom
}

type Schema struct {
	Types []TypeDef
	Root  string
}

// ---------------------------------------------------------------------------------------------
// rendering as a JSON document (a YAML subset, so typed.NewParser accepts it)

func (s *Schema) JSON() string {
	types := []interface{}{}
	for _, t := range s.Types {
		m := atomJSON(&t.Atom)
		m["name"] = t.Name
		types = append(types, m)
	}
	b, err := json.Marshal(map[string]interface{}{"types": types})
	if err != nil {
		panic(err)
	}
	return string(b)
}

func atomJSON(a *Atom) map[string]interface{} {
	m := map[string]interface{}{}
	if a.Scalar != "" {
		m["scalar"] = a.Scalar
	}
	if a.List != nil {
		l := map[string]interface{}{"elementType": refJSON(&a.List.Elem)}
		if a.List.Rel != "" {
			l["elementRelationship"] = a.List.Rel
		}
		if len(a.List.Keys) > 0 {
			l["keys"] = a.List.Keys
		}
		m["list"] = l
	}
	if a.Map != nil {
		mm := map[string]interface{}{}
		if len(a.Map.Fields) > 0 {
			fs := []interface{}{}
			for _, f := range a.Map.Fields {
				fj := map[string]interface{}{"name": f.Name, "type": refJSON(&f.Type)}
				if f.Default != nil {
					fj["default"] = f.Default
				}
				fs = append(fs, fj)
			}
			mm["fields"] = fs
		}
		if a.Map.Elem != nil {
			mm["elementType"] = refJSON(a.Map.Elem)
		}
		if a.Map.Rel != "" {
			mm["elementRelationship"] = a.Map.Rel
		}
		if len(a.Map.Unions) > 0 {
			us := []interface{}{}
			for _, u := range a.Map.Unions {
				uj := map[string]interface{}{}
				if u.Discriminator != "" {
					uj["discriminator"] = u.Discriminator
				}
				if u.Deduce {
					uj["deduceInvalidDiscriminator"] = true
				}
				fs := []interface{}{}
				for _, f := range u.Fields {
					fs = append(fs, map[string]interface{}{"fieldName": f.FieldName, "discriminatorValue": f.DiscriminatorValue})
				}
				if len(fs) > 0 {
					uj["fields"] = fs
				}
				us = append(us, uj)
			}
			mm["unions"] = us
		}
		m["map"] = mm
	}
	return m
}

func refJSON(r *Ref) map[string]interface{} {
	m := map[string]interface{}{}
	if r.Named != "" {
		m["namedType"] = r.Named
	} else if r.Inline != nil {
		m = atomJSON(r.Inline)
	}
	if r.Rel != "" {
		m["elementRelationship"] = r.Rel
	}
	return m
}

// ---------------------------------------------------------------------------------------------
// resolution (mirror of the documented semantics; used only to steer generation)

func (s *Schema) find(name string) *Atom {
	for i := len(s.Types) - 1; i >= 0; i-- {
		if s.Types[i].Name == name {
			return &s.Types[i].Atom
		}
	}
	return nil
}

// Resolve returns the atom a reference denotes, with the relationship override applied.
func (s *Schema) Resolve(r Ref) *Atom {
	var a *Atom
	if r.Named != "" {
		a = s.find(r.Named)
	} else {
		a = r.Inline
	}
	if a == nil {
		return nil
	}
	if r.Rel == "" {
		return a
	}
	c := *a
	switch {
	case c.Map != nil:
		m := *c.Map
		m.Rel = r.Rel
		c.Map = &m
	case c.List != nil:
		l := *c.List
		l.Rel = r.Rel
		c.List = &l
	default:
		return nil
	}
	return &c
}

// ---------------------------------------------------------------------------------------------
// schema generation

var fieldNames = []string{"a", "b", "c", "d", "e", "f"}

func named(n string) Ref { return Ref{Named: n} }

// Generate builds a random schema. Its root type is a struct whose fields cover the family.
func Generate(r *gen.Rng) *Schema {
	s := &Schema{Root: "root"}
	add := func(name string, a Atom) { s.Types = append(s.Types, TypeDef{Name: name, Atom: a}) }

	scalarKinds := []string{"numeric", "string", "boolean", "untyped"}
	add("num", Atom{Scalar: "numeric"})
	add("str", Atom{Scalar: "string"})
	add("bool", Atom{Scalar: "boolean"})
	add("any", Atom{Scalar: "untyped"})
	scalarRef := func() Ref {
		switch r.Intn(3) {
		case 0:
			return Ref{Inline: &Atom{Scalar: gen.Pick(r, scalarKinds)}}
		default:
			return named(gen.Pick(r, []string{"num", "str", "bool", "any"}))
		}
	}

	// leaf-ish structs
	pointMap := &Map{Fields: []Field{{Name: "x", Type: named("num")}, {Name: "y", Type: named("num")}}}
	if r.Chance(40) {
		u := Union{Deduce: r.Bool(), Fields: []UnionField{{"x", "X"}, {"y", "Y"}}}
		if r.Bool() {
			u.Discriminator = "kind"
		}
		pointMap.Unions = append(pointMap.Unions, u)
		if r.Chance(30) {
			pointMap.Unions = append(pointMap.Unions, Union{Fields: []UnionField{{"y", "other"}}})
		}
	}
	add("point", Atom{Map: pointMap})
	add("atomicPoint", Atom{Map: &Map{Fields: []Field{{Name: "x", Type: named("num")}, {Name: "y", Type: named("num")}}, Rel: "atomic"}})
	add("strMap", Atom{Map: &Map{Elem: &Ref{Named: "str"}}})
	add("atomicMap", Atom{Map: &Map{Elem: &Ref{Named: "any"}, Rel: "atomic"}})
	add("numSet", Atom{List: &List{Elem: named("num"), Rel: "associative"}})
	add("anySet", Atom{List: &List{Elem: named("any"), Rel: "associative"}})
	add("atomicList", Atom{List: &List{Elem: named("any"), Rel: "atomic"}})
	// lists nested in an atomic list (compared as one leaf, element by element, recursively)
	// a struct holding granular containers (an empty list in it is a node no field set shows)
	add("holder", Atom{Map: &Map{Fields: []Field{{Name: "v", Type: named("num")}, {Name: "members", Type: named("numSet")},
		{Name: "tags", Type: named("strMap")}, {Name: "inner", Type: named("point")}}}})
	add("numRow", Atom{List: &List{Elem: named("num"), Rel: "atomic"}})
	add("matrix", Atom{List: &List{Elem: named("numRow"), Rel: "atomic"}})

	// keyed list items
	itemFields := []Field{{Name: "name", Type: named("str")}, {Name: "value", Type: scalarRef()}}
	if r.Bool() {
		itemFields = append(itemFields, Field{Name: "sub", Type: named("numSet")})
	}
	if r.Bool() {
		itemFields = append(itemFields, Field{Name: "pt", Type: named(gen.Pick(r, []string{"point", "atomicPoint"}))})
	}
	add("item", Atom{Map: &Map{Fields: itemFields}})
	add("itemList", Atom{List: &List{Elem: named("item"), Rel: "associative", Keys: []string{"name"}}})
	add("item2", Atom{Map: &Map{Fields: []Field{
		{Name: "name", Type: named("str")}, {Name: "id", Type: named("num")},
		{Name: "value", Type: scalarRef()}, {Name: "nested", Type: named("itemList")}}}})
	add("item2List", Atom{List: &List{Elem: named("item2"), Rel: "associative", Keys: []string{"name", "id"}}})
	add("itemD", Atom{Map: &Map{Fields: []Field{
		{Name: "port", Type: named("num")}, {Name: "proto", Type: named("str"), Default: gen.Pick(r, []string{"TCP", "UDP", "SCTP"})},
		{Name: "value", Type: scalarRef()}}}})
	add("itemDList", Atom{List: &List{Elem: named("itemD"), Rel: "associative", Keys: []string{"port", "proto"}}})

	// recursive types
	add("tree", Atom{Map: &Map{Fields: []Field{
		{Name: "v", Type: scalarRef()}, {Name: "kids", Type: Ref{Inline: &Atom{List: &List{Elem: named("tree"), Rel: "atomic"}}}},
		{Name: "next", Type: named("tree")}, {Name: "byName", Type: Ref{Inline: &Atom{Map: &Map{Elem: &Ref{Named: "tree"}}}}}}}})

	// deduced
	add("__untyped_atomic_", Atom{Scalar: "untyped",
		List: &List{Elem: named("__untyped_atomic_"), Rel: "atomic"},
		Map:  &Map{Elem: &Ref{Named: "__untyped_atomic_"}, Rel: "atomic"}})
	add("__untyped_deduced_", Atom{Scalar: "untyped",
		List: &List{Elem: named("__untyped_atomic_"), Rel: "atomic"},
		Map:  &Map{Elem: &Ref{Named: "__untyped_deduced_"}, Rel: "separable"}})

	// preserve-unknown struct: fields plus an element type
	add("openStruct", Atom{Map: &Map{Fields: []Field{{Name: "known", Type: named("num")}, {Name: "pt", Type: named("point")}},
		Elem: &Ref{Named: "__untyped_deduced_"}}})

	// the root: a random selection of fields over the pool, with named / inlined / overriding references
	pool := []Ref{
		named("num"), named("str"), named("any"), scalarRef(),
		named("point"), named("atomicPoint"), named("strMap"), named("atomicMap"),
		named("numSet"), named("anySet"), named("atomicList"), named("matrix"), named("holder"), named("holder"),
		named("itemList"), named("item2List"), named("itemDList"),
		named("tree"), named("__untyped_deduced_"), named("openStruct"),
		// inlined equivalents
		{Inline: &Atom{List: &List{Elem: named("str"), Rel: "associative"}}},
		{Inline: &Atom{Map: &Map{Elem: &Ref{Named: "point"}}}},
		{Inline: &Atom{List: &List{Elem: named("item"), Rel: "associative", Keys: []string{"name"}}}},
		// relationship overrides: granular types made atomic at the reference and vice versa
		{Named: "point", Rel: "atomic"}, {Named: "itemList", Rel: "atomic"}, {Named: "strMap", Rel: "atomic"},
		{Named: "atomicPoint", Rel: "separable"}, {Named: "atomicList", Rel: "associative"},
		{Named: "numSet", Rel: "atomic"},
		// overrides on multi-member atoms (preserve-unknown-fields + map-type atomic): the map member is overridden
		{Named: "__untyped_deduced_", Rel: "atomic"}, {Named: "__untyped_atomic_", Rel: "separable"},
		// the same named types referenced with the *other* override (spelling out what the type says itself), so
		// that one schema can hold two references to one named type with different overrides
		{Named: "numSet", Rel: "associative"}, {Named: "atomicList", Rel: "atomic"}, {Named: "point", Rel: "separable"},
		{Named: "strMap", Rel: "separable"}, {Named: "itemList", Rel: "associative"}, {Named: "atomicPoint", Rel: "atomic"},
	}
	nf := 5 + r.Intn(6)
	var fields []Field
	used := map[int]bool{}
	// always include one keyed list, one struct and one set so that histories are interesting (looked up by
	// name: positions in the pool shift when it grows), and half of the time the list with defaulted keys
	mustNames := []string{"itemList", "point", "numSet"}
	if r.Fork(55_555).Chance(50) {
		mustNames = append(mustNames, "itemDList")
	}
	for _, nm := range mustNames {
		for i, ref := range pool {
			if ref.Named == nm && ref.Rel == "" && ref.Inline == nil {
				used[i] = true
				break
			}
		}
	}
	for len(used) < nf {
		used[r.Intn(len(pool))] = true
	}
	idx := make([]int, 0, len(used))
	for i := range used {
		idx = append(idx, i)
	}
	sort.Ints(idx)
	for j, i := range idx {
		fields = append(fields, Field{Name: fmt.Sprintf("f%d", j), Type: pool[i]})
	}
	root := Map{Fields: fields}
	add("root", Atom{Map: &root})
	return s
}

// ---------------------------------------------------------------------------------------------
// value generation

type VOpts struct {
	Plain     bool // no explicit null, no empty list or map
	Dups      bool // may emit duplicate members in sets / keyed lists
	MaxDepth  int
	KeySpace  int // size of the key universe per list (small => collisions between operands)
	Rich      bool // use the wider scalar universe (extreme numbers, odd strings)
}

var keyNames = []string{"a", "b", "c", "d", "e"}

func scalarOf(r *gen.Rng, kind string, o *VOpts) interface{} {
	switch kind {
	case "numeric":
		if o.Rich && r.Chance(30) {
			if r.Bool() {
				return gen.Pick(r, gen.Ints)
			}
			return gen.Pick(r, gen.Floats)
		}
		if r.Chance(25) {
			return gen.Pick(r, []float64{0, 1, 2, 0.5, 1.5, 3})
		}
		return int64(r.Intn(4))
	case "string":
		if o.Rich && r.Chance(30) {
			return gen.Pick(r, gen.Strings)
		}
		return gen.Pick(r, keyNames)
	case "boolean":
		return r.Bool()
	default: // untyped
		switch r.Intn(3) {
		case 0:
			return scalarOf(r, "numeric", o)
		case 1:
			return scalarOf(r, "string", o)
		}
		return r.Bool()
	}
}

// Value generates a conforming value of type ref.
func (s *Schema) Value(r *gen.Rng, ref Ref, depth int, o *VOpts) interface{} {
	a := s.Resolve(ref)
	if a == nil {
		return nil
	}
	if !o.Plain && r.Chance(6) {
		return nil
	}
	if depth < -3 && a.Scalar == "" {
		// recursion guard for recursive types: nil = "omit" on the plain domain, null otherwise
		return nil
	}
	// choose a member of a multi-member atom
	var kinds []string
	if a.Scalar != "" {
		kinds = append(kinds, "scalar")
	}
	if a.List != nil {
		kinds = append(kinds, "list")
	}
	if a.Map != nil {
		kinds = append(kinds, "map")
	}
	if len(kinds) == 0 {
		return nil
	}
	k := gen.Pick(r, kinds)
	if depth <= 0 && a.Scalar != "" {
		k = "scalar"
	}
	switch k {
	case "scalar":
		return scalarOf(r, a.Scalar, o)
	case "list":
		return s.listValue(r, a.List, depth, o)
	default:
		v := s.mapValue(r, a.Map, depth, o)
		if m, ok := v.(map[string]interface{}); ok && m == nil {
			return nil
		}
		return v
	}
}

// RootValue generates a non-nil value of the type (retrying when the plain domain omitted everything).
func (s *Schema) RootValue(r *gen.Rng, ref Ref, depth int, o *VOpts) interface{} {
	for i := 0; i < 20; i++ {
		if v := s.Value(r, ref, depth, o); v != nil {
			return v
		}
	}
	a := s.Resolve(ref)
	if a != nil && a.List != nil && a.Map == nil {
		return []interface{}{}
	}
	if a != nil && a.Map == nil && a.Scalar != "" {
		return scalarOf(r, a.Scalar, o)
	}
	return map[string]interface{}{}
}

func (s *Schema) listValue(r *gen.Rng, l *List, depth int, o *VOpts) interface{} {
	n := r.Intn(4)
	if depth <= 0 {
		n = r.Intn(2)
	}
	if o.Plain && n == 0 {
		n = 1
	}
	out := []interface{}{}
	ks := o.KeySpace
	if ks <= 0 {
		ks = 3
	}
	if l.Rel == "associative" && len(l.Keys) > 0 {
		ea := s.Resolve(l.Elem)
		seen := map[string]bool{}
		for i := 0; i < n; i++ {
			item, _ := s.mapValue(r, ea.Map, depth-1, &VOpts{Plain: o.Plain, Dups: o.Dups, KeySpace: o.KeySpace, Rich: o.Rich}).(map[string]interface{})
			if item == nil {
				item = map[string]interface{}{}
			}
			// fix the key fields from a small universe
			sig := ""
			for _, kf := range l.Keys {
				var kv interface{}
				ft := fieldOf(ea.Map, kf)
				fa := s.Resolve(ft)
				if fa != nil && fa.Scalar == "numeric" {
					kv = int64(r.Intn(ks))
				} else if fa != nil && fa.Scalar == "boolean" {
					kv = r.Bool()
				} else {
					kv = keyNames[r.Intn(ks)]
				}
				if hasDefault(ea.Map, kf) && r.Chance(50) {
					if r.Chance(35) {
						// the default spelled out: the same item as one that omits the key
						item[kf] = defaultOf(ea.Map, kf)
					} else {
						delete(item, kf)
					}
					sig += kf + "=<default>;"
				} else if !o.Plain && r.Chance(12) {
					// an explicit null in a key field is a key value of its own, default or not
					item[kf] = nil
					sig += kf + "=<null>;"
				} else {
					item[kf] = kv
					sig += fmt.Sprintf("%s=%v;", kf, kv)
				}
			}
			if seen[sig] && !(o.Dups && r.Chance(60)) {
				continue
			}
			seen[sig] = true
			out = append(out, item)
		}
	} else if l.Rel == "associative" {
		seen := map[string]bool{}
		ea := s.Resolve(l.Elem)
		kind := "untyped"
		if ea != nil && ea.Scalar != "" {
			kind = ea.Scalar
		}
		for i := 0; i < n; i++ {
			v := scalarOf(r, kind, o)
			sig := canonScalar(v)
			if seen[sig] && !(o.Dups && r.Chance(60)) {
				continue
			}
			seen[sig] = true
			out = append(out, v)
		}
	} else {
		for i := 0; i < n; i++ {
			v := s.Value(r, l.Elem, depth-1, o)
			if o.Plain && (v == nil || isEmptyContainer(v)) {
				continue
			}
			out = append(out, v)
		}
	}
	if o.Plain && len(out) == 0 {
		return nil // omitted by the caller
	}
	return out
}

// canonScalar: numerically equal ints and floats coincide (set members are compared by Equals)
func canonScalar(v interface{}) string {
	switch t := v.(type) {
	case int64:
		return fmt.Sprintf("n:%v", float64(t))
	case float64:
		if t == 0 {
			return "n:0"
		}
		return fmt.Sprintf("n:%v", t)
	}
	return fmt.Sprintf("%T:%v", v, v)
}

func fieldOf(m *Map, name string) Ref {
	for i := len(m.Fields) - 1; i >= 0; i-- {
		if m.Fields[i].Name == name {
			return m.Fields[i].Type
		}
	}
	if m.Elem != nil {
		return *m.Elem
	}
	return Ref{}
}

func defaultOf(m *Map, name string) interface{} {
	for i := len(m.Fields) - 1; i >= 0; i-- {
		if m.Fields[i].Name == name {
			return m.Fields[i].Default
		}
	}
	return nil
}

func hasDefault(m *Map, name string) bool {
	for i := len(m.Fields) - 1; i >= 0; i-- {
		if m.Fields[i].Name == name {
			return m.Fields[i].Default != nil
		}
	}
	return false
}

func (s *Schema) mapValue(r *gen.Rng, m *Map, depth int, o *VOpts) interface{} {
	out := map[string]interface{}{}
	if m == nil {
		return out
	}
	for _, f := range m.Fields {
		p := 55
		if depth <= 0 {
			p = 25
		}
		if r.Chance(p) {
			out[f.Name] = s.Value(r, f.Type, depth-1, o)
		}
	}
	if m.Elem != nil {
		n := r.Intn(3)
		for i := 0; i < n; i++ {
			out[gen.Pick(r, keyNames)] = s.Value(r, *m.Elem, depth-1, o)
		}
	}
	if o.Plain {
		for k, v := range out {
			if v == nil || isEmptyContainer(v) {
				delete(out, k)
			}
		}
		if len(out) == 0 {
			// force one entry
			if len(m.Fields) > 0 {
				f := gen.Pick(r, m.Fields)
				v := s.Value(r, f.Type, depth-1, o)
				if v != nil && !isEmptyContainer(v) {
					out[f.Name] = v
				}
			} else if m.Elem != nil {
				v := s.Value(r, *m.Elem, depth-1, o)
				if v != nil && !isEmptyContainer(v) {
					out[gen.Pick(r, keyNames)] = v
				}
			}
		}
		if len(out) == 0 {
			return nil // omitted by the caller
		}
	}
	return out
}

func isEmptyContainer(v interface{}) bool {
	switch t := v.(type) {
	case []interface{}:
		return len(t) == 0
	case map[string]interface{}:
		return len(t) == 0
	}
	return false
}

// Corrupt applies one single-point corruption somewhere in v (wrong kind, null member, duplicate
// member, undeclared field, missing key...). The result is usually, not always, invalid.
func Corrupt(r *gen.Rng, v interface{}) interface{} {
	switch t := v.(type) {
	case []interface{}:
		out := append([]interface{}{}, t...)
		switch {
		case len(out) > 0 && r.Chance(50):
			i := r.Intn(len(out))
			out[i] = Corrupt(r, out[i])
		case len(out) > 0 && r.Chance(50):
			out = append(out, gen.DeepCopy(out[r.Intn(len(out))])) // duplicate member
		case r.Bool():
			out = append(out, nil) // null member
		default:
			out = append(out, wrongKind(r, nil))
		}
		return out
	case map[string]interface{}:
		out := map[string]interface{}{}
		keys := []string{}
		for k, x := range t {
			out[k] = x
			keys = append(keys, k)
		}
		sort.Strings(keys)
		switch {
		case len(keys) > 0 && r.Chance(60):
			k := gen.Pick(r, keys)
			out[k] = Corrupt(r, out[k])
		case len(keys) > 0 && r.Chance(40):
			delete(out, gen.Pick(r, keys)) // e.g. a key field
		default:
			out["zz_undeclared"] = int64(1)
		}
		return out
	default:
		return wrongKind(r, v)
	}
}

func wrongKind(r *gen.Rng, v interface{}) interface{} {
	cands := []interface{}{int64(7), "s", true, 1.5, []interface{}{int64(1)}, map[string]interface{}{"q": int64(1)}, nil,
		[]interface{}{}, map[string]interface{}{}}
	for i := 0; i < 8; i++ {
		c := gen.Pick(r, cands)
		if fmt.Sprintf("%T", c) != fmt.Sprintf("%T", v) {
			return c
		}
	}
	return "s"
}

// ---------------------------------------------------------------------------------------------
// single-point edits of a schema (for Schema.Equals: every edit changes the structure)

func (s *Schema) Clone() *Schema {
	b, err := json.Marshal(s)
	if err != nil {
		panic(err)
	}
	var out Schema
	if err := json.Unmarshal(b, &out); err != nil {
		panic(err)
	}
	return &out
}

// atoms returns pointers to every atom of the schema (type definitions and inlined ones).
func (s *Schema) atoms() []*Atom {
	var out []*Atom
	var walkRef func(r *Ref)
	var walkAtom func(a *Atom)
	walkAtom = func(a *Atom) {
		out = append(out, a)
		if a.List != nil {
			walkRef(&a.List.Elem)
		}
		if a.Map != nil {
			for i := range a.Map.Fields {
				walkRef(&a.Map.Fields[i].Type)
			}
			if a.Map.Elem != nil {
				walkRef(a.Map.Elem)
			}
		}
	}
	walkRef = func(r *Ref) {
		if r.Inline != nil {
			walkAtom(r.Inline)
		}
	}
	for i := range s.Types {
		walkAtom(&s.Types[i].Atom)
	}
	return out
}

// Edit returns a copy of s with exactly one structural change, and a description of it.
func Edit(r *gen.Rng, s *Schema) (*Schema, string) {
	for tries := 0; tries < 50; tries++ {
		c := s.Clone()
		atoms := c.atoms()
		a := atoms[r.Intn(len(atoms))]
		switch r.Intn(12) {
		case 10, 11:
			if a.Map != nil && len(a.Map.Fields) > 0 {
				if len(a.Map.Unions) == 0 {
					a.Map.Unions = []Union{{Fields: []UnionField{{a.Map.Fields[0].Name, "v"}}}}
					return c, "union added"
				}
				u := &a.Map.Unions[r.Intn(len(a.Map.Unions))]
				switch r.Intn(5) {
				case 0:
					u.Deduce = !u.Deduce
					return c, "union deduce flag"
				case 1:
					if u.Discriminator == "" {
						u.Discriminator = "kind"
					} else if r.Bool() {
						u.Discriminator = ""
					} else {
						u.Discriminator += "2"
					}
					return c, "union discriminator"
				case 2:
					if len(u.Fields) > 0 {
						u.Fields[r.Intn(len(u.Fields))].DiscriminatorValue += "x"
						return c, "union field value"
					}
				case 3:
					if len(u.Fields) > 0 {
						u.Fields = u.Fields[:len(u.Fields)-1]
						return c, "union field dropped"
					}
				default:
					a.Map.Unions = a.Map.Unions[:len(a.Map.Unions)-1]
					return c, "union dropped"
				}
			}
		case 0:
			if a.Scalar != "" {
				old := a.Scalar
				for a.Scalar == old {
					a.Scalar = gen.Pick(r, []string{"numeric", "string", "boolean", "untyped"})
				}
				return c, "scalar kind"
			}
		case 1:
			if a.List != nil {
				if a.List.Rel == "atomic" {
					a.List.Rel = "associative"
				} else {
					a.List.Rel = "atomic"
				}
				return c, "list relationship"
			}
		case 2:
			if a.Map != nil {
				if a.Map.Rel == "atomic" {
					a.Map.Rel = "separable"
				} else {
					a.Map.Rel = "atomic"
				}
				return c, "map relationship"
			}
		case 3:
			if a.Map != nil && len(a.Map.Fields) > 0 {
				i := r.Intn(len(a.Map.Fields))
				a.Map.Fields[i].Name += "2"
				return c, "field name"
			}
		case 4:
			if a.Map != nil && len(a.Map.Fields) > 1 {
				a.Map.Fields[0], a.Map.Fields[1] = a.Map.Fields[1], a.Map.Fields[0]
				if a.Map.Fields[0].Name != a.Map.Fields[1].Name {
					return c, "field order"
				}
			}
		case 5:
			if a.List != nil && len(a.List.Keys) > 0 {
				a.List.Keys = append(a.List.Keys, "value")
				return c, "list keys"
			}
		case 6:
			// a second member on a single-member atom: the members after the first must be compared too
			if a.Scalar != "" && a.List == nil {
				a.List = &List{Elem: Ref{Named: "num"}, Rel: "atomic"}
				return c, "added list member to a scalar atom"
			}
			if a.Scalar != "" && a.List != nil {
				if a.List.Rel == "atomic" {
					a.List.Rel = "associative"
				} else {
					a.List.Rel = "atomic"
				}
				return c, "list member of a multi-member atom"
			}
		case 7:
			if a.Map != nil && len(a.Map.Fields) > 0 {
				i := r.Intn(len(a.Map.Fields))
				f := &a.Map.Fields[i]
				if f.Type.Named != "" {
					if f.Type.Rel == "" && c.Resolve(f.Type) != nil && c.Resolve(f.Type).Scalar == "" {
						f.Type.Rel = "atomic"
						return c, "reference gains a relationship override"
					} else if f.Type.Rel != "" {
						if f.Type.Rel == "atomic" {
							f.Type.Rel = "separable"
							if c.Resolve(Ref{Named: f.Type.Named}).List != nil && c.Resolve(Ref{Named: f.Type.Named}).Map == nil {
								f.Type.Rel = "associative"
							}
						} else {
							f.Type.Rel = "atomic"
						}
						return c, "relationship override value"
					}
				}
			}
		case 8:
			if a.Map != nil && len(a.Map.Fields) > 0 {
				i := r.Intn(len(a.Map.Fields))
				f := &a.Map.Fields[i]
				if f.Default != nil {
					if f.Default == "UDP" {
						f.Default = "ICMP"
					} else {
						f.Default = "UDP"
					}
					return c, "default value"
				}
				if fa := c.Resolve(f.Type); fa != nil && fa.Scalar == "string" {
					f.Default = "dflt"
					return c, "default added"
				}
			}
		case 9:
			if len(c.Types) > 2 {
				i := r.Intn(len(c.Types) - 1)
				if c.Types[i].Name != "root" {
					c.Types[i].Name += "X"
					return c, "type name"
				}
			}
		}
	}
	c := s.Clone()
	c.Types = append(c.Types, TypeDef{Name: "extra", Atom: Atom{Scalar: "string"}})
	return c, "extra type"
}

// ToggleAtomic returns a copy in which a random subset of list / map atoms switched between granular
// and atomic (schema evolution for ReconcileFieldSetWithSchema). Type names are kept.
func ToggleAtomic(r *gen.Rng, s *Schema) *Schema {
	c := s.Clone()
	for _, a := range c.atoms() {
		if a.List != nil && r.Chance(35) {
			if a.List.Rel == "atomic" {
				a.List.Rel = "associative"
			} else {
				a.List.Rel = "atomic"
			}
		}
		if a.Map != nil && r.Chance(35) {
			if a.Map.Rel == "atomic" {
				a.Map.Rel = "separable"
			} else {
				a.Map.Rel = "atomic"
			}
		}
	}
	return c
}

// ---------------------------------------------------------------------------------------------
// versioned schemas: one copy of every type per API version, struct field names carrying the version
// as a suffix (except key fields), the root type named like the version — the layout the
// renaming converter of merge/multiple_appliers_test.go expects.

var keyFieldNames = map[string]bool{"name": true, "id": true, "port": true, "proto": true}

func Versioned(base *Schema, versions []string) *Schema {
	out := &Schema{Root: versions[0]}
	for _, v := range versions {
		c := base.Clone()
		rename := func(n string) string {
			if n == "root" {
				return v
			}
			if len(n) > 2 && n[:2] == "__" {
				return n // the deduced types are version independent
			}
			return n + "." + v
		}
		var fixRef func(r *Ref)
		var fixAtom func(a *Atom)
		fixRef = func(r *Ref) {
			if r.Named != "" {
				r.Named = rename(r.Named)
			}
			if r.Inline != nil {
				fixAtom(r.Inline)
			}
		}
		fixAtom = func(a *Atom) {
			if a.List != nil {
				fixRef(&a.List.Elem)
			}
			if a.Map != nil {
				for i := range a.Map.Fields {
					f := &a.Map.Fields[i]
					if !keyFieldNames[f.Name] {
						f.Name = f.Name + "_" + v
					}
					fixRef(&f.Type)
				}
				if a.Map.Elem != nil {
					fixRef(a.Map.Elem)
				}
			}
		}
		for i := range c.Types {
			t := c.Types[i]
			if len(t.Name) > 2 && t.Name[:2] == "__" && v != versions[0] {
				continue
			}
			fixAtom(&c.Types[i].Atom)
			c.Types[i].Name = rename(t.Name)
			out.Types = append(out.Types, c.Types[i])
		}
	}
	return out
}
