// Package vx prints the VX1 wire encoding (see /verif/lean/SMD/Model/Wire.lean).
// Only a printer exists on the Go side; the Lean driver parses and prints.
package vx

import (
	"fmt"
	"math"
	"sort"
	"strconv"
	"strings"
	"unicode/utf8"

	"sigs.k8s.io/structured-merge-diff/v6/fieldpath"
	"sigs.k8s.io/structured-merge-diff/v6/value"
)

func Str(s string) string {
	return "S" + strconv.Itoa(utf8.RuneCountInString(s)) + ":" + s
}

// Float prints the exact dyadic value m*2^e with m odd (or zero).
func Float(f float64) string {
	if f == 0 {
		if math.Signbit(f) {
			return "D-0p0;"
		}
		return "D0p0;"
	}
	if math.IsNaN(f) || math.IsInf(f, 0) {
		panic("vx: NaN/Inf not in the domain")
	}
	frac, exp := math.Frexp(f) // f = frac * 2^exp, 0.5 <= |frac| < 1
	m := int64(frac * (1 << 53))
	e := exp - 53
	for m%2 == 0 {
		m /= 2
		e++
	}
	return "D" + strconv.FormatInt(m, 10) + "p" + strconv.Itoa(e) + ";"
}

// Unstructured prints an unstructured Go value (maps sorted by key).
func Unstructured(v interface{}) string {
	var b strings.Builder
	writeU(&b, v)
	return b.String()
}

func writeU(b *strings.Builder, v interface{}) {
	switch t := v.(type) {
	case nil:
		b.WriteString("N")
	case bool:
		if t {
			b.WriteString("T")
		} else {
			b.WriteString("F")
		}
	case int:
		b.WriteString("I" + strconv.FormatInt(int64(t), 10) + ";")
	case int8:
		b.WriteString("I" + strconv.FormatInt(int64(t), 10) + ";")
	case int16:
		b.WriteString("I" + strconv.FormatInt(int64(t), 10) + ";")
	case int32:
		b.WriteString("I" + strconv.FormatInt(int64(t), 10) + ";")
	case int64:
		b.WriteString("I" + strconv.FormatInt(t, 10) + ";")
	case uint:
		b.WriteString("I" + strconv.FormatUint(uint64(t), 10) + ";")
	case uint8:
		b.WriteString("I" + strconv.FormatUint(uint64(t), 10) + ";")
	case uint16:
		b.WriteString("I" + strconv.FormatUint(uint64(t), 10) + ";")
	case uint32:
		b.WriteString("I" + strconv.FormatUint(uint64(t), 10) + ";")
	case float64:
		b.WriteString(Float(t))
	case float32:
		b.WriteString(Float(float64(t)))
	case string:
		b.WriteString(Str(t))
	case []interface{}:
		b.WriteString("[")
		for _, x := range t {
			writeU(b, x)
		}
		b.WriteString("]")
	case map[string]interface{}:
		keys := make([]string, 0, len(t))
		for k := range t {
			keys = append(keys, k)
		}
		sort.Strings(keys)
		b.WriteString("{")
		for _, k := range keys {
			b.WriteString(Str(k))
			writeU(b, t[k])
		}
		b.WriteString("}")
	case map[interface{}]interface{}:
		keys := make([]string, 0, len(t))
		for k := range t {
			if ks, ok := k.(string); ok {
				keys = append(keys, ks)
			}
		}
		sort.Strings(keys)
		b.WriteString("{")
		for _, k := range keys {
			b.WriteString(Str(k))
			writeU(b, t[k])
		}
		b.WriteString("}")
	default:
		panic(fmt.Sprintf("vx: unsupported unstructured type %T", v))
	}
}

// Value prints a value.Value through its generic interface (never through Unstructured()),
// so that every representation is observed through the API the library itself uses.
func Value(v value.Value) string {
	var b strings.Builder
	writeV(&b, v)
	return b.String()
}

// canonNum, when set, prints integral floats as ints (numerically equal values coincide).
func canonFloat(f float64) (string, bool) {
	if f == math.Trunc(f) && math.Abs(f) < 1<<62 {
		return "I" + strconv.FormatInt(int64(f), 10) + ";", true
	}
	return "", false
}

func writeV(b *strings.Builder, v value.Value) { writeVC(b, v, false) }

func writeVC(b *strings.Builder, v value.Value, canon bool) {
	switch {
	case v == nil:
		b.WriteString("N")
	case v.IsNull():
		b.WriteString("N")
	case v.IsBool():
		if v.AsBool() {
			b.WriteString("T")
		} else {
			b.WriteString("F")
		}
	case v.IsInt():
		b.WriteString("I" + strconv.FormatInt(v.AsInt(), 10) + ";")
	case v.IsFloat():
		if canon {
			if s, ok := canonFloat(v.AsFloat()); ok {
				b.WriteString(s)
				break
			}
		}
		b.WriteString(Float(v.AsFloat()))
	case v.IsString():
		b.WriteString(Str(v.AsString()))
	case v.IsList():
		l := v.AsList()
		b.WriteString("[")
		for i := 0; i < l.Length(); i++ {
			writeVC(b, l.At(i), canon)
		}
		b.WriteString("]")
	case v.IsMap():
		m := v.AsMap()
		// the Value handed to an Iterate callback is only valid during the callback: keep keys only
		var keys []string
		m.Iterate(func(k string, _ value.Value) bool {
			keys = append(keys, k)
			return true
		})
		sort.Strings(keys)
		b.WriteString("{")
		for _, k := range keys {
			x, ok := m.Get(k)
			b.WriteString(Str(k))
			if !ok {
				b.WriteString("!lost")
				continue
			}
			writeVC(b, x, canon)
		}
		b.WriteString("}")
	default:
		panic("vx: value of no kind")
	}
}

// FieldList prints a key field list in its stored order.
func FieldList(fl value.FieldList) string {
	var b strings.Builder
	b.WriteString("{")
	for _, f := range fl {
		b.WriteString(Str(f.Name))
		writeV(&b, f.Value)
	}
	b.WriteString("}")
	return b.String()
}

func PE(pe fieldpath.PathElement) string {
	switch {
	case pe.FieldName != nil:
		return "f" + Str(*pe.FieldName)
	case pe.Key != nil:
		return "k" + FieldList(*pe.Key)
	case pe.Value != nil:
		return "v" + Value(*pe.Value)
	case pe.Index != nil:
		return "i" + strconv.Itoa(*pe.Index) + ";"
	}
	return "x"
}

func Path(p fieldpath.Path) string {
	var b strings.Builder
	b.WriteString("P")
	for _, pe := range p {
		b.WriteString(PE(pe))
	}
	b.WriteString(";")
	return b.String()
}

func Paths(ps []fieldpath.Path) string {
	var b strings.Builder
	b.WriteString("Z")
	for _, p := range ps {
		b.WriteString(Path(p))
	}
	b.WriteString(";")
	return b.String()
}

// Iterate prints a set as the list of its paths in Iterate order.
func Iterate(s *fieldpath.Set) string {
	var ps []fieldpath.Path
	s.Iterate(func(p fieldpath.Path) { ps = append(ps, p.Copy()) })
	return Paths(ps)
}

// Trie prints the structure of a set through its exported fields: members, then children.
func Trie(s *fieldpath.Set) string {
	var b strings.Builder
	writeTrie(&b, s)
	return b.String()
}

func writeTrie(b *strings.Builder, s *fieldpath.Set) {
	b.WriteString("Y")
	s.Members.Iterate(func(pe fieldpath.PathElement) { b.WriteString(PE(pe)) })
	b.WriteString("|")
	s.Children.Iterate(func(pe fieldpath.PathElement) {
		b.WriteString("(")
		b.WriteString(PE(pe))
		sub, ok := s.Children.Get(pe)
		if !ok {
			// unreachable on a well-formed node map; make it visible rather than hiding it
			b.WriteString("!lost")
		} else {
			writeTrie(b, sub)
		}
		b.WriteString(")")
	})
	b.WriteString(";")
}

func Bool(b bool) string {
	if b {
		return "true"
	}
	return "false"
}

func Sign(c int) string {
	switch {
	case c < 0:
		return "-1"
	case c > 0:
		return "1"
	}
	return "0"
}

// CanonPE prints a path element so that Equal elements print identically (1 and 1.0 coincide).
func CanonPE(pe fieldpath.PathElement) string {
	var b strings.Builder
	switch {
	case pe.FieldName != nil:
		return "f" + Str(*pe.FieldName)
	case pe.Key != nil:
		b.WriteString("k{")
		for _, f := range *pe.Key {
			b.WriteString(Str(f.Name))
			writeVC(&b, f.Value, true)
		}
		b.WriteString("}")
		return b.String()
	case pe.Value != nil:
		b.WriteString("v")
		writeVC(&b, *pe.Value, true)
		return b.String()
	case pe.Index != nil:
		return "i" + strconv.Itoa(*pe.Index) + ";"
	}
	return "x"
}

// CanonValue prints a value so that Equal values print identically (numerically equal ints and
// floats coincide); an equality independent of the library's own Equals.
func CanonValue(v value.Value) string {
	var b strings.Builder
	writeVC(&b, v, true)
	return b.String()
}
