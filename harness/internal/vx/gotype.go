package vx

import (
	"encoding/json"
	"reflect"
	"sort"
	"strconv"
	"strings"
)

// Wire form of Go types and Go data for the reflection model (lean/Driver/Rfl.lean).
// ok = false: outside the modelled family (custom marshalers, uint64, arrays, non-string map keys,
// omitzero, channels, functions).

var jsonMarshalerType = reflect.TypeOf((*json.Marshaler)(nil)).Elem()

func GoType(t reflect.Type) (string, bool) {
	if t.Kind() != reflect.Interface && (t.Implements(jsonMarshalerType) || reflect.PointerTo(t).Implements(jsonMarshalerType)) {
		return "", false
	}
	switch t.Kind() {
	case reflect.Bool:
		return "b", true
	case reflect.Int, reflect.Int8, reflect.Int16, reflect.Int32, reflect.Int64:
		return "i", true
	case reflect.Uint, reflect.Uint8, reflect.Uint16, reflect.Uint32:
		return "u", true
	case reflect.Float64:
		return "f", true
	case reflect.Float32:
		return "g", true
	case reflect.String:
		return "s", true
	case reflect.Interface:
		if t.NumMethod() != 0 {
			return "", false
		}
		return "n", true
	case reflect.Ptr:
		s, ok := GoType(t.Elem())
		return "p" + s, ok
	case reflect.Slice:
		if t.Elem().Kind() == reflect.Uint8 {
			return "y", true
		}
		s, ok := GoType(t.Elem())
		return "l" + s, ok
	case reflect.Map:
		if t.Key().Kind() != reflect.String {
			return "", false
		}
		s, ok := GoType(t.Elem())
		return "m" + s, ok
	case reflect.Struct:
		var b strings.Builder
		b.WriteString("S(")
		for i := 0; i < t.NumField(); i++ {
			f := t.Field(i)
			if !f.IsExported() {
				return "", false
			}
			tag := f.Tag.Get("json")
			name, opts := tag, ""
			if idx := strings.Index(tag, ","); idx != -1 {
				name, opts = tag[:idx], tag[idx+1:]
			}
			dash := tag == "-"
			omitempty, inline := false, false
			for _, o := range strings.Split(opts, ",") {
				switch o {
				case "omitempty":
					omitempty = true
				case "inline":
					inline = true
				case "":
				default:
					return "", false
				}
			}
			b.WriteString(Str(f.Name))
			if name == "" || dash {
				b.WriteString("_")
			} else {
				b.WriteString(Str(name))
			}
			flag := func(c byte, on bool) {
				if on {
					b.WriteByte(c)
				} else {
					b.WriteByte('-')
				}
			}
			flag('d', dash)
			flag('o', omitempty)
			flag('i', inline)
			flag('e', f.Anonymous)
			s, ok := GoType(f.Type)
			if !ok {
				return "", false
			}
			b.WriteString(s)
		}
		b.WriteString(")")
		return b.String(), true
	}
	return "", false
}

func GoVal(v reflect.Value) (string, bool) {
	switch v.Kind() {
	case reflect.Bool:
		if v.Bool() {
			return "T", true
		}
		return "F", true
	case reflect.Int, reflect.Int8, reflect.Int16, reflect.Int32, reflect.Int64:
		return "I" + strconv.FormatInt(v.Int(), 10) + ";", true
	case reflect.Uint, reflect.Uint8, reflect.Uint16, reflect.Uint32:
		return "I" + strconv.FormatUint(v.Uint(), 10) + ";", true
	case reflect.Float64:
		return Float(v.Float()), true
	case reflect.Float32:
		short, err := strconv.ParseFloat(strconv.FormatFloat(v.Float(), 'g', -1, 32), 64)
		if err != nil {
			return "", false
		}
		return "G" + Float(v.Float()) + Float(short), true
	case reflect.String:
		return Str(v.String()), true
	case reflect.Interface:
		if v.IsNil() {
			return "N", true
		}
		t, ok1 := GoType(v.Elem().Type())
		x, ok2 := GoVal(v.Elem())
		return "<" + t + x + ">", ok1 && ok2
	case reflect.Ptr:
		if v.IsNil() {
			return "N", true
		}
		x, ok := GoVal(v.Elem())
		return "P" + x, ok
	case reflect.Slice:
		if v.IsNil() {
			return "N", true
		}
		if v.Type().Elem().Kind() == reflect.Uint8 {
			var b strings.Builder
			b.WriteString("B[")
			for _, c := range v.Bytes() {
				b.WriteString("I" + strconv.Itoa(int(c)) + ";")
			}
			b.WriteString("]")
			return b.String(), true
		}
		var b strings.Builder
		b.WriteString("[")
		for i := 0; i < v.Len(); i++ {
			x, ok := GoVal(v.Index(i))
			if !ok {
				return "", false
			}
			b.WriteString(x)
		}
		b.WriteString("]")
		return b.String(), true
	case reflect.Map:
		if v.IsNil() {
			return "N", true
		}
		keys := make([]string, 0, v.Len())
		for _, k := range v.MapKeys() {
			keys = append(keys, k.String())
		}
		sort.Strings(keys)
		var b strings.Builder
		b.WriteString("{")
		for _, k := range keys {
			x, ok := GoVal(v.MapIndex(reflect.ValueOf(k).Convert(v.Type().Key())))
			if !ok {
				return "", false
			}
			b.WriteString(Str(k) + x)
		}
		b.WriteString("}")
		return b.String(), true
	case reflect.Struct:
		var b strings.Builder
		b.WriteString("(")
		for i := 0; i < v.NumField(); i++ {
			x, ok := GoVal(v.Field(i))
			if !ok {
				return "", false
			}
			b.WriteString(x)
		}
		b.WriteString(")")
		return b.String(), true
	}
	return "", false
}
