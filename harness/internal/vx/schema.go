package vx

import (
	"strings"

	"sigs.k8s.io/structured-merge-diff/v6/schema"
)

// Schema prints a parsed schema.Schema (what the library's own parser produced).
// Unions follow the map's relationship as an optional u[…] group.
func Schema(s *schema.Schema) string {
	var b strings.Builder
	b.WriteString("X")
	for i := range s.Types {
		b.WriteString("t")
		b.WriteString(Str(s.Types[i].Name))
		writeAtom(&b, &s.Types[i].Atom)
	}
	b.WriteString(";")
	return b.String()
}

func writeAtom(b *strings.Builder, a *schema.Atom) {
	b.WriteString("A")
	if a.Scalar == nil {
		b.WriteString("_")
	} else {
		b.WriteString("s" + Str(string(*a.Scalar)))
	}
	if a.List == nil {
		b.WriteString("_")
	} else {
		b.WriteString("l")
		writeTypeRef(b, &a.List.ElementType)
		b.WriteString(Str(string(a.List.ElementRelationship)))
		b.WriteString("[")
		for _, k := range a.List.Keys {
			b.WriteString(Str(k))
		}
		b.WriteString("]")
	}
	if a.Map == nil {
		b.WriteString("_")
	} else {
		b.WriteString("m[")
		for i := range a.Map.Fields {
			f := &a.Map.Fields[i]
			b.WriteString("(")
			b.WriteString(Str(f.Name))
			writeTypeRef(b, &f.Type)
			if f.Default == nil {
				b.WriteString("_")
			} else {
				writeU(b, f.Default)
			}
			b.WriteString(")")
		}
		b.WriteString("]")
		writeTypeRef(b, &a.Map.ElementType)
		b.WriteString(Str(string(a.Map.ElementRelationship)))
		if len(a.Map.Unions) > 0 {
			// u[ ( (_|<S discriminator>) (T|F) [ (<S field><S value>)… ] )… ]
			b.WriteString("u[")
			for i := range a.Map.Unions {
				u := &a.Map.Unions[i]
				b.WriteString("(")
				if u.Discriminator == nil {
					b.WriteString("_")
				} else {
					b.WriteString(Str(*u.Discriminator))
				}
				b.WriteString(Flag(u.DeduceInvalidDiscriminator))
				b.WriteString("[")
				for _, f := range u.Fields {
					b.WriteString("(" + Str(f.FieldName) + Str(f.DiscriminatorValue) + ")")
				}
				b.WriteString("])")
			}
			b.WriteString("]")
		}
	}
}

func writeTypeRef(b *strings.Builder, tr *schema.TypeRef) {
	b.WriteString("R")
	if tr.NamedType == nil {
		b.WriteString("_")
	} else {
		b.WriteString("n" + Str(*tr.NamedType))
	}
	writeAtom(b, &tr.Inlined)
	if tr.ElementRelationship == nil {
		b.WriteString("_")
	} else {
		b.WriteString("e" + Str(string(*tr.ElementRelationship)))
	}
}

func TypeRef(tr schema.TypeRef) string {
	var b strings.Builder
	writeTypeRef(&b, &tr)
	return b.String()
}

func Flag(b bool) string {
	if b {
		return "T"
	}
	return "F"
}
