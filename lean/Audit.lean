/-
Lists every theorem in the namespaces `SMD.C01` … `SMD.C20` (the property theorems) with the axioms it
depends on, one JSON object per line.  Run with `lake env lean Audit.lean`.
-/
import Lean
import SMD.Properties.All
open Lean Elab Command

def propOf (n : Name) : Option String :=
  match n.components with
  | `SMD :: (.str .anonymous p) :: _ :: _ =>
    if p.length == 3 && p.front == 'C' && (p.drop 1).all Char.isDigit then some p else none
  | _ => none

run_cmd do
  let env ← getEnv
  let mut rows : Array (String × Name) := #[]
  for (n, ci) in env.constants.toList do
    if n.isInternal then continue
    match ci with
    | .thmInfo _ =>
      -- skip the equation / induction lemmas Lean generates for the helper definitions of the property files
      let last := match n with | .str _ s => s | _ => ""
      let auto := last.startsWith "eq_" || last.startsWith "match_" || last.startsWith "_" ||
        ["induct", "induct_unfolding", "fun_cases", "fun_cases_unfolding", "mutual_induct", "sizeOf_spec",
         "injEq", "inj", "noConfusion"].contains last
      if !auto then
        if let some p := propOf n then rows := rows.push (p, n)
    | _ => pure ()
  let sorted := rows.qsort (fun a b => a.2.toString < b.2.toString)
  for (p, n) in sorted do
    let axs ← liftCoreM (collectAxioms n)
    let axl := axs.toList.map (fun a => "\"" ++ a.toString ++ "\"")
    IO.println s!"\{\"property\":\"{p}\",\"theorem\":\"{n}\",\"axioms\":[{String.intercalate "," axl}]}"
