import Driver.Ops
import Driver.All
