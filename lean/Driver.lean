import Driver.Ops
import Driver.State
import Driver.Typed
import Driver.Upd
import Driver.Ser
import Driver.All
