import Driver.Ops
import Driver.State
import Driver.Typed
import Driver.All
