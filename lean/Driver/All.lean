import Driver.Ops
namespace Driver
def table : List (String × SMD.Wire.P String) := allOps
end Driver
