import Driver.Ops
import Driver.State
import Driver.Typed
import Driver.Upd
import Driver.Ser
import Driver.Rfl
import Driver.Hlp
open SMD SMD.Wire
namespace Driver

/-- one protocol step: state-changing ops first, then the pure tables -/
def step (st : State) (line : String) : State × String :=
  let cs := line.toList
  match pWord cs with
  | some ("typ.schema", rest) =>
    (match (arg pSchema fun sc => done sc) rest with
     | some (sc, _) => ({ st with schema := sc }, "ok types=" ++ toString sc.types.length)
     | none => (st, "bad-args typ.schema"))
  | some (name, rest) =>
    if name.startsWith "conc." || name.startsWith "iso." then (st, "ok")
    else if name.startsWith "upd." then
      match stepUpd st name rest with
      | some r => r
      | none => (st, "bad-args " ++ name)
    else (st, runOpWith (allOps ++ opsSer ++ opsRfl ++ opsHlp ++ opsTyped st ++ opsFlt st) line)
  | none => (st, "bad-op")

end Driver
