/- helper operations of the line protocol (domain `hlp`): SetFromValue, ManagedFields, Conflicts -/
import Driver.Upd
import SMD.Model.Helpers
open SMD SMD.Wire
namespace Driver

def opsHlp : List (String × P String) := [
  ("hlp.sfv", arg pValue fun v => done (encTrie (setFromValue v))),
  ("hlp.mfeq", arg pManaged fun a => arg pManaged fun b => done (encBool (Managed.equals a b))),
  ("hlp.mfdiff", arg pManaged fun a => arg pManaged fun b => done (encManaged (Managed.difference a b))),
  ("hlp.cf", arg pManaged fun a =>
      let c := conflictsFromManagers a
      done (encConflicts c ++ " set=" ++ encTrie (conflictsToSet c) ++ " self=" ++ encBool (conflictsEquals c c)))
]

end Driver
