import Driver.Ops
import Driver.All

partial def loop (h : IO.FS.Stream) (out : IO.FS.Stream) : IO Unit := do
  let line ← h.getLine
  if line.isEmpty then return ()
  let l := (line.toList.filter (· != (Char.ofNat 10)))
  out.putStrLn (Driver.runOpWith Driver.table (String.ofList l))
  loop h out

def main : IO Unit := do
  let stdin ← IO.getStdin
  let stdout ← IO.getStdout
  loop stdin stdout
