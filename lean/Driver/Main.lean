import Driver.All

partial def loop (h : IO.FS.Stream) (out : IO.FS.Stream) (st : Driver.State) : IO Unit := do
  let line ← h.getLine
  if line.isEmpty then return ()
  let cs := line.toList
  let cs := if cs.getLast? == some '\n' then cs.dropLast else cs
  let (st', res) := Driver.step st (String.ofList cs)
  out.putStrLn res
  loop h out st'

def main : IO Unit := do
  let stdin ← IO.getStdin
  let stdout ← IO.getStdout
  loop stdin stdout {}
