/-
Line protocol dispatch: one operation per line in, one canonical result line out.
`runOp` is a pure function so that it can also be exercised with `#eval`.
-/
import SMD.Model.Wire
open SMD SMD.Wire

namespace Driver

/-- sequencing helper for argument parsing -/
@[inline] def andThen {α β : Type} (p : P α) (f : α → P β) : P β := fun cs =>
  match p cs with
  | some (a, r) => f a r
  | none => none

@[inline] def arg {α β : Type} (p : P α) (f : α → P β) : P β :=
  andThen pSp fun _ => andThen p f

@[inline] def done {α : Type} (a : α) : P α := fun cs => if cs.isEmpty then some (a, []) else none

def pMatcher : P PEMatcher
  | 'm' :: 'T' :: cs => (pPE cs).map fun (pe, r) => ({ wildcard := true, pe := pe }, r)
  | 'm' :: 'F' :: cs => (pPE cs).map fun (pe, r) => ({ wildcard := false, pe := pe }, r)
  | _ => none

def triple (c : Ordering) (e l : Bool) : String :=
  "c=" ++ encOrdering c ++ " e=" ++ encBool e ++ " l=" ++ encBool l

def opsBasic : List (String × P String) := [
  ("val.cmp", arg pValue fun a => arg pValue fun b =>
      done (triple (Value.compare a b) (Value.equals a b) (Value.less a b))),
  ("fl.cmp", arg pFields fun a => arg pFields fun b =>
      done (triple (FieldList.compare a b) (FieldList.equals a b) (FieldList.less a b))),
  ("fl.sort", arg pFields fun a => done (encFields (FieldList.sort a))),
  ("pe.cmp", arg pPE fun a => arg pPE fun b =>
      done (triple (PE.compare a b) (PE.equals a b) (PE.less a b))),
  ("path.cmp", arg pPath fun a => arg pPath fun b =>
      done ("c=" ++ encOrdering (Path.compare a b) ++ " e=" ++ encBool (Path.equals a b))),
  ("pem.cmp", arg pMatcher fun a => arg pMatcher fun b =>
      done (triple (PEMatcher.compare a b) (PEMatcher.equals a b) (PEMatcher.less a b))),
  -- PathElementSet: insert the elements of the first list in order; probe with the second
  ("pes.build", arg pPath fun ins => arg pPath fun probes =>
      let s := ins.foldl (fun s pe => peInsert pe s) []
      done (encPath s ++ " size=" ++ toString s.length ++ " has=" ++
        String.join (probes.map fun pe => if peHas pe s then "1" else "0"))),
  -- PathElementMap: insert (pe, index) pairs in order; probe
  ("pemap.build", arg pPath fun ins => arg pPath fun probes =>
      let m := (ins.zipIdx).foldl (fun m (pe, i) => pemInsert pe i m) ([] : List (PE × Nat))
      done (String.join (m.map fun (pe, i) => encPE pe ++ "=" ++ toString i ++ ",") ++ " get=" ++
        String.join (probes.map fun pe => match pemGet pe m with
          | some i => toString i ++ ","
          | none => "-,")))
]

def setSummary (s : SetTrie) : String :=
  encTrie s ++ " size=" ++ toString s.size ++ " empty=" ++ encBool s.isEmpty ++ " it=" ++ encPaths s.paths

def opsSet : List (String × P String) := [
  ("set.new", arg pPaths fun ps => done (setSummary (SetTrie.ofPaths ps))),
  ("set.bin", arg pPaths fun a => arg pPaths fun b =>
      let s := SetTrie.ofPaths a
      let t := SetTrie.ofPaths b
      done ("u=" ++ encTrie (s.union t) ++ " i=" ++ encTrie (s.inter t) ++ " d=" ++ encTrie (s.diff t)
        ++ " r=" ++ encTrie (s.rdiff t) ++ " eq=" ++ encBool (s.equals t))),
  ("set.leaves", arg pPaths fun a => done (encTrie (SetTrie.ofPaths a).leaves)),
  ("set.has", arg pPaths fun a => arg pPaths fun probes =>
      let s := SetTrie.ofPaths a
      done (String.join (probes.map fun p => if s.has p then "1" else "0"))),
  ("set.prefix", arg pPaths fun a => arg pPE fun pe =>
      done (encTrie ((SetTrie.ofPaths a).withPrefix pe)))
]

def allOps : List (String × P String) := opsBasic ++ opsSet

def runOpWith (table : List (String × P String)) (line : String) : String :=
  let cs := line.toList
  match pWord cs with
  | none => "bad-op"
  | some (name, rest) =>
    match table.lookup name with
    | none => "unknown-op " ++ name
    | some h =>
      match h rest with
      | some (out, _) => out
      | none => "bad-args " ++ name

end Driver
