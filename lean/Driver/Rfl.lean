/- reflection operations of the line protocol (domain `rfl`): Go types and Go data on the wire -/
import Driver.Ops
import SMD.Model.Reflect
import SMD.Model.ReflectSet
open SMD SMD.Wire
namespace Driver

def pFlagC (c : Char) : P Bool
  | x :: cs => if x == c then some (true, cs) else if x == '-' then some (false, cs) else none
  | [] => none

mutual
/-- `b i u f g s y` scalars, `p<T>` pointer, `l<T>` slice, `m<T>` map, `n` interface, `S(field…)` struct -/
partial def pGoType : P GoType
  | 'b' :: cs => some (.bool, cs)
  | 'i' :: cs => some (.int, cs)
  | 'u' :: cs => some (.uint, cs)
  | 'f' :: cs => some (.float64, cs)
  | 'g' :: cs => some (.float32, cs)
  | 's' :: cs => some (.string, cs)
  | 'y' :: cs => some (.bytes, cs)
  | 'n' :: cs => some (.iface, cs)
  | 'p' :: cs => (pGoType cs).map fun (t, r) => (.ptr t, r)
  | 'l' :: cs => (pGoType cs).map fun (t, r) => (.slice t, r)
  | 'm' :: cs => (pGoType cs).map fun (t, r) => (.map t, r)
  | 'S' :: '(' :: cs => (pGoFields cs []).map fun (fs, r) => (.struct fs, r)
  | _ => none
/-- field: `<goName:Str><tagName:Str|_><d|-><o|-><i|-><e|-><T>` -/
partial def pGoFields (cs : List Char) (acc : List GoField) : Option (List GoField × List Char) :=
  match cs with
  | ')' :: r => some (acc.reverse, r)
  | _ =>
    match pStr cs with
    | some (gname, r1) =>
      let tag : Option (Option String × List Char) :=
        match r1 with
        | '_' :: r2 => some (none, r2)
        | _ => (pStr r1).map fun (t, r2) => (some t, r2)
      match tag with
      | some (tname, r2) =>
        match pFlagC 'd' r2 with
        | some (d, r3) =>
          match pFlagC 'o' r3 with
          | some (o, r4) =>
            match pFlagC 'i' r4 with
            | some (i, r5) =>
              match pFlagC 'e' r5 with
              | some (e, r6) =>
                match pGoType r6 with
                | some (t, r7) => pGoFields r7 (GoField.mk gname tname d o i e t :: acc)
                | none => none
              | none => none
            | none => none
          | none => none
        | none => none
      | none => none
    | none => none
end

def floatUnits : Value → Option (Int × Bool)
  | .float u z => some (u, z)
  | _ => none

mutual
/-- `N` nil, `T`/`F`, `I<n>;`, `D<m>p<e>;` float64, `G<float><float>` float32 (exact, shortest),
`S<n>:<text>`, `B[I..;…]` bytes, `P<v>` pointer, `[v…]` slice, `{<key:Str><v>…}` map,
`<`T V`>` interface, `(v…)` struct -/
partial def pGoVal : P GoVal
  | 'N' :: cs => some (.nil, cs)
  | 'T' :: cs => some (.bool true, cs)
  | 'F' :: cs => some (.bool false, cs)
  | 'I' :: cs =>
    match pInt cs with
    | some (i, ';' :: r) => some (.int i, r)
    | _ => none
  | 'D' :: cs =>
    match pValue ('D' :: cs) with
    | some (v, r) => (floatUnits v).map fun (u, z) => (.float u z, r)
    | none => none
  | 'G' :: cs =>
    match pValue cs with
    | some (v1, r1) =>
      match pValue r1 with
      | some (v2, r2) =>
        match floatUnits v1, floatUnits v2 with
        | some (u, z), some (s, _) => some (.float32 u z s, r2)
        | _, _ => none
      | none => none
    | none => none
  | 'S' :: cs => (pStrBody cs).map fun (s, r) => (.str s, r)
  | 'B' :: '[' :: cs =>
    match pValues cs [] with
    | some (l, r) =>
      let bs := l.filterMap fun v => match v with | .int i => some i.toNat | _ => none
      if bs.length == l.length then some (.bytes bs, r) else none
    | none => none
  | 'P' :: cs => (pGoVal cs).map fun (v, r) => (.ptr v, r)
  | '[' :: cs => (pGoVals ']' cs []).map fun (l, r) => (.slice l, r)
  | '(' :: cs => (pGoVals ')' cs []).map fun (l, r) => (.struct l, r)
  | '{' :: cs => (pGoEntries cs []).map fun (m, r) => (.map m, r)
  | '<' :: cs =>
    match pGoType cs with
    | some (t, r) =>
      match pGoVal r with
      | some (v, '>' :: r') => some (.iface t v, r')
      | _ => none
    | none => none
  | _ => none
partial def pGoVals (stop : Char) (cs : List Char) (acc : List GoVal) : Option (List GoVal × List Char) :=
  match cs with
  | c :: r =>
    if c == stop then some (acc.reverse, r)
    else match pGoVal cs with
      | some (v, r') => pGoVals stop r' (v :: acc)
      | none => none
  | [] => none
partial def pGoEntries (cs : List Char) (acc : List (String × GoVal)) : Option (List (String × GoVal) × List Char) :=
  match cs with
  | '}' :: r => some (acc.reverse, r)
  | _ =>
    match pStr cs with
    | some (k, r) =>
      match pGoVal r with
      | some (v, r') => pGoEntries r' ((k, v) :: acc)
      | none => none
    | none => none
end

def encOptValue : Option Value → String
  | some v => encValue v
  | none => "unsupported"

/-- `Q` step* `;` with step = `k<Str>` (a key) or `i<digits>;` (an index) -/
def pStep : P Step
  | 'k' :: cs => (pStr cs).map fun (s, r) => (.key s, r)
  | 'i' :: cs =>
    match pNat cs with
    | some (i, ';' :: r) => some (.index i, r)
    | _ => none
  | _ => none

def pSteps : P (List Step)
  | 'Q' :: cs => pMany pStep ';' cs []
  | _ => none

/-- `ok <Value>` (the reading of the whole root afterwards), `refused`, `panic`; `unsupported` when the
input does not type-check (`hasTypeB (2^64)`: every uint in the range of Go's 64-bit uint) or the result
cannot be read -/
def encSetOutcome (t : GoType) (root : GoVal) (o : SetOutcome) : String :=
  if !GoVal.hasTypeB (2 ^ 64) t root then "unsupported"
  else match o with
    | .ok root' =>
      (match reflectV t root' with
       | some v => "ok " ++ encValue v
       | none => "unsupported")
    | .refused => "refused"
    | .panic => "panic"

def opsRfl : List (String × P String) := [
  ("rfl.conv", arg pGoType fun t => arg pGoVal fun v => done (encOptValue (reflectV t v))),
  -- a uint of 2^63 or more is decoded by the harness's reference into a float64 (it does not fit int64):
  -- outside the numbers `jsonV` models, the line is judged on the implementation only
  ("rfl.json", arg pGoType fun t => arg pGoVal fun v =>
      done (if GoVal.hasTypeB (2 ^ 63) t v || !GoVal.hasType t v then encOptValue (jsonV t v) else "unsupported")),
  ("rfl.set", arg pGoType fun t => arg pGoVal fun v => arg pSteps fun p => arg pStr fun k => arg pValue fun x =>
      done (encSetOutcome t v (goSetAt t v p k x))),
  ("rfl.del", arg pGoType fun t => arg pGoVal fun v => arg pSteps fun p => arg pStr fun k =>
      done (encSetOutcome t v (goDeleteAt t v p k)))
]

end Driver
