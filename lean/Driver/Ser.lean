/- field-set serialisation (domain `ser`) -/
import Driver.Ops
import SMD.Model.Serialize
import SMD.Spec.SetWF
open SMD SMD.Wire SMD.Ser
namespace Driver

partial def encJ : J → String
  | .obj ms => "O[" ++ String.join (ms.map fun (k, v) => "(" ++ encStr k ++ encJ v ++ ")") ++ "]"
  | .null => "N"
  | .other => "X"

partial def pJ : P J
  | 'N' :: cs => some (.null, cs)
  | 'X' :: cs => some (.other, cs)
  | 'O' :: '[' :: cs =>
    let pMember : P (String × J) := fun cs =>
      match cs with
      | '(' :: r =>
        match pStr r with
        | some (k, r1) =>
          match pJ r1 with
          | some (v, ')' :: r2) => some ((k, v), r2)
          | _ => none
        | none => none
      | _ => none
    (pMany pMember ']' cs []).map fun (ms, r) => (.obj ms, r)
  | _ => none

def opsSer : List (String × P String) := [
  ("ser.pe", arg pPE fun pe =>
      done (match serializePE pe with
        | some s => encStr s
        | none => "unsupported")),
  ("ser.depe", arg pStr fun key =>
      done (match deserializePE key with
        | .ok pe => "ok " ++ encPE pe
        | .error .unknownType => "unknown"
        | .error .bad => "err"
        | .error .unsupported => "unsupported")),
  ("ser.emit", arg pPaths fun ps =>
      done (match toJSON (SetTrie.ofPaths ps) with
        | some j => encJ j
        | none => "unsupported")),
  ("ser.read", arg pJ fun j =>
      done (match fromJSON j with
        | .ok s => encTrie s ++ " wf=" ++ encBool s.wf
        | .err => "err"
        | .unsupported => "unsupported"))
]

end Driver
