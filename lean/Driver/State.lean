import SMD.Model.Wire
import SMD.Model.Updater
open SMD SMD.Wire
namespace Driver

/-- driver state: the schema the following typed operations refer to, and the state of a history -/
structure State where
  schema : Schema := ⟨[]⟩
  rootType : TypeRef := TypeRef.zero
  live : Value := .null
  managers : Managed := []
  updater : Updater := { converter := Converter.identity, ignore := fun _ => none }

end Driver
