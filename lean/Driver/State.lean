import SMD.Model.Wire
import SMD.Model.Updater
open SMD SMD.Wire
namespace Driver

/-- driver state: the schema the following typed operations refer to, and the state of a history -/
structure State where
  schema : Schema := ⟨[]⟩
  rootType : TypeRef := TypeRef.zero
  live : Value := .null
  managers : Managed := []
  updater : Updater := { converter := Converter.identity, ignore := fun _ => none }
  -- multi-version mode: the version label is the name of the object's type; the live object is
  -- converted to the request's version before each call (as `internal/fixture` does)
  multiVersion : Bool := false

end Driver
