import SMD.Model.Wire
import SMD.Model.Compare
open SMD SMD.Wire
namespace Driver

/-- driver state: the schema the following typed operations refer to -/
structure State where
  schema : Schema := ⟨[]⟩

end Driver
