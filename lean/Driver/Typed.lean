/- typed-value operations of the line protocol (domain `typ`) -/
import Driver.Ops
import Driver.State
import SMD.Model.GenericMap
open SMD SMD.Wire
namespace Driver

def pFlag : P Bool
  | 'T' :: cs => some (true, cs)
  | 'F' :: cs => some (false, cs)
  | _ => none

def encRes {α : Type} (f : α → String) : Res α → String
  | .ok a => f a
  | .err => "err"
  | .panic => "panic"

def encCmp (c : Comparison) : String :=
  "r=" ++ encTrie c.removed ++ " m=" ++ encTrie c.modified ++ " a=" ++ encTrie c.added ++
    " same=" ++ encBool c.isSame

/-- validate both operands first (as the harness does with AsTyped); `invalid` if either fails -/
def withTyped2 (s : Schema) (tr : TypeRef) (dl : Bool) (v1 : Value) (dr : Bool) (v2 : Value)
    (k : TV → TV → String) : String :=
  match asTyped s v1 tr dl, asTyped s v2 tr dr with
  | .ok a, .ok b => k a b
  | .panic, _ | _, .panic => "panic"
  | _, _ => "invalid"

def opsTyped (st : State) : List (String × P String) :=
  let s := st.schema
  [
  -- generic map interface: Set then Delete on a map value; prints the map after each step
  ("gmap.ops", arg pFields fun m => arg pStr fun k => arg pValue fun v => arg pStr fun d =>
      let m1 := mapSet k v m
      let m2 := mapDelete d m1
      done (encFields m1 ++ " " ++ encFields m2 ++ " has=" ++ encBool (mapHas d m2) ++ " len=" ++ toString m2.length)),
  ("sch.equals", arg pSchema fun a => arg pSchema fun b => done (encBool (Schema.equals a b))),
  ("typ.validate", arg pTypeRef fun tr => arg pFlag fun dup => arg pValue fun v =>
      done (encRes (fun _ => "ok") (validateV s dup tr v))),
  ("typ.fs", arg pTypeRef fun tr => arg pFlag fun dup => arg pValue fun v =>
      done (match asTyped s v tr dup with
        | .ok tv => encRes encTrie (toFieldSet s tv)
        | .panic => "panic"
        | .err => "invalid")),
  ("typ.cmp", arg pTypeRef fun tr => arg pFlag fun dl => arg pValue fun v1 => arg pFlag fun dr => arg pValue fun v2 =>
      done (withTyped2 s tr dl v1 dr v2 fun a b => encRes encCmp (compareTV s a b))),
  ("typ.xops", arg pTypeRef fun tr1 => arg pValue fun v1 => arg pTypeRef fun tr2 => arg pValue fun v2 =>
      done (match asTyped s v1 tr1 true, asTyped s v2 tr2 true with
        | .ok a, .ok b =>
          "cmp=" ++ encRes encCmp (compareTV s a b) ++ " merge=" ++ encRes (fun tv => encValue tv.value) (mergeTV s a b)
        | .panic, _ | _, .panic => "panic"
        | _, _ => "invalid")),
  ("typ.merge", arg pTypeRef fun tr => arg pFlag fun dl => arg pValue fun v1 => arg pFlag fun dr => arg pValue fun v2 =>
      done (withTyped2 s tr dl v1 dr v2 fun a b => encRes (fun tv => encValue tv.value) (mergeTV s a b))),
  ("typ.remove", arg pTypeRef fun tr => arg pFlag fun dup => arg pValue fun v => arg pPaths fun ps =>
      done (match asTyped s v tr dup with
        | .ok tv => encValue (removeItemsTV s tv (SetTrie.ofPaths ps)).value
        | .panic => "panic"
        | .err => "invalid")),
  ("typ.extract", arg pTypeRef fun tr => arg pFlag fun dup => arg pValue fun v => arg pPaths fun ps => arg pFlag fun keys =>
      done (match asTyped s v tr dup with
        | .ok tv => encValue (extractItemsTV s tv (SetTrie.ofPaths ps) keys).value
        | .panic => "panic"
        | .err => "invalid"))
  ]

end Driver
