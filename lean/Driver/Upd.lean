/- histories of Apply / Update (domain `upd`) -/
import Driver.Typed
import SMD.Model.UpdaterOrd
open SMD SMD.Wire
namespace Driver

def encManaged (m : Managed) : String :=
  "mf[" ++ String.join (m.map fun (k, vs) =>
    "(" ++ encStr k ++ encStr vs.version ++ (if vs.applied then "T" else "F") ++ encTrie vs.set ++ ")") ++ "]"

def encConflicts (c : List (String × Path)) : String :=
  "conflict[" ++ String.join (c.map fun (m, p) => "(" ++ encStr m ++ encPath p ++ ")") ++ "]"

/-- ignore configuration: `n` none | `x<Z paths>` exclusion set (all versions) | `i<matcher>*;` include patterns -/
partial def pSetMatcher : P SetMatcher
  | 'W' :: cs => some (SetMatcher.any, cs)
  | 'M' :: cs =>
    let pMember : P (PEMatcher × SetMatcher) := fun cs =>
      match cs with
      | '(' :: r =>
        match pMatcher r with
        | some (pm, r1) =>
          match pSetMatcher r1 with
          | some (child, ')' :: r2) => some ((pm, child), r2)
          | _ => none
        | none => none
      | _ => none
    (pMany pMember ';' cs []).map fun (ms, r) => (SetMatcher.mk false ms, r)
  | _ => none

/-- a matcher tree built with `NewSetMatcher`: `W` = `MatchAnySet()`, `N<T|F>(<matcher><tree>)*;` =
`NewSetMatcher(wildcard, members...)` (the members in argument order: `SetMatcher.new` sorts them) -/
partial def pSetMatcherN : P SetMatcher
  | 'W' :: cs => some (SetMatcher.any, cs)
  | 'N' :: cs =>
    match pFlag cs with
    | some (w, r) =>
      let pMember : P (PEMatcher × SetMatcher) := fun cs =>
        match cs with
        | '(' :: r =>
          match pMatcher r with
          | some (pm, r1) =>
            match pSetMatcherN r1 with
            | some (child, ')' :: r2) => some ((pm, child), r2)
            | _ => none
          | none => none
        | _ => none
      (pMany pMember ';' r []).map fun (ms, r') => (SetMatcher.new w ms, r')
    | none => none
  | _ => none

/-- a prefix pattern `p<matcher>*;` (the argument list of `PrefixMatcher`) -/
def pPrefixPattern : P (List PEMatcher)
  | 'p' :: cs => pMany pMatcher ';' cs []
  | _ => none

def pIgnore : P (Option Filter)
  | 'n' :: cs => some (none, cs)
  | 'x' :: cs => (pPaths cs).map fun (ps, r) => (some (.exclude (SetTrie.ofPaths ps)), r)
  | 'i' :: cs =>
    (pMany pPrefixPattern ';' cs []).map fun (pats, r) =>
      (some (.include (SetMatcher.mergeAll (pats.map SetMatcher.ofPrefix))), r)
  | 't' :: cs =>
    (pMany pSetMatcherN ';' cs []).map fun (ms, r) => (some (.include (SetMatcher.mergeAll ms)), r)
  | _ => none

/-- an ignore configuration given per API version: `@[<version>*]<cfg>` restricts `<cfg>` to the listed
versions (a version without an entry has nothing ignored); without the prefix it is given for every version -/
def pIgnoreV : P (String → Option Filter)
  | '@' :: '[' :: cs =>
    match pMany pStr ']' cs [] with
    | some (vs, r) => (pIgnore r).map fun (ig, r') => ((fun v => if vs.contains v then ig else none), r')
    | none => none
  | cs => (pIgnore cs).map fun (ig, r) => ((fun _ => ig), r)

/-- all permutations of a (short) list -/
def perms {α : Type} : List α → List (List α)
  | [] => [[]]
  | x :: xs => (perms xs).flatMap fun p => (List.range (p.length + 1)).map fun i => p.take i ++ [x] ++ p.drop i

def pManaged : P Managed
  | 'm' :: 'f' :: '[' :: cs =>
    let pEntry : P (String × VersionedSet) := fun cs =>
      match cs with
      | '(' :: r =>
        match pStr r with
        | some (k, r1) =>
          match pStr r1 with
          | some (ver, r2) =>
            match pFlag r2 with
            | some (ap, r3) =>
              match pTrie r3 with
              | some (t, ')' :: r4) => some ((k, ⟨t, ver, ap⟩), r4)
              | _ => none
            | none => none
          | none => none
        | none => none
      | _ => none
    pMany pEntry ']' cs []
  | _ => none

def pOptValue : P (Option Value)
  | '_' :: cs => some (none, cs)
  | cs => (pValue cs).map fun (v, r) => (some v, r)

/-- set-level filter operations (domain `flt`) -/
def opsFlt (st : State) : List (String × P String) :=
  let s := st.schema
  [
  ("flt.apply", arg pPaths fun ps => arg pIgnore fun ig =>
      done (match ig with
        | some f => encTrie (f.apply (SetTrie.ofPaths ps))
        | none => encTrie (SetTrie.ofPaths ps))),
  ("flt.ensure", arg pTypeRef fun tr => arg pPaths fun ps =>
      done (encTrie ((SetTrie.ofPaths ps).ensureNamed s tr))),
  ("rec.reconcile", arg pTypeRef fun tr => arg pPaths fun ps =>
      done (match reconcileFieldSet s (SetTrie.ofPaths ps) tr with
        | .ok (some t) => encTrie t
        | .ok none => "unchanged"
        | .err => "err"
        | .panic => "panic"))
  ]

def stepUpd (st : State) (name : String) (rest : List Char) : Option (State × String) :=
  let s := st.schema
  match name with
  | "upd.reset" =>
    (arg pTypeRef fun tr => arg pIgnoreV fun ig => arg pFlag fun noop => done (tr, ig, noop)) rest |>.map fun ((tr, ig, noop), _) =>
      ({ st with rootType := tr, live := .null, managers := [],
                 updater := { converter := Converter.identity, ignore := ig, returnInputOnNoop := noop } }, "ok")
  | "upd.mode" =>
    (arg pFlag fun ren => done ren) rest |>.map fun (ren, _) =>
      ({ st with multiVersion := ren,
                 updater := { st.updater with converter := if ren then Converter.renaming else Converter.identity } }, "ok")
  | "upd.conv" =>
    -- converter configuration: versions reported missing / failing with an ordinary error
    let pStrs : P (List String) := fun cs => match cs with
      | '[' :: r => pMany pStr ']' r []
      | _ => none
    (arg pStrs fun missing => arg pStrs fun failing => done (missing, failing)) rest |>.map fun ((missing, failing), _) =>
      ({ st with updater := { st.updater with converter :=
          ⟨fun tv v => if failing.contains v then .fail else if missing.contains v then .missing else .ok tv⟩ } }, "ok")
  | "upd.apply" =>
    (arg pStr fun mgr => arg pStr fun ver => arg pFlag fun force => arg pValue fun cfg => done (mgr, ver, force, cfg)) rest |>.map
      fun ((mgr, ver, force, cfg), _) =>
        let st := if st.multiVersion then
            let tr := TypeRef.mk (some ver) Atom.none none
            match st.updater.converter.convert ⟨st.live, st.rootType⟩ ver with
            | .ok tv => { st with live := (if st.rootType.named.isSome then tv.value else st.live), rootType := tr }
            | _ => { st with rootType := tr }
          else st
        match asTyped s cfg st.rootType false with
        | .err => (st, "invalid")
        | .panic => (st, "panic")
        | .ok tv =>
          let render (r : Outcome (Option TV × Managed)) : String :=
            match r with
            | .ok (obj, mf) => "ok obj=" ++ (match obj with | some o => encValue o.value | none => "_") ++ " " ++ encManaged mf
            | .conflict c => encConflicts c
            | .err => "err"
            | .panic => "panic"
          let base := apply st.updater s ⟨st.live, st.rootType⟩ tv ver st.managers mgr force
          -- every iteration order of the versions visited by addBackOwnedItems
          let nRest := (managedAtVersion (mfSet st.managers mgr ⟨SetTrie.empty, ver, true⟩)).length
          let idxPerms := perms (List.range nRest)
          let alts := idxPerms.map fun ip =>
            render (applyOrd (fun l => if l.length ≤ 1 then l else (ip.filterMap fun i => l[i]?) ++ l.drop ip.length)
              st.updater s ⟨st.live, st.rootType⟩ tv ver st.managers mgr force)
          let alts := (alts.foldl (fun acc a => if acc.contains a then acc else acc ++ [a]) [render base])
          let st' := match base with
            | .ok (obj, mf) => { st with live := (match obj with | some o => o.value | none => st.live), managers := mf }
            | _ => st
          if alts.length ≤ 1 then (st', render base)
          else (st', "nondet{" ++ String.intercalate " || " alts ++ "}")
  | "upd.sync" =>
    -- adopt the implementation's state (after a step whose outcome depends on Go's map order)
    (arg pValue fun live => arg pManaged fun mf => done (live, mf)) rest |>.map fun ((live, mf), _) =>
      ({ st with live := live, managers := mf }, "ok")
  | "upd.update" =>
    (arg pStr fun mgr => arg pStr fun ver => arg pValue fun obj => done (mgr, ver, obj)) rest |>.map
      fun ((mgr, ver, obj), _) =>
        let st := if st.multiVersion then
            let tr := TypeRef.mk (some ver) Atom.none none
            match st.updater.converter.convert ⟨st.live, st.rootType⟩ ver with
            | .ok tv => { st with live := (if st.rootType.named.isSome then tv.value else st.live), rootType := tr }
            | _ => { st with rootType := tr }
          else st
        match asTyped s obj st.rootType true with
        | .err => (st, "invalid")
        | .panic => (st, "panic")
        | .ok tv =>
          match update st.updater s ⟨st.live, st.rootType⟩ tv ver st.managers mgr with
          | .ok mf => ({ st with live := tv.value, managers := mf }, "ok " ++ encManaged mf)
          | .conflict c => (st, encConflicts c)
          | .err => (st, "err")
          | .panic => (st, "panic")
  | _ => none

end Driver
