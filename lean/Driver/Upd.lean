/- histories of Apply / Update (domain `upd`) -/
import Driver.Typed
open SMD SMD.Wire
namespace Driver

def encManaged (m : Managed) : String :=
  "mf[" ++ String.join (m.map fun (k, vs) =>
    "(" ++ encStr k ++ encStr vs.version ++ (if vs.applied then "T" else "F") ++ encTrie vs.set ++ ")") ++ "]"

def encConflicts (c : List (String × Path)) : String :=
  "conflict[" ++ String.join (c.map fun (m, p) => "(" ++ encStr m ++ encPath p ++ ")") ++ "]"

/-- ignore configuration: `n` none | `x<Z paths>` exclusion set (all versions) | `i<matcher>*;` include patterns -/
partial def pSetMatcher : P SetMatcher
  | 'W' :: cs => some (SetMatcher.any, cs)
  | 'M' :: cs =>
    let pMember : P (PEMatcher × SetMatcher) := fun cs =>
      match cs with
      | '(' :: r =>
        match pMatcher r with
        | some (pm, r1) =>
          match pSetMatcher r1 with
          | some (child, ')' :: r2) => some ((pm, child), r2)
          | _ => none
        | none => none
      | _ => none
    (pMany pMember ';' cs []).map fun (ms, r) => (SetMatcher.mk false ms, r)
  | _ => none

/-- a prefix pattern `p<matcher>*;` (the argument list of `PrefixMatcher`) -/
def pPrefixPattern : P (List PEMatcher)
  | 'p' :: cs => pMany pMatcher ';' cs []
  | _ => none

def pIgnore : P (Option Filter)
  | 'n' :: cs => some (none, cs)
  | 'x' :: cs => (pPaths cs).map fun (ps, r) => (some (.exclude (SetTrie.ofPaths ps)), r)
  | 'i' :: cs =>
    (pMany pPrefixPattern ';' cs []).map fun (pats, r) =>
      (some (.include (SetMatcher.mergeAll (pats.map SetMatcher.ofPrefix))), r)
  | _ => none

def pOptValue : P (Option Value)
  | '_' :: cs => some (none, cs)
  | cs => (pValue cs).map fun (v, r) => (some v, r)

/-- set-level filter operations (domain `flt`) -/
def opsFlt (st : State) : List (String × P String) :=
  let s := st.schema
  [
  ("flt.apply", arg pPaths fun ps => arg pIgnore fun ig =>
      done (match ig with
        | some f => encTrie (f.apply (SetTrie.ofPaths ps))
        | none => encTrie (SetTrie.ofPaths ps))),
  ("flt.ensure", arg pTypeRef fun tr => arg pPaths fun ps =>
      done (encTrie ((SetTrie.ofPaths ps).ensureNamed s tr))),
  ("rec.reconcile", arg pTypeRef fun tr => arg pPaths fun ps =>
      done (match reconcileFieldSet s (SetTrie.ofPaths ps) tr with
        | .ok (some t) => encTrie t
        | .ok none => "unchanged"
        | .err => "err"
        | .panic => "panic"))
  ]

def stepUpd (st : State) (name : String) (rest : List Char) : Option (State × String) :=
  let s := st.schema
  match name with
  | "upd.reset" =>
    (arg pTypeRef fun tr => arg pIgnore fun ig => arg pFlag fun noop => done (tr, ig, noop)) rest |>.map fun ((tr, ig, noop), _) =>
      ({ st with rootType := tr, live := .null, managers := [],
                 updater := { converter := Converter.identity, ignore := fun _ => ig, returnInputOnNoop := noop } }, "ok")
  | "upd.apply" =>
    (arg pStr fun mgr => arg pStr fun ver => arg pFlag fun force => arg pValue fun cfg => done (mgr, ver, force, cfg)) rest |>.map
      fun ((mgr, ver, force, cfg), _) =>
        match asTyped s cfg st.rootType false with
        | .err => (st, "invalid")
        | .panic => (st, "panic")
        | .ok tv =>
          match apply st.updater s ⟨st.live, st.rootType⟩ tv ver st.managers mgr force with
          | .ok (obj, mf) =>
            let live' := match obj with | some o => o.value | none => st.live
            ({ st with live := live', managers := mf },
              "ok obj=" ++ (match obj with | some o => encValue o.value | none => "_") ++ " " ++ encManaged mf)
          | .conflict c => (st, encConflicts c)
          | .err => (st, "err")
          | .panic => (st, "panic")
  | "upd.update" =>
    (arg pStr fun mgr => arg pStr fun ver => arg pValue fun obj => done (mgr, ver, obj)) rest |>.map
      fun ((mgr, ver, obj), _) =>
        match asTyped s obj st.rootType true with
        | .err => (st, "invalid")
        | .panic => (st, "panic")
        | .ok tv =>
          match update st.updater s ⟨st.live, st.rootType⟩ tv ver st.managers mgr with
          | .ok mf => ({ st with live := tv.value, managers := mf }, "ok " ++ encManaged mf)
          | .conflict c => (st, encConflicts c)
          | .err => (st, "err")
          | .panic => (st, "panic")
  | _ => none

end Driver
