import SMD.Model.Value
import SMD.Model.Path
import SMD.Model.SetTrie
import SMD.Model.Wire
import SMD.Properties.All
import SMD.Spec.SetWF
