/-
Model of `typed/compare.go` (compareWalker) and `typed/merge.go` (mergingWalker, ruleKeepRHS).

Both walkers descend into two values at once (either of which may be absent), so the recursion is on
an explicit `fuel` (one unit per level of nesting); `Value.depth` bounds the fuel needed.
-/
import SMD.Model.Typed
namespace SMD

mutual
def Value.depth : Value → Nat
  | .list l => Value.depthList l + 1
  | .map m => Value.depthFields m + 1
  | _ => 1
def Value.depthList : List Value → Nat
  | [] => 0
  | v :: vs => max (Value.depth v) (Value.depthList vs)
def Value.depthFields : List (String × Value) → Nat
  | [] => 0
  | (_, v) :: vs => max (Value.depth v) (Value.depthFields vs)
end

def optDepth : Option Value → Nat
  | some v => v.depth
  | none => 0

/-- the three path lists of a `typed.Comparison`, relative to the visited node, in insertion order -/
structure Cmp where
  removed : List Path := []
  modified : List Path := []
  added : List Path := []
  deriving Inhabited, Repr

namespace Cmp
def append (a b : Cmp) : Cmp :=
  ⟨a.removed ++ b.removed, a.modified ++ b.modified, a.added ++ b.added⟩
instance : Append Cmp := ⟨append⟩
def pre (pe : PE) (c : Cmp) : Cmp :=
  ⟨c.removed.map (pe :: ·), c.modified.map (pe :: ·), c.added.map (pe :: ·)⟩
end Cmp

/-- `compareWalker.doLeaf` on a node not yet in a leaf -/
def leafCmp (l r : Option Value) : Cmp :=
  match l, r with
  | none, _ => { added := [[]] }
  | some _, none => { removed := [[]] }
  | some a, some b => if !Value.equals b a then { modified := [[]] } else {}

/-- `derefList`: the list content when the value is a list (errors of `listValue` are ignored) -/
def asList : Option Value → Option (List Value)
  | some (.list l) => some l
  | _ => none

/-- `derefMap` -/
def asMap : Option Value → Option (List (String × Value))
  | some (.map m) => some m
  | _ => none

def emptyOrAbsent {α : Type} : Option (List α) → Bool
  | none => true
  | some l => l.isEmpty

/-- group the items of a list by path element (`lValues` / `rValues` of compare.go:216-262):
the sorted `PathElementMap` from element to its items in order, and the first occurrences in order -/
def groupItems (s : Schema) (t : ListT) :
    List Value → List (PE × List Value) → List PE → Res (List (PE × List Value) × List PE)
  | [], m, order => .ok (m, order.reverse)
  | item :: rest, m, order =>
    match listItemToPE s t item with
    | .ok pe =>
      (match pemGet pe m with
       | some lst => groupItems s t rest (pemInsert pe (lst ++ [item]) m) order
       | none => groupItems s t rest (pemInsert pe [item] m) (pe :: order))
    | .err => .err
    | .panic => .panic

def listEqualValues : List Value → List Value → Bool
  | [], [] => true
  | a :: as, b :: bs => Value.equals a b && listEqualValues as bs
  | _, _ => false

/-- keys of the unordered `MapZip`: all of lhs, then those only in rhs -/
def zipKeys (l r : List (String × Value)) : List String :=
  l.map (·.1) ++ (r.filter (fun kv => (lookupField kv.1 l).isNone)).map (·.1)

/-- `compareWalker.compare` (typed/compare.go:107-141). Returns the comparison relative to this node. -/
def cmpNode (s : Schema) : Nat → Option Value → Option Value → TypeRef → Res Cmp
  | 0, _, _, _ => .err
  | fuel + 1, l, r, tr =>
    if l.isNone && r.isNone then .err
    else
      match s.resolve tr with
      | none => if tr.named.isNone then .panic else .err
      | some a =>
        let al := deduceAtom a l
        let ar := deduceAtom a r
        -- handleAtom with the comparing handler; the Bool is `w.inLeaf` afterwards
        let handle (atom : Atom) : Res (Cmp × Bool) :=
          match atomKind atom with
          | .invalid => .err
          | .scalar t =>
            if !validateScalar t l && !validateScalar t r then .err
            else .ok (leafCmp l r, true)
          | .list t =>
            let ll := asList l
            let rl := asList r
            if t.rel == "atomic" || (emptyOrAbsent ll && emptyOrAbsent rl) then .ok (leafCmp l r, true)
            else
              -- visitListItems (typed/compare.go:216-336)
              match groupItems s t (ll.getD []) [] [] with
              | .err => .err
              | .panic => .panic
              | .ok (lv, lorder) =>
                match groupItems s t (rl.getD []) [] [] with
                | .err => .err
                | .panic => .panic
                | .ok (rv, rorder) =>
                  let allPEs := lorder ++ rorder.filter (fun pe => (pemGet pe lv).isNone)
                  let step (acc : Res Cmp) (pe : PE) : Res Cmp :=
                    match acc with
                    | .ok c =>
                      let lList := (pemGet pe lv).getD []
                      let rList := (pemGet pe rv).getD []
                      let item (lc rc : Option Value) : Res Cmp :=
                        match cmpNode s fuel lc rc t.elementType with
                        | .ok ci => .ok (ci.pre pe)
                        | e => e
                      if lList.length ≤ 1 && rList.length ≤ 1 then
                        (match item lList.head? rList.head? with
                         | .ok ci => .ok (c ++ ci)
                         | e => e)
                      else if lList.length ≥ 2 && rList.length ≥ 2 then
                        if !listEqualValues lList rList then .ok (c ++ { modified := [[pe]] }) else .ok c
                      else if lList.length ≥ 2 then
                        (match (if rList.isEmpty then Res.ok ({} : Cmp) else item none rList.head?) with
                         | .ok ci => .ok (c ++ ci ++ { removed := [[pe]] })
                         | e => e)
                      else
                        (match (if lList.isEmpty then Res.ok ({} : Cmp) else item lList.head? none) with
                         | .ok ci => .ok (c ++ ci ++ { added := [[pe]] })
                         | e => e)
                    | e => e
                  (match allPEs.foldl step (.ok {}) with
                   | .ok c => .ok (c, false)
                   | .err => .err
                   | .panic => .panic)
          | .map t =>
            let lm := asMap l
            let rm := asMap r
            if t.rel == "atomic" || (emptyOrAbsent lm && emptyOrAbsent rm) then .ok (leafCmp l r, true)
            else
              let lf := lm.getD []
              let rf := rm.getD []
              let step (acc : Res Cmp) (k : String) : Res Cmp :=
                match acc with
                | .ok c =>
                  (match cmpNode s fuel (lookupField k lf) (lookupField k rf) (fieldType t k) with
                   | .ok ci => .ok (c ++ ci.pre (.field k))
                   | e => e)
                | e => e
              (match (zipKeys lf rf).foldl step (.ok {}) with
               | .ok c => .ok (c, false)
               | .err => .err
               | .panic => .panic)
        let handled : Res (Cmp × Bool) :=
          if r.isNone then handle al
          else if l.isNone || Atom.equals al ar then handle ar
          else
            match handle al with
            | .ok (c1, _) =>
              (match handle ar with
               | .ok (c2, leaf) => .ok (c1 ++ c2, leaf)
               | e => e)
            | e => e
        match handled with
        | .ok (c, leaf) =>
          if !leaf then
            if l.isNone then .ok (c ++ { added := [[]] })
            else if r.isNone then .ok (c ++ { removed := [[]] })
            else .ok c
          else .ok c
        | .err => .err
        | .panic => .panic

/-- `typed.Comparison` as three sets -/
structure Comparison where
  removed : SetTrie
  modified : SetTrie
  added : SetTrie

def Comparison.isSame (c : Comparison) : Bool :=
  c.removed.isEmpty && c.modified.isEmpty && c.added.isEmpty

/-- `TypedValue.Compare` -/
def compareTV (s : Schema) (l r : TV) : Res Comparison :=
  if !TypeRef.equals l.type r.type then .err
  else
    match cmpNode s (l.value.depth + r.value.depth + 2) (some l.value) (some r.value) l.type with
    | .ok c => .ok ⟨SetTrie.ofPaths c.removed, SetTrie.ofPaths c.modified, SetTrie.ofPaths c.added⟩
    | .err => .err
    | .panic => .panic

/-! ### merge -/

/-- `mergingWalker.indexListPathElements` (typed/merge.go:286-313): the path element of every item (with
the item) and the sorted `observed` map; a repeated element maps to an explicit null when repeats
are allowed (left side) and is an error otherwise (right side). -/
def indexPEs (s : Schema) (t : ListT) (allowDup : Bool) :
    List Value → List (PE × Value) → List (PE × Value) → Res (List (PE × Value) × List (PE × Value))
  | [], pes, obs => .ok (pes.reverse, obs)
  | child :: rest, pes, obs =>
    match listItemToPE s t child with
    | .ok pe =>
      (match pemGet pe obs with
       | some _ =>
         if !allowDup then .err
         else indexPEs s t allowDup rest ((pe, child) :: pes) (pemInsert pe .null obs)
       | none => indexPEs s t allowDup rest ((pe, child) :: pes) (pemInsert pe child obs))
    | .err => .err
    | .panic => .panic

def dropHeadIf (shared : List PE) (pe : PE) : List PE :=
  match shared with
  | h :: t => if PE.equals h pe then t else shared
  | [] => []

/-- the interleaving loop of `mergingWalker.visitListItems` (typed/merge.go:208-275).
`ls`: remaining left elements with their items; `rs`: remaining right elements; `shared`: the shared
elements not yet merged, in right order (head = `nextShared`); `merged`: `mergedRHS`; `out` reversed.
`steps` bounds the iterations (each one consumes a left or a right element). -/
def mergeLoop (item : PE → Option Value → Option Value → Res (Option Value))
    (obsL obsR : List (PE × Value)) :
    Nat → List (PE × Value) → List PE → List PE → List PE → List Value → Res (List Value)
  | _, [], [], _, _, out => .ok out.reverse
  | 0, _, _, _, _, _ => .err
  | steps + 1, ls, rs, shared, merged, out =>
    let push (o : Option Value) (out : List Value) : List Value :=
      match o with
      | some v => v :: out
      | none => out
    -- third block: take the right item
    let takeRight (ls : List (PE × Value)) : Res (List Value) :=
      match rs with
      | [] => mergeLoop item obsL obsR steps ls [] shared merged out
      | rpe :: rs' =>
        match item rpe (pemGet rpe obsL) (pemGet rpe obsR) with
        | .ok o => mergeLoop item obsL obsR steps ls rs' (dropHeadIf shared rpe) (peInsert rpe merged) (push o out)
        | .err => .err
        | .panic => .panic
    -- second block: left-only item, or skip an already merged shared one
    let second : Res (List Value) :=
      match ls with
      | [] => takeRight []
      | (pe, lItem) :: ls' =>
        if (pemGet pe obsR).isNone then
          match item pe (some lItem) none with
          | .ok o => mergeLoop item obsL obsR steps ls' rs shared merged (push o out)
          | .err => .err
          | .panic => .panic
        else if peHas pe merged then takeRight ls'
        else takeRight ls
    match ls, rs with
    | (pe, _) :: ls', rpe :: rs' =>
      if PE.equals pe rpe then
        match item pe (pemGet pe obsL) (pemGet pe obsR) with
        | .ok o =>
          mergeLoop item obsL obsR steps ls' rs' shared.tail (peInsert pe merged) (push o out)
        | .err => .err
        | .panic => .panic
      else if (pemGet pe obsR).isSome && !shared.isEmpty && !(PE.equals (shared.headD .invalid) pe) then
        mergeLoop item obsL obsR steps ls' rs shared merged out
      else second
    | _, _ => second

/-- `mergingWalker.merge` with `ruleKeepRHS` (typed/merge.go:67-102). Result = Go's `w.out`. -/
def mergeNode (s : Schema) : Nat → Option Value → Option Value → TypeRef → Res (Option Value)
  | 0, _, _, _ => .err
  | fuel + 1, l, r, tr =>
    if l.isNone && r.isNone then .err
    else
      match s.resolve tr with
      | none => if tr.named.isNone then .panic else .err
      | some a =>
        let al := deduceAtom a l
        let ar := deduceAtom a r
        let keepRHS : Option Value := match r with | some v => some v | none => l
        let handle (atom : Atom) : Res (Option Value) :=
          match atomKind atom with
          | .invalid => .err
          | .scalar t =>
            if !validateScalar t l && !validateScalar t r then .err else .ok keepRHS
          | .list t =>
            let ll := asList l
            let rl := asList r
            if t.rel == "atomic" || (emptyOrAbsent ll && emptyOrAbsent rl) then .ok keepRHS
            else
              match indexPEs s t false (rl.getD []) [] [] with
              | .err => .err
              | .panic => .panic
              | .ok (rpes, obsR) =>
                match indexPEs s t true (ll.getD []) [] [] with
                | .err => .err
                | .panic => .panic
                | .ok (lpes, obsL) =>
                  let rs := rpes.map (·.1)
                  let shared := rs.filter (fun pe => (pemGet pe obsL).isSome)
                  match mergeLoop (fun _ lc rc => mergeNode s fuel lc rc t.elementType) obsL obsR
                      (lpes.length + rs.length) lpes rs shared [] [] with
                  | .ok [] => .ok none
                  | .ok out => .ok (some (.list out))
                  | .err => .err
                  | .panic => .panic
          | .map t =>
            let lm := asMap l
            let rm := asMap r
            if t.rel == "atomic" || (emptyOrAbsent lm && emptyOrAbsent rm) then .ok keepRHS
            else
              let lf := lm.getD []
              let rf := rm.getD []
              let step (acc : Res (List (String × Value))) (k : String) : Res (List (String × Value)) :=
                match acc with
                | .ok out =>
                  (match mergeNode s fuel (lookupField k lf) (lookupField k rf) (fieldType t k) with
                   | .ok (some v) => .ok (insertField (k, v) out)
                   | .ok none => .ok out
                   | .err => .err
                   | .panic => .panic)
                | e => e
              match (zipKeys lf rf).foldl step (.ok []) with
              | .ok [] => .ok none
              | .ok out => .ok (some (.map out))
              | .err => .err
              | .panic => .panic
        if r.isNone then handle al
        else if l.isNone || Atom.equals al ar then handle ar
        else
          match handle al with
          | .ok _ => handle ar
          | e => e

/-- `TypedValue.Merge` -/
def mergeTV (s : Schema) (l r : TV) : Res TV :=
  if !TypeRef.equals l.type r.type then .err
  else
    match mergeNode s (l.value.depth + r.value.depth + 2) (some l.value) (some r.value) l.type with
    | .ok o => .ok ⟨outToValue o, l.type⟩
    | .err => .err
    | .panic => .panic

end SMD
