/-
Model of the schema-aware and pattern-based set operations of `fieldpath/set.go`:
`EnsureNamedFieldsAreMembers`, `SetMatcher` (PrefixMatcher, NewSetMatcher, Merge),
`FilterIncludeMatches`, and the two `Filter` implementations (exclude set, include matcher).
-/
import SMD.Model.Schema
import SMD.Model.SetTrie
namespace SMD

namespace SetTrie

mutual
/-- `Set.EnsureNamedFieldsAreMembers` (fieldpath/set.go:122-140) -/
def ensureNamed (sc : Schema) (tr : TypeRef) : SetTrie → SetTrie
  | node m c =>
    let atom := (sc.resolve tr).getD Atom.none
    let named := c.foldl (fun acc (x : PE × SetTrie) =>
      match x.1, atom.map with
      | .field name, some mt => if (mt.findField name).isSome then peInsert x.1 acc else acc
      | _, _ => acc) m
    node named (ensureNamedChildren sc atom c)
/-- `SetNodeMap.EnsureNamedFieldsAreMembers` (fieldpath/set.go:655-677); `atom` = the resolved parent type -/
def ensureNamedChildren (sc : Schema) (atom : Atom) : Children → Children
  | [] => []
  | (pe, t) :: rest =>
    let tr : TypeRef :=
      match pe, atom.map, atom.list with
      | .field name, some mt, _ =>
        (match mt.findField name with
         | some sf => sf.type
         | none => mt.elementType)
      | .key _, none, some lt => lt.elementType
      | .key _, some _, some lt => lt.elementType
      | _, _, _ => TypeRef.zero
    (pe, ensureNamed sc tr t) :: ensureNamedChildren sc atom rest
end

end SetTrie

/-- `fieldpath.SetMatcher` / `SetMemberMatcher` -/
inductive SetMatcher where
  | mk (wildcard : Bool) (members : List (PEMatcher × SetMatcher))
  deriving Inhabited

namespace SetMatcher
def wildcard : SetMatcher → Bool | mk w _ => w
def members : SetMatcher → List (PEMatcher × SetMatcher) | mk _ m => m

/-- `MatchAnySet()` -/
def any : SetMatcher := mk true []

/-- `PrefixMatcher(parts...)` -/
def ofPrefix : List PEMatcher → SetMatcher
  | [] => any
  | p :: rest => mk false [(p, ofPrefix rest)]

/-- insertion into a slice sorted by `PathElementMatcher.Less`, BEFORE the first member whose path is
not smaller (`sortMembers` feeds the members last to first, so members with equal paths keep their
argument order) -/
def sortInsert (x : PEMatcher × SetMatcher) : List (PEMatcher × SetMatcher) → List (PEMatcher × SetMatcher)
  | [] => [x]
  | y :: ys => if PEMatcher.less y.1 x.1 then y :: sortInsert x ys else x :: y :: ys

/-- `sort.Sort(sortedMemberMatcher(members))` in `NewSetMatcher` (fieldpath/set.go:214-217): for at most
12 members Go's pdqsort is an insertion sort, hence stable: among members with equal paths the first
one given stays first (and is the one `FilterIncludeMatches` / `Find` use). -/
def sortMembers (l : List (PEMatcher × SetMatcher)) : List (PEMatcher × SetMatcher) :=
  l.foldr sortInsert []

/-- `NewSetMatcher` -/
def new (wildcard : Bool) (members : List (PEMatcher × SetMatcher)) : SetMatcher :=
  mk wildcard (sortMembers members)

/-- `sortedMemberMatcher.Find`: position of the member whose path compares equal to `p` -/
def findIdx (p : PEMatcher) : List (PEMatcher × SetMatcher) → Nat → Option Nat
  | [], _ => none
  | (q, _) :: rest, i => if PEMatcher.compare q p == .eq then some i else findIdx p rest (i + 1)

def sizeM : SetMatcher → Nat
  | mk _ ms => 1 + sizeL ms
where sizeL : List (PEMatcher × SetMatcher) → Nat
  | [] => 0
  | (_, c) :: rest => sizeM c + sizeL rest

/-- `SetMatcher.Merge` (fieldpath/set.go:245-263) -/
def merge : Nat → SetMatcher → SetMatcher → SetMatcher
  | 0, a, _ => a
  | fuel + 1, mk w1 m1, mk w2 m2 =>
    if w1 || w2 then new true []
    else
      let merged := m2.foldl (fun (acc : List (PEMatcher × SetMatcher)) (m : PEMatcher × SetMatcher) =>
        match findIdx m.1 m1 0 with
        | some i =>
          (match acc[i]? with
           | some (p, child) => acc.set i (p, merge fuel child m.2)
           | none => acc)
        | none => acc ++ [m]) m1
      new false merged

def mergeAll : List SetMatcher → SetMatcher
  | [] => any
  | m :: rest => rest.foldl (fun acc x => merge (sizeM acc + sizeM x) acc x) m

end SetMatcher

namespace SetTrie

mutual
/-- `Set.FilterIncludeMatches` (fieldpath/set.go:314-333) -/
def filterInclude : SetTrie → SetMatcher → SetTrie
  | node m c, pattern =>
    if pattern.wildcard then node m c
    else
      let members := m.foldl (fun acc pe =>
        if pattern.members.any (fun pm => pm.1.wildcard || PE.equals pm.1.pe pe) then peInsert pe acc else acc) []
      node members (filterIncludeChildren c pattern)
/-- `SetNodeMap.FilterIncludeMatches` (fieldpath/set.go:680-705): the first matching pattern member decides -/
def filterIncludeChildren : Children → SetMatcher → Children
  | [], _ => []
  | (pe, t) :: rest, pattern =>
    if pattern.wildcard then (pe, t) :: rest
    else
      let tail := filterIncludeChildren rest pattern
      match pattern.members.find? (fun pm => pm.1.wildcard || PE.equals pm.1.pe pe) with
      | some pm =>
        let child := filterInclude t pm.2
        if child.size > 0 then (pe, child) :: tail else tail
      | none => tail
end

end SetTrie

/-- `fieldpath.Filter` -/
inductive Filter where
  | exclude (s : SetTrie)
  | include (m : SetMatcher)

/-- `Filter.Filter(set)` -/
def Filter.apply : Filter → SetTrie → SetTrie
  | .exclude ex, s => s.rdiff ex
  | .include m, s => s.filterInclude m

end SMD
