/-
Model of the generic map interface (`value.Map`): `Set`, `Delete`, `Get`, `Has`, `Length` on the
canonical (key-sorted, repeat-free) entry list that stands for a Go map in any representation
(`mapUnstructuredString`, `mapUnstructuredInterface`, `mapReflect`, `structReflect`).
-/
import SMD.Model.Value
namespace SMD

/-- `Map.Set(key, val)` -/
def mapSet (k : String) (v : Value) : List (String × Value) → List (String × Value)
  | [] => [(k, v)]
  | (k', v') :: rest =>
    if k == k' then (k, v) :: rest
    else if k < k' then (k, v) :: (k', v') :: rest
    else (k', v') :: mapSet k v rest

/-- `Map.Delete(key)` -/
def mapDelete (k : String) : List (String × Value) → List (String × Value)
  | [] => []
  | (k', v') :: rest => if k == k' then mapDelete k rest else (k', v') :: mapDelete k rest

/-- `Map.Has(key)` -/
def mapHas (k : String) (m : List (String × Value)) : Bool := (lookupField k m).isSome

end SMD
