/-
Model of the remaining exported helpers: `fieldpath.SetFromValue` (fieldpath/fromvalue.go),
`ManagedFields.Equals` / `Difference` (fieldpath/managers.go), `merge.ConflictsFromManagers` /
`Conflicts.ToSet` / `Conflicts.Equals` (merge/conflict.go).
-/
import SMD.Model.Updater
namespace SMD

/-! ### SetFromValue: the leaf paths of an untyped value -/

/-- `AssociativeListCandidateFieldNames` -/
def candidateKeyNames : List String := ["key", "id", "name"]

/-- `GuessBestListPathElement`: a map item with scalar candidate fields is referenced by them (sorted
by name), everything else by its index -/
def guessPE (index : Nat) (item : Value) : PE :=
  match item with
  | .map m =>
    let keys : FieldList := candidateKeyNames.filterMap fun n =>
      match lookupField n m with
      | some .null | some (.map _) | some (.list _) | none => none
      | some f => some (n, f)
    if keys.isEmpty then .index index else .key (FieldList.sort keys)
  | _ => .index index

mutual
/-- `objectWalker.walk`: leaves (null included) are recorded unless they are the root; empty lists and
maps record nothing -/
def sfvV (path : Path) : Value → List Path
  | .list l => sfvItems path 0 l
  | .map m => sfvFields path m
  | _ => if path.isEmpty then [] else [path]
def sfvItems (path : Path) (i : Nat) : List Value → List Path
  | [] => []
  | v :: rest => sfvV (path ++ [guessPE i v]) v ++ sfvItems path (i + 1) rest
def sfvFields (path : Path) : List (String × Value) → List Path
  | [] => []
  | (k, v) :: rest => sfvV (path ++ [.field k]) v ++ sfvFields path rest
end

def setFromValue (v : Value) : SetTrie := SetTrie.ofPaths (sfvV [] v)

/-! ### ManagedFields -/

/-- `ManagedFields.Equals` (maps: same managers, each with the same version, applied flag and set) -/
def Managed.equals (a b : Managed) : Bool :=
  a.length == b.length &&
  a.all fun (k, l) =>
    match mfGet b k with
    | some r => l.version == r.version && l.applied == r.applied && l.set.equals r.set
    | none => false

/-- `ManagedFields.Difference`: per manager the symmetric difference of the sets (recorded at the
right version, not applied), the whole right record when the versions differ, one-sided records as
they are; empty results are left out. The result is keyed in ascending manager order. -/
def Managed.difference (lhs rhs : Managed) : Managed :=
  let fromLeft := lhs.foldl (fun (acc : Managed) (kl : String × VersionedSet) =>
    let (k, l) := kl
    match mfGet rhs k with
    | none => if l.set.isEmpty then acc else mfSet acc k l
    | some r =>
      if l.version != r.version then mfSet acc k r
      else
        let s := (l.set.diff r.set).union (r.set.diff l.set)
        if s.isEmpty then acc else mfSet acc k ⟨s, r.version, false⟩) []
  rhs.foldl (fun (acc : Managed) (kr : String × VersionedSet) =>
    let (k, r) := kr
    match mfGet lhs k with
    | some _ => acc
    | none => if r.set.isEmpty then acc else mfSet acc k r) fromLeft

/-! ### Conflicts -/

/-- `ConflictsFromManagers`: one conflict per manager and member path (managers in ascending order —
the Go code ranges over a map —, paths in the set's iteration order) -/
def conflictsFromManagers (sets : Managed) : List (String × Path) :=
  sets.flatMap fun (k, vs) => vs.set.paths.map fun p => (k, p)

/-- `Conflicts.ToSet` -/
def conflictsToSet (c : List (String × Path)) : SetTrie := SetTrie.ofPaths (c.map (·.2))

/-- `Conflicts.Equals` (positional) -/
def conflictsEquals : List (String × Path) → List (String × Path) → Bool
  | [], [] => true
  | (m, p) :: a, (m', p') :: b => m == m' && Path.equals p p' && conflictsEquals a b
  | _, _ => false

end SMD
