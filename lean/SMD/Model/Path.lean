/-
Model of `fieldpath/element.go`, `fieldpath/path.go`, `fieldpath/pathelementmap.go` and of the matcher
ordering in `fieldpath/set.go:291-311`.
-/
import SMD.Model.Value
namespace SMD

/-- `fieldpath.PathElement`: exactly one member set. (The zero element of Go — no member set — is
`PE.invalid`; it is what `listItemToPathElement` returns together with an error.) -/
inductive PE where
  | field (name : String)
  | key (k : FieldList)
  | value (v : Value)
  | index (i : Int)
  | invalid
  deriving Inhabited, Repr

/-- `PathElement.Compare` (fieldpath/element.go:51-100). -/
def PE.compare : PE → PE → Ordering
  | .field a, .field b => cmpStr a b
  | .field _, _ => .lt
  | _, .field _ => .gt
  | .key a, .key b => FieldList.compare a b
  | .key _, _ => .lt
  | _, .key _ => .gt
  | .value a, .value b => Value.compare a b
  | .value _, _ => .lt
  | _, .value _ => .gt
  | .index a, .index b => if a < b then .lt else if a == b then .eq else .gt
  | .index _, _ => .lt
  | _, .index _ => .gt
  | .invalid, .invalid => .eq

/-- `PathElement.Less`. -/
def PE.less (a b : PE) : Bool := PE.compare a b == .lt

/-- `PathElement.Equals` (fieldpath/element.go:102-136). -/
def PE.equals : PE → PE → Bool
  | .field a, .field b => a == b
  | .field _, _ => false
  | _, .field _ => false
  | .key a, .key b => FieldList.equals a b
  | .key _, _ => false
  | _, .key _ => false
  | .value a, .value b => Value.equals a b
  | .value _, _ => false
  | _, .value _ => false
  | .index a, .index b => a == b
  | .index _, _ => false
  | _, .index _ => false
  | .invalid, .invalid => true

abbrev Path := List PE

/-- `Path.Compare` (fieldpath/path.go:55-78). -/
def Path.compare : Path → Path → Ordering
  | [], [] => .eq
  | [], _ :: _ => .lt
  | _ :: _, [] => .gt
  | a :: as, b :: bs =>
    match PE.compare a b with
    | .eq => Path.compare as bs
    | c => c

/-- `Path.Equals` (fieldpath/path.go:41-52). -/
def Path.equals : Path → Path → Bool
  | [], [] => true
  | a :: as, b :: bs => PE.equals a b && Path.equals as bs
  | _, _ => false

/-- `fieldpath.PathElementMatcher` (fieldpath/set.go:280-289). -/
structure PEMatcher where
  wildcard : Bool
  pe : PE
  deriving Inhabited, Repr

/-- `PathElementMatcher.Equals` (fieldpath/set.go:291-293). -/
def PEMatcher.equals (p q : PEMatcher) : Bool :=
  p.wildcard == q.wildcard && (p.wildcard || PE.equals p.pe q.pe)

/-- `PathElementMatcher.Less` (fieldpath/set.go:295-302). -/
def PEMatcher.less (p q : PEMatcher) : Bool :=
  if p.wildcard && !q.wildcard then true
  else if q.wildcard then false
  else PE.less p.pe q.pe

/-- `PathElementMatcher.Compare` (fieldpath/set.go:304-311). -/
def PEMatcher.compare (p q : PEMatcher) : Ordering :=
  if p.wildcard && q.wildcard then .eq
  else if p.wildcard && !q.wildcard then .lt
  else if q.wildcard then .gt
  else PE.compare p.pe q.pe

/-! ### Sorted containers (`PathElementSet`, `PathElementMap`, `SetNodeMap` lookups)

The Go containers keep a slice sorted by `Less` and locate an element with `sort.Search` on the
predicate `!members[i].Less(pe)`.  `lowerBound` is the position `sort.Search` returns on a sorted
slice (first index whose element is not less than `pe`); `SMD.Proofs.Search` proves that the
transcribed binary-search loop of the Go standard library returns exactly this position whenever
the predicate is monotone, which sortedness guarantees. -/

/-- `PathElementSet.Insert` (fieldpath/element.go:197-211) -/
def peInsert (pe : PE) : List PE → List PE
  | [] => [pe]
  | x :: xs =>
    if PE.less x pe then x :: peInsert pe xs
    else if PE.equals x pe then x :: xs
    else pe :: x :: xs

/-- `PathElementSet.Has` (fieldpath/element.go:286-297) -/
def peHas (pe : PE) : List PE → Bool
  | [] => false
  | x :: xs => if PE.less x pe then peHas pe xs else PE.equals x pe

/-- `PathElementMap.Insert` (fieldpath/pathelementmap.go:84-99) -/
def pemInsert {β : Type} (pe : PE) (v : β) : List (PE × β) → List (PE × β)
  | [] => [(pe, v)]
  | (x, w) :: xs =>
    if PE.less x pe then (x, w) :: pemInsert pe v xs
    else if PE.equals x pe then (x, v) :: xs
    else (pe, v) :: (x, w) :: xs

/-- `PathElementMap.Get` (fieldpath/pathelementmap.go:101-114) -/
def pemGet {β : Type} (pe : PE) : List (PE × β) → Option β
  | [] => none
  | (x, w) :: xs => if PE.less x pe then pemGet pe xs else if PE.equals x pe then some w else none

/-- the transcription of Go's `sort.Search` (sort/search.go): smallest index in `[0,n)` at which `f`
is true, assuming monotonicity; `n` if none. -/
def sortSearch (n : Nat) (f : Nat → Bool) : Nat :=
  go 0 n
where
  go (i j : Nat) : Nat :=
    if h : i < j then
      let m := (i + j) / 2
      if !f m then go (m + 1) j else go i m
    else i
  termination_by j - i

end SMD
