/-
Model of the reflection wrappers of `value/` (valuereflect.go, structreflect.go, mapreflect.go,
listreflect.go, reflectcache.go `buildStructCacheEntry`, jsontagutil.go `lookupJsonTags` / `isEmpty`):
what `value.NewValueReflect(&x)` means as an abstract `Value`, for Go data `x` of a type built from
bool, the integer and float widths, string, []byte, pointers, slices, string-keyed maps, interfaces and
structs with json tags (name, "-", omitempty, inline, embedding).

`reflectV` is the library's reading; `jsonV` is the reading of `encoding/json` (Marshal, then decode
into generic data with integral numbers as int64 — the harness's `viaJSON`), written independently from
the documentation of encoding/json: it is the *reference* of property C18, modelled, not verified; both
are tied to the real code by the `rfl` domain (`rfl.conv`, `rfl.json`).

Not modelled: a `uint` of 2^63 or more on the JSON side (the reference decodes it into a float64; the
library wraps it to a negative int64: finding D23), custom marshalers / UnstructuredConverter, omitzero, uint64 (a `uint` is 64 bits wide and
is read as `int64(uint)`, wrapping from 2^63 on), arrays, non-string map keys,
cyclic data. A `float32` carries its exact value and the float64 nearest to its shortest decimal
(strconv's `FormatFloat(…, 32)`, an external function: the harness supplies it).
-/
import SMD.Model.Value
namespace SMD

mutual
inductive GoType where
  | bool | int | uint | float64 | float32 | string | bytes
  | ptr (t : GoType)
  | slice (t : GoType)
  | map (t : GoType)
  | iface
  | struct (fields : List GoField)
/-- a struct field: Go name, the name part of the json tag (`none` when absent or empty), the tag is
`json:"-"`, options omitempty / inline, the field is embedded (anonymous) -/
inductive GoField where
  | mk (goName : String) (tagName : Option String) (dash omitempty inline embedded : Bool) (type : GoType)
end

namespace GoField
def goName : GoField → String | mk n _ _ _ _ _ _ => n
def tagName : GoField → Option String | mk _ t _ _ _ _ _ => t
def dash : GoField → Bool | mk _ _ d _ _ _ _ => d
def omitempty : GoField → Bool | mk _ _ _ o _ _ _ => o
def inline : GoField → Bool | mk _ _ _ _ i _ _ => i
def embedded : GoField → Bool | mk _ _ _ _ _ e _ => e
def type : GoField → GoType | mk _ _ _ _ _ _ t => t
/-- `lookupJsonTags`: the tag's name, or the Go field name -/
def jsonName (f : GoField) : String := f.tagName.getD f.goName
end GoField

/-- Go data. `nil` is the nil pointer / slice / map / interface; a struct lists its field values in
declaration order; an interface holds its dynamic type and value -/
inductive GoVal where
  | nil
  | bool (b : Bool)
  | int (i : Int)
  | float (u : Int) (negz : Bool)
  | float32 (u : Int) (negz : Bool) (shortest : Int)
  | str (s : String)
  | bytes (b : List Nat)
  | ptr (v : GoVal)
  | slice (l : List GoVal)
  | map (m : List (String × GoVal))
  | iface (t : GoType) (v : GoVal)
  | struct (fields : List GoVal)

/-! ### base64 (`encoding/base64.StdEncoding`) -/

def b64Alphabet : List Char :=
  "ABCDEFGHIJKLMNOPQRSTUVWXYZabcdefghijklmnopqrstuvwxyz0123456789+/".toList

def b64Char (n : Nat) : Char := b64Alphabet.getD n '='

def base64 : List Nat → List Char
  | [] => []
  | [a] => [b64Char (a / 4), b64Char ((a % 4) * 16), '=', '=']
  | [a, b] => [b64Char (a / 4), b64Char ((a % 4) * 16 + b / 16), b64Char ((b % 16) * 4), '=']
  | a :: b :: c :: rest =>
    b64Char (a / 4) :: b64Char ((a % 4) * 16 + b / 16) :: b64Char ((b % 16) * 4 + c / 64) ::
      b64Char (c % 64) :: base64 rest

/-! ### shared pieces -/

/-- `isEmpty` of jsontagutil.go on a field value (with `safeIsNil`): what omitempty omits. The same
rule is documented for encoding/json: false, 0, a nil pointer, a nil interface value, and any empty
array, slice, map, or string -/
def GoVal.isEmptyValue : GoVal → Bool
  | .nil => true
  | .bool b => !b
  | .int i => i == 0
  | .float u _ => u == 0
  | .float32 u _ _ => u == 0
  | .str s => s.isEmpty
  | .bytes b => b.isEmpty
  | .slice l => l.isEmpty
  | .map m => m.isEmpty
  | .ptr _ => false
  | .iface _ _ => false
  | .struct _ => false

/-- insertion into an association list sorted by key, replacing an existing entry (`infos[name] = info`
followed by the sort by JSON name) -/
def insertSorted {α : Type} (k : String) (a : α) : List (String × α) → List (String × α)
  | [] => [(k, a)]
  | (k', a') :: rest =>
    if k < k' then (k, a) :: (k', a') :: rest
    else if k == k' then (k, a) :: rest
    else (k', a') :: insertSorted k a rest

/-- the flattened fields of a struct being collected: JSON name ↦ the field's meaning, `none` when the
field is omitted (omitempty and empty, or in an inlined struct behind a nil pointer) -/
abbrev Fields := List (String × Option Value)

/-- `eachStructField`: omitted fields are skipped -/
def presentFields : Fields → List (String × Value)
  | [] => []
  | (k, some v) :: rest => (k, v) :: presentFields rest
  | (_, none) :: rest => presentFields rest

/-! ### the library's reading -/

mutual
/-- the fields of a struct type all of whose values are absent (inlined behind a nil pointer):
`buildStructCacheEntry` still records them, and they still replace earlier fields of the same name -/
def absentOfType : GoType → Fields → Fields
  | .struct inner, acc => absentFields inner acc
  | .ptr (.struct inner), acc => absentFields inner acc
  | _, acc => acc
def absentFields : List GoField → Fields → Fields
  | [], acc => acc
  | (.mk goName tagName dash _ inline _ type) :: fs, acc =>
    if dash then absentFields fs acc
    else if inline then absentFields fs (absentOfType type acc)
    else absentFields fs (insertSorted (tagName.getD goName) none acc)
end

mutual
/-- `valueReflect` seen through the `Value` interface (kind, AsX, Unstructured); `none` on ill-typed
or unsupported data -/
def reflectV : GoType → GoVal → Option Value
  | _, .nil => some .null
  | .bool, .bool b => some (.bool b)
  | .int, .int i => some (.int i)
  -- `AsInt` of an unsigned kind is `int64(r.Value.Uint())` (value/valuereflect.go:254-256): a two's-complement
  -- reinterpretation, so a `uint` ≥ 2^63 comes out negative; outside [0, 2^64) the datum is not a `uint`
  | .uint, .int i =>
    if i < 0 || (2 ^ 64 : Int) ≤ i then none
    else some (.int (if i < (2 ^ 63 : Int) then i else i - (2 ^ 64 : Int)))
  | .float64, .float u z => some (.float u z)
  | .float32, .float32 _ z s => some (.float s z)
  | .string, .str s => some (.str s)
  | .bytes, .bytes b => some (.str (String.ofList (base64 b)))
  | .ptr t, .ptr v => reflectV t v
  | .iface, .iface t v => reflectV t v
  | .slice t, .slice l => (reflectList t l).map .list
  | .map t, .map m => (reflectEntries t m).map .map
  | .struct fs, .struct vals => (reflectFields fs vals []).map fun hits => .map (presentFields hits)
  | _, _ => none
def reflectList : GoType → List GoVal → Option (List Value)
  | _, [] => some []
  | t, v :: rest =>
    match reflectV t v, reflectList t rest with
    | some x, some xs => some (x :: xs)
    | _, _ => none
def reflectEntries : GoType → List (String × GoVal) → Option (List (String × Value))
  | _, [] => some []
  | t, (k, v) :: rest =>
    match reflectV t v, reflectEntries t rest with
    | some x, some xs => some ((k, x) :: xs)
    | _, _ => none
/-- `buildStructCacheEntry` + `FieldCacheEntry.GetFrom` + `CanOmit`: the flattened fields of a struct
value in declaration order, a later field of a name replacing an earlier one (`infos[jsonName] = info`),
kept sorted by JSON name (`orderedStructFields`) -/
def reflectFields : List GoField → List GoVal → Fields → Option Fields
  | [], [], acc => some acc
  | (.mk goName tagName dash omitempty inline _ type) :: fs, v :: vs, acc =>
    if dash then reflectFields fs vs acc
    else if inline then
      match type, v with
      | .struct inner, .struct ivals =>
        (match reflectFields inner ivals acc with
         | some acc' => reflectFields fs vs acc'
         | none => none)
      | .ptr (.struct inner), .ptr (.struct ivals) =>
        (match reflectFields inner ivals acc with
         | some acc' => reflectFields fs vs acc'
         | none => none)
      | .ptr (.struct inner), .nil => reflectFields fs vs (absentFields inner acc)
      | .struct _, _ => none
      | .ptr (.struct _), _ => none
      | _, _ => reflectFields fs vs acc   -- inline on a non-struct: the field is skipped altogether
    else if omitempty && v.isEmptyValue then reflectFields fs vs (insertSorted (tagName.getD goName) none acc)
    else
      match reflectV type v with
      | some x => reflectFields fs vs (insertSorted (tagName.getD goName) (some x) acc)
      | none => none
  | _, _, _ => none
end

/-! ### the reference: encoding/json, then decoding into generic data -/

/-- a JSON number decoded by the harness's `viaJSON`: an int64 when integral (and in range), else a
float64 (the sign of a zero is lost: "-0" decodes to 0) -/
def jsonNum (u : Int) : Value :=
  if u % scale == 0 && decide (-(2:Int)^63 ≤ u / scale) && decide (u / scale < (2:Int)^63) then .int (u / scale)
  else .float u false

/-- insertion for encoding/json's field list: a repeated name is outside the modelled family
(encoding/json resolves it by depth and tagging, or drops both fields) -/
def insertNew {α : Type} (k : String) (a : α) : List (String × α) → Option (List (String × α))
  | [] => some [(k, a)]
  | (k', a') :: rest =>
    if k < k' then some ((k, a) :: (k', a') :: rest)
    else if k == k' then none
    else (insertNew k a rest).map ((k', a') :: ·)

mutual
/-- the names encoding/json sees in a struct type after flattening its embedded structs -/
def jsonNames : List GoField → List String
  | [] => []
  | (.mk goName tagName dash _ _ embedded type) :: fs =>
    if dash then jsonNames fs
    else if embedded && tagName.isNone then jsonNamesOfType type ++ jsonNames fs
    else (tagName.getD goName) :: jsonNames fs
def jsonNamesOfType : GoType → List String
  | .struct inner => jsonNames inner
  | .ptr (.struct inner) => jsonNames inner
  | _ => []
end

/-- some string occurs twice -/
def hasRepeat : List String → Bool
  | [] => false
  | x :: rest => rest.contains x || hasRepeat rest

mutual
/-- `json.Marshal` followed by decoding: `none` on ill-typed data or outside the modelled family (a
struct type in which a JSON name occurs twice, whatever the values: encoding/json decides between such
fields by depth and tagging, or drops them all) -/
def jsonV : GoType → GoVal → Option Value
  | _, .nil => some .null
  | .bool, .bool b => some (.bool b)
  | .int, .int i => some (.int i)
  | .uint, .int i => if i < 0 then none else some (.int i)
  | .float64, .float u _ => some (jsonNum u)
  | .float32, .float32 _ _ s => some (jsonNum s)
  | .string, .str s => some (.str s)
  | .bytes, .bytes b => some (.str (String.ofList (base64 b)))
  | .ptr t, .ptr v => jsonV t v
  | .iface, .iface t v => jsonV t v
  | .slice t, .slice l => (jsonList t l).map .list
  | .map t, .map m => (jsonEntries t m).map .map
  | .struct fs, .struct vals =>
    if hasRepeat (jsonNames fs) then none else (jsonFields fs vals []).map .map
  | _, _ => none
def jsonList : GoType → List GoVal → Option (List Value)
  | _, [] => some []
  | t, v :: rest =>
    match jsonV t v, jsonList t rest with
    | some x, some xs => some (x :: xs)
    | _, _ => none
def jsonEntries : GoType → List (String × GoVal) → Option (List (String × Value))
  | _, [] => some []
  | t, (k, v) :: rest =>
    match jsonV t v, jsonEntries t rest with
    | some x, some xs => some ((k, x) :: xs)
    | _, _ => none
/-- the fields encoding/json writes for a struct value: an embedded struct (or pointer to struct)
without a name in its tag is flattened (a nil embedded pointer contributes nothing); every other
field appears under its name unless omitted; `inline` is not an option encoding/json knows -/
def jsonFields : List GoField → List GoVal → List (String × Value) → Option (List (String × Value))
  | [], [], acc => some acc
  | (.mk goName tagName dash omitempty _ embedded type) :: fs, v :: vs, acc =>
    if dash then jsonFields fs vs acc
    else if embedded && tagName.isNone then
      match type, v with
      | .struct inner, .struct ivals =>
        (match jsonFields inner ivals acc with
         | some acc' => jsonFields fs vs acc'
         | none => none)
      | .ptr (.struct inner), .ptr (.struct ivals) =>
        (match jsonFields inner ivals acc with
         | some acc' => jsonFields fs vs acc'
         | none => none)
      | .ptr (.struct _), .nil => jsonFields fs vs acc
      | _, _ => none   -- embedded non-struct types: outside the family
    else if omitempty && v.isEmptyValue then jsonFields fs vs acc
    else
      match jsonV type v with
      | some x =>
        (match insertNew (tagName.getD goName) x acc with
         | some acc' => jsonFields fs vs acc'
         | none => none)
      | none => none
  | _, _, _ => none
end

end SMD
