/-
Model of `Map.Set(key, val)` and `Map.Delete(key)` on REFLECTED Go data (structreflect.go `Set`, `Delete`,
`update`; mapreflect.go `Set`, `Delete`, `Get`; listreflect.go `At`; valuereflect.go `reuse` /
`dereference`; reflectcache.go `FieldCacheEntry.GetFrom`), at a place reached from the root
`value.NewValueReflect(&x)` by a path of map keys / struct field names (`Map.Get`) and list indexes
(`List.At`).

Go data is a tree here (`GoVal`): two pointers to the same variable are two subtrees, so aliasing is not
modelled; writing "in place" and writing "a modified copy into the parent map" both rebuild the tree on
the way back to the root.  What the model decides is *whether* Go can write at all:

* addressability (`addr`): the root is reached through a pointer; `*p` is addressable; the fields of an
  addressable struct are addressable; slice elements are addressable; map elements and the dynamic value
  of an interface are not.
* a struct that is not addressable can still be updated when the wrapper was handed the parent map
  (`Map.Get` on a Go map passes map and key to the child): `update` writes a modified copy of the struct
  into the map — which needs the struct type to be assignable to the element type of the map (`pm`).
  `Map.Get` on a struct and `List.At` pass no parent.
* a field found through an inlined (embedded) pointer is addressable whatever the struct is (`viaPtr`).
* Go maps are reference values: `SetMapIndex` works wherever the map was reached.

The new root keeps the pointers and interfaces the container was reached through (`rewrap`).  In one
exotic chain Go's data differs from that while reading the same: a map element of interface type holding
a pointer to an interface holding a struct is replaced by the struct copy itself, held directly in the
element's interface.

A path that does not lead to a struct or non-nil Go map (`Map.Get` finds nothing — an omitted omitempty
field counts as nothing —, an index out of range, a scalar, nil) is `refused`; Go panics there in
`AsMap` / `At`, the harness does not ask.

All struct fields are taken to be exported (reflect.StructOf accepts nothing else; an unexported embedded
struct would make its promoted fields unsettable).  `.int` stands for int64 (the only integer type a
generic value can be assigned to); named non-struct types are not modelled.
-/
import SMD.Model.Reflect
import SMD.Spec.GoFamily
namespace SMD

/-- one step of a path below the root: `Map.Get(k)` or `List.At(i)` -/
inductive Step where
  | key (k : String)
  | index (i : Nat)
  deriving Repr, DecidableEq

/-- `refused`: the documented refusals (no such field; `Set` of a field of an inlined struct behind a nil
pointer; `Delete` of a field that is neither a pointer nor omitempty), and a path that does not lead to a
struct or map.  `panic`: every other panic (value not assignable to the Go type of the field / element,
struct not settable) -/
inductive SetOutcome where
  | ok (root : GoVal)
  | refused
  | panic

def SetOutcome.mapRoot (f : GoVal → GoVal) : SetOutcome → SetOutcome
  | .ok v => .ok (f v)
  | .refused => .refused
  | .panic => .panic

/-! ### generic data as Go data: `reflect.ValueOf(val.Unstructured())` -/

mutual
/-- `none` is the zero `reflect.Value` (of a nil interface) -/
def ofGeneric : Value → Option (GoType × GoVal)
  | .null => none
  | .bool b => some (.bool, .bool b)
  | .int i => some (.int, .int i)
  | .float u z => some (.float64, .float u z)
  | .str s => some (.string, .str s)
  | .list l => some (.slice .iface, .slice (ofGenericList l))
  | .map m => some (.map .iface, .map (ofGenericEntries m))
/-- the elements of a `[]interface{}` -/
def ofGenericList : List Value → List GoVal
  | [] => []
  | x :: rest =>
    (match ofGeneric x with
     | some (t, g) => GoVal.iface t g
     | none => GoVal.nil) :: ofGenericList rest
/-- the entries of a `map[string]interface{}` -/
def ofGenericEntries : List (String × Value) → List (String × GoVal)
  | [] => []
  | (k, x) :: rest =>
    (k, match ofGeneric x with
        | some (t, g) => GoVal.iface t g
        | none => GoVal.nil) :: ofGenericEntries rest
end

mutual
/-- `reflect.Zero` -/
def zeroOf : GoType → GoVal
  | .bool => .bool false
  | .int => .int 0
  | .uint => .int 0
  | .float64 => .float 0 false
  | .float32 => .float32 0 false 0
  | .string => .str ""
  | .bytes => .nil
  | .ptr _ => .nil
  | .slice _ => .nil
  | .map _ => .nil
  | .iface => .nil
  | .struct fs => .struct (zeroFields fs)
def zeroFields : List GoField → List GoVal
  | [] => []
  | (.mk _ _ _ _ _ _ type) :: fs => zeroOf type :: zeroFields fs
end

/-- the type of a generic value (`bool`, `int64`, `float64`, `string`, `[]interface{}`,
`map[string]interface{}`) is identical to the target type -/
def genericIdentical : GoType → GoType → Bool
  | .bool, .bool => true
  | .int, .int => true
  | .float64, .float64 => true
  | .string, .string => true
  | .slice .iface, .slice .iface => true
  | .map .iface, .map .iface => true
  | _, _ => false

/-- what is stored at a place of type `T` for `val`; `none`: reflect panics (not assignable).  A null
value stores `reflect.Zero(T)`; an interface stores the generic value with its dynamic type; every other
place takes a value of the identical type only -/
def storeAs (T : GoType) (val : Value) : Option GoVal :=
  match ofGeneric val with
  | none => some (zeroOf T)
  | some (t, g) =>
    match T with
    | .iface => some (.iface t g)
    | _ => if genericIdentical T t then some g else none

/-! ### struct fields by JSON name (`TypeReflectEntryOf(t).Fields()[key]`, `GetFrom`) -/

/-- `noField`: no flattened field of that name; `behindNil`: the field lives in an inlined struct behind
a nil pointer (`GetFrom` returns the invalid value); `hit`: the field's omitempty flag, Go type, value,
and whether an inlined pointer was crossed on the way -/
inductive FieldGet where
  | noField
  | behindNil
  | hit (omitempty : Bool) (type : GoType) (val : GoVal) (viaPtr : Bool)

def FieldGet.markViaPtr : FieldGet → FieldGet
  | .hit o t v _ => .hit o t v true
  | r => r

mutual
/-- the last field of the name in flattening order wins (`infos[jsonName] = info`): a field is looked
for in the rest of the struct first -/
def getField : List GoField → List GoVal → String → FieldGet
  | (.mk goName tagName dash omitempty inline _ type) :: fs, v :: vs, key =>
    if (fieldNames fs).contains key then getField fs vs key
    else if dash then .noField
    else if inline then getInline type v key
    else if tagName.getD goName == key then .hit omitempty type v false
    else .noField
  | _, _, _ => .noField
def getInline : GoType → GoVal → String → FieldGet
  | .struct inner, .struct ivals, key => getField inner ivals key
  | .ptr (.struct inner), .ptr (.struct ivals), key => (getField inner ivals key).markViaPtr
  | .ptr (.struct inner), .nil, key => if (fieldNames inner).contains key then .behindNil else .noField
  | _, _, _ => .noField
end

mutual
/-- the struct with the field found by `getField` replaced -/
def putField : List GoField → List GoVal → String → GoVal → List GoVal
  | (.mk goName tagName dash _ inline _ type) :: fs, v :: vs, key, nv =>
    if (fieldNames fs).contains key then v :: putField fs vs key nv
    else if dash then v :: vs
    else if inline then putInline type v key nv :: vs
    else if tagName.getD goName == key then nv :: vs
    else v :: vs
  | _, vals, _, _ => vals
def putInline : GoType → GoVal → String → GoVal → GoVal
  | .struct inner, .struct ivals, key, nv => .struct (putField inner ivals key nv)
  | .ptr (.struct inner), .ptr (.struct ivals), key, nv => .ptr (.struct (putField inner ivals key nv))
  | _, v, _, _ => v
end

/-! ### entries of a Go map -/

def goLookup (k : String) : List (String × GoVal) → Option GoVal
  | [] => none
  | (k', v) :: rest => if k == k' then some v else goLookup k rest

/-- the first entry of the key gets a new value -/
def replaceFirst {α : Type} (k : String) (a : α) : List (String × α) → List (String × α)
  | [] => []
  | (k', a') :: rest => if k == k' then (k', a) :: rest else (k', a') :: replaceFirst k a rest

/-- `SetMapIndex(key, reflect.Value{})` -/
def eraseKey {α : Type} (k : String) : List (String × α) → List (String × α)
  | [] => []
  | (k', a') :: rest => if k == k' then eraseKey k rest else (k', a') :: eraseKey k rest

/-! ### the operations on one container -/

inductive MapOp where
  | set (val : Value)
  | del

def GoType.isPtr : GoType → Bool
  | .ptr _ => true
  | _ => false

/-- a struct copy can be written into a Go map with this element type (`SetMapIndex` of the
replacement: the struct type itself, or an interface) -/
def GoType.acceptsStruct : GoType → Bool
  | .struct _ => true
  | .iface => true
  | _ => false

/-- `structReflect.Set` / `Delete`; `settable`: the struct is addressable or a copy can go to the parent map -/
def structOp (fs : List GoField) (vals : List GoVal) (settable : Bool) (key : String) : MapOp → SetOutcome
  | .set val =>
    match getField fs vals key with
    | .noField => .refused
    | .behindNil => .refused
    | .hit _ ft _ viaPtr =>
      match storeAs ft val with
      | none => .panic
      | some nv => if settable || viaPtr then .ok (.struct (putField fs vals key nv)) else .panic
  | .del =>
    match getField fs vals key with
    | .noField => .refused
    | .behindNil => .ok (.struct vals)
    | .hit o ft _ viaPtr =>
      if ft.isPtr || o then
        if settable || viaPtr then .ok (.struct (putField fs vals key (zeroOf ft))) else .panic
      else .refused

/-- `mapReflect.Set` / `Delete` on a non-nil Go map (entries kept in ascending order of key) -/
def mapOp (E : GoType) (m : List (String × GoVal)) (key : String) : MapOp → SetOutcome
  | .set val =>
    match storeAs E val with
    | none => .panic
    | some nv => .ok (.map (insertSorted key nv m))
  | .del => .ok (.map (eraseKey key m))

/-! ### getting there: `reuse` / `dereference`, `Map.Get`, `List.At` -/

/-- `reuse` / `dereference`: through every pointer and interface, to the value the wrapper stands for,
its type, and whether it is addressable: `*p` is, the dynamic value of an interface is not -/
def derefOf : GoType → GoVal → Bool → GoType × GoVal × Bool
  | .ptr t, .ptr v, _ => derefOf t v true
  | .iface, .iface t v, _ => derefOf t v false
  | t, v, addr => (t, v, addr)

/-- `v` with the value behind its pointers and interfaces replaced by `inner` -/
def rewrap : GoType → GoVal → GoVal → GoVal
  | .ptr t, .ptr v, inner => .ptr (rewrap t v inner)
  | .iface, .iface t v, inner => .iface t (rewrap t v inner)
  | _, _, inner => inner

/-- what a step leads to from a dereferenced value -/
structure Child where
  type : GoType
  val : GoVal
  /-- the child is addressable -/
  addr : Bool
  /-- the child wrapper is handed a parent map into which a struct can be written -/
  pm : Bool
  /-- the parent with a new child -/
  put : GoVal → GoVal

/-- `Map.Get(k)` on a struct (by JSON name; an omitted field is not found; no parent map), `Map.Get(k)`
on a Go map (elements are not addressable; the child gets map and key), `List.At(i)` (slice elements are
addressable; no parent map) -/
def stepChild : Step → GoType → GoVal → Bool → Option Child
  | .key k, .struct fs, .struct vals, addr =>
    (match getField fs vals k with
     | .hit o ft fv viaPtr =>
       if o && fv.isEmptyValue then none
       else some ⟨ft, fv, addr || viaPtr, false, fun fv' => .struct (putField fs vals k fv')⟩
     | _ => none)
  | .key k, .map E, .map m, _ =>
    (match goLookup k m with
     | some ev => some ⟨E, ev, false, E.acceptsStruct, fun ev' => .map (replaceFirst k ev' m)⟩
     | none => none)
  | .index i, .slice E, .slice l, _ =>
    (match l[i]? with
     | some ev => some ⟨E, ev, true, false, fun ev' => .slice (l.set i ev')⟩
     | none => none)
  | _, _, _, _ => none

/-- a struct or non-nil Go map a path leads to; `settable`: the struct is addressable or a copy can be
written into the parent map -/
inductive Target where
  | struct (fs : List GoField) (vals : List GoVal) (settable : Bool)
  | goMap (E : GoType) (m : List (String × GoVal))

def Target.type : Target → GoType
  | .struct fs _ _ => .struct fs
  | .goMap E _ => .map E

def Target.val : Target → GoVal
  | .struct _ vals _ => .struct vals
  | .goMap _ m => .map m

def Target.isStruct : Target → Bool
  | .struct _ _ _ => true
  | .goMap _ _ => false

/-- `IsMap()` on a dereferenced value -/
def targetOf : GoType → GoVal → Bool → Option Target
  | .struct fs, .struct vals, settable => some (.struct fs vals settable)
  | .map E, .map m, _ => some (.goMap E m)
  | _, _, _ => none

/-- the container at the end of `path` below a value of type `t`; `addr`: the value is addressable;
`pm`: it was handed a parent map into which a struct can be written -/
def resolve : List Step → GoType → GoVal → Bool → Bool → Option Target
  | [], t, v, addr, pm =>
    match derefOf t v addr with
    | (t', v', addr') => targetOf t' v' (addr' || pm)
  | s :: rest, t, v, addr, _ =>
    match derefOf t v addr with
    | (t', v', addr') =>
      match stepChild s t' v' addr' with
      | some c => resolve rest c.type c.val c.addr c.pm
      | none => none

/-- `f` applied to the container at the end of `path`, the result put back in place up to the root;
`refused` when the path leads to no container -/
def modifyAt (f : Target → SetOutcome) : List Step → GoType → GoVal → Bool → Bool → SetOutcome
  | [], t, v, addr, pm =>
    match derefOf t v addr with
    | (t', v', addr') =>
      match targetOf t' v' (addr' || pm) with
      | some tgt => (f tgt).mapRoot (rewrap t v)
      | none => .refused
  | s :: rest, t, v, addr, _ =>
    match derefOf t v addr with
    | (t', v', addr') =>
      match stepChild s t' v' addr' with
      | some c => (modifyAt f rest c.type c.val c.addr c.pm).mapRoot fun cv' => rewrap t v (c.put cv')
      | none => .refused

/-- `Map.Set` / `Map.Delete` on a container -/
def localOp (key : String) (op : MapOp) : Target → SetOutcome
  | .struct fs vals settable => structOp fs vals settable key op
  | .goMap E m => mapOp E m key op

/-- `Map.Set(key, val)` at `path` below the root `value.NewValueReflect(&x)`, `x` of type `t`: the root
is reached through a pointer, so it is addressable; it has no parent map -/
def goSetAt (t : GoType) (root : GoVal) (path : List Step) (key : String) (val : Value) : SetOutcome :=
  modifyAt (localOp key (.set val)) path t root true false

/-- `Map.Delete(key)` at `path` below the root -/
def goDeleteAt (t : GoType) (root : GoVal) (path : List Step) (key : String) : SetOutcome :=
  modifyAt (localOp key .del) path t root true false

/-- the container `path` leads to below the root -/
def goResolve (t : GoType) (root : GoVal) (path : List Step) : Option Target :=
  resolve path t root true false

/-! ### the same paths on the abstract value -/

/-- what omitempty omits, on generic data: null, false, 0, "", an empty list or map -/
def Value.isEmptyGeneric : Value → Bool
  | .null => true
  | .bool b => !b
  | .int i => i == 0
  | .float u _ => u == 0
  | .str s => s.isEmpty
  | .list l => l.isEmpty
  | .map m => m.isEmpty

def GoType.isStruct : GoType → Bool
  | .struct _ => true
  | _ => false

def Value.child : Step → Value → Option Value
  | .key k, .map m => lookupField k m
  | .index i, .list l => l[i]?
  | _, _ => none

def Value.setChild : Step → Value → Value → Value
  | .key k, .map m, w => .map (replaceFirst k w m)
  | .index i, .list l, w => .list (l.set i w)
  | _, v, _ => v

/-- `Map.Get` / `List.At` along a path -/
def Value.at : Value → List Step → Option Value
  | v, [] => some v
  | v, s :: rest =>
    match v.child s with
    | some c => c.at rest
    | none => none

/-- the value with the value at `path` replaced by `w` (unchanged when the path leads nowhere) -/
def Value.replaceAt : Value → List Step → Value → Value
  | _, [], w => w
  | v, s :: rest, w =>
    match v.child s with
    | some c => v.setChild s (c.replaceAt rest w)
    | none => v

def Value.eraseChild : Step → Value → Value
  | .key k, .map m => .map (eraseKey k m)
  | _, v => v

/-- the value with the entry `path` leads to removed from the map that holds it (unchanged when the path
is empty, leads nowhere, or ends with an index) -/
def Value.eraseAt : Value → List Step → Value
  | v, [] => v
  | v, s :: rest =>
    if rest.isEmpty then v.eraseChild s
    else
      match v.child s with
      | some c => v.setChild s (c.eraseAt rest)
      | none => v

end SMD
