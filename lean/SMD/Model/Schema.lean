/-
Model of `schema/elements.go` (Schema, TypeDef, TypeRef, Atom, Map, List, StructField, Resolve with
element-relationship overrides) and `schema/equals.go`.

`Scalar` and `ElementRelationship` are Go string types and stay strings here.  Unions are not used by
any walker; they are carried as an opaque list so that `Schema.Equals` sees them.
-/
import SMD.Model.Value
namespace SMD

structure UnionField where
  fieldName : String
  discriminatorValue : String
  deriving Inhabited, Repr, DecidableEq

structure Union where
  discriminator : Option String
  deduceInvalidDiscriminator : Bool
  fields : List UnionField
  deriving Inhabited, Repr, DecidableEq

mutual
/-- `schema.Atom`: any subset of scalar / list / map may be set -/
inductive Atom where
  | mk (scalar : Option String) (list : Option ListT) (map : Option MapT)
/-- `schema.List` -/
inductive ListT where
  | mk (elementType : TypeRef) (rel : String) (keys : List String)
/-- `schema.Map` -/
inductive MapT where
  | mk (fields : List StructField) (unions : List Union) (elementType : TypeRef) (rel : String)
/-- `schema.StructField` (default as an unstructured value) -/
inductive StructField where
  | mk (name : String) (type : TypeRef) (default : Option Value)
/-- `schema.TypeRef` -/
inductive TypeRef where
  | mk (named : Option String) (inlined : Atom) (rel : Option String)
end

namespace Atom
def scalar : Atom → Option String | mk s _ _ => s
def list : Atom → Option ListT | mk _ l _ => l
def map : Atom → Option MapT | mk _ _ m => m
def none : Atom := mk .none .none .none
end Atom
instance : Inhabited Atom := ⟨Atom.none⟩

namespace TypeRef
def named : TypeRef → Option String | mk n _ _ => n
def inlined : TypeRef → Atom | mk _ a _ => a
def rel : TypeRef → Option String | mk _ _ r => r
/-- `schema.TypeRef{}` -/
def zero : TypeRef := mk .none Atom.none .none
/-- `tr == schema.TypeRef{}` -/
def isZero : TypeRef → Bool
  | mk .none (Atom.mk .none .none .none) .none => true
  | _ => false
end TypeRef
instance : Inhabited TypeRef := ⟨TypeRef.zero⟩

namespace ListT
def elementType : ListT → TypeRef | mk e _ _ => e
def rel : ListT → String | mk _ r _ => r
def keys : ListT → List String | mk _ _ k => k
end ListT

namespace StructField
def name : StructField → String | mk n _ _ => n
def type : StructField → TypeRef | mk _ t _ => t
def default : StructField → Option Value | mk _ _ d => d
end StructField

namespace MapT
def fields : MapT → List StructField | mk f _ _ _ => f
def unions : MapT → List Union | mk _ u _ _ => u
def elementType : MapT → TypeRef | mk _ _ e _ => e
def rel : MapT → String | mk _ _ _ r => r
/-- `Map.FindField`: the index map is filled in slice order, so the last field of a name wins -/
def findField (m : MapT) (name : String) : Option StructField :=
  m.fields.reverse.find? (fun f => f.name == name)
end MapT

structure TypeDef where
  name : String
  atom : Atom

/-- `schema.Schema` -/
structure Schema where
  types : List TypeDef

namespace Schema

/-- `Schema.FindNamedType`: last definition of a name wins (map filled in slice order) -/
def findNamedType (s : Schema) (name : String) : Option TypeDef :=
  s.types.reverse.find? (fun t => t.name == name)

/-- `Schema.resolveNoOverrides` -/
def resolveNoOverrides (s : Schema) (tr : TypeRef) : Option Atom :=
  match tr.named with
  | some n => (s.findNamedType n).map (·.atom)
  | none => some tr.inlined

/-- `Schema.Resolve` (schema/elements.go:308-354): an `elementRelationship` on the reference overrides
that of the referred map (first) or list; it cannot be applied to a scalar. -/
def resolve (s : Schema) (tr : TypeRef) : Option Atom :=
  match tr.rel with
  | none => s.resolveNoOverrides tr
  | some r =>
    match s.resolveNoOverrides tr with
    | none => none
    | some (Atom.mk sc l (some (MapT.mk f u e _))) => some (Atom.mk sc l (some (MapT.mk f u e r)))
    | some (Atom.mk sc (some (ListT.mk e _ k)) none) => some (Atom.mk sc (some (ListT.mk e r k)) none)
    | some (Atom.mk _ none none) => none

end Schema

/-! ### structural equality (`schema/equals.go`) -/

mutual
/-- `reflect.DeepEqual` on unstructured default values: type-strict (an int never equals a float). -/
def Value.deepEq : Value → Value → Bool
  | .null, .null => true
  | .bool a, .bool b => a == b
  | .int a, .int b => a == b
  | .float a _, .float b _ => a == b
  | .str a, .str b => a == b
  | .list a, .list b => Value.deepEqList a b
  | .map a, .map b => Value.deepEqFields a b
  | _, _ => false
def Value.deepEqList : List Value → List Value → Bool
  | [], [] => true
  | a :: as, b :: bs => Value.deepEq a b && Value.deepEqList as bs
  | _, _ => false
def Value.deepEqFields : List (String × Value) → List (String × Value) → Bool
  | [], [] => true
  | (k, v) :: as, (k', v') :: bs => k == k' && Value.deepEq v v' && Value.deepEqFields as bs
  | _, _ => false
end

def eqOpt {α : Type} (eq : α → α → Bool) : Option α → Option α → Bool
  | none, none => true
  | some a, some b => eq a b
  | _, _ => false

mutual
/-- `Atom.Equals`: same members set and every set member equal -/
def Atom.equals : Atom → Atom → Bool
  | .mk s1 l1 m1, .mk s2 l2 m2 =>
    (s1 == s2) &&
    (match l1, l2 with
     | none, none => true
     | some a, some b => ListT.equals a b
     | _, _ => false) &&
    (match m1, m2 with
     | none, none => true
     | some a, some b => MapT.equals a b
     | _, _ => false)
def ListT.equals : ListT → ListT → Bool
  | .mk e1 r1 k1, .mk e2 r2 k2 => TypeRef.equals e1 e2 && r1 == r2 && k1 == k2
def MapT.equals : MapT → MapT → Bool
  | .mk f1 u1 e1 r1, .mk f2 u2 e2 r2 =>
    TypeRef.equals e1 e2 && r1 == r2 && StructField.equalsList f1 f2 && decide (u1 = u2)
def StructField.equalsList : List StructField → List StructField → Bool
  | [], [] => true
  | a :: as, b :: bs => StructField.equals a b && StructField.equalsList as bs
  | _, _ => false
def StructField.equals : StructField → StructField → Bool
  | .mk n1 t1 d1, .mk n2 t2 d2 =>
    n1 == n2 && eqOpt Value.deepEq d1 d2 && TypeRef.equals t1 t2
def TypeRef.equals : TypeRef → TypeRef → Bool
  | .mk n1 a1 r1, .mk n2 a2 r2 => n1 == n2 && r1 == r2 && Atom.equals a1 a2
end

def TypeDef.equals (a b : TypeDef) : Bool := a.name == b.name && Atom.equals a.atom b.atom

def TypeDef.equalsList : List TypeDef → List TypeDef → Bool
  | [], [] => true
  | a :: as, b :: bs => TypeDef.equals a b && TypeDef.equalsList as bs
  | _, _ => false

/-- `Schema.Equals` -/
def Schema.equals (a b : Schema) : Bool := TypeDef.equalsList a.types b.types

end SMD
