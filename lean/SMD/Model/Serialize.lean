/-
Model of `fieldpath/serialize.go` (emitContentsV1, readIterV1) and `fieldpath/serialize-pe.go`
(SerializePathElement / DeserializePathElement).

Two layers.  The *tree* layer works on JSON object trees `J` whose member keys are strings, in
document order, repeats allowed — exactly what `ReadMapCB` hands to the reader and what the emitter
writes between `WriteObjectStart/End`.  The *key* layer is the path-element codec: the text after
`f:` / `k:` / `v:` / `i:`; its JSON payload is produced / parsed by jsoniter in Go, modelled here by a
small JSON printer / reader that follows jsoniter (not the JSON grammar) where the two differ, restricted
to numbers whose shortest decimal form is their exact value (the generators of the `ser` domain stay
inside that set; outside it the model answers `unsupported` and the line is judged on the implementation
only).

Printing: the NAMES of key fields are written by `WriteObjectField` (no HTML escaping), everything else by
`WriteVal` with the std-compatible config (HTML escaping, U+2028/9).  Reading: the header of a key is
inspected by byte; `i:` payloads are Go `int`s; a number is the token of all number characters that
follow, validated as jsoniter does (`1.`, `01`, `1.5.5`, `1-2` are errors, `1x` is 1) and must denote a
float64 exactly (otherwise `unsupported`: Go would round); objects become Go maps (key-sorted, the last
repeat wins) except the top level of `k:`, which is a field list (repeats kept, stable sort); an escaped
surrogate pair is one code point; `null` is accepted as the name of a second or later member.
-/
import SMD.Model.SetTrie
namespace SMD

/-- a JSON value as the field-set reader sees it -/
inductive J where
  | obj (members : List (String × J))
  | null
  | other          -- any non-object, non-null value
  deriving Inhabited, Repr

namespace Ser

/-! ### key layer: printing -/

def hexDigit (n : Nat) : Char := if n < 10 then Char.ofNat (48 + n) else Char.ofNat (87 + n)

/-- jsoniter `WriteStringWithHTMLEscaped` -/
def escapeChar (c : Char) : String :=
  if c == '"' then "\\\"" else if c == '\\' then "\\\\"
  else if c == '\n' then "\\n" else if c == '\r' then "\\r" else if c == '\t' then "\\t"
  else if c == '<' then "\\u003c" else if c == '>' then "\\u003e" else if c == '&' then "\\u0026"
  else if c.toNat == 0x2028 then "\\u2028" else if c.toNat == 0x2029 then "\\u2029"
  else if c.toNat < 0x20 then "\\u00" ++ String.singleton (hexDigit (c.toNat / 16)) ++ String.singleton (hexDigit (c.toNat % 16))
  else String.singleton c

def jsonString (s : String) : String := "\"" ++ String.join (s.toList.map escapeChar) ++ "\""

/-- jsoniter `WriteString` (stream_str.go:309-372, no HTML escaping): only `"`, `\\` and the control
characters below 0x20 are escaped (`\n`, `\r`, `\t`, otherwise `\u00XX`); `<`, `>`, `&`, U+2028 and U+2029
are written as they are -/
def escapeCharPlain (c : Char) : String :=
  if c == '"' then "\\\"" else if c == '\\' then "\\\\"
  else if c == '\n' then "\\n" else if c == '\r' then "\\r" else if c == '\t' then "\\t"
  else if c.toNat < 0x20 then "\\u00" ++ String.singleton (hexDigit (c.toNat / 16)) ++ String.singleton (hexDigit (c.toNat % 16))
  else String.singleton c

/-- `Stream.WriteObjectField` minus the colon = `WriteString` -/
def jsonStringPlain (s : String) : String := "\"" ++ String.join (s.toList.map escapeCharPlain) ++ "\""

/-- odd part: `u = m * 2^k`, `m` odd (u ≠ 0) -/
def oddPart : Nat → Int → Nat → Int × Nat
  | 0, u, k => (u, k)
  | fuel + 1, u, k => if u % 2 == 0 && u != 0 then oddPart fuel (u / 2) (k + 1) else (u, k)

/-- jsoniter `WriteFloat64` for a float whose exact decimal expansion is its shortest form
(at most 15 significant digits, 1e-6 ≤ |v| < 1e21); `none` otherwise -/
def jsonFloat (u : Int) (negz : Bool) : Option String :=
  if u == 0 then some (if negz then "-0" else "0")
  else
    let (m, k) := oddPart 1100 u 0
    let e : Int := (k : Int) - 1074
    let sign := if m < 0 then "-" else ""
    let a := m.natAbs
    if e ≥ 0 then
      let n := a * 2 ^ e.toNat
      let ds := toString n
      if ds.length ≤ 15 then some (sign ++ ds) else none
    else
      let d := (-e).toNat
      let digits := toString (a * 5 ^ d)           -- value = digits / 10^d
      if digits.length > 15 then none
      else if digits.length + 5 < d then none       -- below 1e-6: exponent format
      else
        let padded := if digits.length ≤ d then String.ofList (List.replicate (d + 1 - digits.length) '0') ++ digits else digits
        let cs := padded.toList
        let ip := cs.take (cs.length - d)
        let fp := cs.drop (cs.length - d)
        some (sign ++ String.ofList ip ++ "." ++ String.ofList fp)

mutual
/-- jsoniter `WriteVal(v.Unstructured())` with the std-compatible config (sorted keys, HTML escaping) -/
def jsonValue : Value → Option String
  | .null => some "null"
  | .bool b => some (if b then "true" else "false")
  | .int i => some (toString i)
  | .float u z => jsonFloat u z
  | .str s => some (jsonString s)
  | .list l => (jsonList l).map fun s => "[" ++ s ++ "]"
  | .map m => (jsonFields m).map fun s => "{" ++ s ++ "}"
def jsonList : List Value → Option String
  | [] => some ""
  | [v] => jsonValue v
  | v :: rest =>
    match jsonValue v, jsonList rest with
    | some a, some b => some (a ++ "," ++ b)
    | _, _ => none
def jsonFields : List (String × Value) → Option String
  | [] => some ""
  | [(k, v)] => (jsonValue v).map fun s => jsonString k ++ ":" ++ s
  | (k, v) :: rest =>
    match jsonValue v, jsonFields rest with
    | some a, some b => some (jsonString k ++ ":" ++ a ++ "," ++ b)
    | _, _ => none
end

/-- the fields of a `k:` key (fieldpath/serialize-pe.go:151-164): each NAME goes through
`stream.WriteObjectField` (= `WriteString`: no HTML escaping), each VALUE through `WriteVal` with the
std-compatible config (`jsonValue`: HTML escaping, also of the keys of nested maps) -/
def jsonKeyFields : List (String × Value) → Option String
  | [] => some ""
  | [(k, v)] => (jsonValue v).map fun s => jsonStringPlain k ++ ":" ++ s
  | (k, v) :: rest =>
    match jsonValue v, jsonKeyFields rest with
    | some a, some b => some (jsonStringPlain k ++ ":" ++ a ++ "," ++ b)
    | _, _ => none

/-- `SerializePathElement` (`none` = the payload is outside the exactly printable numbers) -/
def serializePE : PE → Option String
  | .field n => some ("f:" ++ n)
  | .key k => (jsonKeyFields k).map fun s => "k:{" ++ s ++ "}"
  | .value v => (jsonValue v).map fun s => "v:" ++ s
  | .index i => some ("i:" ++ toString i)
  | .invalid => none

/-! ### key layer: reading (standard JSON; numbers become floats as `jsoniter.Iterator.Read` does) -/

inductive ReadErr where
  | unknownType     -- `ErrUnknownPathElementType`: skipped by the set reader
  | bad             -- any other error
  | unsupported     -- outside the modelled JSON subset
  deriving Inhabited, Repr, BEq

def skipWs : List Char → List Char
  | c :: cs => if c == ' ' || c == '\t' || c == '\n' || c == '\r' then skipWs cs else c :: cs
  | [] => []

def hexVal (c : Char) : Option Nat :=
  if c.isDigit then some (c.toNat - 48)
  else if 'a' ≤ c ∧ c ≤ 'f' then some (c.toNat - 87)
  else if 'A' ≤ c ∧ c ≤ 'F' then some (c.toNat - 55)
  else none

/-- jsoniter `readU4`: four hex digits -/
def readU4 : List Char → Option (Nat × List Char)
  | a :: b :: c :: d :: rest =>
    match hexVal a, hexVal b, hexVal c, hexVal d with
    | some x, some y, some z, some w => some (((x * 16 + y) * 16 + z) * 16 + w, rest)
    | _, _, _, _ => none
  | _ => none

/-- `utf16.IsSurrogate` -/
def isSurrogate (n : Nat) : Bool := decide (0xD800 ≤ n) && decide (n < 0xE000)

/-- jsoniter `appendRune` of a UTF-16 code unit: a surrogate becomes U+FFFD -/
def runeOfUnit (n : Nat) : Char := if isSurrogate n then Char.ofNat 0xFFFD else Char.ofNat n

/-- JSON string body after the opening quote (jsoniter `ReadString` / `readEscapedChar`, iter_str.go).
An escaped UTF-16 surrogate pair `\uD83D\uDE00` is combined into one code point; a surrogate that is not
followed by `\u` becomes U+FFFD; a surrogate followed by a `\uXXXX` that does not complete a pair becomes
U+FFFD followed by that unit (itself U+FFFD when it is a surrogate).
Not modelled: once an escape has occurred jsoniter no longer rejects raw control bytes (its slow path
does not re-check them); the model rejects a raw control character wherever it stands. -/
def readStringBody : Nat → List Char → List Char → Option (String × List Char)
  | 0, _, _ => none
  | _ + 1, '"' :: cs, acc => some (String.ofList acc.reverse, cs)
  | fuel + 1, '\\' :: c :: cs, acc =>
    if c == 'u' then
      match readU4 cs with
      | none => none
      | some (r, rest) =>
        if !isSurrogate r then readStringBody fuel rest (Char.ofNat r :: acc)
        else
          match rest with
          | '\\' :: 'u' :: rest2 =>
            (match readU4 rest2 with
             | none => none
             | some (r2, rest3) =>
               if r < 0xDC00 && 0xDC00 ≤ r2 && r2 < 0xE000 then
                 -- `utf16.DecodeRune`
                 readStringBody fuel rest3 (Char.ofNat (0x10000 + (r - 0xD800) * 0x400 + (r2 - 0xDC00)) :: acc)
               else readStringBody fuel rest3 (runeOfUnit r2 :: Char.ofNat 0xFFFD :: acc))
          | _ => readStringBody fuel rest (Char.ofNat 0xFFFD :: acc)
    else
      let r : Option Char :=
        if c == '"' then some '"' else if c == '\\' then some '\\' else if c == '/' then some '/'
        else if c == 'b' then some (Char.ofNat 8) else if c == 'f' then some (Char.ofNat 12)
        else if c == 'n' then some '\n' else if c == 'r' then some '\r' else if c == 't' then some '\t'
        else none
      (match r with
       | some ch => readStringBody fuel cs (ch :: acc)
       | none => none)
  | fuel + 1, c :: cs, acc => if c.toNat < 0x20 then none else readStringBody fuel cs (c :: acc)
  | _ + 1, [], _ => none

def takeDigits : List Char → List Char × List Char
  | c :: cs => if c.isDigit then let (d, r) := takeDigits cs; (c :: d, r) else ([], c :: cs)
  | [] => ([], [])

def digitsToNat (ds : List Char) : Nat := ds.foldl (fun n c => n * 10 + (c.toNat - 48)) 0

/-- the characters jsoniter's `readNumberAsString` collects into the token it hands to `strconv.ParseFloat` -/
def isNumChar (c : Char) : Bool :=
  c.isDigit || c == '+' || c == '-' || c == '.' || c == 'e' || c == 'E'

/-- the number token: the longest prefix of number characters -/
def takeNumChars : List Char → List Char × List Char
  | c :: cs => if isNumChar c then let (d, r) := takeNumChars cs; (c :: d, r) else ([], c :: cs)
  | [] => ([], [])

/-- a well-formed exponent `[eE][+-]?digit+` making up the whole remainder of the token -/
def isExponent : List Char → Bool
  | c :: r =>
    (c == 'e' || c == 'E') &&
      (match r with
       | '+' :: t => !t.isEmpty && t.all Char.isDigit
       | '-' :: t => !t.isEmpty && t.all Char.isDigit
       | _ => !r.isEmpty && r.all Char.isDigit)
  | [] => false

/-- the float denoted by the decimal `ip.fp` (digits), exactly; `unsupported` when the value is not a
float64 — not a short dyadic, more than 53 significant bits, or too large — so that `ParseFloat` would
round (`9007199254740993`, `4503599627370496.5`) or overflow -/
def numberValue (neg : Bool) (ip fp rest : List Char) : Except ReadErr (Value × List Char) :=
  -- value = N / 10^d
  let n := digitsToNat (ip ++ fp)
  let d := fp.length
  -- exact iff N * 2^1074 divisible by 10^d, i.e. by 5^d after cancelling 2^d
  let num : Nat := n * 2 ^ (1074 - d)
  if d > 1074 then .error .unsupported
  else if num % (5 ^ d) != 0 then .error .unsupported
  else
    let u : Int := (num / 5 ^ d : Nat)
    if !isFloat64Units u then .error .unsupported
    else .ok (.float (if neg then -u else u) (neg && n == 0), rest)

/-- what follows the mantissa inside the token: nothing, or a well-formed exponent (outside the modelled
subset), or anything else — `ParseFloat` reports a syntax error (`1.5.5`, `1-2`, `1e`, `1+`) -/
def finishNumber (neg : Bool) (ip fp t3 rest : List Char) : Option (Except ReadErr (Value × List Char)) :=
  if t3.isEmpty then some (numberValue neg ip fp rest)
  else if isExponent t3 then some (.error .unsupported)
  else none

/-- the mantissa `digits [. digits]`: a dot must be followed by a digit (`validateFloat`: "dot can not be
last character" / "missing digit after dot"), and there must be a digit at all (`ParseFloat`) -/
def parseMantissa (neg : Bool) (t1 rest : List Char) : Option (Except ReadErr (Value × List Char)) :=
  match (takeDigits t1).2 with
  | '.' :: r =>
    if (takeDigits r).1.isEmpty then none
    else finishNumber neg (takeDigits t1).1 (takeDigits r).1 (takeDigits r).2 rest
  | t2 =>
    if (takeDigits t1).1.isEmpty then none
    else finishNumber neg (takeDigits t1).1 [] t2 rest

/-- the token after the optional leading `-` (`readPositiveFloat64`, then `readFloat64SlowPath`): the
fast path rejects a leading dot and a leading zero followed by a digit before the token is handed to
`ParseFloat`; a token that starts with `+` (reachable only as `-+…`) goes to `ParseFloat` as it is, which
accepts the sign, leading zeros and a leading dot (`-+01` is -1, `-+.5` is -0.5) -/
def parseNumTok (neg : Bool) (tok rest : List Char) : Option (Except ReadErr (Value × List Char)) :=
  match tok with
  | '+' :: t1 => parseMantissa neg t1 rest
  | '.' :: _ => none
  | '0' :: d :: t => if d.isDigit then none else parseMantissa neg ('0' :: d :: t) rest
  | _ => parseMantissa neg tok rest

/-- a JSON number as jsoniter's `ReadFloat64` reads it (iter_float.go): an optional `-`, then the
token of all following number characters `[0-9+-.eE]`; `none` = the ordinary error (malformed: trailing
dot, leading zero, `1.5.5`, `1-2`, a lone `-`, `-.5`), `unsupported` when the value has an exponent or is
not a short dyadic (rounding would be needed).  The text after the token is not inspected (`1x` is 1). -/
def readNumber (cs : List Char) : Option (Except ReadErr (Value × List Char)) :=
  match cs with
  | '-' :: r => parseNumTok true (takeNumChars r).1 (takeNumChars r).2
  | _ => parseNumTok false (takeNumChars cs).1 (takeNumChars cs).2

mutual
/-- a standard JSON value as `jsoniter.Iterator.Read` returns it (`fuel` bounds the nesting and the number
of members): numbers are floats, objects are maps in canonical form (entries sorted by key, of repeated
keys the last one kept) at every nesting level -/
def readValue : Nat → List Char → Except ReadErr (Value × List Char)
  | 0, _ => .error .unsupported
  | fuel + 1, cs =>
    match skipWs cs with
    | 'n' :: 'u' :: 'l' :: 'l' :: r => .ok (.null, r)
    | 't' :: 'r' :: 'u' :: 'e' :: r => .ok (.bool true, r)
    | 'f' :: 'a' :: 'l' :: 's' :: 'e' :: r => .ok (.bool false, r)
    | '"' :: r =>
      (match readStringBody (r.length + 1) r [] with
       | some (s, r') => .ok (.str s, r')
       | none => .error .bad)
    | '[' :: r =>
      (match skipWs r with
       | ']' :: r' => .ok (.list [], r')
       | _ => readItems fuel r [])
    | '{' :: r =>
      (match skipWs r with
       | '}' :: r' => .ok (.map [], r')
       | _ =>
         -- `iter.Read()` builds a Go map (`obj[field] = elem`: the last repeat wins, no order); the
         -- library then treats maps as key-sorted
         match readObjMembers fuel r [] with
         | .ok (m, r') => .ok (.map (goMapFields m), r')
         | .error e => .error e)
    | c :: r =>
      if c == '-' || c.isDigit then
        (match readNumber (c :: r) with
         | some x => x
         | none => .error .bad)
      else .error .bad
    | [] => .error .bad
def readItems : Nat → List Char → List Value → Except ReadErr (Value × List Char)
  | 0, _, _ => .error .unsupported
  | fuel + 1, cs, acc =>
    match readValue fuel cs with
    | .ok (v, r') =>
      (match skipWs r' with
       | ',' :: r'' => readItems fuel r'' (v :: acc)
       | ']' :: r'' => .ok (.list (v :: acc).reverse, r'')
       | _ => .error .bad)
    | .error e => .error e
/-- the members of an object after its opening brace, in document order, repeats kept.  jsoniter reads
the name of the second and later members with `ReadString`, which also accepts the bare token `null` (as
the empty name); the first name must be a string. -/
def readObjMembers : Nat → List Char → List (String × Value) → Except ReadErr (List (String × Value) × List Char)
  | 0, _, _ => .error .unsupported
  | fuel + 1, cs, acc =>
    let name : Option (String × List Char) :=
      match skipWs cs with
      | '"' :: r1 => readStringBody (r1.length + 1) r1 []
      | 'n' :: 'u' :: 'l' :: 'l' :: r2 => if acc.isEmpty then none else some ("", r2)
      | _ => none
    match name with
    | some (k, r2) =>
      (match skipWs r2 with
       | ':' :: r3 =>
         (match readValue fuel r3 with
          | .ok (v, r4) =>
            (match skipWs r4 with
             | ',' :: r5 => readObjMembers fuel r5 ((k, v) :: acc)
             | '}' :: r5 => .ok (((k, v) :: acc).reverse, r5)
             | _ => .error .bad)
          | .error e => .error e)
       | _ => .error .bad)
    | none => .error .bad
end

/-- `strconv.Atoi` (64-bit `int`): `none` also when the value is outside `[-2^63, 2^63-1]`
("value out of range") -/
def atoi (cs : List Char) : Option Int :=
  let (neg, ds) := match cs with | '-' :: r => (true, r) | '+' :: r => (false, r) | _ => (false, cs)
  if ds.isEmpty || !ds.all Char.isDigit then none
  else
    let i : Int := if neg then -(digitsToNat ds : Int) else digitsToNat ds
    if i < -(2 ^ 63 : Int) || (2 ^ 63 : Int) ≤ i then none else some i

/-- Go's `[]byte(s)`: the bytes of the UTF-8 text -/
def utf8Bytes (s : String) : List UInt8 := s.toUTF8.data.toList

/-- the `switch typeSep[0]` of `DeserializePathElement`: `t` is the first byte of the key, `payload` the
text after the first two bytes -/
def deserializeTyped (t : UInt8) (payload : List Char) : Except ReadErr PE :=
  if t == 102 /- 'f' -/ then .ok (.field (String.ofList payload))
  else if t == 118 /- 'v' -/ then
    (match readValue (payload.length + 2) payload with
     | .ok (v, _) => .ok (.value v)       -- trailing bytes are not inspected
     | .error e => .error e)
  else if t == 107 /- 'k' -/ then
    (match skipWs payload with
     | 'n' :: 'u' :: 'l' :: 'l' :: _ => .ok (.key [])
     | '{' :: r =>
       -- `ReadObjectCB`: the fields in document order (repeats kept), then `fields.Sort()`
       (match skipWs r with
        | '}' :: _ => .ok (.key [])
        | _ =>
          match readObjMembers (payload.length + 1) r [] with
          | .ok (m, _) => .ok (.key (FieldList.sort m))
          | .error e => .error e)
     | _ => .error .bad)
  else if t == 105 /- 'i' -/ then
    (match atoi payload with
     | some i => .ok (.index i)
     | none => .error .bad)
  else .error .unknownType

/-- `DeserializePathElement` (fieldpath/serialize-pe.go:76-128).  The header is inspected by BYTE, as Go
does: fewer than two bytes, or a second byte other than `:`, is the ordinary error — in particular a
key whose first character is not a single byte (its second byte is then a continuation byte).  When
the second byte is `:` the first byte is a whole one-byte character, so the bytes after the first
two are the text after the first two characters. -/
def deserializePE (s : String) : Except ReadErr PE :=
  match utf8Bytes s with
  | t :: sep :: _ =>
    if sep != 58 /- ':' -/ then .error .bad
    else deserializeTyped t (s.toList.drop 2)
  | _ => .error .bad

/-! ### tree layer -/

/-- the key codec as a parameter of the tree layer (instantiated with `serializePE` / `deserializePE`) -/
structure KeyCodec where
  enc : PE → Option String
  dec : String → Except ReadErr PE

def stdCodec : KeyCodec := ⟨serializePE, deserializePE⟩

mutual
/-- `Set.emitContentsV1` (fieldpath/serialize.go:79-165): members and children interleaved in
path-element order; a child that is also a member carries the `"."` marker.
Keys are serialized path elements (`none` when a key is not printable by the model). -/
def emitWith (k : KeyCodec) (includeSelf : Bool) : SetTrie → Option (List (String × J))
  | .node m c =>
    let self : List (String × J) := if includeSelf && !(m.isEmpty && c.isEmpty) then [(".", J.obj [])] else []
    (emitMergeWith k m c).map fun rest => self ++ rest
termination_by t => (sizeOf t, 0)
/-- the three loops over `mi`, `ci` -/
def emitMergeWith (k : KeyCodec) : List PE → Children → Option (List (String × J))
  | [], [] => some []
  | mpe :: ms, [] =>
    match k.enc mpe, emitMergeWith k ms [] with
    | some key, some rest => some ((key, J.obj []) :: rest)
    | _, _ => none
  | ms, (cpe, t) :: cs =>
    match ms with
    | [] =>
      (match k.enc cpe, emitWith k false t, emitMergeWith k [] cs with
       | some key, some sub, some rest => some ((key, J.obj sub) :: rest)
       | _, _, _ => none)
    | mpe :: ms' =>
      (match PE.compare mpe cpe with
       | .lt =>
         (match k.enc mpe, emitMergeWith k ms' ((cpe, t) :: cs) with
          | some key, some rest => some ((key, J.obj []) :: rest)
          | _, _ => none)
       | .gt =>
         (match k.enc cpe, emitWith k false t, emitMergeWith k (mpe :: ms') cs with
          | some key, some sub, some rest => some ((key, J.obj sub) :: rest)
          | _, _, _ => none)
       | .eq =>
         (match k.enc cpe, emitWith k true t, emitMergeWith k ms' cs with
          | some key, some sub, some rest => some ((key, J.obj sub) :: rest)
          | _, _, _ => none))
termination_by ms cs => (sizeOf cs, ms.length + 1)
end

def emit (includeSelf : Bool) (s : SetTrie) : Option (List (String × J)) := emitWith stdCodec includeSelf s

/-- `Set.ToJSON` as a tree -/
def toJSONWith (k : KeyCodec) (s : SetTrie) : Option J := (emitWith k false s).map J.obj
def toJSON (s : SetTrie) : Option J := toJSONWith stdCodec s

/-- result of reading one subtree: the children set (`none` = nil) and whether it is a member -/
structure ReadOut where
  children : Option SetTrie
  isMember : Bool
  err : Bool           -- `iter.Error` was set
  unsupported : Bool   -- a key was outside the modelled JSON subset

/-- append-if-in-order else sorted insert (members) -/
def addMember (pe : PE) (m : List PE) : List PE :=
  match m.getLast? with
  | none => [pe]
  | some last => if PE.less last pe then m ++ [pe] else peInsert pe m

/-- append-if-in-order else `*Descend(pe) = *grandchildren` (children) -/
def addChild (pe : PE) (g : SetTrie) (c : Children) : Children :=
  match c.getLast? with
  | none => [(pe, g)]
  | some last => if PE.less last.1 pe then c ++ [(pe, g)] else SetTrie.descendWith pe (fun _ => g) c

mutual
/-- `readIterV1` (fieldpath/serialize.go:186-238) -/
def readV1With (k : KeyCodec) : J → ReadOut
  | .obj ms =>
    let r := readMembersWith k ms ⟨none, false, false, false⟩
    if r.children.isNone then { r with isMember := true } else r
  | .null => ⟨none, true, false, false⟩
  | .other => ⟨none, true, true, false⟩
def readMembersWith (k : KeyCodec) : List (String × J) → ReadOut → ReadOut
  | [], acc => acc
  | (key, sub) :: rest, acc =>
    if key == "." then readMembersWith k rest { acc with isMember := true }
    else
      match k.dec key with
      | .error .unknownType => readMembersWith k rest acc
      | .error .unsupported => readMembersWith k rest { acc with unsupported := true }
      | .error .bad => readMembersWith k rest { acc with err := true }
      | .ok pe =>
        let g := readV1With k sub
        let cur : SetTrie := acc.children.getD SetTrie.empty
        let withMember : Option SetTrie :=
          if g.isMember then some (.node (addMember pe cur.members) cur.children) else acc.children
        let cur2 : SetTrie := withMember.getD SetTrie.empty
        let withChild : Option SetTrie :=
          match g.children with
          | some gc => some (.node cur2.members (addChild pe gc cur2.children))
          | none => withMember
        let acc' : ReadOut := ⟨withChild, acc.isMember, acc.err || g.err, acc.unsupported || g.unsupported⟩
        readMembersWith k rest acc' 
end

inductive FromJSON where
  | ok (s : SetTrie)
  | err
  | unsupported

def readV1 (j : J) : ReadOut := readV1With stdCodec j

/-- `Set.FromJSON` -/
def fromJSONWith (k : KeyCodec) (j : J) : FromJSON :=
  let r := readV1With k j
  if r.unsupported then .unsupported
  else if r.err then .err
  else .ok (r.children.getD SetTrie.empty)

def fromJSON (j : J) : FromJSON :=
  let r := readV1 j
  if r.unsupported then .unsupported
  else if r.err then .err
  else .ok (r.children.getD SetTrie.empty)

end Ser
end SMD
