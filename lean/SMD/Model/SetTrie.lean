/-
Model of `fieldpath/set.go` (Set, SetNodeMap) and the PathElementSet algebra of `fieldpath/element.go`.
Every operation follows the Go two-cursor loop over the sorted member / child slices.
-/
import SMD.Model.Path
namespace SMD

/-- `fieldpath.Set`: `Members` (sorted path elements) and `Children` (sorted (element, subset) nodes). -/
inductive SetTrie where
  | node (members : List PE) (children : List (PE × SetTrie))
  deriving Inhabited, Repr

abbrev Children := List (PE × SetTrie)

namespace SetTrie

def members : SetTrie → List PE | node m _ => m
def children : SetTrie → Children | node _ c => c

/-- `&Set{}` / `NewSet()` -/
def empty : SetTrie := node [] []

/-! ### PathElementSet algebra (fieldpath/element.go:213-283) -/

/-- `PathElementSet.Union` -/
def peUnion : List PE → List PE → List PE
  | [], r => r
  | l, [] => l
  | x :: xs, y :: ys =>
    if PE.less x y then x :: peUnion xs (y :: ys)
    else if !PE.less y x then y :: peUnion xs ys
    else y :: peUnion (x :: xs) ys

/-- `PathElementSet.Intersection` -/
def peInter : List PE → List PE → List PE
  | [], _ => []
  | _, [] => []
  | x :: xs, y :: ys =>
    if PE.less x y then peInter xs (y :: ys)
    else if !PE.less y x then x :: peInter xs ys
    else peInter (x :: xs) ys

/-- `PathElementSet.Difference` -/
def peDiff : List PE → List PE → List PE
  | [], _ => []
  | l, [] => l
  | x :: xs, y :: ys =>
    if PE.less x y then x :: peDiff xs (y :: ys)
    else if !PE.less y x then peDiff xs ys
    else peDiff (x :: xs) ys

/-- `PathElementSet.Equals` -/
def peEquals : List PE → List PE → Bool
  | [], [] => true
  | x :: xs, y :: ys => PE.equals x y && peEquals xs ys
  | _, _ => false

/-! ### Set / SetNodeMap -/

/-- `SetNodeMap.Get` (fieldpath/set.go:493-507) -/
def getChild (pe : PE) : Children → Option SetTrie
  | [] => none
  | (x, t) :: xs => if PE.less x pe then getChild pe xs else if PE.equals x pe then some t else none

/-- `SetNodeMap.Descend` followed by an edit `f` of the (possibly freshly created, empty) subset. -/
def descendWith (pe : PE) (f : SetTrie → SetTrie) : Children → Children
  | [] => [(pe, f empty)]
  | (x, t) :: xs =>
    if PE.less x pe then (x, t) :: descendWith pe f xs
    else if PE.equals x pe then (x, f t) :: xs
    else (pe, f empty) :: (x, t) :: xs

/-- `Set.Insert` (fieldpath/set.go:52-69) -/
def insert : Path → SetTrie → SetTrie
  | [], s => s
  | [pe], node m c => node (peInsert pe m) c
  | pe :: rest, node m c => node m (descendWith pe (insert rest) c)

/-- `NewSet(paths...)` -/
def ofPaths (ps : List Path) : SetTrie := ps.foldl (fun s p => insert p s) empty

/-- `Set.Has` (fieldpath/set.go:361-378) -/
def has : Path → SetTrie → Bool
  | [], _ => false
  | [pe], node m _ => peHas pe m
  | pe :: rest, node _ c =>
    match getChild pe c with
    | some t => has rest t
    | none => false

mutual
/-- `Set.Size` -/
def size : SetTrie → Nat
  | node m c => m.length + sizeChildren c
/-- `SetNodeMap.Size` -/
def sizeChildren : Children → Nat
  | [] => 0
  | (_, t) :: xs => size t + sizeChildren xs
end

mutual
/-- `Set.Empty` -/
def isEmpty : SetTrie → Bool
  | node m c => m.isEmpty && isEmptyChildren c
/-- `SetNodeMap.Empty` -/
def isEmptyChildren : Children → Bool
  | [] => true
  | (_, t) :: xs => isEmpty t && isEmptyChildren xs
end

mutual
/-- `Set.Equals` -/
def equals : SetTrie → SetTrie → Bool
  | node m1 c1, node m2 c2 => peEquals m1 m2 && equalsChildren c1 c2
/-- `SetNodeMap.Equals` -/
def equalsChildren : Children → Children → Bool
  | [], [] => true
  | (x, s) :: xs, (y, t) :: ys => PE.equals x y && equals s t && equalsChildren xs ys
  | _, _ => false
end

mutual
/-- `Set.Iterate` order: members first, then children depth first (fieldpath/set.go:399-406, 719-727) -/
def paths : SetTrie → List Path
  | node m c => m.map (fun pe => [pe]) ++ pathsChildren c
def pathsChildren : Children → List Path
  | [] => []
  | (pe, t) :: xs => (paths t).map (fun p => pe :: p) ++ pathsChildren xs
end

mutual
/-- `Set.Union` -/
def union : SetTrie → SetTrie → SetTrie
  | node m1 c1, node m2 c2 => node (peUnion m1 m2) (unionChildren c1 c2)
termination_by a b => sizeOf a + sizeOf b
/-- `SetNodeMap.Union` (fieldpath/set.go:526-554) -/
def unionChildren : Children → Children → Children
  | [], r => r
  | l, [] => l
  | (x, s) :: xs, (y, t) :: ys =>
    if PE.less x y then (x, s) :: unionChildren xs ((y, t) :: ys)
    else if !PE.less y x then (x, union s t) :: unionChildren xs ys
    else (y, t) :: unionChildren ((x, s) :: xs) ys
termination_by a b => sizeOf a + sizeOf b
end

mutual
/-- `Set.Intersection` -/
def inter : SetTrie → SetTrie → SetTrie
  | node m1 c1, node m2 c2 => node (peInter m1 m2) (interChildren c1 c2)
termination_by a b => sizeOf a + sizeOf b
/-- `SetNodeMap.Intersection` (fieldpath/set.go:556-577) -/
def interChildren : Children → Children → Children
  | [], _ => []
  | _, [] => []
  | (x, s) :: xs, (y, t) :: ys =>
    if PE.less x y then interChildren xs ((y, t) :: ys)
    else if !PE.less y x then
      let res := inter s t
      if !isEmpty res then (x, res) :: interChildren xs ys else interChildren xs ys
    else interChildren ((x, s) :: xs) ys
termination_by a b => sizeOf a + sizeOf b
end

mutual
/-- `Set.Difference` (plain difference on the trie) -/
def diff : SetTrie → SetTrie → SetTrie
  | node m1 c1, node m2 c2 => node (peDiff m1 m2) (diffChildren c1 c2)
termination_by a b => sizeOf a + sizeOf b
/-- `SetNodeMap.Difference` (fieldpath/set.go:579-608) -/
def diffChildren : Children → Children → Children
  | [], _ => []
  | l, [] => l
  | (x, s) :: xs, (y, t) :: ys =>
    if PE.less x y then (x, s) :: diffChildren xs ((y, t) :: ys)
    else if !PE.less y x then
      let d := diff s t
      if !isEmpty d then (x, d) :: diffChildren xs ys else diffChildren xs ys
    else diffChildren ((x, s) :: xs) ys
termination_by a b => sizeOf a + sizeOf b
end

mutual
/-- `Set.RecursiveDifference` -/
def rdiff : SetTrie → SetTrie → SetTrie
  | node m1 c1, node m2 c2 => node (peDiff m1 m2) (rdiffChildren c1 m2 c2)
termination_by a b => sizeOf a + sizeOf b
/-- `SetNodeMap.RecursiveDifference` (fieldpath/set.go:617-652); `m2` = `s2.Members`. -/
def rdiffChildren : Children → List PE → Children → Children
  | [], _, _ => []
  | l, m2, [] => l.filter (fun c => !peHas c.1 m2)
  | (x, s) :: xs, m2, (y, t) :: ys =>
    if PE.less x y then
      if !peHas x m2 then (x, s) :: rdiffChildren xs m2 ((y, t) :: ys)
      else rdiffChildren xs m2 ((y, t) :: ys)
    else if !PE.less y x then
      if !peHas x m2 then
        let d := rdiff s t
        if !isEmpty d then (x, d) :: rdiffChildren xs m2 ys else rdiffChildren xs m2 ys
      else rdiffChildren xs m2 ys
    else rdiffChildren ((x, s) :: xs) m2 ys
termination_by a _ b => sizeOf a + sizeOf b
end

/-- the member loop of `Set.Leaves` (fieldpath/set.go:419-448): members that are not also child keys.
`im`/`ic` advance exactly as in Go (`ic` is never reset). -/
def leafMembers : List PE → Children → List PE
  | [], _ => []
  | m :: ms, [] => m :: leafMembers ms []
  | m :: ms, (y, t) :: ys =>
    match PE.compare m y with
    | .eq => leafMembers ms ys
    | .lt => m :: leafMembers ms ((y, t) :: ys)
    | .gt => leafMembers (m :: ms) ys
termination_by a b => a.length + b.length

mutual
/-- `Set.Leaves` -/
def leaves : SetTrie → SetTrie
  | node m c => node (leafMembers m c) (leavesChildren c)
/-- `SetNodeMap.Leaves` -/
def leavesChildren : Children → Children
  | [] => []
  | (x, t) :: xs => (x, leaves t) :: leavesChildren xs
end

/-- `Set.WithPrefix` -/
def withPrefix (pe : PE) (s : SetTrie) : SetTrie :=
  match getChild pe s.children with
  | some t => t
  | none => empty

end SetTrie
end SMD
