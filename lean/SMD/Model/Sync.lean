/-
Interleaving models of the three lazy-initialisation / caching protocols of the Go library.

Each protocol is a transition system over an arbitrary type `Tid` of thread ids (only `DecidableEq`
is assumed — there is no bound on the number of threads).  A state is the shared memory plus a
function `pc : Tid → PC` giving every thread's program counter together with its local variables.
`next s t` is the one atomic step thread `t` can take from its current program counter (`none` =
blocked on a lock / on a running `sync.Once`, or nothing to do); it is a plain executable function,
one `match` arm per Go statement.  `Step` adds the only non-deterministic move: a thread that is
idle (or has returned from an earlier call) starts a new call with an arbitrary argument.
`Reachable` is the reflexive-transitive closure of `Step` from the initial state.

What is *not* modelled: the Go memory model.  Steps are sequentially consistent; the link to Go is
that every shared access below sits inside `sync.Once.Do`, between `Lock`/`Unlock`, or is an
`atomic.Value` `Load`/`Store` — which is exactly what the regenerated guard table (`SMD.C10`,
`guard_table_admissible`) checks of the source — and for those the Go memory model guarantees
sequentially consistent behaviour.

  (i)   `Once`  — schema/elements.go  `Schema.FindNamedType`, `Map.FindField`   (sync.Once + index map)
  (ii)  `Memo`  — schema/elements.go  `Schema.Resolve`                          (mutex + memo map)
  (iii) `Cow`   — value/reflectcache.go `typeReflectCache`                      (atomic.Value + writer mutex)
-/
namespace SMD.Sync

/-! ### per-thread state: functions `Tid → Local` with point update -/

/-- `upd f a b` is `f` with the value at `a` replaced by `b` (core has no `Function.update`). -/
def upd {α : Type} {β : Type} [DecidableEq α] (f : α → β) (a : α) (b : β) : α → β :=
  fun x => if x = a then b else f x

section
variable {α β : Type} [DecidableEq α] (f : α → β) (a x : α) (b : β)
@[simp] theorem upd_same : upd f a b a = b := by simp [upd]
@[simp] theorem upd_other (h : x ≠ a) : upd f a b x = f x := by simp [upd, h]
theorem upd_apply : upd f a b x = if x = a then b else f x := rfl
end

/-! ### reachability, generic in the transition system -/

/-- States reachable from `init` by finitely many steps `step s t s'` (`t` = the thread that moves). -/
inductive Reach {σ ι : Type} (init : σ) (step : σ → ι → σ → Prop) : σ → Prop
  | init : Reach init step init
  | step {s s' : σ} {t : ι} : Reach init step s → step s t s' → Reach init step s'

/-! ## (i) once-guarded index

```go
func (s *Schema) FindNamedType(name string) (TypeDef, bool) {
    s.once.Do(func() {
        s.m = make(map[string]TypeDef, len(s.Types))
        for _, t := range s.Types { s.m[t.Name] = t }
    })
    t, ok := s.m[name]
    return t, ok
}
```
-/
namespace Once

/-- The sequential ingredients: the list being indexed and the three map operations. -/
structure Spec (T Index Name Res : Type) where
  /-- `s.Types` (immutable) -/
  types : List T
  /-- `make(map[string]TypeDef)` -/
  empty : Index
  /-- `m[t.Name] = t` -/
  insert : Index → T → Index
  /-- `t, ok := m[name]`; `Res` stands for the pair `(TypeDef, bool)` -/
  lookup : Index → Name → Res

/-- The index the initialiser builds when run sequentially. -/
def Spec.build {T Index Name Res : Type} (S : Spec T Index Name Res) : Index :=
  S.types.foldl S.insert S.empty

/-- State of the `sync.Once`. -/
inductive OnceSt (Tid : Type)
  | fresh                 -- nobody has called `Do` yet
  | running (t : Tid)     -- `t` is executing the function passed to `Do`
  | done                  -- the function has returned
  deriving DecidableEq

/-- Program counter + locals of one thread inside `FindNamedType(n)`. -/
inductive PC (T Name Res : Type)
  | idle
  | called (n : Name)                     -- at `s.once.Do(...)`
  | initMake (n : Name)                   -- inside the initialiser, at `s.m = make(...)`
  | initLoop (n : Name) (rest : List T)   -- inside the initialiser, `rest` = types still to insert
  | afterDo (n : Name)                    -- `Do` has returned, at `t, ok := s.m[name]`
  | done (n : Name) (r : Res)             -- returned `r`
  deriving DecidableEq

/-- the thread is executing the initialiser (these are the only program points that write `s.m`) -/
def PC.inInit {T Name Res : Type} : PC T Name Res → Bool
  | .initMake _ | .initLoop _ _ => true
  | _ => false

/-- the thread's next step reads `s.m` -/
def PC.readsIndex {T Name Res : Type} : PC T Name Res → Bool
  | .afterDo _ => true
  | _ => false

/-- a new call may start here -/
def PC.canCall {T Name Res : Type} : PC T Name Res → Bool
  | .idle | .done _ _ => true
  | _ => false

structure State (Tid T Index Name Res : Type) where
  /-- `s.once` -/
  once : OnceSt Tid
  /-- `s.m`; `none` is the nil map -/
  m : Option Index
  /-- ghost: how many times the initialiser has been entered so far -/
  started : Nat
  pc : Tid → PC T Name Res

variable {Tid T Index Name Res : Type} [DecidableEq Tid]

def init : State Tid T Index Name Res :=
  { once := .fresh, m := none, started := 0, pc := fun _ => .idle }

/-- One atomic step of thread `t`. -/
def next (S : Spec T Index Name Res) (s : State Tid T Index Name Res) (t : Tid) :
    Option (State Tid T Index Name Res) :=
  match s.pc t with
  | .idle => none
  | .done _ _ => none
  | .called n =>                    -- s.once.Do(f)
    match s.once with
    | .fresh =>                     --   first caller: runs f
      some { s with once := .running t, started := s.started + 1, pc := upd s.pc t (.initMake n) }
    | .running _ => none            --   f is running: block until it has returned
    | .done =>                      --   f has returned: proceed immediately
      some { s with pc := upd s.pc t (.afterDo n) }
  | .initMake n =>                  -- s.m = make(map...)
    some { s with m := some S.empty, pc := upd s.pc t (.initLoop n S.types) }
  | .initLoop n (x :: rest) =>      -- s.m[x.Name] = x
    match s.m with
    | some idx => some { s with m := some (S.insert idx x), pc := upd s.pc t (.initLoop n rest) }
    | none => none                  --   assignment to a nil map panics
  | .initLoop n [] =>               -- f returns, the Once becomes done, Do returns
    some { s with once := .done, pc := upd s.pc t (.afterDo n) }
  | .afterDo n =>                   -- t, ok := s.m[name]; return t, ok   (a nil map reads as empty)
    some { s with pc := upd s.pc t (.done n (S.lookup (s.m.getD S.empty) n)) }

/-- A step of the system: some thread starts a call with any argument, or takes its `next` step. -/
inductive Step (S : Spec T Index Name Res) :
    State Tid T Index Name Res → Tid → State Tid T Index Name Res → Prop
  | call {s} (t : Tid) (n : Name) : (s.pc t).canCall = true →
      Step S s t { s with pc := upd s.pc t (.called n) }
  | run {s s'} (t : Tid) : next S s t = some s' → Step S s t s'

abbrev Reachable (S : Spec T Index Name Res) : State Tid T Index Name Res → Prop :=
  Reach init (Step S)

/-- Executable schedule: `(t, some n)` = thread `t` calls `FindNamedType(n)`, `(t, none)` = `t` steps. -/
def fire (S : Spec T Index Name Res) (s : State Tid T Index Name Res) (e : Tid × Option Name) :
    Option (State Tid T Index Name Res) :=
  match e.2 with
  | some n => if (s.pc e.1).canCall then some { s with pc := upd s.pc e.1 (.called n) } else none
  | none => next S s e.1

def exec (S : Spec T Index Name Res) (s : State Tid T Index Name Res) :
    List (Tid × Option Name) → Option (State Tid T Index Name Res)
  | [] => some s
  | e :: es => (fire S s e).bind fun s' => exec S s' es

end Once

/-! ## (ii) mutex-guarded memo

```go
func (s *Schema) Resolve(tr TypeRef) (Atom, bool) {
    s.lock.Lock(); defer s.lock.Unlock()
    if s.resolvedTypes == nil { s.resolvedTypes = make(map[TypeRef]Atom) }
    if cached, ok := s.resolvedTypes[tr]; ok { return cached, true }
    result := pure(tr)
    s.resolvedTypes[tr] = result
    return result, true
}
```
-/
namespace Memo

/-- Go maps as partial functions. -/
abbrev Map (Key Val : Type) := Key → Option Val

inductive PC (Key Val : Type)
  | idle
  | called (k : Key)               -- at `s.lock.Lock()`
  | locked (k : Key)               -- holds the lock, at `if s.resolvedTypes == nil { make }`
  | check (k : Key)                -- holds the lock, at `if cached, ok := s.resolvedTypes[k]`
  | miss (k : Key)                 -- holds the lock, at `result := pure(k)`
  | store (k : Key) (v : Val)      -- holds the lock, at `s.resolvedTypes[k] = result`
  | unlock (k : Key) (v : Val)     -- holds the lock, at the deferred `Unlock()`; will return `v`
  | done (k : Key) (v : Val)       -- returned `v`
  deriving DecidableEq

/-- program points between `Lock()` and `Unlock()` -/
def PC.holdsLock {Key Val : Type} : PC Key Val → Bool
  | .locked _ | .check _ | .miss _ | .store _ _ | .unlock _ _ => true
  | _ => false

/-- the thread's next step reads or writes `s.resolvedTypes` -/
def PC.accessesMemo {Key Val : Type} : PC Key Val → Bool
  | .locked _ | .check _ | .store _ _ => true
  | _ => false

def PC.canCall {Key Val : Type} : PC Key Val → Bool
  | .idle | .done _ _ => true
  | _ => false

structure State (Tid Key Val : Type) where
  /-- `s.lock`: the holder, if any -/
  lock : Option Tid
  /-- `s.resolvedTypes`; `none` is the nil map -/
  memo : Option (Map Key Val)
  pc : Tid → PC Key Val

variable {Tid Key Val : Type} [DecidableEq Tid] [DecidableEq Key]

def init : State Tid Key Val := { lock := none, memo := none, pc := fun _ => .idle }

/-- One atomic step of thread `t`; `f` is the pure function being memoised. -/
def next (f : Key → Val) (s : State Tid Key Val) (t : Tid) : Option (State Tid Key Val) :=
  match s.pc t with
  | .idle => none
  | .done _ _ => none
  | .called k =>                    -- s.lock.Lock(): only when free
    match s.lock with
    | none => some { s with lock := some t, pc := upd s.pc t (.locked k) }
    | some _ => none
  | .locked k =>                    -- if s.resolvedTypes == nil { s.resolvedTypes = make(...) }
    match s.memo with
    | none => some { s with memo := some (fun _ => none), pc := upd s.pc t (.check k) }
    | some _ => some { s with pc := upd s.pc t (.check k) }
  | .check k =>                     -- if cached, ok := s.resolvedTypes[k]; ok { return cached }
    match s.memo.bind (· k) with
    | some v => some { s with pc := upd s.pc t (.unlock k v) }
    | none => some { s with pc := upd s.pc t (.miss k) }
  | .miss k =>                      -- result := pure(k)
    some { s with pc := upd s.pc t (.store k (f k)) }
  | .store k v =>                   -- s.resolvedTypes[k] = result
    match s.memo with
    | some m => some { s with memo := some (upd m k (some v)), pc := upd s.pc t (.unlock k v) }
    | none => none                  --   assignment to a nil map panics
  | .unlock k v =>                  -- deferred s.lock.Unlock(); return v
    some { s with lock := none, pc := upd s.pc t (.done k v) }

inductive Step (f : Key → Val) : State Tid Key Val → Tid → State Tid Key Val → Prop
  | call {s} (t : Tid) (k : Key) : (s.pc t).canCall = true →
      Step f s t { s with pc := upd s.pc t (.called k) }
  | run {s s'} (t : Tid) : next f s t = some s' → Step f s t s'

abbrev Reachable (f : Key → Val) : State Tid Key Val → Prop := Reach init (Step f)

/-- `m₁ ⊆ m₂` as graphs -/
def Sub (m₁ m₂ : Map Key Val) : Prop := ∀ k v, m₁ k = some v → m₂ k = some v

/-- `m` is a sub-graph of `f` -/
def Sound (f : Key → Val) (m : Map Key Val) : Prop := ∀ k v, m k = some v → v = f k

def fire (f : Key → Val) (s : State Tid Key Val) (e : Tid × Option Key) : Option (State Tid Key Val) :=
  match e.2 with
  | some k => if (s.pc e.1).canCall then some { s with pc := upd s.pc e.1 (.called k) } else none
  | none => next f s e.1

def exec (f : Key → Val) (s : State Tid Key Val) : List (Tid × Option Key) → Option (State Tid Key Val)
  | [] => some s
  | e :: es => (fire f s e).bind fun s' => exec f s' es

end Memo

/-! ## (iii) copy-on-write cache in an `atomic.Value`, writers serialised by a mutex

```go
func (c *typeReflectCache) get() reflectCacheMap { return c.value.Load().(reflectCacheMap) }

func (c *typeReflectCache) typeReflectEntryOf(t reflect.Type) *Entry {
    if e, ok := c.get()[t]; ok { return e }
    updates := computeUpdates(t)          // pure: entries for t and the types it references
    c.update(updates)
    return updates[t]
}

func (c *typeReflectCache) update(updates reflectCacheMap) {
    c.mu.Lock(); defer c.mu.Unlock()
    current := c.get()
    needed := false
    for k := range updates { if _, ok := current[k]; !ok { needed = true } }
    if !needed { return }
    newMap := copy(current)
    for k, v := range updates { if _, ok := newMap[k]; !ok { newMap[k] = v } }
    c.value.Store(newMap)
}
```
Maps put into the `atomic.Value` are never mutated afterwards, so a loaded map is a *value*
(an immutable snapshot) and can be kept in a thread's locals.
-/
namespace Cow

abbrev Map (Ty Entry : Type) := Ty → Option Entry

/-- The pure ingredients: the entry of a type, and the types its entry refers to. -/
structure Spec (Ty Entry : Type) where
  entry : Ty → Entry
  refs : Ty → List Ty

variable {Tid Ty Entry : Type} [DecidableEq Tid] [DecidableEq Ty]

/-- `computeUpdates(t)`: entries for `t` and for the types it references. -/
def Spec.updatesOf (S : Spec Ty Entry) (t : Ty) : List (Ty × Entry) :=
  (t :: S.refs t).map fun k => (k, S.entry k)

/-- `needed`: some key of `ups` is missing from `cur` -/
def needed (cur : Map Ty Entry) (ups : List (Ty × Entry)) : Bool :=
  ups.any fun p => (cur p.1).isNone

/-- `newMap`: a copy of `cur` plus, for each `(k, v)` of `ups` in turn, `k ↦ v` if `k` is still missing -/
def mergeMissing (cur : Map Ty Entry) (ups : List (Ty × Entry)) : Map Ty Entry :=
  ups.foldl (fun m p => if (m p.1).isSome then m else upd m p.1 (some p.2)) cur

inductive PC (Ty Entry : Type)
  | idle
  | called (t : Ty)                                          -- at `c.get()` (atomic Load)
  | loaded (t : Ty) (snap : Map Ty Entry)                    -- has a snapshot, at `if e, ok := snap[t]`
  | wantLock (t : Ty) (ups : List (Ty × Entry))              -- in `update`, at `c.mu.Lock()`
  | locked (t : Ty) (ups : List (Ty × Entry))                -- holds mu, at `current := c.get()`
  | holding (t : Ty) (ups : List (Ty × Entry)) (cur : Map Ty Entry)
                                                             -- holds mu, at `if needed { Store(newMap) }`
  | unlock (t : Ty) (ups : List (Ty × Entry))                -- holds mu, at `Unlock()`; then `return updates[t]`
  | done (t : Ty) (r : Option Entry)                         -- returned `r` (`none` = nil pointer)

/-- program points between `c.mu.Lock()` and `c.mu.Unlock()` -/
def PC.holdsMu {Ty Entry : Type} : PC Ty Entry → Bool
  | .locked _ _ | .holding _ _ _ | .unlock _ _ => true
  | _ => false

/-- the thread's next step may `Store` into the `atomic.Value` -/
def PC.stores {Ty Entry : Type} : PC Ty Entry → Bool
  | .holding _ _ _ => true
  | _ => false

def PC.canCall {Ty Entry : Type} : PC Ty Entry → Bool
  | .idle | .done _ _ => true
  | _ => false

/-- the call and its result, once the thread has returned -/
def PC.result? {Ty Entry : Type} : PC Ty Entry → Option (Ty × Option Entry)
  | .done t r => some (t, r)
  | _ => none

/-- the snapshot of the cache a thread has in its locals, if any -/
def PC.snapshot? {Ty Entry : Type} : PC Ty Entry → Option (Map Ty Entry)
  | .loaded _ snap => some snap
  | .holding _ _ cur => some cur
  | _ => none

structure State (Tid Ty Entry : Type) where
  /-- content of `c.value` (initialised to the empty map by `newReflectCache`) -/
  value : Map Ty Entry
  /-- `c.mu`: the holder, if any -/
  mu : Option Tid
  pc : Tid → PC Ty Entry

def init : State Tid Ty Entry := { value := fun _ => none, mu := none, pc := fun _ => .idle }

/-- One atomic step of thread `t`. -/
def next (S : Spec Ty Entry) (s : State Tid Ty Entry) (t : Tid) : Option (State Tid Ty Entry) :=
  match s.pc t with
  | .idle => none
  | .done _ _ => none
  | .called ty =>                   -- snap := c.value.Load()          (no lock)
    some { s with pc := upd s.pc t (.loaded ty s.value) }
  | .loaded ty snap =>              -- if e, ok := snap[ty]; ok { return e }; updates := computeUpdates(ty)
    match snap ty with
    | some e => some { s with pc := upd s.pc t (.done ty (some e)) }
    | none => some { s with pc := upd s.pc t (.wantLock ty (S.updatesOf ty)) }
  | .wantLock ty ups =>             -- c.mu.Lock(): only when free
    match s.mu with
    | none => some { s with mu := some t, pc := upd s.pc t (.locked ty ups) }
    | some _ => none
  | .locked ty ups =>               -- current := c.value.Load()
    some { s with pc := upd s.pc t (.holding ty ups s.value) }
  | .holding ty ups cur =>          -- if needed { c.value.Store(copy(current) + missing updates) }
    if needed cur ups then
      some { s with value := mergeMissing cur ups, pc := upd s.pc t (.unlock ty ups) }
    else
      some { s with pc := upd s.pc t (.unlock ty ups) }
  | .unlock ty ups =>               -- c.mu.Unlock(); return updates[ty]
    some { s with mu := none, pc := upd s.pc t (.done ty (ups.lookup ty)) }

inductive Step (S : Spec Ty Entry) : State Tid Ty Entry → Tid → State Tid Ty Entry → Prop
  | call {s} (t : Tid) (ty : Ty) : (s.pc t).canCall = true →
      Step S s t { s with pc := upd s.pc t (.called ty) }
  | run {s s'} (t : Tid) : next S s t = some s' → Step S s t s'

abbrev Reachable (S : Spec Ty Entry) : State Tid Ty Entry → Prop := Reach init (Step S)

def Sub (m₁ m₂ : Map Ty Entry) : Prop := ∀ k v, m₁ k = some v → m₂ k = some v

/-- `m` is a sub-graph of the pure `entry` function -/
def Sound (S : Spec Ty Entry) (m : Map Ty Entry) : Prop := ∀ k v, m k = some v → v = S.entry k

def fire (S : Spec Ty Entry) (s : State Tid Ty Entry) (e : Tid × Option Ty) : Option (State Tid Ty Entry) :=
  match e.2 with
  | some ty => if (s.pc e.1).canCall then some { s with pc := upd s.pc e.1 (.called ty) } else none
  | none => next S s e.1

def exec (S : Spec Ty Entry) (s : State Tid Ty Entry) : List (Tid × Option Ty) → Option (State Tid Ty Entry)
  | [] => some s
  | e :: es => (fire S s e).bind fun s' => exec S s' es

end Cow

end SMD.Sync
