/-
Model of the `typed` package: `helpers.go` (resolveSchema, deduceAtom, handleAtom, list item →
path element with key defaults), `validate.go`, `tofieldset.go`, `remove.go` (remove / extract),
`typed.go` (AsTyped, ExtractItems with key fields).

Walkers recurse on the value, never on the (possibly recursive) schema, so termination is structural
and checked by Lean.  Results are `Res`: `ok`, `err` (a validation / schema error is returned), or
`panic` (the Go code would dereference nil).  Field sets are produced as the list of paths in the
order the Go walker inserts them; the set is `SetTrie.ofPaths` of that list.
-/
import SMD.Model.Schema
import SMD.Model.SetTrie
namespace SMD

inductive Res (α : Type) where
  | ok (a : α)
  | err
  | panic
  deriving Inhabited, Repr

namespace Res
@[inline] def bind {α β : Type} (r : Res α) (f : α → Res β) : Res β :=
  match r with
  | ok a => f a
  | err => err
  | panic => panic
instance : Monad Res where
  pure := ok
  bind := bind
def isOk {α : Type} : Res α → Bool | ok _ => true | _ => false
end Res

/-! ### helpers.go -/

/-- `deduceAtom` (typed/helpers.go:105-127); `none` is Go's nil `value.Value`. -/
def deduceAtom (a : Atom) (v : Option Value) : Atom :=
  match v with
  | none => a
  | some v =>
    if v.isScalar then
      (match a.scalar with | some s => Atom.mk (some s) none none | none => a)
    else if v.isList then
      (match a.list with | some l => Atom.mk none (some l) none | none => a)
    else if v.isMap then
      (match a.map with | some m => Atom.mk none none (some m) | none => a)
    else a

/-- the dispatch of `handleAtom`: map first, then scalar, then list -/
inductive AtomKind where
  | map (m : MapT)
  | scalar (s : String)
  | list (l : ListT)
  | invalid

def atomKind (a : Atom) : AtomKind :=
  match a.map, a.scalar, a.list with
  | some m, _, _ => .map m
  | none, some s, _ => .scalar s
  | none, none, some l => .list l
  | none, none, none => .invalid

/-- `resolveSchema` up to the dispatch: `none` when the reference does not resolve -/
def resolveKind (s : Schema) (tr : TypeRef) (v : Option Value) : Option AtomKind :=
  (s.resolve tr).map (fun a => atomKind (deduceAtom a v))

/-- `validateScalar` (typed/validate.go:84-115); `none` (nil value) and null are accepted -/
def validateScalar (t : String) (v : Option Value) : Bool :=
  match v with
  | none => true
  | some v =>
    if v.isNull then true
    else if t == "numeric" then v.isNumeric
    else if t == "string" then v.isString
    else if t == "boolean" then v.isBool
    else if t == "untyped" then v.isScalar
    else false

/-- `getAssociativeKeyDefault` -/
def keyDefault (s : Schema) (list : ListT) (fieldName : String) : Res (Option Value) :=
  match s.resolve list.elementType with
  | none => .err
  | some atom =>
    match atom.map with
    | none => .err
    | some m => .ok ((m.findField fieldName).bind (·.default))

/-- the key loop of `keyedAssociativeListItemToPathElement` -/
def keyFieldsOf (s : Schema) (list : ListT) (m : List (String × Value)) : List String → Res FieldList
  | [] => .ok []
  | k :: ks =>
    match lookupField k m with
    | some v => do let rest ← keyFieldsOf s list m ks; pure ((k, v) :: rest)
    | none =>
      match keyDefault s list k with
      | .ok (some d) => do let rest ← keyFieldsOf s list m ks; pure ((k, d) :: rest)
      | .ok none => .err
      | .err => .err
      | .panic => .panic

/-- `listItemToPathElement` (typed/helpers.go:200-258) -/
def listItemToPE (s : Schema) (list : ListT) (child : Value) : Res PE :=
  if list.rel != "associative" then .err
  else if !list.keys.isEmpty then
    match child with
    | .map m => do let fl ← keyFieldsOf s list m list.keys; pure (.key (FieldList.sort fl))
    | _ => .err
  else
    match child with
    | .map _ => .err
    | .list _ => .err
    | .null => .err
    | v => .ok (.value v)

/-- the type of the entry `key` of a map type: declared field, else the element type -/
def fieldType (t : MapT) (key : String) : TypeRef :=
  match t.findField key with
  | some sf => sf.type
  | none => t.elementType

/-! ### validate.go -/

mutual
/-- `validatingObjectWalker.validate` = `resolveSchema` with the validating handler
(doScalar / doList / doMap of typed/validate.go) -/
def validateV (s : Schema) (allowDup : Bool) (tr : TypeRef) : Value → Res Unit
  | .list l =>
    match resolveKind s tr (some (.list l)) with
    | none | some .invalid => .err
    | some (.scalar t) => if validateScalar t (some (.list l)) then .ok () else .err
    | some (.list t) => validateItems s allowDup t [] 0 l
    | some (.map _) => .err
  | .map m =>
    match resolveKind s tr (some (.map m)) with
    | none | some .invalid => .err
    | some (.scalar t) => if validateScalar t (some (.map m)) then .ok () else .err
    | some (.list _) => .err
    | some (.map t) => validateFields s allowDup t m
  | v =>
    match resolveKind s tr (some v) with
    | none | some .invalid => .err
    | some (.scalar t) => if validateScalar t (some v) then .ok () else .err
    | some (.list _) => if v.isNull then .ok () else .err
    | some (.map _) => if v.isNull then .ok () else .err
/-- `visitListItems` (typed/validate.go:124-153); `seen` = observedKeys -/
def validateItems (s : Schema) (allowDup : Bool) (t : ListT) (seen : List PE) (i : Nat) : List Value → Res Unit
  | [] => .ok ()
  | child :: rest =>
    if t.rel != "associative" then
      match validateV s allowDup t.elementType child with
      | .ok _ => validateItems s allowDup t seen (i + 1) rest
      | e => e
    else
      match listItemToPE s t child with
      | .ok pe =>
        if peHas pe seen && !allowDup then .err
        else
          match validateV s allowDup t.elementType child with
          | .ok _ => validateItems s allowDup t (peInsert pe seen) (i + 1) rest
          | e => e
      | .err => .err
      | .panic => .panic
/-- `visitMapItems` (typed/validate.go:172-191) -/
def validateFields (s : Schema) (allowDup : Bool) (t : MapT) : List (String × Value) → Res Unit
  | [] => .ok ()
  | (k, v) :: rest =>
    match t.findField k with
    | some sf =>
      (match validateV s allowDup sf.type v with
       | .ok _ => validateFields s allowDup t rest
       | e => e)
    | none =>
      if t.elementType.isZero then .err
      else
        match validateV s allowDup t.elementType v with
        | .ok _ => validateFields s allowDup t rest
        | e => e
end

/-- a typed value: `typed.TypedValue` (schema fixed by the context) -/
structure TV where
  value : Value
  type : TypeRef

/-- `typed.AsTyped` -/
def asTyped (s : Schema) (v : Value) (tr : TypeRef) (allowDup : Bool) : Res TV :=
  match validateV s allowDup tr v with
  | .ok _ => .ok ⟨v, tr⟩
  | .err => .err
  | .panic => .panic

/-! ### tofieldset.go — paths are relative to the visited node, in insertion order -/

/-- first pass of `toFieldSetWalker.visitListItems`: one path per duplicated element, recorded at
its first repeat (`seen` is the sorted `PathElementSet`; `dups` lists the marked elements, newest
first, membership up to `Equals` as `PathElementSet.Has` gives on a sorted set) -/
def dupMarks (s : Schema) (t : ListT) : List PE → List PE → List Value → List PE
  | _, dups, [] => dups.reverse
  | seen, dups, child :: rest =>
    let pe := match listItemToPE s t child with | .ok pe => pe | _ => .invalid
    if peHas pe seen then
      if dups.any (fun d => PE.equals d pe) then dupMarks s t seen dups rest
      else dupMarks s t seen (pe :: dups) rest
    else dupMarks s t (peInsert pe seen) dups rest

mutual
/-- `toFieldSetWalker.toFieldSet` (doScalar / doList / doMap of typed/tofieldset.go) -/
def fsV (s : Schema) (tr : TypeRef) : Value → Res (List Path)
  | .list l =>
    match resolveKind s tr (some (.list l)) with
    | none | some .invalid => .err
    | some (.scalar _) => .ok [[]]
    | some (.list t) =>
      if t.rel == "atomic" then .ok [[]]
      else
        let dups := dupMarks s t [] [] l
        match fsItems s t dups l with
        | .ok rest => .ok (dups.map (fun pe => [pe]) ++ rest)
        | e => e
    | some (.map t) => if t.rel == "atomic" then .ok [[]] else .ok []
  | .map m =>
    match resolveKind s tr (some (.map m)) with
    | none | some .invalid => .err
    | some (.scalar _) => .ok [[]]
    | some (.list t) => if t.rel == "atomic" then .ok [[]] else .ok []
    | some (.map t) => if t.rel == "atomic" then .ok [[]] else fsFields s t m
  | v =>
    match resolveKind s tr (some v) with
    | none | some .invalid => .err
    | some (.scalar _) => .ok [[]]
    | some (.list t) => if t.rel == "atomic" then .ok [[]] else .ok []
    | some (.map t) => if t.rel == "atomic" then .ok [[]] else .ok []
/-- second pass of `visitListItems`: non-duplicated items, children first then the item itself -/
def fsItems (s : Schema) (t : ListT) (dups : List PE) : List Value → Res (List Path)
  | [] => .ok []
  | child :: rest =>
    let pe := match listItemToPE s t child with | .ok pe => pe | _ => .invalid
    if dups.any (fun d => PE.equals d pe) then fsItems s t dups rest
    else
      match fsV s t.elementType child, fsItems s t dups rest with
      | .ok sub, .ok tail => .ok (sub.map (fun p => pe :: p) ++ [[pe]] ++ tail)
      | .panic, _ | _, .panic => .panic
      | _, _ => .err
/-- `toFieldSetWalker.visitMapItems` -/
def fsFields (s : Schema) (t : MapT) : List (String × Value) → Res (List Path)
  | [] => .ok []
  | (k, v) :: rest =>
    let self : List Path :=
      if v.isNull || (match v with | .map [] => true | _ => false) then [[.field k]]
      else if (t.findField k).isNone then [[.field k]]
      else []
    match fsV s (fieldType t k) v, fsFields s t rest with
    | .ok sub, .ok tail => .ok (sub.map (fun p => PE.field k :: p) ++ self ++ tail)
    | .panic, _ | _, .panic => .panic
    | _, _ => .err
end

/-- `TypedValue.ToFieldSet`: the root path (empty) is never a member (`Set.Insert` ignores it) -/
def toFieldSetPaths (s : Schema) (tv : TV) : Res (List Path) := fsV s tv.type tv.value

def toFieldSet (s : Schema) (tv : TV) : Res SetTrie :=
  match toFieldSetPaths s tv with
  | .ok ps => .ok (SetTrie.ofPaths ps)
  | .err => .err
  | .panic => .panic

/-! ### remove.go — `removeItemsWithSchema` for RemoveItems (`extract = false`) and ExtractItems -/

mutual
/-- returns Go's `w.out` (`none` = nil interface, printed as null by `NewValueInterface(nil)`) -/
def removeV (s : Schema) (extract : Bool) (tr : TypeRef) (toRemove : SetTrie) : Value → Option Value
  | .list l =>
    match resolveKind s tr (some (.list l)) with
    | some (.scalar _) => some (.list l)
    | some (.list t) =>
      if l.isEmpty then none
      else if t.rel == "atomic" then (if extract then some (.list l) else none)
      else
        match removeItems s extract t toRemove l with
        | [] => none
        | items => some (.list items)
    | _ => none
  | .map m =>
    match resolveKind s tr (some (.map m)) with
    | some (.scalar _) => some (.map m)
    | some (.map t) =>
      if m.isEmpty then none
      else if t.rel == "atomic" then (if extract then some (.map m) else none)
      else
        match removeFields s extract t toRemove m with
        | [] => none
        | fs => some (.map fs)
    | _ => none
  | v =>
    match resolveKind s tr (some v) with
    | some (.scalar _) => some v
    | _ => none
/-- the item loop of `removingWalker.doList` -/
def removeItems (s : Schema) (extract : Bool) (t : ListT) (toRemove : SetTrie) : List Value → List Value
  | [] => []
  | item :: rest =>
    let pe := match listItemToPE s t item with | .ok pe => pe | _ => .invalid
    let tail := removeItems s extract t toRemove rest
    let sub := toRemove.withPrefix pe
    let hasPath := toRemove.has [pe]
    if hasPath && !extract then tail
    else
      let first : List Value :=
        if hasPath then
          [match removeV s extract t.elementType toRemove item with | some x => x | none => .null]
        else []
      if !sub.isEmpty then
        first ++ [match removeV s extract t.elementType sub item with | some x => x | none => .null] ++ tail
      else if extract then first ++ tail
      else first ++ [item] ++ tail
/-- the entry loop of `removingWalker.doMap` -/
def removeFields (s : Schema) (extract : Bool) (t : MapT) (toRemove : SetTrie) :
    List (String × Value) → List (String × Value)
  | [] => []
  | (k, v) :: rest =>
    let pe := PE.field k
    -- `fieldTypes` is filled from `t.Fields` in order: the last field of a name wins, as in FindField
    let ft := fieldType t k
    let tail := removeFields s extract t toRemove rest
    if toRemove.has [pe] then
      if extract then
        (k, match removeV s extract ft toRemove v with | some x => x | none => .null) :: tail
      else tail
    else
      let sub := toRemove.withPrefix pe
      if !sub.isEmpty then
        (k, match removeV s extract ft sub v with | some x => x | none => .null) :: tail
      else if extract then tail
      else (k, v) :: tail
end

def outToValue : Option Value → Value
  | some v => v
  | none => .null

/-- `TypedValue.RemoveItems` -/
def removeItemsTV (s : Schema) (tv : TV) (items : SetTrie) : TV :=
  ⟨outToValue (removeV s false tv.type items tv.value), tv.type⟩

/-- the key-field paths appended by `ExtractItems(WithAppendKeyFields())` (typed/typed.go:205-238) -/
def keyFieldPaths (p : Path) : List Path :=
  let rec go (pre : Path) : Path → List Path
    | [] => []
    | pe :: rest =>
      let here := pre ++ [pe]
      (match pe with
       | .key fl => fl.map (fun kv => here ++ [PE.field kv.1])
       | _ => []) ++ go here rest
  go [] p

/-- `TypedValue.ExtractItems` -/
def extractItemsTV (s : Schema) (tv : TV) (items : SetTrie) (appendKeys : Bool) : TV :=
  let items' :=
    if appendKeys then
      match toFieldSet s tv with
      | .ok fs =>
        let keyPaths := (items.paths.filter (fun p => fs.has p)).flatMap keyFieldPaths
        items.union (SetTrie.ofPaths keyPaths)
      | _ => items
    else items
  ⟨outToValue (removeV s true tv.type items' tv.value), tv.type⟩

end SMD
