/-
Model of `typed/reconcile_schema.go`, `fieldpath/managers.go` and `merge/update.go`
(update / Update / Apply / prune / addBackOwnedItems / addBackDanglingItems /
reconcileManagedFieldsWithSchemaChanges), parametric in the converter and the ignore configuration.

Go maps (`ManagedFields`, `managedAtVersion`, `conflicts`, `removed`) are association lists sorted
by key; the model iterates them in that order (one of the orders Go may pick).
-/
import SMD.Model.Compare
import SMD.Model.Filter
namespace SMD

/-! ### reconcile_schema.go -/

def isUntypedDeducedRef (t : TypeRef) : Bool :=
  match t.named with
  | some n => n == "__untyped_deduced_"
  | none => t.inlined.scalar == some "untyped"

def isUntypedDeducedMap (m : MapT) : Bool := isUntypedDeducedRef m.elementType && m.fields.isEmpty

/-- `typeRefAtPath` -/
def typeRefAtPath (t : MapT) (pe : PE) : Option TypeRef :=
  let tr := match pe with
    | .field name => (match t.findField name with | some sf => sf.type | none => t.elementType)
    | _ => t.elementType
  if tr.isZero then none else some tr

mutual
def SetTrie.depth : SetTrie → Nat
  | .node _ c => SetTrie.depthChildren c + 1
def SetTrie.depthChildren : Children → Nat
  | [] => 0
  | (_, t) :: rest => max (SetTrie.depth t) (SetTrie.depthChildren rest)
end

/-- `reconcileWithSchemaWalker.reconcile`: accumulated (toRemove, toAdd) as absolute paths.
`path` is the current path, `fieldSet` the sub-trie at it (`none` = nil), `fuel` bounds the descent
by the depth of the set. -/
def reconcileNode (sc : Schema) : Nat → Option SetTrie → TypeRef → Bool → Path → Res (List Path × List Path)
  | 0, _, _, _, _ => .err
  | fuel + 1, fieldSet, tr, isAtomic, path =>
    match sc.resolve tr with
    | none => .err
    | some a =>
      -- the member loops shared by visitListItems / visitMapItems
      let visit (element : SetTrie) (typeOf : PE → Option TypeRef) : Res (List Path × List Path) :=
        let handle (acc : Res (List Path × List Path)) (pe : PE) (isMember : Bool) : Res (List Path × List Path) :=
          match acc with
          | .ok (rm, ad) =>
            (match typeOf pe with
             | none => .ok (rm, ad)
             | some tr' =>
               let sub := SetTrie.getChild pe element.children
               match reconcileNode sc fuel sub tr' (isMember && sub.isNone) (path ++ [pe]) with
               | .ok (rm', ad') => .ok (rm ++ rm', ad ++ ad')
               | .err => .err
               | .panic => .panic)
          | e => e
        let acc1 := element.children.foldl (fun acc (x : PE × SetTrie) =>
          if peHas x.1 element.members then acc else handle acc x.1 false) (.ok ([], []))
        element.members.foldl (fun acc pe => handle acc pe true) acc1
      match atomKind a with
      | .invalid => .err
      | .scalar _ => .ok ([], [])
      | .list t =>
        if !isAtomic && t.rel == "atomic" then .ok ([path], [path])
        else
          (match fieldSet with
           | some fs => visit fs (fun _ => some t.elementType)
           | none => .ok ([], []))
      | .map t =>
        if isUntypedDeducedMap t then .ok ([], [])
        else if !isAtomic && t.rel == "atomic" then
          (match fieldSet with
           | some fs => if fs.size > 0 then .ok ([path], [path]) else .ok ([], [])
           | none => .ok ([], []))
        else
          (match fieldSet with
           | some fs => visit fs (typeRefAtPath t)
           | none => .ok ([], []))

/-- `typed.ReconcileFieldSetWithSchema`: `none` = no change (Go returns nil) -/
def reconcileFieldSet (sc : Schema) (fieldSet : SetTrie) (tr : TypeRef) : Res (Option SetTrie) :=
  match reconcileNode sc (fieldSet.depth + 1) (some fieldSet) tr false [] with
  | .ok ([], []) => .ok none
  | .ok (rm, ad) => .ok (some ((fieldSet.rdiff (SetTrie.ofPaths rm)).union (SetTrie.ofPaths ad)))
  | .err => .err
  | .panic => .panic

/-! ### managers.go -/

structure VersionedSet where
  set : SetTrie
  version : String
  applied : Bool

/-- `fieldpath.ManagedFields`, sorted by manager name -/
abbrev Managed := List (String × VersionedSet)

def mfGet (m : Managed) (k : String) : Option VersionedSet := (m.find? (·.1 == k)).map (·.2)

def mfSet (m : Managed) (k : String) (v : VersionedSet) : Managed :=
  let rec ins : Managed → Managed
    | [] => [(k, v)]
    | (k', v') :: rest => if k == k' then (k, v) :: rest else if k < k' then (k, v) :: (k', v') :: rest
                          else (k', v') :: ins rest
  ins m

def mfDelete (m : Managed) (k : String) : Managed := m.filter (·.1 != k)

/-! ### update.go -/

inductive ConvRes where
  | ok (tv : TV)
  | missing           -- `IsMissingVersionError(err)`
  | fail              -- any other error

/-- `merge.Converter` -/
structure Converter where
  convert : TV → String → ConvRes

/-- the identity converter used by the single-version runs -/
def Converter.identity : Converter := ⟨fun tv _ => .ok tv⟩

/-- `Updater`: converter, ignore configuration per version, `returnInputOnNoop` -/
structure Updater where
  converter : Converter
  ignore : String → Option Filter
  returnInputOnNoop : Bool := false

/-- result of `Apply` / `Update` -/
inductive Outcome (α : Type) where
  | ok (a : α)
  | conflict (c : List (String × Path))   -- (manager, path), managers in key order, paths in Iterate order
  | err
  | panic

def filterCmp (f : Option Filter) (c : Comparison) : Comparison :=
  match f with
  | none => c
  | some f => ⟨f.apply c.removed, f.apply c.modified, f.apply c.added⟩

def liftRes {α β : Type} (r : Res α) (k : α → Outcome β) : Outcome β :=
  match r with
  | .ok a => k a
  | .err => .err
  | .panic => .panic

/-- comparison cache lookup -/
def cacheGet (c : List (String × Comparison)) (v : String) : Option Comparison := (c.find? (·.1 == v)).map (·.2)

/-- the manager loop of `Updater.update` (merge/update.go:96-139): returns the managers that survive
(those at missing versions are deleted), the conflicts and the removed sets per manager -/
def updateLoop (u : Updater) (sc : Schema) (oldObj newObj : TV) (workflow : String) :
    List (String × VersionedSet) → Managed → List (String × Comparison) →
    List (String × VersionedSet) → List (String × VersionedSet) →
    Outcome (Managed × List (String × VersionedSet) × List (String × VersionedSet))
  | [], managers, _, conflicts, removed => .ok (managers, conflicts.reverse, removed.reverse)
  | (manager, ms) :: rest, managers, versions, conflicts, removed =>
    if manager == workflow then updateLoop u sc oldObj newObj workflow rest managers versions conflicts removed
    else
      let continueWith (cmp : Comparison) (versions : List (String × Comparison)) :=
        let conflictSet := ms.set.inter (cmp.modified.union cmp.added)
        let conflicts' := if !conflictSet.isEmpty then (manager, ⟨conflictSet, ms.version, false⟩) :: conflicts else conflicts
        let removed' := if !cmp.removed.isEmpty then (manager, ⟨cmp.removed, ms.version, false⟩) :: removed else removed
        updateLoop u sc oldObj newObj workflow rest managers versions conflicts' removed'
      match cacheGet versions ms.version with
      | some cmp => continueWith cmp versions
      | none =>
        match u.converter.convert oldObj ms.version with
        | .missing => updateLoop u sc oldObj newObj workflow rest (mfDelete managers manager) versions conflicts removed
        | .fail => .err
        | .ok vOld =>
          match u.converter.convert newObj ms.version with
          | .missing => updateLoop u sc oldObj newObj workflow rest (mfDelete managers manager) versions conflicts removed
          | .fail => .err
          | .ok vNew =>
            match compareTV sc vOld vNew with
            | .err => .err
            | .panic => .panic
            | .ok cmp0 =>
              let cmp := filterCmp (u.ignore ms.version) cmp0
              continueWith cmp ((ms.version, cmp) :: versions)

/-- `ConflictsFromManagers` -/
def conflictsOf (c : List (String × VersionedSet)) : List (String × Path) :=
  c.flatMap fun (m, vs) => vs.set.paths.map fun p => (m, p)

/-- `Updater.update` (merge/update.go:74-160) -/
def updateCore (u : Updater) (sc : Schema) (oldObj newObj : TV) (version : String) (managers : Managed)
    (workflow : String) (force : Bool) : Outcome (Managed × Comparison) :=
  match compareTV sc oldObj newObj with
  | .err => .err
  | .panic => .panic
  | .ok cmp0 =>
    let compare := filterCmp (u.ignore version) cmp0
    match updateLoop u sc oldObj newObj workflow managers managers [(version, compare)] [] [] with
    | .ok (managers, conflicts, removed) =>
      if !force && !conflicts.isEmpty then .conflict (conflictsOf conflicts)
      else
        let sub (managers : Managed) (xs : List (String × VersionedSet)) : Managed :=
          xs.foldl (fun (ms : Managed) (x : String × VersionedSet) =>
            match mfGet ms x.1 with
            | some cur => mfSet ms x.1 ⟨cur.set.diff x.2.set, cur.version, cur.applied⟩
            | none => ms) managers
        let managers := sub (sub managers conflicts) removed
        let managers := managers.filter (fun m => !m.2.set.isEmpty)
        .ok (managers, compare)
    | .conflict c => .conflict c
    | .err => .err
    | .panic => .panic

/-- `reconcileManagedFieldsWithSchemaChanges` (merge/update.go:374-395) -/
def reconcileManaged (u : Updater) (sc : Schema) (live : TV) : Managed → Outcome Managed
  | [] => .ok []
  | (manager, vs) :: rest =>
    match u.converter.convert live vs.version with
    | .missing => reconcileManaged u sc live rest
    | .fail => .err
    | .ok tv =>
      match reconcileFieldSet sc vs.set tv.type with
      | .err => .err
      | .panic => .panic
      | .ok r =>
        match reconcileManaged u sc live rest with
        | .ok tail =>
          let vs' : VersionedSet := match r with | some s => ⟨s, vs.version, vs.applied⟩ | none => vs
          .ok ((manager, vs') :: tail)
        | e => e

def applyIgnore (u : Updater) (version : String) (s : SetTrie) : SetTrie :=
  match u.ignore version with
  | some f => f.apply s
  | none => s

/-- `Updater.Update` (merge/update.go:167-204): returns the managed fields (the object returned is the
submitted one) -/
def update (u : Updater) (sc : Schema) (live newObj : TV) (version : String) (managers : Managed)
    (manager : String) : Outcome Managed :=
  match reconcileManaged u sc live managers with
  | .ok managers =>
    (match updateCore u sc live newObj version managers manager true with
     | .ok (managers, compare) =>
       let cur : VersionedSet := (mfGet managers manager).getD ⟨SetTrie.empty, version, false⟩
       let set := ((cur.set.diff compare.removed).union compare.modified).union compare.added
       let set := applyIgnore u version set
       if set.isEmpty then .ok (mfDelete managers manager)
       else .ok (mfSet managers manager ⟨set, version, false⟩)
     | .conflict c => .conflict c
     | .err => .err
     | .panic => .panic)
  | .conflict c => .conflict c
  | .err => .err
  | .panic => .panic

/-- union of the sets recorded at each version (`managedAtVersion`), versions in key order -/
def managedAtVersion (managers : Managed) : List (String × SetTrie) :=
  managers.foldl (fun (acc : List (String × SetTrie)) (m : String × VersionedSet) =>
    let v := m.2.version
    let rec upd : List (String × SetTrie) → List (String × SetTrie)
      | [] => [(v, SetTrie.empty.union m.2.set)]
      | (v', s) :: rest => if v == v' then (v, s.union m.2.set) :: rest
                           else if v < v' then (v, SetTrie.empty.union m.2.set) :: (v', s) :: rest
                           else (v', s) :: upd rest
    upd acc) []

/-- `addBackOwnedItemsForVersion` (merge/update.go:314-340) -/
def addBackForVersion (u : Updater) (sc : Schema) (merged pruned : TV) (version : String) (managed : SetTrie) :
    Outcome (TV × TV) :=
  match u.converter.convert merged version with
  | .missing => .ok (merged, pruned)
  | .fail => .err
  | .ok merged =>
    match u.converter.convert pruned version with
    | .missing => .ok (merged, pruned)
    | .fail => .err
    | .ok pruned =>
      liftRes (toFieldSet sc merged) fun mergedSet =>
      liftRes (toFieldSet sc pruned) fun prunedSet =>
        let en (s : SetTrie) := s.ensureNamed sc merged.type
        let toRemove := (en mergedSet).diff ((en prunedSet).union (en managed))
        .ok (merged, removeItemsTV sc merged toRemove)

/-- `addBackOwnedItems` (merge/update.go:284-310) -/
def addBackOwned (u : Updater) (sc : Schema) (merged pruned : TV) (prunedVersion : String) (managers : Managed) :
    Outcome TV :=
  let mav := managedAtVersion managers
  let first : Outcome (TV × TV) :=
    match mav.find? (·.1 == prunedVersion) with
    | some (_, managed) => addBackForVersion u sc merged pruned prunedVersion managed
    | none => .ok (merged, pruned)
  let rest := mav.filter (·.1 != prunedVersion)
  let r := rest.foldl (fun (acc : Outcome (TV × TV)) (vm : String × SetTrie) =>
    match acc with
    | .ok (merged, pruned) => addBackForVersion u sc merged pruned vm.1 vm.2
    | e => e) first
  match r with
  | .ok (_, pruned) => .ok pruned
  | .conflict c => .conflict c
  | .err => .err
  | .panic => .panic

/-- `addBackDanglingItems` (merge/update.go:345-366) -/
def addBackDangling (u : Updater) (sc : Schema) (merged pruned : TV) (lastSet : VersionedSet) : Outcome TV :=
  match u.converter.convert pruned lastSet.version with
  | .missing => .ok merged
  | .fail => .err
  | .ok convertedPruned =>
    liftRes (toFieldSet sc convertedPruned) fun prunedSet =>
    liftRes (toFieldSet sc merged) fun mergedSet =>
      let en (s : SetTrie) := s.ensureNamed sc merged.type
      .ok (removeItemsTV sc merged (((en mergedSet).diff (en prunedSet)).inter (en lastSet.set)))

/-- `Updater.prune` (merge/update.go:256-280) -/
def prune (u : Updater) (sc : Schema) (merged : TV) (managers : Managed) (applyingManager : String)
    (lastSet : Option VersionedSet) : Outcome TV :=
  match lastSet with
  | none => .ok merged
  | some last =>
    if last.set.isEmpty then .ok merged
    else
      match u.converter.convert merged last.version with
      | .missing => .ok merged
      | .fail => .err
      | .ok convertedMerged =>
        let pruned := removeItemsTV sc convertedMerged (last.set.ensureNamed sc convertedMerged.type)
        match addBackOwned u sc convertedMerged pruned last.version managers with
        | .ok pruned =>
          (match addBackDangling u sc convertedMerged pruned last with
           | .ok pruned =>
             let v := ((mfGet managers applyingManager).map (·.version)).getD last.version
             (match u.converter.convert pruned v with
              | .ok tv => .ok tv
              | .missing => .err
              | .fail => .err)
           | e => e)
        | e => e

/-- `Updater.Apply` (merge/update.go:209-251): the object to persist (`none` = nothing changed) and
the managed fields -/
def apply (u : Updater) (sc : Schema) (live config : TV) (version : String) (managers : Managed)
    (manager : String) (force : Bool) : Outcome (Option TV × Managed) :=
  match reconcileManaged u sc live managers with
  | .ok managers =>
    liftRes (mergeTV sc live config) fun newObject =>
    let lastSet := mfGet managers manager
    liftRes (toFieldSet sc config) fun set =>
    let set := applyIgnore u version set
    let managers := mfSet managers manager ⟨set, version, true⟩
    (match prune u sc newObject managers manager lastSet with
     | .ok newObject =>
       (match updateCore u sc live newObject version managers manager force with
        | .ok (managers, _) =>
          if !u.returnInputOnNoop && Value.equals live.value newObject.value then .ok (none, managers)
          else .ok (some newObject, managers)
        | .conflict c => .conflict c
        | .err => .err
        | .panic => .panic)
     | .conflict c => .conflict c
     | .err => .err
     | .panic => .panic)
  | .conflict c => .conflict c
  | .err => .err
  | .panic => .panic

end SMD

namespace SMD

/-! ### a lossless converter: field renaming by version suffix

Model of the `renamingConverter` of `merge/multiple_appliers_test.go`: the version label is the name
of the object's type; converting renames every map key that ends with the old version into the same
key ending with the new version. -/

def renameKey (old new : String) (k : String) : String :=
  if k.endsWith old && old != "" then (k.dropEnd old.length).toString ++ new else k

mutual
def renameFields (old new : String) : Value → Value
  | .list l => .list (renameFieldsList old new l)
  | .map m => .map (renameFieldsEntries old new m)
  | v => v
def renameFieldsList (old new : String) : List Value → List Value
  | [] => []
  | v :: vs => renameFields old new v :: renameFieldsList old new vs
def renameFieldsEntries (old new : String) : List (String × Value) → List (String × Value)
  | [] => []
  | (k, v) :: rest => insertField (renameKey old new k, renameFields old new v) (renameFieldsEntries old new rest)
end

/-- `renamingConverter.Convert` (the output is assumed valid in the target type: losslessness) -/
def Converter.renaming : Converter :=
  ⟨fun tv v =>
    match tv.type.named with
    | some inV => .ok ⟨renameFields inV v tv.value, TypeRef.mk (some v) Atom.none none⟩
    | none => .fail⟩

end SMD
