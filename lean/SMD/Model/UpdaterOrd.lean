/-
The iteration order of `managedAtVersion` as an explicit parameter of Apply.
-/
import SMD.Model.Updater
namespace SMD

/-! ### iteration order of `managedAtVersion` as an explicit parameter

`addBackOwnedItems` ranges over a Go map of versions; the versions other than the pruned one are
visited in an order Go picks at random, and the result can depend on it (finding D10).  The driver
therefore evaluates `Apply` for every order: `applyOrd perm` is `SMD.apply` with the remaining versions
reordered by `perm`; `SMD.C09.applyOrd_id : applyOrd id = apply`. -/

def addBackOwnedOrd (perm : List (String × SetTrie) → List (String × SetTrie)) (u : Updater) (sc : Schema)
    (merged pruned : TV) (prunedVersion : String) (managers : Managed) : Outcome TV :=
  let mav := managedAtVersion managers
  let first : Outcome (TV × TV) :=
    match mav.find? (·.1 == prunedVersion) with
    | some (_, managed) => addBackForVersion u sc merged pruned prunedVersion managed
    | none => .ok (merged, pruned)
  let rest := perm (mav.filter (·.1 != prunedVersion))
  let r := rest.foldl (fun (acc : Outcome (TV × TV)) (vm : String × SetTrie) =>
    match acc with
    | .ok (merged, pruned) => addBackForVersion u sc merged pruned vm.1 vm.2
    | e => e) first
  match r with
  | .ok (_, pruned) => .ok pruned
  | .conflict c => .conflict c
  | .err => .err
  | .panic => .panic

def pruneOrd (perm : List (String × SetTrie) → List (String × SetTrie)) (u : Updater) (sc : Schema) (merged : TV)
    (managers : Managed) (applyingManager : String) (lastSet : Option VersionedSet) : Outcome TV :=
  match lastSet with
  | none => .ok merged
  | some last =>
    if last.set.isEmpty then .ok merged
    else
      match u.converter.convert merged last.version with
      | .missing => .ok merged
      | .fail => .err
      | .ok convertedMerged =>
        let pruned := removeItemsTV sc convertedMerged (last.set.ensureNamed sc convertedMerged.type)
        match addBackOwnedOrd perm u sc convertedMerged pruned last.version managers with
        | .ok pruned =>
          (match addBackDangling u sc convertedMerged pruned last with
           | .ok pruned =>
             let v := ((mfGet managers applyingManager).map (·.version)).getD last.version
             (match u.converter.convert pruned v with
              | .ok tv => .ok tv
              | .missing => .err
              | .fail => .err)
           | e => e)
        | e => e

def applyOrd (perm : List (String × SetTrie) → List (String × SetTrie)) (u : Updater) (sc : Schema) (live config : TV)
    (version : String) (managers : Managed) (manager : String) (force : Bool) : Outcome (Option TV × Managed) :=
  match reconcileManaged u sc live managers with
  | .ok managers =>
    liftRes (mergeTV sc live config) fun newObject =>
    let lastSet := mfGet managers manager
    liftRes (toFieldSet sc config) fun set =>
    let set := applyIgnore u version set
    let managers := mfSet managers manager ⟨set, version, true⟩
    (match pruneOrd perm u sc newObject managers manager lastSet with
     | .ok newObject =>
       (match updateCore u sc live newObject version managers manager force with
        | .ok (managers, _) =>
          if !u.returnInputOnNoop && Value.equals live.value newObject.value then .ok (none, managers)
          else .ok (some newObject, managers)
        | .conflict c => .conflict c
        | .err => .err
        | .panic => .panic)
     | .conflict c => .conflict c
     | .err => .err
     | .panic => .panic)
  | .conflict c => .conflict c
  | .err => .err
  | .panic => .panic


end SMD
