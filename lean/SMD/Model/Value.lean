/-
Model of `value/value.go`, `value/scalar.go`, `value/list.go`, `value/map.go`, `value/fields.go`.

A `Value` is the abstract content of a Go `value.Value` whatever its representation
(unstructured, interface-keyed, reflected).  Maps are association lists; the canonical form, used on
the wire and by every map-consuming operation, is sorted by key without repeats (Go maps have no
order; wherever the Go code needs one it sorts the keys: `lexicalKeyOrderedMapZip`, `FieldList.Sort`).

Numbers: `int i` is an int64; `float u negz` is the finite float64 whose exact value is `u * 2^-1074`
(every finite float64 is an integer multiple of the smallest subnormal), `negz` is the sign bit of a
zero.  `float64(int64)` is exact for |i| ≤ 2^53, the domain of property C17, so the mixed comparisons
of `value.Compare`/`value.Equals` are exact integer comparisons after scaling.
-/
namespace SMD

inductive Value where
  | null
  | bool (b : Bool)
  | int (i : Int)
  | float (u : Int) (negz : Bool)
  | str (s : String)
  | list (l : List Value)
  | map (m : List (String × Value))
  deriving Inhabited, Repr

/-- one int64 unit expressed in float units (2^1074). -/
def scale : Int := 2 ^ 1074

/-- the float units `u` (an integer multiple of 2^-1074) denote a finite float64: at most 53 significant
bits (`Nat.log2 n` = position of the leading bit; the bits below position `log2 n - 52` must be zero) and
magnitude below 2^1024 (= 2^2098 units; the largest float64 is (2^53-1)·2^971). -/
def isFloat64Units (u : Int) : Bool :=
  let n := u.natAbs
  n == 0 || (decide (n < 2 ^ 2098) && (decide (n.log2 < 53) || n % 2 ^ (n.log2 - 52) == 0))

/-- `value.IntCompare` / `value.FloatCompare` on exact numbers. -/
def cmpInt (a b : Int) : Ordering :=
  if a > b then .gt else if a < b then .lt else .eq

/-- `value.BoolCompare`. -/
def cmpBool (a b : Bool) : Ordering :=
  if a == b then .eq else if !a then .lt else .gt

/-- `strings.Compare` (byte-wise; equals code-point order on valid UTF-8). -/
def cmpStr (a b : String) : Ordering := compare a b

mutual
/-- `value.CompareUsing` (value/value.go:265-352), branch for branch. -/
def Value.compare : Value → Value → Ordering
  | .float u _, .float u' _ => cmpInt u u'
  | .float u _, .int i => cmpInt u (i * scale)
  | .float _ _, _ => .lt
  | .int i, .float u _ => cmpInt (i * scale) u
  | _, .float _ _ => .gt
  | .int i, .int j => cmpInt i j
  | .int _, _ => .lt
  | _, .int _ => .gt
  | .str a, .str b => cmpStr a b
  | .str _, _ => .lt
  | _, .str _ => .gt
  | .bool a, .bool b => cmpBool a b
  | .bool _, _ => .lt
  | _, .bool _ => .gt
  | .list a, .list b => Value.compareList a b
  | .list _, _ => .lt
  | _, .list _ => .gt
  | .map a, .map b => Value.compareFields a b
  | .map _, _ => .lt
  | _, .map _ => .gt
  | .null, .null => .eq
/-- `value.ListCompareUsing` (value/list.go:113-139). -/
def Value.compareList : List Value → List Value → Ordering
  | [], [] => .eq
  | [], _ :: _ => .lt
  | _ :: _, [] => .gt
  | a :: as, b :: bs =>
    match Value.compare a b with
    | .eq => Value.compareList as bs
    | c => c
/-- `value.MapCompareUsing` over the key-sorted zip (value/map.go:211-240) and
`FieldList.Compare` (value/fields.go:53-78): on key-sorted entry lists both are the lexicographic
comparison of (name, value) pairs, an exhausted side being smaller. -/
def Value.compareFields : List (String × Value) → List (String × Value) → Ordering
  | [], [] => .eq
  | [], _ :: _ => .lt
  | _ :: _, [] => .gt
  | (k, v) :: as, (k', v') :: bs =>
    match cmpStr k k' with
    | .eq =>
      match Value.compare v v' with
      | .eq => Value.compareFields as bs
      | c => c
    | c => c
end

mutual
/-- `value.EqualsUsing` (value/value.go:142-220). -/
def Value.equals : Value → Value → Bool
  | .float u _, .float u' _ => u == u'
  | .float u _, .int i => u == i * scale
  | .float _ _, _ => false
  | .int i, .float u _ => i * scale == u
  | _, .float _ _ => false
  | .int i, .int j => i == j
  | .int _, _ => false
  | _, .int _ => false
  | .str a, .str b => a == b
  | .str _, _ => false
  | _, .str _ => false
  | .bool a, .bool b => a == b
  | .bool _, _ => false
  | _, .bool _ => false
  | .list a, .list b => Value.equalsList a b
  | .list _, _ => false
  | _, .list _ => false
  | .map a, .map b => Value.equalsFields a b
  | .map _, _ => false
  | _, .map _ => false
  | .null, .null => true
/-- `value.ListEqualsUsing`. -/
def Value.equalsList : List Value → List Value → Bool
  | [], [] => true
  | a :: as, b :: bs => Value.equals a b && Value.equalsList as bs
  | _, _ => false
/-- `value.MapEqualsUsing` on canonical (key-sorted, repeat-free) entry lists, and `FieldList.Equals`. -/
def Value.equalsFields : List (String × Value) → List (String × Value) → Bool
  | [], [] => true
  | (k, v) :: as, (k', v') :: bs => k == k' && Value.equals v v' && Value.equalsFields as bs
  | _, _ => false
end

/-- `value.Less`. -/
def Value.less (a b : Value) : Bool := Value.compare a b == .lt

/-- A field list (`value.FieldList`): key fields of an associative-list item, sorted by name. -/
abbrev FieldList := List (String × Value)

def FieldList.compare (a b : FieldList) : Ordering := Value.compareFields a b
def FieldList.equals (a b : FieldList) : Bool := Value.equalsFields a b
def FieldList.less (a b : FieldList) : Bool := FieldList.compare a b == .lt

/-- insertion of one entry into a key-sorted entry list, AFTER the entries with an equal name (used
where entries arrive first to last, `mergeNode` on maps: equal names keep arrival order) -/
def insertField (e : String × Value) : List (String × Value) → List (String × Value)
  | [] => [e]
  | x :: xs => if e.1 < x.1 then e :: x :: xs else x :: insertField e xs

/-- insertion of one entry into a key-sorted entry list, BEFORE the first entry whose name is not
smaller (the step of `FieldList.sort`, which feeds the entries last to first) -/
def insertFieldFirst (e : String × Value) : List (String × Value) → List (String × Value)
  | [] => [e]
  | x :: xs => if x.1 < e.1 then x :: insertFieldFirst e xs else e :: x :: xs

/-- `FieldList.Sort` (value/fields.go:35-48): a STABLE sort by name — entries with equal names keep
their arrival order (`[b=1,a=2,a=3]` becomes `[a=2,a=3,b=1]`). -/
def FieldList.sort (l : FieldList) : FieldList := l.foldr insertFieldFirst []

example : FieldList.sort [("a", .int 1), ("a", .int 2)] = [("a", .int 1), ("a", .int 2)] := by
  simp [FieldList.sort, insertFieldFirst]
example : FieldList.sort [("b", .int 1), ("a", .int 2), ("a", .int 3)] =
    [("a", .int 2), ("a", .int 3), ("b", .int 1)] := by
  simp [FieldList.sort, insertFieldFirst]

/-- `obj[field] = elem` on a Go map, seen as a key-sorted repeat-free entry list: the entry goes to its
place in key order; an entry of the same key is REPLACED -/
def goMapInsert (e : String × Value) : List (String × Value) → List (String × Value)
  | [] => [e]
  | x :: xs =>
    if e.1 < x.1 then e :: x :: xs
    else if e.1 == x.1 then e :: xs
    else x :: goMapInsert e xs

/-- the canonical form of the members of a JSON object read into a Go map: entries sorted by key, of
repeated keys the LAST one kept -/
def goMapFields (m : List (String × Value)) : List (String × Value) :=
  m.foldl (fun acc e => goMapInsert e acc) []

example : goMapFields [("b", .int 1), ("a", .int 2)] = [("a", .int 2), ("b", .int 1)] := by
  simp [goMapFields, goMapInsert]
example : goMapFields [("a", .int 1), ("a", .int 2)] = [("a", .int 2)] := by
  simp [goMapFields, goMapInsert]

/-! ### Kind predicates used by the typed walkers -/

def Value.isNull : Value → Bool | .null => true | _ => false
def Value.isList : Value → Bool | .list _ => true | _ => false
def Value.isMap : Value → Bool | .map _ => true | _ => false
def Value.isScalar : Value → Bool
  | .bool _ | .int _ | .float _ _ | .str _ => true
  | _ => false
def Value.isNumeric : Value → Bool | .int _ | .float _ _ => true | _ => false
def Value.isString : Value → Bool | .str _ => true | _ => false
def Value.isBool : Value → Bool | .bool _ => true | _ => false

/-- lookup in an entry list (`Map.Get`) -/
def lookupField (k : String) : List (String × Value) → Option Value
  | [] => none
  | (k', v) :: rest => if k == k' then some v else lookupField k rest

end SMD
