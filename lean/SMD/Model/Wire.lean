/-
VX1: the self-delimiting text encoding shared by the Go harness (printer only) and the Lean driver
(parser and printer).  One operation per line; arguments separated by one space.

  value   N | T | F | I<int>; | D<int>p<int>; | S<runes>:<text> | [ value* ] | { (S.. value)* }
          D<m>p<e>; is the float m·2^e (D-0p0; is negative zero)
  pe      f<S..> | k{..} | v<value> | i<int>; | x            (x = invalid / zero element)
  path    P pe* ;
  set     Z path* ;                       (as a list of paths, in the order to insert / iterate)
  trie    Y pe* | (pe trie)* ;            (structure dump: members, then children)
-/
import SMD.Model.SetTrie
import SMD.Model.Schema
namespace SMD
namespace Wire

/-! ### Printer -/

def encStr (s : String) : String := "S" ++ toString s.length ++ ":" ++ s

/-- split `u ≠ 0` into odd mantissa and exponent: `u = m * 2^k`. -/
partial def oddPart (u : Int) (k : Nat) : Int × Nat :=
  if u == 0 then (0, 0) else if u % 2 == 0 then oddPart (u / 2) (k + 1) else (u, k)

def encFloat (u : Int) (negz : Bool) : String :=
  if u == 0 then (if negz then "D-0p0;" else "D0p0;")
  else
    let (m, k) := oddPart u 0
    "D" ++ toString m ++ "p" ++ toString ((k : Int) - 1074) ++ ";"

mutual
partial def encValue : Value → String
  | .null => "N"
  | .bool true => "T"
  | .bool false => "F"
  | .int i => "I" ++ toString i ++ ";"
  | .float u z => encFloat u z
  | .str s => encStr s
  | .list l => "[" ++ String.join (l.map encValue) ++ "]"
  | .map m => encFields m
partial def encFields (m : List (String × Value)) : String :=
  "{" ++ String.join (m.map fun (k, v) => encStr k ++ encValue v) ++ "}"
end

def encPE : PE → String
  | .field n => "f" ++ encStr n
  | .key k => "k" ++ encFields k
  | .value v => "v" ++ encValue v
  | .index i => "i" ++ toString i ++ ";"
  | .invalid => "x"

def encPath (p : Path) : String := "P" ++ String.join (p.map encPE) ++ ";"

def encPaths (ps : List Path) : String := "Z" ++ String.join (ps.map encPath) ++ ";"

partial def encTrie : SetTrie → String
  | .node m c =>
    "Y" ++ String.join (m.map encPE) ++ "|" ++
      String.join (c.map fun (pe, t) => "(" ++ encPE pe ++ encTrie t ++ ")") ++ ";"

def encOrdering : Ordering → String
  | .lt => "-1" | .eq => "0" | .gt => "1"

def encBool (b : Bool) : String := if b then "true" else "false"

/-! ### Parser (over `List Char`; `none` = malformed line) -/

abbrev P (α : Type) := List Char → Option (α × List Char)

def pChar (c : Char) : P Unit
  | x :: xs => if x == c then some ((), xs) else none
  | [] => none

def pNatAux : Nat → Bool → List Char → Option (Nat × List Char)
  | acc, seen, c :: cs =>
    if c.isDigit then pNatAux (acc * 10 + (c.toNat - '0'.toNat)) true cs
    else if seen then some (acc, c :: cs) else none
  | acc, seen, [] => if seen then some (acc, []) else none

def pNat : P Nat := pNatAux 0 false

/-- int with optional leading `-`; returns also whether a minus sign was present (for `-0`) -/
def pIntSigned : P (Int × Bool)
  | '-' :: cs => (pNat cs).map fun (n, r) => ((-(n : Int), true), r)
  | cs => (pNat cs).map fun (n, r) => (((n : Int), false), r)

def pInt : P Int := fun cs => (pIntSigned cs).map fun ((i, _), r) => (i, r)

def pStrBody : P String := fun cs =>
  match pNat cs with
  | some (n, ':' :: r) =>
    if r.length < n then none else some (String.ofList (r.take n), r.drop n)
  | _ => none

def pStr : P String
  | 'S' :: cs => pStrBody cs
  | _ => none

def mkFloat (m : Int) (neg : Bool) (e : Int) : Option Value :=
  if e < -1074 then none
  else some (.float (m * 2 ^ (e + 1074).toNat) (m == 0 && neg))

mutual
partial def pValue : P Value
  | 'N' :: cs => some (.null, cs)
  | 'T' :: cs => some (.bool true, cs)
  | 'F' :: cs => some (.bool false, cs)
  | 'I' :: cs =>
    match pInt cs with
    | some (i, ';' :: r) => some (.int i, r)
    | _ => none
  | 'D' :: cs =>
    match pIntSigned cs with
    | some ((m, neg), 'p' :: r) =>
      match pInt r with
      | some (e, ';' :: r') => (mkFloat m neg e).map fun v => (v, r')
      | _ => none
    | _ => none
  | 'S' :: cs => (pStrBody cs).map fun (s, r) => (.str s, r)
  | '[' :: cs => (pValues cs []).map fun (l, r) => (.list l, r)
  | '{' :: cs => (pFieldsBody cs []).map fun (m, r) => (.map m, r)
  | _ => none
partial def pValues (cs : List Char) (acc : List Value) : Option (List Value × List Char) :=
  match cs with
  | ']' :: r => some (acc.reverse, r)
  | _ =>
    match pValue cs with
    | some (v, r) => pValues r (v :: acc)
    | none => none
partial def pFieldsBody (cs : List Char) (acc : List (String × Value)) :
    Option (List (String × Value) × List Char) :=
  match cs with
  | '}' :: r => some (acc.reverse, r)
  | _ =>
    match pStr cs with
    | some (k, r) =>
      match pValue r with
      | some (v, r') => pFieldsBody r' ((k, v) :: acc)
      | none => none
    | none => none
end

def pFields : P (List (String × Value))
  | '{' :: cs => pFieldsBody cs []
  | _ => none

def pPE : P PE
  | 'f' :: cs => (pStr cs).map fun (s, r) => (.field s, r)
  | 'k' :: cs => (pFields cs).map fun (k, r) => (.key k, r)
  | 'v' :: cs => (pValue cs).map fun (v, r) => (.value v, r)
  | 'i' :: cs =>
    match pInt cs with
    | some (i, ';' :: r) => some (.index i, r)
    | _ => none
  | 'x' :: cs => some (.invalid, cs)
  | _ => none

partial def pMany {α : Type} (p : P α) (stop : Char) (cs : List Char) (acc : List α) :
    Option (List α × List Char) :=
  match cs with
  | c :: r => if c == stop then some (acc.reverse, r) else
    match p cs with
    | some (a, r') => pMany p stop r' (a :: acc)
    | none => none
  | [] => none

def pPath : P Path
  | 'P' :: cs => pMany pPE ';' cs []
  | _ => none

def pPaths : P (List Path)
  | 'Z' :: cs => pMany pPath ';' cs []
  | _ => none

partial def pTrie : P SetTrie
  | 'Y' :: cs =>
    match pMany pPE '|' cs [] with
    | some (m, r) =>
      let pChild : P (PE × SetTrie) := fun cs =>
        match cs with
        | '(' :: r1 =>
          match pPE r1 with
          | some (pe, r2) =>
            match pTrie r2 with
            | some (t, ')' :: r3) => some ((pe, t), r3)
            | _ => none
          | none => none
        | _ => none
      (pMany pChild ';' r []).map fun (c, r') => (SetTrie.node m c, r')
    | none => none
  | _ => none

/-- skip exactly one separating space -/
def pSp : P Unit := pChar ' '

/-- a bare word up to the next space / end of line -/
def pWord : P String := fun cs =>
  let w := cs.takeWhile (· != ' ')
  if w.isEmpty then none else some (String.ofList w, cs.drop w.length)

def pBoolWord : P Bool := fun cs =>
  match pWord cs with
  | some ("true", r) => some (true, r)
  | some ("false", r) => some (false, r)
  | _ => none

end Wire
end SMD

/-! ### schemas

  schema   X typedef* ;
  typedef  t <S name> atom
  atom     A (_ | s<S>) (_ | l typeref <S rel> [ <S key>* ]) (_ | m [ field* ] typeref <S rel>)
  field    ( <S name> typeref (_ | value) )
  typeref  R (_ | n<S>) atom (_ | e<S>)
-/
namespace SMD.Wire
open SMD

def pUnionField : P UnionField
  | '(' :: cs =>
    match pStr cs with
    | some (f, r1) =>
      match pStr r1 with
      | some (v, ')' :: r2) => some (⟨f, v⟩, r2)
      | _ => none
    | none => none
  | _ => none

/-- `( (_|<S>) (T|F) [ unionfield* ] )` -/
def pUnion : P Union
  | '(' :: cs =>
    let disc : Option (Option String × List Char) :=
      match cs with
      | '_' :: r => some (none, r)
      | _ => (pStr cs).map fun (d, r) => (some d, r)
    match disc with
    | some (d, 'T' :: '[' :: r) => (pMany pUnionField ']' r []).bind fun (fs, r') =>
        match r' with | ')' :: r'' => some (⟨d, true, fs⟩, r'') | _ => none
    | some (d, 'F' :: '[' :: r) => (pMany pUnionField ']' r []).bind fun (fs, r') =>
        match r' with | ')' :: r'' => some (⟨d, false, fs⟩, r'') | _ => none
    | _ => none
  | _ => none

mutual
partial def pAtom : P Atom
  | 'A' :: cs =>
    let scalarP : P (Option String) := fun cs =>
      match cs with
      | '_' :: r => some (none, r)
      | 's' :: r => (pStr r).map fun (s, r') => (some s, r')
      | _ => none
    match scalarP cs with
    | none => none
    | some (sc, r1) =>
      let listP : P (Option ListT) := fun cs =>
        match cs with
        | '_' :: r => some (none, r)
        | 'l' :: r =>
          match pTypeRef r with
          | some (e, r2) =>
            match pStr r2 with
            | some (rel, '[' :: r3) =>
              (pMany pStr ']' r3 []).map fun (keys, r4) => (some (ListT.mk e rel keys), r4)
            | _ => none
          | none => none
        | _ => none
      match listP r1 with
      | none => none
      | some (l, r2) =>
        let mapP : P (Option MapT) := fun cs =>
          match cs with
          | '_' :: r => some (none, r)
          | 'm' :: '[' :: r =>
            match pMany pField ']' r [] with
            | some (fields, r3) =>
              match pTypeRef r3 with
              | some (e, r4) =>
                (match pStr r4 with
                 | some (rel, 'u' :: '[' :: r5) =>
                   (pMany pUnion ']' r5 []).map fun (us, r6) => (some (MapT.mk fields us e rel), r6)
                 | some (rel, r5) => some (some (MapT.mk fields [] e rel), r5)
                 | none => none)
              | none => none
            | none => none
          | _ => none
        (mapP r2).map fun (m, r3) => (Atom.mk sc l m, r3)
  | _ => none
partial def pField : P StructField
  | '(' :: cs =>
    match pStr cs with
    | some (name, r1) =>
      match pTypeRef r1 with
      | some (t, '_' :: ')' :: r2) => some (StructField.mk name t none, r2)
      | some (t, r2) =>
        match pValue r2 with
        | some (d, ')' :: r3) => some (StructField.mk name t (some d), r3)
        | _ => none
      | none => none
    | none => none
  | _ => none
partial def pTypeRef : P TypeRef
  | 'R' :: cs =>
    let namedP : P (Option String) := fun cs =>
      match cs with
      | '_' :: r => some (none, r)
      | 'n' :: r => (pStr r).map fun (s, r') => (some s, r')
      | _ => none
    match namedP cs with
    | some (n, r1) =>
      match pAtom r1 with
      | some (a, '_' :: r2) => some (TypeRef.mk n a none, r2)
      | some (a, 'e' :: r2) => (pStr r2).map fun (rel, r3) => (TypeRef.mk n a (some rel), r3)
      | _ => none
    | none => none
  | _ => none
end

def pTypeDef : P TypeDef
  | 't' :: cs =>
    match pStr cs with
    | some (name, r) => (pAtom r).map fun (a, r') => (⟨name, a⟩, r')
    | none => none
  | _ => none

def pSchema : P Schema
  | 'X' :: cs => (pMany pTypeDef ';' cs []).map fun (ts, r) => (⟨ts⟩, r)
  | _ => none

end SMD.Wire
