/-
The field-set walker along a path that leads `Along` an object (validated or not): the field set of
the node reached embeds in the field set of the object, the items and the undeclared fields on the way
are members, and with the declared fields `ensureNamed` adds, every prefix of a path to a leaf is a
member of the closed field set.
-/
import SMD.Proofs.AlongPath
import SMD.Proofs.CompareFold
import SMD.Proofs.EnsureNamed
set_option linter.unusedSimpArgs false
set_option linter.unusedVariables false
set_option linter.unnecessarySimpa false
namespace SMD
namespace NodeLaws
open SetTrie CmpX

/-! ### one level of the field-set walker -/

theorem fsV_map_nonatomic {s : Schema} {tr : TypeRef} {a : Atom} {mt : MapT} (m : List (String × Value))
    (hres : s.resolve tr = some a) (ha : a.map = some mt) (hat : mt.rel ≠ "atomic") :
    fsV s tr (.map m) = fsFields s mt m := by
  rw [fsV, resolveKind_map_of s tr a mt m hres ha]
  simp [hat]

theorem fsV_list_nonatomic {s : Schema} {tr : TypeRef} {a : Atom} {lt : ListT} (l : List Value)
    (hres : s.resolve tr = some a) (ha : a.list = some lt) (hat : lt.rel ≠ "atomic") :
    fsV s tr (.list l) =
      match fsItems s lt (dupMarks s lt [] [] l) l with
      | .ok rest => .ok ((dupMarks s lt [] [] l).map (fun pe => [pe]) ++ rest)
      | e => e := by
  rw [fsV, resolveKind_list_of s tr a lt l hres ha]
  simp only [beq_iff_eq, hat, if_false]
  cases fsItems s lt (dupMarks s lt [] [] l) l <;> rfl

theorem fsFields_lookup (s : Schema) (mt : MapT) (k : String) (c : Value) :
    ∀ (m : List (String × Value)) (ps : List Path), fsFields s mt m = .ok ps → lookupField k m = some c →
      ∃ sub, fsV s (fieldType mt k) c = .ok sub ∧ (∀ r ∈ sub, PE.field k :: r ∈ ps) ∧
        (∀ q ∈ selfPaths mt k c, q ∈ ps)
  | [], ps, _, hl => by simp [lookupField] at hl
  | (k', v') :: rest, ps, hfs, hl => by
    rw [fsFields_cons] at hfs
    cases h1 : fsV s (fieldType mt k') v' with
    | ok sub1 =>
      cases h2 : fsFields s mt rest with
      | ok tail =>
        simp only [h1, h2, Res.ok.injEq] at hfs
        subst hfs
        simp only [lookupField] at hl
        split at hl
        · next he =>
          have : k = k' := by simpa using he
          subst this
          cases hl
          exact ⟨sub1, h1, fun r hr => by simp [hr],
            fun q hq => by simp [hq]⟩
        · obtain ⟨sub, h3, h4, h5⟩ := fsFields_lookup s mt k c rest tail h2 hl
          exact ⟨sub, h3, fun r hr => by simp [h4 r hr], fun q hq => by simp [h5 q hq]⟩
      | err => simp [h1, h2] at hfs
      | panic => simp [h1, h2] at hfs
    | err => cases h2 : fsFields s mt rest <;> simp [h1, h2] at hfs
    | panic => cases h2 : fsFields s mt rest <;> simp [h1, h2] at hfs

/-- an identity is never the invalid element -/
theorem identity_ne_invalid {s : Schema} {t : ListT} {c : Value} {id : PE}
    (h : Conf.identity s t c = some id) (q : PE) (hq : PE.equals id q = true) : PE.equals PE.invalid q = false := by
  have hni := identity_notIndex h
  cases id <;> cases q <;> simp_all [PE.equals, PE.notIndex]
  all_goals
    (cases hk : t.keys.isEmpty
     · cases c with
       | map m =>
         rw [identity_keyed s t m hk] at h
         split at h <;> cases h
       | _ => simp [Conf.identity, hk] at h
     · simp only [Conf.identity, hk, if_true] at h
       split at h <;> cases h)

/-- the walker's element of an item, against the element of the path -/
theorem peOf_equals_of_hit {s : Schema} {lt : ListT} {pe : PE} {c : Value} (h : hitOf s lt pe c = true) :
    PE.equals (peOf s lt c) pe = true := by
  obtain ⟨_, hrel, id, hid, he⟩ := hitOf_inv h
  rw [peOf_of_identity hrel hid]; exact he

theorem peOf_not_equals_of_nohit {s : Schema} {lt : ListT} {pe : PE} {c y : Value}
    (hc : hitOf s lt pe c = true) (hy : hitOf s lt pe y = false) :
    PE.equals (peOf s lt y) (peOf s lt c) = false := by
  obtain ⟨hni, hrel, id, hid, he⟩ := hitOf_inv hc
  rw [peOf_of_identity hrel hid]
  cases hidy : Conf.identity s lt y with
  | none =>
    have : peOf s lt y = PE.invalid := by simp [peOf, listItemToPE_eq s lt y hrel, hidy]
    rw [this]
    exact identity_ne_invalid hid id (PE.equals_refl _)
  | some idy =>
    rw [peOf_of_identity hrel hidy]
    rw [hitOf_of_identity hni hrel hidy] at hy
    cases h : PE.equals idy id with
    | false => rfl
    | true => rw [PE.equals_trans h he] at hy; cases hy

theorem dupMarks_none (s : Schema) (t : ListT) (q : PE) :
    ∀ (l : List Value) (seen dups : List PE), (∀ d ∈ dups, PE.equals d q = false) →
      (∀ y ∈ l, PE.equals (peOf s t y) q = false) → ∀ d ∈ dupMarks s t seen dups l, PE.equals d q = false := by
  intro l seen dups hd hl d hmem
  rcases dupMarks_sub s t l seen dups d hmem with h | ⟨c, hc, rfl⟩
  · exact hd d h
  · exact hl c hc

theorem dupMarks_one (s : Schema) (t : ListT) (c : Value) (l2 : List Value)
    (h2 : ∀ y ∈ l2, PE.equals (peOf s t y) (peOf s t c) = false) :
    ∀ (l1 : List Value) (seen dups : List PE), (∀ d ∈ dups, PE.equals d (peOf s t c) = false) →
      peHas (peOf s t c) seen = false → (∀ y ∈ l1, PE.equals (peOf s t y) (peOf s t c) = false) →
      ∀ d ∈ dupMarks s t seen dups (l1 ++ c :: l2), PE.equals d (peOf s t c) = false
  | [], seen, dups, hd, hs, _ => by
    rw [List.nil_append, dupMarks_cons, if_neg (by simp [hs])]
    exact dupMarks_none s t _ l2 _ dups hd h2
  | y :: l1, seen, dups, hd, hs, h1 => by
    have hy : PE.equals (peOf s t y) (peOf s t c) = false := h1 y List.mem_cons_self
    have h1' : ∀ y' ∈ l1, PE.equals (peOf s t y') (peOf s t c) = false :=
      fun y' hy' => h1 y' (List.mem_cons_of_mem _ hy')
    rw [List.cons_append, dupMarks_cons]
    split
    · split
      · exact dupMarks_one s t c l2 h2 l1 seen dups hd hs h1'
      · exact dupMarks_one s t c l2 h2 l1 seen _ (by
          intro d hdm
          rcases List.mem_cons.1 hdm with rfl | hdm
          · exact hy
          · exact hd d hdm) hs h1'
    · exact dupMarks_one s t c l2 h2 l1 _ dups hd (by rw [peHas_peInsert, hy, hs]; rfl) h1'

theorem fsItems_member (s : Schema) (t : ListT) (dups : List PE) (c : Value) (l2 : List Value)
    (hc : dups.any (fun d => PE.equals d (peOf s t c)) = false) :
    ∀ (l1 : List Value) (ps : List Path), fsItems s t dups (l1 ++ c :: l2) = .ok ps →
      ∃ sub, fsV s t.elementType c = .ok sub ∧ (∀ r ∈ sub, peOf s t c :: r ∈ ps) ∧ [peOf s t c] ∈ ps
  | [], ps, h => by
    rw [List.nil_append, fsItems_cons, if_neg (by simp [hc])] at h
    cases h1 : fsV s t.elementType c with
    | ok sub =>
      cases h2 : fsItems s t dups l2 with
      | ok tail =>
        simp only [h1, h2, Res.ok.injEq] at h
        subst h
        exact ⟨sub, rfl, fun r hr => by simp [hr], by simp⟩
      | err => simp [h1, h2] at h
      | panic => simp [h1, h2] at h
    | err => cases h2 : fsItems s t dups l2 <;> simp [h1, h2] at h
    | panic => cases h2 : fsItems s t dups l2 <;> simp [h1, h2] at h
  | y :: l1, ps, h => by
    rw [List.cons_append, fsItems_cons] at h
    split at h
    · exact fsItems_member s t dups c l2 hc l1 ps h
    · cases h1 : fsV s t.elementType y with
      | ok sub1 =>
        cases h2 : fsItems s t dups (l1 ++ c :: l2) with
        | ok tail =>
          simp only [h1, h2, Res.ok.injEq] at h
          subst h
          obtain ⟨sub, h3, h4, h5⟩ := fsItems_member s t dups c l2 hc l1 tail h2
          exact ⟨sub, h3, fun r hr => by simp [h4 r hr], by simp [h5]⟩
        | err => simp [h1, h2] at h
        | panic => simp [h1, h2] at h
      | err => cases h2 : fsItems s t dups (l1 ++ c :: l2) <;> simp [h1, h2] at h
      | panic => cases h2 : fsItems s t dups (l1 ++ c :: l2) <;> simp [h1, h2] at h

/-- the list step: the one item the element designates contributes its field set and itself -/
theorem fsV_list_member {s : Schema} {tr : TypeRef} {a : Atom} {lt : ListT} {l1 l2 : List Value} {c : Value}
    {pe : PE} {ps : List Path}
    (hres : s.resolve tr = some a) (ha : a.list = some lt) (hrel : lt.rel = "associative")
    (hhit : hitOf s lt pe c = true) (h1 : ∀ y ∈ l1, hitOf s lt pe y = false)
    (h2 : ∀ y ∈ l2, hitOf s lt pe y = false) (hfs : fsV s tr (.list (l1 ++ c :: l2)) = .ok ps) :
    ∃ sub, fsV s lt.elementType c = .ok sub ∧ (∀ r ∈ sub, peOf s lt c :: r ∈ ps) ∧ [peOf s lt c] ∈ ps := by
  have hat : lt.rel ≠ "atomic" := by rw [hrel]; decide
  rw [fsV_list_nonatomic _ hres ha hat] at hfs
  have hnd : (dupMarks s lt [] [] (l1 ++ c :: l2)).any (fun d => PE.equals d (peOf s lt c)) = false := by
    rw [List.any_eq_false]
    intro d hd
    have := dupMarks_one s lt c l2 (fun y hy => peOf_not_equals_of_nohit hhit (h2 y hy)) l1 [] []
      (by intro d hd; cases hd) rfl (fun y hy => peOf_not_equals_of_nohit hhit (h1 y hy)) d hd
    simp [this]
  cases hfi : fsItems s lt (dupMarks s lt [] [] (l1 ++ c :: l2)) (l1 ++ c :: l2) with
  | ok rest =>
    simp only [hfi, Res.ok.injEq] at hfs
    subst hfs
    obtain ⟨sub, h3, h4, h5⟩ := fsItems_member s lt _ c l2 hnd l1 rest hfi
    exact ⟨sub, h3, fun r hr => by simp [h4 r hr], by simp [h5]⟩
  | err => simp [hfi] at hfs
  | panic => simp [hfi] at hfs

/-! ### along a path -/

theorem Along.valid {s : Schema} {d : Bool} {tr : TypeRef} {v : Value} {p : Path} {trx : TypeRef} {x : Value}
    (h : Along s tr v p trx x) : validateV s d tr v = .ok () → validateV s d trx x = .ok () := by
  induction h with
  | nil tr v => exact id
  | @field tr a mt m k c rest tr' x hres ha hat hl _ ih =>
    intro hv
    obtain ⟨a', mt', hres', ha', hvf⟩ := validateV_map_inv hv
    rw [hres] at hres'; cases hres'
    rw [ha] at ha'; cases ha'
    exact ih (validateFields_mem s d mt m hvf (k, c) (mem_of_lookupField hl))
  | @item tr a lt l1 c l2 pe rest tr' x hres ha hrel hnd hhit h1 h2 _ ih =>
    intro hv
    obtain ⟨a', lt', hres', ha', hitems⟩ := validateV_list_inv hv
    rw [hres] at hres'; cases hres'
    rw [ha] at ha'; cases ha'
    exact ih (validateItems_assoc s d lt hrel _ [] 0 hitems c (by simp)).2

theorem fsV_scalar {s : Schema} {d : Bool} {tr : TypeRef} {v : Value}
    (hv : validateV s d tr v = .ok ()) (hs : v.isScalar = true) : fsV s tr v = .ok [[]] := by
  cases v <;> simp [Value.isScalar] at hs <;>
    (simp only [validateV] at hv; simp only [fsV]; split at hv <;> simp_all [Value.isNull])

/-- the field set of the node reached embeds in the field set of the object -/
theorem Along.fs_embed {s : Schema} {tr : TypeRef} {w : Value} {p : Path} {trx : TypeRef} {x : Value}
    (h : Along s tr w p trx x) : ∀ ps, fsV s tr w = .ok ps →
    ∃ sub, fsV s trx x = .ok sub ∧ ∀ r, pmem r sub = true → pmem (p ++ r) ps = true := by
  induction h with
  | nil tr v => intro ps hps; exact ⟨ps, hps, fun r hr => hr⟩
  | @field tr a mt m k c rest tr' x hres ha hat hl _ ih =>
    intro ps hps
    rw [fsV_map_nonatomic m hres ha hat] at hps
    obtain ⟨sub1, h1, h2, _⟩ := fsFields_lookup s mt k c m ps hps hl
    obtain ⟨sub, h3, h4⟩ := ih sub1 h1
    refine ⟨sub, h3, fun r hr => ?_⟩
    obtain ⟨r1, hr1, he⟩ := pmem_iff.1 (h4 r hr)
    exact pmem_iff.2 ⟨_, h2 r1 hr1, by simp [Path.equals, PE.equals_refl, he]⟩
  | @item tr a lt l1 c l2 pe rest tr' x hres ha hrel hnd hhit h1 h2 _ ih =>
    intro ps hps
    obtain ⟨sub1, h3, h4, _⟩ := fsV_list_member hres ha hrel hhit h1 h2 hps
    obtain ⟨sub, h5, h6⟩ := ih sub1 h3
    refine ⟨sub, h5, fun r hr => ?_⟩
    obtain ⟨r1, hr1, he⟩ := pmem_iff.1 (h6 r hr)
    exact pmem_iff.2 ⟨_, h4 r1 hr1, by simp [Path.equals, peOf_equals_of_hit hhit, he]⟩

/-- the types `ensureNamed` walks are the types of the nodes, up to a map node -/
theorem Along.enWalk_eq {s : Schema} {tr : TypeRef} {w : Value} {p : Path} {trx : TypeRef} {x : Value}
    (h : Along s tr w p trx x) : x.isScalar = false → SetTrie.enWalk s tr p = trx := by
  induction h with
  | nil tr v => intro _; rfl
  | @field tr a mt m k c rest tr' x hres ha hat hl _ ih =>
    intro hx
    rw [SetTrie.enWalk, hres]
    have : SetTrie.enStep ((some a).getD Atom.none) (PE.field k) = fieldType mt k := by
      simp only [Option.getD_some, SetTrie.enStep, ha, fieldType]
      cases mt.findField k <;> rfl
    rw [this]; exact ih hx
  | @item tr a lt l1 c l2 pe rest tr' x hres ha hrel hnd hhit h1 h2 hal ih =>
    intro hx
    obtain ⟨_, _, id, hid, he⟩ := hitOf_inv hhit
    rw [SetTrie.enWalk, hres]
    cases hk : lt.keys.isEmpty with
    | true =>
      -- a set: the item is a scalar, the path ends here
      have hsc := (identity_set s lt hk c id hid).1
      cases hal with
      | nil => rw [hsc] at hx; cases hx
      | field => simp [Value.isScalar] at hsc
      | item => simp [Value.isScalar] at hsc
    | false =>
      obtain ⟨m, rfl⟩ := identity_not_map s lt hk c id hid
      rw [identity_keyed s lt m hk] at hid
      have : ∃ fl, id = PE.key fl := by
        split at hid
        · cases hid; exact ⟨_, rfl⟩
        · cases hid
      obtain ⟨fl, rfl⟩ := this
      obtain ⟨fl', rfl, _⟩ := key_of_equals he
      have : SetTrie.enStep ((some a).getD Atom.none) (PE.key fl') = lt.elementType := by
        simp only [Option.getD_some, SetTrie.enStep, ha]
        cases a.map <;> rfl
      rw [this]; exact ih hx

theorem enStep_of_hit {s : Schema} {a : Atom} {lt : ListT} {pe : PE} {c : Value} (ha : a.list = some lt)
    (hhit : hitOf s lt pe c = true) (hns : c.isScalar = false) : SetTrie.enStep a pe = lt.elementType := by
  obtain ⟨_, _, id, hid, he⟩ := hitOf_inv hhit
  cases hk : lt.keys.isEmpty with
  | true => rw [(identity_set s lt hk c id hid).1] at hns; cases hns
  | false =>
    obtain ⟨m, rfl⟩ := identity_not_map s lt hk c id hid
    rw [identity_keyed s lt m hk] at hid
    have : ∃ fl, id = PE.key fl := by
      split at hid
      · cases hid; exact ⟨_, rfl⟩
      · cases hid
    obtain ⟨fl, rfl⟩ := this
    obtain ⟨fl', rfl, _⟩ := key_of_equals he
    simp only [SetTrie.enStep, ha]
    cases a.map <;> rfl

theorem Along.not_scalar_of_cons {s : Schema} {tr : TypeRef} {w : Value} {pe : PE} {rest : Path} {trx : TypeRef}
    {x : Value} (h : Along s tr w (pe :: rest) trx x) : w.isScalar = false := by
  cases h <;> rfl

/-- the items and the undeclared fields on the way are members of the field set -/
theorem Along.fs_prefix {s : Schema} {tr : TypeRef} {w : Value} {p : Path} {trx : TypeRef} {x : Value}
    (h : Along s tr w p trx x) : ∀ ps, fsV s tr w = .ok ps → ∀ pre pe r, p = pre ++ pe :: r →
    (∀ name, pe = PE.field name → SetTrie.enDeclared s (SetTrie.enWalk s tr pre) name = false) →
    pmem (pre ++ [pe]) ps = true := by
  induction h with
  | nil tr v => intro ps _ pre pe r hp; simp at hp
  | @field tr a mt m k c rest tr' x hres ha hat hl hal ih =>
    intro ps hps pre pe r hp hund
    rw [fsV_map_nonatomic m hres ha hat] at hps
    obtain ⟨sub1, h1, h2, hself⟩ := fsFields_lookup s mt k c m ps hps hl
    cases pre with
    | nil =>
      simp only [List.nil_append, List.cons.injEq] at hp
      obtain ⟨rfl, rfl⟩ := hp
      have hnd := hund k rfl
      simp only [SetTrie.enWalk, SetTrie.enDeclared, hres, Option.getD_some, ha] at hnd
      apply pmem_of_mem
      apply hself
      unfold selfPaths
      have hnone : (mt.findField k).isNone = true := by
        cases hf : mt.findField k <;> simp_all
      split
      · simp
      · simp [hnone]
    | cons b pre' =>
      simp only [List.cons_append, List.cons.injEq] at hp
      obtain ⟨rfl, rfl⟩ := hp
      have hw : SetTrie.enWalk s tr (PE.field k :: pre') = SetTrie.enWalk s (fieldType mt k) pre' := by
        rw [SetTrie.enWalk, hres]
        have : SetTrie.enStep ((some a).getD Atom.none) (PE.field k) = fieldType mt k := by
          simp only [Option.getD_some, SetTrie.enStep, ha, fieldType]
          cases mt.findField k <;> rfl
        rw [this]
      obtain ⟨r1, hr1, he⟩ := pmem_iff.1 (ih sub1 h1 pre' pe r rfl (fun name hn => by rw [← hw]; exact hund name hn))
      exact pmem_iff.2 ⟨_, h2 r1 hr1, by simp [Path.equals, PE.equals_refl, he]⟩
  | @item tr a lt l1 c l2 pe0 rest tr' x hres ha hrel hnd hhit h1 h2 hal ih =>
    intro ps hps pre pe r hp hund
    obtain ⟨sub1, h3, h4, hself⟩ := fsV_list_member hres ha hrel hhit h1 h2 hps
    cases pre with
    | nil =>
      simp only [List.nil_append, List.cons.injEq] at hp
      obtain ⟨rfl, rfl⟩ := hp
      exact pmem_iff.2 ⟨_, hself, by simp [Path.equals, peOf_equals_of_hit hhit]⟩
    | cons b pre' =>
      simp only [List.cons_append, List.cons.injEq] at hp
      obtain ⟨rfl, rfl⟩ := hp
      have hns : c.isScalar = false := by
        cases pre' <;> exact Along.not_scalar_of_cons hal
      have hw : SetTrie.enWalk s tr (pe0 :: pre') = SetTrie.enWalk s lt.elementType pre' := by
        rw [SetTrie.enWalk, hres, Option.getD_some, enStep_of_hit ha hhit hns]
      obtain ⟨r1, hr1, he⟩ := pmem_iff.1 (ih sub1 h3 pre' pe r rfl (fun name hn => by rw [← hw]; exact hund name hn))
      exact pmem_iff.2 ⟨_, h4 r1 hr1, by simp [Path.equals, peOf_equals_of_hit hhit, he]⟩

theorem prefixes_decomp : ∀ (p q : Path), q ∈ C15.prefixes p → ∃ pre pe r, q = pre ++ [pe] ∧ p = pre ++ pe :: r
  | [], q, h => by cases h
  | a :: rest, q, h => by
    simp only [C15.prefixes, List.mem_cons, List.mem_map] at h
    rcases h with rfl | ⟨q', hq', rfl⟩
    · exact ⟨[], a, rest, rfl, rfl⟩
    · obtain ⟨pre, pe, r, rfl, rfl⟩ := prefixes_decomp rest q' hq'
      exact ⟨a :: pre, pe, r, rfl, rfl⟩

/-- every prefix of a path that leads to a leaf is a member of the closed field set (the field set
with the declared fields `ensureNamed` adds) -/
theorem Along.closed_has {s : Schema} {tr : TypeRef} {w : Value} {p : Path} {trx : TypeRef} {x : Value}
    (h : Along s tr w p trx x) {ps : List Path} (hps : fsV s tr w = .ok ps) (hleaf : fsV s trx x = .ok [[]]) :
    ∀ q ∈ C15.prefixes p, ((SetTrie.ofPaths ps).ensureNamed s tr).has q = true := by
  intro q hq
  obtain ⟨pre, pe, r, rfl, rfl⟩ := prefixes_decomp p q hq
  have hS := SetTrie.wf_ofPaths ps
  -- the whole path is a member
  have hp : (SetTrie.ofPaths ps).has (pre ++ pe :: r) = true := by
    obtain ⟨sub, h1, h2⟩ := h.fs_embed ps hps
    rw [hleaf] at h1; cases h1
    have := h2 [] (by simp [pmem, Path.equals])
    rw [List.append_nil] at this
    rw [has_ofPaths_pmem, this]; simp
  rw [SetTrie.has_ensureNamed s tr _ _ hS]
  by_cases hdecl : ∃ name, pe = PE.field name ∧ SetTrie.enDeclared s (SetTrie.enWalk s tr pre) name = true
  · obtain ⟨name, rfl, hd⟩ := hdecl
    cases r with
    | nil => left; exact hp
    | cons b r' =>
      right
      refine ⟨pre, name, rfl, hd, b :: r', by simp, ?_⟩
      rw [List.append_assoc]; exact hp
  · left
    have := h.fs_prefix ps hps pre pe r rfl (fun name hn => by
      cases hd : SetTrie.enDeclared s (SetTrie.enWalk s tr pre) name with
      | false => rfl
      | true => exact absurd ⟨name, hn, hd⟩ hdecl)
    rw [has_ofPaths_pmem, this]; simp

end NodeLaws
end SMD
