/-
Paths that designate nodes, with the facts the walkers need on the way (`Along`): every map on the way
is not atomic, every list on the way is associative, declares no schema default for its key fields and
contains exactly one item designated by the path element.  What removal (`removeV`) and the field-set
walker (`fsV`) do along such a path.
-/
import SMD.Proofs.NodeRemove
import SMD.Proofs.MergeNodes
set_option linter.unusedSimpArgs false
set_option linter.unusedVariables false
set_option linter.unnecessarySimpa false
namespace SMD
namespace NodeLaws
open SetTrie

/-- the keyed list type declares no schema default for any of its key fields -/
def noKeyDefault (s : Schema) (lt : ListT) : Bool :=
  lt.keys.all fun k => (Conf.keyFieldDefault s lt k).isNone

/-- the node, if it is a list, has no schema default for a key field -/
def nkdHead (s : Schema) (tr : TypeRef) (v : Value) : Bool :=
  match s.resolve tr, v with
  | some a, .list _ => (match a.list with | some lt => noKeyDefault s lt | none => true)
  | _, _ => true

/-- no list on the way has a schema default for a key field -/
def nkdOn (s : Schema) : TypeRef → Value → Path → Bool
  | _, _, [] => true
  | tr, v, pe :: rest =>
    nkdHead s tr v &&
    (match Nodes.childAt s tr v pe with
     | some (tr', v') => nkdOn s tr' v' rest
     | none => true)

/-- `p` leads from the node `(tr, v)` to the node `(tr', x)` through non-atomic maps and associative
lists without key defaults in which the element of `p` designates exactly one item -/
inductive Along (s : Schema) : TypeRef → Value → Path → TypeRef → Value → Prop
  | nil (tr : TypeRef) (v : Value) : Along s tr v [] tr v
  | field {tr : TypeRef} {a : Atom} {mt : MapT} {m : List (String × Value)} {k : String} {c : Value}
      {rest : Path} {tr' : TypeRef} {x : Value} :
      s.resolve tr = some a → a.map = some mt → mt.rel ≠ "atomic" → lookupField k m = some c →
      Along s (fieldType mt k) c rest tr' x → Along s tr (.map m) (.field k :: rest) tr' x
  | item {tr : TypeRef} {a : Atom} {lt : ListT} {l1 : List Value} {c : Value} {l2 : List Value} {pe : PE}
      {rest : Path} {tr' : TypeRef} {x : Value} :
      s.resolve tr = some a → a.list = some lt → lt.rel = "associative" → noKeyDefault s lt = true →
      hitOf s lt pe c = true → (∀ y ∈ l1, hitOf s lt pe y = false) → (∀ y ∈ l2, hitOf s lt pe y = false) →
      Along s lt.elementType c rest tr' x → Along s tr (.list (l1 ++ c :: l2)) (pe :: rest) tr' x

theorem Along.valueAt {s : Schema} {tr : TypeRef} {v : Value} {p : Path} {tr' : TypeRef} {x : Value}
    (h : Along s tr v p tr' x) : Nodes.valueAt s tr v p = some x := by
  induction h with
  | nil tr v => exact valueAt_nil s tr v
  | field hres ha hat hl _ ih =>
    rw [valueAt_cons, childAt_map _ _ hres ha, hl]; exact ih
  | item hres ha hrel hnd hhit h1 h2 _ ih =>
    obtain ⟨hpe, _, _, _, _⟩ := hitOf_inv hhit
    rw [valueAt_cons, childAt_list _ _ hres ha hpe, itemAt_append_first s _ _ _ _ _ h1 hhit]
    exact ih

theorem Along.notIndex {s : Schema} {tr : TypeRef} {v : Value} {p : Path} {tr' : TypeRef} {x : Value}
    (h : Along s tr v p tr' x) : ∀ pe ∈ p, pe.notIndex = true := by
  induction h with
  | nil tr v => intro pe hpe; cases hpe
  | field hres ha hat hl _ ih =>
    intro pe hpe
    rcases List.mem_cons.1 hpe with rfl | hpe
    · rfl
    · exact ih pe hpe
  | item hres ha hrel hnd hhit h1 h2 _ ih =>
    intro pe' hpe
    rcases List.mem_cons.1 hpe with rfl | hpe
    · exact (hitOf_inv hhit).1
    · exact ih pe' hpe

/-! ### identities are pairwise distinct in a validated list -/

theorem distinct_append_cons (x : PE) : ∀ (A B : List PE), Conf.distinct (A ++ x :: B) = true →
    ∀ y ∈ B, PE.equals x y = false
  | [], B, h, y, hy => by
    simp only [List.nil_append, Conf.distinct, Bool.and_eq_true, Bool.not_eq_true', List.any_eq_false] at h
    simpa using h.1 y hy
  | a :: A, B, h, y, hy => by
    simp only [List.cons_append, Conf.distinct, Bool.and_eq_true] at h
    exact distinct_append_cons x A B h.2 y hy

theorem validateItems_later_nohit {s : Schema} {lt : ListT} {l1 l2 : List Value} {c : Value} {pe : PE}
    (hrel : lt.rel = "associative")
    (hv : validateItems s false lt [] 0 (l1 ++ c :: l2) = .ok ()) (hhit : hitOf s lt pe c = true) :
    ∀ y ∈ l2, hitOf s lt pe y = false := by
  intro y hy
  cases hh : hitOf s lt pe y with
  | false => rfl
  | true =>
    exfalso
    obtain ⟨hpe, _, idc, hidc, hec⟩ := hitOf_inv hhit
    obtain ⟨_, _, idy, hidy, hey⟩ := hitOf_inv hh
    have hspec := (validateItems_iff s false (l1 ++ c :: l2) lt [] 0).1 hv
    simp only [itemsSpec, hrel, if_true] at hspec
    obtain ⟨_, hd, _⟩ := hspec
    rcases hd with hd | ⟨hd, _⟩
    · cases hd
    · simp only [List.map_append, List.map_cons, List.filterMap_append, List.filterMap_cons, hidc, id] at hd
      have := distinct_append_cons idc _ _ hd idy
        (List.mem_filterMap.2 ⟨some idy, List.mem_map.2 ⟨y, hy, hidy⟩, rfl⟩)
      rw [PE.equals_trans hec (PE.equals_symm_of hey)] at this
      cases this

/-- a validated object, a path without index elements that passes through no atomic node and through no
list with key defaults: the path leads `Along` -/
theorem along_of_valueAt (s : Schema) : ∀ (p : Path) (tr : TypeRef) (v x : Value),
    validateV s false tr v = .ok () → (∀ pe ∈ p, pe.notIndex = true) → throughAtomic s tr v p = false →
    nkdOn s tr v p = true → Nodes.valueAt s tr v p = some x → ∃ trx, Along s tr v p trx x
  | [], tr, v, x, _, _, _, _, hx => by
    rw [valueAt_nil] at hx; cases hx; exact ⟨tr, Along.nil tr v⟩
  | pe :: rest, tr, v, x, hv, hni, hta, hnd, hx => by
    have hpe : pe.notIndex = true := hni pe List.mem_cons_self
    have hni' : ∀ pe' ∈ rest, pe'.notIndex = true := fun pe' h => hni pe' (List.mem_cons_of_mem _ h)
    cases v with
    | map m =>
      obtain ⟨a, mt, hres, ha, hfields⟩ := validateV_map_inv hv
      by_cases hf : ∃ k, pe = PE.field k
      · obtain ⟨k, rfl⟩ := hf
        rw [valueAt_cons, childAt_map _ k hres ha] at hx
        cases hl : lookupField k m with
        | none => simp [hl] at hx
        | some v1 =>
          simp only [hl, Option.map_some] at hx
          have hc : Nodes.childAt s tr (.map m) (PE.field k) = some (fieldType mt k, v1) := by
            rw [childAt_map _ k hres ha, hl]; rfl
          obtain ⟨hatn, hta'⟩ := throughAtomic_cons_inv hta hc
          have hat : mt.rel ≠ "atomic" := by simpa [atomicNode, hres, ha] using hatn
          have hnd' : nkdOn s (fieldType mt k) v1 rest = true := by
            simp only [nkdOn, nkdHead, hc, Bool.and_eq_true] at hnd
            exact hnd.2
          have hv1 := validateFields_mem s false mt m hfields (k, v1) (mem_of_lookupField hl)
          obtain ⟨trx, hal⟩ := along_of_valueAt s rest _ v1 x hv1 hni' hta' hnd' hx
          exact ⟨trx, Along.field hres ha hat hl hal⟩
      · rw [valueAt_of_childAt_none rest (childAt_map_nonfield s tr _ pe (fun k hk => hf ⟨k, hk⟩))] at hx
        cases hx
    | list l =>
      obtain ⟨a, lt, hres, ha, hitems⟩ := validateV_list_inv hv
      rw [valueAt_cons, childAt_list _ pe hres ha hpe] at hx
      cases hi : Nodes.itemAt s lt pe l with
      | none => simp [hi] at hx
      | some c =>
        simp only [hi, Option.map_some] at hx
        have hc : Nodes.childAt s tr (.list l) pe = some (lt.elementType, c) := by
          rw [childAt_list _ pe hres ha hpe, hi]; rfl
        obtain ⟨hatn, hta'⟩ := throughAtomic_cons_inv hta hc
        obtain ⟨l1, l2, hl, hnohit, hhit⟩ := itemAt_some_inv s lt pe c l hi
        obtain ⟨_, hrel, _, _, _⟩ := hitOf_inv hhit
        subst hl
        have hall := validateItems_assoc s false lt hrel _ [] 0 hitems
        obtain ⟨_, hvc⟩ := hall c (by simp)
        have hnd1 : noKeyDefault s lt = true ∧ nkdOn s lt.elementType c rest = true := by
          simp only [nkdOn, nkdHead, hc, hres, ha, Bool.and_eq_true] at hnd
          exact hnd
        obtain ⟨trx, hal⟩ := along_of_valueAt s rest _ c x hvc hni' hta' hnd1.2 hx
        exact ⟨trx, Along.item hres ha hrel hnd1.1 hhit hnohit
          (validateItems_later_nohit hrel hitems hhit) hal⟩
    | null => rw [valueAt_of_childAt_none rest (childAt_other s tr _ pe rfl rfl)] at hx; cases hx
    | bool b => rw [valueAt_of_childAt_none rest (childAt_other s tr _ pe rfl rfl)] at hx; cases hx
    | int b => rw [valueAt_of_childAt_none rest (childAt_other s tr _ pe rfl rfl)] at hx; cases hx
    | float b z => rw [valueAt_of_childAt_none rest (childAt_other s tr _ pe rfl rfl)] at hx; cases hx
    | str b => rw [valueAt_of_childAt_none rest (childAt_other s tr _ pe rfl rfl)] at hx; cases hx

/-! ### removal at a leaf, and of the fields of a list item -/

theorem removeV_scalar {s : Schema} {d : Bool} {tr : TypeRef} {S : SetTrie} {v : Value}
    (hv : validateV s d tr v = .ok ()) (hs : v.isScalar = true) : removeV s false tr S v = some v := by
  cases v <;> simp [Value.isScalar] at hs <;>
    (simp only [validateV] at hv; simp only [removeV]; split at hv <;> simp_all [Value.isNull])

theorem lookup_removeFields_none {s : Schema} {mt : MapT} {S : SetTrie} {m : List (String × Value)} {k : String}
    (hl : lookupField k m = none) : lookupField k (removeFields s false mt S m) = none := by
  rw [lookupField_removeFields, hl]
  split
  · rfl
  · split <;> rfl

theorem lookup_key_removeFields {s : Schema} {mt : MapT} {S : SetTrie} {m : List (String × Value)} {k : String}
    {v : Value} (hvf : validateFields s true mt m = .ok ()) (hl : lookupField k m = some v)
    (hs : v.isScalar = true) :
    lookupField k (removeFields s false mt S m) = if S.has [PE.field k] = true then none else some v := by
  rw [lookupField_removeFields, hl]
  have hv1 := validateFields_mem s true mt m hvf (k, v) (mem_of_lookupField hl)
  split
  · rfl
  · split
    · simp only [Option.map_some]
      rw [removeV_scalar hv1 hs]; rfl
    · rfl

/-- the item keeps its identity when none of its key fields is removed -/
theorem identity_removeFields_kept {s : Schema} {lt : ListT} {mt : MapT} {S : SetTrie} {m : List (String × Value)}
    (hvf : validateFields s true mt m = .ok ()) (hks : itemKeysScalar lt.keys (.map m) = true)
    (hk : ∀ k ∈ lt.keys, S.has [PE.field k] = false) :
    Conf.identity s lt (.map (removeFields s false mt S m)) = Conf.identity s lt (.map m) := by
  apply identity_map_congr
  intro k hk'
  cases hl : lookupField k m with
  | none => exact lookup_removeFields_none hl
  | some v =>
    rw [lookup_key_removeFields hvf hl (itemKeysScalar_lookup _ _ _ _ hks hk' hl), hk k hk']
    simp

theorem keyVal_nodefault {s : Schema} {lt : ListT} (hnd : noKeyDefault s lt = true) (m : List (String × Value))
    {k : String} (hk : k ∈ lt.keys) : keyVal s lt m k = (lookupField k m).map fun v => (k, v) := by
  have hd : Conf.keyFieldDefault s lt k = none := by
    have := List.all_eq_true.1 hnd k hk
    simpa using this
  unfold keyVal
  cases lookupField k m with
  | some v => rfl
  | none => simp [hd]

/-- without key defaults an item that still has an identity after losing fields had it before -/
theorem identity_removeFields_nodefault {s : Schema} {lt : ListT} {mt : MapT} {S : SetTrie}
    {m : List (String × Value)} {id : PE} (hnd : noKeyDefault s lt = true)
    (hvf : validateFields s true mt m = .ok ()) (hks : itemKeysScalar lt.keys (.map m) = true)
    (h : Conf.identity s lt (.map (removeFields s false mt S m)) = some id) :
    Conf.identity s lt (.map m) = some id := by
  cases hke : lt.keys.isEmpty with
  | true => simp [Conf.identity, hke, Value.isScalar] at h
  | false =>
    rw [← h]
    symm
    apply identity_map_congr
    intro k hk
    rw [identity_keyed s lt _ hke] at h
    by_cases hall : (lt.keys.map (keyVal s lt (removeFields s false mt S m))).all Option.isSome = true
    · have hsome := List.all_eq_true.1 hall _ (List.mem_map_of_mem hk)
      rw [keyVal_nodefault hnd _ hk] at hsome
      cases hl : lookupField k m with
      | none => rw [lookup_removeFields_none hl] at hsome; cases hsome
      | some v =>
        rw [lookup_key_removeFields hvf hl (itemKeysScalar_lookup _ _ _ _ hks hk hl)] at hsome ⊢
        split
        · next hh => rw [if_pos hh] at hsome; cases hsome
        · rfl
    · rw [if_neg hall] at h; cases h

/-- without key defaults, what is left of an item has the identity of the item or none -/
theorem identity_removeV_nodefault {s : Schema} {lt : ListT} {S : SetTrie} {c c' : Value} {id : PE}
    (hnd : noKeyDefault s lt = true) (hvc : validateV s true lt.elementType c = .ok ())
    (hks : itemKeysScalar lt.keys c = true) (hr : removeV s false lt.elementType S c = some c')
    (h : Conf.identity s lt c' = some id) : Conf.identity s lt c = some id := by
  cases c with
  | map m =>
    obtain ⟨a, mt, hres, ha, hvf⟩ := validateV_map_inv hvc
    rw [removeV_map_eq S m hres ha] at hr
    split at hr
    · cases hr
    · split at hr
      · cases hr
      · split at hr
        · cases hr
        · cases hr
          exact identity_removeFields_nodefault hnd hvf hks h
  | list l =>
    obtain ⟨a, lt', hres, ha, _⟩ := validateV_list_inv hvc
    rw [removeV_list_eq S l hres ha] at hr
    split at hr
    · cases hr
    · split at hr
      · cases hr
      · split at hr
        · cases hr
        · cases hr
          simp [Conf.identity, Value.isScalar] at h
  | null =>
    simp only [removeV] at hr
    split at hr
    · cases hr; rw [identity_null] at h; cases h
    · cases hr
  | bool b => rw [removeV_scalar hvc rfl] at hr; cases hr; exact h
  | int b => rw [removeV_scalar hvc rfl] at hr; cases hr; exact h
  | float b z => rw [removeV_scalar hvc rfl] at hr; cases hr; exact h
  | str b => rw [removeV_scalar hvc rfl] at hr; cases hr; exact h

/-- without key defaults an item of the result designated by `pe` comes from an item designated by `pe` -/
theorem hit_of_mem_remItem_nodefault {s : Schema} {lt : ListT} {S : SetTrie} {pe : PE} {c x' : Value}
    (hrel : lt.rel = "associative") (hnd : noKeyDefault s lt = true)
    (hvc : validateV s true lt.elementType c = .ok ()) (hks : itemKeysScalar lt.keys c = true)
    (hx' : x' ∈ remItem s lt S c) (hhit : hitOf s lt pe x' = true) : hitOf s lt pe c = true := by
  obtain ⟨_, hcase⟩ := mem_remItem hx'
  rcases hcase with ⟨_, rfl⟩ | ⟨_, rfl⟩
  · obtain ⟨hni, _, id', hid', he⟩ := hitOf_inv hhit
    cases hr : removeV s false lt.elementType (S.withPrefix (peOf s lt c)) c with
    | none =>
      rw [hr, show outToValue none = Value.null from rfl, identity_null] at hid'
      cases hid'
    | some c' =>
      rw [hr, show outToValue (some c') = c' from rfl] at hid'
      rw [hitOf_of_identity hni hrel (identity_removeV_nodefault hnd hvc hks hr hid')]
      exact he
  · exact hhit

/-- the item keeps its identity when none of its key fields is removed -/
theorem identity_removeV_kept {s : Schema} {lt : ListT} {S : SetTrie} {c c' : Value} {id : PE}
    (hid : Conf.identity s lt c = some id) (hvc : validateV s true lt.elementType c = .ok ())
    (hks : itemKeysScalar lt.keys c = true) (hk : ∀ k ∈ lt.keys, S.has [PE.field k] = false)
    (hr : removeV s false lt.elementType S c = some c') : Conf.identity s lt c' = some id := by
  cases hke : lt.keys.isEmpty with
  | false =>
    cases c with
    | map m =>
      obtain ⟨a, mt, hres, ha, hvf⟩ := validateV_map_inv hvc
      rw [removeV_map_eq S m hres ha] at hr
      split at hr
      · cases hr
      · split at hr
        · cases hr
        · split at hr
          · cases hr
          · cases hr
            rw [← hid]
            exact identity_removeFields_kept hvf hks hk
    | _ => simp [Conf.identity, hke] at hid
  | true =>
    have hsc : c.isScalar = true := by
      simp only [Conf.identity, hke, if_true] at hid
      split at hid
      · assumption
      · cases hid
    rw [removeV_scalar hvc hsc] at hr
    cases hr; exact hid

/-! ### the key-field paths of the list items on the way -/

/-- for every keyed item on the way, the paths of its key fields -/
def keyPaths : Path → List Path
  | [] => []
  | pe :: rest =>
    (match pe with
     | .key fl => fl.map (fun kv => [pe, PE.field kv.1])
     | _ => []) ++ (keyPaths rest).map (fun q => pe :: q)

theorem keyFieldPaths_go_eq : ∀ (p pre : Path), keyFieldPaths.go pre p = (keyPaths p).map (fun q => pre ++ q)
  | [], pre => by simp [keyFieldPaths.go, keyPaths]
  | pe :: rest, pre => by
    have ih := keyFieldPaths_go_eq rest (pre ++ [pe])
    cases pe with
    | key fl =>
      simp only [keyFieldPaths.go, keyPaths, ih, List.map_append, List.map_map]
      congr 1 <;> (apply List.map_congr_left; intro q _; simp)
    | _ => simp [keyFieldPaths.go, keyPaths, ih, Function.comp_def]

/-- `keyPaths` is the list `ExtractItems(WithAppendKeyFields())` appends (`keyFieldPaths` of the model) -/
theorem keyPaths_eq_keyFieldPaths (p : Path) : keyPaths p = keyFieldPaths p := by
  rw [keyFieldPaths, keyFieldPaths_go_eq]
  simp

theorem keyPaths_ne_nil : ∀ (p : Path), ∀ r ∈ keyPaths p, r ≠ []
  | [], r, h => by cases h
  | pe :: rest, r, h => by
    simp only [keyPaths, List.mem_append, List.mem_map] at h
    rcases h with h | ⟨q, _, rfl⟩
    · cases pe <;> simp at h
      obtain ⟨_, _, _, rfl⟩ := h; simp
    · simp

theorem equalsFields_names : ∀ (a b : List (String × Value)), Value.equalsFields a b = true →
    a.map (·.1) = b.map (·.1)
  | [], [], _ => rfl
  | [], _ :: _, h => by simp [Value.equalsFields] at h
  | _ :: _, [], h => by simp [Value.equalsFields] at h
  | (k, v) :: as, (k', v') :: bs, h => by
    simp only [Value.equalsFields, Bool.and_eq_true, beq_iff_eq] at h
    simp [h.1.1, equalsFields_names as bs h.2]

theorem key_of_equals {fl : FieldList} {pe : PE} (h : PE.equals (.key fl) pe = true) :
    ∃ fl', pe = .key fl' ∧ fl.map (·.1) = fl'.map (·.1) := by
  cases pe <;> simp [PE.equals] at h
  exact ⟨_, rfl, equalsFields_names _ _ h⟩

theorem prefixes_cons_mem {pe : PE} {rest r : Path} (h : r ∈ C15.prefixes rest) :
    pe :: r ∈ C15.prefixes (pe :: rest) := by
  simp only [C15.prefixes, List.mem_cons, List.mem_map]
  exact Or.inr ⟨r, h, rfl⟩

theorem keyPaths_cons_mem {pe : PE} {rest r : Path} (h : r ∈ keyPaths rest) :
    pe :: r ∈ keyPaths (pe :: rest) := by
  simp only [keyPaths, List.mem_append, List.mem_map]
  exact Or.inr ⟨r, h, rfl⟩

/-! ### removal along a path -/

/-- removing a set that contains no prefix of the path and no key field of an item on the way keeps
the path, with its scalar at the end -/
theorem removeV_along {s : Schema} {tr : TypeRef} {v : Value} {p : Path} {trx : TypeRef} {x : Value}
    (hal : Along s tr v p trx x) : ∀ (S : SetTrie), validateV s true tr v = .ok () →
    keysScalar s tr v = true → S.wf = true → p ≠ [] → x.isScalar = true →
    (∀ r ∈ C15.prefixes p, S.has r = false) → (∀ r ∈ keyPaths p, S.has r = false) →
    ∃ v', removeV s false tr S v = some v' ∧ Along s tr v' p trx x := by
  induction hal with
  | nil tr v => intro S _ _ _ hne; exact absurd rfl hne
  | @field tr a mt m k c rest tr' x hres ha hat hl hal' ih =>
    intro S hv hks hw _ hxs hpre hkey
    obtain ⟨a', mt', hres', ha', hvf⟩ := validateV_map_inv hv
    rw [hres] at hres'; cases hres'
    rw [ha] at ha'; cases ha'
    have hS1 : S.has [PE.field k] = false := hpre _ (by simp [C15.prefixes])
    have hv1 := validateFields_mem s true mt m hvf (k, c) (mem_of_lookupField hl)
    have hks1 := keysScalar_map_child s tr a mt m hres ha hat hks k c hl
    have hlook : ∃ c', lookupField k (removeFields s false mt S m) = some c' ∧
        Along s (fieldType mt k) c' rest tr' x := by
      rw [lookupField_removeFields, if_neg (by simp [hS1])]
      by_cases h2 : (S.withPrefix (PE.field k)).isEmpty = false
      · rw [if_pos h2, hl]
        by_cases hr : rest = []
        · subst hr
          cases hal'
          refine ⟨c, ?_, Along.nil _ _⟩
          simp [removeV_scalar hv1 hxs, outToValue]
        · obtain ⟨c', hr1, hr2⟩ := ih (S.withPrefix (PE.field k)) hv1 hks1 (wf_withPrefix _ S hw) hr hxs
            (fun r hr' => by
              rw [has_withPrefix_cons _ S _ (prefixes_ne_nil hr')]
              exact hpre _ (prefixes_cons_mem hr'))
            (fun r hr' => by
              rw [has_withPrefix_cons _ S _ (keyPaths_ne_nil _ r hr')]
              exact hkey _ (keyPaths_cons_mem hr'))
          exact ⟨c', by simp [hr1, outToValue], hr2⟩
      · rw [if_neg h2]; exact ⟨c, hl, hal'⟩
    obtain ⟨c', hl', hal''⟩ := hlook
    have hfs : removeFields s false mt S m ≠ [] := by
      intro h; rw [h] at hl'; simp [lookupField] at hl'
    have hmne : m ≠ [] := by rintro rfl; simp [lookupField] at hl
    exact ⟨_, removeV_map_some S m hres ha hat hfs hmne, Along.field hres ha hat hl' hal''⟩
  | @item tr a lt l1 c l2 pe rest tr' x hres ha hrel hnd hhit h1 h2 hal' ih =>
    intro S hv hks hw _ hxs hpre hkey
    obtain ⟨a', lt', hres', ha', hitems⟩ := validateV_list_inv hv
    rw [hres] at hres'; cases hres'
    rw [ha] at ha'; cases ha'
    have hat : lt.rel ≠ "atomic" := by rw [hrel]; decide
    have hall := validateItems_assoc s true lt hrel _ [] 0 hitems
    have hksl := keysScalar_list_items s tr a lt _ hres ha hat hks
    obtain ⟨hpe, _, id, hid, heq⟩ := hitOf_inv hhit
    have hcl : c ∈ l1 ++ c :: l2 := by simp
    obtain ⟨_, hvc⟩ := hall c hcl
    obtain ⟨hksc, hks1⟩ := hksl c hcl
    have hpeq : peOf s lt c = id := peOf_of_identity hrel hid
    have hS1 : S.has [pe] = false := hpre _ (by simp [C15.prefixes])
    have hnot : S.has [id] = false := by rw [has_congr_head heq [] S]; exact hS1
    -- no key field of the item is removed
    have hkf : ∀ k ∈ lt.keys, (S.withPrefix id).has [PE.field k] = false := by
      intro k hk
      obtain ⟨fl, rfl, hmem⟩ := identity_keys_mem hid k hk
      obtain ⟨fl', rfl, hnames⟩ := key_of_equals heq
      rw [has_withPrefix_cons _ S _ (by simp), has_congr_head heq _ S]
      apply hkey
      simp only [keyPaths, List.mem_append, List.mem_map]
      left
      rw [hnames] at hmem
      obtain ⟨kv, hkv, rfl⟩ := List.mem_map.1 hmem
      exact ⟨kv, hkv, rfl⟩
    have himg : ∃ c', remItem s lt S c = [c'] ∧ hitOf s lt pe c' = true ∧
        Along s lt.elementType c' rest tr' x := by
      unfold remItem
      rw [hpeq, if_neg (by simp [hnot])]
      by_cases h2' : (S.withPrefix id).isEmpty = false
      · rw [if_pos h2']
        by_cases hr : rest = []
        · subst hr
          cases hal'
          refine ⟨c, ?_, hhit, Along.nil _ _⟩
          simp [removeV_scalar hvc hxs, outToValue]
        · obtain ⟨c', hr1, hr2⟩ := ih (S.withPrefix id) hvc hks1 (wf_withPrefix _ S hw) hr hxs
            (fun r hr' => by
              rw [has_withPrefix_cons _ S _ (prefixes_ne_nil hr'), has_congr_head heq r S]
              exact hpre _ (prefixes_cons_mem hr'))
            (fun r hr' => by
              rw [has_withPrefix_cons _ S _ (keyPaths_ne_nil _ r hr'), has_congr_head heq r S]
              exact hkey _ (keyPaths_cons_mem hr'))
          refine ⟨c', by simp [hr1, outToValue], ?_, hr2⟩
          rw [hitOf_of_identity hpe hrel (identity_removeV_kept hid hvc hksc hkf hr1)]
          exact heq
      · rw [if_neg h2']; exact ⟨c, rfl, hhit, hal'⟩
    obtain ⟨c', hc1, hc2, hc3⟩ := himg
    have hres' : removeItems s false lt S (l1 ++ c :: l2) =
        removeItems s false lt S l1 ++ c' :: removeItems s false lt S l2 := by
      rw [removeItems_eq_flatMap, removeItems_eq_flatMap, removeItems_eq_flatMap,
        List.flatMap_append, List.flatMap_cons, hc1]
      rfl
    have hsib : ∀ (l0 : List Value), (∀ y ∈ l0, y ∈ l1 ++ c :: l2) → (∀ y ∈ l0, hitOf s lt pe y = false) →
        ∀ y' ∈ removeItems s false lt S l0, hitOf s lt pe y' = false := by
      intro l0 hsub hno y' hy'
      rw [removeItems_eq_flatMap] at hy'
      obtain ⟨y, hy, hy''⟩ := List.mem_flatMap.1 hy'
      cases hh : hitOf s lt pe y' with
      | false => rfl
      | true =>
        have := hit_of_mem_remItem_nodefault hrel hnd (hall y (hsub y hy)).2 (hksl y (hsub y hy)).1 hy'' hh
        rw [hno y hy] at this; cases this
    have hfs : removeItems s false lt S (l1 ++ c :: l2) ≠ [] := by rw [hres']; simp
    refine ⟨_, removeV_list_some S _ hres ha hat hfs (by simp), ?_⟩
    rw [hres']
    exact Along.item hres ha hrel hnd hc2
      (hsib l1 (fun y hy => List.mem_append_left _ hy) h1)
      (hsib l2 (fun y hy => List.mem_append_right _ (List.mem_cons_of_mem _ hy)) h2) hc3

end NodeLaws
end SMD
