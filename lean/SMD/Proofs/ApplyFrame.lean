/- helper lemmas for SMD/Properties/C02Apply.lean -/
import SMD.Proofs.ApplyPrune
import SMD.Proofs.PruneLaws
import SMD.Proofs.MergeFrame
import SMD.Properties.C02
import SMD.Properties.C03Prune
import SMD.Proofs.RemoveAvoid
set_option linter.unusedVariables false
namespace SMD
open NodeLaws SetTrie

/-- records of other keys survive `mfSet` -/
theorem mem_mfSet_of_ne {m : Managed} {k : String} {v : VersionedSet} {x : String × VersionedSet}
    (hx : x ∈ m) (hk : x.1 ≠ k) : x ∈ mfSet m k v := by
  show x ∈ mfSet.ins k v m
  induction m with
  | nil => cases hx
  | cons y m ih =>
    obtain ⟨k', v'⟩ := y
    simp only [mfSet.ins]
    rcases List.mem_cons.1 hx with rfl | hx
    · split
      · next h => exact absurd (show k = k' by simpa using h).symm hk
      · split <;> simp
    · split
      · exact List.mem_cons_of_mem _ hx
      · split
        · exact List.mem_cons_of_mem _ (List.mem_cons_of_mem _ hx)
        · exact List.mem_cons_of_mem _ (ih hx)

/-- C02 for every apply (single version, identity converter, no ignore configuration), relative to the
reconciled managed fields `m0`: a scalar of the live object the configuration is silent about, owned
(way and key fields included) by records other than the applier's, keeps its value through the merge
and the pruning -/
theorem apply_keeps_others_values_core (u : Updater) (sc : Schema) (live cfg : TV) (v : String) (m m0 : Managed)
    (mgr : String) (force : Bool) (obj : TV) (mf : Managed) (p : Path) (x : Value)
    (hconv : u.converter = Converter.identity) (hig : ∀ w, u.ignore w = none)
    (hall : ∀ r ∈ m, r.2.version = v) (htype : live.type = cfg.type)
    (hl : validateV sc false live.type live.value = .ok ()) (hr : validateV sc false cfg.type cfg.value = .ok ())
    (hmwf : ∀ r ∈ m, r.2.set.wf = true)
    (hrec : reconcileManaged u sc live m = .ok m0)
    (happly : apply u sc live cfg v m mgr force = .ok (some obj, mf))
    (hway : ∀ q, q <+: p → q ≠ [] → ∃ r ∈ m0, r.1 ≠ mgr ∧ (r.2.set.ensureNamed sc live.type).has q = true)
    (hkeys : ∀ q ∈ keyFieldPaths p, ∃ r ∈ m0, r.1 ≠ mgr ∧ (r.2.set.ensureNamed sc live.type).has q = true)
    (hx : Nodes.valueAt sc live.type live.value p = some x) (hleaf : x.isScalar = true)
    (hsilent : C02.RSilent sc cfg.type cfg.value p)
    (hdesc : mergeDescends sc live.type live.value cfg.value p = true)
    (hni : ∀ pe ∈ p, PE.isIndex pe = false)
    (hatomic : throughAtomic sc live.type live.value p = false)
    (hnd : nkdOn sc live.type live.value p = true)
    (hkl : keysScalar sc live.type live.value = true) (hkr : keysScalar sc cfg.type cfg.value = true) :
    Nodes.valueAt sc live.type obj.value p = some x := by
  obtain ⟨m0', merged, fs, hrec', hm, hfs, hp⟩ := apply_some_inv happly
  rw [hrec] at hrec'
  cases hrec'
  have hai : applyIgnore u v fs = fs := by simp [applyIgnore, hig]
  rw [hai] at hp
  obtain ⟨hmv, hmks⟩ := mergeTV_valid sc live cfg merged hl hr htype hkl hkr hm
  obtain ⟨out, hmn, rfl⟩ := mergeTV_inv hm
  obtain ⟨lv, lt⟩ := live
  obtain ⟨cv, ct⟩ := cfg
  simp only at htype hl hr hx hkl hkr hatomic hnd hmn hmv hmks hp hway hkeys hsilent hdesc ⊢
  subst htype
  -- the frame law: the leaf is in the merged object
  have hxm : Nodes.valueAt sc lt out p = some x :=
    (frame_aux sc p lt lv cv out _ x hr hni hkl hkr hmn hx hsilent hdesc).2 hleaf
  cases hlast : mfGet m0 mgr with
  | none =>
    rw [hlast, prune_none] at hp
    cases hp
    exact hxm
  | some last =>
    rw [hlast] at hp
    obtain ⟨hta, hnk⟩ := path_shape_transfer sc p lt lv out x x hni hx hxm
    have hlmem : (mgr, last) ∈ m0 := mem_of_mfGet hlast
    have hlv : last.version = v := by
      obtain ⟨y, hy, he⟩ := reconcileManaged_version hrec _ hlmem
      rw [he]; exact hall y hy
    have hwf0 := reconcileManaged_wf hrec hmwf
    have hlwf : last.set.wf = true := hwf0 _ hlmem
    have hall' : ∀ r ∈ mfSet m0 mgr ⟨fs, v, true⟩, r.2.version = v := by
      intro r hr'
      rcases mem_mfSet hr' with rfl | hr'
      · rfl
      · obtain ⟨y, hy, he⟩ := reconcileManaged_version hrec _ hr'
        rw [he]; exact hall y hy
    have hwf' : ∀ r ∈ mfSet m0 mgr ⟨fs, v, true⟩, r.2.set.wf = true := by
      intro r hr'
      rcases mem_mfSet hr' with rfl | hr'
      · exact toFieldSet_wf hfs
      · exact hwf0 _ hr'
    have hty := prune_single_type u sc ⟨out, lt⟩ obj _ mgr last v hconv hall' hlv hp
    have := prune_keeps_owned_leaf u sc ⟨out, lt⟩ obj _ mgr last v p x hconv hall' hlv hmv hp hxm hwf' hlwf
      (fun q hq hne => by
        obtain ⟨r, hrm, hrk, hrq⟩ := hway q hq hne
        exact ⟨r, mem_mfSet_of_ne hrm hrk, hrq⟩)
      (fun q hq => by
        obtain ⟨r, hrm, hrk, hrq⟩ := hkeys q (by rw [← keyPaths_eq_keyFieldPaths]; exact hq)
        exact ⟨r, mem_mfSet_of_ne hrm hrk, hrq⟩)
      hni (by rw [← hta]; exact hatomic) (by rw [← hnk]; exact hnd) hmks hleaf
    rw [hty] at this
    exact this

/-! ### what the applier abandons and nobody owns is pruned -/

/-- single version, identity converter, a non-empty previous record: the three stages of `prune` -/
theorem prune_single_inv_nonempty (u : Updater) (sc : Schema) (merged out : TV) (managers : Managed) (mgr : String)
    (last : VersionedSet) (v : String)
    (hconv : u.converter = Converter.identity)
    (hall : ∀ x ∈ managers, x.2.version = v) (hlast : last.version = v)
    (hne : last.set.isEmpty = false)
    (hprune : prune u sc merged managers mgr (some last) = .ok out) :
    ∃ ms pr ps, toFieldSet sc merged = .ok ms ∧ toFieldSet sc pr = .ok ps ∧
      out = removeItemsTV sc merged
        (((ms.ensureNamed sc merged.type).diff (ps.ensureNamed sc merged.type)).inter
          (last.set.ensureNamed sc merged.type)) ∧
      ((managers = [] ∧ pr = removeItemsTV sc merged (last.set.ensureNamed sc merged.type)) ∨
       (managers ≠ [] ∧ ∃ ps1,
          toFieldSet sc (removeItemsTV sc merged (last.set.ensureNamed sc merged.type)) = .ok ps1 ∧
          pr = removeItemsTV sc merged
            ((ms.ensureNamed sc merged.type).diff
              ((ps1.ensureNamed sc merged.type).union ((unionAll managers).ensureNamed sc merged.type))))) := by
  unfold prune at hprune
  simp only at hprune
  rw [if_neg (by simp [hne])] at hprune
  have hc : ∀ (x : TV) (w : String), u.converter.convert x w = .ok x := by
    intro x w; rw [hconv]; rfl
  rw [hc] at hprune
  simp only at hprune
  split at hprune
  · rename_i pr hown
    split at hprune
    · rename_i out' hdang
      rw [hc] at hprune
      simp only at hprune
      have hout : out' = out := Outcome.ok.inj hprune
      subst hout
      obtain ⟨ms, ps, hms, hps, hout⟩ := addBackDangling_identity_ok _ _ _ _ _ _ hconv hdang
      refine ⟨ms, pr, ps, hms, hps, hout, ?_⟩
      by_cases hne' : managers = []
      · left
        subst hne'
        rw [addBackOwned_nil] at hown
        exact ⟨rfl, (Outcome.ok.inj hown).symm⟩
      · right
        refine ⟨hne', ?_⟩
        rw [hlast, addBackOwned_single _ _ _ _ _ _ hall hne'] at hown
        split at hown
        · rename_i m' p' hfv
          obtain ⟨ms1, ps1, hms1, hps1, hr⟩ := addBackForVersion_identity_ok _ _ _ _ _ _ _ hconv hfv
          have hp : p' = pr := Outcome.ok.inj hown
          subst hp
          rw [hms] at hms1
          have : ms = ms1 := Res.ok.inj hms1
          subst this
          exact ⟨ps1, hps1, (Prod.mk.inj hr).2⟩
        · cases hown
        · cases hown
        · cases hown
    · rename_i e hne'
      exact absurd hprune (hne' out)
  · rename_i e hne'
    exact absurd hprune (hne' out)

/-- the closed field set of what is left after removing a set that contains the path has no member at the
path -/
theorem closed_fieldset_lacks_removed {sc : Schema} {tv : TV} {p : Path} {trx : TypeRef} {x : Value}
    {T fs : SetTrie}
    (hal : Along sc tv.type tv.value p trx x) (hv : validateV sc true tv.type tv.value = .ok ())
    (hks : keysScalar sc tv.type tv.value = true) (hT : T.wf = true) (hTp : T.has p = true)
    (hfs : toFieldSet sc (removeItemsTV sc tv T) = .ok fs) :
    (fs.ensureNamed sc tv.type).has p = false := by
  obtain ⟨qs, hqs, rfl⟩ := toFieldSet_inv hfs
  have hav := removeV_fs_avoids sc p tv.type tv.value T qs hal.tyAlong hv hks hT hTp hqs
  have hno : ∀ r, (ofPaths qs).has (p ++ r) = false := by
    intro r
    cases hh : (ofPaths qs).has (p ++ r) with
    | false => rfl
    | true =>
      rw [CmpX.has_ofPaths_pmem, Bool.and_eq_true] at hh
      obtain ⟨q, hq, he⟩ := CmpX.pmem_iff.1 hh.2
      have := prefEq_of_equals r (path_equals_refl p) he
      rw [hav q hq] at this
      cases this
  cases hh : ((ofPaths qs).ensureNamed sc tv.type).has p with
  | false => rfl
  | true =>
    rcases (has_ensureNamed sc tv.type _ p (wf_ofPaths qs)).1 hh with h | ⟨_, _, _, _, r, _, h⟩
    · have := hno []
      rw [List.append_nil, h] at this
      cases this
    · rw [hno r] at h; cases h

/-- C03: a scalar leaf of the applier's previous record that no record of `managers` contains (closed sets)
designates nothing in the pruned object -/
theorem prune_removes_abandoned_leaf (u : Updater) (sc : Schema) (merged out : TV) (managers : Managed)
    (mgr : String) (last : VersionedSet) (v : String) (p : Path) (x : Value)
    (hconv : u.converter = Converter.identity)
    (hall : ∀ r ∈ managers, r.2.version = v) (hlast : last.version = v)
    (hvalid : validateV sc false merged.type merged.value = .ok ())
    (hmwf : ∀ r ∈ managers, r.2.set.wf = true) (hlwf : last.set.wf = true)
    (hprune : prune u sc merged managers mgr (some last) = .ok out)
    (hlastp : last.set.has p = true)
    (hnobody : ∀ r ∈ managers, (r.2.set.ensureNamed sc merged.type).has p = false)
    (hx : Nodes.valueAt sc merged.type merged.value p = some x) (hleaf : x.isScalar = true)
    (hni : ∀ pe ∈ p, PE.isIndex pe = false)
    (hatomic : throughAtomic sc merged.type merged.value p = false)
    (hnd : nkdOn sc merged.type merged.value p = true)
    (hks : keysScalar sc merged.type merged.value = true) :
    Nodes.valueAt sc out.type out.value p = none := by
  have hne : last.set.isEmpty = false := not_isEmpty_of_has hlastp
  obtain ⟨ms, pr, ps, hms, hps, rfl, hstage⟩ :=
    prune_single_inv_nonempty u sc merged out managers mgr last v hconv hall hlast hne hprune
  obtain ⟨trx, hal⟩ := along_of_valueAt sc p _ _ x hvalid (notIndex_of_isIndex_false hni) hatomic hnd hx
  have hvt := validateV_true_of_false' sc _ _ hvalid
  have hpne : p ≠ [] := has_true_ne_nil hlastp
  have hwE : (ms.ensureNamed sc merged.type).wf = true := wf_ensureNamed _ _ _ (toFieldSet_wf hms)
  have hwP : (ps.ensureNamed sc merged.type).wf = true := wf_ensureNamed _ _ _ (toFieldSet_wf hps)
  have hwX : ((ms.ensureNamed sc merged.type).diff (ps.ensureNamed sc merged.type)).wf = true :=
    wf_diff_left _ _ hwE
  have hwL : (last.set.ensureNamed sc merged.type).wf = true := wf_ensureNamed _ _ _ hlwf
  -- the leaf is in the closed field set of the merged object and in the closed previous record
  have hpM : (ms.ensureNamed sc merged.type).has p = true :=
    (closed_fieldset_has hal hvt hks hleaf hms).1 p (self_mem_prefixes p hpne)
  have hpL : (last.set.ensureNamed sc merged.type).has p = true :=
    has_ensureNamed_of_has _ _ _ _ hlwf hlastp
  -- it is not in the closed field set of the second stage
  have hpP : (ps.ensureNamed sc merged.type).has p = false := by
    rcases hstage with ⟨_, rfl⟩ | ⟨_, ps1, hps1, rfl⟩
    · exact closed_fieldset_lacks_removed hal hvt hks hwL hpL hps
    · have hp1 : (ps1.ensureNamed sc merged.type).has p = false :=
        closed_fieldset_lacks_removed hal hvt hks hwL hpL hps1
      have hwU := wf_unionAll managers hmwf
      have hwM : ((unionAll managers).ensureNamed sc merged.type).wf = true := wf_ensureNamed _ _ _ hwU
      have hwP1 : (ps1.ensureNamed sc merged.type).wf = true := wf_ensureNamed _ _ _ (toFieldSet_wf hps1)
      have hpU : ((unionAll managers).ensureNamed sc merged.type).has p = false := by
        cases hh : ((unionAll managers).ensureNamed sc merged.type).has p with
        | false => rfl
        | true =>
          exfalso
          rcases (has_ensureNamed sc merged.type _ p hwU).1 hh with h | ⟨pre, name, hq, hd, r, hr, h⟩
          · rw [has_unionAll managers hmwf] at h
            obtain ⟨y, hy, hyp⟩ := List.any_eq_true.1 h
            have := hnobody y hy
            rw [has_ensureNamed_of_has _ _ _ _ (hmwf y hy) hyp] at this
            cases this
          · rw [has_unionAll managers hmwf] at h
            obtain ⟨y, hy, hyp⟩ := List.any_eq_true.1 h
            have := hnobody y hy
            rw [(has_ensureNamed sc merged.type y.2.set p (hmwf y hy)).2 (.inr ⟨pre, name, hq, hd, r, hr, hyp⟩)] at this
            cases this
      refine closed_fieldset_lacks_removed hal hvt hks (wf_diff _ _ hwE (wf_union _ _ hwP1 hwM)) ?_ hps
      rw [has_diff p _ _ hwE (wf_union _ _ hwP1 hwM), has_union p _ _ hwP1 hwM, hpM, hp1, hpU]
      rfl
  -- so the third stage removes it
  have hR : (((ms.ensureNamed sc merged.type).diff (ps.ensureNamed sc merged.type)).inter
      (last.set.ensureNamed sc merged.type)).has p = true := by
    rw [has_inter p _ _ hwX hwL, has_diff p _ _ hwE hwP, hpM, hpP, hpL]
    rfl
  exact removeV_drops_along hal _ hvt hks (wf_inter _ _ hwX hwL) hR

end SMD
