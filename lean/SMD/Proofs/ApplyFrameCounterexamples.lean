/-
A concrete run of the model refuting `SMD.C02.apply_keeps_others_values` as first written
(`SMD/Properties/C02Apply.lean`), evaluated by the kernel.

World R (empty schema): the object is a struct `{l, g}`; the type of `l` allows BOTH a list keyed by
`name` (items `{name, x}`, no schema default) and a granular map of ATOMIC maps.  The live object holds a
list at `l`.  The walkers that follow the value (validation, field set, merge, removal, the resolver)
treat `l` as the keyed list; `reconcileManagedFieldsWithSchemaChanges` follows the schema alone, whose
dispatch takes the map first: it sees `.l[name=c]` as an atomic map and replaces, in every record, the
paths beneath `.l[name=c]` by `.l[name=c]` itself.

"o" owns `.l`, `.l[name=c]`, `.l[name=c].name` and `.l[name=c].x`; the applier "a" applied `.l[name=c].x`
and `.g` before and now applies `{g: 0}`.  After the reconcile step "o" owns `.l` and `.l[name=c]` only and
the previous record of "a" is `{.g, .l[name=c]}`: the second stage of `prune` empties the item (nobody owns
its fields any more), the third stage removes the item, and `l` becomes null: the scalar `.l[name=c].x`
that "o" owned, with its way and key field, does not survive an apply that does not mention it.
-/
import SMD.Proofs.PruneCounterexamples
import SMD.Proofs.MergeFrame
import SMD.Properties.C02
set_option maxRecDepth 100000
namespace SMD.CounterApplyFrame
open SMD SMD.C14 SetTrie NodeLaws SMD.CounterPrune

def strTR : TypeRef := .mk none (.mk (some "string") none none) none
/-- an item `{name, x}` without schema defaults -/
def itemTR : TypeRef :=
  .mk none (.mk none none (some (.mk [.mk "name" cxScalar none, .mk "x" cxScalar none] [] .zero ""))) none
/-- an atomic map of strings -/
def atomicMapTR : TypeRef := .mk none (.mk none none (some (.mk [] [] strTR "atomic"))) none
/-- a list keyed by `name`, or a granular map of atomic maps -/
def bothTR : TypeRef :=
  .mk none (.mk none (some (.mk itemTR "associative" ["name"])) (some (.mk [] [] atomicMapTR ""))) none
/-- the struct `{l : bothTR, g : scalar}` -/
def rootR : TypeRef :=
  .mk none (.mk none none (some (.mk [.mk "l" bothTR none, .mk "g" cxScalar none] [] .zero ""))) none

/-- the live object `{g: 0, l: [{name: c, x: 1}]}` -/
def liveR : TV := ⟨.map [("g", .int 0), ("l", .list [.map [("name", .str "c"), ("x", .int 1)]])], rootR⟩
/-- the configuration `{g: 0}` -/
def cfgR : TV := ⟨.map [("g", .int 0)], rootR⟩
/-- the object returned: `{g: 0, l: null}` -/
def outR : TV := ⟨.map [("g", .int 0), ("l", .null)], rootR⟩
def pR : Path := [.field "l", keyC, .field "x"]
/-- "o" owns the leaf, its way and the key field of the item -/
def setOR : SetTrie :=
  ofPaths [[.field "l"], [.field "l", keyC], [.field "l", keyC, .field "name"], [.field "l", keyC, .field "x"]]
/-- the applier's previous record -/
def setAR : SetTrie := ofPaths [[.field "l", keyC, .field "x"], [.field "g"]]
def vsOR : VersionedSet := ⟨setOR, "v", false⟩
def mR : Managed := [("a", ⟨setAR, "v", true⟩), ("o", vsOR)]
/-- the managed fields returned -/
def mfR : Managed := [("a", ⟨ofPaths [[.field "g"]], "v", true⟩)]

/-- the managed fields after the reconcile step: everything beneath `.l[name=c]` is replaced by the item -/
def mR0 : Managed :=
  [("a", ⟨ofPaths [[.field "g"], [.field "l", keyC]], "v", true⟩),
   ("o", ⟨ofPaths [[.field "l"], [.field "l", keyC]], "v", false⟩)]

theorem r_reconcile : reconcileManaged upd sc0 liveR mR = .ok mR0 := by
  unfold reconcileManaged
  unfold reconcileManaged
  unfold reconcileManaged
  unfold reconcileFieldSet
  simp only [rdiffS_eq, unionS_eq]
  kernel_refl

theorem r_apply : apply upd sc0 liveR cfgR "v" mR "a" true = .ok (some outR, mfR) := by
  unfold apply
  rw [r_reconcile]
  unfold prune addBackOwned addBackDangling addBackForVersion updateCore applyIgnore filterCmp
  simp only [unionS_eq, interS_eq, diffS_eq, managedAtVersionS_eq, updateLoopS_eq]
  kernel_refl

theorem r_allAt : ∀ x ∈ mR, x.2.version = "v" := by
  intro x hx
  simp only [mR, List.mem_cons, List.not_mem_nil, or_false] at hx
  rcases hx with rfl | rfl <;> rfl
theorem r_valid_live : validateV sc0 false liveR.type liveR.value = .ok () := rfl
theorem r_valid_cfg : validateV sc0 false cfgR.type cfgR.value = .ok () := rfl
theorem r_wf : ∀ r ∈ mR, r.2.set.wf = true := by
  intro x hx
  simp only [mR, List.mem_cons, List.not_mem_nil, or_false] at hx
  rcases hx with rfl | rfl <;> decide
theorem r_get : mfGet mR "o" = some vsOR := rfl
theorem r_owned : vsOR.set.has pR = true := by decide
theorem r_o_mem : ("o", vsOR) ∈ mR := by simp [mR]
theorem r_way : ∀ q, q <+: pR → q ≠ [] →
    ∃ r ∈ mR, r.1 ≠ "a" ∧ (r.2.set.ensureNamed sc0 liveR.type).has q = true := by
  intro q hq hne
  have hm := mem_prefixes_of_isPrefix pR q hq hne
  have hall : (C15.prefixes pR).all (fun r => (vsOR.set.ensureNamed sc0 liveR.type).has r) = true := by
    decide
  exact ⟨("o", vsOR), r_o_mem, by decide, List.all_eq_true.1 hall q hm⟩
theorem r_keys : ∀ q ∈ keyFieldPaths pR,
    ∃ r ∈ mR, r.1 ≠ "a" ∧ (r.2.set.ensureNamed sc0 liveR.type).has q = true := by
  intro q hq
  have hall : (keyFieldPaths pR).all (fun r => (vsOR.set.ensureNamed sc0 liveR.type).has r) = true := by
    decide
  exact ⟨("o", vsOR), r_o_mem, by decide, List.all_eq_true.1 hall q hq⟩
theorem r_at_live : Nodes.valueAt sc0 liveR.type liveR.value pR = some (.int 1) := rfl
theorem r_at_out : Nodes.valueAt sc0 liveR.type outR.value pR = none := rfl
theorem r_silent : C02.RSilent sc0 cfgR.type cfgR.value pR := by
  refine ⟨rfl, ?_⟩
  intro q hq hne x hx
  by_cases h0 : q = []
  · subst h0
    cases hx
    exact ⟨rfl, by intro h; cases h⟩
  · have hm := mem_prefixes_of_isPrefix pR q hq h0
    simp only [pR, C15.prefixes, List.map_cons, List.map_nil, List.mem_cons, List.not_mem_nil, or_false] at hm
    rcases hm with rfl | rfl | rfl
    · cases hx
    · cases hx
    · exact absurd rfl hne
theorem r_descends : mergeDescends sc0 liveR.type liveR.value cfgR.value pR = true := by decide
theorem r_no_index : ∀ pe ∈ pR, PE.isIndex pe = false := by
  intro pe hpe
  simp only [pR, List.mem_cons, List.not_mem_nil, or_false] at hpe
  rcases hpe with rfl | rfl | rfl <;> rfl
theorem r_atomic : throughAtomic sc0 liveR.type liveR.value pR = false := by decide
theorem r_nkd : nkdOn sc0 liveR.type liveR.value pR = true := by decide
theorem r_keys_live : keysScalar sc0 liveR.type liveR.value = true := by decide
theorem r_keys_cfg : keysScalar sc0 cfgR.type cfgR.value = true := by decide

/-! ### non-vacuity of the re-proved laws: the world of finding D11 (`SMD/Proofs/FindingWorlds.lean`)

a1 applied `{l: [{name: c, sub: [0]}]}`; u1 owns the item, its key field and the member `1` it added to
`sub`; a1 re-applies `{l: [{name: c}]}` at the version of every record: `0`, which a1 abandons and nobody
owns, is pruned; u1's `1` keeps its value. -/

open FW in
/-- u1 owns `.l[name=c]`, `.l[name=c].name` and `.l[name=c].sub[=1]` -/
def setU : SetTrie := ofPaths [[.field "l", FW.keyC], [.field "l", FW.keyC, .field "name"], pathSub1]
open FW in
def vsU : VersionedSet := ⟨setU, "v1", false⟩
open FW in
/-- the records before the re-apply -/
def nvBefore2 : Managed := [("a1", ⟨setSub0, "v1", true⟩), ("u1", vsU)]
open FW in
/-- the records after it -/
def nvAfter2 : Managed := [("a1", ⟨setBare, "v1", true⟩), ("u1", vsU)]
/-- the path `.l[name=c].sub[=0]` a1 abandons -/
def pathSub0 : Path := [.field "l", FW.keyC, .field "sub", .value (.int 0)]

open FW in
theorem nv2_reconcile : reconcileManaged plain sc (tv objSub01) nvBefore2 = .ok nvBefore2 := by
  kernel_refl
open FW in
theorem nv2_apply : apply plain sc (tv objSub01) (tv cfgBare) "v1" nvBefore2 "a1" false =
    .ok (some (tv objSub1), nvAfter2) := by cx_eval_apply
theorem nv2_allAt : ∀ x ∈ nvBefore2, x.2.version = "v1" := by
  intro x hx
  simp only [nvBefore2, List.mem_cons, List.not_mem_nil, or_false] at hx
  rcases hx with rfl | rfl <;> rfl
theorem nv2_wf : ∀ x ∈ nvBefore2, x.2.set.wf = true := by
  intro x hx
  simp only [nvBefore2, List.mem_cons, List.not_mem_nil, or_false] at hx
  rcases hx with rfl | rfl <;> decide
theorem nv2_get : mfGet nvBefore2 "u1" = some vsU := rfl
open FW in
theorem nv2_owned : vsU.set.has pathSub1 = true := by with_unfolding_all rfl
theorem nv2_u_mem : ("u1", vsU) ∈ nvBefore2 := by simp [nvBefore2]
open FW in
theorem nv2_way : ∀ q, q <+: pathSub1 → q ≠ [] →
    ∃ r ∈ nvBefore2, r.1 ≠ "a1" ∧ (r.2.set.ensureNamed sc (tv objSub01).type).has q = true := by
  intro q hq hne
  have hm := mem_prefixes_of_isPrefix pathSub1 q hq hne
  have hall : (C15.prefixes pathSub1).all (fun r => (vsU.set.ensureNamed sc (tv objSub01).type).has r) = true := by
    with_unfolding_all rfl
  exact ⟨("u1", vsU), nv2_u_mem, by decide, List.all_eq_true.1 hall q hm⟩
open FW in
theorem nv2_keys : ∀ q ∈ keyFieldPaths pathSub1,
    ∃ r ∈ nvBefore2, r.1 ≠ "a1" ∧ (r.2.set.ensureNamed sc (tv objSub01).type).has q = true := by
  intro q hq
  have hall : (keyFieldPaths pathSub1).all (fun r => (vsU.set.ensureNamed sc (tv objSub01).type).has r) = true := by
    with_unfolding_all rfl
  exact ⟨("u1", vsU), nv2_u_mem, by decide, List.all_eq_true.1 hall q hq⟩
open FW in
theorem nv2_silent : C02.RSilent sc (tv cfgBare).type (tv cfgBare).value pathSub1 := by
  refine ⟨by with_unfolding_all rfl, ?_⟩
  intro q hq hne x hx
  by_cases h0 : q = []
  · subst h0
    cases hx
    exact ⟨rfl, by intro h; cases h⟩
  · have hm := mem_prefixes_of_isPrefix pathSub1 q hq h0
    simp only [pathSub1, C15.prefixes, List.map_cons, List.map_nil, List.mem_cons, List.not_mem_nil, or_false] at hm
    rcases hm with rfl | rfl | rfl | rfl
    · have h1 : Nodes.valueAt sc (tv cfgBare).type (tv cfgBare).value [PE.field "l"] =
          some (.list [.map [("name", .str "c")]]) := by with_unfolding_all rfl
      rw [h1] at hx
      cases hx
      exact ⟨rfl, by intro h; cases h⟩
    · have h1 : Nodes.valueAt sc (tv cfgBare).type (tv cfgBare).value [PE.field "l", FW.keyC] =
          some (.map [("name", .str "c")]) := by with_unfolding_all rfl
      rw [h1] at hx
      cases hx
      exact ⟨rfl, by intro h; cases h⟩
    · have h1 : Nodes.valueAt sc (tv cfgBare).type (tv cfgBare).value [PE.field "l", FW.keyC, PE.field "sub"] =
          none := by with_unfolding_all rfl
      rw [h1] at hx
      cases hx
    · exact absurd rfl hne
open FW in
theorem nv2_descends :
    mergeDescends sc (tv objSub01).type (tv objSub01).value (tv cfgBare).value pathSub1 = true := by
  with_unfolding_all rfl

/-! the member `.l[name=c].sub[=0]` a1 abandons -/

open FW in
theorem nv_sub0_last : nvLast.set.has pathSub0 = true := by with_unfolding_all rfl
open FW in
theorem nv_sub0_nobody : ∀ r ∈ nvManagers, (r.2.set.ensureNamed sc (tv objSub01).type).has pathSub0 = false := by
  intro x hx
  simp only [nvManagers, List.mem_cons, List.not_mem_nil, or_false] at hx
  rcases hx with rfl | rfl <;> with_unfolding_all rfl
open FW in
theorem nv_sub0_at_merged : Nodes.valueAt sc (tv objSub01).type (tv objSub01).value pathSub0 = some (.int 0) := by
  with_unfolding_all rfl
open FW in
theorem nv_sub0_at_out : Nodes.valueAt sc (tv objSub1).type (tv objSub1).value pathSub0 = none := by
  with_unfolding_all rfl
theorem nv_sub0_no_index : ∀ pe ∈ pathSub0, PE.isIndex pe = false := by
  intro pe hpe
  simp only [pathSub0, List.mem_cons, List.not_mem_nil, or_false] at hpe
  rcases hpe with rfl | rfl | rfl | rfl <;> rfl
open FW in
theorem nv_sub0_atomic : throughAtomic sc (tv objSub01).type (tv objSub01).value pathSub0 = false := by
  with_unfolding_all rfl
open FW in
theorem nv_sub0_nkd : nkdOn sc (tv objSub01).type (tv objSub01).value pathSub0 = true := by
  with_unfolding_all rfl
theorem nv_sub0_nokey : ∀ q ∈ keyFieldPaths pathSub0, q ≠ pathSub0 := by
  intro q hq he
  have hall : (keyFieldPaths pathSub0).all (fun r => r.length != 4) = true := by with_unfolding_all rfl
  have := List.all_eq_true.1 hall q hq
  rw [he] at this
  simp [pathSub0] at this

end SMD.CounterApplyFrame
