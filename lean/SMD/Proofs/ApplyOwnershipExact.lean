/- helper lemmas for SMD/Properties/C05Apply.lean -/
import SMD.Proofs.OwnershipExact
import SMD.Proofs.ApplyPrune
import SMD.Proofs.ConsistencyApply
import SMD.Proofs.ReapplyNoop
import SMD.Properties.C05Exact
namespace SMD
open SetTrie

/-! ### comparing two `Equals` values reports nothing (no validity needed) -/

namespace CmpEq
open CmpX NodeLaws

theorem listEqualValues_length : ∀ (a b : List Value), listEqualValues a b = true → a.length = b.length
  | [], [], _ => rfl
  | [], _ :: _, h => by simp [listEqualValues] at h
  | _ :: _, [], h => by simp [listEqualValues] at h
  | _ :: as, _ :: bs, h => by
    simp only [listEqualValues, Bool.and_eq_true] at h
    simp [listEqualValues_length as bs h.2]

theorem listEqualValues_head : ∀ (a b : List Value), listEqualValues a b = true → OptEq a.head? b.head?
  | [], [], _ => by simp [OptEq]
  | [], _ :: _, h => by simp [listEqualValues] at h
  | _ :: _, [], h => by simp [listEqualValues] at h
  | _ :: _, _ :: _, h => by
    simp only [listEqualValues, Bool.and_eq_true] at h
    simpa [OptEq] using h.1

theorem listEqualValues_snoc : ∀ (a b : List Value) (x y : Value), listEqualValues a b = true →
    Value.equals x y = true → listEqualValues (a ++ [x]) (b ++ [y]) = true
  | [], [], x, y, _, hxy => by simp [listEqualValues, hxy]
  | [], _ :: _, _, _, h, _ => by simp [listEqualValues] at h
  | _ :: _, [], _, _, h, _ => by simp [listEqualValues] at h
  | a :: as, b :: bs, x, y, h, hxy => by
    simp only [listEqualValues, Bool.and_eq_true] at h
    simp [listEqualValues, h.1, listEqualValues_snoc as bs x y h.2 hxy]

/-- the groups of two item lists agree: the same elements are present, with `Equals` items in order -/
def GroupRel (m m' : List (PE × List Value)) : Prop :=
  ∀ q, (pemGet q m).isSome = (pemGet q m').isSome ∧
    listEqualValues ((pemGet q m).getD []) ((pemGet q m').getD []) = true

theorem GroupRel.nil : GroupRel [] [] := by
  intro q; simp [pemGet, listEqualValues]

theorem GroupRel.insert {m m' : List (PE × List Value)} (h : GroupRel m m') {pe pe' : PE}
    (hpe : PE.equals pe pe' = true) {v v' : List Value} (hv : listEqualValues v v' = true) :
    GroupRel (pemInsert pe v m) (pemInsert pe' v' m') := by
  intro q
  rw [pemGet_pemInsert, pemGet_pemInsert, ← PE.equals_congr_left hpe q]
  split
  · exact ⟨rfl, hv⟩
  · exact h q

theorem groupItems_equals (s : Schema) (t : ListT) : ∀ (l l' : List Value), Value.equalsList l l' = true →
    ∀ (m m' : List (PE × List Value)) (o o' : List PE) (lv rv : List (PE × List Value)) (lo ro : List PE),
      GroupRel m m' → groupItems s t l m o = .ok (lv, lo) → groupItems s t l' m' o' = .ok (rv, ro) →
      GroupRel lv rv
  | [], [], _, m, m', o, o', lv, rv, lo, ro, hm, h1, h2 => by
    simp only [groupItems, Res.ok.injEq, Prod.mk.injEq] at h1 h2
    rw [← h1.1, ← h2.1]; exact hm
  | [], _ :: _, h, _, _, _, _, _, _, _, _, _, _, _ => by simp [Value.equalsList] at h
  | _ :: _, [], h, _, _, _, _, _, _, _, _, _, _, _ => by simp [Value.equalsList] at h
  | a :: as, b :: bs, h, m, m', o, o', lv, rv, lo, ro, hm, h1, h2 => by
    simp only [Value.equalsList, Bool.and_eq_true] at h
    have hpe := peOf_equals_congr s t a b h.1
    simp only [groupItems] at h1 h2
    cases ha : listItemToPE s t a with
    | err => simp [ha] at h1
    | panic => simp [ha] at h1
    | ok pe =>
      cases hb : listItemToPE s t b with
      | err => simp [hb] at h2
      | panic => simp [hb] at h2
      | ok pe' =>
        simp only [peOf, ha, hb] at hpe
        simp only [ha] at h1
        simp only [hb] at h2
        have hq := hm pe
        rw [pemGet_congr hpe m'] at hq
        cases hg : pemGet pe m with
        | none =>
          cases hg' : pemGet pe' m' with
          | none =>
            simp only [hg] at h1
            simp only [hg'] at h2
            exact groupItems_equals s t as bs h.2 _ _ _ _ lv rv lo ro
              (hm.insert hpe (by simp [listEqualValues, h.1])) h1 h2
          | some x => simp [hg, hg'] at hq
        | some lst =>
          cases hg' : pemGet pe' m' with
          | none => simp [hg, hg'] at hq
          | some lst' =>
            simp only [hg] at h1
            simp only [hg'] at h2
            rw [hg, hg'] at hq
            exact groupItems_equals s t as bs h.2 _ _ _ _ lv rv lo ro
              (hm.insert hpe (listEqualValues_snoc _ _ _ _ hq.2 h.1)) h1 h2

theorem cmpListStep_equals (rec : CmpRec) (t : ListT) (lv rv : List (PE × List Value)) (hrel : GroupRel lv rv)
    (hrec : ∀ x y tr c, OptEq x y → rec x y tr = .ok c → Cmp.Nil c) :
    ∀ acc pe, AccInv Cmp.Nil acc → AccInv Cmp.Nil (cmpListStep rec t lv rv acc pe) := by
  intro acc pe hacc c
  unfold cmpListStep
  split
  · next c0 =>
    have h0 := hacc c0 rfl
    simp only []
    have hLR := (hrel pe).2
    generalize (pemGet pe lv).getD [] = L at hLR
    generalize (pemGet pe rv).getD [] = R at hLR
    have hlen := listEqualValues_length L R hLR
    split
    · intro hc
      split at hc
      case h_2 hne => exact absurd hc (hne _)
      next ci hci =>
      cases hc
      exact Cmp.nil_closed.app h0
        (cmpItem_inv Cmp.nil_closed rec t pe _ _ (hrec _ _ _ · (listEqualValues_head L R hLR)) ci hci)
    · split
      · simp only [hLR, Bool.not_true, Bool.false_eq_true, if_false]
        intro hc; cases hc; exact h0
      · next h1 h2 => simp at h1 h2; omega
  · next hne => intro hc; exact absurd hc (by intro h'; exact hne _ h')

theorem leafCmp_equals {a b : Value} (h : Value.equals a b = true) : leafCmp (some a) (some b) = {} := by
  simp [leafCmp, Value.equals_symm b a, h]

theorem asList_equals {a b : Value} (h : Value.equals a b = true) :
    Value.equalsList ((asList (some a)).getD []) ((asList (some b)).getD []) = true := by
  cases a <;> cases b <;> simp [Value.equals] at h <;> simp [asList, Value.equalsList]
  exact h

theorem asMap_equals {a b : Value} (h : Value.equals a b = true) :
    Value.equalsFields ((asMap (some a)).getD []) ((asMap (some b)).getD []) = true := by
  cases a <;> cases b <;> simp [Value.equals] at h <;> simp [asMap, Value.equalsFields]
  exact h

theorem cmpHandle_equals (s : Schema) (rec : CmpRec)
    (hrec : ∀ x y tr c, OptEq x y → rec x y tr = .ok c → Cmp.Nil c) (a b : Value)
    (hab : Value.equals a b = true) (atom : Atom) (c : Cmp) (leaf : Bool) :
    cmpHandle s rec (some a) (some b) atom = .ok (c, leaf) → Cmp.Nil c := by
  unfold cmpHandle
  split
  · intro h; cases h
  · split
    · intro h; cases h
    · intro h; cases h; rw [leafCmp_equals hab]; exact Cmp.nil_closed.nil
  · next t ht =>
    simp only []
    split
    · intro h; cases h; rw [leafCmp_equals hab]; exact Cmp.nil_closed.nil
    · split
      · intro h; cases h
      · intro h; cases h
      · next lv lorder hg =>
        split
        · intro h; cases h
        · intro h; cases h
        · next rv rorder hg' =>
          intro h
          have hrel := groupItems_equals s t _ _ (asList_equals hab) _ _ _ _ _ _ _ _ GroupRel.nil hg hg'
          split at h
          · next c' hc' =>
            cases h
            exact foldl_inv (AccInv Cmp.Nil) _ (cmpListStep_equals rec t lv rv hrel hrec) _ _
              (AccInv.init Cmp.nil_closed) _ hc'
          · cases h
          · cases h
  · next t ht =>
    simp only []
    split
    · intro h; cases h; rw [leafCmp_equals hab]; exact Cmp.nil_closed.nil
    · intro h
      split at h
      · next c' hc' =>
        cases h
        exact foldl_inv (AccInv Cmp.Nil) _
          (cmpMapStep_inv Cmp.nil_closed rec t _ _
            (fun k c => hrec _ _ _ c (lookupField_equalsFields _ _ (asMap_equals hab) k))) _ _
          (AccInv.init Cmp.nil_closed) _ hc'
      · cases h
      · cases h

/-- comparing two `Equals` values (or two absent ones) reports nothing -/
theorem cmpNode_equals (s : Schema) : ∀ (fuel : Nat) (x y : Option Value) (tr : TypeRef) (c : Cmp),
    OptEq x y → cmpNode s fuel x y tr = .ok c → Cmp.Nil c := by
  intro fuel
  induction fuel with
  | zero => intro x y tr c _ h; cases h
  | succ n ih =>
    intro x y tr c hxy
    cases x with
    | none =>
      cases y with
      | none => rw [cmpNode_none_none]; intro h; cases h
      | some _ => cases hxy
    | some a =>
      cases y with
      | none => cases hxy
      | some b =>
        have hab : Value.equals a b = true := hxy
        rw [cmpNode_succ]
        simp only [Option.isNone_some, Bool.and_self, Bool.false_eq_true, if_false]
        split
        · split <;> (intro h; cases h)
        · next at_ ha =>
          have hh1 := cmpHandle_equals s (cmpNode s n) ih a b hab (deduceAtom at_ (some a))
          have hh2 := cmpHandle_equals s (cmpNode s n) ih a b hab (deduceAtom at_ (some b))
          unfold cmpHandled cmpFinish
          simp only [Option.isNone_some, Bool.false_eq_true, if_false, Bool.false_or]
          generalize cmpHandle s (cmpNode s n) (some a) (some b) (deduceAtom at_ (some a)) = H1 at hh1
          generalize cmpHandle s (cmpNode s n) (some a) (some b) (deduceAtom at_ (some b)) = H2 at hh2
          split
          · next c0 leaf hhd =>
            have hc0 : Cmp.Nil c0 := by
              split at hhd
              · exact hh2 _ _ hhd
              · cases H1 with
                | ok p1 =>
                  cases H2 with
                  | ok p2 =>
                    obtain ⟨c1, l1⟩ := p1
                    obtain ⟨c2, l2⟩ := p2
                    simp only [Res.ok.injEq, Prod.mk.injEq] at hhd
                    obtain ⟨rfl, rfl⟩ := hhd
                    exact Cmp.nil_closed.app (hh1 _ _ rfl) (hh2 _ _ rfl)
                  | err => cases hhd
                  | panic => cases hhd
                | err => cases hhd
                | panic => cases hhd
            split <;> (intro h; cases h; exact hc0)
          · intro h; cases h
          · intro h; cases h

/-- comparing two `Equals` objects reports nothing (no validity hypothesis) -/
theorem compareTV_isSame_of_equals' (s : Schema) (l r : TV) (c : Comparison)
    (h : compareTV s l r = .ok c) (heq : Value.equals l.value r.value = true) : c.isSame = true := by
  obtain ⟨_, c0, hc0, rfl⟩ := compareTV_inv s l r c h
  obtain ⟨h1, h2, h3⟩ := cmpNode_equals s _ (some l.value) (some r.value) _ c0 heq hc0
  rw [h1, h2, h3]
  rfl

end CmpEq

/-! ### the manager loop at the end of an apply -/

/-- the managed fields the manager loop of an apply starts from: sorted, well formed, and the records of
the managers other than the applier are those of the reconciled managed fields -/
theorem apply_loop_input {u : Updater} {m : Managed} {mgr ver : String} {fs : SetTrie}
    (hig : ∀ v, u.ignore v = none) (hsorted : SortedManaged m) (hwf : ∀ x ∈ m, x.2.set.wf = true)
    (hfs : fs.wf = true) :
    SortedManaged (mfSet m mgr ⟨applyIgnore u ver fs, ver, true⟩) ∧
    (∀ x ∈ mfSet m mgr ⟨applyIgnore u ver fs, ver, true⟩, x.2.set.wf = true) ∧
    ∀ k, k ≠ mgr → mfGet (mfSet m mgr ⟨applyIgnore u ver fs, ver, true⟩) k = mfGet m k := by
  have hig' : applyIgnore u ver fs = fs := by simp [applyIgnore, hig]
  rw [hig']
  refine ⟨sortedManaged_mfSet _ _ hsorted, ?_, fun k hk => mfGet_mfSet_ne hk _ _⟩
  intro x hx
  rcases mem_mfSet hx with rfl | hx
  · exact hfs
  · exact hwf x hx

/-- the Apply twin of `update_others_exact` -/
theorem apply_others_exact {u : Updater} {sc : Schema} {live cfg obj : TV} {ver : String}
    {m : Managed} {mgr : String} {force : Bool} {mf : Managed} {cmp : Comparison} {k : String}
    {vs : VersionedSet} (p : Path)
    (hconv : u.converter = Converter.identity) (hig : ∀ v, u.ignore v = none)
    (hrec : reconcileManaged u sc live m = .ok m)
    (hsorted : SortedManaged m) (hwf : ∀ x ∈ m, x.2.set.wf = true)
    (hap : apply u sc live cfg ver m mgr force = .ok (some obj, mf))
    (hcmp : compareTV sc live obj = .ok cmp)
    (hk : k ≠ mgr) (hvs : mfGet m k = some vs) :
    ((∃ vs', mfGet mf k = some vs' ∧ vs'.set.has p = true) ↔
      (vs.set.has p = true ∧ cmp.modified.has p = false ∧ cmp.added.has p = false ∧ cmp.removed.has p = false)) := by
  obtain ⟨m0, merged, fs, newObj, cmp', hrec', _, hfs, _, hcore, hobj⟩ := apply_full_inv hap
  rw [hrec] at hrec'
  simp only [Outcome.ok.injEq] at hrec'
  subst hrec'
  have hon : obj = newObj := by
    rcases hobj with h | ⟨h, _⟩
    · exact Option.some.inj h
    · cases h
  subst hon
  have hcore' : updateCore u sc live obj ver (mfSet m mgr ⟨applyIgnore u ver fs, ver, true⟩) mgr true =
      .ok (mf, cmp') := by
    cases force with
    | true => exact hcore
    | false => exact updateCore_false_ok _ _ _ _ _ _ _ _ hcore
  obtain ⟨hs1, hw1, hget⟩ := apply_loop_input (mgr := mgr) (ver := ver) hig hsorted hwf (toFieldSet_wf hfs)
  obtain ⟨_, wm, wa⟩ := compareTV_wf hcmp
  exact (updateCore_forced_other_exact p hconv (fun v => by rw [hig]; rfl) hcmp wm wa hs1 hw1 hcore' hk
    (by rw [hget k hk]; exact hvs)).2

/-- an apply that returns no object leaves the records of the other managers untouched -/
theorem apply_noop_other_get {u : Updater} {sc : Schema} {live cfg : TV} {ver : String}
    {m : Managed} {mgr : String} {force : Bool} {mf : Managed} {k : String} {vs : VersionedSet}
    (hconv : u.converter = Converter.identity) (hig : ∀ v, u.ignore v = none)
    (hrec : reconcileManaged u sc live m = .ok m)
    (hsorted : SortedManaged m) (hwf : ∀ x ∈ m, x.2.set.wf = true)
    (hne : ∀ x ∈ m, x.2.set.isEmpty = false)
    (hap : apply u sc live cfg ver m mgr force = .ok (none, mf))
    (hk : k ≠ mgr) (hvs : mfGet m k = some vs) :
    mfGet mf k = some vs := by
  obtain ⟨m0, merged, fs, newObj, cmp', hrec', _, hfs, _, hcore, hobj⟩ := apply_full_inv hap
  rw [hrec] at hrec'
  simp only [Outcome.ok.injEq] at hrec'
  subst hrec'
  have heq : Value.equals live.value newObj.value = true := by
    rcases hobj with h | ⟨_, h⟩
    · cases h
    · exact h
  have hcore' : updateCore u sc live newObj ver (mfSet m mgr ⟨applyIgnore u ver fs, ver, true⟩) mgr true =
      .ok (mf, cmp') := by
    cases force with
    | true => exact hcore
    | false => exact updateCore_false_ok _ _ _ _ _ _ _ _ hcore
  obtain ⟨hs1, hw1, hget⟩ := apply_loop_input (mgr := mgr) (ver := ver) hig hsorted hwf (toFieldSet_wf hfs)
  obtain ⟨⟨cmp0, hcmp, _⟩, _⟩ := updateCore_ok hcore'
  have hsame := CmpEq.compareTV_isSame_of_equals' sc live newObj cmp0 hcmp heq
  simp only [Comparison.isSame, Bool.and_eq_true] at hsame
  obtain ⟨_, wm, wa⟩ := compareTV_wf hcmp
  rw [updateCore_identity_forced u sc live newObj ver _ mgr cmp0 cmp0 hconv (fun v => by rw [hig]; rfl) hcmp,
    conflictRecords_nil_of_empty mgr hw1 wm wa hsame.1.2 hsame.2,
    removedRecords_nil_of_empty mgr _ hsame.1.1, subSets_nil, subSets_nil] at hcore'
  simp only [Outcome.ok.injEq, Prod.mk.injEq] at hcore'
  rw [← hcore'.1, mfGet_filter_of_nodup (sortedManaged_nodup hs1), hget k hk, hvs]
  simp [hne _ (mem_of_mfGet hvs)]

end SMD
