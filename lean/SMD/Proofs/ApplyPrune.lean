/-
`apply` with every record at one version under the identity converter: the configuration's leaves
survive the pruning of what the applier abandoned (helper lemmas for `SMD/Properties/C03Prune.lean`).
-/
import SMD.Proofs.PruneLaws
import SMD.Proofs.HistoryInvariants
import SMD.Proofs.MergeValidTV
set_option linter.unusedSimpArgs false
set_option linter.unusedVariables false
set_option linter.unnecessarySimpa false
namespace SMD
open NodeLaws SetTrie

/-! ### two objects with a node at the same path have the same types on the way -/

theorem path_shape_transfer (s : Schema) : ∀ (p : Path) (tr : TypeRef) (v v' x x' : Value),
    (∀ pe ∈ p, PE.isIndex pe = false) → Nodes.valueAt s tr v p = some x → Nodes.valueAt s tr v' p = some x' →
    throughAtomic s tr v p = throughAtomic s tr v' p ∧ nkdOn s tr v p = nkdOn s tr v' p
  | [], _, _, _, _, _, _, _, _ => ⟨rfl, rfl⟩
  | pe :: rest, tr, v, v', x, x', hni, hx, hx' => by
    have hpe : PE.isIndex pe = false := hni pe List.mem_cons_self
    have hni' : ∀ pe' ∈ rest, PE.isIndex pe' = false := fun pe' h => hni pe' (List.mem_cons_of_mem _ h)
    rw [valueAt_cons] at hx hx'
    cases hc : Nodes.childAt s tr v pe with
    | none => simp [hc] at hx
    | some c1 =>
      cases hc' : Nodes.childAt s tr v' pe with
      | none => simp [hc'] at hx'
      | some c2 =>
        obtain ⟨tr1, v1⟩ := c1
        obtain ⟨tr2, v2⟩ := c2
        simp only [hc] at hx
        simp only [hc'] at hx'
        obtain ⟨a, hres, hcase⟩ := childAt_some s tr v pe tr1 v1 hpe hc
        obtain ⟨a', hres', hcase'⟩ := childAt_some s tr v' pe tr2 v2 hpe hc'
        rw [hres] at hres'; cases hres'
        have key : tr1 = tr2 ∧ atomicNode s tr v = atomicNode s tr v' ∧
            nkdHead s tr v = nkdHead s tr v' := by
          rcases hcase with ⟨mt, m, k, hmap, rfl, rfl, _, rfl⟩ | ⟨lt, l, hlist, rfl, hitem, rfl⟩
          · rcases hcase' with ⟨mt', m', k', hmap', rfl, hk, _, rfl⟩ | ⟨lt', l', hlist', rfl, hitem', rfl⟩
            · cases hk
              rw [hmap] at hmap'; cases hmap'
              exact ⟨rfl, by simp [atomicNode, hres, hmap], by simp [nkdHead, hres]⟩
            · exfalso
              obtain ⟨_, _, _, id, hid, he⟩ := itemAt_some s lt' _ l' v2 hitem'
              rw [identity_not_field s lt' v2 id _ hid] at he
              cases he
          · rcases hcase' with ⟨mt', m', k', hmap', rfl, rfl, _, rfl⟩ | ⟨lt', l', hlist', rfl, hitem', rfl⟩
            · exfalso
              obtain ⟨_, _, _, id, hid, he⟩ := itemAt_some s lt _ l v1 hitem
              rw [identity_not_field s lt v1 id _ hid] at he
              cases he
            · rw [hlist] at hlist'; cases hlist'
              exact ⟨rfl, by simp [atomicNode, hres, hlist], by simp [nkdHead, hres, hlist]⟩
        obtain ⟨rfl, hat, hnk⟩ := key
        obtain ⟨ih1, ih2⟩ := path_shape_transfer s rest tr1 v1 v2 x x' hni' hx hx'
        constructor
        · rw [throughAtomic, throughAtomic, hc, hc', hat]
          simp only [ih1]
        · simp only [nkdOn, hc, hc', ih2, hnk]

/-! ### the reconcile step keeps versions -/

theorem reconcileManaged_version {u : Updater} {sc : Schema} {live : TV} : ∀ {m m0 : Managed},
    reconcileManaged u sc live m = .ok m0 → ∀ x ∈ m0, ∃ y ∈ m, x.2.version = y.2.version := by
  intro m
  induction m with
  | nil => intro m0 h; simp only [reconcileManaged, Outcome.ok.injEq] at h; subst h; simp
  | cons y m ih =>
    intro m0 h
    obtain ⟨k, vs⟩ := y
    simp only [reconcileManaged] at h
    have tl : ∀ {m0}, reconcileManaged u sc live m = .ok m0 → ∀ x ∈ m0, ∃ y ∈ (k, vs) :: m,
        x.2.version = y.2.version := by
      intro m0 h x hx
      obtain ⟨y, hy, h1⟩ := ih h x hx
      exact ⟨y, by simp [hy], h1⟩
    split at h
    · exact tl h
    · cases h
    · split at h
      · cases h
      · cases h
      · rename_i tv _ _ r hr
        split at h
        · rename_i tail ht
          simp only [Outcome.ok.injEq] at h
          subst h
          intro x hx
          rcases List.mem_cons.1 hx with rfl | hx
          · refine ⟨(k, vs), by simp, ?_⟩
            cases r <;> rfl
          · exact tl ht x hx
        · rename_i e he
          exact absurd h (he m0)

/-! ### what a successful `apply` that returns an object did -/

theorem apply_some_inv {u : Updater} {sc : Schema} {live cfg : TV} {ver : String} {m : Managed} {mgr : String}
    {force : Bool} {obj : TV} {mf : Managed}
    (h : apply u sc live cfg ver m mgr force = .ok (some obj, mf)) :
    ∃ m0 merged fs, reconcileManaged u sc live m = .ok m0 ∧ mergeTV sc live cfg = .ok merged ∧
      toFieldSet sc cfg = .ok fs ∧
      prune u sc merged (mfSet m0 mgr ⟨applyIgnore u ver fs, ver, true⟩) mgr (mfGet m0 mgr) = .ok obj := by
  rw [apply_eq] at h
  unfold applyPre at h
  cases hrec : reconcileManaged u sc live m with
  | ok m0 =>
    simp only [hrec] at h
    cases hm : mergeTV sc live cfg with
    | ok merged =>
      cases hfs : toFieldSet sc cfg with
      | ok fs =>
        simp only [hm, hfs, liftRes] at h
        cases hp : prune u sc merged (mfSet m0 mgr ⟨applyIgnore u ver fs, ver, true⟩) mgr (mfGet m0 mgr) with
        | ok newObj =>
          simp only [hp] at h
          obtain ⟨ms, cmp, _, hr⟩ := applyFinish_eq_ok h
          have h1 := congrArg Prod.fst hr
          simp only at h1
          split at h1
          · cases h1
          · cases h1
            exact ⟨m0, merged, fs, rfl, rfl, rfl, hp⟩
        | conflict c => simp [hp] at h
        | err => simp [hp] at h
        | panic => simp [hp] at h
      | err => simp [hm, hfs, liftRes] at h
      | panic => simp [hm, hfs, liftRes] at h
    | err => simp [hm, liftRes] at h
    | panic => simp [hm, liftRes] at h
  | conflict c => simp [hrec] at h
  | err => simp [hrec] at h
  | panic => simp [hrec] at h

theorem mergeTV_inv {sc : Schema} {live cfg merged : TV} (h : mergeTV sc live cfg = .ok merged) :
    ∃ out, mergeNode sc (live.value.depth + cfg.value.depth + 2) (some live.value) (some cfg.value) live.type =
      .ok (some out) ∧ merged = ⟨out, live.type⟩ := by
  unfold mergeTV at h
  split at h
  · cases h
  · cases hn : mergeNode sc (live.value.depth + cfg.value.depth + 2) (some live.value) (some cfg.value) live.type with
    | ok o' =>
      rw [hn] at h
      simp only [Res.ok.injEq] at h
      have hs := mergeNode_isSome sc _ _ _ _ _ hn
      cases o' with
      | none => cases hs
      | some out => exact ⟨out, rfl, h.symm⟩
    | err => rw [hn] at h; cases h
    | panic => rw [hn] at h; cases h

/-- single version, identity converter: pruning keeps the type -/
theorem prune_single_type (u : Updater) (sc : Schema) (merged out : TV) (managers : Managed) (mgr : String)
    (last : VersionedSet) (v : String)
    (hconv : u.converter = Converter.identity)
    (hall : ∀ x ∈ managers, x.2.version = v) (hlast : last.version = v)
    (hprune : prune u sc merged managers mgr (some last) = .ok out) : out.type = merged.type := by
  rcases prune_single_inv u sc merged out managers mgr last v hconv hall hlast hprune with rfl | h
  · rfl
  · obtain ⟨ms, pr, ps, _, _, rfl, _⟩ := h
    rfl

/-- the closed field set of a validated object contains every prefix of a path to a scalar and every
key field of an item on the way -/
theorem closed_fieldset_has {sc : Schema} {tv : TV} {p : Path} {trx : TypeRef} {x : Value} {fs : SetTrie}
    (hal : Along sc tv.type tv.value p trx x) (hv : validateV sc true tv.type tv.value = .ok ())
    (hks : keysScalar sc tv.type tv.value = true) (hxs : x.isScalar = true)
    (hfs : toFieldSet sc tv = .ok fs) :
    (∀ q ∈ C15.prefixes p, (fs.ensureNamed sc tv.type).has q = true) ∧
    (∀ q ∈ keyPaths p, (fs.ensureNamed sc tv.type).has q = true) := by
  obtain ⟨ps, hps, rfl⟩ := toFieldSet_inv hfs
  constructor
  · exact hal.closed_has hps (fsV_scalar (hal.valid hv) hxs)
  · intro q hq
    obtain ⟨trq, y, halq, hys⟩ := hal.keyPath hxs hv hks q hq
    exact halq.closed_has hps (fsV_scalar (halq.valid hv) hys) q
      (self_mem_prefixes q (keyPaths_ne_nil p q hq))

/-- C01 for every apply (single version, no ignore configuration), for the scalar leaves of the
configuration, relative to the validity of the merged object -/
theorem apply_config_takes_effect_leaf (u : Updater) (sc : Schema) (live cfg : TV) (v : String) (m : Managed)
    (mgr : String) (force : Bool) (obj : TV) (mf : Managed) (p : Path) (x : Value)
    (hconv : u.converter = Converter.identity) (hig : ∀ w, u.ignore w = none)
    (hall : ∀ r ∈ m, r.2.version = v) (htype : live.type = cfg.type)
    (hl : validateV sc false live.type live.value = .ok ()) (hr : validateV sc false cfg.type cfg.value = .ok ())
    (happly : apply u sc live cfg v m mgr force = .ok (some obj, mf))
    (hx : Nodes.valueAt sc cfg.type cfg.value p = some x) (hleaf : x.isScalar = true)
    (hni : ∀ pe ∈ p, PE.isIndex pe = false)
    (hkl : keysScalar sc live.type live.value = true) (hkr : keysScalar sc cfg.type cfg.value = true)
    (hmwf : ∀ r ∈ m, r.2.set.wf = true)
    (hmerged : ∀ merged, mergeTV sc live cfg = .ok merged →
      validateV sc false merged.type merged.value = .ok () ∧ keysScalar sc merged.type merged.value = true)
    (hatomic : throughAtomic sc cfg.type cfg.value p = false)
    (hnd : nkdOn sc cfg.type cfg.value p = true) :
    Nodes.valueAt sc cfg.type obj.value p = some x := by
  obtain ⟨m0, merged, fs, hrec, hm, hfs, hp⟩ := apply_some_inv happly
  have hai : applyIgnore u v fs = fs := by simp [applyIgnore, hig]
  rw [hai] at hp
  obtain ⟨hmv, hmks⟩ := hmerged merged hm
  obtain ⟨out, hmn, rfl⟩ := mergeTV_inv hm
  obtain ⟨lv, lt⟩ := live
  obtain ⟨cv, ct⟩ := cfg
  simp only at htype hl hr hx hkl hkr hatomic hnd hmn hmv hmks hp ⊢
  subst htype
  -- the leaf is in the merged object
  have hxm : Nodes.valueAt sc lt out p = some x :=
    (right_wins_aux sc p lt (some lv) cv out _ x hr
      (.inr ⟨hni, fun l' h' => by cases h'; exact hkl, hkr⟩) hmn hx).2 hleaf
  cases hlast : mfGet m0 mgr with
  | none =>
    rw [hlast, prune_none] at hp
    cases hp
    exact hxm
  | some last =>
    rw [hlast] at hp
    obtain ⟨hta, hnk⟩ := path_shape_transfer sc p lt cv out x x hni hx hxm
    have hlmem : (mgr, last) ∈ m0 := mem_of_mfGet hlast
    have hlv : last.version = v := by
      obtain ⟨y, hy, he⟩ := reconcileManaged_version hrec _ hlmem
      rw [he]; exact hall y hy
    have hwf0 := reconcileManaged_wf hrec hmwf
    have hlwf : last.set.wf = true := hwf0 _ hlmem
    have hall' : ∀ r ∈ mfSet m0 mgr ⟨fs, v, true⟩, r.2.version = v := by
      intro r hr'
      rcases mem_mfSet hr' with rfl | hr'
      · rfl
      · obtain ⟨y, hy, he⟩ := reconcileManaged_version hrec _ hr'
        rw [he]; exact hall y hy
    have hwf' : ∀ r ∈ mfSet m0 mgr ⟨fs, v, true⟩, r.2.set.wf = true := by
      intro r hr'
      rcases mem_mfSet hr' with rfl | hr'
      · exact toFieldSet_wf hfs
      · exact hwf0 _ hr'
    have hnew : (mgr, (⟨fs, v, true⟩ : VersionedSet)) ∈ mfSet m0 mgr ⟨fs, v, true⟩ :=
      mem_of_mfGet (mfGet_mfSet_self m0 mgr _)
    -- the configuration's closed field set contains the way to the leaf
    obtain ⟨trx, halc⟩ := along_of_valueAt sc p lt cv x hr (notIndex_of_isIndex_false hni) hatomic hnd hx
    obtain ⟨hc1, hc2⟩ := closed_fieldset_has (tv := ⟨cv, lt⟩) halc (validateV_true_of_false' sc _ _ hr) hkr hleaf hfs
    have hty := prune_single_type u sc ⟨out, lt⟩ obj _ mgr last v hconv hall' hlv hp
    have := prune_keeps_owned_leaf u sc ⟨out, lt⟩ obj _ mgr last v p x hconv hall' hlv hmv hp hxm hwf' hlwf
      (fun q hq hne => ⟨_, hnew, hc1 q (mem_prefixes_of_isPrefix p q hq hne)⟩)
      (fun q hq => ⟨_, hnew, hc2 q hq⟩) hni (by rw [← hta]; exact hatomic) (by rw [← hnk]; exact hnd) hmks hleaf
    rw [hty] at this
    exact this

/-- C01 for every apply (single version, no ignore configuration), for the scalar leaves of the
configuration -/
theorem apply_config_takes_effect_leaf' (u : Updater) (sc : Schema) (live cfg : TV) (v : String) (m : Managed)
    (mgr : String) (force : Bool) (obj : TV) (mf : Managed) (p : Path) (x : Value)
    (hconv : u.converter = Converter.identity) (hig : ∀ w, u.ignore w = none)
    (hall : ∀ r ∈ m, r.2.version = v) (htype : live.type = cfg.type)
    (hl : validateV sc false live.type live.value = .ok ()) (hr : validateV sc false cfg.type cfg.value = .ok ())
    (happly : apply u sc live cfg v m mgr force = .ok (some obj, mf))
    (hx : Nodes.valueAt sc cfg.type cfg.value p = some x) (hleaf : x.isScalar = true)
    (hni : ∀ pe ∈ p, PE.isIndex pe = false)
    (hkl : keysScalar sc live.type live.value = true) (hkr : keysScalar sc cfg.type cfg.value = true)
    (hmwf : ∀ r ∈ m, r.2.set.wf = true)
    (hatomic : throughAtomic sc cfg.type cfg.value p = false)
    (hnd : nkdOn sc cfg.type cfg.value p = true) :
    Nodes.valueAt sc cfg.type obj.value p = some x :=
  apply_config_takes_effect_leaf u sc live cfg v m mgr force obj mf p x hconv hig hall htype hl hr happly hx
    hleaf hni hkl hkr hmwf (fun merged hm => mergeTV_valid sc live cfg merged hl hr htype hkl hkr hm) hatomic hnd

end SMD
