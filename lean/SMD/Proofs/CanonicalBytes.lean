/- helper lemmas for SMD/Properties/C16Canonical.lean -/
import SMD.Proofs.StdCodec
import SMD.Proofs.SetAlgebra
import SMD.Properties.C15
import SMD.Properties.C16Std
namespace SMD

/-! ### plainly spelt numbers: ints, or non-integral floats without sign bit

`Value.equals` compares numbers numerically and ignores the `negz` bit of a float; on values whose
floats are never integral (so never equal to an int, never a zero) and carry `negz = false`
(the convention for non-zero floats) it is the identity. -/

mutual
def Value.plainNum : Value → Bool
  | .float u negz => u % scale != 0 && !negz
  | .list l => Value.plainNumList l
  | .map m => Value.plainNumFields m
  | _ => true
def Value.plainNumList : List Value → Bool
  | [] => true
  | v :: vs => Value.plainNum v && Value.plainNumList vs
def Value.plainNumFields : List (String × Value) → Bool
  | [] => true
  | (_, v) :: rest => Value.plainNum v && Value.plainNumFields rest
end

def PE.plainNum : PE → Bool
  | .key k => Value.plainNumFields k
  | .value v => Value.plainNum v
  | _ => true

theorem mul_scale_emod (i : Int) : (i * scale) % scale = 0 := Int.mul_emod_left i scale

mutual
theorem Value.eq_of_equals : ∀ v w : Value, v.plainNum = true → w.plainNum = true →
    Value.equals v w = true → v = w
  | .null, w, _, _, h => by cases w <;> simp_all [Value.equals]
  | .bool a, w, _, _, h => by cases w <;> simp_all [Value.equals]
  | .str a, w, _, _, h => by cases w <;> simp_all [Value.equals]
  | .int i, w, _, hw, h => by
    cases w <;> simp_all [Value.equals, Value.plainNum]
    exact hw.1 (h ▸ mul_scale_emod i)
  | .float u nz, w, hv, hw, h => by
    cases w <;> simp_all [Value.equals, Value.plainNum]
  | .list a, w, hv, hw, h => by
    cases w <;> simp_all [Value.equals, Value.plainNum]
    rename_i b
    exact Value.eq_of_equalsList a b hv hw h
  | .map a, w, hv, hw, h => by
    cases w <;> simp_all [Value.equals, Value.plainNum]
    rename_i b
    exact Value.eq_of_equalsFields a b hv hw h
theorem Value.eq_of_equalsList : ∀ a b : List Value, Value.plainNumList a = true →
    Value.plainNumList b = true → Value.equalsList a b = true → a = b
  | [], b, _, _, h => by cases b <;> simp_all [Value.equalsList]
  | x :: xs, [], _, _, h => by simp [Value.equalsList] at h
  | x :: xs, y :: ys, ha, hb, h => by
    simp only [Value.plainNumList, Value.equalsList, Bool.and_eq_true] at ha hb h
    rw [Value.eq_of_equals x y ha.1 hb.1 h.1, Value.eq_of_equalsList xs ys ha.2 hb.2 h.2]
theorem Value.eq_of_equalsFields : ∀ a b : List (String × Value), Value.plainNumFields a = true →
    Value.plainNumFields b = true → Value.equalsFields a b = true → a = b
  | [], b, _, _, h => by cases b <;> simp_all [Value.equalsFields]
  | x :: xs, [], _, _, h => by simp [Value.equalsFields] at h
  | (k, x) :: xs, (k', y) :: ys, ha, hb, h => by
    simp only [Value.plainNumFields, Value.equalsFields, Bool.and_eq_true, beq_iff_eq] at ha hb h
    rw [h.1.1, Value.eq_of_equals x y ha.1 hb.1 h.1.2, Value.eq_of_equalsFields xs ys ha.2 hb.2 h.2]
end

theorem PE.eq_of_equals (a b : PE) (ha : a.plainNum = true) (hb : b.plainNum = true)
    (h : PE.equals a b = true) : a = b := by
  cases a <;> cases b <;> simp_all [PE.equals, PE.plainNum]
  · exact Value.eq_of_equalsFields _ _ ha hb h
  · exact Value.eq_of_equals _ _ ha hb h

/-! ### `Set.Equals` is the identity on tries whose elements are identified by `PE.equals` -/

namespace SetTrie

theorem peEquals_eq {p : PE → Bool}
    (hp : ∀ a b, p a = true → p b = true → PE.equals a b = true → a = b) :
    ∀ m n : List PE, m.all p = true → n.all p = true → peEquals m n = true → m = n
  | [], n, _, _, h => by cases n <;> simp_all [peEquals]
  | x :: xs, [], _, _, h => by simp [peEquals] at h
  | x :: xs, y :: ys, hm, hn, h => by
    simp only [List.all_cons, peEquals, Bool.and_eq_true] at hm hn h
    rw [hp x y hm.1 hn.1 h.1, peEquals_eq hp xs ys hm.2 hn.2 h.2]

mutual
theorem eq_of_equals {p : PE → Bool}
    (hp : ∀ a b, p a = true → p b = true → PE.equals a b = true → a = b) :
    ∀ s t : SetTrie, allPE p s = true → allPE p t = true → equals s t = true → s = t
  | node m1 c1, node m2 c2, hs, ht, h => by
    simp only [allPE, equals, Bool.and_eq_true] at hs ht h
    rw [peEquals_eq hp m1 m2 hs.1 ht.1 h.1, eq_of_equalsChildren hp c1 c2 hs.2 ht.2 h.2]
theorem eq_of_equalsChildren {p : PE → Bool}
    (hp : ∀ a b, p a = true → p b = true → PE.equals a b = true → a = b) :
    ∀ c d : Children, allPEChildren p c = true → allPEChildren p d = true →
      equalsChildren c d = true → c = d
  | [], d, _, _, h => by cases d <;> simp_all [equalsChildren]
  | x :: xs, [], _, _, h => by simp [equalsChildren] at h
  | (x, s) :: xs, (y, t) :: ys, hc, hd, h => by
    simp only [allPEChildren, equalsChildren, Bool.and_eq_true] at hc hd h
    rw [hp x y hc.1.1 hd.1.1 h.1.1, eq_of_equals hp s t hc.1.2 hd.1.2 h.1.2,
      eq_of_equalsChildren hp xs ys hc.2 hd.2 h.2]
end

/-- canonical form: well-formed tries with the same members whose elements are identified by
`PE.equals` are the same trie -/
theorem eq_of_same_members {p : PE → Bool}
    (hp : ∀ a b, p a = true → p b = true → PE.equals a b = true → a = b)
    (s t : SetTrie) (hs : s.wf = true) (ht : t.wf = true)
    (hps : allPE p s = true) (hpt : allPE p t = true) (h : ∀ q, has q s = has q t) : s = t :=
  eq_of_equals hp s t hps hpt ((SetTrie.equals_iff_same_members s t hs ht).2 h)

end SetTrie

/-! ### the sign bit of a float changes the bytes, not the set -/

/-- finding D6: `+0.0` and `-0.0` as set-member values -/
def zeroTwinA : SetTrie := .node [.value (.float 0 false)] []
def zeroTwinB : SetTrie := .node [.value (.float 0 true)] []

theorem zeroTwins_differ :
    zeroTwinA.wf = true ∧ zeroTwinB.wf = true ∧ SetTrie.equals zeroTwinA zeroTwinB = true ∧
      Ser.toJSON zeroTwinA ≠ Ser.toJSON zeroTwinB := by
  refine ⟨by decide, by decide, by decide, ?_⟩
  have ha : Ser.toJSON zeroTwinA = some (.obj [("v:0", .obj [])]) := by
    simp [zeroTwinA, Ser.toJSON, Ser.toJSONWith, Ser.emitWith, Ser.emitMergeWith, Ser.stdCodec,
      Ser.serializePE, Ser.jsonValue, Ser.jsonFloat]
  have hb : Ser.toJSON zeroTwinB = some (.obj [("v:-0", .obj [])]) := by
    simp [zeroTwinB, Ser.toJSON, Ser.toJSONWith, Ser.emitWith, Ser.emitMergeWith, Ser.stdCodec,
      Ser.serializePE, Ser.jsonValue, Ser.jsonFloat]
  rw [ha, hb]
  simp

/-! ### why `plainNumbers` has to fix the sign bit of non-zero floats

The first draft of `C16.Value.plainNumbers` only asked `u % scale != 0` of a float.  The type
`Value` allows `.float 1 true` (a non-zero float with the zero-sign bit set, which `mkFloat` never
builds); it is `Value.equals` to `.float 1 false`, so the two one-member tries below are well formed,
have the same members, satisfy the draft side condition, and are different tries. -/

mutual
def Value.looseNum : Value → Bool
  | .float u _ => u % scale != 0
  | .list l => Value.looseNumList l
  | .map m => Value.looseNumFields m
  | _ => true
def Value.looseNumList : List Value → Bool
  | [] => true
  | v :: vs => Value.looseNum v && Value.looseNumList vs
def Value.looseNumFields : List (String × Value) → Bool
  | [] => true
  | (_, v) :: rest => Value.looseNum v && Value.looseNumFields rest
end

def PE.looseNum : PE → Bool
  | .key k => k.all fun f => Value.looseNum f.2
  | .value v => Value.looseNum v
  | _ => true

theorem one_lt_scale : 1 < scale := by
  have h : scale = 2 ^ 1073 * 2 := by unfold scale; rw [← Int.pow_succ]
  have hp : (0 : Int) < 2 ^ 1073 := Int.pow_pos (by decide)
  generalize (2 : Int) ^ 1073 = x at h hp
  omega

theorem one_emod_scale : (1 : Int) % scale = 1 :=
  Int.emod_eq_of_lt (by decide) one_lt_scale

def signTwinA : SetTrie := .node [.value (.float 1 true)] []
def signTwinB : SetTrie := .node [.value (.float 1 false)] []

theorem signTwins_loose_counterexample :
    signTwinA.wf = true ∧ signTwinB.wf = true ∧
      signTwinA.allPE (fun pe => PE.looseNum pe && pe.keySorted) = true ∧
      signTwinB.allPE (fun pe => PE.looseNum pe && pe.keySorted) = true ∧
      (∀ p, signTwinA.has p = signTwinB.has p) ∧ signTwinA ≠ signTwinB := by
  have hl : ∀ b, PE.looseNum (.value (.float 1 b)) = true := by
    intro b; simp [PE.looseNum, Value.looseNum, one_emod_scale]
  refine ⟨by decide, by decide, ?_, ?_, ?_, by simp [signTwinA, signTwinB]⟩
  · simp [signTwinA, SetTrie.allPE, SetTrie.allPEChildren, hl, PE.keySorted]
  · simp [signTwinB, SetTrie.allPE, SetTrie.allPEChildren, hl, PE.keySorted]
  · exact (SetTrie.equals_iff_same_members _ _ (by decide) (by decide)).1 (by decide)

end SMD
