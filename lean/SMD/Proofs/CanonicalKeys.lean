/- helper lemmas for SMD/Properties/C01Canonical.lean: canonical values (every map's entries strictly
ascending by key — what the wire format and Go maps give) instead of scalar key fields.

The identity of a merged list item is that of the operand items because merging a canonical key field with
nothing, or with an equal canonical key field, gives an equal value back (`merge_canon_left`,
`merge_canon_right`, `merge_canon_equal` in SMD/Proofs/MergeNodes.lean); the laws of C01 / C12 are proved
there and in SMD/Proofs/MergeValidCore.lean, MergeIdem.lean for operands whose keyed lists carry canonical key
fields (`keysCanon`), which both `keysScalar` and `canon` imply.  Here: the merge of canonical values is
canonical, and the bridge from `C12.canonical`. -/
import SMD.Proofs.MergeNodes
import SMD.Proofs.MergeValid
import SMD.Properties.C01
import SMD.Properties.C12Valid
import SMD.Proofs.MergeNodesCounterexamples
set_option linter.unusedSimpArgs false
set_option linter.unusedVariables false
namespace SMD
namespace CanonKeys

/-! ### `C12.canonical` coincides with its copy `canon` of `SMD.Proofs.MergeLaws` -/

theorem keysAscending_eq (m : List (String × Value)) : C12.keysAscending m = keysAsc m := by
  fun_induction C12.keysAscending m <;> simp_all [keysAsc]
mutual
theorem canonical_eq : ∀ v : Value, C12.canonical v = canon v
  | .list l => by simp [C12.canonical, canon, canonicalList_eq l]
  | .map m => by simp [C12.canonical, canon, canonicalFields_eq m, keysAscending_eq]
  | .null => rfl
  | .bool _ => rfl
  | .int _ => rfl
  | .float _ _ => rfl
  | .str _ => rfl
theorem canonicalList_eq : ∀ l : List Value, C12.canonicalList l = canonList l
  | [] => rfl
  | v :: vs => by simp [C12.canonicalList, canonList, canonical_eq v, canonicalList_eq vs]
theorem canonicalFields_eq : ∀ m : List (String × Value), C12.canonicalFields m = canonFields m
  | [] => rfl
  | (_, v) :: rest => by simp [C12.canonicalFields, canonFields, canonical_eq v, canonicalFields_eq rest]
end

/-! ### canonical lists and entry lists, member by member -/

theorem canonList_of_mem : ∀ l : List Value, (∀ c ∈ l, canon c = true) → canonList l = true
  | [], _ => rfl
  | v :: vs, h => by
    simp only [canonList, Bool.and_eq_true]
    exact ⟨h v List.mem_cons_self, canonList_of_mem vs (fun c hc => h c (List.mem_cons_of_mem _ hc))⟩

theorem canonFields_of_mem : ∀ m : List (String × Value), (∀ x ∈ m, canon x.2 = true) → canonFields m = true
  | [], _ => rfl
  | (k, v) :: rest, h => by
    simp only [canonFields, Bool.and_eq_true]
    exact ⟨h (k, v) List.mem_cons_self, canonFields_of_mem rest (fun c hc => h c (List.mem_cons_of_mem _ hc))⟩

theorem keysAsc_of_pairwise : ∀ m : List (String × Value), m.Pairwise (fun a b => a.1 < b.1) → keysAsc m = true
  | [], _ => rfl
  | [_], _ => rfl
  | (k, v) :: (k', v') :: rest, h => by
    rw [List.pairwise_cons] at h
    simp only [keysAsc, Bool.and_eq_true, decide_eq_true_eq]
    exact ⟨h.1 (k', v') List.mem_cons_self, keysAsc_of_pairwise _ h.2⟩

theorem insertField_pairwise (k : String) (v : Value) : ∀ m : List (String × Value),
    m.Pairwise (fun a b => a.1 < b.1) → (∀ x ∈ m, x.1 ≠ k) →
      (insertField (k, v) m).Pairwise (fun a b => a.1 < b.1)
  | [], _, _ => by simp [insertField]
  | x :: xs, h, hne => by
    rw [List.pairwise_cons] at h
    simp only [insertField]
    split
    · next hlt =>
      refine List.pairwise_cons.2 ⟨?_, List.pairwise_cons.2 h⟩
      intro b hb
      rcases List.mem_cons.1 hb with rfl | hb
      · exact hlt
      · exact String.lt_trans hlt (h.1 b hb)
    · next hlt =>
      refine List.pairwise_cons.2 ⟨?_, insertField_pairwise k v xs h.2 (fun y hy => hne y (List.mem_cons_of_mem _ hy))⟩
      intro b hb
      rcases (mem_insertField _ _ _).1 hb with rfl | hb
      · have := hne x List.mem_cons_self
        simp only [] at hlt ⊢
        grind
      · exact h.1 b hb

theorem canon_opt_asList (lo : Option Value) (h : ∀ l, lo = some l → canon l = true) :
    canonList ((asList lo).getD []) = true := by
  cases lo with
  | none => rfl
  | some v => exact canonList_asList v (h v rfl)

theorem canon_opt_asMap (lo : Option Value) (h : ∀ l, lo = some l → canon l = true) :
    keysAsc ((asMap lo).getD []) = true ∧ canonFields ((asMap lo).getD []) = true := by
  cases lo with
  | none => exact ⟨rfl, rfl⟩
  | some v => exact canon_asMap v (h v rfl)

theorem canon_lookupField (m : List (String × Value)) (h : canonFields m = true) (k : String) :
    ∀ v, lookupField k m = some v → canon v = true :=
  fun v hv => canonFields_mem m h (k, v) (mn_lookupField_mem k v m hv)

/-- the keys of the zip of two entry lists without repeated keys are pairwise different -/
theorem zipKeys_nodup (lf rf : List (String × Value)) (hl : lf.Pairwise (fun a b => a.1 < b.1))
    (hr : rf.Pairwise (fun a b => a.1 < b.1)) : (zipKeys lf rf).Pairwise (· ≠ ·) := by
  have hne : ∀ {a b : String × Value}, a.1 < b.1 → a.1 ≠ b.1 := by
    intro a b h he
    rw [he] at h
    exact String.lt_irrefl _ h
  unfold zipKeys
  rw [List.pairwise_append]
  refine ⟨?_, ?_, ?_⟩
  · rw [List.pairwise_map]; exact hl.imp hne
  · rw [List.pairwise_map]; exact (hr.imp hne).filter _
  · intro a ha b hb he
    subst he
    obtain ⟨x, hx, rfl⟩ := List.mem_map.1 hb
    have hx2 := (List.mem_filter.1 hx).2
    rw [← lookupField_isSome_iff] at ha
    cases hl' : lookupField x.1 lf <;> simp_all

/-- the fold over pairwise different keys builds a strictly ascending entry list of canonical values -/
theorem foldl_mergeMapStep_canon (rec : MergeRec) (t : MapT) (lf rf : List (String × Value))
    (hrec : ∀ k v, rec (lookupField k lf) (lookupField k rf) (fieldType t k) = .ok (some v) → canon v = true) :
    ∀ (ks : List String) (acc outm : List (String × Value)), ks.Pairwise (· ≠ ·) →
      (∀ x ∈ acc, x.1 ∉ ks) → acc.Pairwise (fun a b => a.1 < b.1) → (∀ x ∈ acc, canon x.2 = true) →
      List.foldl (mergeMapStep rec t lf rf) (.ok acc) ks = .ok outm →
      outm.Pairwise (fun a b => a.1 < b.1) ∧ ∀ x ∈ outm, canon x.2 = true
  | [], acc, outm, _, _, hp, hc, h => by
    simp only [List.foldl_nil, Res.ok.injEq] at h
    subst h
    exact ⟨hp, hc⟩
  | k :: ks, acc, outm, hks, hnk, hp, hc, h => by
    rw [List.pairwise_cons] at hks
    simp only [List.foldl_cons] at h
    cases hr : rec (lookupField k lf) (lookupField k rf) (fieldType t k) with
    | err => simp only [mergeMapStep, hr, foldl_mergeMapStep_err] at h; cases h
    | panic => simp only [mergeMapStep, hr, foldl_mergeMapStep_panic] at h; cases h
    | ok o =>
      cases o with
      | none =>
        simp only [mergeMapStep, hr] at h
        exact foldl_mergeMapStep_canon rec t lf rf hrec ks acc outm hks.2
          (fun x hx hm => hnk x hx (List.mem_cons_of_mem _ hm)) hp hc h
      | some v =>
        simp only [mergeMapStep, hr] at h
        refine foldl_mergeMapStep_canon rec t lf rf hrec ks _ outm hks.2 ?_ ?_ ?_ h
        · intro x hx hm
          rcases (mem_insertField _ _ _).1 hx with rfl | hx
          · exact hks.1 _ hm rfl
          · exact hnk x hx (List.mem_cons_of_mem _ hm)
        · exact insertField_pairwise k v acc hp (fun x hx he => hnk x hx (by rw [he]; exact List.mem_cons_self))
        · intro x hx
          rcases (mem_insertField _ _ _).1 hx with rfl | hx
          · exact hrec k v hr
          · exact hc x hx

/-! ### the merge of canonical values is canonical -/

theorem merge_canon (s : Schema) : ∀ (fuel : Nat) (lo ro : Option Value) (tr : TypeRef) (out : Value),
    (∀ l, lo = some l → canon l = true) → (∀ r, ro = some r → canon r = true) →
    mergeNode s fuel lo ro tr = .ok (some out) → canon out = true := by
  intro fuel
  induction fuel with
  | zero => intro lo ro tr out _ _ h; cases h
  | succ n ih =>
    intro lo ro tr out hlo hro h
    obtain ⟨n', a, hf, hres, hh⟩ := MV.mergeNode_handle s _ lo ro tr _ h
    cases hf
    have hkeep : ∀ v, some v = keepRHS lo ro → canon v = true := by
      intro v hv
      rcases MV.keepRHS_cases lo ro v hv with hr | ⟨_, hl⟩
      · exact hro v hr
      · exact hlo v hl
    cases hk : atomKind (deduceAtom a (keepRHS lo ro)) with
    | invalid => unfold mergeHandle at hh; rw [hk] at hh; cases hh
    | scalar t => exact hkeep out (mergeHandle_scalar s _ lo ro _ t hk _ hh)
    | map t =>
      rcases mergeHandle_map s _ lo ro _ t hk _ hh with h1 | ⟨outm, hf, hc, hna, h2⟩
      · exact hkeep out h1
      · rcases h2 with ⟨_, ho⟩ | ⟨_, ho⟩
        · cases ho
        · cases ho
          obtain ⟨hal, hcl⟩ := canon_opt_asMap lo hlo
          obtain ⟨har, hcr⟩ := canon_opt_asMap ro hro
          obtain ⟨h1, h2⟩ := foldl_mergeMapStep_canon (mergeNode s n) t _ _ (fun k v hv =>
            ih _ _ _ v (fun l hl => canon_lookupField _ hcl k l hl)
              (fun r hr => canon_lookupField _ hcr k r hr) hv) _ [] outm
            (zipKeys_nodup _ _ (keysAsc_pairwise _ hal) (keysAsc_pairwise _ har)) (by simp) List.Pairwise.nil
            (by simp) hf
          simp only [canon, Bool.and_eq_true]
          exact ⟨keysAsc_of_pairwise _ h1, canonFields_of_mem _ h2⟩
    | list t =>
      rcases mergeHandle_list s _ lo ro _ t hk _ hh with h1 | ⟨rpes, obsR, lpes, obsL, res, hir, hil, hloop, hc, hna, h2⟩
      · exact hkeep out h1
      · rcases h2 with ⟨_, ho⟩ | ⟨_, ho⟩
        · cases ho
        · cases ho
          have hcl := canon_opt_asList lo hlo
          have hcr := canon_opt_asList ro hro
          obtain ⟨newr, er, hr2, _, _, hr5⟩ := mn_indexPEs_spec s t false _ [] [] rpes obsR hir
          simp only [List.reverse_nil, List.nil_append] at er
          subst er
          obtain ⟨newl, el, hl2, _, _, hl5⟩ := mn_indexPEs_spec s t true _ [] [] lpes obsL hil
          simp only [List.reverse_nil, List.nil_append] at el
          subst el
          have hlmem : ∀ p ∈ lpes, canon p.2 = true := fun p hp =>
            canonList_mem _ hcl _ (by rw [← hl2]; exact List.mem_map_of_mem hp)
          have hrmem : ∀ p ∈ rpes, canon p.2 = true := fun p hp =>
            canonList_mem _ hcr _ (by rw [← hr2]; exact List.mem_map_of_mem hp)
          have hobs : ∀ (new obs : List (PE × Value)), (∀ p ∈ new, canon p.2 = true) →
              (∀ q w, pemGet q obs = some w → w = .null ∨ pemGet q ([] : List (PE × Value)) = some w ∨
                ∃ p ∈ new, PE.equals p.1 q = true ∧ p.2 = w) → ∀ q w, pemGet q obs = some w → canon w = true := by
            intro new obs hn h5 q w hw
            rcases h5 q w hw with rfl | h0 | ⟨p, hp, _, rfl⟩
            · rfl
            · simp [pemGet] at h0
            · exact hn p hp
          obtain ⟨m1, _, _, _⟩ := mergeLoop_spec _ _ _ _ _ _ _ _ _ _ hloop
          simp only [canon]
          apply canonList_of_mem
          intro v hv
          rcases m1 v hv with h0 | ⟨pe, x, hm, _, hi⟩ | ⟨pe, rpe, _, _, hi⟩
          · cases h0
          · exact ih _ _ _ v (fun l hl => by cases hl; exact hlmem _ hm) (fun r hr => by cases hr) hi
          · exact ih _ _ _ v (fun l hl => hobs lpes obsL hlmem hl5 pe l hl)
              (fun r hr => hobs rpes obsR hrmem hr5 pe r hr) hi

/-! ### non-vacuity: a keyed list whose key field is a (canonical) map -/

/-- two items keyed by the map-valued field `name`; the first is shared with `nvR` -/
def nvL : Value := .list [.map [("name", .map [("a", .int 1), ("b", .int 2)]), ("x", .int 1)],
  .map [("name", .map [("a", .int 0)]), ("x", .int 5)]]
def nvR : Value := .list [.map [("name", .map [("a", .int 1), ("b", .int 2)]), ("x", .int 2)]]
def nvOut : Value := .list [.map [("name", .map [("a", .int 1), ("b", .int 2)]), ("x", .int 2)],
  .map [("name", .map [("a", .int 0)]), ("x", .int 5)]]
def nvPath : Path := [.key [("name", .map [("a", .int 1), ("b", .int 2)])], .field "x"]

theorem nv_valid_left : validateV ⟨[]⟩ false Counter01.keyedTR nvL = .ok () := by with_unfolding_all rfl
theorem nv_valid_left_dup : validateV ⟨[]⟩ true Counter01.keyedTR nvL = .ok () := by with_unfolding_all rfl
theorem nv_valid_right : validateV ⟨[]⟩ false Counter01.keyedTR nvR = .ok () := by with_unfolding_all rfl
theorem nv_assoc_left : listsAssociative ⟨[]⟩ Counter01.keyedTR nvL = true := rfl
theorem nv_assoc_right : listsAssociative ⟨[]⟩ Counter01.keyedTR nvR = true := rfl
theorem nv_canon_left : C12.canonical nvL = true := by with_unfolding_all rfl
theorem nv_canon_right : C12.canonical nvR = true := by with_unfolding_all rfl
theorem nv_keys_right : keysScalar ⟨[]⟩ Counter01.keyedTR nvR = false := by with_unfolding_all rfl
theorem nv_merge : mergeNode ⟨[]⟩ 4 (some nvL) (some nvR) Counter01.keyedTR = .ok (some nvOut) := by
  with_unfolding_all rfl
theorem nv_merge_again : mergeNode ⟨[]⟩ 4 (some nvOut) (some nvR) Counter01.keyedTR = .ok (some nvOut) := by
  with_unfolding_all rfl
theorem nv_at_right : Nodes.valueAt ⟨[]⟩ Counter01.keyedTR nvR nvPath = some (.int 2) := by with_unfolding_all rfl
theorem nv_no_index : ∀ pe ∈ nvPath, PE.isIndex pe = false := by
  intro pe h; simp [nvPath] at h; rcases h with rfl | rfl <;> rfl

end CanonKeys
end SMD
