/-
Sorted child lists (`SetNodeMap`): `getChild`, `descendWith`, the four merge loops on children and
`leafMembers`, at the level of lists (no induction over the trie here).
-/
import SMD.Proofs.SortedList
namespace SMD
open SetTrie SMD.PEOrd

attribute [local grind =] less_eq_lt equals_eq_le

/-- child keys strictly ascending -/
abbrev SortedKeys (c : Children) : Prop := c.Pairwise (fun p q => p.1 < q.1)

theorem sortedKeys_cons {p : PE × SetTrie} {c : Children} :
    SortedKeys (p :: c) ↔ (∀ q ∈ c, p.1 < q.1) ∧ SortedKeys c := List.pairwise_cons

theorem sortedKeys_nil : SortedKeys [] := List.Pairwise.nil

/-- simultaneous induction on two lists, the shape of every two-cursor merge loop -/
theorem merge_ind {α β : Type} {P : List α → List β → Prop}
    (nil_left : ∀ r, P [] r) (nil_right : ∀ x xs, P (x :: xs) [])
    (cons : ∀ x xs y ys, P xs (y :: ys) → P xs ys → P (x :: xs) ys → P (x :: xs) (y :: ys)) :
    ∀ l r, P l r := by
  intro l
  induction l with
  | nil => exact nil_left
  | cons x xs ihx =>
    intro r
    induction r with
    | nil => exact nil_right x xs
    | cons y ys ihy => exact cons x xs y ys (ihx _) (ihx _) ihy

/-! ### non-mutual forms of the mutually recursive list functions -/

theorem isEmptyChildren_eq (c : Children) : isEmptyChildren c = c.all (fun p => isEmpty p.2) := by
  induction c with
  | nil => simp [isEmptyChildren]
  | cons p c ih => obtain ⟨x, t⟩ := p; simp [isEmptyChildren, ih]

theorem sizeChildren_eq (c : Children) : sizeChildren c = (c.map (fun p => size p.2)).sum := by
  induction c with
  | nil => simp [sizeChildren]
  | cons p c ih => obtain ⟨x, t⟩ := p; simp [sizeChildren, ih]

theorem pathsChildren_eq (c : Children) :
    pathsChildren c = c.flatMap (fun p => (paths p.2).map (fun r => p.1 :: r)) := by
  induction c with
  | nil => simp [pathsChildren]
  | cons p c ih => obtain ⟨x, t⟩ := p; simp [pathsChildren, ih]

theorem leavesChildren_eq (c : Children) :
    leavesChildren c = c.map (fun p => (p.1, leaves p.2)) := by
  induction c with
  | nil => simp [leavesChildren]
  | cons p c ih => obtain ⟨x, t⟩ := p; simp [leavesChildren, ih]

theorem wfChildren_cons (x : PE) (t : SetTrie) (c : Children) :
    wfChildren ((x, t) :: c) =
      (wf t && !isEmpty t && (match c with | [] => true | (y, _) :: _ => PE.less x y) && wfChildren c) := by
  cases c <;> simp [wfChildren]

theorem wfChildren_iff (c : Children) :
    wfChildren c = true ↔ SortedKeys c ∧ ∀ p ∈ c, wf p.2 = true ∧ isEmpty p.2 = false := by
  induction c with
  | nil => simp [wfChildren]
  | cons p c ih =>
    obtain ⟨x, t⟩ := p
    rw [wfChildren_cons, sortedKeys_cons]
    simp only [Bool.and_eq_true, ih, List.mem_cons, forall_eq_or_imp, Bool.not_eq_eq_eq_not, Bool.not_true]
    cases c with
    | nil => simp
    | cons p' c =>
      obtain ⟨y, t'⟩ := p'
      simp only [sortedKeys_cons, List.mem_cons, forall_eq_or_imp]
      grind

/-- induction principle for the nested inductive `SetTrie` -/
theorem SetTrie.ind {P : SetTrie → Prop}
    (h : ∀ m c, (∀ p ∈ c, P p.2) → P (node m c)) : ∀ t, P t := by
  intro t
  refine SetTrie.rec (motive_1 := P) (motive_2 := fun c => ∀ p ∈ c, P p.2) (motive_3 := fun p => P p.2)
    (fun m c ih => h m c ih) (by simp) ?_ (fun _ _ ih => ih) t
  intro hd tl ih1 ih2 p hp
  rcases List.mem_cons.1 hp with rfl | hp
  · exact ih1
  · exact ih2 p hp

/-! ### `getChild` -/

theorem getChild_congr {a b : PE} (h : PE.equals a b = true) (c : Children) :
    getChild a c = getChild b c := by
  induction c with
  | nil => rfl
  | cons p c ih => obtain ⟨x, t⟩ := p; simp only [getChild, ih]; grind

theorem getChild_eq_none_of_lt {q : PE} {c : Children} (h : ∀ p ∈ c, q < p.1) : getChild q c = none := by
  cases c with
  | nil => rfl
  | cons p c => obtain ⟨x, t⟩ := p; have := h (x, t) (by simp); simp only [getChild]; grind

theorem getChild_head (x : PE) (t : SetTrie) (c : Children) : getChild x ((x, t) :: c) = some t := by
  simp only [getChild]; grind

theorem mem_of_getChild {q : PE} {c : Children} {t : SetTrie} (h : getChild q c = some t) :
    ∃ x, (x, t) ∈ c ∧ PE.equals x q = true := by
  induction c with
  | nil => simp [getChild] at h
  | cons p c ih =>
    obtain ⟨x, s⟩ := p
    simp only [getChild] at h
    split at h
    · obtain ⟨x', h1, h2⟩ := ih h; exact ⟨x', by simp [h1], h2⟩
    · split at h
      · simp only [Option.some.injEq] at h; subst h; exact ⟨x, by simp, by assumption⟩
      · simp at h

theorem getChild_of_mem {q x : PE} {c : Children} {t : SetTrie} (hc : SortedKeys c)
    (hm : (x, t) ∈ c) (hx : PE.equals x q = true) : getChild q c = some t := by
  induction c with
  | nil => simp at hm
  | cons p c ih =>
    obtain ⟨y, s⟩ := p
    rw [sortedKeys_cons] at hc
    simp only [getChild]
    rcases List.mem_cons.1 hm with h | h
    · cases h; grind
    · have := hc.1 _ h
      rw [ih hc.2 h]; grind

theorem getChild_eq_some_iff {q : PE} {c : Children} {t : SetTrie} (hc : SortedKeys c) :
    getChild q c = some t ↔ ∃ x, (x, t) ∈ c ∧ PE.equals x q = true :=
  ⟨mem_of_getChild, fun ⟨_, h1, h2⟩ => getChild_of_mem hc h1 h2⟩

theorem getChild_eq_none_iff {q : PE} {c : Children} (hc : SortedKeys c) :
    getChild q c = none ↔ ∀ p ∈ c, PE.equals p.1 q = false := by
  constructor
  · intro h p hp
    cases hq : PE.equals p.1 q
    · rfl
    · have := getChild_of_mem hc (x := p.1) (t := p.2) hp hq; simp [h] at this
  · intro h
    cases hq : getChild q c with
    | none => rfl
    | some t => obtain ⟨x, h1, h2⟩ := mem_of_getChild hq; have := h _ h1; simp_all

/-! ### `descendWith` -/

theorem mem_descendWith {pe : PE} {f : SetTrie → SetTrie} {c : Children} {p : PE × SetTrie}
    (h : p ∈ descendWith pe f c) :
    p ∈ c ∨ p = (pe, f empty) ∨ ∃ x t, (x, t) ∈ c ∧ p = (x, f t) := by
  induction c with
  | nil => simp [descendWith] at h; simp [h]
  | cons p' c ih =>
    obtain ⟨x, t⟩ := p'
    simp only [descendWith] at h
    grind

theorem keys_descendWith {pe : PE} {f : SetTrie → SetTrie} {c : Children} {p : PE × SetTrie}
    (h : p ∈ descendWith pe f c) : p.1 = pe ∨ ∃ p' ∈ c, p.1 = p'.1 := by
  rcases mem_descendWith h with h | h | ⟨x, t, h, h'⟩
  · exact .inr ⟨p, h, rfl⟩
  · simp [h]
  · exact .inr ⟨_, h, by simp [h']⟩

theorem sorted_descendWith (pe : PE) (f : SetTrie → SetTrie) {c : Children} (hc : SortedKeys c) :
    SortedKeys (descendWith pe f c) := by
  induction c with
  | nil => simp [descendWith]
  | cons p' c ih =>
    obtain ⟨x, t⟩ := p'
    have hc' := sortedKeys_cons.1 hc
    simp only [descendWith]
    split
    · rw [sortedKeys_cons]
      refine ⟨?_, ih hc'.2⟩
      intro q hq
      rcases keys_descendWith hq with h | ⟨p', h1, h2⟩
      · grind
      · have := hc'.1 _ h1; grind
    · split
      · rw [sortedKeys_cons]; exact hc'
      · rw [sortedKeys_cons]
        refine ⟨?_, hc⟩
        intro q hq
        rcases List.mem_cons.1 hq with rfl | hq
        · grind
        · have := hc'.1 _ hq; grind

theorem getChild_descendWith (pe q : PE) (f : SetTrie → SetTrie) (c : Children) :
    getChild q (descendWith pe f c) =
      if PE.equals pe q = true then some (f ((getChild pe c).getD empty)) else getChild q c := by
  induction c with
  | nil => simp only [descendWith, getChild]; grind
  | cons p' c ih =>
    obtain ⟨x, t⟩ := p'
    simp only [descendWith]
    split
    · simp only [getChild, ih]; grind
    · split <;> simp only [getChild] <;> grind

/-! ### `unionChildren` -/

theorem mem_unionChildren {c1 c2 : Children} {p : PE × SetTrie} (h : p ∈ unionChildren c1 c2) :
    p ∈ c1 ∨ p ∈ c2 ∨ ∃ x s y t, (x, s) ∈ c1 ∧ (y, t) ∈ c2 ∧ p = (x, union s t) := by
  induction c1, c2 using merge_ind with
  | nil_left r => simp [unionChildren] at h; simp [h]
  | nil_right x xs => simp [unionChildren] at h; simp [h]
  | cons x xs y ys ih1 ih2 ih3 =>
    obtain ⟨x, s⟩ := x
    obtain ⟨y, t⟩ := y
    rw [unionChildren] at h
    split at h
    · rcases List.mem_cons.1 h with h | h
      · simp [h]
      · rcases ih1 h with h | h | ⟨x', s', y', t', h1, h2, h3⟩
        · simp [h]
        · simp [h]
        · exact .inr (.inr ⟨x', s', y', t', by simp [h1], h2, h3⟩)
    · split at h
      · rcases List.mem_cons.1 h with h | h
        · exact .inr (.inr ⟨x, s, y, t, by simp, by simp, h⟩)
        · rcases ih2 h with h | h | ⟨x', s', y', t', h1, h2, h3⟩
          · simp [h]
          · simp [h]
          · exact .inr (.inr ⟨x', s', y', t', by simp [h1], by simp [h2], h3⟩)
      · rcases List.mem_cons.1 h with h | h
        · simp [h]
        · rcases ih3 h with h | h | ⟨x', s', y', t', h1, h2, h3⟩
          · simp [h]
          · simp [h]
          · exact .inr (.inr ⟨x', s', y', t', h1, by simp [h2], h3⟩)

theorem keys_unionChildren {c1 c2 : Children} {p : PE × SetTrie} (h : p ∈ unionChildren c1 c2) :
    (∃ p' ∈ c1, p.1 = p'.1) ∨ (∃ p' ∈ c2, p.1 = p'.1) := by
  rcases mem_unionChildren h with h | h | ⟨x, s, y, t, h1, h2, h3⟩
  · exact .inl ⟨p, h, rfl⟩
  · exact .inr ⟨p, h, rfl⟩
  · exact .inl ⟨_, h1, by simp [h3]⟩

theorem sorted_unionChildren {c1 c2 : Children} (h1 : SortedKeys c1) (h2 : SortedKeys c2) :
    SortedKeys (unionChildren c1 c2) := by
  induction c1, c2 using merge_ind with
  | nil_left r => simpa [unionChildren] using h2
  | nil_right x xs => simpa [unionChildren] using h1
  | cons x xs y ys ih1 ih2 ih3 =>
    obtain ⟨x, s⟩ := x
    obtain ⟨y, t⟩ := y
    have h1' := sortedKeys_cons.1 h1
    have h2' := sortedKeys_cons.1 h2
    rw [unionChildren]
    split
    · rw [sortedKeys_cons]
      refine ⟨?_, ih1 h1'.2 h2⟩
      intro q hq
      rcases keys_unionChildren hq with ⟨p', hp, e⟩ | ⟨p', hp, e⟩
      · have := h1'.1 _ hp; grind
      · rcases List.mem_cons.1 hp with rfl | hp
        · grind
        · have := h2'.1 _ hp; grind
    · split
      · rw [sortedKeys_cons]
        refine ⟨?_, ih2 h1'.2 h2'.2⟩
        intro q hq
        rcases keys_unionChildren hq with ⟨p', hp, e⟩ | ⟨p', hp, e⟩
        · have := h1'.1 _ hp; grind
        · have := h2'.1 _ hp; grind
      · rw [sortedKeys_cons]
        refine ⟨?_, ih3 h1 h2'.2⟩
        intro q hq
        rcases keys_unionChildren hq with ⟨p', hp, e⟩ | ⟨p', hp, e⟩
        · rcases List.mem_cons.1 hp with rfl | hp
          · grind
          · have := h1'.1 _ hp; grind
        · have := h2'.1 _ hp; grind

/-- pointwise combination of two optional children by `union` -/
def unionOpt : Option SetTrie → Option SetTrie → Option SetTrie
  | some s, some t => some (union s t)
  | some s, none => some s
  | none, some t => some t
  | none, none => none

theorem getChild_unionChildren (q : PE) (c1 c2 : Children) :
    getChild q (unionChildren c1 c2) = unionOpt (getChild q c1) (getChild q c2) := by
  induction c1, c2 using merge_ind with
  | nil_left r => cases h : getChild q r <;> simp [unionChildren, getChild, unionOpt, h]
  | nil_right x xs => cases h : getChild q (x :: xs) <;> simp [unionChildren, getChild, unionOpt, h]
  | cons x xs y ys ih1 ih2 ih3 =>
    obtain ⟨x, s⟩ := x
    obtain ⟨y, t⟩ := y
    rw [unionChildren]
    split
    · simp only [getChild, ih1]; grind [unionOpt]
    · split
      · simp only [getChild, ih2]; grind [unionOpt]
      · simp only [getChild, ih3]; grind [unionOpt]

/-! ### sub-lists of keys -/

theorem sortedKeys_iff_map (c : Children) : SortedKeys c ↔ SortedPE (c.map Prod.fst) := by
  simp [SortedKeys, SortedPE, List.pairwise_map]

theorem sortedKeys_of_keys_sublist {c c' : Children} (h : (c'.map Prod.fst).Sublist (c.map Prod.fst))
    (hc : SortedKeys c) : SortedKeys c' := by
  rw [sortedKeys_iff_map] at hc ⊢
  exact hc.sublist h

/-! ### `interChildren` -/

/-- pointwise combination of two optional children by `inter`, empty results dropped -/
def interOpt : Option SetTrie → Option SetTrie → Option SetTrie
  | some s, some t => if isEmpty (inter s t) then none else some (inter s t)
  | _, _ => none

theorem mem_interChildren {c1 c2 : Children} {p : PE × SetTrie} (h : p ∈ interChildren c1 c2) :
    ∃ s y t, (p.1, s) ∈ c1 ∧ (y, t) ∈ c2 ∧ p.2 = inter s t ∧ isEmpty p.2 = false := by
  induction c1, c2 using merge_ind with
  | nil_left r => simp [interChildren] at h
  | nil_right x xs => simp [interChildren] at h
  | cons x xs y ys ih1 ih2 ih3 =>
    obtain ⟨x, s⟩ := x
    obtain ⟨y, t⟩ := y
    rw [interChildren] at h
    simp only [] at h
    split at h
    · obtain ⟨s', y', t', h1, h2, h3⟩ := ih1 h
      exact ⟨s', y', t', by simp [h1], h2, h3⟩
    · split at h
      · split at h
        · rcases List.mem_cons.1 h with h | h
          · subst h; exact ⟨s, y, t, by simp, by simp, rfl, by simp_all⟩
          · obtain ⟨s', y', t', h1, h2, h3⟩ := ih2 h
            exact ⟨s', y', t', by simp [h1], by simp [h2], h3⟩
        · obtain ⟨s', y', t', h1, h2, h3⟩ := ih2 h
          exact ⟨s', y', t', by simp [h1], by simp [h2], h3⟩
      · obtain ⟨s', y', t', h1, h2, h3⟩ := ih3 h
        exact ⟨s', y', t', h1, by simp [h2], h3⟩

theorem keys_interChildren (c1 c2 : Children) :
    ((interChildren c1 c2).map Prod.fst).Sublist (c1.map Prod.fst) := by
  induction c1, c2 using merge_ind with
  | nil_left r => simp [interChildren]
  | nil_right x xs => simp [interChildren]
  | cons x xs y ys ih1 ih2 ih3 =>
    obtain ⟨x, s⟩ := x
    obtain ⟨y, t⟩ := y
    rw [interChildren]
    simp only [List.map_cons] at ih3 ⊢
    split
    · exact ih1.cons _
    · split
      · split
        · simpa using ih2
        · exact ih2.cons _
      · exact ih3

theorem sorted_interChildren {c1 : Children} (c2 : Children) (h1 : SortedKeys c1) :
    SortedKeys (interChildren c1 c2) :=
  sortedKeys_of_keys_sublist (keys_interChildren c1 c2) h1

theorem getChild_interChildren (q : PE) {c1 c2 : Children} (h1 : SortedKeys c1) (h2 : SortedKeys c2) :
    getChild q (interChildren c1 c2) = interOpt (getChild q c1) (getChild q c2) := by
  induction c1, c2 using merge_ind with
  | nil_left r => simp [interChildren, getChild, interOpt]
  | nil_right x xs => cases h : getChild q (x :: xs) <;> simp [interChildren, getChild, interOpt]
  | cons x xs y ys ih1 ih2 ih3 =>
    obtain ⟨x, s⟩ := x
    obtain ⟨y, t⟩ := y
    have h1' := sortedKeys_cons.1 h1
    have h2' := sortedKeys_cons.1 h2
    have e1 := @getChild_eq_none_of_lt q xs
    have e2 := @getChild_eq_none_of_lt q ys
    rw [interChildren]
    simp only []
    split
    · simp only [getChild, ih1 h1'.2 h2]; grind [interOpt]
    · split
      · split
        · simp only [getChild, ih2 h1'.2 h2'.2]; grind [interOpt]
        · simp only [getChild, ih2 h1'.2 h2'.2]; grind [interOpt]
      · simp only [getChild, ih3 h1 h2'.2]; grind [interOpt]

/-! ### `diffChildren` -/

/-- pointwise combination of two optional children by `diff`, empty results dropped -/
def diffOpt : Option SetTrie → Option SetTrie → Option SetTrie
  | some s, some t => if isEmpty (diff s t) then none else some (diff s t)
  | some s, none => some s
  | none, _ => none

theorem mem_diffChildren {c1 c2 : Children} {p : PE × SetTrie} (h : p ∈ diffChildren c1 c2) :
    p ∈ c1 ∨ ∃ s y t, (p.1, s) ∈ c1 ∧ (y, t) ∈ c2 ∧ p.2 = diff s t ∧ isEmpty p.2 = false := by
  induction c1, c2 using merge_ind with
  | nil_left r => simp [diffChildren] at h
  | nil_right x xs => simp [diffChildren] at h; simp [h]
  | cons x xs y ys ih1 ih2 ih3 =>
    obtain ⟨x, s⟩ := x
    obtain ⟨y, t⟩ := y
    rw [diffChildren] at h
    simp only [] at h
    split at h
    · rcases List.mem_cons.1 h with h | h
      · simp [h]
      · rcases ih1 h with h | ⟨s', y', t', h1, h2, h3⟩
        · simp [h]
        · exact .inr ⟨s', y', t', by simp [h1], h2, h3⟩
    · split at h
      · split at h
        · rcases List.mem_cons.1 h with h | h
          · subst h; exact .inr ⟨s, y, t, by simp, by simp, rfl, by simp_all⟩
          · rcases ih2 h with h | ⟨s', y', t', h1, h2, h3⟩
            · simp [h]
            · exact .inr ⟨s', y', t', by simp [h1], by simp [h2], h3⟩
        · rcases ih2 h with h | ⟨s', y', t', h1, h2, h3⟩
          · simp [h]
          · exact .inr ⟨s', y', t', by simp [h1], by simp [h2], h3⟩
      · rcases ih3 h with h | ⟨s', y', t', h1, h2, h3⟩
        · simp [h]
        · exact .inr ⟨s', y', t', h1, by simp [h2], h3⟩

theorem keys_diffChildren (c1 c2 : Children) :
    ((diffChildren c1 c2).map Prod.fst).Sublist (c1.map Prod.fst) := by
  induction c1, c2 using merge_ind with
  | nil_left r => simp [diffChildren]
  | nil_right x xs => simp [diffChildren]
  | cons x xs y ys ih1 ih2 ih3 =>
    obtain ⟨x, s⟩ := x
    obtain ⟨y, t⟩ := y
    rw [diffChildren]
    simp only [List.map_cons] at ih3 ⊢
    split
    · simpa using ih1
    · split
      · split
        · simpa using ih2
        · exact ih2.cons _
      · exact ih3

theorem sorted_diffChildren {c1 : Children} (c2 : Children) (h1 : SortedKeys c1) :
    SortedKeys (diffChildren c1 c2) :=
  sortedKeys_of_keys_sublist (keys_diffChildren c1 c2) h1

theorem getChild_diffChildren (q : PE) {c1 : Children} (c2 : Children) (h1 : SortedKeys c1) :
    getChild q (diffChildren c1 c2) = diffOpt (getChild q c1) (getChild q c2) := by
  induction c1, c2 using merge_ind with
  | nil_left r => simp [diffChildren, getChild, diffOpt]
  | nil_right x xs => cases h : getChild q (x :: xs) <;> simp [diffChildren, getChild, diffOpt, h]
  | cons x xs y ys ih1 ih2 ih3 =>
    obtain ⟨x, s⟩ := x
    obtain ⟨y, t⟩ := y
    have h1' := sortedKeys_cons.1 h1
    have e1 := @getChild_eq_none_of_lt q xs
    rw [diffChildren]
    simp only []
    split
    · simp only [getChild, ih1 h1'.2]; grind [diffOpt]
    · split
      · split
        · simp only [getChild, ih2 h1'.2]; grind [diffOpt]
        · simp only [getChild, ih2 h1'.2]; grind [diffOpt]
      · simp only [getChild, ih3 h1]; grind [diffOpt]

/-! ### `rdiffChildren` -/

/-- pointwise combination of two optional children by `rdiff`, empty results dropped -/
def rdiffOpt : Option SetTrie → Option SetTrie → Option SetTrie
  | some s, some t => if isEmpty (rdiff s t) then none else some (rdiff s t)
  | some s, none => some s
  | none, _ => none

theorem mem_rdiffChildren {c1 c2 : Children} {m2 : List PE} {p : PE × SetTrie}
    (h : p ∈ rdiffChildren c1 m2 c2) :
    p ∈ c1 ∨ ∃ s y t, (p.1, s) ∈ c1 ∧ (y, t) ∈ c2 ∧ p.2 = rdiff s t ∧ isEmpty p.2 = false := by
  induction c1, c2 using merge_ind with
  | nil_left r => simp [rdiffChildren] at h
  | nil_right x xs => rw [rdiffChildren.eq_2 _ _ (by simp)] at h; exact .inl (List.mem_filter.1 h).1
  | cons x xs y ys ih1 ih2 ih3 =>
    obtain ⟨x, s⟩ := x
    obtain ⟨y, t⟩ := y
    rw [rdiffChildren] at h
    simp only [] at h
    have a1 : p ∈ rdiffChildren xs m2 ((y, t) :: ys) →
        p ∈ (x, s) :: xs ∨ ∃ s_1 y_1 t_1, (p.fst, s_1) ∈ (x, s) :: xs ∧ (y_1, t_1) ∈ (y, t) :: ys ∧
          p.snd = s_1.rdiff t_1 ∧ p.snd.isEmpty = false := by
      intro h
      rcases ih1 h with h | ⟨s', y', t', h1, h2, h3⟩
      · simp [h]
      · exact .inr ⟨s', y', t', by simp [h1], h2, h3⟩
    have a2 : p ∈ rdiffChildren xs m2 ys →
        p ∈ (x, s) :: xs ∨ ∃ s_1 y_1 t_1, (p.fst, s_1) ∈ (x, s) :: xs ∧ (y_1, t_1) ∈ (y, t) :: ys ∧
          p.snd = s_1.rdiff t_1 ∧ p.snd.isEmpty = false := by
      intro h
      rcases ih2 h with h | ⟨s', y', t', h1, h2, h3⟩
      · simp [h]
      · exact .inr ⟨s', y', t', by simp [h1], by simp [h2], h3⟩
    split at h
    · split at h
      · rcases List.mem_cons.1 h with h | h
        · simp [h]
        · exact a1 h
      · exact a1 h
    · split at h
      · split at h
        · split at h
          · rcases List.mem_cons.1 h with h | h
            · subst h; exact .inr ⟨s, y, t, by simp, by simp, rfl, by simp_all⟩
            · exact a2 h
          · exact a2 h
        · exact a2 h
      · rcases ih3 h with h | ⟨s', y', t', h1, h2, h3⟩
        · simp [h]
        · exact .inr ⟨s', y', t', h1, by simp [h2], h3⟩

theorem keys_rdiffChildren (c1 : Children) (m2 : List PE) (c2 : Children) :
    ((rdiffChildren c1 m2 c2).map Prod.fst).Sublist (c1.map Prod.fst) := by
  induction c1, c2 using merge_ind with
  | nil_left r => simp [rdiffChildren]
  | nil_right x xs =>
    rw [rdiffChildren.eq_2 _ _ (by simp)]
    exact (List.filter_sublist (l := x :: xs)).map Prod.fst
  | cons x xs y ys ih1 ih2 ih3 =>
    obtain ⟨x, s⟩ := x
    obtain ⟨y, t⟩ := y
    rw [rdiffChildren]
    simp only [List.map_cons] at ih3 ⊢
    split
    · split
      · simpa using ih1
      · exact ih1.cons _
    · split
      · split
        · split
          · simpa using ih2
          · exact ih2.cons _
        · exact ih2.cons _
      · exact ih3

theorem sorted_rdiffChildren {c1 : Children} (m2 : List PE) (c2 : Children) (h1 : SortedKeys c1) :
    SortedKeys (rdiffChildren c1 m2 c2) :=
  sortedKeys_of_keys_sublist (keys_rdiffChildren c1 m2 c2) h1

theorem getChild_filter_peHas (q : PE) (m2 : List PE) {c : Children} (hc : SortedKeys c) :
    getChild q (c.filter (fun p => !peHas p.1 m2)) = if peHas q m2 = true then none else getChild q c := by
  induction c with
  | nil => simp [getChild]
  | cons p c ih =>
    obtain ⟨x, s⟩ := p
    have hc' := sortedKeys_cons.1 hc
    have e1 := @getChild_eq_none_of_lt q c
    have e2 := @peHas_congr x q
    rw [List.filter_cons]
    split
    · simp only [getChild, ih hc'.2]; grind
    · simp only [getChild, ih hc'.2]; grind

theorem getChild_rdiffChildren (q : PE) {c1 : Children} (m2 : List PE) (c2 : Children)
    (h1 : SortedKeys c1) :
    getChild q (rdiffChildren c1 m2 c2) =
      if peHas q m2 = true then none else rdiffOpt (getChild q c1) (getChild q c2) := by
  induction c1, c2 using merge_ind with
  | nil_left r => simp [rdiffChildren, getChild, rdiffOpt]
  | nil_right x xs =>
    rw [rdiffChildren.eq_2 _ _ (by simp), getChild_filter_peHas q m2 h1]
    cases h : getChild q (x :: xs) <;> simp [getChild, rdiffOpt]
  | cons x xs y ys ih1 ih2 ih3 =>
    obtain ⟨x, s⟩ := x
    obtain ⟨y, t⟩ := y
    have h1' := sortedKeys_cons.1 h1
    have e1 := @getChild_eq_none_of_lt q xs
    have e2 := @peHas_congr x q
    rw [rdiffChildren]
    simp only []
    split
    · split
      · simp only [getChild, ih1 h1'.2]; grind [rdiffOpt]
      · simp only [getChild, ih1 h1'.2]; grind [rdiffOpt]
    · split
      · split
        · split
          · simp only [getChild, ih2 h1'.2]; grind [rdiffOpt]
          · simp only [getChild, ih2 h1'.2]; grind [rdiffOpt]
        · simp only [getChild, ih2 h1'.2]; grind [rdiffOpt]
      · simp only [getChild, ih3 h1]; grind [rdiffOpt]

/-! ### `leafMembers` -/

theorem sublist_leafMembers (m : List PE) (c : Children) : (leafMembers m c).Sublist m := by
  fun_induction leafMembers m c with
  | case1 c => simp
  | case2 m ms ih => exact ih.cons_cons _
  | case3 m ms y t ys h ih => exact ih.cons _
  | case4 m ms y t ys h ih => exact ih.cons_cons _
  | case5 m ms y t ys h ih => exact ih

theorem sorted_leafMembers {m : List PE} (c : Children) (h : SortedPE m) : SortedPE (leafMembers m c) :=
  h.sublist (sublist_leafMembers m c)

theorem leafMembers_nil_right (m : List PE) : leafMembers m [] = m := by
  induction m with
  | nil => simp [leafMembers]
  | cons x xs ih => simp [leafMembers, ih]

theorem peHas_leafMembers (q : PE) {m : List PE} (c : Children) (hm : SortedPE m) :
    peHas q (leafMembers m c) = (peHas q m && (getChild q c).isNone) := by
  fun_induction leafMembers m c with
  | case1 c => simp [peHas]
  | case2 m ms ih =>
    have hm' := sortedPE_cons.1 hm
    simp only [peHas, ih hm'.2, getChild]; grind
  | case3 m ms y t ys h ih =>
    have hm' := sortedPE_cons.1 hm
    have e1 := @peHas_eq_false_of_lt q ms
    rw [compare_eq_eq] at h
    simp only [peHas, ih hm'.2, getChild]; grind
  | case4 m ms y t ys h ih =>
    have hm' := sortedPE_cons.1 hm
    rw [compare_lt_eq] at h
    simp only [peHas, ih hm'.2, getChild]; grind
  | case5 m ms y t ys h ih =>
    rw [compare_gt_eq] at h
    simp only [peHas, ih hm, getChild]; grind

end SMD
