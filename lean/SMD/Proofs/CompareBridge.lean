/-
`nodeAt` against the independent resolver `Nodes.valueAt` (SMD/Spec/Nodes.lean): on accepted values
whose visited lists can be indexed, and for paths without index elements, `nodeAt` is the designated
value unless the path passes through an atomic node.
-/
import SMD.Proofs.CompareNodes
import SMD.Proofs.NodeLaws
set_option linter.unusedSimpArgs false
set_option linter.unusedVariables false
namespace SMD
namespace CmpX
open NodeLaws

theorem itemAt_eq_find (s : Schema) (lt : ListT) (pe : PE) (hrel : lt.rel = "associative") (hpe : pe.notIndex = true) :
    ∀ l : List Value, (∀ c ∈ l, ∃ pe', listItemToPE s lt c = .ok pe') →
      Nodes.itemAt s lt pe l = l.find? (fun c => PE.equals (peOf s lt c) pe)
  | [], _ => rfl
  | x :: l, h => by
    obtain ⟨pe', hx⟩ := h x List.mem_cons_self
    have hid := identity_of_ok hrel hx
    have hpo : peOf s lt x = pe' := by simp [peOf, hx]
    rw [itemAt_cons, hitOf_of_identity hpe hrel hid, List.find?_cons, hpo]
    cases PE.equals pe' pe with
    | true => rfl
    | false =>
      simp only [Bool.false_eq_true, if_false]
      exact itemAt_eq_find s lt pe hrel hpe l (fun c hc => h c (List.mem_cons_of_mem _ hc))

theorem atomicNode_map {s : Schema} {tr : TypeRef} {a : Atom} {mt : MapT} (m : List (String × Value))
    (hres : s.resolve tr = some a) (ha : a.map = some mt) : atomicNode s tr (.map m) = (mt.rel == "atomic") := by
  simp [atomicNode, hres, ha]

theorem atomicNode_list {s : Schema} {tr : TypeRef} {a : Atom} {lt : ListT} (l : List Value)
    (hres : s.resolve tr = some a) (ha : a.list = some lt) : atomicNode s tr (.list l) = (lt.rel == "atomic") := by
  simp [atomicNode, hres, ha]

theorem atomicNode_other (s : Schema) (tr : TypeRef) (v : Value) (hl : v.isList = false) (hm : v.isMap = false) :
    atomicNode s tr v = false := by
  unfold atomicNode
  cases s.resolve tr with
  | none => rfl
  | some a => cases v <;> simp_all [Value.isList, Value.isMap]

theorem nodeAt_other (s : Schema) (tr : TypeRef) (v : Value) (pe : PE) (rest : Path)
    (hl : v.isList = false) (hm : v.isMap = false) : nodeAt s tr v (pe :: rest) = none := by
  rw [nodeAt]
  cases resolveKind s tr (some v) with
  | none => rfl
  | some K =>
    cases K with
    | map t => simp only []; split <;> first | rfl | (cases v <;> simp_all [Value.isList, Value.isMap])
    | list t => simp only []; split <;> first | rfl | (cases v <;> simp_all [Value.isList, Value.isMap])
    | scalar t => rfl
    | invalid => rfl

theorem nodeAt_eq_valueAt (s : Schema) : ∀ (p : Path) (tr : TypeRef) (v : Value),
    validateV s true tr v = .ok () → listsAssociative s tr v = true → (∀ pe ∈ p, pe.notIndex = true) →
    nodeAt s tr v p = if throughAtomic s tr v p = true then none else Nodes.valueAt s tr v p
  | [], tr, v, _, _, _ => by simp [nodeAt, throughAtomic, valueAt_nil]
  | pe :: rest, tr, v, hv, hla, hp => by
    have hpe : pe.notIndex = true := hp pe List.mem_cons_self
    have hrest : ∀ x ∈ rest, x.notIndex = true := fun x hx => hp x (List.mem_cons_of_mem _ hx)
    cases v with
    | map m =>
      obtain ⟨a, mt, hres, ha, hfields⟩ := validateV_map_inv hv
      have hk := atomKind_deduce_map a m mt ha
      rw [nodeAt, resolveKind_eq s tr a _ hres, hk, throughAtomic, atomicNode_map m hres ha, valueAt_cons]
      simp only []
      cases hat : mt.rel == "atomic" with
      | true => simp
      | false =>
        simp only [Bool.false_eq_true, if_false, Bool.false_or]
        cases pe with
        | field k =>
          rw [childAt_map m k hres ha]
          simp only []
          cases hl : lookupField k m with
          | none => simp
          | some x =>
            have hmem := lookupField_mem k m x hl
            have hxa : listsAssociative s (fieldType mt k) x = true := by
              rcases listsAssociative_map s tr a m mt hres hk hla with h | h
              · simp [h] at hat
              · exact listsAssociativeFields_mem s mt m h _ hmem
            simp only [Option.map_some]
            exact nodeAt_eq_valueAt s rest _ x (validateFields_mem s true mt m hfields _ hmem) hxa hrest
        | _ => rw [childAt_map_nonfield s tr m _ (by intro k hk; cases hk)]; simp
    | list l =>
      obtain ⟨a, lt, hres, ha, hitems⟩ := validateV_list_inv hv
      have hk := atomKind_deduce_list a l lt ha
      rw [nodeAt, resolveKind_eq s tr a _ hres, hk, throughAtomic, atomicNode_list l hres ha, valueAt_cons,
        childAt_list l pe hres ha hpe]
      simp only []
      cases hat : lt.rel == "atomic" with
      | true => simp
      | false =>
        simp only [Bool.false_eq_true, if_false, Bool.false_or]
        rcases listsAssociative_list s tr a l lt hres hk hla with h | h | h
        · simp [h] at hat
        · subst h; simp [itemAt_nil]
        · have hmem := validateItems_assoc s true lt h.1 l [] 0 hitems
          rw [itemAt_eq_find s lt pe h.1 hpe l (fun c hc => (hmem c hc).1)]
          cases hf : l.find? (fun c => PE.equals (peOf s lt c) pe) with
          | none => simp
          | some x =>
            have hx := find?_mem' hf
            simp only [Option.map_some]
            exact nodeAt_eq_valueAt s rest _ x (hmem x hx).2 (listsAssociativeItems_mem s _ l h.2 x hx) hrest
    | null =>
      rw [nodeAt_other s tr _ pe rest rfl rfl, throughAtomic, atomicNode_other s tr _ rfl rfl, valueAt_cons,
        childAt_other s tr _ pe rfl rfl]
      simp
    | bool b =>
      rw [nodeAt_other s tr _ pe rest rfl rfl, throughAtomic, atomicNode_other s tr _ rfl rfl, valueAt_cons,
        childAt_other s tr _ pe rfl rfl]
      simp
    | int b =>
      rw [nodeAt_other s tr _ pe rest rfl rfl, throughAtomic, atomicNode_other s tr _ rfl rfl, valueAt_cons,
        childAt_other s tr _ pe rfl rfl]
      simp
    | float b z =>
      rw [nodeAt_other s tr _ pe rest rfl rfl, throughAtomic, atomicNode_other s tr _ rfl rfl, valueAt_cons,
        childAt_other s tr _ pe rfl rfl]
      simp
    | str b =>
      rw [nodeAt_other s tr _ pe rest rfl rfl, throughAtomic, atomicNode_other s tr _ rfl rfl, valueAt_cons,
        childAt_other s tr _ pe rfl rfl]
      simp

end CmpX
end SMD
