/-
Concrete runs of the comparison walker refuting the C11 statements about field sets as first written
(`SMD/Properties/C11Exact.lean`).  All types are inline, the schema is `⟨[]⟩`.

`Atom.equals` is defined by well-founded recursion and does not reduce in the kernel, so a node whose
operands are both present is evaluated with `cmpNode_same_atom` (the two deduced atoms are the same
term) and everything else by `rfl`.
-/
import SMD.Proofs.CompareExact
set_option linter.unusedSimpArgs false
namespace SMD.C11cx
open SMD SMD.CmpX

theorem cmpNode_same_atom (s : Schema) (n : Nat) (lv rv : Value) (tr : TypeRef) (a : Atom)
    (hres : s.resolve tr = some a) (hd : deduceAtom a (some lv) = deduceAtom a (some rv)) :
    cmpNode s (n + 1) (some lv) (some rv) tr =
      cmpFinish (some lv) (some rv) (cmpHandle s (cmpNode s n) (some lv) (some rv) (deduceAtom a (some rv))) := by
  rw [cmpNode_succ]
  simp only [Option.isNone_some, Bool.and_self, Bool.false_eq_true, if_false, hres, cmpHandled, hd,
    Atom.equals_refl, Bool.or_true, if_true]

/-- a granular map node whose operands are both maps: the fold over the keys -/
theorem cmpNode_map_eval (s : Schema) (n : Nat) (lm rm : List (String × Value)) (tr : TypeRef) (a : Atom) (t : MapT)
    (hres : s.resolve tr = some a) (ha : a.map = some t) (hrel : (t.rel == "atomic") = false)
    (hne : (lm.isEmpty && rm.isEmpty) = false) :
    cmpNode s (n + 1) (some (.map lm)) (some (.map rm)) tr =
      (zipKeys lm rm).foldl (resFold (mapItemRes (cmpNode s n) t lm rm)) (.ok {}) := by
  have hk : ∀ m, atomKind (deduceAtom a (some (.map m))) = .map t := fun m => atomKind_deduce_map a m t ha
  have hd : deduceAtom a (some (.map lm)) = deduceAtom a (some (.map rm)) := by
    obtain ⟨sc, li, mp⟩ := a
    simp only [Atom.map] at ha
    subst ha
    rfl
  rw [cmpNode_same_atom s n _ _ tr a hres hd, cmpHandle_map_eq s _ _ _ _ t (hk rm)]
  simp only [hrel, asMap, emptyOrAbsent, hne, Bool.or_self, Bool.false_eq_true, if_false, Option.getD_some]
  cases (zipKeys lm rm).foldl (resFold (mapItemRes (cmpNode s n) t lm rm)) (.ok {}) <;> rfl

/-! ### swap of a failing comparison: an error one way, a panic the other way -/

/-- a named type that is not defined: resolving it is an error -/
def missingT : TypeRef := .mk (some "missing") Atom.none none
/-- an inline scalar with an element relationship: not resolvable, and not named — the Go code panics -/
def badT : TypeRef := .mk none (.mk (some "untyped") none none) (some "atomic")
def errStructT : TypeRef :=
  .mk none (.mk none none (some (.mk [.mk "a" missingT none, .mk "b" badT none] [] .zero ""))) none
/-- `{a: 1}` -/
def errL : TV := ⟨.map [("a", .int 1)], errStructT⟩
/-- `{b: 1}` -/
def errR : TV := ⟨.map [("b", .int 1)], errStructT⟩

theorem err_lr : compareTV ⟨[]⟩ errL errR = .err := by
  have h1 : TypeRef.equals errL.type errR.type = true := TypeRef.equals_refl _
  have h2 : cmpNode ⟨[]⟩ (errL.value.depth + errR.value.depth + 2) (some errL.value) (some errR.value) errL.type =
      .err := (cmpNode_same_atom ⟨[]⟩ 5 errL.value errR.value errStructT _ rfl rfl).trans rfl
  unfold compareTV
  rw [h1, h2]
  rfl

theorem err_rl : compareTV ⟨[]⟩ errR errL = .panic := by
  have h1 : TypeRef.equals errR.type errL.type = true := TypeRef.equals_refl _
  have h2 : cmpNode ⟨[]⟩ (errR.value.depth + errL.value.depth + 2) (some errR.value) (some errL.value) errR.type =
      .panic := (cmpNode_same_atom ⟨[]⟩ 5 errR.value errL.value errStructT _ rfl rfl).trans rfl
  unfold compareTV
  rw [h1, h2]
  rfl

/-! ### field sets versus nodes -/

/-- an untyped scalar -/
def scalarT : TypeRef := .mk none (.mk (some "untyped") none none) none
/-- a set of scalars -/
def setT : TypeRef := .mk none (.mk none (some (.mk scalarT "associative" [])) none) none
/-- a map of scalars -/
def innerMapT : TypeRef := .mk none (.mk none none (some (.mk [] [] scalarT ""))) none
/-- a struct with the fields `a` (a set) and `b` (a map of scalars) -/
def structM : MapT := .mk [.mk "a" setT none, .mk "b" innerMapT none] [] .zero ""
def structT : TypeRef := .mk none (.mk none none (some structM)) none
/-- a map of maps of scalars -/
def outerM : MapT := .mk [] [] innerMapT ""
def outerMapT : TypeRef := .mk none (.mk none none (some outerM)) none

/-- `{a: []}` -/
def emptyListV : TV := ⟨.map [("a", .list [])], structT⟩
/-- `{}` -/
def emptyV : TV := ⟨.map [], structT⟩
/-- `{a: null}` -/
def nullV : TV := ⟨.map [("a", .null)], structT⟩

/-- `{a: []}` against `{}`: the empty list is removed (and is not a member of any field set) -/
theorem cmp_emptyList_empty :
    compareTV ⟨[]⟩ emptyListV emptyV = .ok ⟨.ofPaths [[.field "a"]], .ofPaths [], .ofPaths []⟩ := by
  have h1 : TypeRef.equals emptyListV.type emptyV.type = true := TypeRef.equals_refl _
  have h2 : cmpNode ⟨[]⟩ (emptyListV.value.depth + emptyV.value.depth + 2) (some emptyListV.value)
      (some emptyV.value) emptyListV.type = .ok { removed := [[.field "a"]] } :=
    (cmpNode_same_atom ⟨[]⟩ 4 emptyListV.value emptyV.value structT _ rfl rfl).trans rfl
  unfold compareTV
  rw [h1, h2]
  rfl

/-- `{}` against `{a: []}`: the empty list is added -/
theorem cmp_empty_emptyList :
    compareTV ⟨[]⟩ emptyV emptyListV = .ok ⟨.ofPaths [], .ofPaths [], .ofPaths [[.field "a"]]⟩ := by
  have h1 : TypeRef.equals emptyV.type emptyListV.type = true := TypeRef.equals_refl _
  have h2 : cmpNode ⟨[]⟩ (emptyV.value.depth + emptyListV.value.depth + 2) (some emptyV.value)
      (some emptyListV.value) emptyV.type = .ok { added := [[.field "a"]] } :=
    (cmpNode_same_atom ⟨[]⟩ 4 emptyV.value emptyListV.value structT _ rfl rfl).trans rfl
  unfold compareTV
  rw [h1, h2]
  rfl

/-- `{a: []}` against `{a: null}`: `.a` is modified, and a member of the right field set only -/
theorem cmp_emptyList_null :
    compareTV ⟨[]⟩ emptyListV nullV = .ok ⟨.ofPaths [], .ofPaths [[.field "a"]], .ofPaths []⟩ := by
  have h1 : TypeRef.equals emptyListV.type nullV.type = true := TypeRef.equals_refl _
  have hchild : cmpNode ⟨[]⟩ 5 (some (.list [])) (some .null) setT = .ok { modified := [[]] } :=
    (cmpNode_same_atom ⟨[]⟩ 4 (.list []) .null setT _ rfl rfl).trans rfl
  have hstep : mapItemRes (cmpNode ⟨[]⟩ 5) structM [("a", .list [])] [("a", .null)] "a" =
      .ok (({ modified := [[]] } : Cmp).pre (.field "a")) := by
    unfold mapItemRes
    have e1 : lookupField "a" [("a", Value.list [])] = some (.list []) := rfl
    have e2 : lookupField "a" [("a", Value.null)] = some .null := rfl
    have e3 : fieldType structM "a" = setT := rfl
    rw [e1, e2, e3, hchild]
  have h2 : cmpNode ⟨[]⟩ (emptyListV.value.depth + nullV.value.depth + 2) (some emptyListV.value)
      (some nullV.value) emptyListV.type = .ok { modified := [[.field "a"]] } := by
    show cmpNode ⟨[]⟩ (5 + 1) (some (.map [("a", .list [])])) (some (.map [("a", .null)])) structT = _
    rw [cmpNode_map_eval ⟨[]⟩ 5 _ _ structT _ structM rfl rfl rfl rfl]
    show resFold (mapItemRes (cmpNode ⟨[]⟩ 5) structM [("a", .list [])] [("a", .null)]) (.ok {}) "a" = _
    rw [resFold, hstep]
    rfl
  unfold compareTV
  rw [h1, h2]
  rfl

/-- `{a: {}, a: {x: 1}}`: the key `a` twice -/
def dupKeyV : TV := ⟨.map [("a", .map []), ("a", .map [("x", .int 1)])], outerMapT⟩
/-- `{a: {}}` -/
def oneKeyV : TV := ⟨.map [("a", .map [])], outerMapT⟩

/-- the shadowed second entry is invisible to the comparison (and visible to the field-set walker) -/
theorem cmp_dupKey : compareTV ⟨[]⟩ dupKeyV oneKeyV = .ok ⟨.ofPaths [], .ofPaths [], .ofPaths []⟩ := by
  have h1 : TypeRef.equals dupKeyV.type oneKeyV.type = true := TypeRef.equals_refl _
  have hchild : cmpNode ⟨[]⟩ 6 (some (.map [])) (some (.map [])) innerMapT = .ok {} :=
    (cmpNode_same_atom ⟨[]⟩ 5 (.map []) (.map []) innerMapT _ rfl rfl).trans rfl
  have hstep : mapItemRes (cmpNode ⟨[]⟩ 6) outerM [("a", .map []), ("a", .map [("x", .int 1)])]
      [("a", .map [])] "a" = .ok (({} : Cmp).pre (.field "a")) := by
    unfold mapItemRes
    have e1 : lookupField "a" [("a", Value.map []), ("a", .map [("x", .int 1)])] = some (.map []) := rfl
    have e2 : lookupField "a" [("a", Value.map [])] = some (.map []) := rfl
    have e3 : fieldType outerM "a" = innerMapT := rfl
    rw [e1, e2, e3, hchild]
  have h2 : cmpNode ⟨[]⟩ (dupKeyV.value.depth + oneKeyV.value.depth + 2) (some dupKeyV.value)
      (some oneKeyV.value) dupKeyV.type = .ok {} := by
    show cmpNode ⟨[]⟩ (6 + 1) (some (.map [("a", .map []), ("a", .map [("x", .int 1)])]))
      (some (.map [("a", .map [])])) outerMapT = _
    rw [cmpNode_map_eval ⟨[]⟩ 6 _ _ outerMapT _ outerM rfl rfl rfl rfl]
    show resFold _ (resFold (mapItemRes (cmpNode ⟨[]⟩ 6) outerM [("a", .map []), ("a", .map [("x", .int 1)])]
      [("a", .map [])]) (.ok {}) "a") "a" = _
    have hs : ∀ c : Cmp, resFold (mapItemRes (cmpNode ⟨[]⟩ 6) outerM [("a", .map []), ("a", .map [("x", .int 1)])]
        [("a", .map [])]) (.ok c) "a" = .ok (c ++ ({} : Cmp).pre (.field "a")) := by
      intro c; rw [resFold, hstep]
    rw [hs, hs]
    rfl
  unfold compareTV
  rw [h1, h2]
  rfl

end SMD.C11cx
