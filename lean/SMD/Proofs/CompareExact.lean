/- helper lemmas for SMD/Properties/C11Exact.lean -/
import SMD.Proofs.CompareLaws
import SMD.Proofs.NodeFieldSet
import SMD.Proofs.CompareSwap
import SMD.Proofs.CompareRuns
import SMD.Proofs.ValidateCongr
import SMD.Proofs.CompareBridge
import SMD.Proofs.CompareFieldSet
import SMD.Properties.C11
import SMD.Properties.C15
import SMD.Spec.Nodes
set_option linter.unusedSimpArgs false
set_option linter.unusedVariables false
namespace SMD
namespace CmpX
open NodeLaws

/-! ### operand swap at the level of `compareTV` -/

theorem compareTV_swap_sets (s : Schema) (l r : TV) (c : Comparison) (h : compareTV s l r = .ok c) :
    ∃ c', compareTV s r l = .ok c' ∧
      (∀ p, c'.added.has p = c.removed.has p) ∧ (∀ p, c'.removed.has p = c.added.has p) ∧
      (∀ p, c'.modified.has p = c.modified.has p) := by
  unfold compareTV at h ⊢
  cases htr : TypeRef.equals l.type r.type with
  | false => simp [htr] at h
  | true =>
    have htr' : TypeRef.equals r.type l.type = true := by rw [TypeRef.equals_symm]; exact htr
    simp only [htr, htr', Bool.not_true, Bool.false_eq_true, if_false] at h ⊢
    rw [Nat.add_comm r.value.depth l.value.depth]
    cases hc : cmpNode s (l.value.depth + r.value.depth + 2) (some l.value) (some r.value) l.type with
    | err => simp [hc] at h
    | panic => simp [hc] at h
    | ok c0 =>
      simp only [hc, Res.ok.injEq] at h
      subst h
      obtain ⟨c0', hc0', hsw⟩ := cmpNode_swap s _ _ _ _ _ htr c0 hc
      simp only [hc0']
      refine ⟨_, rfl, ?_, ?_, ?_⟩
      · intro p
        simp only [has_ofPaths_pmem]
        rw [show c0'.added = c0'.get Side.removed.swap from rfl, hsw Side.removed p]; rfl
      · intro p
        simp only [has_ofPaths_pmem]
        rw [show c0'.removed = c0'.get Side.added.swap from rfl, hsw Side.added p]; rfl
      · intro p
        simp only [has_ofPaths_pmem]
        rw [show c0'.modified = c0'.get Side.modified.swap from rfl, hsw Side.modified p]; rfl

/-- a comparison that does not succeed does not succeed in the other direction either -/
theorem compareTV_swap_not_ok (s : Schema) (l r : TV) (h : ∀ c, compareTV s l r ≠ .ok c) :
    ∀ c, compareTV s r l ≠ .ok c := by
  intro c hc
  obtain ⟨c', hc', _⟩ := compareTV_swap_sets s r l c hc
  exact h c' hc'


/-! ### the comparison against the nodes of the operands -/

/-- added = designates a node of the right operand and none of the left one -/
def AddedExact (s : Schema) (rec : CmpRec) : Prop :=
  ∀ (lc rc : Option Value) (tr : TypeRef) (ci : Cmp), rec lc rc tr = .ok ci → VO s tr lc → VO s tr rc →
    ∀ p, pmem p ci.added = ((nodeAtO s tr rc p).isSome && (nodeAtO s tr lc p).isNone)

theorem nodeAtO_none (s : Schema) (tr : TypeRef) (p : Path) : nodeAtO s tr none p = none := rfl

theorem cmpNode_added (s : Schema) : ∀ n : Nat, AddedExact s (cmpNode s n) := by
  intro n
  induction n with
  | zero => intro l r tr c h; cases h
  | succ n ih =>
    intro l r tr c h hvl hvr p
    obtain ⟨a, hres, hsome, hA, _, _, runs, hruns, hpaths, hrunR, hrunL, hcons, _, _⟩ := cmpNode_runs s n l r tr c h hvl hvr
    cases p with
    | nil =>
      rw [hA, nodeAtO_nil, nodeAtO_nil]
      cases l <;> cases r <;> simp at hsome ⊢
    | cons pe rest =>
      have hc := hcons Side.added pe rest
      simp only [Cmp.get] at hc
      rw [hc, Bool.eq_iff_iff, List.any_eq_true, Bool.and_eq_true]
      have hside : ∀ e ∈ runs, SideV s e.1 l ∧ SideV s e.1 r := by
        intro e he
        rcases hruns e he with ⟨h1, _⟩ | ⟨h1, _⟩ <;> rw [h1] <;>
          exact ⟨sideV_of_valid s tr a hres l hvl _, sideV_of_valid s tr a hres r hvr _⟩
      constructor
      · rintro ⟨e, he, hp⟩
        obtain ⟨tr', lc, rc, ci, k1, k2, k3, k4, k5⟩ := ((hpaths e he).1 Side.added pe rest).1 hp
        obtain ⟨sl, sr⟩ := hside e he
        have hih := ih lc rc tr' ci k4 (kindChild_valid s e.1 l sl pe tr' lc k1) (kindChild_valid s e.1 r sr pe tr' rc k2) rest
        simp only [Cmp.get] at k5
        rw [k5] at hih
        have hih' := hih.symm
        rw [Bool.and_eq_true] at hih'
        obtain ⟨hrs, hln⟩ := hih'
        obtain ⟨w, hw⟩ := Option.isSome_iff_exists.1 hrs
        have hrc : ∃ rv', rc = some rv' := by
          cases rc with
          | none => simp [nodeAtO] at hw
          | some x => exact ⟨x, rfl⟩
        obtain ⟨rv', rfl⟩ := hrc
        -- the right operand is present
        have hr : ∃ rv, r = some rv := by
          cases r with
          | none => have := kindChild_none s e.1 pe tr' _ k2; cases this
          | some x => exact ⟨x, rfl⟩
        obtain ⟨rv, rfl⟩ := hr
        have heR : e.1 = atomKind (deduceAtom a (some rv)) := by
          rcases hruns e he with ⟨h1, h2⟩ | ⟨h1, _⟩
          · by_cases hK : atomKind (deduceAtom a l) = atomKind (deduceAtom a (some rv))
            · rw [h1, hK]
            · rw [h1] at k2
              have := kindChild_cross s a l rv hK pe tr' _ k2
              cases this
          · exact h1
        constructor
        · rw [nodeAtO_cons s tr a _ pe rest hres, ← heR, k2]; exact hrs
        · cases l with
          | none => rfl
          | some lv =>
            rw [nodeAtO_cons s tr a _ pe rest hres]
            by_cases hK : atomKind (deduceAtom a (some lv)) = e.1
            · rw [hK, k1]; exact hln
            · rw [heR] at k2 hK
              have hoth := kindChild_other s a (some rv) (some lv) (some rv) (some lv) pe tr' rv' k2 hK
              cases hk : kindChild s (atomKind (deduceAtom a (some lv))) (some lv) pe with
              | none => rfl
              | some q =>
                obtain ⟨tr'', xo⟩ := q
                rw [hoth tr'' xo hk]
                rfl
      · rintro ⟨hrs, hln⟩
        have hr : ∃ rv, r = some rv := by
          cases r with
          | none => simp [nodeAtO] at hrs
          | some x => exact ⟨x, rfl⟩
        obtain ⟨rv, rfl⟩ := hr
        obtain ⟨e, he, heR⟩ := hrunR rfl
        rw [nodeAtO_cons s tr a _ pe rest hres, ← heR] at hrs
        cases k2 : kindChild s e.1 (some rv) pe with
        | none => rw [k2] at hrs; cases hrs
        | some q =>
          obtain ⟨tr', rc⟩ := q
          rw [k2] at hrs
          simp only [] at hrs
          obtain ⟨lc, k1⟩ := kindChild_same s e.1 (some rv) l pe tr' rc k2
          have hrc : rc.isSome = true := by
            cases rc with
            | none => simp [nodeAtO] at hrs
            | some x => rfl
          obtain ⟨ci, k4⟩ := (hpaths e he).2 pe tr' lc rc k1 k2 (Or.inr hrc)
          obtain ⟨sl, sr⟩ := hside e he
          have hih := ih lc rc tr' ci k4 (kindChild_valid s e.1 l sl pe tr' lc k1)
            (kindChild_valid s e.1 (some rv) sr pe tr' rc k2) rest
          have hlc : (nodeAtO s tr' lc rest).isNone = true := by
            cases l with
            | none => rw [kindChild_none s e.1 pe tr' lc k1]; rfl
            | some lv =>
              by_cases hK : e.1 = atomKind (deduceAtom a (some lv))
              · rw [nodeAtO_cons s tr a _ pe rest hres, ← hK, k1] at hln
                exact hln
              · rw [heR] at hK k1
                rw [kindChild_cross s a (some rv) lv hK pe tr' lc k1]; rfl
          refine ⟨e, he, ((hpaths e he).1 Side.added pe rest).2 ⟨tr', lc, rc, ci, k1, k2, Or.inr hrc, k4, ?_⟩⟩
          simp only [Cmp.get]
          rw [hih, hrs, hlc]; rfl

/-- modified paths designate nodes of both operands, with different values -/
def ModSound (s : Schema) (rec : CmpRec) : Prop :=
  ∀ (lc rc : Option Value) (tr : TypeRef) (ci : Cmp), rec lc rc tr = .ok ci → VO s tr lc → VO s tr rc →
    ∀ p, pmem p ci.modified = true →
      ∃ lv rv, nodeAtO s tr lc p = some lv ∧ nodeAtO s tr rc p = some rv ∧ Value.equals lv rv = false

theorem cmpNode_modified (s : Schema) : ∀ n : Nat, ModSound s (cmpNode s n) := by
  intro n
  induction n with
  | zero => intro l r tr c h; cases h
  | succ n ih =>
    intro l r tr c h hvl hvr p hp
    obtain ⟨a, hres, hsome, _, _, hM, runs, hruns, hpaths, hrunR, hrunL, hcons, _, _⟩ := cmpNode_runs s n l r tr c h hvl hvr
    cases p with
    | nil =>
      obtain ⟨lv, rv, rfl, rfl, he⟩ := hM hp
      exact ⟨lv, rv, rfl, rfl, he⟩
    | cons pe rest =>
      have hc := hcons Side.modified pe rest
      simp only [Cmp.get] at hc
      rw [hc, List.any_eq_true] at hp
      obtain ⟨e, he, hp⟩ := hp
      have hside : SideV s e.1 l ∧ SideV s e.1 r := by
        rcases hruns e he with ⟨h1, _⟩ | ⟨h1, _⟩ <;> rw [h1] <;>
          exact ⟨sideV_of_valid s tr a hres l hvl _, sideV_of_valid s tr a hres r hvr _⟩
      obtain ⟨tr', lc, rc, ci, k1, k2, k3, k4, k5⟩ := ((hpaths e he).1 Side.modified pe rest).1 hp
      obtain ⟨lv', rv', e1, e2, e3⟩ := ih lc rc tr' ci k4 (kindChild_valid s e.1 l hside.1 pe tr' lc k1)
        (kindChild_valid s e.1 r hside.2 pe tr' rc k2) rest k5
      refine ⟨lv', rv', ?_, ?_, e3⟩
      · cases l with
        | none => rw [kindChild_none s e.1 pe tr' lc k1] at e1; cases e1
        | some lv =>
          by_cases hK : e.1 = atomKind (deduceAtom a (some lv))
          · rw [nodeAtO_cons s tr a _ pe rest hres, ← hK, k1]; exact e1
          · have heR : e.1 = atomKind (deduceAtom a r) := by
              rcases hruns e he with ⟨h1, _⟩ | ⟨h1, _⟩
              · exact absurd h1 hK
              · exact h1
            rw [heR] at hK k1
            rw [kindChild_cross s a r lv hK pe tr' lc k1] at e1; cases e1
      · cases r with
        | none => rw [kindChild_none s e.1 pe tr' rc k2] at e2; cases e2
        | some rv =>
          by_cases hK : e.1 = atomKind (deduceAtom a (some rv))
          · rw [nodeAtO_cons s tr a _ pe rest hres, ← hK, k2]; exact e2
          · have heL : e.1 = atomKind (deduceAtom a l) := by
              rcases hruns e he with ⟨h1, _⟩ | ⟨h1, _⟩
              · exact h1
              · exact absurd h1 hK
            rw [heL] at hK k2
            rw [kindChild_cross s a l rv hK pe tr' rc k2] at e2; cases e2

/-- removed = designates a node of the left operand and none of the right one -/
theorem cmpNode_removed (s : Schema) (n : Nat) (l r : Option Value) (tr : TypeRef) (c : Cmp)
    (h : cmpNode s n l r tr = .ok c) (hvl : VO s tr l) (hvr : VO s tr r) (p : Path) :
    pmem p c.removed = ((nodeAtO s tr l p).isSome && (nodeAtO s tr r p).isNone) := by
  obtain ⟨c', hc', hsw⟩ := cmpNode_swap s n l r tr tr (TypeRef.equals_refl tr) c h
  rw [← cmpNode_added s n r l tr c' hc' hvr hvl p]
  exact (hsw Side.removed p).symm

end CmpX
end SMD

namespace SMD
namespace CmpX
open NodeLaws

/-! ### `nodeAt` cannot tell `TypeRef.equals` references apart -/

theorem nodeAt_congr (s : Schema) : ∀ (p : Path) (tr tr' : TypeRef) (v : Value),
    TypeRef.equals tr tr' = true → nodeAt s tr v p = nodeAt s tr' v p
  | [], _, _, _, _ => rfl
  | pe :: rest, tr, tr', v, h => by
    have hk := resolveKind_congr s h (some v)
    rw [nodeAt, nodeAt]
    cases h1 : resolveKind s tr (some v) <;> cases h2 : resolveKind s tr' (some v) <;>
      simp only [h1, h2, OptRel] at hk ⊢
    next K K' =>
    cases K <;> cases K' <;> simp only [KindRel] at hk ⊢
    · next t t' =>
      obtain ⟨_, hrel, _⟩ := MapT.equals_inv hk
      rw [← hrel]
      split
      · rfl
      · cases v with
        | map m =>
          cases pe with
          | field k =>
            simp only []
            cases lookupField k m with
            | none => rfl
            | some x => exact nodeAt_congr s rest _ _ x (fieldType_congr hk k)
          | _ => rfl
        | _ => rfl
    · next t t' =>
      obtain ⟨he, hrel, _⟩ := ListT.equals_inv hk
      rw [← hrel]
      split
      · rfl
      · cases v with
        | list l =>
          simp only []
          have : (fun c => PE.equals (peOf s t c) pe) = (fun c => PE.equals (peOf s t' c) pe) := by
            funext c; exact PE.equals_congr_left (peOf_congr s hk c) pe
          rw [this]
          cases l.find? (fun c => PE.equals (peOf s t' c) pe) with
          | none => rfl
          | some x => exact nodeAt_congr s rest _ _ x he
        | _ => rfl

/-! ### the three sets of `compareTV` -/

theorem compareTV_inv (s : Schema) (l r : TV) (c : Comparison) (h : compareTV s l r = .ok c) :
    TypeRef.equals l.type r.type = true ∧
      ∃ c0, cmpNode s (l.value.depth + r.value.depth + 2) (some l.value) (some r.value) l.type = .ok c0 ∧
        c = ⟨SetTrie.ofPaths c0.removed, SetTrie.ofPaths c0.modified, SetTrie.ofPaths c0.added⟩ := by
  unfold compareTV at h
  cases htr : TypeRef.equals l.type r.type with
  | false => simp [htr] at h
  | true =>
    simp only [htr, Bool.not_true, Bool.false_eq_true, if_false] at h
    cases hc : cmpNode s (l.value.depth + r.value.depth + 2) (some l.value) (some r.value) l.type with
    | err => simp [hc] at h
    | panic => simp [hc] at h
    | ok c0 =>
      simp only [hc, Res.ok.injEq] at h
      exact ⟨rfl, c0, rfl, h.symm⟩

theorem compareTV_valid (s : Schema) (l r : TV) (htr : TypeRef.equals l.type r.type = true)
    (hl : validateV s false l.type l.value = .ok ()) (hr : validateV s false r.type r.value = .ok ()) :
    VO s l.type (some l.value) ∧ VO s l.type (some r.value) := by
  constructor
  · intro v hv; cases hv; exact hl
  · intro v hv; cases hv; rw [validateV_congr s false r.value _ _ htr]; exact hr

/-- added = designates a node of the right operand and none of the left one -/
theorem compareTV_added_nodes (s : Schema) (l r : TV) (c : Comparison)
    (hl : validateV s false l.type l.value = .ok ()) (hr : validateV s false r.type r.value = .ok ())
    (h : compareTV s l r = .ok c) (p : Path) :
    c.added.has p = (!p.isEmpty && (nodeAt s r.type r.value p).isSome && (nodeAt s l.type l.value p).isNone) := by
  obtain ⟨htr, c0, hc0, rfl⟩ := compareTV_inv s l r c h
  obtain ⟨vl, vr⟩ := compareTV_valid s l r htr hl hr
  simp only [has_ofPaths_pmem, cmpNode_added s _ _ _ _ c0 hc0 vl vr p, nodeAtO, Bool.and_assoc]
  rw [nodeAt_congr s p _ _ r.value htr]

/-- removed = designates a node of the left operand and none of the right one -/
theorem compareTV_removed_nodes (s : Schema) (l r : TV) (c : Comparison)
    (hl : validateV s false l.type l.value = .ok ()) (hr : validateV s false r.type r.value = .ok ())
    (h : compareTV s l r = .ok c) (p : Path) :
    c.removed.has p = (!p.isEmpty && (nodeAt s l.type l.value p).isSome && (nodeAt s r.type r.value p).isNone) := by
  obtain ⟨htr, c0, hc0, rfl⟩ := compareTV_inv s l r c h
  obtain ⟨vl, vr⟩ := compareTV_valid s l r htr hl hr
  simp only [has_ofPaths_pmem, cmpNode_removed s _ _ _ _ c0 hc0 vl vr p, nodeAtO, Bool.and_assoc]
  rw [nodeAt_congr s p _ _ r.value htr]

/-- modified paths designate nodes of both operands, with different values -/
theorem compareTV_modified_nodes (s : Schema) (l r : TV) (c : Comparison)
    (hl : validateV s false l.type l.value = .ok ()) (hr : validateV s false r.type r.value = .ok ())
    (h : compareTV s l r = .ok c) (p : Path) (hm : c.modified.has p = true) :
    ∃ lv rv, nodeAt s l.type l.value p = some lv ∧ nodeAt s r.type r.value p = some rv ∧
      Value.equals lv rv = false := by
  obtain ⟨htr, c0, hc0, rfl⟩ := compareTV_inv s l r c h
  obtain ⟨vl, vr⟩ := compareTV_valid s l r htr hl hr
  simp only [has_ofPaths_pmem, Bool.and_eq_true] at hm
  obtain ⟨lv, rv, h1, h2, h3⟩ := cmpNode_modified s _ _ _ _ c0 hc0 vl vr p hm.2
  refine ⟨lv, rv, h1, ?_, h3⟩
  rw [← nodeAt_congr s p _ _ r.value htr]
  exact h2

theorem compareTV_disjoint (s : Schema) (l r : TV) (c : Comparison)
    (hl : validateV s false l.type l.value = .ok ()) (hr : validateV s false r.type r.value = .ok ())
    (h : compareTV s l r = .ok c) (p : Path) :
    ¬ (c.added.has p = true ∧ c.removed.has p = true) ∧
    ¬ (c.added.has p = true ∧ c.modified.has p = true) ∧
    ¬ (c.removed.has p = true ∧ c.modified.has p = true) := by
  rw [compareTV_added_nodes s l r c hl hr h p, compareTV_removed_nodes s l r c hl hr h p]
  refine ⟨?_, ?_, ?_⟩
  · rintro ⟨h1, h2⟩
    simp only [Bool.and_eq_true] at h1 h2
    have := h1.2
    rw [Option.isNone_iff_eq_none] at this
    rw [this] at h2
    simp at h2
  · rintro ⟨h1, h2⟩
    obtain ⟨lv, rv, e1, _, _⟩ := compareTV_modified_nodes s l r c hl hr h p h2
    simp only [Bool.and_eq_true] at h1
    rw [e1] at h1
    simp at h1
  · rintro ⟨h1, h2⟩
    obtain ⟨lv, rv, _, e2, _⟩ := compareTV_modified_nodes s l r c hl hr h p h2
    simp only [Bool.and_eq_true] at h1
    rw [e2] at h1
    simp at h1

end CmpX
end SMD

namespace SMD
namespace CmpX
open NodeLaws

/-! ### the same, against the independent resolver -/

/-- the path designates a node of the object that field paths can address: `Nodes.valueAt` finds a
value, and the path does not pass through an atomic list or map -/
def designates (s : Schema) (tr : TypeRef) (v : Value) (p : Path) : Bool :=
  Nodes.present s tr v p && !throughAtomic s tr v p

theorem validateV_true_of_false (s : Schema) (tr : TypeRef) (v : Value) (h : validateV s false tr v = .ok ()) :
    validateV s true tr v = .ok () :=
  (validateV_iff s true v tr).2 (conforms_dup_mono s v tr ((validateV_iff s false v tr).1 h))

theorem nodeAt_isSome_eq_designates (s : Schema) (tr : TypeRef) (v : Value) (p : Path)
    (hv : validateV s false tr v = .ok ()) (hla : listsAssociative s tr v = true) (hidx : ∀ i, PE.index i ∉ p) :
    (nodeAt s tr v p).isSome = designates s tr v p := by
  rw [nodeAt_eq_valueAt s p tr v (validateV_true_of_false s tr v hv) hla (notIndex_of_no_index hidx)]
  unfold designates Nodes.present
  cases throughAtomic s tr v p <;> simp

theorem nodeAt_eq_valueAt_of_some (s : Schema) (tr : TypeRef) (v : Value) (p : Path) (x : Value)
    (hv : validateV s false tr v = .ok ()) (hla : listsAssociative s tr v = true) (hidx : ∀ i, PE.index i ∉ p)
    (h : nodeAt s tr v p = some x) : Nodes.valueAt s tr v p = some x := by
  rw [nodeAt_eq_valueAt s p tr v (validateV_true_of_false s tr v hv) hla (notIndex_of_no_index hidx)] at h
  split at h
  · cases h
  · exact h

theorem compareTV_added_designates (s : Schema) (l r : TV) (c : Comparison)
    (hl : validateV s false l.type l.value = .ok ()) (hr : validateV s false r.type r.value = .ok ())
    (hla : listsAssociative s l.type l.value = true) (hra : listsAssociative s r.type r.value = true)
    (h : compareTV s l r = .ok c) (p : Path) (hidx : ∀ i, PE.index i ∉ p) :
    c.added.has p = (!p.isEmpty && designates s r.type r.value p && !designates s l.type l.value p) := by
  rw [compareTV_added_nodes s l r c hl hr h p, nodeAt_isSome_eq_designates s _ _ p hr hra hidx,
    ← nodeAt_isSome_eq_designates s _ _ p hl hla hidx]
  cases nodeAt s l.type l.value p <;> rfl

theorem compareTV_removed_designates (s : Schema) (l r : TV) (c : Comparison)
    (hl : validateV s false l.type l.value = .ok ()) (hr : validateV s false r.type r.value = .ok ())
    (hla : listsAssociative s l.type l.value = true) (hra : listsAssociative s r.type r.value = true)
    (h : compareTV s l r = .ok c) (p : Path) (hidx : ∀ i, PE.index i ∉ p) :
    c.removed.has p = (!p.isEmpty && designates s l.type l.value p && !designates s r.type r.value p) := by
  rw [compareTV_removed_nodes s l r c hl hr h p, nodeAt_isSome_eq_designates s _ _ p hl hla hidx,
    ← nodeAt_isSome_eq_designates s _ _ p hr hra hidx]
  cases nodeAt s r.type r.value p <;> rfl

/-- no path reported by a comparison contains an index element -/
theorem nodeAt_some_no_index (s : Schema) : ∀ (p : Path) (tr : TypeRef) (v x : Value),
    nodeAt s tr v p = some x → ∀ i, PE.index i ∉ p
  | [], _, _, _, _, i => by simp
  | pe :: rest, tr, v, x, h, i => by
    rw [nodeAt] at h
    intro hmem
    cases hk : resolveKind s tr (some v) with
    | none => simp [hk] at h
    | some K =>
      rw [hk] at h
      cases K with
      | invalid => cases h
      | scalar t => cases h
      | map t =>
        simp only [] at h
        split at h
        · cases h
        · cases v with
          | map m =>
            cases pe with
            | field k =>
              simp only [] at h
              cases hl : lookupField k m with
              | none => simp [hl] at h
              | some y =>
                simp only [hl] at h
                rcases List.mem_cons.1 hmem with h1 | h1
                · cases h1
                · exact nodeAt_some_no_index s rest _ y x h i h1
            | _ => cases h
          | _ => cases h
      | list t =>
        simp only [] at h
        split at h
        · cases h
        · cases v with
          | list l =>
            simp only [] at h
            cases hf : l.find? (fun c => PE.equals (peOf s t c) pe) with
            | none => simp [hf] at h
            | some y =>
              simp only [hf] at h
              rcases List.mem_cons.1 hmem with h1 | h1
              · subst h1
                have := List.find?_some hf
                have hpo : ∀ c, PE.equals (peOf s t c) (PE.index i) = false := by
                  intro c
                  have h0 := peOf_not_field s t c ""
                  cases hc : peOf s t c <;> simp_all [PE.equals]
                  · exfalso
                    unfold peOf listItemToPE at hc
                    split at hc
                    · next pe' hpe' =>
                      split at hpe'
                      · cases hpe'
                      · split at hpe'
                        · cases c with
                          | map m =>
                            simp only [] at hpe'
                            cases hk' : keyFieldsOf s t m t.keys with
                            | ok fl => simp [hk', bind, Res.bind, pure] at hpe'; subst hpe'; cases hc
                            | err => simp [hk', bind, Res.bind] at hpe'
                            | panic => simp [hk', bind, Res.bind] at hpe'
                          | _ => cases hpe'
                        · cases c <;> first | (cases hpe'; done) | (simp only [Res.ok.injEq] at hpe'; subst hpe'; cases hc)
                    · cases hc
                rw [hpo y] at this
                cases this
              · exact nodeAt_some_no_index s rest _ y x h i h1
          | _ => cases h

end CmpX
end SMD

namespace SMD
namespace CmpX
open NodeLaws

theorem compareTV_modified_designates (s : Schema) (l r : TV) (c : Comparison)
    (hl : validateV s false l.type l.value = .ok ()) (hr : validateV s false r.type r.value = .ok ())
    (hla : listsAssociative s l.type l.value = true) (hra : listsAssociative s r.type r.value = true)
    (h : compareTV s l r = .ok c) (p : Path) (hm : c.modified.has p = true) :
    designates s l.type l.value p = true ∧ designates s r.type r.value p = true ∧
      Nodes.valueAt s l.type l.value p ≠ Nodes.valueAt s r.type r.value p := by
  obtain ⟨lv, rv, h1, h2, h3⟩ := compareTV_modified_nodes s l r c hl hr h p hm
  have hidx := nodeAt_some_no_index s p _ _ _ h1
  refine ⟨?_, ?_, ?_⟩
  · rw [← nodeAt_isSome_eq_designates s _ _ p hl hla hidx, h1]; rfl
  · rw [← nodeAt_isSome_eq_designates s _ _ p hr hra hidx, h2]; rfl
  · rw [nodeAt_eq_valueAt_of_some s _ _ p lv hl hla hidx h1, nodeAt_eq_valueAt_of_some s _ _ p rv hr hra hidx h2]
    intro he
    cases he
    rw [Value.equals_refl] at h3
    cases h3

/-- nothing reported: the same paths designate nodes in both operands -/
theorem compareTV_same_nodes (s : Schema) (l r : TV) (c : Comparison)
    (hl : validateV s false l.type l.value = .ok ()) (hr : validateV s false r.type r.value = .ok ())
    (h : compareTV s l r = .ok c) (hsame : c.isSame = true) (p : Path) :
    (nodeAt s l.type l.value p).isSome = (nodeAt s r.type r.value p).isSome := by
  simp only [Comparison.isSame, Bool.and_eq_true] at hsame
  have ha := compareTV_added_nodes s l r c hl hr h p
  have hr' := compareTV_removed_nodes s l r c hl hr h p
  rw [SetTrie.has_of_isEmpty p _ hsame.2] at ha
  rw [SetTrie.has_of_isEmpty p _ hsame.1.1] at hr'
  cases p with
  | nil => simp [nodeAt]
  | cons pe rest =>
    simp only [List.isEmpty_cons, Bool.not_false, Bool.true_and] at ha hr'
    generalize nodeAt s l.type l.value (pe :: rest) = x at ha hr' ⊢
    generalize nodeAt s r.type r.value (pe :: rest) = y at ha hr' ⊢
    cases x <;> cases y <;> simp at ha hr' ⊢

theorem compareTV_swap_err_or_panic (s : Schema) (l r : TV) (h : compareTV s l r = .err) :
    compareTV s r l = .err ∨ compareTV s r l = .panic := by
  cases h' : compareTV s r l with
  | err => exact Or.inl rfl
  | panic => exact Or.inr rfl
  | ok c =>
    obtain ⟨c', hc', _⟩ := compareTV_swap_sets s r l c h'
    rw [h] at hc'
    cases hc'

end CmpX
end SMD

namespace SMD
namespace CmpX
open NodeLaws

/-! ### nothing reported: same field sets (canonical operands) -/

theorem compareTV_listsAssociative (s : Schema) (l r : TV) (c : Comparison)
    (hl : validateV s false l.type l.value = .ok ()) (hr : validateV s false r.type r.value = .ok ())
    (hcl : canon l.value = true) (h : compareTV s l r = .ok c) : listsAssociative s l.type l.value = true := by
  obtain ⟨htr, c0, hc0, _⟩ := compareTV_inv s l r c h
  obtain ⟨vl, vr⟩ := compareTV_valid s l r htr hl hr
  exact cmpNode_listsAssociative s _ _ _ _ c0 hc0 vl vr _ rfl hcl

theorem toFieldSet_has (s : Schema) (tv : TV) (fs : SetTrie) (hv : validateV s false tv.type tv.value = .ok ())
    (hc : canon tv.value = true) (hla : listsAssociative s tv.type tv.value = true)
    (hfs : toFieldSet s tv = .ok fs) (p : Path) : fs.has p = (!p.isEmpty && inFS s tv.type tv.value p) := by
  unfold toFieldSet toFieldSetPaths at hfs
  cases hps : fsV s tv.type tv.value with
  | err => simp [hps] at hfs
  | panic => simp [hps] at hfs
  | ok ps =>
    simp only [hps, Res.ok.injEq] at hfs
    subst hfs
    rw [has_ofPaths_pmem, fsV_char s _ _ ps hv hc hla hps p]

theorem compareTV_same_fieldsets (s : Schema) (l r : TV) (c : Comparison) (fl fr : SetTrie)
    (hl : validateV s false l.type l.value = .ok ()) (hr : validateV s false r.type r.value = .ok ())
    (hcl : canon l.value = true) (hcr : canon r.value = true)
    (h : compareTV s l r = .ok c) (hsame : c.isSame = true)
    (hfl : toFieldSet s l = .ok fl) (hfr : toFieldSet s r = .ok fr) (p : Path) :
    fl.has p = fr.has p := by
  obtain ⟨c', hc', _⟩ := compareTV_swap_sets s l r c h
  have hla := compareTV_listsAssociative s l r c hl hr hcl h
  have hra := compareTV_listsAssociative s r l c' hr hl hcr hc'
  obtain ⟨htr, c0, hc0, rfl⟩ := compareTV_inv s l r c h
  obtain ⟨vl, vr⟩ := compareTV_valid s l r htr hl hr
  rw [toFieldSet_has s l fl hl hcl hla hfl p, toFieldSet_has s r fr hr hcr hra hfr p]
  cases p with
  | nil => rfl
  | cons pe rest =>
    have htr' : TypeRef.equals r.type l.type = true := by rw [TypeRef.equals_symm]; exact htr
    rw [inFS_congr s _ r.type l.type r.value htr']
    have hnil : NonRootNil c0 := by
      intro k pe' rest'
      simp only [Comparison.isSame, Bool.and_eq_true] at hsame
      cases k with
      | removed =>
        have := SetTrie.has_of_isEmpty (pe' :: rest') _ hsame.1.1
        rw [has_ofPaths_pmem] at this
        simpa [Cmp.get] using this
      | modified =>
        have := SetTrie.has_of_isEmpty (pe' :: rest') _ hsame.1.2
        rw [has_ofPaths_pmem] at this
        simpa [Cmp.get] using this
      | added =>
        have := SetTrie.has_of_isEmpty (pe' :: rest') _ hsame.2
        rw [has_ofPaths_pmem] at this
        simpa [Cmp.get] using this
    rw [fsEq_of_imp s _ (cmpNode_fsImp s _) l.value r.value l.type c0 hc0 vl vr hnil pe rest]

end CmpX
end SMD
