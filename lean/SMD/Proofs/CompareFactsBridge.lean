/- helper lemmas for SMD/Properties/C06Nodes.lean: the Compare facts needed by the C06 invariant,
derived from the C11 exactness theorems -/
import SMD.Proofs.ConsistencyInvariant
import SMD.Proofs.CompareExact
import SMD.Properties.C11Exact
import SMD.Properties.C06
set_option linter.unusedSimpArgs false
set_option linter.unusedVariables false
namespace SMD
namespace CmpX
open NodeLaws

/-! ### a comparison that succeeds has indexed every list it met: on its operands the typed walkers'
reading of a path (`nodeAt`) agrees with the independent resolver (`Nodes.valueAt`)

No hypothesis on the lists of the operand (`listsAssociative` may fail of a valid operand: a shadowed
entry of a repeated map key is never visited by the comparison) nor on the path (a path that `nodeAt`
resolves has no index element). -/

theorem cmpNode_valueAt_left (s : Schema) : ∀ (n : Nat) (l r : Option Value) (tr : TypeRef) (c : Cmp),
    cmpNode s n l r tr = .ok c → VO s tr l → VO s tr r → ∀ lv, l = some lv →
    ∀ (p : Path) (x : Value), nodeAt s tr lv p = some x → Nodes.valueAt s tr lv p = some x := by
  intro n
  induction n with
  | zero => intro l r tr c h; cases h
  | succ n ih =>
    intro l r tr c h hvl hvr lv hl p x hp
    subst hl
    cases p with
    | nil => simpa [nodeAt, valueAt_nil] using hp
    | cons pe rest =>
      obtain ⟨a, hres, _, _, _, _, runs, hruns, hpaths, _, hrunL, _, _, hshape⟩ :=
        cmpNode_runs s n _ _ tr c h hvl hvr
      obtain ⟨e, he, heK⟩ := hrunL rfl
      have hsl : SideV s e.1 (some lv) := by rw [heK]; exact sideV_of_valid s tr a hres _ hvl _
      have hsr : SideV s e.1 r := by rw [heK]; exact sideV_of_valid s tr a hres _ hvr _
      have hidx := nodeAt_some_no_index s (pe :: rest) tr lv x hp
      have hpe : pe.notIndex = true := notIndex_of_no_index hidx pe List.mem_cons_self
      rw [nodeAt_cons s tr a lv pe rest hres, ← heK] at hp
      cases k1 : kindChild s e.1 (some lv) pe with
      | none => rw [k1] at hp; cases hp
      | some q =>
        obtain ⟨tr', yo⟩ := q
        rw [k1] at hp
        simp only [] at hp
        cases yo with
        | none => cases hp
        | some y =>
          simp only [nodeAtO] at hp
          obtain ⟨rc, k2⟩ := kindChild_same s e.1 (some lv) r pe tr' _ k1
          obtain ⟨ci, hci⟩ := (hpaths e he).2 pe tr' _ rc k1 k2 (Or.inl rfl)
          have hrec := ih _ rc tr' ci hci (kindChild_valid s e.1 _ hsl pe tr' _ k1)
            (kindChild_valid s e.1 r hsr pe tr' rc k2) y rfl rest x hp
          -- the independent resolver makes the same step
          suffices hstep : Nodes.childAt s tr lv pe = some (tr', y) by
            rw [valueAt_cons, hstep]; exact hrec
          cases hK : e.1 with
          | invalid => rw [hK] at k1; simp [kindChild] at k1
          | scalar t => rw [hK] at k1; simp [kindChild] at k1
          | map t =>
            rw [hK] at k1 heK
            have ha := atomKind_deduce_map_inv a _ t heK.symm
            simp only [kindChild] at k1
            split at k1
            · cases k1
            · cases pe with
              | field k =>
                simp only [Option.some.injEq, Prod.mk.injEq] at k1
                obtain ⟨rfl, hlk⟩ := k1
                cases lv with
                | map m =>
                  simp only [asMap, Option.getD_some] at hlk
                  rw [childAt_map m k hres ha, hlk]; rfl
                | _ => simp [asMap, lookupField] at hlk
              | _ => cases k1
          | list t =>
            rw [hK] at k1 heK
            have ha := atomKind_deduce_list_inv a _ t heK.symm
            simp only [kindChild] at k1
            split at k1
            · cases k1
            · next hna =>
              have hat : (t.rel == "atomic") = false := by simpa using hna
              simp only [Option.some.injEq, Prod.mk.injEq] at k1
              obtain ⟨rfl, hlk⟩ := k1
              cases lv with
              | list ll =>
                simp only [listChild, asList, Option.getD_some] at hlk
                have hall := (hshape e he).2 t hK hat
                have hmem : y ∈ ll := find?_mem' hlk
                have hrel : t.rel = "associative" := by
                  obtain ⟨pe', hpe'⟩ := hall y (by simp [asList, hmem])
                  exact listItemToPE_ok_assoc hpe'
                rw [childAt_list ll pe hres ha hpe,
                  itemAt_eq_find s t pe hrel hpe ll (fun c hc => hall c (by simp [asList, hc])), hlk]
                rfl
              | _ => simp [listChild, asList] at hlk

/-- on the left operand of a comparison that succeeds, a path the typed walkers resolve is resolved to
the same value by the independent resolver -/
theorem compareTV_valueAt_left (s : Schema) (l r : TV) (c : Comparison)
    (hl : validateV s false l.type l.value = .ok ()) (hr : validateV s false r.type r.value = .ok ())
    (h : compareTV s l r = .ok c) (p : Path) (x : Value) (hp : nodeAt s l.type l.value p = some x) :
    Nodes.valueAt s l.type l.value p = some x := by
  obtain ⟨htr, c0, hc0, _⟩ := compareTV_inv s l r c h
  obtain ⟨vl, vr⟩ := compareTV_valid s l r htr hl hr
  exact cmpNode_valueAt_left s _ _ _ _ c0 hc0 vl vr _ rfl p x hp

/-- the same on the right operand -/
theorem compareTV_valueAt_right (s : Schema) (l r : TV) (c : Comparison)
    (hl : validateV s false l.type l.value = .ok ()) (hr : validateV s false r.type r.value = .ok ())
    (h : compareTV s l r = .ok c) (p : Path) (x : Value) (hp : nodeAt s r.type r.value p = some x) :
    Nodes.valueAt s r.type r.value p = some x := by
  obtain ⟨c', hc', _⟩ := compareTV_swap_sets s l r c h
  exact compareTV_valueAt_left s r l c' hr hl hc' p x hp

/-! ### prefixes -/

theorem nodeAt_prefix (s : Schema) : ∀ (p q : Path) (tr : TypeRef) (v : Value),
    (nodeAt s tr v (p ++ q)).isSome = true → (nodeAt s tr v p).isSome = true
  | [], _, _, _, _ => by simp [nodeAt]
  | pe :: rest, q, tr, v, h => by
    simp only [List.cons_append] at h
    rw [nodeAt] at h ⊢
    cases hk : resolveKind s tr (some v) with
    | none => rw [hk] at h; cases h
    | some K =>
      rw [hk] at h
      cases K with
      | invalid => cases h
      | scalar t => cases h
      | map t =>
        simp only [] at h ⊢
        split
        · next hat => simp [hat] at h
        · next hat =>
          simp only [hat, if_false] at h
          cases v with
          | map m =>
            cases pe with
            | field k =>
              simp only [] at h ⊢
              cases hl : lookupField k m with
              | none => simp [hl] at h
              | some y =>
                simp only [hl] at h ⊢
                exact nodeAt_prefix s rest q _ y h
            | _ => cases h
          | _ => cases h
      | list t =>
        simp only [] at h ⊢
        split
        · next hat => simp [hat] at h
        · next hat =>
          simp only [hat, if_false] at h
          cases v with
          | list l =>
            simp only [] at h ⊢
            cases hf : l.find? (fun c => PE.equals (peOf s t c) pe) with
            | none => simp [hf] at h
            | some y =>
              simp only [hf] at h ⊢
              exact nodeAt_prefix s rest q _ y h
          | _ => cases h

theorem present_prefix (s : Schema) : ∀ (p q : Path) (tr : TypeRef) (v : Value),
    Nodes.present s tr v (p ++ q) = true → Nodes.present s tr v p = true
  | [], _, _, _, _ => by simp [Nodes.present, valueAt_nil]
  | pe :: rest, q, tr, v, h => by
    simp only [List.cons_append, Nodes.present] at h ⊢
    rw [valueAt_cons] at h ⊢
    cases hc : Nodes.childAt s tr v pe with
    | none => rw [hc] at h; cases h
    | some c =>
      obtain ⟨tr', v'⟩ := c
      rw [hc] at h
      exact present_prefix s rest q tr' v' h

end CmpX

/-! ### the notion of presence for which Compare is exact -/

/-- the path is not the root, the typed walkers resolve it to a node of the object (`CmpX.nodeAt`: map
entries by name, list members by their path element, nothing inside atomic lists and maps nor beneath
scalars) and so does the independent resolver (`Nodes.present`) -/
def NodePresence (sc : Schema) : Presence := fun tr v p =>
  p ≠ [] ∧ (CmpX.nodeAt sc tr v p).isSome = true ∧ Nodes.present sc tr v p = true

theorem nodePresence_prefixClosed (sc : Schema) : PrefixClosed (NodePresence sc) := by
  intro tr v p q hp h
  exact ⟨hp, CmpX.nodeAt_prefix sc p q tr v h.2.1, CmpX.present_prefix sc p q tr v h.2.2⟩

theorem present_of_nodePresence {sc : Schema} {tr : TypeRef} {v : Value} {p : Path}
    (h : NodePresence sc tr v p) : Nodes.present sc tr v p = true := h.2.2

/-- the three facts the bookkeeping of C06 needs from Compare hold for `NodePresence`, for every schema -/
theorem compareFacts_nodePresence (sc : Schema) : CompareFacts sc (NodePresence sc) where
  added := by
    intro l r c hl hr h p hp
    obtain ⟨hne, hsome, _⟩ := (C11.compare_added_iff_partial sc l r c hl hr h p).1 hp
    obtain ⟨x, hx⟩ := Option.isSome_iff_exists.1 hsome
    refine ⟨hne, hsome, ?_⟩
    simp only [Nodes.present, CmpX.compareTV_valueAt_right sc l r c hl hr h p x hx, Option.isSome_some]
  modified := by
    intro l r c hl hr h p hp
    obtain ⟨lv, rv, _, hx, _⟩ := C11.compare_modified_sound_partial sc l r c hl hr h p hp
    refine ⟨SetTrie.has_true_ne_nil hp, by rw [hx]; rfl, ?_⟩
    simp only [Nodes.present, CmpX.compareTV_valueAt_right sc l r c hl hr h p rv hx, Option.isSome_some]
  removed := by
    intro l r c hl hr h p hpl hnr
    rw [C11.compare_removed_iff_partial sc l r c hl hr h p]
    refine ⟨hpl.1, hpl.2.1, ?_⟩
    cases hx : CmpX.nodeAt sc r.type r.value p with
    | none => rfl
    | some x =>
      exfalso
      apply hnr
      refine ⟨hpl.1, by rw [hx]; rfl, ?_⟩
      simp only [Nodes.present, CmpX.compareTV_valueAt_right sc l r c hl hr h p x hx, Option.isSome_some]

/-! ### the Compare facts fail for `VisibleNode` (presence by the independent resolver alone)

`Nodes.childAt` also resolves positional index elements; Compare never reports a path with an index
element.  World of SMD/Proofs/ConsistencyCounterexamples.lean: the type `{f: set of strings}`, left
`{f: ["x"]}`, right `null`, path `.f[0]`: visible on the left, not on the right, not reported removed
(the comparison reports `.f["x"]` and `.f`). -/
namespace Counter06

theorem visible_index_left (sc : Schema) : visibleNode sc trF liveF [.field "f", .index 0] = true := by
  with_unfolding_all rfl
theorem visible_index_right (sc : Schema) : visibleNode sc trF .null [.field "f", .index 0] = false := by
  with_unfolding_all rfl
theorem nodeAt_index_left (sc : Schema) : CmpX.nodeAt sc trF liveF [.field "f", .index 0] = none := by
  with_unfolding_all rfl

end Counter06

theorem compareFacts_visibleNode_false (sc : Schema) : ¬ CompareFacts sc (VisibleNode sc) := by
  intro hc
  obtain ⟨c', hc', _⟩ := C11.compareTV_swap sc ⟨.null, Counter06.trF⟩ ⟨Counter06.liveF, Counter06.trF⟩ _
    (Counter06.compare_null_liveF sc)
  have h := hc.removed ⟨Counter06.liveF, Counter06.trF⟩ ⟨.null, Counter06.trF⟩ c' (Counter06.valid_liveF sc)
    (Counter06.valid_null sc) hc' [.field "f", .index 0] (Counter06.visible_index_left sc)
    (by simp [VisibleNode, Counter06.visible_index_right])
  have h2 := ((C11.compare_removed_iff_partial sc _ _ c' (Counter06.valid_liveF sc) (Counter06.valid_null sc) hc' _).1 h).2.1
  simp only [Counter06.nodeAt_index_left] at h2
  cases h2

end SMD
