/-
Field sets path by path: `inFS` decides membership of a path in the field set of an accepted
canonical object (whose visited lists can be indexed), by walking down the path like `nodeAt`.
-/
import SMD.Proofs.CompareRuns
set_option linter.unusedSimpArgs false
set_option linter.unusedVariables false
namespace SMD
namespace CmpX
open NodeLaws

/-- membership of a path in the field set of an object: the leaves (scalars, atomic lists and maps),
every member of a list, and the entries of a map that are null, an empty map, or not a declared field -/
def inFS (s : Schema) : TypeRef → Value → Path → Bool
  | tr, v, [] =>
    (match resolveKind s tr (some v) with
     | some (.scalar _) => true
     | some (.list t) => t.rel == "atomic"
     | some (.map t) => t.rel == "atomic"
     | _ => false)
  | tr, v, pe :: rest =>
    match resolveKind s tr (some v) with
    | some (.map t) =>
      if t.rel == "atomic" then false
      else
        (match v, pe with
         | .map m, .field k =>
           (match lookupField k m with
            | some x =>
              (rest.isEmpty && (x.isNull || emptyMapLit x || (t.findField k).isNone)) ||
                inFS s (fieldType t k) x rest
            | none => false)
         | _, _ => false)
    | some (.list t) =>
      if t.rel == "atomic" then false
      else
        (match v with
         | .list l =>
           (match l.find? (fun c => PE.equals (peOf s t c) pe) with
            | some x => rest.isEmpty || inFS s t.elementType x rest
            | none => false)
         | _ => false)
    | _ => false

theorem dupMarks_nil (s : Schema) (t : ListT) (hrel : t.rel = "associative") :
    ∀ (l : List Value) (seen : List PE) (i : Nat), validateItems s false t seen i l = .ok () →
      dupMarks s t seen [] l = []
  | [], _, _, _ => rfl
  | child :: rest, seen, i, h => by
    rw [validateItems] at h
    simp only [hrel, bne_self_eq_false, Bool.false_eq_true, if_false] at h
    cases hpe : listItemToPE s t child with
    | err => simp [hpe] at h
    | panic => simp [hpe] at h
    | ok pe =>
      have hpo : peOf s t child = pe := by simp [peOf, hpe]
      simp only [hpe, Bool.not_false, Bool.and_true] at h
      cases hs : peHas pe seen with
      | true => simp [hs] at h
      | false =>
        simp only [hs, Bool.false_eq_true, if_false] at h
        cases hv : validateV s false t.elementType child with
        | err => simp [hv] at h
        | panic => simp [hv] at h
        | ok u =>
          simp only [hv] at h
          rw [dupMarks_cons, hpo, hs]
          simp only [Bool.false_eq_true, if_false]
          exact dupMarks_nil s t hrel rest _ _ h

theorem fsV_leaf_eq (s : Schema) (tr : TypeRef) (v : Value) (hl : v.isList = false) (hm : v.isMap = false) :
    fsV s tr v =
      match resolveKind s tr (some v) with
      | none | some .invalid => .err
      | some (.scalar _) => .ok [[]]
      | some (.list t) => if t.rel == "atomic" then .ok [[]] else .ok []
      | some (.map t) => if t.rel == "atomic" then .ok [[]] else .ok [] := by
  cases v <;> simp [Value.isList, Value.isMap] at hl hm <;> (simp only [fsV]; rfl)

theorem inFS_leaf_cons (s : Schema) (tr : TypeRef) (v : Value) (pe : PE) (rest : Path) (hl : v.isList = false)
    (hm : v.isMap = false) : inFS s tr v (pe :: rest) = false := by
  rw [inFS]
  cases resolveKind s tr (some v) with
  | none => rfl
  | some K =>
    cases K with
    | map t => simp only []; split <;> first | rfl | (cases v <;> simp_all [Value.isList, Value.isMap])
    | list t => simp only []; split <;> first | rfl | (cases v <;> simp_all [Value.isList, Value.isMap])
    | scalar t => rfl
    | invalid => rfl

theorem fsV_char_leaf (s : Schema) (tr : TypeRef) (v : Value) (ps : List Path) (hl : v.isList = false)
    (hm : v.isMap = false) (hfs : fsV s tr v = .ok ps) : ∀ p, pmem p ps = inFS s tr v p := by
  intro p
  rw [fsV_leaf_eq s tr v hl hm] at hfs
  cases p with
  | cons pe rest =>
    rw [inFS_leaf_cons s tr v pe rest hl hm]
    generalize resolveKind s tr (some v) = K at hfs
    cases K with
    | none => cases hfs
    | some K =>
      cases K with
      | invalid => cases hfs
      | scalar t => simp only [Res.ok.injEq] at hfs; subst hfs; simp [Path.equals]
      | list t => simp only [] at hfs; split at hfs <;> (simp only [Res.ok.injEq] at hfs; subst hfs; simp [Path.equals])
      | map t => simp only [] at hfs; split at hfs <;> (simp only [Res.ok.injEq] at hfs; subst hfs; simp [Path.equals])
  | nil =>
    rw [inFS]
    generalize resolveKind s tr (some v) = K at hfs ⊢
    cases K with
    | none => cases hfs
    | some K =>
      cases K with
      | invalid => cases hfs
      | scalar t => simp only [Res.ok.injEq] at hfs; subst hfs; simp [Path.equals]
      | list t =>
        simp only [] at hfs ⊢
        split at hfs <;> (simp only [Res.ok.injEq] at hfs; subst hfs; simp_all [Path.equals])
      | map t =>
        simp only [] at hfs ⊢
        split at hfs <;> (simp only [Res.ok.injEq] at hfs; subst hfs; simp_all [Path.equals])

theorem filter_le_one_tail {α β : Type} (f : α → β → Bool) (c : α) (l : List α)
    (h : ∀ q, ((c :: l).filter (fun x => f x q)).length ≤ 1) : ∀ q, (l.filter (fun x => f x q)).length ≤ 1 := by
  intro q
  have := h q
  simp only [List.filter_cons] at this
  split at this
  · simp only [List.length_cons] at this; omega
  · exact this

theorem resolveKind_map_of' (s : Schema) (tr : TypeRef) (a : Atom) (t : MapT) (m : List (String × Value))
    (hres : s.resolve tr = some a) (ha : a.map = some t) :
    resolveKind s tr (some (.map m)) = some (.map t) := by
  rw [resolveKind_eq s tr a _ hres, atomKind_deduce_map a m t ha]

mutual
theorem fsV_char (s : Schema) : ∀ (v : Value) (tr : TypeRef) (ps : List Path),
    validateV s false tr v = .ok () → canon v = true → listsAssociative s tr v = true →
    fsV s tr v = .ok ps → ∀ p, pmem p ps = inFS s tr v p
  | .null, tr, ps, _, _, _, hfs => fsV_char_leaf s tr _ ps rfl rfl hfs
  | .bool b, tr, ps, _, _, _, hfs => fsV_char_leaf s tr _ ps rfl rfl hfs
  | .int b, tr, ps, _, _, _, hfs => fsV_char_leaf s tr _ ps rfl rfl hfs
  | .float b z, tr, ps, _, _, _, hfs => fsV_char_leaf s tr _ ps rfl rfl hfs
  | .str b, tr, ps, _, _, _, hfs => fsV_char_leaf s tr _ ps rfl rfl hfs
  | .list l, tr, ps, hv, hc, hla, hfs => by
    obtain ⟨a, lt, hres, ha, hitems⟩ := validateV_list_inv hv
    have hk := resolveKind_list_of s tr a lt l hres ha
    rw [fsV, hk] at hfs
    rw [listsAssociative, hk] at hla
    simp only [] at hfs hla
    intro p
    by_cases hat : lt.rel = "atomic"
    · simp only [hat, beq_self_eq_true, if_true, Res.ok.injEq] at hfs
      subst hfs
      cases p <;> simp [inFS, hk, hat, Path.equals]
    · have hat' : (lt.rel == "atomic") = false := by simpa using hat
      simp only [hat', Bool.false_eq_true, if_false, Bool.false_or, Bool.or_eq_true, Bool.and_eq_true,
        beq_iff_eq, List.isEmpty_iff] at hfs hla
      rcases hla with hnil | ⟨hrel, hla⟩
      · subst hnil
        simp only [dupMarks, fsItems, List.reverse_nil, List.map_nil, List.append_nil, Res.ok.injEq] at hfs
        subst hfs
        cases p <;> simp [inFS, hk, hat']
      · have hcl : canonList l = true := by simpa [canon] using hc
        rw [dupMarks_nil s lt hrel l [] 0 hitems] at hfs
        cases hr : fsItems s lt [] l with
        | err => simp [hr] at hfs
        | panic => simp [hr] at hfs
        | ok rest =>
          simp only [hr, Res.ok.injEq, List.map_nil, List.nil_append] at hfs
          subst hfs
          obtain ⟨h1, h2⟩ := fsItems_char s l lt _ (validateItems_mem s false lt l _ _ hitems) hcl hla
            (fun q => (validateItems_nodup s lt hrel l [] 0 hitems q).1) hr
          cases p with
          | nil => simp [inFS, hk, hat', h1]
          | cons pe rest' => rw [h2 pe rest']; simp [inFS, hk, hat']
  | .map m, tr, ps, hv, hc, hla, hfs => by
    obtain ⟨a, mt, hres, ha, hfields⟩ := validateV_map_inv hv
    have hk := resolveKind_map_of' s tr a mt m hres ha
    rw [fsV, hk] at hfs
    rw [listsAssociative, hk] at hla
    simp only [] at hfs hla
    intro p
    by_cases hat : mt.rel = "atomic"
    · simp only [hat, beq_self_eq_true, if_true, Res.ok.injEq] at hfs
      subst hfs
      cases p <;> simp [inFS, hk, hat, Path.equals]
    · have hat' : (mt.rel == "atomic") = false := by simpa using hat
      simp only [hat', Bool.false_eq_true, if_false, Bool.false_or] at hfs hla
      simp only [canon, Bool.and_eq_true] at hc
      obtain ⟨h1, h2⟩ := fsFields_char s m mt ps (validateFields_mem s false mt m hfields) hc.1 hc.2 hla hfs
      cases p with
      | nil => simp [inFS, hk, hat', h1]
      | cons pe rest' =>
        rw [h2 pe rest']
        cases pe <;> simp [inFS, hk, hat']
theorem fsItems_char (s : Schema) : ∀ (l : List Value) (t : ListT) (ps : List Path),
    (∀ c ∈ l, validateV s false t.elementType c = .ok ()) → canonList l = true →
    listsAssociativeItems s t.elementType l = true →
    (∀ q, (l.filter (fun c => PE.equals (peOf s t c) q)).length ≤ 1) →
    fsItems s t [] l = .ok ps →
    pmem [] ps = false ∧ ∀ pe rest, pmem (pe :: rest) ps =
      (match l.find? (fun c => PE.equals (peOf s t c) pe) with
       | some x => rest.isEmpty || inFS s t.elementType x rest
       | none => false)
  | [], t, ps, _, _, _, _, hfs => by
    simp only [fsItems, Res.ok.injEq] at hfs
    subst hfs
    simp
  | child :: rest, t, ps, hv, hc, hla, hnd, hfs => by
    simp only [canonList, Bool.and_eq_true] at hc
    simp only [listsAssociativeItems, Bool.and_eq_true] at hla
    rw [fsItems_cons] at hfs
    simp only [List.any_nil, Bool.false_eq_true, if_false] at hfs
    cases hsub : fsV s t.elementType child with
    | err => cases hr : fsItems s t [] rest <;> simp [hsub, hr] at hfs
    | panic => cases hr : fsItems s t [] rest <;> simp [hsub, hr] at hfs
    | ok sub =>
      cases hr : fsItems s t [] rest with
      | err => simp [hsub, hr] at hfs
      | panic => simp [hsub, hr] at hfs
      | ok tail =>
        simp only [hsub, hr, Res.ok.injEq] at hfs
        subst hfs
        have ihv := fsV_char s child t.elementType sub (hv child List.mem_cons_self) hc.1 hla.1 hsub
        obtain ⟨t1, t2⟩ := fsItems_char s rest t tail (fun c hc' => hv c (List.mem_cons_of_mem _ hc')) hc.2 hla.2
          (filter_le_one_tail (fun c q => PE.equals (peOf s t c) q) child rest hnd) hr
        refine ⟨by simp [t1, Path.equals], ?_⟩
        intro pe rest'
        simp only [pmem_append, pmem_map_cons_cons, pmem_cons, pmem_nil, Bool.or_false, Path.equals, t2 pe rest',
          List.find?_cons]
        cases he : PE.equals (peOf s t child) pe with
        | false => simp
        | true =>
          have h0 := hnd pe
          simp only [List.filter_cons, he, if_true, List.length_cons] at h0
          have hnone : rest.find? (fun c => PE.equals (peOf s t c) pe) = none := by
            rw [← List.head?_filter]
            have : (rest.filter (fun c => PE.equals (peOf s t c) pe)).length = 0 := by omega
            rw [List.length_eq_zero_iff] at this
            rw [this]; rfl
          rw [hnone, ihv rest']
          cases rest' <;> simp [Path.equals, Bool.or_comm]
theorem fsFields_char (s : Schema) : ∀ (m : List (String × Value)) (t : MapT) (ps : List Path),
    (∀ x ∈ m, validateV s false (fieldType t x.1) x.2 = .ok ()) → keysAsc m = true → canonFields m = true →
    listsAssociativeFields s t m = true → fsFields s t m = .ok ps →
    pmem [] ps = false ∧ ∀ pe rest, pmem (pe :: rest) ps =
      (match pe with
       | .field k =>
         (match lookupField k m with
          | some x =>
            (rest.isEmpty && (x.isNull || emptyMapLit x || (t.findField k).isNone)) || inFS s (fieldType t k) x rest
          | none => false)
       | _ => false)
  | [], t, ps, _, _, _, _, hfs => by
    simp only [fsFields, Res.ok.injEq] at hfs
    subst hfs
    refine ⟨rfl, ?_⟩
    intro pe rest
    cases pe <;> simp [lookupField]
  | (k, v) :: rest, t, ps, hv, hasc, hc, hla, hfs => by
    simp only [canonFields, Bool.and_eq_true] at hc
    simp only [listsAssociativeFields, Bool.and_eq_true] at hla
    have hasc' : keysAsc rest = true := by
      cases rest with
      | nil => rfl
      | cons y ys => obtain ⟨k', v'⟩ := y; simp only [keysAsc, Bool.and_eq_true] at hasc; exact hasc.2
    have hlt : ∀ x ∈ rest, k < x.1 := by
      have := keysAsc_pairwise _ hasc
      exact (List.pairwise_cons.1 this).1
    rw [fsFields_cons] at hfs
    cases hsub : fsV s (fieldType t k) v with
    | err => cases hr : fsFields s t rest <;> simp [hsub, hr] at hfs
    | panic => cases hr : fsFields s t rest <;> simp [hsub, hr] at hfs
    | ok sub =>
      cases hr : fsFields s t rest with
      | err => simp [hsub, hr] at hfs
      | panic => simp [hsub, hr] at hfs
      | ok tail =>
        simp only [hsub, hr, Res.ok.injEq] at hfs
        subst hfs
        have ihv := fsV_char s v (fieldType t k) sub (hv (k, v) List.mem_cons_self) hc.1 hla.1 hsub
        obtain ⟨t1, t2⟩ := fsFields_char s rest t tail (fun x hx => hv x (List.mem_cons_of_mem _ hx)) hasc' hc.2
          hla.2 hr
        have hself0 : pmem [] (selfPaths t k v) = false := by
          unfold selfPaths; split <;> (try split) <;> simp [Path.equals]
        refine ⟨by simp [t1, hself0], ?_⟩
        intro pe rest'
        simp only [pmem_append, pmem_map_cons_cons, t2 pe rest']
        cases pe with
        | field k0 =>
          simp only [PE.equals, lookupField]
          by_cases hk : k = k0
          · subst hk
            have hnone : lookupField k rest = none := by
              cases hl : lookupField k rest with
              | none => rfl
              | some y =>
                have := hlt _ (lookupField_mem k rest y hl)
                exact absurd this (String.lt_irrefl k)
            simp only [beq_self_eq_true, Bool.true_and, if_true, hnone, Bool.or_false, ihv rest']
            have hself : pmem (PE.field k :: rest') (selfPaths t k v) =
                (rest'.isEmpty && (v.isNull || emptyMapLit v || (t.findField k).isNone)) := by
              unfold selfPaths
              cases rest' <;> cases h1 : (v.isNull || emptyMapLit v) <;> cases h2 : (t.findField k).isNone <;>
                simp_all [Path.equals, PE.equals]
            rw [hself, Bool.or_comm]
          · have hk' : (k == k0) = false := by simpa using hk
            have hk'' : (k0 == k) = false := beq_eq_false_iff_ne.2 (fun h => hk h.symm)
            have hself : pmem (PE.field k0 :: rest') (selfPaths t k v) = false := by
              unfold selfPaths
              split <;> (try split) <;> simp [Path.equals, PE.equals, hk']
            simp only [hk', hk'', Bool.false_and, Bool.false_or, hself, Bool.false_eq_true, if_false]
        | key fl =>
          have hself : pmem (PE.key fl :: rest') (selfPaths t k v) = false := by
            unfold selfPaths
            split <;> (try split) <;> simp [Path.equals, PE.equals]
          rw [hself]; simp [PE.equals]
        | value x =>
          have hself : pmem (PE.value x :: rest') (selfPaths t k v) = false := by
            unfold selfPaths
            split <;> (try split) <;> simp [Path.equals, PE.equals]
          rw [hself]; simp [PE.equals]
        | index i =>
          have hself : pmem (PE.index i :: rest') (selfPaths t k v) = false := by
            unfold selfPaths
            split <;> (try split) <;> simp [Path.equals, PE.equals]
          rw [hself]; simp [PE.equals]
        | invalid =>
          have hself : pmem (PE.invalid :: rest') (selfPaths t k v) = false := by
            unfold selfPaths
            split <;> (try split) <;> simp [Path.equals, PE.equals]
          rw [hself]; simp [PE.equals]
end

end CmpX
end SMD

namespace SMD
namespace CmpX
open NodeLaws

/-! ### a comparison that reports nothing -/

/-- no path at all -/
def AllNil (c : Cmp) : Prop := ∀ k q, pmem q (c.get k) = false
/-- no path but the root -/
def NonRootNil (c : Cmp) : Prop := ∀ k pe rest, pmem (pe :: rest) (c.get k) = false

theorem AllNil.nonRoot {c : Cmp} (h : AllNil c) : NonRootNil c := fun k pe rest => h k (pe :: rest)

theorem NonRootNil.swap {c c' : Cmp} (hsw : Sw c c') (h : NonRootNil c) : NonRootNil c' := by
  intro k pe rest
  have := hsw k.swap (pe :: rest)
  rw [Side.swap_swap] at this
  rw [this]; exact h _ _ _

theorem cmpNode_nil_paths (s : Schema) (n : Nat) (l r : Option Value) (tr : TypeRef) (c : Cmp)
    (h : cmpNode s n l r tr = .ok c) (hvl : VO s tr l) (hvr : VO s tr r) :
    pmem [] c.added = l.isNone ∧ pmem [] c.removed = r.isNone := by
  cases n with
  | zero => cases h
  | succ m =>
    obtain ⟨_, _, _, h1, h2, _⟩ := cmpNode_runs s m l r tr c h hvl hvr
    exact ⟨h1, h2⟩

/-- a child compared by a handler that reports nothing beneath the node: present on both sides, and
its comparison reports nothing at all -/
theorem child_allNil (s : Schema) (n : Nat) (l r : Option Value) (K : AtomKind) (c : Cmp)
    (hp : HandlePaths s (cmpNode s n) l r K c) (hsl : SideV s K l) (hsr : SideV s K r)
    (hnil : ∀ k pe rest, pmem (pe :: rest) (c.get k) = false)
    (pe : PE) (tr' : TypeRef) (lc rc : Option Value) (k1 : kindChild s K l pe = some (tr', lc))
    (k2 : kindChild s K r pe = some (tr', rc)) (k3 : lc.isSome = true ∨ rc.isSome = true) :
    ∃ x y ci, lc = some x ∧ rc = some y ∧ cmpNode s n (some x) (some y) tr' = .ok ci ∧ AllNil ci ∧
      VO s tr' (some x) ∧ VO s tr' (some y) := by
  obtain ⟨ci, hci⟩ := hp.2 pe tr' lc rc k1 k2 k3
  have hall : AllNil ci := by
    intro k q
    cases hq : pmem q (ci.get k) with
    | false => rfl
    | true =>
      have := (hp.1 k pe q).2 ⟨tr', lc, rc, ci, k1, k2, k3, hci, hq⟩
      rw [hnil k pe q] at this
      cases this
  have v1 := kindChild_valid s K l hsl pe tr' lc k1
  have v2 := kindChild_valid s K r hsr pe tr' rc k2
  obtain ⟨n1, n2⟩ := cmpNode_nil_paths s n lc rc tr' ci hci v1 v2
  have a1 := hall Side.added []
  have a2 := hall Side.removed []
  simp only [Cmp.get] at a1 a2
  rw [a1] at n1
  rw [a2] at n2
  cases lc with
  | none => simp at n1
  | some x =>
    cases rc with
    | none => simp at n2
    | some y => exact ⟨x, y, ci, rfl, rfl, hci, hall, v1, v2⟩

theorem kindChild_some_shape (s : Schema) (K : AtomKind) (v : Value) (pe : PE) (tr' : TypeRef) (x : Value)
    (h : kindChild s K (some v) pe = some (tr', some x)) :
    (∃ t m, K = .map t ∧ v = .map m ∧ m ≠ []) ∨ (∃ t l, K = .list t ∧ v = .list l ∧ l ≠ []) := by
  cases K with
  | invalid => simp [kindChild] at h
  | scalar t => simp [kindChild] at h
  | map t =>
    left
    simp only [kindChild] at h
    split at h
    · cases h
    · cases pe with
      | field k =>
        simp only [Option.some.injEq, Prod.mk.injEq] at h
        cases v with
        | map m =>
          refine ⟨t, m, rfl, rfl, ?_⟩
          rintro rfl
          simp [asMap, lookupField] at h
        | _ => simp [asMap, lookupField] at h
      | _ => cases h
  | list t =>
    right
    simp only [kindChild] at h
    split at h
    · cases h
    · simp only [Option.some.injEq, Prod.mk.injEq, listChild] at h
      cases v with
      | list l =>
        refine ⟨t, l, rfl, rfl, ?_⟩
        rintro rfl
        simp [asList] at h
      | _ => simp [asList] at h

/-- two values of the same class: both scalars, both lists, both maps (both empty or both not), both null -/
def sameShape (v w : Value) : Prop :=
  v.isScalar = w.isScalar ∧ v.isList = w.isList ∧ v.isMap = w.isMap ∧ v.isNull = w.isNull ∧
    emptyMapLit v = emptyMapLit w

theorem sameShape_of_equals {v w : Value} (h : Value.equals v w = true) : sameShape v w := by
  cases v <;> cases w <;> simp [Value.equals] at h <;>
    simp [sameShape, Value.isScalar, Value.isList, Value.isMap, Value.isNull, emptyMapLit]
  next a b =>
    cases a <;> cases b <;> simp [Value.equalsFields, emptyMapLit] at h ⊢

theorem sameShape.symm {v w : Value} (h : sameShape v w) : sameShape w v :=
  ⟨h.1.symm, h.2.1.symm, h.2.2.1.symm, h.2.2.2.1.symm, h.2.2.2.2.symm⟩

theorem deduceAtom_of_sameShape {v w : Value} (h : sameShape v w) (a : Atom) :
    deduceAtom a (some v) = deduceAtom a (some w) := by
  unfold deduceAtom
  simp only [h.1, h.2.1, h.2.2.1]

theorem cmpNode_nil_shape (s : Schema) (n : Nat) (lv rv : Value) (tr : TypeRef) (c : Cmp)
    (h : cmpNode s n (some lv) (some rv) tr = .ok c) (hvl : VO s tr (some lv)) (hvr : VO s tr (some rv))
    (hnil : AllNil c) : sameShape lv rv := by
  cases n with
  | zero => cases h
  | succ m =>
    obtain ⟨a, hres, _, _, _, _, runs, hruns, hpaths, _, hrunL, _, hmono, hshape⟩ :=
      cmpNode_runs s m _ _ tr c h hvl hvr
    obtain ⟨e, he, heK⟩ := hrunL rfl
    have henil : AllNil e.2 := by
      intro k q
      cases hq : pmem q (e.2.get k) with
      | false => rfl
      | true => have := hmono e he k q hq; rw [hnil k q] at this; cases this
    rcases (hshape e he).1 with hleaf | ⟨pe, tr', lc, rc, k1, k2, k3⟩
    · have := henil Side.modified []
      rw [hleaf] at this
      simp only [Cmp.get, leafCmp] at this
      split at this
      · simp [Path.equals] at this
      · next hh =>
        have : Value.equals rv lv = true := by simpa using hh
        exact (sameShape_of_equals this).symm
    · have hside : SideV s e.1 (some lv) ∧ SideV s e.1 (some rv) := by
        rw [heK]
        exact ⟨sideV_of_valid s tr a hres _ hvl _, sideV_of_valid s tr a hres _ hvr _⟩
      obtain ⟨x, y, ci, rfl, rfl, _, _, _, _⟩ := child_allNil s m _ _ e.1 e.2 (hpaths e he) hside.1 hside.2
        (fun k pe rest => henil k _) pe tr' lc rc k1 k2 k3
      rcases kindChild_some_shape s e.1 lv pe tr' x k1 with ⟨t, m, hK, rfl, hm⟩ | ⟨t, l, hK, rfl, hl⟩
      · rcases kindChild_some_shape s e.1 rv pe tr' y k2 with ⟨t', m', hK', rfl, hm'⟩ | ⟨t', l', hK', _, _⟩
        · cases m <;> cases m' <;>
            simp_all [sameShape, Value.isScalar, Value.isList, Value.isMap, Value.isNull, emptyMapLit]
        · rw [hK] at hK'; cases hK'
      · rcases kindChild_some_shape s e.1 rv pe tr' y k2 with ⟨t', m', hK', _, _⟩ | ⟨t', l', hK', rfl, hl'⟩
        · rw [hK] at hK'; cases hK'
        · simp [sameShape, Value.isScalar, Value.isList, Value.isMap, Value.isNull, emptyMapLit]

/-! ### field-set membership under a kind -/

/-- the entry / member itself is a member of the field set, whatever it holds -/
def selfC (K : AtomKind) (pe : PE) (x : Value) : Bool :=
  match K, pe with
  | .map t, .field k => x.isNull || emptyMapLit x || (t.findField k).isNone
  | .list _, _ => true
  | _, _ => false

theorem inFS_cons_kind (s : Schema) (tr : TypeRef) (a : Atom) (v : Value) (pe : PE) (rest : Path)
    (h : s.resolve tr = some a) :
    inFS s tr v (pe :: rest) =
      match kindChild s (atomKind (deduceAtom a (some v))) (some v) pe with
      | some (tr', some x) =>
        (rest.isEmpty && selfC (atomKind (deduceAtom a (some v))) pe x) || inFS s tr' x rest
      | _ => false := by
  rw [inFS, resolveKind_eq s tr a _ h]
  cases hK : atomKind (deduceAtom a (some v)) with
  | invalid => simp [kindChild]
  | scalar t => simp [kindChild]
  | map t =>
    simp only [kindChild]
    split
    · rfl
    · cases v <;> cases pe <;> simp [asMap, lookupField, selfC]
      next m k => cases lookupField k m <;> simp
  | list t =>
    simp only [kindChild, listChild]
    split
    · rfl
    · cases v <;> simp [asList, selfC]
      next l => cases l.find? (fun c => PE.equals (peOf s t c) pe) <;> simp

theorem selfC_of_sameShape {x y : Value} (h : sameShape x y) (K : AtomKind) (pe : PE) : selfC K pe x = selfC K pe y := by
  unfold selfC
  cases K <;> cases pe <;> simp [h.2.2.2.1, h.2.2.2.2]

/-- members of the left field set beneath the root are members of the right one -/
def FSImp (s : Schema) (n : Nat) : Prop :=
  ∀ (lv rv : Value) (tr : TypeRef) (c : Cmp), cmpNode s n (some lv) (some rv) tr = .ok c →
    VO s tr (some lv) → VO s tr (some rv) → NonRootNil c →
    ∀ pe rest, inFS s tr lv (pe :: rest) = true → inFS s tr rv (pe :: rest) = true

theorem fsEq_of_imp (s : Schema) (n : Nat) (himp : FSImp s n) (lv rv : Value) (tr : TypeRef) (c : Cmp)
    (h : cmpNode s n (some lv) (some rv) tr = .ok c) (hvl : VO s tr (some lv)) (hvr : VO s tr (some rv))
    (hnil : NonRootNil c) (pe : PE) (rest : Path) : inFS s tr lv (pe :: rest) = inFS s tr rv (pe :: rest) := by
  obtain ⟨c', hc', hsw⟩ := cmpNode_swap s n _ _ tr tr (TypeRef.equals_refl tr) c h
  rw [Bool.eq_iff_iff]
  exact ⟨himp lv rv tr c h hvl hvr hnil pe rest, himp rv lv tr c' hc' hvr hvl (hnil.swap hsw) pe rest⟩

theorem fsAll_of_imp (s : Schema) (n : Nat) (himp : FSImp s n) (lv rv : Value) (tr : TypeRef) (c : Cmp)
    (h : cmpNode s n (some lv) (some rv) tr = .ok c) (hvl : VO s tr (some lv)) (hvr : VO s tr (some rv))
    (hnil : AllNil c) (p : Path) : inFS s tr lv p = inFS s tr rv p := by
  cases p with
  | cons pe rest => exact fsEq_of_imp s n himp lv rv tr c h hvl hvr hnil.nonRoot pe rest
  | nil =>
    have hsh := cmpNode_nil_shape s n lv rv tr c h hvl hvr hnil
    cases hres : s.resolve tr with
    | none => simp [inFS, resolveKind, hres]
    | some a =>
      rw [inFS, inFS, resolveKind_eq s tr a _ hres, resolveKind_eq s tr a _ hres, deduceAtom_of_sameShape hsh a]

theorem cmpNode_fsImp (s : Schema) : ∀ n, FSImp s n := by
  intro n
  induction n with
  | zero => intro lv rv tr c h; cases h
  | succ n ih =>
    intro lv rv tr c h hvl hvr hnil pe rest hin
    obtain ⟨a, hres, _, _, _, _, runs, hruns, hpaths, _, hrunL, _, hmono, _⟩ :=
      cmpNode_runs s n _ _ tr c h hvl hvr
    obtain ⟨e, he, heK⟩ := hrunL rfl
    have henil : ∀ k pe rest, pmem (pe :: rest) (e.2.get k) = false := by
      intro k pe rest
      cases hq : pmem (pe :: rest) (e.2.get k) with
      | false => rfl
      | true => have := hmono e he k _ hq; rw [hnil k pe rest] at this; cases this
    rw [inFS_cons_kind s tr a lv pe rest hres, ← heK] at hin
    cases k1 : kindChild s e.1 (some lv) pe with
    | none => rw [k1] at hin; cases hin
    | some q =>
      obtain ⟨tr', lc⟩ := q
      rw [k1] at hin
      cases lc with
      | none => cases hin
      | some x =>
        simp only [] at hin
        obtain ⟨rc, k2⟩ := kindChild_same s e.1 (some lv) (some rv) pe tr' _ k1
        have hside : SideV s e.1 (some lv) ∧ SideV s e.1 (some rv) := by
          rw [heK]
          exact ⟨sideV_of_valid s tr a hres _ hvl _, sideV_of_valid s tr a hres _ hvr _⟩
        obtain ⟨x', y, ci, hx', rfl, hci, hall, v1, v2⟩ := child_allNil s n _ _ e.1 e.2 (hpaths e he) hside.1 hside.2
          henil pe tr' _ rc k1 k2 (Or.inl rfl)
        cases hx'
        have hKr : e.1 = atomKind (deduceAtom a (some rv)) := by
          by_cases hK : atomKind (deduceAtom a (some lv)) = atomKind (deduceAtom a (some rv))
          · rw [heK, hK]
          · rw [heK] at k2
            have := kindChild_cross s a (some lv) rv hK pe tr' _ k2
            cases this
        rw [inFS_cons_kind s tr a rv pe rest hres, ← hKr, k2]
        simp only []
        rw [← fsAll_of_imp s n ih x y tr' ci hci v1 v2 hall rest,
          ← selfC_of_sameShape (cmpNode_nil_shape s n x y tr' ci hci v1 v2 hall) e.1 pe]
        exact hin

/-! ### `inFS` cannot tell `TypeRef.equals` references apart -/

theorem inFS_congr (s : Schema) : ∀ (p : Path) (tr tr' : TypeRef) (v : Value),
    TypeRef.equals tr tr' = true → inFS s tr v p = inFS s tr' v p
  | [], tr, tr', v, h => by
    have hk := resolveKind_congr s h (some v)
    rw [inFS, inFS]
    cases h1 : resolveKind s tr (some v) <;> cases h2 : resolveKind s tr' (some v) <;>
      simp only [h1, h2, OptRel] at hk ⊢
    next K K' =>
    cases K <;> cases K' <;> simp only [KindRel] at hk ⊢
    · rw [(MapT.equals_inv hk).2.1]
    · rw [(ListT.equals_inv hk).2.1]
  | pe :: rest, tr, tr', v, h => by
    have hk := resolveKind_congr s h (some v)
    rw [inFS, inFS]
    cases h1 : resolveKind s tr (some v) <;> cases h2 : resolveKind s tr' (some v) <;>
      simp only [h1, h2, OptRel] at hk ⊢
    next K K' =>
    cases K <;> cases K' <;> simp only [KindRel] at hk ⊢
    · next t t' =>
      obtain ⟨_, hrel, _⟩ := MapT.equals_inv hk
      rw [← hrel]
      split
      · rfl
      · cases v with
        | map m =>
          cases pe with
          | field k =>
            simp only []
            have hf : (t.findField k).isNone = (t'.findField k).isNone := by
              have := MapT.findField_congr hk k
              cases h3 : t.findField k <;> cases h4 : t'.findField k <;> simp only [h3, h4, OptRel] at this ⊢ <;> rfl
            cases lookupField k m with
            | none => rfl
            | some x => simp only []; rw [hf, inFS_congr s rest _ _ x (fieldType_congr hk k)]
          | _ => rfl
        | _ => rfl
    · next t t' =>
      obtain ⟨he, hrel, _⟩ := ListT.equals_inv hk
      rw [← hrel]
      split
      · rfl
      · cases v with
        | list l =>
          simp only []
          have : (fun c => PE.equals (peOf s t c) pe) = (fun c => PE.equals (peOf s t' c) pe) := by
            funext c; exact PE.equals_congr_left (peOf_congr s hk c) pe
          rw [this]
          cases l.find? (fun c => PE.equals (peOf s t' c) pe) with
          | none => rfl
          | some x => simp only []; rw [inFS_congr s rest _ _ x he]
        | _ => rfl

end CmpX
end SMD

namespace SMD
namespace CmpX
open NodeLaws

/-! ### a comparison that succeeds has indexed every list it met -/

theorem listsAssociativeItems_of_forall (s : Schema) (et : TypeRef) :
    ∀ l : List Value, (∀ c ∈ l, listsAssociative s et c = true) → listsAssociativeItems s et l = true
  | [], _ => rfl
  | v :: vs, h => by
    simp only [listsAssociativeItems, Bool.and_eq_true]
    exact ⟨h v List.mem_cons_self, listsAssociativeItems_of_forall s et vs (fun c hc => h c (List.mem_cons_of_mem _ hc))⟩

theorem listsAssociativeFields_of_forall (s : Schema) (t : MapT) :
    ∀ m : List (String × Value), (∀ x ∈ m, listsAssociative s (fieldType t x.1) x.2 = true) →
      listsAssociativeFields s t m = true
  | [], _ => rfl
  | (k, v) :: rest, h => by
    simp only [listsAssociativeFields, Bool.and_eq_true]
    exact ⟨h (k, v) List.mem_cons_self,
      listsAssociativeFields_of_forall s t rest (fun c hc => h c (List.mem_cons_of_mem _ hc))⟩

theorem find?_eq_of_filter_le_one {α : Type} (p : α → Bool) : ∀ (l : List α) (c : α), c ∈ l → p c = true →
    (l.filter p).length ≤ 1 → l.find? p = some c
  | [], _, h, _, _ => by cases h
  | x :: l, c, hc, hp, hlen => by
    simp only [List.find?_cons]
    cases hx : p x with
    | true =>
      simp only [List.filter_cons, hx, if_true, List.length_cons] at hlen
      rcases List.mem_cons.1 hc with rfl | hc
      · rfl
      · have : c ∈ l.filter p := List.mem_filter.2 ⟨hc, hp⟩
        have hl : (l.filter p).length = 0 := by omega
        rw [List.length_eq_zero_iff] at hl
        rw [hl] at this
        cases this
    | false =>
      simp only [List.filter_cons, hx, Bool.false_eq_true, if_false] at hlen
      rcases List.mem_cons.1 hc with rfl | hc
      · rw [hp] at hx; cases hx
      · exact find?_eq_of_filter_le_one p l c hc hp hlen

theorem cmpNode_listsAssociative (s : Schema) : ∀ (n : Nat) (l r : Option Value) (tr : TypeRef) (c : Cmp),
    cmpNode s n l r tr = .ok c → VO s tr l → VO s tr r → ∀ lv, l = some lv → canon lv = true →
    listsAssociative s tr lv = true := by
  intro n
  induction n with
  | zero => intro l r tr c h; cases h
  | succ n ih =>
    intro l r tr c h hvl hvr lv hl hc
    subst hl
    obtain ⟨a, hres, _, _, _, _, runs, hruns, hpaths, _, hrunL, _, _, hshape⟩ :=
      cmpNode_runs s n _ _ tr c h hvl hvr
    obtain ⟨e, he, heK⟩ := hrunL rfl
    have hsl : SideV s e.1 (some lv) := by rw [heK]; exact sideV_of_valid s tr a hres _ hvl _
    have hsr : SideV s e.1 r := by rw [heK]; exact sideV_of_valid s tr a hres _ hvr _
    -- every child of the left operand under its own kind is compared
    have hchild : ∀ pe tr' x, kindChild s e.1 (some lv) pe = some (tr', some x) → canon x = true →
        listsAssociative s tr' x = true := by
      intro pe tr' x k1 hcx
      obtain ⟨rc, k2⟩ := kindChild_same s e.1 (some lv) r pe tr' _ k1
      obtain ⟨ci, hci⟩ := (hpaths e he).2 pe tr' _ rc k1 k2 (Or.inl rfl)
      exact ih _ rc tr' ci hci (kindChild_valid s e.1 _ hsl pe tr' _ k1) (kindChild_valid s e.1 r hsr pe tr' rc k2)
        x rfl hcx
    cases lv with
    | list ll =>
      rw [listsAssociative, resolveKind_eq s tr a _ hres]
      cases hK : atomKind (deduceAtom a (some (.list ll))) with
      | list t =>
        simp only []
        rw [hK] at heK
        cases hat : t.rel == "atomic" with
        | true => rfl
        | false =>
          cases ll with
          | nil => rfl
          | cons x xs =>
            have hpe := (hshape e he).2 t heK hat
            have hrel : t.rel = "associative" := by
              obtain ⟨pe, hpe⟩ := hpe x (by simp [asList])
              exact listItemToPE_ok_assoc hpe
            have hitems : validateItems s false t [] 0 (x :: xs) = .ok () := by
              have := hsl
              rw [heK] at this
              exact this _ rfl
            have hcl : canonList (x :: xs) = true := by simpa [canon] using hc
            simp only [Bool.false_or, List.isEmpty_cons, hrel, beq_self_eq_true, Bool.true_and]
            apply listsAssociativeItems_of_forall
            intro c hcm
            apply hchild (peOf s t c) t.elementType c _ (canonList_mem _ hcl c hcm)
            rw [heK]
            simp only [kindChild, hat, Bool.false_eq_true, if_false, listChild, asList, Option.getD_some]
            rw [find?_eq_of_filter_le_one _ (x :: xs) c hcm (PE.equals_refl _)
              (validateItems_nodup s t hrel _ _ _ hitems (peOf s t c)).1]
      | _ => rfl
    | map lm =>
      rw [listsAssociative, resolveKind_eq s tr a _ hres]
      cases hK : atomKind (deduceAtom a (some (.map lm))) with
      | map t =>
        simp only []
        rw [hK] at heK
        cases hat : t.rel == "atomic" with
        | true => rfl
        | false =>
          simp only [canon, Bool.and_eq_true] at hc
          simp only [Bool.false_or]
          apply listsAssociativeFields_of_forall
          intro x hx
          apply hchild (.field x.1) (fieldType t x.1) x.2 _ (canonFields_mem _ hc.2 x hx)
          rw [heK]
          simp only [kindChild, hat, Bool.false_eq_true, if_false, asMap, Option.getD_some]
          rw [lookupField_of_mem_keysAsc hc.1 (show (x.1, x.2) ∈ lm from hx)]
      | _ => rfl
    | null => rfl
    | bool b => rfl
    | int b => rfl
    | float b z => rfl
    | str b => rfl

end CmpX
end SMD
