/-
The loops of the comparison walker as folds of independent per-key results; membership of a path in
the resulting lists up to `Path.Equals`; what `groupItems` returns.
-/
import SMD.Proofs.CompareLaws
import SMD.Proofs.NodeFieldSet
import SMD.Proofs.SchemaCongr
import SMD.Proofs.OpsTotal
set_option linter.unusedSimpArgs false
set_option linter.unusedVariables false
namespace SMD
namespace CmpX
open NodeLaws

/-! ### paths up to `Equals` -/

theorem Path.equals_trans : ∀ {a b c : Path}, Path.equals a b = true → Path.equals b c = true →
    Path.equals a c = true
  | [], [], [], _, _ => rfl
  | [], [], _ :: _, _, h => by simp [Path.equals] at h
  | [], _ :: _, _, h, _ => by simp [Path.equals] at h
  | _ :: _, [], _, h, _ => by simp [Path.equals] at h
  | _ :: _, _ :: _, [], _, h => by simp [Path.equals] at h
  | a :: as, b :: bs, c :: cs, h1, h2 => by
    simp only [Path.equals, Bool.and_eq_true] at h1 h2 ⊢
    exact ⟨PE.equals_trans h1.1 h2.1, Path.equals_trans h1.2 h2.2⟩

theorem Path.equals_symm_of {a b : Path} (h : Path.equals a b = true) : Path.equals b a = true := by
  rw [Path.equals_symm]; exact h

/-- membership in a list of paths up to `Equals` -/
def pmem (q : Path) (ps : List Path) : Bool := ps.any (fun p => Path.equals p q)

@[simp] theorem pmem_nil (q : Path) : pmem q [] = false := rfl
@[simp] theorem pmem_cons (q p : Path) (ps : List Path) : pmem q (p :: ps) = (Path.equals p q || pmem q ps) := by
  simp [pmem]
@[simp] theorem pmem_append (q : Path) (a b : List Path) : pmem q (a ++ b) = (pmem q a || pmem q b) := by
  simp [pmem]

theorem pmem_iff {q : Path} {ps : List Path} : pmem q ps = true ↔ ∃ p ∈ ps, Path.equals p q = true := by
  simp [pmem]

theorem pmem_of_mem {q : Path} {ps : List Path} (h : q ∈ ps) : pmem q ps = true :=
  pmem_iff.2 ⟨q, h, Path.equals_refl q⟩

theorem pmem_congr {q q' : Path} (h : Path.equals q q' = true) (ps : List Path) : pmem q ps = pmem q' ps := by
  rw [Bool.eq_iff_iff, pmem_iff, pmem_iff]
  constructor
  · rintro ⟨p, hp, he⟩; exact ⟨p, hp, Path.equals_trans he h⟩
  · rintro ⟨p, hp, he⟩; exact ⟨p, hp, Path.equals_trans he (Path.equals_symm_of h)⟩

@[simp] theorem pmem_map_cons_nil (pe : PE) (ps : List Path) : pmem [] (ps.map (pe :: ·)) = false := by
  induction ps with
  | nil => rfl
  | cons p ps ih => simp [Path.equals, ih]

@[simp] theorem pmem_map_cons_cons (pe pe' : PE) (q : Path) (ps : List Path) :
    pmem (pe' :: q) (ps.map (pe :: ·)) = (PE.equals pe pe' && pmem q ps) := by
  induction ps with
  | nil => simp
  | cons p ps ih =>
    simp only [List.map_cons, pmem_cons, Path.equals, ih]
    cases PE.equals pe pe' <;> simp

/-- same members up to `Equals` -/
def PEqv (a b : List Path) : Prop := ∀ q, pmem q a = pmem q b

theorem PEqv.refl (a : List Path) : PEqv a a := fun _ => rfl
theorem PEqv.symm {a b : List Path} (h : PEqv a b) : PEqv b a := fun q => (h q).symm
theorem PEqv.trans {a b c : List Path} (h1 : PEqv a b) (h2 : PEqv b c) : PEqv a c := fun q => (h1 q).trans (h2 q)
theorem PEqv.append {a b a' b' : List Path} (h1 : PEqv a a') (h2 : PEqv b b') : PEqv (a ++ b) (a' ++ b') := by
  intro q; simp [h1 q, h2 q]
theorem PEqv.append_comm (a b : List Path) : PEqv (a ++ b) (b ++ a) := by
  intro q; simp [Bool.or_comm]
theorem PEqv.append_self (a : List Path) : PEqv (a ++ a) a := by
  intro q; simp
theorem PEqv.pre {a b : List Path} {pe pe' : PE} (he : PE.equals pe pe' = true) (h : PEqv a b) :
    PEqv (a.map (pe :: ·)) (b.map (pe' :: ·)) := by
  intro q
  cases q with
  | nil => simp
  | cons x q => simp [h q, PE.equals_congr_left he x]

theorem has_ofPaths_pmem (ps : List Path) (q : Path) :
    SetTrie.has q (SetTrie.ofPaths ps) = (!q.isEmpty && pmem q ps) := by
  rw [SetTrie.has_ofPaths, pmem]
  induction ps with
  | nil => simp
  | cons p ps ih =>
    simp only [List.any_cons, ih]
    cases p <;> cases q <;> simp [Path.equals]

/-! ### the three lists of a comparison, uniformly -/

inductive Side where
  | removed | modified | added
  deriving DecidableEq

def Side.swap : Side → Side
  | .removed => .added
  | .modified => .modified
  | .added => .removed

@[simp] theorem Side.swap_swap (k : Side) : k.swap.swap = k := by cases k <;> rfl

def _root_.SMD.Cmp.get (c : Cmp) : Side → List Path
  | .removed => c.removed
  | .modified => c.modified
  | .added => c.added

@[simp] theorem Cmp.get_append (a b : Cmp) (k : Side) : (a ++ b).get k = a.get k ++ b.get k := by cases k <;> rfl
@[simp] theorem Cmp.get_pre (pe : PE) (a : Cmp) (k : Side) : (a.pre pe).get k = (a.get k).map (pe :: ·) := by
  cases k <;> rfl
@[simp] theorem Cmp.get_empty (k : Side) : ({} : Cmp).get k = [] := by cases k <;> rfl

theorem Cmp.append_assoc (a b c : Cmp) : a ++ b ++ c = a ++ (b ++ c) := by
  show Cmp.append (Cmp.append a b) c = Cmp.append a (Cmp.append b c)
  simp [Cmp.append, List.append_assoc]

theorem Cmp.append_empty (a : Cmp) : a ++ ({} : Cmp) = a := by
  show Cmp.append a {} = a
  cases a; simp [Cmp.append]

def resGet (k : Side) (r : Res Cmp) : List Path :=
  match r with
  | .ok c => c.get k
  | _ => []

/-- swapping the operands: added and removed trade places -/
def Sw (c c' : Cmp) : Prop := ∀ k : Side, PEqv (c'.get k.swap) (c.get k)

theorem Sw.append {a b a' b' : Cmp} (h1 : Sw a a') (h2 : Sw b b') : Sw (a ++ b) (a' ++ b') := by
  intro k; simp only [Cmp.get_append]; exact (h1 k).append (h2 k)

theorem Sw.append_swapped {a b a' b' : Cmp} (h1 : Sw a a') (h2 : Sw b b') : Sw (a ++ b) (b' ++ a') := by
  intro k; simp only [Cmp.get_append]
  exact (PEqv.append_comm _ _).trans ((h1 k).append (h2 k))

theorem Sw.pre {a a' : Cmp} {pe pe' : PE} (he : PE.equals pe pe' = true) (h : Sw a a') :
    Sw (a.pre pe) (a'.pre pe') := by
  intro k; simp only [Cmp.get_pre]; exact (h k).pre (PE.equals_symm_of he)

theorem Sw.empty : Sw {} {} := by intro k; simp; exact PEqv.refl _

/-! ### folds of independent results -/

def resFold {α : Type} (F : α → Res Cmp) (acc : Res Cmp) (x : α) : Res Cmp :=
  match acc with
  | .ok c =>
    (match F x with
     | .ok ci => .ok (c ++ ci)
     | .err => .err
     | .panic => .panic)
  | .err => .err
  | .panic => .panic

theorem foldl_resFold_err {α : Type} (F : α → Res Cmp) : ∀ xs : List α, xs.foldl (resFold F) .err = .err
  | [] => rfl
  | x :: xs => by simp [resFold, foldl_resFold_err F xs]

theorem foldl_resFold_panic {α : Type} (F : α → Res Cmp) : ∀ xs : List α, xs.foldl (resFold F) .panic = .panic
  | [] => rfl
  | x :: xs => by simp [resFold, foldl_resFold_panic F xs]

theorem foldl_resFold_ok {α : Type} (F : α → Res Cmp) :
    ∀ (xs : List α) (c0 c : Cmp), xs.foldl (resFold F) (.ok c0) = .ok c →
      (∀ x ∈ xs, ∃ ci, F x = .ok ci) ∧
      ∀ (k : Side) (q : Path), pmem q (c.get k) = (pmem q (c0.get k) || xs.any (fun x => pmem q (resGet k (F x))))
  | [], c0, c, h => by
    simp only [List.foldl_nil, Res.ok.injEq] at h
    subst h
    simp
  | x :: xs, c0, c, h => by
    simp only [List.foldl_cons] at h
    cases hx : F x with
    | ok ci =>
      simp only [resFold, hx] at h
      obtain ⟨h1, h2⟩ := foldl_resFold_ok F xs _ c h
      refine ⟨?_, ?_⟩
      · intro y hy
        rcases List.mem_cons.1 hy with rfl | hy
        · exact ⟨ci, hx⟩
        · exact h1 y hy
      · intro k q
        rw [h2 k q]
        simp [hx, resGet, Bool.or_assoc]
    | err => simp only [resFold, hx, foldl_resFold_err] at h; cases h
    | panic => simp only [resFold, hx, foldl_resFold_panic] at h; cases h

theorem foldl_resFold_ok_of {α : Type} (F : α → Res Cmp) :
    ∀ (xs : List α) (c0 : Cmp), (∀ x ∈ xs, ∃ ci, F x = .ok ci) → ∃ c, xs.foldl (resFold F) (.ok c0) = .ok c
  | [], c0, _ => ⟨c0, rfl⟩
  | x :: xs, c0, h => by
    obtain ⟨ci, hci⟩ := h x List.mem_cons_self
    simp only [List.foldl_cons, resFold, hci]
    exact foldl_resFold_ok_of F xs _ (fun y hy => h y (List.mem_cons_of_mem _ hy))

theorem any_eq_of_cover {α β : Type} (xs : List α) (ys : List β) (f : α → Bool) (g : β → Bool)
    (R : α → β → Prop) (hR : ∀ x y, R x y → f x = g y)
    (h1 : ∀ x ∈ xs, ∃ y ∈ ys, R x y) (h2 : ∀ y ∈ ys, ∃ x ∈ xs, R x y) : xs.any f = ys.any g := by
  rw [Bool.eq_iff_iff, List.any_eq_true, List.any_eq_true]
  constructor
  · rintro ⟨x, hx, hf⟩
    obtain ⟨y, hy, hr⟩ := h1 x hx
    exact ⟨y, hy, by rw [← hR x y hr]; exact hf⟩
  · rintro ⟨y, hy, hg⟩
    obtain ⟨x, hx, hr⟩ := h2 y hy
    exact ⟨x, hx, by rw [hR x y hr]; exact hg⟩

/-! ### the two loops as such folds -/

def listItemRes (rec : CmpRec) (t : ListT) (lv rv : List (PE × List Value)) (pe : PE) : Res Cmp :=
  let lList := (pemGet pe lv).getD []
  let rList := (pemGet pe rv).getD []
  if lList.length ≤ 1 && rList.length ≤ 1 then cmpItem rec t pe lList.head? rList.head?
  else if lList.length ≥ 2 && rList.length ≥ 2 then
    if !listEqualValues lList rList then .ok { modified := [[pe]] } else .ok {}
  else if lList.length ≥ 2 then
    (match (if rList.isEmpty then Res.ok ({} : Cmp) else cmpItem rec t pe none rList.head?) with
     | .ok ci => .ok (ci ++ { removed := [[pe]] })
     | e => e)
  else
    (match (if lList.isEmpty then Res.ok ({} : Cmp) else cmpItem rec t pe lList.head? none) with
     | .ok ci => .ok (ci ++ { added := [[pe]] })
     | e => e)

theorem cmpListStep_eq (rec : CmpRec) (t : ListT) (lv rv : List (PE × List Value)) (acc : Res Cmp) (pe : PE) :
    cmpListStep rec t lv rv acc pe = resFold (listItemRes rec t lv rv) acc pe := by
  unfold cmpListStep resFold listItemRes
  cases acc with
  | err => rfl
  | panic => rfl
  | ok c =>
    simp only []
    split
    · cases cmpItem rec t pe _ _ <;> rfl
    · split
      · split
        · rfl
        · simp [Cmp.append_empty]
      · split
        · generalize (if ((pemGet pe rv).getD []).isEmpty = true then Res.ok ({} : Cmp)
            else cmpItem rec t pe none ((pemGet pe rv).getD []).head?) = X
          cases X <;> simp [Cmp.append_assoc]
        · generalize (if ((pemGet pe lv).getD []).isEmpty = true then Res.ok ({} : Cmp)
            else cmpItem rec t pe ((pemGet pe lv).getD []).head? none) = X
          cases X <;> simp [Cmp.append_assoc]

def mapItemRes (rec : CmpRec) (t : MapT) (lf rf : List (String × Value)) (k : String) : Res Cmp :=
  match rec (lookupField k lf) (lookupField k rf) (fieldType t k) with
  | .ok ci => .ok (ci.pre (.field k))
  | e => e

theorem cmpMapStep_eq (rec : CmpRec) (t : MapT) (lf rf : List (String × Value)) (acc : Res Cmp) (k : String) :
    cmpMapStep rec t lf rf acc k = resFold (mapItemRes rec t lf rf) acc k := by
  unfold cmpMapStep resFold mapItemRes
  cases acc with
  | err => rfl
  | panic => rfl
  | ok c =>
    simp only []
    cases rec (lookupField k lf) (lookupField k rf) (fieldType t k) <;> rfl

theorem foldl_congr_fun {α β : Type} (f g : β → α → β) (h : ∀ b a, f b a = g b a) (xs : List α) (b : β) :
    xs.foldl f b = xs.foldl g b := by
  have : f = g := funext fun b => funext fun a => h b a
  rw [this]

theorem mem_zipKeys_iff (l r : List (String × Value)) (k : String) :
    k ∈ zipKeys l r ↔ k ∈ l.map (·.1) ∨ k ∈ r.map (·.1) := by
  unfold zipKeys
  simp only [List.mem_append, List.mem_map, List.mem_filter]
  constructor
  · rintro (h | ⟨x, ⟨hx, _⟩, rfl⟩)
    · exact Or.inl h
    · exact Or.inr ⟨x, hx, rfl⟩
  · rintro (h | ⟨x, hx, rfl⟩)
    · exact Or.inl h
    · cases hl : lookupField x.1 l with
      | none => exact Or.inr ⟨x, ⟨hx, by simp [hl]⟩, rfl⟩
      | some v =>
        have := lookupField_mem x.1 l v hl
        exact Or.inl ⟨(x.1, v), this, rfl⟩

/-! ### `groupItems` -/

theorem groupItems_spec (s : Schema) (t : ListT) :
    ∀ (items : List Value) (m : List (PE × List Value)) (order : List PE) (m' : List (PE × List Value))
      (order' : List PE), groupItems s t items m order = .ok (m', order') →
      (∀ c ∈ items, ∃ pe, listItemToPE s t c = .ok pe) ∧
      (∀ q, (pemGet q m').getD [] = (pemGet q m).getD [] ++ items.filter (fun c => PE.equals (peOf s t c) q)) ∧
      (∀ q, (pemGet q m').isSome = ((pemGet q m).isSome || items.any (fun c => PE.equals (peOf s t c) q))) ∧
      ((∀ q ∈ order, (pemGet q m).isSome = true) → ∀ q ∈ order', (pemGet q m').isSome = true) ∧
      ((∀ q, (pemGet q m).isSome = true → ∃ q' ∈ order, PE.equals q' q = true) →
        ∀ q, (pemGet q m').isSome = true → ∃ q' ∈ order', PE.equals q' q = true)
  | [], m, order, m', order', h => by
    simp only [groupItems, Res.ok.injEq, Prod.mk.injEq] at h
    obtain ⟨rfl, rfl⟩ := h
    refine ⟨by simp, by simp, by simp, ?_, ?_⟩
    · intro h q hq; exact h q (List.mem_reverse.1 hq)
    · intro h q hq
      obtain ⟨q', h1, h2⟩ := h q hq
      exact ⟨q', List.mem_reverse.2 h1, h2⟩
  | item :: rest, m, order, m', order', h => by
    rw [groupItems] at h
    cases hpe : listItemToPE s t item with
    | err => simp [hpe] at h
    | panic => simp [hpe] at h
    | ok pe =>
      have hpo : peOf s t item = pe := by simp [peOf, hpe]
      simp only [hpe] at h
      cases hg : pemGet pe m with
      | some lst =>
        simp only [hg] at h
        obtain ⟨h1, h2, h3, h4, h5⟩ := groupItems_spec s t rest _ _ _ _ h
        refine ⟨?_, ?_, ?_, ?_, ?_⟩
        · intro c hc
          rcases List.mem_cons.1 hc with rfl | hc
          · exact ⟨pe, hpe⟩
          · exact h1 c hc
        · intro q
          rw [h2 q, pemGet_pemInsert, List.filter_cons, hpo]
          cases he : PE.equals pe q with
          | true => simp [← pemGet_congr he, hg]
          | false => simp
        · intro q
          rw [h3 q, pemGet_pemInsert, List.any_cons, hpo]
          cases he : PE.equals pe q with
          | true => simp
          | false => simp
        · intro ho
          apply h4
          intro q hq
          rw [pemGet_pemInsert]
          split
          · rfl
          · exact ho q hq
        · intro ho
          apply h5
          intro q hq
          rw [pemGet_pemInsert] at hq
          cases he : PE.equals pe q with
          | true => exact ho q (by rw [← pemGet_congr he, hg]; rfl)
          | false => simp only [he, Bool.false_eq_true, if_false] at hq; exact ho q hq
      | none =>
        simp only [hg] at h
        obtain ⟨h1, h2, h3, h4, h5⟩ := groupItems_spec s t rest _ _ _ _ h
        refine ⟨?_, ?_, ?_, ?_, ?_⟩
        · intro c hc
          rcases List.mem_cons.1 hc with rfl | hc
          · exact ⟨pe, hpe⟩
          · exact h1 c hc
        · intro q
          rw [h2 q, pemGet_pemInsert, List.filter_cons, hpo]
          cases he : PE.equals pe q with
          | true => simp [← pemGet_congr he, hg]
          | false => simp
        · intro q
          rw [h3 q, pemGet_pemInsert, List.any_cons, hpo]
          cases he : PE.equals pe q with
          | true => simp
          | false => simp
        · intro ho
          apply h4
          intro q hq
          rw [pemGet_pemInsert]
          rcases List.mem_cons.1 hq with rfl | hq
          · simp [PE.equals_refl]
          · split
            · rfl
            · exact ho q hq
        · intro ho
          apply h5
          intro q hq
          rw [pemGet_pemInsert] at hq
          cases he : PE.equals pe q with
          | true => exact ⟨pe, List.mem_cons_self, he⟩
          | false =>
            simp only [he, Bool.false_eq_true, if_false] at hq
            obtain ⟨q', hq', he'⟩ := ho q hq
            exact ⟨q', List.mem_cons_of_mem _ hq', he'⟩

/-- the groups of two maps coincide -/
def GroupEqv (m m' : List (PE × List Value)) : Prop := ∀ q, pemGet q m = pemGet q m'

theorem groupItems_congr (s : Schema) (t t' : ListT)
    (hpe : ∀ c, ResRel (fun pe pe' => PE.equals pe pe' = true) (listItemToPE s t c) (listItemToPE s t' c)) :
    ∀ (items : List Value) (m1 m2 : List (PE × List Value)) (o1 o2 : List PE) (m1' : List (PE × List Value))
      (o1' : List PE), GroupEqv m1 m2 → groupItems s t items m1 o1 = .ok (m1', o1') →
      ∃ m2' o2', groupItems s t' items m2 o2 = .ok (m2', o2') ∧ GroupEqv m1' m2'
  | [], m1, m2, o1, o2, m1', o1', hm, h => by
    simp only [groupItems, Res.ok.injEq, Prod.mk.injEq] at h
    obtain ⟨rfl, rfl⟩ := h
    exact ⟨m2, o2.reverse, rfl, hm⟩
  | item :: rest, m1, m2, o1, o2, m1', o1', hm, h => by
    rw [groupItems] at h
    have hp := hpe item
    cases h1 : listItemToPE s t item with
    | err => simp [h1] at h
    | panic => simp [h1] at h
    | ok pe =>
      cases h2 : listItemToPE s t' item with
      | err => rw [h1, h2] at hp; exact hp.elim
      | panic => rw [h1, h2] at hp; exact hp.elim
      | ok pe' =>
        rw [h1, h2] at hp
        simp only [ResRel] at hp
        simp only [h1] at h
        rw [groupItems, h2]
        simp only []
        have hget : pemGet pe' m2 = pemGet pe m1 := by rw [← pemGet_congr hp, hm pe]
        rw [hget]
        cases hg : pemGet pe m1 with
        | some lst =>
          simp only [hg] at h ⊢
          apply groupItems_congr s t t' hpe rest _ _ _ _ _ _ ?_ h
          intro q
          rw [pemGet_pemInsert, pemGet_pemInsert, PE.equals_congr_left hp q, hm q]
        | none =>
          simp only [hg] at h ⊢
          apply groupItems_congr s t t' hpe rest _ _ _ _ _ _ ?_ h
          intro q
          rw [pemGet_pemInsert, pemGet_pemInsert, PE.equals_congr_left hp q, hm q]

theorem peOf_congr (s : Schema) {t t' : ListT} (h : ListT.equals t t' = true) (c : Value) :
    PE.equals (peOf s t c) (peOf s t' c) = true := by
  have hp := listItemToPE_congr s h c
  unfold peOf
  cases h1 : listItemToPE s t c <;> cases h2 : listItemToPE s t' c <;> simp only [h1, h2, ResRel] at hp ⊢ <;>
    first | exact hp | rfl

theorem resolveKind_congr (s : Schema) {tr tr' : TypeRef} (h : TypeRef.equals tr tr' = true) (x : Option Value) :
    OptRel KindRel (resolveKind s tr x) (resolveKind s tr' x) := by
  have hr := (resolve_congr s h).2
  unfold resolveKind
  cases h1 : s.resolve tr <;> cases h2 : s.resolve tr' <;> simp only [h1, h2, OptRel, Option.map_some, Option.map_none] at hr ⊢
  exact atomKind_congr (deduceAtom_congr hr x)


end CmpX
end SMD
