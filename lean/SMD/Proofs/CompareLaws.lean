import SMD.Model.Compare
import SMD.Proofs.SetAlgebra
namespace SMD

/-! ### `cmpNode`, one level, with the recursive call abstracted -/

abbrev CmpRec := Option Value → Option Value → TypeRef → Res Cmp

def cmpItem (rec : CmpRec) (t : ListT) (pe : PE) (lc rc : Option Value) : Res Cmp :=
  match rec lc rc t.elementType with
  | .ok ci => .ok (ci.pre pe)
  | e => e

def cmpListStep (rec : CmpRec) (t : ListT) (lv rv : List (PE × List Value)) (acc : Res Cmp) (pe : PE) : Res Cmp :=
  match acc with
  | .ok c =>
    let lList := (pemGet pe lv).getD []
    let rList := (pemGet pe rv).getD []
    if lList.length ≤ 1 && rList.length ≤ 1 then
      (match cmpItem rec t pe lList.head? rList.head? with
       | .ok ci => .ok (c ++ ci)
       | e => e)
    else if lList.length ≥ 2 && rList.length ≥ 2 then
      if !listEqualValues lList rList then .ok (c ++ { modified := [[pe]] }) else .ok c
    else if lList.length ≥ 2 then
      (match (if rList.isEmpty then Res.ok ({} : Cmp) else cmpItem rec t pe none rList.head?) with
       | .ok ci => .ok (c ++ ci ++ { removed := [[pe]] })
       | e => e)
    else
      (match (if lList.isEmpty then Res.ok ({} : Cmp) else cmpItem rec t pe lList.head? none) with
       | .ok ci => .ok (c ++ ci ++ { added := [[pe]] })
       | e => e)
  | e => e

def cmpMapStep (rec : CmpRec) (t : MapT) (lf rf : List (String × Value)) (acc : Res Cmp) (k : String) : Res Cmp :=
  match acc with
  | .ok c =>
    (match rec (lookupField k lf) (lookupField k rf) (fieldType t k) with
     | .ok ci => .ok (c ++ ci.pre (.field k))
     | e => e)
  | e => e

def cmpHandle (s : Schema) (rec : CmpRec) (l r : Option Value) (atom : Atom) : Res (Cmp × Bool) :=
  match atomKind atom with
  | .invalid => .err
  | .scalar t =>
    if !validateScalar t l && !validateScalar t r then .err
    else .ok (leafCmp l r, true)
  | .list t =>
    let ll := asList l
    let rl := asList r
    if t.rel == "atomic" || (emptyOrAbsent ll && emptyOrAbsent rl) then .ok (leafCmp l r, true)
    else
      match groupItems s t (ll.getD []) [] [] with
      | .err => .err
      | .panic => .panic
      | .ok (lv, lorder) =>
        match groupItems s t (rl.getD []) [] [] with
        | .err => .err
        | .panic => .panic
        | .ok (rv, rorder) =>
          let allPEs := lorder ++ rorder.filter (fun pe => (pemGet pe lv).isNone)
          (match allPEs.foldl (cmpListStep rec t lv rv) (.ok {}) with
           | .ok c => .ok (c, false)
           | .err => .err
           | .panic => .panic)
  | .map t =>
    let lm := asMap l
    let rm := asMap r
    if t.rel == "atomic" || (emptyOrAbsent lm && emptyOrAbsent rm) then .ok (leafCmp l r, true)
    else
      let lf := lm.getD []
      let rf := rm.getD []
      (match (zipKeys lf rf).foldl (cmpMapStep rec t lf rf) (.ok {}) with
       | .ok c => .ok (c, false)
       | .err => .err
       | .panic => .panic)

def cmpHandled (s : Schema) (rec : CmpRec) (l r : Option Value) (a : Atom) : Res (Cmp × Bool) :=
  let al := deduceAtom a l
  let ar := deduceAtom a r
  if r.isNone then cmpHandle s rec l r al
  else if l.isNone || Atom.equals al ar then cmpHandle s rec l r ar
  else
    match cmpHandle s rec l r al with
    | .ok (c1, _) =>
      (match cmpHandle s rec l r ar with
       | .ok (c2, leaf) => .ok (c1 ++ c2, leaf)
       | e => e)
    | e => e

def cmpFinish (l r : Option Value) (handled : Res (Cmp × Bool)) : Res Cmp :=
  match handled with
  | .ok (c, leaf) =>
    if !leaf then
      if l.isNone then .ok (c ++ { added := [[]] })
      else if r.isNone then .ok (c ++ { removed := [[]] })
      else .ok c
    else .ok c
  | .err => .err
  | .panic => .panic

theorem cmpNode_succ (s : Schema) (fuel : Nat) (l r : Option Value) (tr : TypeRef) :
    cmpNode s (fuel + 1) l r tr =
      if l.isNone && r.isNone then .err
      else
        match s.resolve tr with
        | none => if tr.named.isNone then .panic else .err
        | some a => cmpFinish l r (cmpHandled s (cmpNode s fuel) l r a) := by
  rfl

/-! ### closure predicates on comparisons -/

structure CmpClosed (R : Cmp → Prop) : Prop where
  nil : R {}
  app : ∀ {a b}, R a → R b → R (a ++ b)
  pre : ∀ {a} (pe : PE), R a → R (a.pre pe)

def Cmp.Nil (c : Cmp) : Prop := c.removed = [] ∧ c.modified = [] ∧ c.added = []
def Cmp.OnlyAdded (c : Cmp) : Prop := c.removed = [] ∧ c.modified = []
def Cmp.OnlyRemoved (c : Cmp) : Prop := c.added = [] ∧ c.modified = []

@[simp] theorem Cmp.append_removed (a b : Cmp) : (a ++ b).removed = a.removed ++ b.removed := rfl
@[simp] theorem Cmp.append_modified (a b : Cmp) : (a ++ b).modified = a.modified ++ b.modified := rfl
@[simp] theorem Cmp.append_added (a b : Cmp) : (a ++ b).added = a.added ++ b.added := rfl
@[simp] theorem Cmp.pre_removed (pe : PE) (a : Cmp) : (a.pre pe).removed = a.removed.map (pe :: ·) := rfl
@[simp] theorem Cmp.pre_modified (pe : PE) (a : Cmp) : (a.pre pe).modified = a.modified.map (pe :: ·) := rfl
@[simp] theorem Cmp.pre_added (pe : PE) (a : Cmp) : (a.pre pe).added = a.added.map (pe :: ·) := rfl

theorem Cmp.nil_closed : CmpClosed Cmp.Nil where
  nil := ⟨rfl, rfl, rfl⟩
  app := by intro a b ha hb; simp_all [Cmp.Nil]
  pre := by intro a pe ha; simp_all [Cmp.Nil]
theorem Cmp.onlyAdded_closed : CmpClosed Cmp.OnlyAdded where
  nil := ⟨rfl, rfl⟩
  app := by intro a b ha hb; simp_all [Cmp.OnlyAdded]
  pre := by intro a pe ha; simp_all [Cmp.OnlyAdded]
theorem Cmp.onlyRemoved_closed : CmpClosed Cmp.OnlyRemoved where
  nil := ⟨rfl, rfl⟩
  app := by intro a b ha hb; simp_all [Cmp.OnlyRemoved]
  pre := by intro a pe ha; simp_all [Cmp.OnlyRemoved]

/-- the accumulator invariant of the folds -/
def AccInv (R : Cmp → Prop) (acc : Res Cmp) : Prop := ∀ c, acc = .ok c → R c

theorem AccInv.init {R : Cmp → Prop} (hR : CmpClosed R) : AccInv R (.ok {}) := by
  intro c hc; cases hc; exact hR.nil

theorem foldl_inv {α β : Type} (Inv : β → Prop) (step : β → α → β)
    (hstep : ∀ acc x, Inv acc → Inv (step acc x)) :
    ∀ (xs : List α) (init : β), Inv init → Inv (xs.foldl step init) := by
  intro xs
  induction xs with
  | nil => intro init h; simpa using h
  | cons x xs ih => intro init h; exact ih _ (hstep _ _ h)

theorem cmpItem_inv {R : Cmp → Prop} (hR : CmpClosed R) (rec : CmpRec) (t : ListT) (pe : PE)
    (lc rc : Option Value) (h : ∀ c, rec lc rc t.elementType = .ok c → R c) :
    ∀ c, cmpItem rec t pe lc rc = .ok c → R c := by
  intro c
  unfold cmpItem
  split
  · next ci hci => intro hc; cases hc; exact hR.pre pe (h ci hci)
  · next hne => intro hc; exact absurd hc (by intro h'; exact hne _ h')

theorem cmpMapStep_inv {R : Cmp → Prop} (hR : CmpClosed R) (rec : CmpRec) (t : MapT)
    (lf rf : List (String × Value))
    (h : ∀ k c, rec (lookupField k lf) (lookupField k rf) (fieldType t k) = .ok c → R c) :
    ∀ acc k, AccInv R acc → AccInv R (cmpMapStep rec t lf rf acc k) := by
  intro acc k hacc c
  unfold cmpMapStep
  split
  · next c0 =>
    split
    · next ci hci => intro hc; cases hc; exact hR.app (hacc c0 rfl) (hR.pre _ (h k ci hci))
    · next hne => intro hc; exact absurd hc (by intro h'; exact hne _ h')
  · next hne => intro hc; exact absurd hc (by intro h'; exact hne _ h')

theorem listEqualValues_refl : ∀ l : List Value, listEqualValues l l = true
  | [] => rfl
  | a :: as => by simp [listEqualValues, Value.equals_refl, listEqualValues_refl as]

theorem cmpListStep_self (rec : CmpRec) (t : ListT) (lv : List (PE × List Value))
    (hrec : ∀ x tr c, rec x x tr = .ok c → Cmp.Nil c) :
    ∀ acc pe, AccInv Cmp.Nil acc → AccInv Cmp.Nil (cmpListStep rec t lv lv acc pe) := by
  intro acc pe hacc c
  unfold cmpListStep
  split
  · next c0 =>
    have h0 := hacc c0 rfl
    simp only []
    generalize (pemGet pe lv).getD [] = L
    split
    · intro hc
      split at hc
      case h_2 hne => exact absurd hc (hne _)
      next ci hci =>
      cases hc
      exact Cmp.nil_closed.app h0 (cmpItem_inv Cmp.nil_closed rec t pe _ _ (hrec _ _) ci hci)
    · split
      · simp only [listEqualValues_refl, Bool.not_true, Bool.false_eq_true, if_false]
        intro hc; cases hc; exact h0
      · next h1 h2 => simp at h1 h2; omega
  · next hne => intro hc; exact absurd hc (by intro h'; exact hne _ h')

theorem leafCmp_self (v : Value) : leafCmp (some v) (some v) = {} := by
  simp [leafCmp, Value.equals_refl]

theorem cmpHandle_self (s : Schema) (rec : CmpRec)
    (hrec : ∀ x tr c, rec x x tr = .ok c → Cmp.Nil c) (v : Value) (atom : Atom) (c : Cmp) (leaf : Bool) :
    cmpHandle s rec (some v) (some v) atom = .ok (c, leaf) → Cmp.Nil c := by
  unfold cmpHandle
  split
  · intro h; cases h
  · split
    · intro h; cases h
    · intro h; cases h; rw [leafCmp_self]; exact Cmp.nil_closed.nil
  · next t ht =>
    simp only []
    split
    · intro h; cases h; rw [leafCmp_self]; exact Cmp.nil_closed.nil
    · split
      · intro h; cases h
      · intro h; cases h
      · next lv lorder hg =>
        intro h
        simp only [] at h
        split at h
        · next c' hc' =>
          cases h
          exact foldl_inv (AccInv Cmp.Nil) _ (cmpListStep_self rec t lv hrec) _ _
            (AccInv.init Cmp.nil_closed) _ hc'
        · cases h
        · cases h
  · next t ht =>
    simp only []
    split
    · intro h; cases h; rw [leafCmp_self]; exact Cmp.nil_closed.nil
    · intro h
      split at h
      · next c' hc' =>
        cases h
        exact foldl_inv (AccInv Cmp.Nil) _
          (cmpMapStep_inv Cmp.nil_closed rec t _ _ (fun k c => hrec _ _ c)) _ _
          (AccInv.init Cmp.nil_closed) _ hc'
      · cases h
      · cases h

theorem cmpNode_none_none (s : Schema) (fuel : Nat) (tr : TypeRef) : cmpNode s fuel none none tr = .err := by
  cases fuel with
  | zero => rfl
  | succ n => rw [cmpNode_succ]; rfl

/-- comparing a value with itself reports nothing -/
theorem cmpNode_self (s : Schema) : ∀ (fuel : Nat) (x : Option Value) (tr : TypeRef) (c : Cmp),
    cmpNode s fuel x x tr = .ok c → Cmp.Nil c := by
  intro fuel
  induction fuel with
  | zero => intro x tr c h; cases h
  | succ n ih =>
    intro x tr c
    cases x with
    | none => rw [cmpNode_none_none]; intro h; cases h
    | some v =>
      rw [cmpNode_succ]
      simp only [Option.isNone_some, Bool.and_self, Bool.false_eq_true, if_false]
      split
      · split <;> (intro h; cases h)
      · next a ha =>
        have hh := cmpHandle_self s (cmpNode s n) ih v (deduceAtom a (some v))
        unfold cmpHandled cmpFinish
        simp only [Option.isNone_some, Bool.false_eq_true, if_false, Bool.false_or]
        generalize cmpHandle s (cmpNode s n) (some v) (some v) (deduceAtom a (some v)) = H at hh
        split
        · next c0 leaf hhd =>
          have hc0 : Cmp.Nil c0 := by
            split at hhd
            · exact hh _ _ hhd
            · cases H with
              | ok p =>
                obtain ⟨c1, l1⟩ := p
                simp only [Res.ok.injEq, Prod.mk.injEq] at hhd
                obtain ⟨rfl, rfl⟩ := hhd
                exact Cmp.nil_closed.app (hh _ _ rfl) (hh _ _ rfl)
              | err => cases hhd
              | panic => cases hhd
          split <;> (intro h; cases h; exact hc0)
        · intro h; cases h
        · intro h; cases h

/-! ### one side absent -/

theorem cmpListStep_left_nil (rec : CmpRec) (t : ListT) (rv : List (PE × List Value))
    (hrec : ∀ x tr c, rec none x tr = .ok c → Cmp.OnlyAdded c) :
    ∀ acc pe, AccInv Cmp.OnlyAdded acc → AccInv Cmp.OnlyAdded (cmpListStep rec t [] rv acc pe) := by
  intro acc pe hacc c
  unfold cmpListStep
  split
  · next c0 =>
    have h0 := hacc c0 rfl
    simp only [pemGet, Option.getD_none, List.length_nil, List.head?_nil, List.isEmpty_nil, if_true]
    generalize (pemGet pe rv).getD [] = L
    split
    · intro hc
      split at hc
      case h_2 hne => exact absurd hc (hne _)
      next ci hci =>
      cases hc
      exact Cmp.onlyAdded_closed.app h0 (cmpItem_inv Cmp.onlyAdded_closed rec t pe _ _ (hrec _ _) ci hci)
    · split
      · next h1 h2 => simp at h2
      · split
        · next h3 => simp at h3
        · intro hc; cases hc
          exact Cmp.onlyAdded_closed.app (Cmp.onlyAdded_closed.app h0 Cmp.onlyAdded_closed.nil) ⟨rfl, rfl⟩
  · next hne => intro hc; exact absurd hc (by intro h'; exact hne _ h')

theorem cmpListStep_right_nil (rec : CmpRec) (t : ListT) (lv : List (PE × List Value))
    (hrec : ∀ x tr c, rec x none tr = .ok c → Cmp.OnlyRemoved c) :
    ∀ acc pe, AccInv Cmp.OnlyRemoved acc → AccInv Cmp.OnlyRemoved (cmpListStep rec t lv [] acc pe) := by
  intro acc pe hacc c
  unfold cmpListStep
  split
  · next c0 =>
    have h0 := hacc c0 rfl
    simp only [pemGet, Option.getD_none, List.length_nil, List.head?_nil, List.isEmpty_nil, if_true]
    generalize (pemGet pe lv).getD [] = L
    split
    · intro hc
      split at hc
      case h_2 hne => exact absurd hc (hne _)
      next ci hci =>
      cases hc
      exact Cmp.onlyRemoved_closed.app h0 (cmpItem_inv Cmp.onlyRemoved_closed rec t pe _ _ (hrec _ _) ci hci)
    · split
      · next h1 h2 => simp at h2
      · split
        · intro hc; cases hc
          exact Cmp.onlyRemoved_closed.app (Cmp.onlyRemoved_closed.app h0 Cmp.onlyRemoved_closed.nil) ⟨rfl, rfl⟩
        · next h1 h2 h3 => simp at h1 h3; omega
  · next hne => intro hc; exact absurd hc (by intro h'; exact hne _ h')

theorem cmpHandle_left_none (s : Schema) (rec : CmpRec)
    (hrec : ∀ x tr c, rec none x tr = .ok c → Cmp.OnlyAdded c) (v : Value) (atom : Atom) (c : Cmp) (leaf : Bool) :
    cmpHandle s rec none (some v) atom = .ok (c, leaf) → Cmp.OnlyAdded c := by
  have hleaf : Cmp.OnlyAdded (leafCmp none (some v)) := ⟨rfl, rfl⟩
  unfold cmpHandle
  split
  · intro h; cases h
  · split
    · intro h; cases h
    · intro h; cases h; exact hleaf
  · next t ht =>
    simp only []
    split
    · intro h; cases h; exact hleaf
    · simp only [asList, Option.getD_none, groupItems, List.reverse_nil, List.nil_append]
      split
      · intro h; cases h
      · intro h; cases h
      · next rv rorder hg =>
        intro h
        split at h
        · next c' hc' =>
          cases h
          exact foldl_inv (AccInv Cmp.OnlyAdded) _ (cmpListStep_left_nil rec t rv hrec) _ _
            (AccInv.init Cmp.onlyAdded_closed) _ hc'
        · cases h
        · cases h
  · next t ht =>
    simp only []
    split
    · intro h; cases h; exact hleaf
    · intro h
      split at h
      · next c' hc' =>
        cases h
        exact foldl_inv (AccInv Cmp.OnlyAdded) _
          (cmpMapStep_inv Cmp.onlyAdded_closed rec t [] _ (fun k c => hrec _ _ c)) _ _
          (AccInv.init Cmp.onlyAdded_closed) _ hc'
      · cases h
      · cases h

theorem cmpHandle_right_none (s : Schema) (rec : CmpRec)
    (hrec : ∀ x tr c, rec x none tr = .ok c → Cmp.OnlyRemoved c) (v : Value) (atom : Atom) (c : Cmp) (leaf : Bool) :
    cmpHandle s rec (some v) none atom = .ok (c, leaf) → Cmp.OnlyRemoved c := by
  have hleaf : Cmp.OnlyRemoved (leafCmp (some v) none) := ⟨rfl, rfl⟩
  unfold cmpHandle
  split
  · intro h; cases h
  · split
    · intro h; cases h
    · intro h; cases h; exact hleaf
  · next t ht =>
    simp only []
    split
    · intro h; cases h; exact hleaf
    · split
      · intro h; cases h
      · intro h; cases h
      · next lv lorder hg =>
        simp only [asList, Option.getD_none, groupItems, List.reverse_nil, List.filter_nil, List.append_nil]
        intro h
        split at h
        · next c' hc' =>
          cases h
          exact foldl_inv (AccInv Cmp.OnlyRemoved) _ (cmpListStep_right_nil rec t lv hrec) _ _
            (AccInv.init Cmp.onlyRemoved_closed) _ hc'
        · cases h
        · cases h
  · next t ht =>
    simp only []
    split
    · intro h; cases h; exact hleaf
    · intro h
      split at h
      · next c' hc' =>
        cases h
        exact foldl_inv (AccInv Cmp.OnlyRemoved) _
          (cmpMapStep_inv Cmp.onlyRemoved_closed rec t _ [] (fun k c => hrec _ _ c)) _ _
          (AccInv.init Cmp.onlyRemoved_closed) _ hc'
      · cases h
      · cases h

theorem cmpNode_left_none (s : Schema) : ∀ (fuel : Nat) (x : Option Value) (tr : TypeRef) (c : Cmp),
    cmpNode s fuel none x tr = .ok c → Cmp.OnlyAdded c := by
  intro fuel
  induction fuel with
  | zero => intro x tr c h; cases h
  | succ n ih =>
    intro x tr c
    cases x with
    | none => rw [cmpNode_none_none]; intro h; cases h
    | some v =>
      rw [cmpNode_succ]
      simp only [Option.isNone_some, Option.isNone_none, Bool.and_false, Bool.false_eq_true, if_false]
      split
      · split <;> (intro h; cases h)
      · next a ha =>
        have hh := cmpHandle_left_none s (cmpNode s n) ih v (deduceAtom a (some v))
        unfold cmpHandled cmpFinish
        simp only [Option.isNone_some, Option.isNone_none, Bool.false_eq_true, if_false, Bool.true_or, if_true]
        split
        · next c0 leaf hhd =>
          have hc0 := hh _ _ hhd
          split <;> (intro h; cases h)
          · exact Cmp.onlyAdded_closed.app hc0 ⟨rfl, rfl⟩
          · exact hc0
        · intro h; cases h
        · intro h; cases h

theorem cmpNode_right_none (s : Schema) : ∀ (fuel : Nat) (x : Option Value) (tr : TypeRef) (c : Cmp),
    cmpNode s fuel x none tr = .ok c → Cmp.OnlyRemoved c := by
  intro fuel
  induction fuel with
  | zero => intro x tr c h; cases h
  | succ n ih =>
    intro x tr c
    cases x with
    | none => rw [cmpNode_none_none]; intro h; cases h
    | some v =>
      rw [cmpNode_succ]
      simp only [Option.isNone_some, Option.isNone_none, Bool.false_and, Bool.false_eq_true, if_false]
      split
      · split <;> (intro h; cases h)
      · next a ha =>
        have hh := cmpHandle_right_none s (cmpNode s n) ih v (deduceAtom a (some v))
        unfold cmpHandled cmpFinish
        simp only [Option.isNone_some, Option.isNone_none, Bool.false_eq_true, if_false, if_true]
        split
        · next c0 leaf hhd =>
          have hc0 := hh _ _ hhd
          split <;> (intro h; cases h)
          · exact Cmp.onlyRemoved_closed.app hc0 ⟨rfl, rfl⟩
          · exact hc0
        · intro h; cases h
        · intro h; cases h

end SMD
