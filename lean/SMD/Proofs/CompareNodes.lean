/-
The reference against which the comparison is exact: `nodeAt`, the node a path designates in an object
as the typed walkers address it (map entries by field name, list items by their path element, nothing
inside atomic lists and maps).  One level of the comparison walker in terms of the children of its
operands.
-/
import SMD.Proofs.CompareSwap
set_option linter.unusedSimpArgs false
set_option linter.unusedVariables false
namespace SMD
namespace CmpX
open NodeLaws

/-! ### the reference -/

/-- the node a path designates: an entry of a (non-atomic) map by its field name, a member of a
(non-atomic) list by its path element; nothing beneath scalars, atomic lists and atomic maps -/
def nodeAt (s : Schema) : TypeRef → Value → Path → Option Value
  | _, v, [] => some v
  | tr, v, pe :: rest =>
    match resolveKind s tr (some v) with
    | some (.map t) =>
      if t.rel == "atomic" then none
      else
        (match v, pe with
         | .map m, .field k =>
           (match lookupField k m with
            | some x => nodeAt s (fieldType t k) x rest
            | none => none)
         | _, _ => none)
    | some (.list t) =>
      if t.rel == "atomic" then none
      else
        (match v with
         | .list l =>
           (match l.find? (fun c => PE.equals (peOf s t c) pe) with
            | some x => nodeAt s t.elementType x rest
            | none => none)
         | _ => none)
    | _ => none

def nodeAtO (s : Schema) (tr : TypeRef) (x : Option Value) (p : Path) : Option Value :=
  match x with
  | some v => nodeAt s tr v p
  | none => none

/-- the member of the list operand that `pe` designates -/
def listChild (s : Schema) (t : ListT) (pe : PE) (x : Option Value) : Option Value :=
  ((asList x).getD []).find? (fun c => PE.equals (peOf s t c) pe)

/-- the child `pe` of an operand handled as kind `K`, with its type; `none`: kind `K` has no child `pe` -/
def kindChild (s : Schema) (K : AtomKind) (x : Option Value) (pe : PE) : Option (TypeRef × Option Value) :=
  match K with
  | .map t =>
    if t.rel == "atomic" then none
    else
      (match pe with
       | .field k => some (fieldType t k, lookupField k ((asMap x).getD []))
       | _ => none)
  | .list t => if t.rel == "atomic" then none else some (t.elementType, listChild s t pe x)
  | _ => none

theorem resolveKind_eq (s : Schema) (tr : TypeRef) (a : Atom) (x : Option Value) (h : s.resolve tr = some a) :
    resolveKind s tr x = some (atomKind (deduceAtom a x)) := by
  simp [resolveKind, h]

theorem nodeAt_cons (s : Schema) (tr : TypeRef) (a : Atom) (v : Value) (pe : PE) (rest : Path)
    (h : s.resolve tr = some a) :
    nodeAt s tr v (pe :: rest) =
      match kindChild s (atomKind (deduceAtom a (some v))) (some v) pe with
      | some (tr', xo) => nodeAtO s tr' xo rest
      | none => none := by
  rw [nodeAt, resolveKind_eq s tr a _ h]
  cases hK : atomKind (deduceAtom a (some v)) with
  | invalid => simp [kindChild]
  | scalar t => simp [kindChild]
  | map t =>
    simp only [kindChild]
    split
    · rfl
    · cases v <;> cases pe <;> simp [asMap, lookupField, nodeAtO]
  | list t =>
    simp only [kindChild, listChild]
    split
    · rfl
    · cases v <;> simp [asList, nodeAtO]

theorem nodeAtO_nil (s : Schema) (tr : TypeRef) (x : Option Value) : nodeAtO s tr x [] = x := by
  cases x <;> simp [nodeAtO, nodeAt]

/-! ### what validity gives, per kind -/

/-- a present operand is valid (no duplicate list members) -/
def VO (s : Schema) (tr : TypeRef) (x : Option Value) : Prop := ∀ v, x = some v → validateV s false tr v = .ok ()

/-- what the handler of kind `K` knows about a valid operand -/
def SideV (s : Schema) (K : AtomKind) (x : Option Value) : Prop :=
  match K with
  | .list t => ∀ xl, x = some (.list xl) → validateItems s false t [] 0 xl = .ok ()
  | .map t => ∀ xm, x = some (.map xm) → validateFields s false t xm = .ok ()
  | .scalar t => ∀ v, x = some v → validateScalar t (some v) = true → v.isList = false ∧ v.isMap = false
  | .invalid => True

theorem sideV_of_valid (s : Schema) (tr : TypeRef) (a : Atom) (hres : s.resolve tr = some a)
    (x : Option Value) (hx : VO s tr x) (y : Option Value) : SideV s (atomKind (deduceAtom a y)) x := by
  cases hk : atomKind (deduceAtom a y) with
  | invalid => trivial
  | scalar t =>
    intro v _ hv
    cases v <;> simp_all [validateScalar, Value.isNull, Value.isNumeric, Value.isString, Value.isBool,
      Value.isScalar, Value.isList, Value.isMap]
  | list t =>
    intro xl hxl
    have hv := hx _ hxl
    have hk' := atomKind_deduce_list a xl t (atomKind_deduce_list_inv a y t hk)
    obtain ⟨a', hres', hview⟩ := validateV_view2 s false tr _ hv
    rw [hres] at hres'
    cases hres'
    rw [hk'] at hview
    exact hview xl rfl
  | map t =>
    intro xm hxm
    have hv := hx _ hxm
    have hk' := atomKind_deduce_map a xm t (atomKind_deduce_map_inv a y t hk)
    obtain ⟨a', hres', hview⟩ := validateV_view2 s false tr _ hv
    rw [hres] at hres'
    cases hres'
    rw [hk'] at hview
    exact hview xm rfl

theorem find?_mem' {α : Type} {p : α → Bool} : ∀ {l : List α} {x : α}, l.find? p = some x → x ∈ l
  | [], _, h => by cases h
  | y :: l, x, h => by
    simp only [List.find?_cons] at h
    split at h
    · cases h; exact List.mem_cons_self
    · exact List.mem_cons_of_mem _ (find?_mem' h)

theorem kindChild_valid (s : Schema) (K : AtomKind) (x : Option Value) (hx : SideV s K x) (pe : PE)
    (tr' : TypeRef) (xo : Option Value) (h : kindChild s K x pe = some (tr', xo)) : VO s tr' xo := by
  cases K with
  | invalid => simp [kindChild] at h
  | scalar t => simp [kindChild] at h
  | map t =>
    simp only [kindChild] at h
    split at h
    · cases h
    · cases pe with
      | field k =>
        simp only [Option.some.injEq, Prod.mk.injEq] at h
        obtain ⟨rfl, rfl⟩ := h
        intro v hv
        cases x with
        | none => simp [asMap, lookupField] at hv
        | some w =>
          cases w with
          | map m =>
            simp only [asMap, Option.getD_some] at hv
            exact validateFields_mem s false t m (hx m rfl) _ (lookupField_mem k m v hv)
          | _ => simp [asMap, lookupField] at hv
      | _ => cases h
  | list t =>
    simp only [kindChild] at h
    split at h
    · cases h
    · simp only [Option.some.injEq, Prod.mk.injEq] at h
      obtain ⟨rfl, rfl⟩ := h
      intro v hv
      cases x with
      | none => simp [listChild, asList] at hv
      | some w =>
        cases w with
        | list l =>
          simp only [listChild, asList, Option.getD_some] at hv
          exact validateItems_mem s false t l _ _ (hx l rfl) v (find?_mem' hv)
        | _ => simp [listChild, asList] at hv

/-! ### no duplicates -/

theorem listItemToPE_ok_assoc {s : Schema} {t : ListT} {c : Value} {pe : PE} (h : listItemToPE s t c = .ok pe) :
    t.rel = "associative" := by
  unfold listItemToPE at h
  split at h
  · cases h
  · next hne => simpa using hne

theorem validateItems_nodup (s : Schema) (t : ListT) (hrel : t.rel = "associative") :
    ∀ (items : List Value) (seen : List PE) (i : Nat), validateItems s false t seen i items = .ok () →
      ∀ q, (items.filter (fun c => PE.equals (peOf s t c) q)).length ≤ 1 ∧
        (peHas q seen = true → items.filter (fun c => PE.equals (peOf s t c) q) = [])
  | [], _, _, _, q => by simp
  | child :: rest, seen, i, h, q => by
    rw [validateItems] at h
    simp only [hrel, bne_self_eq_false, Bool.false_eq_true, if_false] at h
    cases hpe : listItemToPE s t child with
    | err => simp [hpe] at h
    | panic => simp [hpe] at h
    | ok pe =>
      have hpo : peOf s t child = pe := by simp [peOf, hpe]
      simp only [hpe, Bool.not_false, Bool.and_true] at h
      cases hs : peHas pe seen with
      | true => simp [hs] at h
      | false =>
        simp only [hs, Bool.false_eq_true, if_false] at h
        cases hv : validateV s false t.elementType child with
        | err => simp [hv] at h
        | panic => simp [hv] at h
        | ok u =>
          simp only [hv] at h
          obtain ⟨ih1, ih2⟩ := validateItems_nodup s t hrel rest _ _ h q
          rw [peHas_peInsert] at ih2
          simp only [List.filter_cons, hpo]
          cases he : PE.equals pe q with
          | true =>
            have := ih2 (by simp [he])
            simp only [if_true, this, List.length_cons, List.length_nil]
            refine ⟨by omega, ?_⟩
            intro hq
            rw [← peHas_congr he seen, hs] at hq
            cases hq
          | false =>
            simp only [Bool.false_eq_true, if_false]
            exact ⟨ih1, fun hq => ih2 (by simp [hq])⟩

/-- the groups of a valid list operand are singletons -/
theorem groups_le_one (s : Schema) (t : ListT) (x : Option Value) (hx : SideV s (.list t) x)
    (m : List (PE × List Value)) (order : List PE)
    (hg : groupItems s t ((asList x).getD []) [] [] = .ok (m, order)) (q : PE) :
    (pemGet q m).getD [] = ((asList x).getD []).filter (fun c => PE.equals (peOf s t c) q) ∧
      ((pemGet q m).getD []).length ≤ 1 := by
  obtain ⟨h1, h2, _, _, _⟩ := groupItems_spec s t _ _ _ _ _ hg
  have e : (pemGet q m).getD [] = ((asList x).getD []).filter (fun c => PE.equals (peOf s t c) q) := by
    rw [h2 q]; simp [pemGet]
  refine ⟨e, ?_⟩
  rw [e]
  cases x with
  | none => simp [asList]
  | some v =>
    cases v with
    | list l =>
      simp only [asList, Option.getD_some] at h1 ⊢
      cases l with
      | nil => simp
      | cons c l' =>
        obtain ⟨pe, hpe⟩ := h1 c List.mem_cons_self
        exact (validateItems_nodup s t (listItemToPE_ok_assoc hpe) _ _ _ (hx _ rfl) q).1
    | _ => simp [asList]

/-! ### kinds of the two deduced atoms -/

theorem deduceAtom_comps (a : Atom) (x : Option Value) :
    ((deduceAtom a x).scalar = a.scalar ∨ (deduceAtom a x).scalar = none) ∧
    ((deduceAtom a x).list = a.list ∨ (deduceAtom a x).list = none) ∧
    ((deduceAtom a x).map = a.map ∨ (deduceAtom a x).map = none) := by
  obtain ⟨sc, li, mp⟩ := a
  cases x with
  | none => simp [deduceAtom]
  | some v =>
    unfold deduceAtom
    simp only []
    split
    · cases sc <;> simp [Atom.scalar, Atom.list, Atom.map]
    · split
      · cases li <;> simp [Atom.scalar, Atom.list, Atom.map]
      · split
        · cases mp <;> simp [Atom.scalar, Atom.list, Atom.map]
        · simp

theorem atomKind_eq_of_equals (a : Atom) (x y : Option Value)
    (h : Atom.equals (deduceAtom a x) (deduceAtom a y) = true) :
    atomKind (deduceAtom a x) = atomKind (deduceAtom a y) := by
  obtain ⟨h1, h2, h3⟩ := Atom.equals_inv h
  obtain ⟨_, x2, x3⟩ := deduceAtom_comps a x
  obtain ⟨_, y2, y3⟩ := deduceAtom_comps a y
  have e2 : (deduceAtom a x).list = (deduceAtom a y).list := by
    rcases x2 with x2 | x2 <;> rcases y2 with y2 | y2 <;> rw [x2, y2] at h2 ⊢
    · cases hl : a.list <;> simp_all [OptRel]
    · cases hl : a.list <;> simp_all [OptRel]
  have e3 : (deduceAtom a x).map = (deduceAtom a y).map := by
    rcases x3 with x3 | x3 <;> rcases y3 with y3 | y3 <;> rw [x3, y3] at h3 ⊢
    · cases hl : a.map <;> simp_all [OptRel]
    · cases hl : a.map <;> simp_all [OptRel]
  unfold atomKind
  rw [h1, e2, e3]

end CmpX
end SMD

namespace SMD
namespace CmpX
open NodeLaws

/-! ### one level of the walker: the paths of a handler in terms of the children of its operands -/

theorem pmem_leafCmp_cons (l r : Option Value) (k : Side) (pe : PE) (rest : Path) :
    pmem (pe :: rest) ((leafCmp l r).get k) = false := by
  cases l <;> cases r <;> cases k <;> simp [leafCmp, Cmp.get, Path.equals] <;> split <;> simp [Path.equals]

theorem PE.eq_field_of_equals {a : String} {pe : PE} (h : PE.equals (.field a) pe = true) : pe = .field a := by
  cases pe <;> simp [PE.equals] at h
  rw [h]

theorem cmpItem_ok_iff (rec : CmpRec) (t : ListT) (pe : PE) (lc rc : Option Value) (c : Cmp) :
    cmpItem rec t pe lc rc = .ok c ↔ ∃ ci, rec lc rc t.elementType = .ok ci ∧ c = ci.pre pe := by
  unfold cmpItem
  cases rec lc rc t.elementType with
  | ok ci => simp [eq_comm]
  | err => simp
  | panic => simp

theorem mapItemRes_ok_iff (rec : CmpRec) (t : MapT) (lf rf : List (String × Value)) (k : String) (c : Cmp) :
    mapItemRes rec t lf rf k = .ok c ↔
      ∃ ci, rec (lookupField k lf) (lookupField k rf) (fieldType t k) = .ok ci ∧ c = ci.pre (.field k) := by
  unfold mapItemRes
  cases rec (lookupField k lf) (lookupField k rf) (fieldType t k) with
  | ok ci => simp [eq_comm]
  | err => simp
  | panic => simp

theorem listItemRes_single (rec : CmpRec) (t : ListT) (lv rv : List (PE × List Value)) (pe : PE)
    (hl : ((pemGet pe lv).getD []).length ≤ 1) (hr : ((pemGet pe rv).getD []).length ≤ 1) :
    listItemRes rec t lv rv pe =
      cmpItem rec t pe ((pemGet pe lv).getD []).head? ((pemGet pe rv).getD []).head? := by
  unfold listItemRes
  simp [hl, hr]

theorem listChild_congr (s : Schema) (t : ListT) {pe pe' : PE} (h : PE.equals pe pe' = true) (x : Option Value) :
    listChild s t pe x = listChild s t pe' x := by
  unfold listChild
  congr 1
  funext c
  exact PE.equals_congr_right h _

theorem listChild_isSome (s : Schema) (t : ListT) (pe : PE) (x : Option Value) :
    (listChild s t pe x).isSome = ((asList x).getD []).any (fun c => PE.equals (peOf s t c) pe) := by
  unfold listChild
  rw [Bool.eq_iff_iff, List.find?_isSome, List.any_eq_true]

theorem lookupField_isSome_mem {k : String} {m : List (String × Value)} (h : (lookupField k m).isSome = true) :
    k ∈ m.map (·.1) := by
  obtain ⟨v, hv⟩ := Option.isSome_iff_exists.1 h
  exact List.mem_map.2 ⟨(k, v), lookupField_mem k m v hv, rfl⟩

/-- the paths of a successful handler -/
theorem cmpHandle_paths (s : Schema) (rec : CmpRec) (l r : Option Value) (atom : Atom)
    (hvl : SideV s (atomKind atom) l) (hvr : SideV s (atomKind atom) r)
    (c : Cmp) (leaf : Bool) (h : cmpHandle s rec l r atom = .ok (c, leaf)) :
    (leaf = true → c = leafCmp l r) ∧ (leaf = false → ∀ k, pmem [] (c.get k) = false) ∧
    (∀ k pe rest, pmem (pe :: rest) (c.get k) = true ↔
      ∃ tr' lc rc ci, kindChild s (atomKind atom) l pe = some (tr', lc) ∧
        kindChild s (atomKind atom) r pe = some (tr', rc) ∧ (lc.isSome = true ∨ rc.isSome = true) ∧
        rec lc rc tr' = .ok ci ∧ pmem rest (ci.get k) = true) ∧
    (∀ pe tr' lc rc, kindChild s (atomKind atom) l pe = some (tr', lc) →
        kindChild s (atomKind atom) r pe = some (tr', rc) → (lc.isSome = true ∨ rc.isSome = true) →
        ∃ ci, rec lc rc tr' = .ok ci) := by
  cases hK : atomKind atom with
  | invalid => rw [cmpHandle_invalid_eq s rec l r atom hK] at h; cases h
  | scalar t =>
    rw [cmpHandle_scalar_eq s rec l r atom t hK] at h
    split at h
    · cases h
    · simp only [Res.ok.injEq, Prod.mk.injEq] at h
      obtain ⟨rfl, rfl⟩ := h
      refine ⟨fun _ => rfl, by simp, ?_, ?_⟩
      · intro k pe rest
        simp [pmem_leafCmp_cons, kindChild]
      · intro pe tr' lc rc h1
        simp [kindChild] at h1
  | map t =>
    rw [hK] at hvl hvr
    rw [cmpHandle_map_eq s rec l r atom t hK] at h
    split at h
    · next hc =>
      simp only [Res.ok.injEq, Prod.mk.injEq] at h
      obtain ⟨rfl, rfl⟩ := h
      have hvac : ∀ pe tr' lc rc, kindChild s (.map t) l pe = some (tr', lc) →
          kindChild s (.map t) r pe = some (tr', rc) → (lc.isSome = true ∨ rc.isSome = true) → False := by
        intro pe tr' lc rc h1 h2 h3
        simp only [kindChild] at h1 h2
        simp only [Bool.or_eq_true, beq_iff_eq, Bool.and_eq_true] at hc
        rcases hc with hc | hc
        · simp [hc] at h1
        · cases hat : t.rel == "atomic" with
          | true => simp [hat] at h1
          | false =>
            simp only [hat, Bool.false_eq_true, if_false] at h1 h2
            cases pe with
            | field x =>
              simp only [Option.some.injEq, Prod.mk.injEq] at h1 h2
              rw [emptyOrAbsent_getD_nil _ hc.1] at h1
              rw [emptyOrAbsent_getD_nil _ hc.2] at h2
              rw [← h1.2, ← h2.2] at h3
              simp [lookupField] at h3
            | _ => cases h1
      refine ⟨fun _ => rfl, by simp, ?_, ?_⟩
      · intro k pe rest
        rw [pmem_leafCmp_cons]
        simp only [Bool.false_eq_true, false_iff, not_exists]
        rintro tr' lc rc ci ⟨h1, h2, h3, _⟩
        exact hvac pe tr' lc rc h1 h2 h3
      · intro pe tr' lc rc h1 h2 h3
        exact (hvac pe tr' lc rc h1 h2 h3).elim
    · next hc =>
      have hna : (t.rel == "atomic") = false := by
        cases hh : t.rel == "atomic" with
        | false => rfl
        | true => simp [hh] at hc
      cases hf : (zipKeys ((asMap l).getD []) ((asMap r).getD [])).foldl
          (resFold (mapItemRes rec t ((asMap l).getD []) ((asMap r).getD []))) (.ok {}) with
      | err => simp [hf] at h
      | panic => simp [hf] at h
      | ok c0 =>
        simp only [hf, Res.ok.injEq, Prod.mk.injEq] at h
        obtain ⟨rfl, rfl⟩ := h
        obtain ⟨hok, hmem⟩ := foldl_resFold_ok _ _ _ _ hf
        refine ⟨by simp, ?_, ?_, ?_⟩
        · intro _ k
          rw [hmem k []]
          simp only [Cmp.get_empty, pmem_nil, Bool.false_or]
          rw [Bool.eq_false_iff]
          intro hany
          obtain ⟨x, hx, hp⟩ := List.any_eq_true.1 hany
          obtain ⟨ci, hci⟩ := hok x hx
          obtain ⟨ci', _, rfl⟩ := (mapItemRes_ok_iff _ _ _ _ _ _).1 hci
          simp [hci, resGet] at hp
        · intro k pe rest
          rw [hmem k (pe :: rest)]
          simp only [Cmp.get_empty, pmem_nil, Bool.false_or, List.any_eq_true, kindChild, hna, Bool.false_eq_true,
            if_false]
          constructor
          · rintro ⟨x, hx, hp⟩
            obtain ⟨ci, hci⟩ := hok x hx
            obtain ⟨ci', hrec', rfl⟩ := (mapItemRes_ok_iff _ _ _ _ _ _).1 hci
            simp only [hci, resGet, Cmp.get_pre, pmem_map_cons_cons, Bool.and_eq_true] at hp
            have hpe := PE.eq_field_of_equals hp.1
            subst hpe
            exact ⟨_, _, _, ci', rfl, rfl, zipKeys_isSome _ _ x hx, hrec', hp.2⟩
          · rintro ⟨tr', lc, rc, ci, h1, h2, h3, h4, h5⟩
            cases pe with
            | field x =>
              simp only [Option.some.injEq, Prod.mk.injEq] at h1 h2
              obtain ⟨rfl, rfl⟩ := h1
              obtain ⟨_, rfl⟩ := h2
              refine ⟨x, ?_, ?_⟩
              · rw [mem_zipKeys_iff]
                exact h3.imp lookupField_isSome_mem lookupField_isSome_mem
              · have : mapItemRes rec t ((asMap l).getD []) ((asMap r).getD []) x = .ok (ci.pre (.field x)) :=
                  (mapItemRes_ok_iff _ _ _ _ _ _).2 ⟨ci, h4, rfl⟩
                simp [this, resGet, PE.equals_refl, h5]
            | _ => cases h1
        · intro pe tr' lc rc h1 h2 h3
          simp only [kindChild, hna, Bool.false_eq_true, if_false] at h1 h2
          cases pe with
          | field x =>
            simp only [Option.some.injEq, Prod.mk.injEq] at h1 h2
            obtain ⟨rfl, rfl⟩ := h1
            obtain ⟨_, rfl⟩ := h2
            have hx : x ∈ zipKeys ((asMap l).getD []) ((asMap r).getD []) := by
              rw [mem_zipKeys_iff]
              exact h3.imp lookupField_isSome_mem lookupField_isSome_mem
            obtain ⟨ci, hci⟩ := hok x hx
            obtain ⟨ci', hrec', _⟩ := (mapItemRes_ok_iff _ _ _ _ _ _).1 hci
            exact ⟨ci', hrec'⟩
          | _ => cases h1
  | list t =>
    rw [hK] at hvl hvr
    rw [cmpHandle_list_eq s rec l r atom t hK] at h
    split at h
    · next hc =>
      simp only [Res.ok.injEq, Prod.mk.injEq] at h
      obtain ⟨rfl, rfl⟩ := h
      have hvac : ∀ pe tr' lc rc, kindChild s (.list t) l pe = some (tr', lc) →
          kindChild s (.list t) r pe = some (tr', rc) → (lc.isSome = true ∨ rc.isSome = true) → False := by
        intro pe tr' lc rc h1 h2 h3
        simp only [kindChild] at h1 h2
        simp only [Bool.or_eq_true, beq_iff_eq, Bool.and_eq_true] at hc
        rcases hc with hc | hc
        · simp [hc] at h1
        · cases hat : t.rel == "atomic" with
          | true => simp [hat] at h1
          | false =>
            simp only [hat, Bool.false_eq_true, if_false, Option.some.injEq, Prod.mk.injEq, listChild] at h1 h2
            rw [emptyOrAbsent_getD_nil _ hc.1] at h1
            rw [emptyOrAbsent_getD_nil _ hc.2] at h2
            rw [← h1.2, ← h2.2] at h3
            simp at h3
      refine ⟨fun _ => rfl, by simp, ?_, ?_⟩
      · intro k pe rest
        rw [pmem_leafCmp_cons]
        simp only [Bool.false_eq_true, false_iff, not_exists]
        rintro tr' lc rc ci ⟨h1, h2, h3, _⟩
        exact hvac pe tr' lc rc h1 h2 h3
      · intro pe tr' lc rc h1 h2 h3
        exact (hvac pe tr' lc rc h1 h2 h3).elim
    · next hc =>
      have hna : (t.rel == "atomic") = false := by
        cases hh : t.rel == "atomic" with
        | false => rfl
        | true => simp [hh] at hc
      cases hgl : groupItems s t ((asList l).getD []) [] [] with
      | err => simp [hgl] at h
      | panic => simp [hgl] at h
      | ok pl =>
        obtain ⟨lv, lo⟩ := pl
        simp only [hgl] at h
        cases hgr : groupItems s t ((asList r).getD []) [] [] with
        | err => simp [hgr] at h
        | panic => simp [hgr] at h
        | ok pr =>
          obtain ⟨rv, ro⟩ := pr
          simp only [hgr] at h
          cases hf : (lo ++ ro.filter (fun pe => (pemGet pe lv).isNone)).foldl
              (resFold (listItemRes rec t lv rv)) (.ok {}) with
          | err => simp [hf] at h
          | panic => simp [hf] at h
          | ok c0 =>
            simp only [hf, Res.ok.injEq, Prod.mk.injEq] at h
            obtain ⟨rfl, rfl⟩ := h
            obtain ⟨hok, hmem⟩ := foldl_resFold_ok _ _ _ _ hf
            obtain ⟨_, _, hl3, hl4, hl5⟩ := groupItems_spec s t _ _ _ _ _ hgl
            obtain ⟨_, _, hr3, hr4, hr5⟩ := groupItems_spec s t _ _ _ _ _ hgr
            have el1 := hl4 (by intro q hq; cases hq)
            have el2 := hl5 (by intro q hq; simp [pemGet] at hq)
            have er1 := hr4 (by intro q hq; cases hq)
            have er2 := hr5 (by intro q hq; simp [pemGet] at hq)
            -- every visited element: the step is the comparison of the two designated members
            have hF : ∀ x, listItemRes rec t lv rv x = cmpItem rec t x (listChild s t x l) (listChild s t x r) := by
              intro x
              obtain ⟨gl1, gl2⟩ := groups_le_one s t l hvl lv lo hgl x
              obtain ⟨gr1, gr2⟩ := groups_le_one s t r hvr rv ro hgr x
              rw [listItemRes_single rec t lv rv x gl2 gr2, gl1, gr1, List.head?_filter, List.head?_filter]
              rfl
            have hsome : ∀ x ∈ lo ++ ro.filter (fun pe => (pemGet pe lv).isNone),
                (listChild s t x l).isSome = true ∨ (listChild s t x r).isSome = true := by
              intro x hx
              rw [listChild_isSome, listChild_isSome]
              rcases List.mem_append.1 hx with hx | hx
              · left; have := el1 x hx; rw [hl3 x] at this; simpa [pemGet] using this
              · right; have := er1 x (List.mem_filter.1 hx).1; rw [hr3 x] at this; simpa [pemGet] using this
            have hcover : ∀ pe, (listChild s t pe l).isSome = true ∨ (listChild s t pe r).isSome = true →
                ∃ x ∈ lo ++ ro.filter (fun pe => (pemGet pe lv).isNone), PE.equals x pe = true := by
              intro pe hpe
              rw [listChild_isSome, listChild_isSome] at hpe
              have hl' : (pemGet pe lv).isSome = true → ∃ x ∈ lo, PE.equals x pe = true := el2 pe
              rcases hpe with hpe | hpe
              · obtain ⟨x, hx, he⟩ := hl' (by rw [hl3 pe]; simpa [pemGet] using hpe)
                exact ⟨x, List.mem_append_left _ hx, he⟩
              · obtain ⟨x, hx, he⟩ := er2 pe (by rw [hr3 pe]; simpa [pemGet] using hpe)
                cases hxl : (pemGet x lv).isSome with
                | false =>
                  refine ⟨x, List.mem_append_right _ (List.mem_filter.2 ⟨hx, ?_⟩), he⟩
                  simpa using hxl
                | true =>
                  obtain ⟨y, hy, hey⟩ := el2 x hxl
                  exact ⟨y, List.mem_append_left _ hy, PE.equals_trans hey he⟩
            refine ⟨by simp, ?_, ?_, ?_⟩
            · intro _ k
              rw [hmem k []]
              simp only [Cmp.get_empty, pmem_nil, Bool.false_or]
              rw [Bool.eq_false_iff]
              intro hany
              obtain ⟨x, hx, hp⟩ := List.any_eq_true.1 hany
              obtain ⟨ci, hci⟩ := hok x hx
              rw [hF x] at hci
              obtain ⟨ci', _, rfl⟩ := (cmpItem_ok_iff _ _ _ _ _ _).1 hci
              rw [hF x] at hp
              simp [hci, resGet] at hp
            · intro k pe rest
              rw [hmem k (pe :: rest)]
              simp only [Cmp.get_empty, pmem_nil, Bool.false_or, List.any_eq_true, kindChild, hna, Bool.false_eq_true,
                if_false]
              constructor
              · rintro ⟨x, hx, hp⟩
                obtain ⟨ci, hci⟩ := hok x hx
                rw [hF x] at hci hp
                obtain ⟨ci', hrec', rfl⟩ := (cmpItem_ok_iff _ _ _ _ _ _).1 hci
                simp only [hci, resGet, Cmp.get_pre, pmem_map_cons_cons, Bool.and_eq_true] at hp
                refine ⟨_, _, _, ci', rfl, rfl, ?_, ?_, hp.2⟩
                · rw [← listChild_congr s t hp.1, ← listChild_congr s t hp.1]; exact hsome x hx
                · rw [← listChild_congr s t hp.1, ← listChild_congr s t hp.1]; exact hrec'
              · rintro ⟨tr', lc, rc, ci, h1, h2, h3, h4, h5⟩
                simp only [Option.some.injEq, Prod.mk.injEq] at h1 h2
                obtain ⟨rfl, rfl⟩ := h1
                obtain ⟨_, rfl⟩ := h2
                obtain ⟨x, hx, he⟩ := hcover pe h3
                refine ⟨x, hx, ?_⟩
                have : listItemRes rec t lv rv x = .ok (ci.pre x) := by
                  rw [hF x, listChild_congr s t he, listChild_congr s t he]
                  exact (cmpItem_ok_iff _ _ _ _ _ _).2 ⟨ci, h4, rfl⟩
                simp [this, resGet, he, h5]
            · intro pe tr' lc rc h1 h2 h3
              simp only [kindChild, hna, Bool.false_eq_true, if_false, Option.some.injEq, Prod.mk.injEq] at h1 h2
              obtain ⟨rfl, rfl⟩ := h1
              obtain ⟨_, rfl⟩ := h2
              obtain ⟨x, hx, he⟩ := hcover pe h3
              obtain ⟨ci, hci⟩ := hok x hx
              rw [hF x] at hci
              obtain ⟨ci', hrec', _⟩ := (cmpItem_ok_iff _ _ _ _ _ _).1 hci
              rw [listChild_congr s t he, listChild_congr s t he] at hrec'
              exact ⟨ci', hrec'⟩

end CmpX
end SMD

namespace SMD
namespace CmpX
open NodeLaws

theorem not_emptyOrAbsent_getD {α : Type} (o : Option (List α)) (h : emptyOrAbsent o = false) :
    ∃ x xs, o.getD [] = x :: xs := by
  cases o with
  | none => simp [emptyOrAbsent] at h
  | some l =>
    cases l with
    | nil => simp [emptyOrAbsent] at h
    | cons x xs => exact ⟨x, xs, rfl⟩

/-- a handler either compares its operands as leaves or one of them has a child; a list handler that
descends has computed the path element of every member -/
theorem cmpHandle_shape (s : Schema) (rec : CmpRec) (l r : Option Value) (atom : Atom)
    (c : Cmp) (leaf : Bool) (h : cmpHandle s rec l r atom = .ok (c, leaf)) :
    (c = leafCmp l r ∨ ∃ pe tr' lc rc, kindChild s (atomKind atom) l pe = some (tr', lc) ∧
      kindChild s (atomKind atom) r pe = some (tr', rc) ∧ (lc.isSome = true ∨ rc.isSome = true)) ∧
    (∀ t, atomKind atom = .list t → (t.rel == "atomic") = false →
      ∀ x ∈ (asList l).getD [] ++ (asList r).getD [], ∃ pe, listItemToPE s t x = .ok pe) := by
  cases hK : atomKind atom with
  | invalid => rw [cmpHandle_invalid_eq s rec l r atom hK] at h; cases h
  | scalar t =>
    rw [cmpHandle_scalar_eq s rec l r atom t hK] at h
    split at h
    · cases h
    · simp only [Res.ok.injEq, Prod.mk.injEq] at h
      exact ⟨Or.inl h.1.symm, by intro t' ht'; cases ht'⟩
  | map t =>
    refine ⟨?_, by intro t' ht'; cases ht'⟩
    rw [cmpHandle_map_eq s rec l r atom t hK] at h
    split at h
    · simp only [Res.ok.injEq, Prod.mk.injEq] at h
      exact Or.inl h.1.symm
    · next hc =>
      right
      simp only [Bool.or_eq_true, beq_iff_eq, Bool.and_eq_true, not_or, not_and] at hc
      have hna : (t.rel == "atomic") = false := by simpa using hc.1
      by_cases hl : emptyOrAbsent (asMap l) = true
      · have hr : emptyOrAbsent (asMap r) = false := by simpa using hc.2 hl
        obtain ⟨x, xs, hx⟩ := not_emptyOrAbsent_getD _ hr
        refine ⟨.field x.1, fieldType t x.1, lookupField x.1 ((asMap l).getD []), some x.2, ?_, ?_, Or.inr rfl⟩
        · simp [kindChild, hna]
        · simp [kindChild, hna, hx, lookupField]
      · have hl' : emptyOrAbsent (asMap l) = false := by simpa using hl
        obtain ⟨x, xs, hx⟩ := not_emptyOrAbsent_getD _ hl'
        refine ⟨.field x.1, fieldType t x.1, some x.2, lookupField x.1 ((asMap r).getD []), ?_, ?_, Or.inl rfl⟩
        · simp [kindChild, hna, hx, lookupField]
        · simp [kindChild, hna]
  | list t =>
    rw [cmpHandle_list_eq s rec l r atom t hK] at h
    split at h
    · next hc =>
      simp only [Res.ok.injEq, Prod.mk.injEq] at h
      refine ⟨Or.inl h.1.symm, ?_⟩
      intro t' ht' hna x hx
      cases ht'
      simp only [hna, Bool.false_or, Bool.and_eq_true] at hc
      rw [emptyOrAbsent_getD_nil _ hc.1, emptyOrAbsent_getD_nil _ hc.2] at hx
      cases hx
    · next hc =>
      simp only [Bool.or_eq_true, beq_iff_eq, Bool.and_eq_true, not_or, not_and] at hc
      have hna : (t.rel == "atomic") = false := by simpa using hc.1
      cases hgl : groupItems s t ((asList l).getD []) [] [] with
      | err => simp [hgl] at h
      | panic => simp [hgl] at h
      | ok pl =>
        obtain ⟨lv, lo⟩ := pl
        simp only [hgl] at h
        cases hgr : groupItems s t ((asList r).getD []) [] [] with
        | err => simp [hgr] at h
        | panic => simp [hgr] at h
        | ok pr =>
          obtain ⟨rv, ro⟩ := pr
          obtain ⟨gl, _⟩ := groupItems_spec s t _ _ _ _ _ hgl
          obtain ⟨gr, _⟩ := groupItems_spec s t _ _ _ _ _ hgr
          constructor
          · right
            by_cases hl : emptyOrAbsent (asList l) = true
            · have hr : emptyOrAbsent (asList r) = false := by simpa using hc.2 hl
              obtain ⟨x, xs, hx⟩ := not_emptyOrAbsent_getD _ hr
              refine ⟨peOf s t x, t.elementType, listChild s t (peOf s t x) l, listChild s t (peOf s t x) r,
                by simp [kindChild, hna], by simp [kindChild, hna], Or.inr ?_⟩
              rw [listChild_isSome, hx]
              simp [PE.equals_refl]
            · have hl' : emptyOrAbsent (asList l) = false := by simpa using hl
              obtain ⟨x, xs, hx⟩ := not_emptyOrAbsent_getD _ hl'
              refine ⟨peOf s t x, t.elementType, listChild s t (peOf s t x) l, listChild s t (peOf s t x) r,
                by simp [kindChild, hna], by simp [kindChild, hna], Or.inl ?_⟩
              rw [listChild_isSome, hx]
              simp [PE.equals_refl]
          · intro t' ht' _ x hx
            cases ht'
            rcases List.mem_append.1 hx with hx | hx
            · exact gl x hx
            · exact gr x hx

end CmpX
end SMD
