/-
One node of the comparison walker: which handlers run, and the designated children of the operands
under the kind of each handler.
-/
import SMD.Proofs.CompareNodes
set_option linter.unusedSimpArgs false
set_option linter.unusedVariables false
namespace SMD
namespace CmpX
open NodeLaws

/-! ### children under a kind -/

theorem kindChild_same (s : Schema) (K : AtomKind) (x y : Option Value) (pe : PE) (tr' : TypeRef) (xo : Option Value)
    (h : kindChild s K x pe = some (tr', xo)) : ∃ yo, kindChild s K y pe = some (tr', yo) := by
  cases K with
  | invalid => simp [kindChild] at h
  | scalar t => simp [kindChild] at h
  | map t =>
    simp only [kindChild] at h ⊢
    split at h
    · cases h
    · next hna =>
      simp only [hna, if_false]
      cases pe with
      | field k =>
        simp only [Option.some.injEq, Prod.mk.injEq] at h
        exact ⟨lookupField k ((asMap y).getD []), by simp [h.1]⟩
      | _ => cases h
  | list t =>
    simp only [kindChild] at h ⊢
    split at h
    · cases h
    · next hna =>
      simp only [hna, if_false]
      simp only [Option.some.injEq, Prod.mk.injEq] at h
      exact ⟨listChild s t pe y, by simp [h.1]⟩

theorem kindChild_none (s : Schema) (K : AtomKind) (pe : PE) (tr' : TypeRef) (xo : Option Value)
    (h : kindChild s K none pe = some (tr', xo)) : xo = none := by
  cases K with
  | invalid => simp [kindChild] at h
  | scalar t => simp [kindChild] at h
  | map t =>
    simp only [kindChild] at h
    split at h
    · cases h
    · cases pe with
      | field k =>
        simp only [Option.some.injEq, Prod.mk.injEq, asMap, Option.getD_none, lookupField] at h
        exact h.2.symm
      | _ => cases h
  | list t =>
    simp only [kindChild] at h
    split at h
    · cases h
    · simp only [Option.some.injEq, Prod.mk.injEq, listChild, asList, Option.getD_none, List.find?_nil] at h
      exact h.2.symm

/-- an operand has no children under a kind other than its own -/
theorem kindChild_cross (s : Schema) (a : Atom) (y : Option Value) (v : Value)
    (hne : atomKind (deduceAtom a y) ≠ atomKind (deduceAtom a (some v))) (pe : PE) (tr' : TypeRef)
    (xo : Option Value) (h : kindChild s (atomKind (deduceAtom a y)) (some v) pe = some (tr', xo)) : xo = none := by
  cases hK : atomKind (deduceAtom a y) with
  | invalid => rw [hK] at h; simp [kindChild] at h
  | scalar t => rw [hK] at h; simp [kindChild] at h
  | map t =>
    rw [hK] at h hne
    simp only [kindChild] at h
    split at h
    · cases h
    · cases pe with
      | field k =>
        simp only [Option.some.injEq, Prod.mk.injEq] at h
        cases v with
        | map m =>
          exact absurd (atomKind_deduce_map a m t (atomKind_deduce_map_inv a y t hK)).symm hne
        | _ => simp only [asMap, Option.getD_none, lookupField] at h; exact h.2.symm
      | _ => cases h
  | list t =>
    rw [hK] at h hne
    simp only [kindChild] at h
    split at h
    · cases h
    · simp only [Option.some.injEq, Prod.mk.injEq, listChild] at h
      cases v with
      | list l =>
        exact absurd (atomKind_deduce_list a l t (atomKind_deduce_list_inv a y t hK)).symm hne
      | _ => simp only [asList, Option.getD_none, List.find?_nil] at h; exact h.2.symm

theorem peOf_not_field (s : Schema) (t : ListT) (c : Value) (k : String) : PE.equals (peOf s t c) (.field k) = false := by
  unfold peOf listItemToPE
  split
  · next pe hpe =>
    split at hpe
    · cases hpe
    · split at hpe
      · cases c with
        | map m =>
          simp only [] at hpe
          cases hk : keyFieldsOf s t m t.keys with
          | ok fl => simp [hk, bind, Res.bind, pure] at hpe; subst hpe; rfl
          | err => simp [hk, bind, Res.bind] at hpe
          | panic => simp [hk, bind, Res.bind] at hpe
        | _ => cases hpe
      · cases c <;> first | (cases hpe; done) | (simp only [Res.ok.injEq] at hpe; subst hpe; rfl)
  · rfl

/-- a child designated under one kind is not designated under another kind -/
theorem kindChild_other (s : Schema) (a : Atom) (y1 y2 : Option Value) (x1 x2 : Option Value) (pe : PE) (tr' : TypeRef)
    (w : Value) (h : kindChild s (atomKind (deduceAtom a y1)) x1 pe = some (tr', some w))
    (hne : atomKind (deduceAtom a y2) ≠ atomKind (deduceAtom a y1)) :
    ∀ tr'' xo, kindChild s (atomKind (deduceAtom a y2)) x2 pe = some (tr'', xo) → xo = none := by
  intro tr'' xo h2
  cases hK1 : atomKind (deduceAtom a y1) with
  | invalid => rw [hK1] at h; simp [kindChild] at h
  | scalar t => rw [hK1] at h; simp [kindChild] at h
  | map t =>
    rw [hK1] at h hne
    have ha1 := atomKind_deduce_map_inv a y1 t hK1
    simp only [kindChild] at h
    split at h
    · cases h
    · cases pe with
      | field k =>
        cases hK2 : atomKind (deduceAtom a y2) with
        | invalid => rw [hK2] at h2; simp [kindChild] at h2
        | scalar t2 => rw [hK2] at h2; simp [kindChild] at h2
        | map t2 =>
          have ha2 := atomKind_deduce_map_inv a y2 t2 hK2
          rw [ha1] at ha2
          cases ha2
          exact absurd hK2 hne
        | list t2 =>
          rw [hK2] at h2
          simp only [kindChild] at h2
          split at h2
          · cases h2
          · simp only [Option.some.injEq, Prod.mk.injEq, listChild] at h2
            rw [← h2.2]
            rw [List.find?_eq_none]
            intro c _
            simp [peOf_not_field]
      | _ => cases h
  | list t =>
    rw [hK1] at h hne
    have ha1 := atomKind_deduce_list_inv a y1 t hK1
    simp only [kindChild] at h
    split at h
    · cases h
    · simp only [Option.some.injEq, Prod.mk.injEq, listChild] at h
      have hw := List.find?_some h.2
      cases hK2 : atomKind (deduceAtom a y2) with
      | invalid => rw [hK2] at h2; simp [kindChild] at h2
      | scalar t2 => rw [hK2] at h2; simp [kindChild] at h2
      | list t2 =>
        have ha2 := atomKind_deduce_list_inv a y2 t2 hK2
        rw [ha1] at ha2
        cases ha2
        exact absurd hK2 hne
      | map t2 =>
        rw [hK2] at h2
        simp only [kindChild] at h2
        split at h2
        · cases h2
        · cases pe with
          | field k => rw [peOf_not_field] at hw; cases hw
          | _ => cases h2

theorem nodeAtO_cons (s : Schema) (tr : TypeRef) (a : Atom) (x : Option Value) (pe : PE) (rest : Path)
    (h : s.resolve tr = some a) :
    nodeAtO s tr x (pe :: rest) =
      match kindChild s (atomKind (deduceAtom a x)) x pe with
      | some (tr', xo) => nodeAtO s tr' xo rest
      | none => none := by
  cases x with
  | some v => exact nodeAt_cons s tr a v pe rest h
  | none =>
    simp only [nodeAtO]
    cases hk : kindChild s (atomKind (deduceAtom a none)) none pe with
    | none => rfl
    | some p =>
      obtain ⟨tr', xo⟩ := p
      rw [kindChild_none s _ pe tr' xo hk]

/-! ### the handlers that run at a node -/

/-- the paths of a handler of kind `K`, in terms of the designated children -/
def HandlePaths (s : Schema) (rec : CmpRec) (l r : Option Value) (K : AtomKind) (c : Cmp) : Prop :=
  (∀ k pe rest, pmem (pe :: rest) (c.get k) = true ↔
    ∃ tr' lc rc ci, kindChild s K l pe = some (tr', lc) ∧ kindChild s K r pe = some (tr', rc) ∧
      (lc.isSome = true ∨ rc.isSome = true) ∧ rec lc rc tr' = .ok ci ∧ pmem rest (ci.get k) = true) ∧
  (∀ pe tr' lc rc, kindChild s K l pe = some (tr', lc) → kindChild s K r pe = some (tr', rc) →
    (lc.isSome = true ∨ rc.isSome = true) → ∃ ci, rec lc rc tr' = .ok ci)

theorem pmem_nil_leafCmp_added (l r : Option Value) : pmem [] (leafCmp l r).added = l.isNone := by
  cases l <;> cases r <;> simp [leafCmp, Path.equals] <;> split <;> simp
theorem pmem_nil_leafCmp_removed (l r : Option Value) (h : l.isSome = true ∨ r.isSome = true) :
    pmem [] (leafCmp l r).removed = r.isNone := by
  cases l <;> cases r <;> simp [leafCmp, Path.equals] at h ⊢ <;> split <;> simp
theorem pmem_nil_leafCmp_modified (l r : Option Value) (h : pmem [] (leafCmp l r).modified = true) :
    ∃ lv rv, l = some lv ∧ r = some rv ∧ Value.equals lv rv = false := by
  cases l with
  | none => simp [leafCmp] at h
  | some a =>
    cases r with
    | none => simp [leafCmp] at h
    | some b =>
      refine ⟨a, b, rfl, rfl, ?_⟩
      simp only [leafCmp] at h
      split at h
      · next hh => rw [Value.equals_symm]; simpa using hh
      · simp at h

/-- the shape of a handler of kind `K`: a leaf comparison, or some operand has a child; a descending
list handler has computed the path element of every member -/
def HandleShape (s : Schema) (l r : Option Value) (K : AtomKind) (c : Cmp) : Prop :=
  (c = leafCmp l r ∨ ∃ pe tr' lc rc, kindChild s K l pe = some (tr', lc) ∧
    kindChild s K r pe = some (tr', rc) ∧ (lc.isSome = true ∨ rc.isSome = true)) ∧
  (∀ t, K = .list t → (t.rel == "atomic") = false →
    ∀ x ∈ (asList l).getD [] ++ (asList r).getD [], ∃ pe, listItemToPE s t x = .ok pe)

theorem cmpNode_runs (s : Schema) (n : Nat) (l r : Option Value) (tr : TypeRef) (c : Cmp)
    (h : cmpNode s (n + 1) l r tr = .ok c) (hvl : VO s tr l) (hvr : VO s tr r) :
    ∃ a, s.resolve tr = some a ∧ (l.isSome = true ∨ r.isSome = true) ∧
      pmem [] c.added = l.isNone ∧ pmem [] c.removed = r.isNone ∧
      (pmem [] c.modified = true → ∃ lv rv, l = some lv ∧ r = some rv ∧ Value.equals lv rv = false) ∧
      ∃ runs : List (AtomKind × Cmp),
        (∀ e ∈ runs, (e.1 = atomKind (deduceAtom a l) ∧ l.isSome = true) ∨
          (e.1 = atomKind (deduceAtom a r) ∧ r.isSome = true)) ∧
        (∀ e ∈ runs, HandlePaths s (cmpNode s n) l r e.1 e.2) ∧
        (r.isSome = true → ∃ e ∈ runs, e.1 = atomKind (deduceAtom a r)) ∧
        (l.isSome = true → ∃ e ∈ runs, e.1 = atomKind (deduceAtom a l)) ∧
        (∀ k pe rest, pmem (pe :: rest) (c.get k) = runs.any (fun e => pmem (pe :: rest) (e.2.get k))) ∧
        (∀ e ∈ runs, ∀ k q, pmem q (e.2.get k) = true → pmem q (c.get k) = true) ∧
        (∀ e ∈ runs, HandleShape s l r e.1 e.2) := by
  rw [cmpNode_succ] at h
  split at h
  · cases h
  · next hnn =>
    have hsome : l.isSome = true ∨ r.isSome = true := by
      cases l <;> cases r <;> simp_all
    cases hres : s.resolve tr with
    | none => simp only [hres] at h; split at h <;> cases h
    | some a =>
      simp only [hres] at h
      refine ⟨a, rfl, hsome, ?_⟩
      have hP : ∀ (x : Atom) (y : Option Value), x = deduceAtom a y → ∀ c0 leaf,
          cmpHandle s (cmpNode s n) l r x = .ok (c0, leaf) →
          (leaf = true → c0 = leafCmp l r) ∧ (leaf = false → ∀ k, pmem [] (c0.get k) = false) ∧
            HandlePaths s (cmpNode s n) l r (atomKind x) c0 ∧ HandleShape s l r (atomKind x) c0 := by
        intro x y hx c0 leaf hc
        subst hx
        obtain ⟨p1, p2, p3, p4⟩ := cmpHandle_paths s (cmpNode s n) l r _
          (sideV_of_valid s tr a hres l hvl y) (sideV_of_valid s tr a hres r hvr y) c0 leaf hc
        exact ⟨p1, p2, ⟨p3, p4⟩, cmpHandle_shape s (cmpNode s n) l r _ c0 leaf hc⟩
      unfold cmpHandled cmpFinish at h
      simp only [] at h
      cases l with
      | none =>
        cases r with
        | none => simp at hsome
        | some rv =>
          simp only [Option.isNone_none, Option.isNone_some, Bool.true_or, if_true, if_false,
            Bool.false_eq_true] at h
          cases h3 : cmpHandle s (cmpNode s n) none (some rv) (deduceAtom a (some rv)) with
          | err => simp [h3] at h
          | panic => simp [h3] at h
          | ok p =>
            obtain ⟨c0, leaf⟩ := p
            obtain ⟨p1, p2, p3, p5⟩ := hP _ (some rv) rfl c0 leaf h3
            simp only [h3] at h
            cases leaf with
            | true =>
              simp only [Bool.not_true, Bool.false_eq_true, if_false, Res.ok.injEq] at h
              subst h
              have := p1 rfl
              subst this
              refine ⟨by simp [leafCmp, Path.equals], by simp [leafCmp], by simp [leafCmp], ?_⟩
              refine ⟨[(atomKind (deduceAtom a (some rv)), leafCmp none (some rv))], ?_, ?_, ?_, ?_, ?_, ?_, ?_⟩
              · intro e he; simp only [List.mem_singleton] at he; subst he; exact Or.inr ⟨rfl, rfl⟩
              · intro e he; simp only [List.mem_singleton] at he; subst he; exact p3
              · intro _; exact ⟨_, List.mem_singleton.2 rfl, rfl⟩
              · intro hh; cases hh
              · intro k pe rest; simp
              · intro e he k q hq; simp only [List.mem_singleton] at he; subst he; exact hq
              · intro e he; simp only [List.mem_singleton] at he; subst he; exact p5
            | false =>
              simp only [Bool.not_false, if_true, Res.ok.injEq] at h
              subst h
              have q := p2 rfl
              refine ⟨by simp [Path.equals], ?_, ?_, ?_⟩
              · have := q Side.removed; simp only [Cmp.get] at this; simp [this]
              · have := q Side.modified; simp only [Cmp.get] at this; simp [this]
              refine ⟨[(atomKind (deduceAtom a (some rv)), c0)], ?_, ?_, ?_, ?_, ?_, ?_, ?_⟩
              · intro e he; simp only [List.mem_singleton] at he; subst he; exact Or.inr ⟨rfl, rfl⟩
              · intro e he; simp only [List.mem_singleton] at he; subst he; exact p3
              · intro _; exact ⟨_, List.mem_singleton.2 rfl, rfl⟩
              · intro hh; cases hh
              · intro k pe rest; cases k <;> simp [Cmp.get, Path.equals]
              · intro e he k q hq; simp only [List.mem_singleton] at he; subst he
                simp only [Cmp.get_append, pmem_append, hq, Bool.true_or]
              · intro e he; simp only [List.mem_singleton] at he; subst he; exact p5
      | some lv =>
        cases r with
        | none =>
          simp only [Option.isNone_none, Option.isNone_some, Bool.true_or, if_true, if_false,
            Bool.false_eq_true] at h
          cases h3 : cmpHandle s (cmpNode s n) (some lv) none (deduceAtom a (some lv)) with
          | err => simp [h3] at h
          | panic => simp [h3] at h
          | ok p =>
            obtain ⟨c0, leaf⟩ := p
            obtain ⟨p1, p2, p3, p5⟩ := hP _ (some lv) rfl c0 leaf h3
            simp only [h3] at h
            cases leaf with
            | true =>
              simp only [Bool.not_true, Bool.false_eq_true, if_false, Res.ok.injEq] at h
              subst h
              have := p1 rfl
              subst this
              refine ⟨by simp [leafCmp], by simp [leafCmp, Path.equals], by simp [leafCmp], ?_⟩
              refine ⟨[(atomKind (deduceAtom a (some lv)), leafCmp (some lv) none)], ?_, ?_, ?_, ?_, ?_, ?_, ?_⟩
              · intro e he; simp only [List.mem_singleton] at he; subst he; exact Or.inl ⟨rfl, rfl⟩
              · intro e he; simp only [List.mem_singleton] at he; subst he; exact p3
              · intro hh; cases hh
              · intro _; exact ⟨_, List.mem_singleton.2 rfl, rfl⟩
              · intro k pe rest; simp
              · intro e he k q hq; simp only [List.mem_singleton] at he; subst he; exact hq
              · intro e he; simp only [List.mem_singleton] at he; subst he; exact p5
            | false =>
              simp only [Bool.not_false, if_true, Res.ok.injEq] at h
              subst h
              have q := p2 rfl
              refine ⟨?_, by simp [Path.equals], ?_, ?_⟩
              · have := q Side.added; simp only [Cmp.get] at this; simp [this]
              · have := q Side.modified; simp only [Cmp.get] at this; simp [this]
              refine ⟨[(atomKind (deduceAtom a (some lv)), c0)], ?_, ?_, ?_, ?_, ?_, ?_, ?_⟩
              · intro e he; simp only [List.mem_singleton] at he; subst he; exact Or.inl ⟨rfl, rfl⟩
              · intro e he; simp only [List.mem_singleton] at he; subst he; exact p3
              · intro hh; cases hh
              · intro _; exact ⟨_, List.mem_singleton.2 rfl, rfl⟩
              · intro k pe rest; cases k <;> simp [Cmp.get, Path.equals]
              · intro e he k q hq; simp only [List.mem_singleton] at he; subst he
                simp only [Cmp.get_append, pmem_append, hq, Bool.true_or]
              · intro e he; simp only [List.mem_singleton] at he; subst he; exact p5
        | some rv =>
          simp only [Option.isNone_some, Bool.false_or, if_false, Bool.false_eq_true] at h
          have hnil : ∀ (c0 : Cmp) (leaf : Bool), (leaf = true → c0 = leafCmp (some lv) (some rv)) →
              (leaf = false → ∀ k, pmem [] (c0.get k) = false) →
              pmem [] c0.added = false ∧ pmem [] c0.removed = false ∧
              (pmem [] c0.modified = true → Value.equals lv rv = false) := by
            intro c0 leaf q1 q2
            cases leaf with
            | true =>
              have := q1 rfl
              subst this
              refine ⟨by simp [pmem_nil_leafCmp_added], by simp [pmem_nil_leafCmp_removed], ?_⟩
              intro hm
              obtain ⟨a', b', ha', hb', he⟩ := pmem_nil_leafCmp_modified _ _ hm
              cases ha'; cases hb'; exact he
            | false =>
              have q := q2 rfl
              refine ⟨q Side.added, q Side.removed, ?_⟩
              intro hm; have := q Side.modified; simp only [Cmp.get] at this; rw [this] at hm; cases hm
          cases hE : Atom.equals (deduceAtom a (some lv)) (deduceAtom a (some rv)) with
          | true =>
            simp only [hE, if_true] at h
            have hKeq := atomKind_eq_of_equals a _ _ hE
            cases h3 : cmpHandle s (cmpNode s n) (some lv) (some rv) (deduceAtom a (some rv)) with
            | err => simp [h3] at h
            | panic => simp [h3] at h
            | ok p =>
              obtain ⟨c0, leaf⟩ := p
              obtain ⟨p1, p2, p3, p5⟩ := hP _ (some rv) rfl c0 leaf h3
              simp only [h3] at h
              have : c = c0 := by cases leaf <;> simp at h <;> exact h.symm
              subst this
              obtain ⟨n1, n2, n3⟩ := hnil c leaf p1 p2
              refine ⟨by simpa using n1, by simpa using n2, ?_, ?_⟩
              · intro hm; exact ⟨lv, rv, rfl, rfl, n3 hm⟩
              refine ⟨[(atomKind (deduceAtom a (some rv)), c)], ?_, ?_, ?_, ?_, ?_, ?_, ?_⟩
              · intro e he; simp only [List.mem_singleton] at he; subst he; exact Or.inr ⟨rfl, rfl⟩
              · intro e he; simp only [List.mem_singleton] at he; subst he; exact p3
              · intro _; exact ⟨_, List.mem_singleton.2 rfl, rfl⟩
              · intro _; exact ⟨_, List.mem_singleton.2 rfl, hKeq.symm⟩
              · intro k pe rest; simp
              · intro e he k q hq; simp only [List.mem_singleton] at he; subst he; exact hq
              · intro e he; simp only [List.mem_singleton] at he; subst he; exact p5
          | false =>
            simp only [hE, if_false, Bool.false_eq_true] at h
            cases h3 : cmpHandle s (cmpNode s n) (some lv) (some rv) (deduceAtom a (some lv)) with
            | err => simp [h3] at h
            | panic => simp [h3] at h
            | ok p =>
              obtain ⟨c1, leaf1⟩ := p
              simp only [h3] at h
              cases h4 : cmpHandle s (cmpNode s n) (some lv) (some rv) (deduceAtom a (some rv)) with
              | err => simp [h4] at h
              | panic => simp [h4] at h
              | ok p2 =>
                obtain ⟨c2, leaf2⟩ := p2
                simp only [h4] at h
                obtain ⟨p1, p2, p3, p5⟩ := hP _ (some lv) rfl c1 leaf1 h3
                obtain ⟨q1, q2, q3, q5⟩ := hP _ (some rv) rfl c2 leaf2 h4
                have : c = c1 ++ c2 := by cases leaf2 <;> simp at h <;> exact h.symm
                subst this
                obtain ⟨n1, n2, n3⟩ := hnil c1 leaf1 p1 p2
                obtain ⟨m1, m2, m3⟩ := hnil c2 leaf2 q1 q2
                refine ⟨by simp [n1, m1], by simp [n2, m2], ?_, ?_⟩
                · intro hm
                  simp only [Cmp.append_modified, pmem_append, Bool.or_eq_true] at hm
                  exact ⟨lv, rv, rfl, rfl, hm.elim n3 m3⟩
                refine ⟨[(atomKind (deduceAtom a (some lv)), c1), (atomKind (deduceAtom a (some rv)), c2)],
                  ?_, ?_, ?_, ?_, ?_, ?_, ?_⟩
                · intro e he
                  simp only [List.mem_cons, List.mem_nil_iff, or_false] at he
                  rcases he with rfl | rfl
                  · exact Or.inl ⟨rfl, rfl⟩
                  · exact Or.inr ⟨rfl, rfl⟩
                · intro e he
                  simp only [List.mem_cons, List.mem_nil_iff, or_false] at he
                  rcases he with rfl | rfl
                  · exact p3
                  · exact q3
                · intro _; exact ⟨_, List.mem_cons_of_mem _ (List.mem_singleton.2 rfl), rfl⟩
                · intro _; exact ⟨_, List.mem_cons_self, rfl⟩
                · intro k pe rest; simp
                · intro e he k q hq
                  simp only [List.mem_cons, List.mem_nil_iff, or_false] at he
                  rcases he with rfl | rfl
                  · simp only [Cmp.get_append, pmem_append, hq, Bool.true_or]
                  · simp only [Cmp.get_append, pmem_append, hq, Bool.or_true]
                · intro e he
                  simp only [List.mem_cons, List.mem_nil_iff, or_false] at he
                  rcases he with rfl | rfl
                  · exact p5
                  · exact q5

end CmpX
end SMD
