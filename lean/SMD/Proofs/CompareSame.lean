/- helper lemmas for SMD/Properties/C11Same.lean -/
import SMD.Proofs.CompareExact
import SMD.Proofs.CompareFieldSet
import SMD.Properties.C11Exact
import SMD.Properties.C12
set_option linter.unusedSimpArgs false
set_option linter.unusedVariables false
namespace SMD
namespace CmpX
open NodeLaws

/-! ### members with distinct identities: matching both ways -/

section Count
variable {α κ : Type} (key : α → κ) (keq : κ → κ → Bool)

/-- `keq` is an equivalence -/
structure IsEqv : Prop where
  refl : ∀ a, keq a a = true
  symm : ∀ a b, keq a b = true → keq b a = true
  trans : ∀ a b c, keq a b = true → keq b c = true → keq a c = true

/-- no two members have the same identity -/
def NoRep (xs : List α) : Prop := xs.Pairwise (fun a b => keq (key a) (key b) = false)

variable {key keq}

theorem length_le_of_matches (hk : IsEqv keq) : ∀ (xs ys : List α), NoRep key keq xs →
    (∀ a ∈ xs, ∃ b ∈ ys, keq (key a) (key b) = true) → xs.length ≤ ys.length
  | [], _, _, _ => Nat.zero_le _
  | a :: xs, ys, hx, hm => by
    obtain ⟨b, hb, hab⟩ := hm a List.mem_cons_self
    have hx' := List.pairwise_cons.1 hx
    have hlt : (ys.filter (fun y => !keq (key a) (key y))).length < ys.length := by
      rw [List.length_filter_lt_length_iff_exists]
      exact ⟨b, hb, by simp [hab]⟩
    have ih := length_le_of_matches hk xs (ys.filter (fun y => !keq (key a) (key y))) hx'.2 (by
      intro a' ha'
      obtain ⟨b', hb', hab'⟩ := hm a' (List.mem_cons_of_mem _ ha')
      refine ⟨b', List.mem_filter.2 ⟨hb', ?_⟩, hab'⟩
      cases h : keq (key a) (key b') with
      | false => rfl
      | true =>
        have := hk.trans _ _ _ h (hk.symm _ _ hab')
        rw [hx'.1 a' ha'] at this
        cases this)
    simp only [List.length_cons]
    omega

theorem matches_surj (hk : IsEqv keq) (xs ys : List α) (hx : NoRep key keq xs)
    (hm : ∀ a ∈ xs, ∃ b ∈ ys, keq (key a) (key b) = true) (hlen : xs.length = ys.length) :
    ∀ b ∈ ys, ∃ a ∈ xs, keq (key a) (key b) = true := by
  intro b0 hb0
  apply Classical.byContradiction
  intro hno
  have hlt : (ys.filter (fun y => !keq (key b0) (key y))).length < ys.length := by
    rw [List.length_filter_lt_length_iff_exists]
    exact ⟨b0, hb0, by simp [hk.refl]⟩
  have := length_le_of_matches hk xs (ys.filter (fun y => !keq (key b0) (key y))) hx (by
    intro a ha
    obtain ⟨b, hb, hab⟩ := hm a ha
    refine ⟨b, List.mem_filter.2 ⟨hb, ?_⟩, hab⟩
    cases h : keq (key b0) (key b) with
    | false => rfl
    | true =>
      exact absurd ⟨a, ha, hk.trans _ _ _ hab (hk.symm _ _ h)⟩ hno)
  omega

theorem find?_unique (hk : IsEqv keq) : ∀ (xs : List α), NoRep key keq xs → ∀ (a : α) (q : κ), a ∈ xs →
    keq (key a) q = true → xs.find? (fun c => keq (key c) q) = some a
  | [], _, _, _, ha, _ => by cases ha
  | x :: xs, hx, a, q, ha, haq => by
    have hx' := List.pairwise_cons.1 hx
    simp only [List.find?_cons]
    cases hxq : keq (key x) q with
    | true =>
      rcases List.mem_cons.1 ha with rfl | ha'
      · rfl
      · have := hk.trans _ _ _ hxq (hk.symm _ _ haq)
        rw [hx'.1 a ha'] at this
        cases this
    | false =>
      rcases List.mem_cons.1 ha with rfl | ha'
      · rw [haq] at hxq; cases hxq
      · exact find?_unique hk xs hx'.2 a q ha' haq

/-- every identity met on either side designates members of both sides that are `P`-related, exactly
when the two lists have the same length and every left member has a `P`-related right member of the same
identity -/
theorem matching_iff (hk : IsEqv keq) (xs ys : List α) (hx : NoRep key keq xs) (hy : NoRep key keq ys)
    (P : α → α → Prop) :
    (∀ q, (xs.find? (fun c => keq (key c) q)).isSome = true ∨ (ys.find? (fun c => keq (key c) q)).isSome = true →
      ∃ a b, xs.find? (fun c => keq (key c) q) = some a ∧ ys.find? (fun c => keq (key c) q) = some b ∧ P a b) ↔
    (xs.length = ys.length ∧ ∀ a ∈ xs, ∃ b ∈ ys, keq (key a) (key b) = true ∧ P a b) := by
  constructor
  · intro h
    have hM : ∀ a ∈ xs, ∃ b ∈ ys, keq (key a) (key b) = true ∧ P a b := by
      intro a ha
      have hfa := find?_unique hk xs hx a (key a) ha (hk.refl _)
      obtain ⟨a', b, h1, h2, h3⟩ := h (key a) (Or.inl (by rw [hfa]; rfl))
      rw [hfa] at h1
      cases h1
      exact ⟨b, find?_mem' h2, hk.symm _ _ (by simpa using List.find?_some h2), h3⟩
    refine ⟨Nat.le_antisymm ?_ ?_, hM⟩
    · exact length_le_of_matches hk xs ys hx (fun a ha => by
        obtain ⟨b, hb, hab, _⟩ := hM a ha; exact ⟨b, hb, hab⟩)
    · refine length_le_of_matches hk ys xs hy (fun b hb => ?_)
      have hfb := find?_unique hk ys hy b (key b) hb (hk.refl _)
      obtain ⟨a, b', h1, _, _⟩ := h (key b) (Or.inr (by rw [hfb]; rfl))
      exact ⟨a, find?_mem' h1, hk.symm _ _ (by simpa using List.find?_some h1)⟩
  · rintro ⟨hlen, hM⟩ q hq
    have hleft : ∀ a, xs.find? (fun c => keq (key c) q) = some a →
        ∃ a b, xs.find? (fun c => keq (key c) q) = some a ∧ ys.find? (fun c => keq (key c) q) = some b ∧ P a b := by
      intro a hfa
      have haq : keq (key a) q = true := by simpa using List.find?_some hfa
      obtain ⟨b, hb, hab, hp⟩ := hM a (find?_mem' hfa)
      exact ⟨a, b, hfa, find?_unique hk ys hy b q hb (hk.trans _ _ _ (hk.symm _ _ hab) haq), hp⟩
    rcases hq with hq | hq
    · obtain ⟨a, hfa⟩ := Option.isSome_iff_exists.1 hq
      exact hleft a hfa
    · obtain ⟨b, hfb⟩ := Option.isSome_iff_exists.1 hq
      have hbq : keq (key b) q = true := by simpa using List.find?_some hfb
      obtain ⟨a, ha, hab⟩ := matches_surj hk xs ys hx (fun a ha => by
        obtain ⟨b, hb, hab, _⟩ := hM a ha; exact ⟨b, hb, hab⟩) hlen b (find?_mem' hfb)
      exact hleft a (find?_unique hk xs hx a q ha (hk.trans _ _ _ hab hbq))

end Count

/-! ### a handler reports nothing -/

/-- the handler of kind `K` compares its operands as leaves -/
def leafAt (K : AtomKind) (l r : Option Value) : Bool :=
  match K with
  | .list t => t.rel == "atomic" || (emptyOrAbsent (asList l) && emptyOrAbsent (asList r))
  | .map t => t.rel == "atomic" || (emptyOrAbsent (asMap l) && emptyOrAbsent (asMap r))
  | _ => true

theorem cmpHandle_leaf (s : Schema) (rec : CmpRec) (l r : Option Value) (atom : Atom) (c : Cmp) (leaf : Bool)
    (h : cmpHandle s rec l r atom = .ok (c, leaf)) : leaf = leafAt (atomKind atom) l r := by
  cases hK : atomKind atom with
  | invalid => rw [cmpHandle_invalid_eq s rec l r atom hK] at h; cases h
  | scalar t =>
    rw [cmpHandle_scalar_eq s rec l r atom t hK] at h
    split at h
    · cases h
    · simp only [Res.ok.injEq, Prod.mk.injEq] at h
      simp [leafAt, h.2]
  | map t =>
    rw [cmpHandle_map_eq s rec l r atom t hK] at h
    split at h
    · next hc =>
      simp only [Res.ok.injEq, Prod.mk.injEq] at h
      simp only [leafAt, hc, h.2]
    · next hc =>
      have hc' : leafAt (.map t) l r = false := by simpa [leafAt] using hc
      rw [hc']
      split at h
      · simp only [Res.ok.injEq, Prod.mk.injEq] at h; exact h.2.symm
      · cases h
      · cases h
  | list t =>
    rw [cmpHandle_list_eq s rec l r atom t hK] at h
    split at h
    · next hc =>
      simp only [Res.ok.injEq, Prod.mk.injEq] at h
      simp only [leafAt, hc, h.2]
    · next hc =>
      have hc' : leafAt (.list t) l r = false := by simpa [leafAt] using hc
      rw [hc']
      split at h
      · cases h
      · cases h
      · split at h
        · cases h
        · cases h
        · split at h
          · simp only [Res.ok.injEq, Prod.mk.injEq] at h; exact h.2.symm
          · cases h
          · cases h

theorem list_nil_of_pmem : ∀ (ps : List Path), (∀ q, pmem q ps = false) → ps = []
  | [], _ => rfl
  | p :: ps, h => by
    have := h p
    simp [Path.equals_refl] at this

theorem nil_iff_pmem (c : Cmp) : Cmp.Nil c ↔ ∀ k q, pmem q (c.get k) = false := by
  constructor
  · rintro ⟨h1, h2, h3⟩ k q
    cases k <;> simp [Cmp.get, h1, h2, h3]
  · intro h
    exact ⟨list_nil_of_pmem _ (h Side.removed), list_nil_of_pmem _ (h Side.modified), list_nil_of_pmem _ (h Side.added)⟩

theorem nil_append_iff (a b : Cmp) : Cmp.Nil (a ++ b) ↔ Cmp.Nil a ∧ Cmp.Nil b := by
  simp only [Cmp.Nil, Cmp.append_removed, Cmp.append_modified, Cmp.append_added, List.append_eq_nil_iff]
  constructor
  · rintro ⟨⟨a1, b1⟩, ⟨a2, b2⟩, a3, b3⟩; exact ⟨⟨a1, a2, a3⟩, b1, b2, b3⟩
  · rintro ⟨⟨a1, a2, a3⟩, b1, b2, b3⟩; exact ⟨⟨a1, b1⟩, ⟨a2, b2⟩, a3, b3⟩

theorem nil_leafCmp_iff (lv rv : Value) : Cmp.Nil (leafCmp (some lv) (some rv)) ↔ Value.equals lv rv = true := by
  simp only [leafCmp]
  rw [Value.equals_symm rv lv]
  cases Value.equals lv rv <;> simp [Cmp.Nil]

/-- a handler reports nothing exactly when it reports nothing as a leaf comparison and nothing is reported
beneath any child -/
theorem cmpHandle_nil_iff (s : Schema) (rec : CmpRec) (l r : Option Value) (atom : Atom)
    (hvl : SideV s (atomKind atom) l) (hvr : SideV s (atomKind atom) r)
    (c : Cmp) (leaf : Bool) (h : cmpHandle s rec l r atom = .ok (c, leaf)) :
    Cmp.Nil c ↔ ((leafAt (atomKind atom) l r = true → Cmp.Nil (leafCmp l r)) ∧
      ∀ pe tr' lc rc ci, kindChild s (atomKind atom) l pe = some (tr', lc) →
        kindChild s (atomKind atom) r pe = some (tr', rc) → (lc.isSome = true ∨ rc.isSome = true) →
        rec lc rc tr' = .ok ci → Cmp.Nil ci) := by
  obtain ⟨p1, p2, p3, p4⟩ := cmpHandle_paths s rec l r atom hvl hvr c leaf h
  have hleaf := cmpHandle_leaf s rec l r atom c leaf h
  constructor
  · intro hn
    refine ⟨?_, ?_⟩
    · intro hl
      rw [← hleaf] at hl
      rw [← p1 hl]
      exact hn
    · intro pe tr' lc rc ci k1 k2 k3 hci
      rw [nil_iff_pmem]
      intro k q
      cases hq : pmem q (ci.get k) with
      | false => rfl
      | true =>
        have := (p3 k pe q).2 ⟨tr', lc, rc, ci, k1, k2, k3, hci, hq⟩
        rw [(nil_iff_pmem c).1 hn] at this
        cases this
  · rintro ⟨h1, h2⟩
    rw [nil_iff_pmem]
    intro k q
    cases q with
    | nil =>
      cases leaf with
      | true =>
        rw [p1 rfl]
        exact (nil_iff_pmem _).1 (h1 hleaf.symm) k []
      | false => exact p2 rfl k
    | cons pe rest =>
      cases hq : pmem (pe :: rest) (c.get k) with
      | false => rfl
      | true =>
        obtain ⟨tr', lc, rc, ci, k1, k2, k3, hci, hp⟩ := (p3 k pe rest).1 hq
        rw [(nil_iff_pmem ci).1 (h2 pe tr' lc rc ci k1 k2 k3 hci)] at hp
        cases hp

/-- a comparison that reports nothing had both operands -/
theorem cmpNode_nil_present (s : Schema) (n : Nat) (lc rc : Option Value) (tr : TypeRef) (ci : Cmp)
    (h : cmpNode s n lc rc tr = .ok ci) (hvl : VO s tr lc) (hvr : VO s tr rc) (hn : Cmp.Nil ci) :
    ∃ x y, lc = some x ∧ rc = some y := by
  have ha := cmpNode_added s n lc rc tr ci h hvl hvr []
  have hr := cmpNode_removed s n lc rc tr ci h hvl hvr []
  rw [hn.2.2, nodeAtO_nil, nodeAtO_nil] at ha
  rw [hn.1, nodeAtO_nil, nodeAtO_nil] at hr
  cases lc with
  | none =>
    cases rc with
    | none => rw [cmpNode_none_none] at h; cases h
    | some y => simp at ha
  | some x =>
    cases rc with
    | none => simp at hr
    | some y => exact ⟨x, y, rfl, rfl⟩

/-! ### the node with both operands present -/

theorem cmpNode_both (s : Schema) (n : Nat) (lv rv : Value) (tr : TypeRef) (c : Cmp)
    (h : cmpNode s (n + 1) (some lv) (some rv) tr = .ok c) :
    ∃ a, s.resolve tr = some a ∧
      ((∃ leaf, cmpHandle s (cmpNode s n) (some lv) (some rv) (deduceAtom a (some rv)) = .ok (c, leaf)) ∨
       (Atom.equals (deduceAtom a (some lv)) (deduceAtom a (some rv)) = false ∧
        ∃ c1 l1 c2 l2, cmpHandle s (cmpNode s n) (some lv) (some rv) (deduceAtom a (some lv)) = .ok (c1, l1) ∧
          cmpHandle s (cmpNode s n) (some lv) (some rv) (deduceAtom a (some rv)) = .ok (c2, l2) ∧ c = c1 ++ c2)) := by
  rw [cmpNode_succ] at h
  simp only [Option.isNone_some, Bool.false_and, Bool.false_eq_true, if_false] at h
  cases hres : s.resolve tr with
  | none => simp only [hres] at h; split at h <;> cases h
  | some a =>
    simp only [hres] at h
    refine ⟨a, rfl, ?_⟩
    unfold cmpHandled cmpFinish at h
    simp only [Option.isNone_some, Bool.false_or, if_false, Bool.false_eq_true] at h
    cases hE : Atom.equals (deduceAtom a (some lv)) (deduceAtom a (some rv)) with
    | true =>
      simp only [hE, if_true] at h
      cases h3 : cmpHandle s (cmpNode s n) (some lv) (some rv) (deduceAtom a (some rv)) with
      | err => simp [h3] at h
      | panic => simp [h3] at h
      | ok p =>
        obtain ⟨c0, leaf⟩ := p
        simp only [h3] at h
        have : c = c0 := by cases leaf <;> simp at h <;> exact h.symm
        subst this
        exact Or.inl ⟨leaf, rfl⟩
    | false =>
      simp only [hE, if_false, Bool.false_eq_true] at h
      cases h3 : cmpHandle s (cmpNode s n) (some lv) (some rv) (deduceAtom a (some lv)) with
      | err => simp [h3] at h
      | panic => simp [h3] at h
      | ok p =>
        obtain ⟨c1, leaf1⟩ := p
        simp only [h3] at h
        cases h4 : cmpHandle s (cmpNode s n) (some lv) (some rv) (deduceAtom a (some rv)) with
        | err => simp [h4] at h
        | panic => simp [h4] at h
        | ok p2 =>
          obtain ⟨c2, leaf2⟩ := p2
          simp only [h4] at h
          have : c = c1 ++ c2 := by cases leaf2 <;> simp at h <;> exact h.symm
          exact Or.inr ⟨rfl, c1, leaf1, c2, leaf2, rfl, rfl, this⟩

/-! ### shapes -/

/-- both scalars, both lists, both maps or both null -/
def shapeEq (l r : Value) : Bool :=
  l.isScalar == r.isScalar && l.isList == r.isList && l.isMap == r.isMap

theorem deduceAtom_shapeEq (a : Atom) (l r : Value) (h : shapeEq l r = true) :
    deduceAtom a (some l) = deduceAtom a (some r) := by
  simp only [shapeEq, Bool.and_eq_true, beq_iff_eq] at h
  simp only [deduceAtom, h.1.1, h.1.2, h.2]

theorem shapeEq_of_equals (l r : Value) (h : Value.equals l r = true) : shapeEq l r = true := by
  cases l <;> cases r <;> first | rfl | (simp [Value.equals] at h)

theorem kindChild_both_shape (s : Schema) (K : AtomKind) (lv rv : Value) (pe : PE) (tr' tr'' : TypeRef) (x y : Value)
    (h1 : kindChild s K (some lv) pe = some (tr', some x)) (h2 : kindChild s K (some rv) pe = some (tr'', some y)) :
    shapeEq lv rv = true := by
  cases K with
  | invalid => simp [kindChild] at h1
  | scalar t => simp [kindChild] at h1
  | map t =>
    simp only [kindChild] at h1 h2
    split at h1
    · cases h1
    · cases pe with
      | field k =>
        simp only [Option.some.injEq, Prod.mk.injEq] at h1 h2
        have e1 : ∃ m, lv = .map m := by
          cases lv <;> simp [asMap, lookupField] at h1
          exact ⟨_, rfl⟩
        have e2 : ∃ m, rv = .map m := by
          cases rv <;> simp [asMap, lookupField] at h2
          exact ⟨_, rfl⟩
        obtain ⟨m1, rfl⟩ := e1
        obtain ⟨m2, rfl⟩ := e2
        rfl
      | _ => cases h1
  | list t =>
    simp only [kindChild] at h1 h2
    split at h1
    · cases h1
    · simp only [Option.some.injEq, Prod.mk.injEq, listChild] at h1 h2
      have e1 : ∃ m, lv = .list m := by
        cases lv <;> simp [asList] at h1
        exact ⟨_, rfl⟩
      have e2 : ∃ m, rv = .list m := by
        cases rv <;> simp [asList] at h2
        exact ⟨_, rfl⟩
      obtain ⟨m1, rfl⟩ := e1
      obtain ⟨m2, rfl⟩ := e2
      rfl

theorem cmpHandle_nil_shapeEq (s : Schema) (n : Nat) (lv rv : Value) (atom : Atom)
    (hvl : SideV s (atomKind atom) (some lv)) (hvr : SideV s (atomKind atom) (some rv))
    (c : Cmp) (leaf : Bool) (h : cmpHandle s (cmpNode s n) (some lv) (some rv) atom = .ok (c, leaf))
    (hn : Cmp.Nil c) : shapeEq lv rv = true := by
  obtain ⟨_, h2⟩ := (cmpHandle_nil_iff s _ _ _ atom hvl hvr c leaf h).1 hn
  obtain ⟨_, _, _, p4⟩ := cmpHandle_paths s _ _ _ atom hvl hvr c leaf h
  obtain ⟨hs, _⟩ := cmpHandle_shape s _ _ _ atom c leaf h
  rcases hs with rfl | ⟨pe, tr', lc, rc, k1, k2, k3⟩
  · exact shapeEq_of_equals _ _ ((nil_leafCmp_iff lv rv).1 hn)
  · obtain ⟨ci, hci⟩ := p4 pe tr' lc rc k1 k2 k3
    have hnci := h2 pe tr' lc rc ci k1 k2 k3 hci
    obtain ⟨x, y, rfl, rfl⟩ := cmpNode_nil_present s n lc rc tr' ci hci
      (kindChild_valid s _ _ hvl pe tr' lc k1) (kindChild_valid s _ _ hvr pe tr' rc k2) hnci
    exact kindChild_both_shape s _ lv rv pe tr' tr' x y k1 k2

/-- a comparison that reports nothing at all compared two values of the same shape -/
theorem cmpNode_nil_shapeEq (s : Schema) (n : Nat) (lv rv : Value) (tr : TypeRef) (c : Cmp)
    (h : cmpNode s (n + 1) (some lv) (some rv) tr = .ok c) (hvl : VO s tr (some lv)) (hvr : VO s tr (some rv))
    (hn : Cmp.Nil c) : shapeEq lv rv = true := by
  obtain ⟨a, hres, hcase⟩ := cmpNode_both s n lv rv tr c h
  rcases hcase with ⟨leaf, h1⟩ | ⟨_, c1, l1, c2, l2, h1, h2, rfl⟩
  · exact cmpHandle_nil_shapeEq s n lv rv _ (sideV_of_valid s tr a hres _ hvl _) (sideV_of_valid s tr a hres _ hvr _)
      c leaf h1 hn
  · exact cmpHandle_nil_shapeEq s n lv rv _ (sideV_of_valid s tr a hres _ hvl _) (sideV_of_valid s tr a hres _ hvr _)
      c2 l2 h2 ((nil_append_iff _ _).1 hn).2

/-- operands of the same shape are handled once, under the kind of the left operand -/
theorem cmpNode_sameShape (s : Schema) (n : Nat) (lv rv : Value) (tr : TypeRef) (c : Cmp)
    (h : cmpNode s (n + 1) (some lv) (some rv) tr = .ok c) (hsh : shapeEq lv rv = true) :
    ∃ a leaf, s.resolve tr = some a ∧
      cmpHandle s (cmpNode s n) (some lv) (some rv) (deduceAtom a (some lv)) = .ok (c, leaf) := by
  obtain ⟨a, hres, hcase⟩ := cmpNode_both s n lv rv tr c h
  rw [← deduceAtom_shapeEq a lv rv hsh] at hcase
  rcases hcase with ⟨leaf, h1⟩ | ⟨hE, _⟩
  · exact ⟨a, leaf, hres, h1⟩
  · rw [Atom.equals_refl] at hE; cases hE

/-! ### the reference: the same up to the order of members -/

/-- one level of "the same up to member order" under the kind `K`, the relation on children being `P` -/
def stepUO (s : Schema) (P : TypeRef → Value → Value → Bool) (K : AtomKind) (l r : Value) : Bool :=
  match K with
  | .list t =>
    if t.rel == "atomic" then Value.equals l r
    else
      (match l, r with
       | .list ll, .list rl =>
         ll.length == rl.length &&
         ll.all (fun a => rl.any fun b => PE.equals (peOf s t a) (peOf s t b) && P t.elementType a b)
       | _, _ => Value.equals l r)
  | .map t =>
    if t.rel == "atomic" then Value.equals l r
    else
      (match l, r with
       | .map lm, .map rm =>
         lm.length == rm.length &&
         lm.all (fun (k, a) => match lookupField k rm with
           | some b => P (fieldType t k) a b
           | none => false)
       | _, _ => Value.equals l r)
  | _ => Value.equals l r

/-- copy of `SMD.C11.sameUpToOrder` (the property file proves they coincide) -/
def sameUO (s : Schema) : Nat → TypeRef → Value → Value → Bool
  | 0, _, _, _ => false
  | fuel + 1, tr, l, r =>
    match resolveKind s tr (some l) with
    | some K => stepUO s (sameUO s fuel) K l r
    | none => Value.equals l r

theorem stepUO_shape (s : Schema) (P : TypeRef → Value → Value → Bool) (K : AtomKind) (l r : Value)
    (h : stepUO s P K l r = true) : shapeEq l r = true := by
  unfold stepUO at h
  split at h
  · split at h
    · exact shapeEq_of_equals _ _ h
    · split at h
      · rfl
      · exact shapeEq_of_equals _ _ h
  · split at h
    · exact shapeEq_of_equals _ _ h
    · split at h
      · rfl
      · exact shapeEq_of_equals _ _ h
  · exact shapeEq_of_equals _ _ h

theorem sameUO_shape (s : Schema) (n : Nat) (tr : TypeRef) (l r : Value) (h : sameUO s n tr l r = true) :
    shapeEq l r = true := by
  cases n with
  | zero => simp [sameUO] at h
  | succ n =>
    simp only [sameUO] at h
    split at h
    · exact stepUO_shape s _ _ l r h
    · exact shapeEq_of_equals _ _ h

/-! ### identities are distinct -/

theorem PE.isEqv : IsEqv PE.equals :=
  ⟨PE.equals_refl, fun _ _ h => PE.equals_symm_of h, fun _ _ _ h1 h2 => PE.equals_trans h1 h2⟩

theorem String.isEqv : IsEqv (fun a b : String => a == b) :=
  ⟨fun a => beq_self_eq_true a, fun a b h => by rw [beq_iff_eq] at h ⊢; exact h.symm,
    fun a b c h1 h2 => by rw [beq_iff_eq] at h1 h2 ⊢; exact h1.trans h2⟩

theorem noRep_of_filter {α κ : Type} {key : α → κ} {keq : κ → κ → Bool} (hk : IsEqv keq) :
    ∀ xs : List α, (∀ q, (xs.filter (fun c => keq (key c) q)).length ≤ 1) → NoRep key keq xs
  | [], _ => List.Pairwise.nil
  | x :: xs, h => by
    refine List.pairwise_cons.2 ⟨?_, noRep_of_filter hk xs (fun q => ?_)⟩
    · intro y hy
      have := h (key x)
      simp only [List.filter_cons, hk.refl, if_true, List.length_cons] at this
      have hnil : xs.filter (fun c => keq (key c) (key x)) = [] := List.eq_nil_of_length_eq_zero (by omega)
      cases hxy : keq (key x) (key y) with
      | false => rfl
      | true =>
        have hm : y ∈ xs.filter (fun c => keq (key c) (key x)) := List.mem_filter.2 ⟨hy, hk.symm _ _ hxy⟩
        rw [hnil] at hm
        cases hm
    · have := h q
      simp only [List.filter_cons] at this
      split at this
      · simp only [List.length_cons] at this; omega
      · exact this

theorem noRep_items (s : Schema) (t : ListT) (l : List Value) (hv : validateItems s false t [] 0 l = .ok ())
    (hpe : ∀ x ∈ l, ∃ pe, listItemToPE s t x = .ok pe) : NoRep (peOf s t) PE.equals l := by
  cases l with
  | nil => exact List.Pairwise.nil
  | cons c l' =>
    obtain ⟨pe, hc⟩ := hpe c List.mem_cons_self
    exact noRep_of_filter PE.isEqv _ (fun q => (validateItems_nodup s t (listItemToPE_ok_assoc hc) _ _ _ hv q).1)

theorem noRep_fields (m : List (String × Value)) (h : keysAsc m = true) :
    NoRep (fun c : String × Value => c.1) (fun a b : String => a == b) m := by
  refine (keysAsc_pairwise m h).imp ?_
  intro a b hab
  cases he : a.1 == b.1 with
  | false => exact he
  | true =>
    have : a.1 = b.1 := by simpa using he
    rw [this] at hab
    exact absurd hab (String.lt_irrefl _)

theorem lookupField_eq_find (k : String) : ∀ m : List (String × Value),
    lookupField k m = (m.find? (fun c => c.1 == k)).map (·.2)
  | [] => rfl
  | (k', v) :: rest => by
    simp only [lookupField, List.find?_cons]
    by_cases h : k = k'
    · subst h; simp
    · have h' : ¬ k' = k := fun e => h e.symm
      have e1 : (k == k') = false := by simpa using h
      have e2 : (k' == k) = false := by simpa using h'
      simp only [e1, e2, Bool.false_eq_true, if_false]
      exact lookupField_eq_find k rest

/-! ### one level: the handler against the reference -/

theorem kindChild_list_list (s : Schema) (t : ListT) (hat : (t.rel == "atomic") = false) (l : List Value) (pe : PE) :
    kindChild s (.list t) (some (.list l)) pe =
      some (t.elementType, l.find? (fun c => PE.equals (peOf s t c) pe)) := by
  simp [kindChild, hat, listChild, asList]

theorem kindChild_map_map (s : Schema) (t : MapT) (hat : (t.rel == "atomic") = false) (m : List (String × Value))
    (k : String) : kindChild s (.map t) (some (.map m)) (.field k) = some (fieldType t k, lookupField k m) := by
  simp [kindChild, hat, asMap]

theorem kind_same_iff_list (s : Schema) (P : TypeRef → Value → Value → Bool) (t : ListT)
    (hat : (t.rel == "atomic") = false) (ll rl : List Value)
    (nl : NoRep (peOf s t) PE.equals ll) (nr : NoRep (peOf s t) PE.equals rl) :
    ((leafAt (.list t) (some (.list ll)) (some (.list rl)) = true → Value.equals (.list ll) (.list rl) = true) ∧
      ∀ pe tr' lc rc, kindChild s (.list t) (some (.list ll)) pe = some (tr', lc) →
        kindChild s (.list t) (some (.list rl)) pe = some (tr', rc) →
        (lc.isSome = true ∨ rc.isSome = true) → ∃ x y, lc = some x ∧ rc = some y ∧ P tr' x y = true) ↔
    stepUO s P (.list t) (.list ll) (.list rl) = true := by
  have hm := matching_iff PE.isEqv ll rl nl nr (fun a b => P t.elementType a b = true)
  have hB : stepUO s P (.list t) (.list ll) (.list rl) = true ↔
      (ll.length = rl.length ∧ ∀ a ∈ ll, ∃ b ∈ rl, PE.equals (peOf s t a) (peOf s t b) = true ∧
        P t.elementType a b = true) := by
    simp only [stepUO, hat, Bool.false_eq_true, if_false, Bool.and_eq_true, beq_iff_eq, List.all_eq_true,
      List.any_eq_true]
  rw [hB, ← hm]
  constructor
  · rintro ⟨_, hc⟩ q hq
    exact hc q t.elementType _ _ (kindChild_list_list s t hat ll q) (kindChild_list_list s t hat rl q) hq
  · intro h
    refine ⟨?_, ?_⟩
    · intro hleaf
      simp only [leafAt, hat, Bool.false_or, asList, emptyOrAbsent, Bool.and_eq_true, List.isEmpty_iff] at hleaf
      obtain ⟨rfl, rfl⟩ := hleaf
      simp [Value.equals, Value.equalsList]
    · intro pe tr' lc rc k1 k2 k3
      rw [kindChild_list_list s t hat] at k1 k2
      simp only [Option.some.injEq, Prod.mk.injEq] at k1 k2
      obtain ⟨rfl, rfl⟩ := k1
      obtain ⟨_, rfl⟩ := k2
      exact h pe k3

theorem kind_same_iff_map (s : Schema) (P : TypeRef → Value → Value → Bool) (t : MapT)
    (hat : (t.rel == "atomic") = false) (lm rm : List (String × Value))
    (al : keysAsc lm = true) (ar : keysAsc rm = true) :
    ((leafAt (.map t) (some (.map lm)) (some (.map rm)) = true → Value.equals (.map lm) (.map rm) = true) ∧
      ∀ pe tr' lc rc, kindChild s (.map t) (some (.map lm)) pe = some (tr', lc) →
        kindChild s (.map t) (some (.map rm)) pe = some (tr', rc) →
        (lc.isSome = true ∨ rc.isSome = true) → ∃ x y, lc = some x ∧ rc = some y ∧ P tr' x y = true) ↔
    stepUO s P (.map t) (.map lm) (.map rm) = true := by
  have hm := matching_iff String.isEqv lm rm (noRep_fields lm al) (noRep_fields rm ar)
    (fun a b => P (fieldType t a.1) a.2 b.2 = true)
  have hB : stepUO s P (.map t) (.map lm) (.map rm) = true ↔
      (lm.length = rm.length ∧ ∀ a ∈ lm, ∃ b ∈ rm, (a.1 == b.1) = true ∧
        P (fieldType t a.1) a.2 b.2 = true) := by
    simp only [stepUO, hat, Bool.false_eq_true, if_false, Bool.and_eq_true, beq_iff_eq, List.all_eq_true]
    constructor
    · rintro ⟨hl, h⟩
      refine ⟨hl, ?_⟩
      rintro ⟨k, a⟩ hka
      have := h (k, a) hka
      simp only [] at this
      cases hlk : lookupField k rm with
      | none => rw [hlk] at this; cases this
      | some b =>
        rw [hlk] at this
        exact ⟨(k, b), lookupField_mem k rm b hlk, rfl, this⟩
    · rintro ⟨hl, h⟩
      refine ⟨hl, ?_⟩
      rintro ⟨k, a⟩ hka
      obtain ⟨⟨k', b⟩, hb, hkk, hp⟩ := h (k, a) hka
      simp only [] at hkk hp ⊢
      subst hkk
      rw [lookupField_of_mem_keysAsc ar hb]
      exact hp
  have hC : (∀ k, (lookupField k lm).isSome = true ∨ (lookupField k rm).isSome = true →
        ∃ x y, lookupField k lm = some x ∧ lookupField k rm = some y ∧ P (fieldType t k) x y = true) ↔
      (∀ q, (lm.find? (fun c => c.1 == q)).isSome = true ∨ (rm.find? (fun c => c.1 == q)).isSome = true →
        ∃ a b, lm.find? (fun c => c.1 == q) = some a ∧ rm.find? (fun c => c.1 == q) = some b ∧
          P (fieldType t a.1) a.2 b.2 = true) := by
    constructor
    · intro h q hq
      obtain ⟨x, y, h1, h2, h3⟩ := h q (by simpa [lookupField_eq_find] using hq)
      rw [lookupField_eq_find, Option.map_eq_some_iff] at h1 h2
      obtain ⟨a, ha, rfl⟩ := h1
      obtain ⟨b, hb, rfl⟩ := h2
      have haq : a.1 = q := by simpa using List.find?_some ha
      exact ⟨a, b, ha, hb, by rw [haq]; exact h3⟩
    · intro h k hk
      obtain ⟨a, b, ha, hb, hp⟩ := h k (by simpa [lookupField_eq_find] using hk)
      have haq : a.1 = k := by simpa using List.find?_some ha
      refine ⟨a.2, b.2, by rw [lookupField_eq_find, ha]; rfl, by rw [lookupField_eq_find, hb]; rfl, ?_⟩
      rw [← haq]; exact hp
  rw [hB, ← hm, ← hC]
  constructor
  · rintro ⟨_, hc⟩ k hk
    exact hc (.field k) (fieldType t k) _ _ (kindChild_map_map s t hat lm k) (kindChild_map_map s t hat rm k) hk
  · intro h
    refine ⟨?_, ?_⟩
    · intro hleaf
      simp only [leafAt, hat, Bool.false_or, asMap, emptyOrAbsent, Bool.and_eq_true, List.isEmpty_iff] at hleaf
      obtain ⟨rfl, rfl⟩ := hleaf
      simp [Value.equals, Value.equalsFields]
    · intro pe tr' lc rc k1 k2 k3
      cases pe with
      | field k =>
        rw [kindChild_map_map s t hat] at k1 k2
        simp only [Option.some.injEq, Prod.mk.injEq] at k1 k2
        obtain ⟨rfl, rfl⟩ := k1
        obtain ⟨_, rfl⟩ := k2
        exact h k k3
      | _ => simp [kindChild, hat] at k1

theorem stepUO_list_other (s : Schema) (P : TypeRef → Value → Value → Bool) (t : ListT) (lv rv : Value)
    (h : lv.isList = false) : stepUO s P (.list t) lv rv = Value.equals lv rv := by
  cases lv <;> cases rv <;> simp [stepUO, Value.isList] at h ⊢

theorem stepUO_map_other (s : Schema) (P : TypeRef → Value → Value → Bool) (t : MapT) (lv rv : Value)
    (h : lv.isMap = false) : stepUO s P (.map t) lv rv = Value.equals lv rv := by
  cases lv <;> cases rv <;> simp [stepUO, Value.isMap] at h ⊢

theorem asList_of_not_list (v : Value) (h : v.isList = false) : asList (some v) = none := by
  cases v <;> simp [asList, Value.isList] at h ⊢

theorem asMap_of_not_map (v : Value) (h : v.isMap = false) : asMap (some v) = none := by
  cases v <;> simp [asMap, Value.isMap] at h ⊢

/-- under the kind `K`, for operands of the same shape: "equal when compared as leaves, and every child met
on either side is present on both sides with `P`-related values" is one level of the reference -/
theorem kind_same_iff (s : Schema) (P : TypeRef → Value → Value → Bool) (K : AtomKind) (lv rv : Value)
    (hsh : shapeEq lv rv = true)
    (hvl : SideV s K (some lv)) (hvr : SideV s K (some rv)) (hcl : canon lv = true) (hcr : canon rv = true)
    (hpe : ∀ t, K = .list t → (t.rel == "atomic") = false →
      ∀ x ∈ (asList (some lv)).getD [] ++ (asList (some rv)).getD [], ∃ pe, listItemToPE s t x = .ok pe) :
    ((leafAt K (some lv) (some rv) = true → Value.equals lv rv = true) ∧
      ∀ pe tr' lc rc, kindChild s K (some lv) pe = some (tr', lc) → kindChild s K (some rv) pe = some (tr', rc) →
        (lc.isSome = true ∨ rc.isSome = true) → ∃ x y, lc = some x ∧ rc = some y ∧ P tr' x y = true) ↔
    stepUO s P K lv rv = true := by
  simp only [shapeEq, Bool.and_eq_true, beq_iff_eq] at hsh
  cases K with
  | invalid => simp [leafAt, kindChild, stepUO]
  | scalar t => simp [leafAt, kindChild, stepUO]
  | list t =>
    cases hat : t.rel == "atomic" with
    | true => simp [leafAt, kindChild, stepUO, hat]
    | false =>
      cases hl : lv.isList with
      | true =>
        have hr : rv.isList = true := by rw [← hsh.1.2]; exact hl
        have e1 : ∃ ll, lv = .list ll := by cases lv <;> simp [Value.isList] at hl; exact ⟨_, rfl⟩
        have e2 : ∃ rl, rv = .list rl := by cases rv <;> simp [Value.isList] at hr; exact ⟨_, rfl⟩
        obtain ⟨ll, rfl⟩ := e1
        obtain ⟨rl, rfl⟩ := e2
        refine kind_same_iff_list s P t hat ll rl
          (noRep_items s t ll (hvl ll rfl) (fun x hx => hpe t rfl hat x (by simp [asList, hx])))
          (noRep_items s t rl (hvr rl rfl) (fun x hx => hpe t rfl hat x (by simp [asList, hx])))
      | false =>
        have hr : rv.isList = false := by rw [← hsh.1.2]; exact hl
        rw [stepUO_list_other s P t lv rv hl]
        simp only [leafAt, hat, Bool.false_or, asList_of_not_list lv hl, asList_of_not_list rv hr, emptyOrAbsent,
          Bool.and_self, forall_const, and_iff_left_iff_imp]
        intro _ pe tr' lc rc k1 k2 k3
        simp only [kindChild, hat, Bool.false_eq_true, if_false, listChild, asList_of_not_list lv hl,
          asList_of_not_list rv hr, Option.getD_none, List.find?_nil, Option.some.injEq, Prod.mk.injEq] at k1 k2
        rw [← k1.2, ← k2.2] at k3
        simp at k3
  | map t =>
    cases hat : t.rel == "atomic" with
    | true => simp [leafAt, kindChild, stepUO, hat]
    | false =>
      cases hl : lv.isMap with
      | true =>
        have hr : rv.isMap = true := by rw [← hsh.2]; exact hl
        have e1 : ∃ ll, lv = .map ll := by cases lv <;> simp [Value.isMap] at hl; exact ⟨_, rfl⟩
        have e2 : ∃ rl, rv = .map rl := by cases rv <;> simp [Value.isMap] at hr; exact ⟨_, rfl⟩
        obtain ⟨lm, rfl⟩ := e1
        obtain ⟨rm, rfl⟩ := e2
        simp only [canon, Bool.and_eq_true] at hcl hcr
        exact kind_same_iff_map s P t hat lm rm hcl.1 hcr.1
      | false =>
        have hr : rv.isMap = false := by rw [← hsh.2]; exact hl
        rw [stepUO_map_other s P t lv rv hl]
        simp only [leafAt, hat, Bool.false_or, asMap_of_not_map lv hl, asMap_of_not_map rv hr, emptyOrAbsent,
          Bool.and_self, forall_const, and_iff_left_iff_imp]
        intro _ pe tr' lc rc k1 k2 k3
        cases pe with
        | field k =>
          simp only [kindChild, hat, Bool.false_eq_true, if_false, asMap_of_not_map lv hl,
            asMap_of_not_map rv hr, Option.getD_none, lookupField, Option.some.injEq, Prod.mk.injEq] at k1 k2
          rw [← k1.2, ← k2.2] at k3
          simp at k3
        | _ => simp [kindChild, hat] at k1

theorem kindChild_canon (s : Schema) (K : AtomKind) (v : Value) (pe : PE) (tr' : TypeRef) (x : Value)
    (hc : canon v = true) (h : kindChild s K (some v) pe = some (tr', some x)) : canon x = true := by
  rcases kindChild_some_shape s K v pe tr' x h with ⟨t, m, rfl, rfl, _⟩ | ⟨t, l, rfl, rfl, _⟩
  · simp only [canon, Bool.and_eq_true] at hc
    simp only [kindChild] at h
    split at h
    · cases h
    · cases pe with
      | field k =>
        simp only [asMap, Option.getD_some, Option.some.injEq, Prod.mk.injEq] at h
        exact canonFields_mem m hc.2 (k, x) (lookupField_mem k m x h.2)
      | _ => cases h
  · simp only [canon] at hc
    simp only [kindChild] at h
    split at h
    · cases h
    · simp only [listChild, asList, Option.getD_some, Option.some.injEq, Prod.mk.injEq] at h
      exact canonList_mem l hc x (find?_mem' h.2)

/-! ### nothing reported at all, against the reference -/

/-- a comparison of two valid canonical values reports nothing — at the node itself or beneath it — exactly
when the two values are the same up to the order of the members of their sets and associative lists -/
theorem cmpNode_nil_iff_sameUO (s : Schema) : ∀ (n : Nat) (lv rv : Value) (tr : TypeRef) (c : Cmp),
    cmpNode s n (some lv) (some rv) tr = .ok c → VO s tr (some lv) → VO s tr (some rv) →
    canon lv = true → canon rv = true → (Cmp.Nil c ↔ sameUO s n tr lv rv = true) := by
  intro n
  induction n with
  | zero => intro lv rv tr c h; cases h
  | succ n ih =>
    intro lv rv tr c h hvl hvr hcl hcr
    by_cases hsh : shapeEq lv rv = true
    · obtain ⟨a, leaf, hres, hh⟩ := cmpNode_sameShape s n lv rv tr c h hsh
      have svl := sideV_of_valid s tr a hres _ hvl (some lv)
      have svr := sideV_of_valid s tr a hres _ hvr (some lv)
      obtain ⟨_, _, _, p4⟩ := cmpHandle_paths s _ _ _ _ svl svr c leaf hh
      obtain ⟨_, hpe⟩ := cmpHandle_shape s _ _ _ _ c leaf hh
      have hK : sameUO s (n + 1) tr lv rv = stepUO s (sameUO s n) (atomKind (deduceAtom a (some lv))) lv rv := by
        simp only [sameUO, resolveKind_eq s tr a _ hres]
      rw [cmpHandle_nil_iff s _ _ _ _ svl svr c leaf hh, hK,
        ← kind_same_iff s (sameUO s n) _ lv rv hsh svl svr hcl hcr hpe, nil_leafCmp_iff]
      refine and_congr_right (fun _ => ?_)
      constructor
      · intro hc pe tr' lc rc k1 k2 k3
        obtain ⟨ci, hci⟩ := p4 pe tr' lc rc k1 k2 k3
        have hn := hc pe tr' lc rc ci k1 k2 k3 hci
        have v1 := kindChild_valid s _ _ svl pe tr' lc k1
        have v2 := kindChild_valid s _ _ svr pe tr' rc k2
        obtain ⟨x, y, rfl, rfl⟩ := cmpNode_nil_present s n lc rc tr' ci hci v1 v2 hn
        exact ⟨x, y, rfl, rfl, (ih x y tr' ci hci v1 v2 (kindChild_canon s _ lv pe tr' x hcl k1)
          (kindChild_canon s _ rv pe tr' y hcr k2)).1 hn⟩
      · intro hc pe tr' lc rc ci k1 k2 k3 hci
        obtain ⟨x, y, rfl, rfl, hs⟩ := hc pe tr' lc rc k1 k2 k3
        exact (ih x y tr' ci hci (kindChild_valid s _ _ svl pe tr' _ k1) (kindChild_valid s _ _ svr pe tr' _ k2)
          (kindChild_canon s _ lv pe tr' x hcl k1) (kindChild_canon s _ rv pe tr' y hcr k2)).2 hs
    · constructor
      · intro hn; exact absurd (cmpNode_nil_shapeEq s n lv rv tr c h hvl hvr hn) hsh
      · intro hs; exact absurd (sameUO_shape s _ tr lv rv hs) hsh

/-! ### the root: only what lies beneath it is visible -/

/-- copy of `SMD.C11.granularRoot`: the value is handled as a list or a map that is not atomic -/
def granularKind (s : Schema) (tr : TypeRef) (v : Value) : Bool :=
  match resolveKind s tr (some v) with
  | some (.list t) => t.rel != "atomic"
  | some (.map t) => t.rel != "atomic"
  | _ => false

theorem isEmpty_ofPaths_iff (ps : List Path) :
    (SetTrie.ofPaths ps).isEmpty = true ↔ ∀ pe rest, pmem (pe :: rest) ps = false := by
  constructor
  · intro h pe rest
    have := SetTrie.has_of_isEmpty (pe :: rest) _ h
    rw [has_ofPaths_pmem] at this
    simpa using this
  · intro h
    cases he : (SetTrie.ofPaths ps).isEmpty with
    | true => rfl
    | false =>
      obtain ⟨q, hq⟩ := (SetTrie.isEmpty_eq_false_iff (SetTrie.wf_ofPaths ps)).1 he
      rw [has_ofPaths_pmem] at hq
      cases q with
      | nil => simp at hq
      | cons pe rest =>
        simp only [List.isEmpty_cons, Bool.not_false, Bool.true_and] at hq
        rw [h pe rest] at hq
        cases hq

theorem shapeEq_of_root (l r : Value)
    (hroot : l.isScalar = false ∧ r.isScalar = false ∧ l ≠ .null ∧ r ≠ .null) (hshape : l.isList = r.isList) :
    (∃ ll rl, l = .list ll ∧ r = .list rl) ∨ (∃ lm rm, l = .map lm ∧ r = .map rm) := by
  obtain ⟨h1, h2, h3, h4⟩ := hroot
  cases l <;> cases r <;> simp [Value.isScalar, Value.isList] at h1 h2 h3 h4 hshape ⊢

/-- two lists or two maps handled member by member: the comparison reports nothing at the node itself -/
theorem cmpNode_root_paths (s : Schema) (n : Nat) (lv rv : Value) (tr : TypeRef) (c : Cmp)
    (h : cmpNode s (n + 1) (some lv) (some rv) tr = .ok c) (hvl : VO s tr (some lv)) (hvr : VO s tr (some rv))
    (hcont : (∃ ll rl, lv = .list ll ∧ rv = .list rl) ∨ (∃ lm rm, lv = .map lm ∧ rv = .map rm))
    (hgran : granularKind s tr lv = true) : ∀ k, pmem [] (c.get k) = false := by
  have hsh : shapeEq lv rv = true := by
    rcases hcont with ⟨ll, rl, rfl, rfl⟩ | ⟨lm, rm, rfl, rfl⟩ <;> rfl
  obtain ⟨a, leaf, hres, hh⟩ := cmpNode_sameShape s n lv rv tr c h hsh
  have svl := sideV_of_valid s tr a hres _ hvl (some lv)
  have svr := sideV_of_valid s tr a hres _ hvr (some lv)
  obtain ⟨p1, p2, _, _⟩ := cmpHandle_paths s _ _ _ _ svl svr c leaf hh
  have hleaf := (cmpHandle_leaf s _ _ _ _ c leaf hh).symm
  cases leaf with
  | false => exact p2 rfl
  | true =>
    rw [p1 rfl]
    have heq : Value.equals lv rv = true := by
      simp only [granularKind, resolveKind_eq s tr a _ hres] at hgran
      rcases hcont with ⟨ll, rl, rfl, rfl⟩ | ⟨lm, rm, rfl, rfl⟩
      · obtain ⟨a', lt, hres', ha, _⟩ := validateV_list_inv (hvl _ rfl)
        rw [hres] at hres'
        cases hres'
        rw [atomKind_deduce_list a ll lt ha] at hgran hleaf
        have hat : (lt.rel == "atomic") = false := by simpa using hgran
        simp only [leafAt, hat, Bool.false_or, asList, emptyOrAbsent, Bool.and_eq_true, List.isEmpty_iff] at hleaf
        obtain ⟨rfl, rfl⟩ := hleaf
        simp [Value.equals, Value.equalsList]
      · obtain ⟨a', mt, hres', ha, _⟩ := validateV_map_inv (hvl _ rfl)
        rw [hres] at hres'
        cases hres'
        rw [atomKind_deduce_map a lm mt ha] at hgran hleaf
        have hat : (mt.rel == "atomic") = false := by simpa using hgran
        simp only [leafAt, hat, Bool.false_or, asMap, emptyOrAbsent, Bool.and_eq_true, List.isEmpty_iff] at hleaf
        obtain ⟨rfl, rfl⟩ := hleaf
        simp [Value.equals, Value.equalsFields]
    have hn := (nil_leafCmp_iff lv rv).2 heq
    exact fun k => (nil_iff_pmem _).1 hn k []

/-- nothing is reported exactly when the two objects are the same up to member order: valid canonical
operands whose roots are both lists or both maps, handled member by member -/
theorem compareTV_same_iff_sameUO (s : Schema) (l r : TV) (c : Comparison)
    (hl : validateV s false l.type l.value = .ok ()) (hr : validateV s false r.type r.value = .ok ())
    (hcl : canon l.value = true) (hcr : canon r.value = true)
    (hroot : l.value.isScalar = false ∧ r.value.isScalar = false ∧ l.value ≠ .null ∧ r.value ≠ .null)
    (hgran : granularKind s l.type l.value = true) (hshape : l.value.isList = r.value.isList)
    (h : compareTV s l r = .ok c) :
    c.isSame = true ↔ sameUO s (l.value.depth + r.value.depth + 2) l.type l.value r.value = true := by
  obtain ⟨htr, c0, hc0, rfl⟩ := compareTV_inv s l r c h
  obtain ⟨vl, vr⟩ := compareTV_valid s l r htr hl hr
  rw [← cmpNode_nil_iff_sameUO s _ _ _ _ c0 hc0 vl vr hcl hcr]
  have hnil := cmpNode_root_paths s _ _ _ _ c0 hc0 vl vr (shapeEq_of_root _ _ hroot hshape) hgran
  simp only [Comparison.isSame, Bool.and_eq_true, isEmpty_ofPaths_iff]
  constructor
  · rintro ⟨⟨h1, h2⟩, h3⟩
    rw [nil_iff_pmem]
    intro k q
    cases q with
    | nil => exact hnil k
    | cons pe rest => cases k <;> simp only [Cmp.get] <;> first | exact h1 pe rest | exact h2 pe rest | exact h3 pe rest
  · intro hn
    obtain ⟨e1, e2, e3⟩ := hn
    simp [e1, e2, e3]

/-- the same up to member order: nothing is reported, whatever the root -/
theorem compareTV_same_of_sameUO (s : Schema) (l r : TV) (c : Comparison)
    (hl : validateV s false l.type l.value = .ok ()) (hr : validateV s false r.type r.value = .ok ())
    (hcl : canon l.value = true) (hcr : canon r.value = true) (h : compareTV s l r = .ok c)
    (hsame : sameUO s (l.value.depth + r.value.depth + 2) l.type l.value r.value = true) : c.isSame = true := by
  obtain ⟨htr, c0, hc0, rfl⟩ := compareTV_inv s l r c h
  obtain ⟨vl, vr⟩ := compareTV_valid s l r htr hl hr
  obtain ⟨e1, e2, e3⟩ := (cmpNode_nil_iff_sameUO s _ _ _ _ c0 hc0 vl vr hcl hcr).2 hsame
  simp only [Comparison.isSame, e1, e2, e3]
  rfl

end CmpX
end SMD
