/-
Concrete runs of the comparison walker refuting C11 "empty exactly when equal up to member order" as first
written (`SMD/Properties/C11Same.lean`): a difference at the root itself is invisible, so the root must be
compared member by member.  All types are inline, the schema is `⟨[]⟩`.
-/
import SMD.Proofs.CompareCounterexamples
set_option linter.unusedSimpArgs false
namespace SMD.C11cx
open SMD SMD.CmpX

/-- an atomic list of scalars -/
def atomicListT : TypeRef := .mk none (.mk none (some (.mk scalarT "atomic" [])) none) none
/-- `[1]` -/
def atomicL : TV := ⟨.list [.int 1], atomicListT⟩
/-- `[2]` -/
def atomicR : TV := ⟨.list [.int 2], atomicListT⟩

/-- `[1]` against `[2]` under an atomic list type: the only report is at the root, which is never a member -/
theorem cmp_atomic_root :
    compareTV ⟨[]⟩ atomicL atomicR = .ok ⟨.ofPaths [], .ofPaths [[]], .ofPaths []⟩ := by
  have h1 : TypeRef.equals atomicL.type atomicR.type = true := TypeRef.equals_refl _
  have h2 : cmpNode ⟨[]⟩ (atomicL.value.depth + atomicR.value.depth + 2) (some atomicL.value)
      (some atomicR.value) atomicL.type = .ok { modified := [[]] } :=
    (cmpNode_same_atom ⟨[]⟩ 5 atomicL.value atomicR.value atomicListT _ rfl rfl).trans rfl
  unfold compareTV
  rw [h1, h2]
  rfl

/-- a type that is both a set of scalars and a map of scalars (the atom is deduced from the value) -/
def setOrMapT : TypeRef :=
  .mk none (.mk none (some (.mk scalarT "associative" [])) (some (.mk [] [] scalarT ""))) none
/-- `[]` -/
def emptySetV : TV := ⟨.list [], setOrMapT⟩
/-- `{}` -/
def emptyMapV : TV := ⟨.map [], setOrMapT⟩

/-- `[]` against `{}`: both handlers compare the operands as leaves, the only reports are at the root -/
theorem cmp_emptySet_emptyMap :
    compareTV ⟨[]⟩ emptySetV emptyMapV = .ok ⟨.ofPaths [], .ofPaths [[], []], .ofPaths []⟩ := by
  have h1 : TypeRef.equals emptySetV.type emptyMapV.type = true := TypeRef.equals_refl _
  have hE : Atom.equals (Atom.mk none (some (ListT.mk scalarT "associative" [])) none)
      (Atom.mk none none (some (MapT.mk [] [] scalarT ""))) = false := by
    simp [Atom.equals]
  have h2 : cmpNode ⟨[]⟩ (emptySetV.value.depth + emptyMapV.value.depth + 2) (some emptySetV.value)
      (some emptyMapV.value) emptySetV.type = .ok { modified := [[], []] } := by
    show cmpNode ⟨[]⟩ (3 + 1) (some (.list [])) (some (.map [])) setOrMapT = _
    rw [cmpNode_succ]
    have hres : (⟨[]⟩ : Schema).resolve setOrMapT =
        some (.mk none (some (.mk scalarT "associative" [])) (some (.mk [] [] scalarT ""))) := rfl
    have hal : deduceAtom (.mk none (some (.mk scalarT "associative" [])) (some (.mk [] [] scalarT "")))
        (some (.list [])) = Atom.mk none (some (ListT.mk scalarT "associative" [])) none := rfl
    have har : deduceAtom (.mk none (some (.mk scalarT "associative" [])) (some (.mk [] [] scalarT "")))
        (some (.map [])) = Atom.mk none none (some (MapT.mk [] [] scalarT "")) := rfl
    simp only [Option.isNone_some, Bool.and_self, Bool.false_eq_true, if_false, hres, cmpHandled, hal, har, hE,
      Bool.or_self]
    rfl
  unfold compareTV
  rw [h1, h2]
  rfl

end SMD.C11cx
