/-
Swapping the operands of a comparison swaps added and removed and keeps modified (as sets of paths),
also when the two type references are merely `TypeRef.equals`.
-/
import SMD.Proofs.CompareFold
set_option linter.unusedSimpArgs false
set_option linter.unusedVariables false
namespace SMD
namespace CmpX
open NodeLaws

/-- the recursive call commutes with swapping the operands -/
def SwapRec (rec rec' : CmpRec) : Prop :=
  ∀ (lc rc : Option Value) (tr tr' : TypeRef), TypeRef.equals tr tr' = true →
    ∀ c, rec lc rc tr = .ok c → ∃ c', rec' rc lc tr' = .ok c' ∧ Sw c c'

theorem fold_swap {α β : Type} (R : α → β → Prop) (F : α → Res Cmp) (F' : β → Res Cmp) (xs : List α) (ys : List β)
    (hF : ∀ x y, R x y → ∀ c, F x = .ok c → ∃ c', F' y = .ok c' ∧ Sw c c')
    (h1 : ∀ x ∈ xs, ∃ y ∈ ys, R x y) (h2 : ∀ y ∈ ys, ∃ x ∈ xs, R x y)
    (c : Cmp) (h : xs.foldl (resFold F) (.ok {}) = .ok c) :
    ∃ c', ys.foldl (resFold F') (.ok {}) = .ok c' ∧ Sw c c' := by
  obtain ⟨hok, hmem⟩ := foldl_resFold_ok F xs {} c h
  obtain ⟨c', hc'⟩ := foldl_resFold_ok_of F' ys {} (by
    intro y hy
    obtain ⟨x, hx, hr⟩ := h2 y hy
    obtain ⟨ci, hci⟩ := hok x hx
    obtain ⟨ci', hci', _⟩ := hF x y hr ci hci
    exact ⟨ci', hci'⟩)
  refine ⟨c', hc', ?_⟩
  obtain ⟨_, hmem'⟩ := foldl_resFold_ok F' ys {} c' hc'
  intro k q
  rw [hmem' k.swap q, hmem k q]
  simp only [Cmp.get_empty, pmem_nil, Bool.false_or]
  symm
  apply any_eq_of_cover xs ys _ _ (fun x y => R x y ∧ ∃ ci, F x = .ok ci)
  · rintro x y ⟨hr, ci, hci⟩
    obtain ⟨ci', hci', hsw⟩ := hF x y hr ci hci
    simp only [hci, hci', resGet]
    exact (hsw k q).symm
  · intro x hx
    obtain ⟨y, hy, hr⟩ := h1 x hx
    exact ⟨y, hy, hr, hok x hx⟩
  · intro y hy
    obtain ⟨x, hx, hr⟩ := h2 y hy
    exact ⟨x, hx, hr, hok x hx⟩

theorem listEqualValues_symm : ∀ a b : List Value, listEqualValues a b = listEqualValues b a
  | [], [] => rfl
  | [], _ :: _ => rfl
  | _ :: _, [] => rfl
  | a :: as, b :: bs => by simp [listEqualValues, Value.equals_symm a b, listEqualValues_symm as bs]

theorem leafCmp_swap (l r : Option Value) (h : l.isSome = true ∨ r.isSome = true) : Sw (leafCmp l r) (leafCmp r l) := by
  cases l with
  | none =>
    cases r with
    | none => simp at h
    | some b => intro k; cases k <;> exact PEqv.refl _
  | some a =>
    cases r with
    | none => intro k; cases k <;> exact PEqv.refl _
    | some b =>
      simp only [leafCmp, Value.equals_symm a b]
      split
      · intro k; cases k <;> exact PEqv.refl _
      · intro k; cases k <;> exact PEqv.refl _

theorem cmpItem_swap {rec rec' : CmpRec} (hrec : SwapRec rec rec') {t t' : ListT} (ht : ListT.equals t t' = true)
    {pe pe' : PE} (he : PE.equals pe pe' = true) (lc rc : Option Value) (c : Cmp)
    (h : cmpItem rec t pe lc rc = .ok c) : ∃ c', cmpItem rec' t' pe' rc lc = .ok c' ∧ Sw c c' := by
  unfold cmpItem at h ⊢
  cases h1 : rec lc rc t.elementType with
  | ok ci =>
    simp only [h1, Res.ok.injEq] at h
    subst h
    obtain ⟨ci', hci', hsw⟩ := hrec lc rc _ _ (ListT.equals_inv ht).1 ci h1
    exact ⟨ci'.pre pe', by simp only [hci'], hsw.pre he⟩
  | err => simp [h1] at h
  | panic => simp [h1] at h

theorem Sw.single_mod {pe pe' : PE} (he : PE.equals pe pe' = true) :
    Sw { modified := [[pe]] } { modified := [[pe']] } := by
  intro k q
  cases k <;> simp [Cmp.get, Side.swap]
  cases q with
  | nil => simp [Path.equals]
  | cons x q => simp [Path.equals, PE.equals_congr_left he x]

theorem Sw.single_rem {pe pe' : PE} (he : PE.equals pe pe' = true) :
    Sw { removed := [[pe]] } { added := [[pe']] } := by
  intro k q
  cases k <;> simp [Cmp.get, Side.swap]
  cases q with
  | nil => simp [Path.equals]
  | cons x q => simp [Path.equals, PE.equals_congr_left he x]

theorem Sw.single_add {pe pe' : PE} (he : PE.equals pe pe' = true) :
    Sw { added := [[pe]] } { removed := [[pe']] } := by
  intro k q
  cases k <;> simp [Cmp.get, Side.swap]
  cases q with
  | nil => simp [Path.equals]
  | cons x q => simp [Path.equals, PE.equals_congr_left he x]

theorem listItemRes_swap {rec rec' : CmpRec} (hrec : SwapRec rec rec') {t t' : ListT} (ht : ListT.equals t t' = true)
    {lv lv' rv rv' : List (PE × List Value)} (hlv : GroupEqv lv lv') (hrv : GroupEqv rv rv')
    {pe pe' : PE} (he : PE.equals pe pe' = true) (c : Cmp)
    (h : listItemRes rec t lv rv pe = .ok c) : ∃ c', listItemRes rec' t' rv' lv' pe' = .ok c' ∧ Sw c c' := by
  unfold listItemRes at h ⊢
  rw [← hlv pe', ← hrv pe', ← pemGet_congr he, ← pemGet_congr he]
  simp only [] at h ⊢
  generalize (pemGet pe lv).getD [] = L at h ⊢
  generalize (pemGet pe rv).getD [] = R at h ⊢
  by_cases hL : L.length ≤ 1
  · by_cases hR : R.length ≤ 1
    · simp only [hL, hR, decide_true, Bool.and_self, if_true] at h ⊢
      exact cmpItem_swap hrec ht he _ _ c h
    · have hR2 : R.length ≥ 2 := by omega
      have hL2 : ¬ L.length ≥ 2 := by omega
      simp only [hL, hR, hR2, hL2, decide_true, decide_false, Bool.and_false, Bool.false_and, Bool.and_true,
        Bool.false_eq_true, if_false, if_true] at h ⊢
      by_cases hLe : L.isEmpty = true
      · simp only [hLe, if_true] at h ⊢
        cases h
        refine ⟨_, rfl, ?_⟩
        exact Sw.empty.append (Sw.single_add he)
      · simp only [hLe, if_false, Bool.false_eq_true] at h ⊢
        cases h1 : cmpItem rec t pe L.head? none with
        | ok ci =>
          simp only [h1, Res.ok.injEq] at h
          subst h
          obtain ⟨ci', hci', hsw⟩ := cmpItem_swap hrec ht he _ _ ci h1
          simp only [hci']
          exact ⟨_, rfl, hsw.append (Sw.single_add he)⟩
        | err => simp [h1] at h
        | panic => simp [h1] at h
  · have hL2 : L.length ≥ 2 := by omega
    by_cases hR : R.length ≤ 1
    · have hR2 : ¬ R.length ≥ 2 := by omega
      simp only [hL, hR, hR2, hL2, decide_true, decide_false, Bool.and_false, Bool.false_and, Bool.and_true,
        Bool.false_eq_true, if_false, if_true] at h ⊢
      by_cases hRe : R.isEmpty = true
      · simp only [hRe, if_true] at h ⊢
        cases h
        refine ⟨_, rfl, ?_⟩
        exact Sw.empty.append (Sw.single_rem he)
      · simp only [hRe, if_false, Bool.false_eq_true] at h ⊢
        cases h1 : cmpItem rec t pe none R.head? with
        | ok ci =>
          simp only [h1, Res.ok.injEq] at h
          subst h
          obtain ⟨ci', hci', hsw⟩ := cmpItem_swap hrec ht he _ _ ci h1
          simp only [hci']
          exact ⟨_, rfl, hsw.append (Sw.single_rem he)⟩
        | err => simp [h1] at h
        | panic => simp [h1] at h
    · have hR2 : R.length ≥ 2 := by omega
      simp only [hL, hR, hR2, hL2, decide_true, decide_false, Bool.and_false, Bool.false_and, Bool.and_true,
        Bool.false_eq_true, if_false, if_true, Bool.and_self] at h ⊢
      rw [listEqualValues_symm R L]
      split at h
      · cases h
        simp only [*, if_true]
        exact ⟨_, rfl, Sw.single_mod he⟩
      · cases h
        simp only [*, if_false]
        exact ⟨_, rfl, Sw.empty⟩

theorem mapItemRes_swap {rec rec' : CmpRec} (hrec : SwapRec rec rec') {t t' : MapT} (ht : MapT.equals t t' = true)
    (lf rf : List (String × Value)) (k : String) (c : Cmp)
    (h : mapItemRes rec t lf rf k = .ok c) : ∃ c', mapItemRes rec' t' rf lf k = .ok c' ∧ Sw c c' := by
  unfold mapItemRes at h ⊢
  cases h1 : rec (lookupField k lf) (lookupField k rf) (fieldType t k) with
  | ok ci =>
    simp only [h1, Res.ok.injEq] at h
    subst h
    obtain ⟨ci', hci', hsw⟩ := hrec _ _ _ _ (fieldType_congr ht k) ci h1
    exact ⟨ci'.pre (.field k), by simp only [hci'], hsw.pre (PE.equals_refl _)⟩
  | err => simp [h1] at h
  | panic => simp [h1] at h

theorem cmpHandle_list_eq (s : Schema) (rec : CmpRec) (l r : Option Value) (atom : Atom) (t : ListT)
    (hk : atomKind atom = .list t) :
    cmpHandle s rec l r atom =
      if t.rel == "atomic" || (emptyOrAbsent (asList l) && emptyOrAbsent (asList r)) then .ok (leafCmp l r, true)
      else
        match groupItems s t ((asList l).getD []) [] [] with
        | .err => .err
        | .panic => .panic
        | .ok (lv, lorder) =>
          match groupItems s t ((asList r).getD []) [] [] with
          | .err => .err
          | .panic => .panic
          | .ok (rv, rorder) =>
            (match (lorder ++ rorder.filter (fun pe => (pemGet pe lv).isNone)).foldl
                (resFold (listItemRes rec t lv rv)) (.ok {}) with
             | .ok c => .ok (c, false)
             | .err => .err
             | .panic => .panic) := by
  unfold cmpHandle
  rw [hk]
  simp only []
  have : ∀ lv rv, cmpListStep rec t lv rv = resFold (listItemRes rec t lv rv) :=
    fun lv rv => funext fun acc => funext fun pe => cmpListStep_eq rec t lv rv acc pe
  simp only [this]
  rfl

theorem cmpHandle_map_eq (s : Schema) (rec : CmpRec) (l r : Option Value) (atom : Atom) (t : MapT)
    (hk : atomKind atom = .map t) :
    cmpHandle s rec l r atom =
      if t.rel == "atomic" || (emptyOrAbsent (asMap l) && emptyOrAbsent (asMap r)) then .ok (leafCmp l r, true)
      else
        (match (zipKeys ((asMap l).getD []) ((asMap r).getD [])).foldl
            (resFold (mapItemRes rec t ((asMap l).getD []) ((asMap r).getD []))) (.ok {}) with
         | .ok c => .ok (c, false)
         | .err => .err
         | .panic => .panic) := by
  unfold cmpHandle
  rw [hk]
  simp only []
  have : ∀ lf rf, cmpMapStep rec t lf rf = resFold (mapItemRes rec t lf rf) :=
    fun lf rf => funext fun acc => funext fun k => cmpMapStep_eq rec t lf rf acc k
  simp only [this]
  rfl

theorem cmpHandle_scalar_eq (s : Schema) (rec : CmpRec) (l r : Option Value) (atom : Atom) (t : String)
    (hk : atomKind atom = .scalar t) :
    cmpHandle s rec l r atom =
      if !validateScalar t l && !validateScalar t r then .err else .ok (leafCmp l r, true) := by
  unfold cmpHandle
  rw [hk]

theorem cmpHandle_invalid_eq (s : Schema) (rec : CmpRec) (l r : Option Value) (atom : Atom)
    (hk : atomKind atom = .invalid) : cmpHandle s rec l r atom = .err := by
  unfold cmpHandle
  rw [hk]

/-- the elements visited by the list loop, from either side -/
theorem allPEs_cover {lv lv' rv rv' : List (PE × List Value)} {lo lo' ro ro' : List PE}
    (hlv : GroupEqv lv lv') (hrv : GroupEqv rv rv')
    (hl1 : ∀ q ∈ lo, (pemGet q lv).isSome = true) (hr1 : ∀ q ∈ ro, (pemGet q rv).isSome = true)
    (hl2 : ∀ q, (pemGet q lv').isSome = true → ∃ q' ∈ lo', PE.equals q' q = true)
    (hr2 : ∀ q, (pemGet q rv').isSome = true → ∃ q' ∈ ro', PE.equals q' q = true) :
    ∀ x ∈ lo ++ ro.filter (fun pe => (pemGet pe lv).isNone),
      ∃ y ∈ ro' ++ lo'.filter (fun pe => (pemGet pe rv').isNone), PE.equals x y = true := by
  intro x hx
  have hx' : (pemGet x lv).isSome = true ∨ (pemGet x rv).isSome = true := by
    rcases List.mem_append.1 hx with h | h
    · exact Or.inl (hl1 x h)
    · exact Or.inr (hr1 x (List.mem_filter.1 h).1)
  cases hr : (pemGet x rv').isSome with
  | true =>
    obtain ⟨y, hy, he⟩ := hr2 x hr
    exact ⟨y, List.mem_append_left _ hy, PE.equals_symm_of he⟩
  | false =>
    have hlx : (pemGet x lv').isSome = true := by
      rcases hx' with h | h
      · rw [← hlv x]; exact h
      · rw [hrv x, hr] at h; cases h
    obtain ⟨y, hy, he⟩ := hl2 x hlx
    refine ⟨y, List.mem_append_right _ (List.mem_filter.2 ⟨hy, ?_⟩), PE.equals_symm_of he⟩
    rw [pemGet_congr he]
    simpa using hr

theorem emptyOrAbsent_getD_nil {α : Type} (o : Option (List α)) (h : emptyOrAbsent o = true) : o.getD [] = [] := by
  cases o with
  | none => rfl
  | some l => simpa [emptyOrAbsent] using h

theorem cmpHandle_swap (s : Schema) {rec rec' : CmpRec} (hrec : SwapRec rec rec') (l r : Option Value)
    (atom atom' : Atom) (hk : KindRel (atomKind atom) (atomKind atom')) (hsome : l.isSome = true ∨ r.isSome = true)
    (c : Cmp) (leaf : Bool) (h : cmpHandle s rec l r atom = .ok (c, leaf)) :
    ∃ c', cmpHandle s rec' r l atom' = .ok (c', leaf) ∧ Sw c c' := by
  cases h1 : atomKind atom with
  | invalid => rw [cmpHandle_invalid_eq s rec l r atom h1] at h; cases h
  | scalar t =>
    cases h2 : atomKind atom' with
    | scalar t' =>
      rw [h1, h2] at hk
      simp only [KindRel] at hk
      subst hk
      rw [cmpHandle_scalar_eq s rec l r atom t h1] at h
      rw [cmpHandle_scalar_eq s rec' r l atom' t h2, Bool.and_comm]
      split at h
      · cases h
      · next hc =>
        simp only [hc, if_false]
        cases h
        exact ⟨_, rfl, leafCmp_swap l r hsome⟩
    | _ => rw [h1, h2] at hk; exact hk.elim
  | list t =>
    cases h2 : atomKind atom' with
    | list t' =>
      rw [h1, h2] at hk
      simp only [KindRel] at hk
      obtain ⟨_, hrel, _⟩ := ListT.equals_inv hk
      rw [cmpHandle_list_eq s rec l r atom t h1] at h
      rw [cmpHandle_list_eq s rec' r l atom' t' h2, ← hrel, Bool.and_comm]
      split at h
      · next hc =>
        simp only [hc, if_true]
        cases h
        exact ⟨_, rfl, leafCmp_swap l r hsome⟩
      · next hc =>
        simp only [hc, if_false, Bool.false_eq_true]
        cases hgl : groupItems s t ((asList l).getD []) [] [] with
        | err => simp [hgl] at h
        | panic => simp [hgl] at h
        | ok pl =>
          obtain ⟨lv, lo⟩ := pl
          simp only [hgl] at h
          cases hgr : groupItems s t ((asList r).getD []) [] [] with
          | err => simp [hgr] at h
          | panic => simp [hgr] at h
          | ok pr =>
            obtain ⟨rv, ro⟩ := pr
            simp only [hgr] at h
            have hpe := fun c => listItemToPE_congr s hk c
            obtain ⟨lv', lo', hgl', hlv⟩ := groupItems_congr s t t' hpe _ [] [] [] [] lv lo (fun _ => rfl) hgl
            obtain ⟨rv', ro', hgr', hrv⟩ := groupItems_congr s t t' hpe _ [] [] [] [] rv ro (fun _ => rfl) hgr
            simp only [hgr', hgl']
            obtain ⟨_, _, _, hl1, hl2⟩ := groupItems_spec s t _ _ _ _ _ hgl
            obtain ⟨_, _, _, hr1, hr2⟩ := groupItems_spec s t _ _ _ _ _ hgr
            obtain ⟨_, _, _, hl1', hl2'⟩ := groupItems_spec s t' _ _ _ _ _ hgl'
            obtain ⟨_, _, _, hr1', hr2'⟩ := groupItems_spec s t' _ _ _ _ _ hgr'
            have e1 := hl1 (by intro q hq; cases hq)
            have e2 := hl2 (by intro q hq; simp [pemGet] at hq)
            have e3 := hr1 (by intro q hq; cases hq)
            have e4 := hr2 (by intro q hq; simp [pemGet] at hq)
            have e1' := hl1' (by intro q hq; cases hq)
            have e2' := hl2' (by intro q hq; simp [pemGet] at hq)
            have e3' := hr1' (by intro q hq; cases hq)
            have e4' := hr2' (by intro q hq; simp [pemGet] at hq)
            cases hf : (lo ++ ro.filter (fun pe => (pemGet pe lv).isNone)).foldl
                (resFold (listItemRes rec t lv rv)) (.ok {}) with
            | err => simp [hf] at h
            | panic => simp [hf] at h
            | ok c0 =>
              simp only [hf, Res.ok.injEq, Prod.mk.injEq] at h
              obtain ⟨rfl, rfl⟩ := h
              obtain ⟨c', hc', hsw⟩ := fold_swap (fun x y => PE.equals x y = true)
                (listItemRes rec t lv rv) (listItemRes rec' t' rv' lv') _
                (ro' ++ lo'.filter (fun pe => (pemGet pe rv').isNone))
                (fun x y hxy c hc => listItemRes_swap hrec hk hlv hrv hxy c hc)
                (allPEs_cover hlv hrv e1 e3 e2' e4')
                (by
                  intro y hy
                  obtain ⟨x, hx, he⟩ := allPEs_cover (fun q => (hrv q).symm) (fun q => (hlv q).symm) e3' e1' e4 e2 y hy
                  exact ⟨x, hx, PE.equals_symm_of he⟩)
                c0 hf
              simp only [hc']
              exact ⟨c', rfl, hsw⟩
    | _ => rw [h1, h2] at hk; exact hk.elim
  | map t =>
    cases h2 : atomKind atom' with
    | map t' =>
      rw [h1, h2] at hk
      simp only [KindRel] at hk
      obtain ⟨_, hrel, _⟩ := MapT.equals_inv hk
      rw [cmpHandle_map_eq s rec l r atom t h1] at h
      rw [cmpHandle_map_eq s rec' r l atom' t' h2, ← hrel, Bool.and_comm]
      split at h
      · next hc =>
        simp only [hc, if_true]
        cases h
        exact ⟨_, rfl, leafCmp_swap l r hsome⟩
      · next hc =>
        simp only [hc, if_false, Bool.false_eq_true]
        cases hf : (zipKeys ((asMap l).getD []) ((asMap r).getD [])).foldl
            (resFold (mapItemRes rec t ((asMap l).getD []) ((asMap r).getD []))) (.ok {}) with
        | err => simp [hf] at h
        | panic => simp [hf] at h
        | ok c0 =>
          simp only [hf, Res.ok.injEq, Prod.mk.injEq] at h
          obtain ⟨rfl, rfl⟩ := h
          obtain ⟨c', hc', hsw⟩ := fold_swap (fun (x y : String) => x = y)
            (mapItemRes rec t ((asMap l).getD []) ((asMap r).getD []))
            (mapItemRes rec' t' ((asMap r).getD []) ((asMap l).getD [])) _
            (zipKeys ((asMap r).getD []) ((asMap l).getD []))
            (fun x y hxy c hc => by subst hxy; exact mapItemRes_swap hrec hk _ _ x c hc)
            (fun x hx => ⟨x, by rw [mem_zipKeys_iff] at hx ⊢; exact hx.symm, rfl⟩)
            (fun x hx => ⟨x, by rw [mem_zipKeys_iff] at hx ⊢; exact hx.symm, rfl⟩)
            c0 hf
          simp only [hc']
          exact ⟨c', rfl, hsw⟩
    | _ => rw [h1, h2] at hk; exact hk.elim

theorem Sw.added_nil : Sw { added := [[]] } { removed := [[]] } := by
  intro k; cases k <;> exact PEqv.refl _
theorem Sw.removed_nil : Sw { removed := [[]] } { added := [[]] } := by
  intro k; cases k <;> exact PEqv.refl _

/-- the comparison walker commutes with swapping the operands -/
theorem cmpNode_swap (s : Schema) : ∀ fuel : Nat, SwapRec (cmpNode s fuel) (cmpNode s fuel) := by
  intro fuel
  induction fuel with
  | zero => intro l r tr tr' _ c h; cases h
  | succ n ih =>
    intro l r tr tr' htr c h
    rw [cmpNode_succ] at h ⊢
    obtain ⟨hnamed, hres⟩ := resolve_congr s htr
    rw [Bool.and_comm]
    split at h
    · cases h
    · next hnn =>
      simp only [hnn, if_false, Bool.false_eq_true]
      have hsome : l.isSome = true ∨ r.isSome = true := by
        cases l <;> cases r <;> simp_all
      cases h1 : s.resolve tr with
      | none =>
        simp only [h1] at h
        split at h <;> cases h
      | some a =>
        cases h2 : s.resolve tr' with
        | none => rw [h1, h2] at hres; exact hres.elim
        | some a' =>
          rw [h1, h2] at hres
          simp only [OptRel] at hres
          simp only [h1] at h
          simp only []
          have hal := deduceAtom_congr hres l
          have har := deduceAtom_congr hres r
          have hH : ∀ (x x' : Atom), Atom.equals x x' = true → ∀ c leaf,
              cmpHandle s (cmpNode s n) l r x = .ok (c, leaf) →
              ∃ c', cmpHandle s (cmpNode s n) r l x' = .ok (c', leaf) ∧ Sw c c' :=
            fun x x' hx c leaf hc => cmpHandle_swap s ih l r x x' (atomKind_congr hx) hsome c leaf hc
          unfold cmpHandled cmpFinish at h ⊢
          simp only [] at h ⊢
          cases l with
          | none =>
            cases r with
            | none => simp at hsome
            | some rv =>
              simp only [Option.isNone_none, Option.isNone_some, Bool.true_or, if_true, if_false,
                Bool.false_eq_true, Bool.not_true, Bool.not_false] at h ⊢
              cases h3 : cmpHandle s (cmpNode s n) none (some rv) (deduceAtom a (some rv)) with
              | err => simp [h3] at h
              | panic => simp [h3] at h
              | ok p =>
                obtain ⟨c0, leaf⟩ := p
                obtain ⟨c0', hc0', hsw⟩ := hH _ _ har c0 leaf h3
                simp only [h3] at h
                simp only [hc0']
                cases leaf with
                | true =>
                  simp only [Bool.not_true, Bool.false_eq_true, if_false, Res.ok.injEq] at h ⊢
                  subst h
                  exact ⟨_, rfl, hsw⟩
                | false =>
                  simp only [Bool.not_false, if_true, Res.ok.injEq] at h ⊢
                  subst h
                  exact ⟨_, rfl, hsw.append Sw.added_nil⟩
          | some lv =>
            cases r with
            | none =>
              simp only [Option.isNone_none, Option.isNone_some, Bool.true_or, if_true, if_false,
                Bool.false_eq_true, Bool.not_true, Bool.not_false] at h ⊢
              cases h3 : cmpHandle s (cmpNode s n) (some lv) none (deduceAtom a (some lv)) with
              | err => simp [h3] at h
              | panic => simp [h3] at h
              | ok p =>
                obtain ⟨c0, leaf⟩ := p
                obtain ⟨c0', hc0', hsw⟩ := hH _ _ hal c0 leaf h3
                simp only [h3] at h
                simp only [hc0']
                cases leaf with
                | true =>
                  simp only [Bool.not_true, Bool.false_eq_true, if_false, Res.ok.injEq] at h ⊢
                  subst h
                  exact ⟨_, rfl, hsw⟩
                | false =>
                  simp only [Bool.not_false, if_true, Res.ok.injEq] at h ⊢
                  subst h
                  exact ⟨_, rfl, hsw.append Sw.removed_nil⟩
            | some rv =>
              simp only [Option.isNone_some, Bool.false_or, if_false, Bool.false_eq_true] at h ⊢
              have heq : Atom.equals (deduceAtom a' (some rv)) (deduceAtom a' (some lv)) =
                  Atom.equals (deduceAtom a (some lv)) (deduceAtom a (some rv)) := by
                rw [Bool.eq_iff_iff]
                constructor
                · intro h'
                  exact Atom.equals_trans _ _ _ hal (Atom.equals_trans _ _ _ (by rw [Atom.equals_symm]; exact h')
                    (by rw [Atom.equals_symm]; exact har))
                · intro h'
                  rw [Atom.equals_symm]
                  exact Atom.equals_trans _ _ _ (by rw [Atom.equals_symm]; exact hal) (Atom.equals_trans _ _ _ h' har)
              rw [heq]
              cases hE : Atom.equals (deduceAtom a (some lv)) (deduceAtom a (some rv)) with
              | true =>
                simp only [hE, if_true] at h ⊢
                cases h3 : cmpHandle s (cmpNode s n) (some lv) (some rv) (deduceAtom a (some rv)) with
                | err => simp [h3] at h
                | panic => simp [h3] at h
                | ok p =>
                  obtain ⟨c0, leaf⟩ := p
                  obtain ⟨c0', hc0', hsw⟩ := hH _ (deduceAtom a' (some lv))
                    (Atom.equals_trans _ _ _ (by rw [Atom.equals_symm]; exact hE) hal) c0 leaf h3
                  simp only [h3] at h
                  simp only [hc0']
                  have : c = c0 := by cases leaf <;> simp at h <;> exact h.symm
                  subst this
                  refine ⟨c0', ?_, hsw⟩
                  cases leaf <;> simp
              | false =>
                simp only [hE, if_false, Bool.false_eq_true] at h ⊢
                cases h3 : cmpHandle s (cmpNode s n) (some lv) (some rv) (deduceAtom a (some lv)) with
                | err => simp [h3] at h
                | panic => simp [h3] at h
                | ok p =>
                  obtain ⟨c1, leaf1⟩ := p
                  simp only [h3] at h
                  cases h4 : cmpHandle s (cmpNode s n) (some lv) (some rv) (deduceAtom a (some rv)) with
                  | err => simp [h4] at h
                  | panic => simp [h4] at h
                  | ok p2 =>
                    obtain ⟨c2, leaf2⟩ := p2
                    simp only [h4] at h
                    obtain ⟨c1', hc1', hsw1⟩ := hH _ _ hal c1 leaf1 h3
                    obtain ⟨c2', hc2', hsw2⟩ := hH _ _ har c2 leaf2 h4
                    simp only [hc1', hc2']
                    have : c = c1 ++ c2 := by cases leaf2 <;> simp at h <;> exact h.symm
                    subst this
                    refine ⟨c2' ++ c1', ?_, hsw1.append_swapped hsw2⟩
                    cases leaf1 <;> simp

end CmpX
end SMD
