/- helper lemmas for SMD/Properties/C04Exact.lean and C05Helpers.lean -/
import SMD.Proofs.OwnershipShape
import SMD.Proofs.UpdaterShape
import SMD.Proofs.ManagedMap
import SMD.Proofs.SetFromValue
import SMD.Model.Helpers
import SMD.Properties.C04
import SMD.Properties.C05
import SMD.Properties.C15
namespace SMD

/-! ### `ManagedFields.Equals` / `Difference` -/

/-- pigeonhole: a repeat-free list contained in another is not longer -/
theorem length_le_of_nodup_subset : ∀ (a b : List String), a.Nodup → (∀ x ∈ a, x ∈ b) → a.length ≤ b.length
  | [], _, _, _ => by simp
  | x :: a, b, hn, hs => by
    simp only [List.nodup_cons] at hn
    have hx : x ∈ b := hs x (by simp)
    have ih := length_le_of_nodup_subset a (b.erase x) hn.2 (fun y hy =>
      (List.mem_erase_of_ne (fun e => hn.1 (by subst e; exact hy))).2 (hs y (by simp [hy])))
    rw [List.length_erase_of_mem hx] at ih
    have : 0 < b.length := List.length_pos_of_mem hx
    simp only [List.length_cons]
    omega

/-- two repeat-free lists of the same length, one contained in the other, have the same elements -/
theorem subset_of_nodup_length_eq {a b : List String} (ha : a.Nodup) (hs : ∀ x ∈ a, x ∈ b)
    (hl : a.length = b.length) : ∀ y ∈ b, y ∈ a := by
  intro y hy
  by_cases h : y ∈ a
  · exact h
  · have := length_le_of_nodup_subset a (b.erase y) ha (fun x hx =>
      (List.mem_erase_of_ne (fun e => h (by subst e; exact hx))).2 (hs x hx))
    rw [List.length_erase_of_mem hy] at this
    have : 0 < b.length := List.length_pos_of_mem hy
    omega

theorem managed_equals_iff (a b : Managed) : Managed.equals a b = true ↔
    a.length = b.length ∧ ∀ k l, (k, l) ∈ a → ∃ r, mfGet b k = some r ∧
      l.version = r.version ∧ l.applied = r.applied ∧ l.set.equals r.set = true := by
  simp only [Managed.equals, Bool.and_eq_true, beq_iff_eq, List.all_eq_true, Prod.forall]
  constructor
  · rintro ⟨hl, h⟩
    refine ⟨hl, fun k l hm => ?_⟩
    have := h k l hm
    split at this
    · rename_i r hr
      simp only [Bool.and_eq_true, beq_iff_eq] at this
      exact ⟨r, hr, this.1.1, this.1.2, this.2⟩
    · cases this
  · rintro ⟨hl, h⟩
    refine ⟨hl, fun k l hm => ?_⟩
    obtain ⟨r, hr, h1, h2, h3⟩ := h k l hm
    simp [hr, h1, h2, h3]

theorem set_equals_refl {s : SetTrie} (hw : s.wf = true) : s.equals s = true :=
  (SetTrie.equals_iff_same_members s s hw hw).2 (fun _ => rfl)

theorem set_equals_symm {s t : SetTrie} (hs : s.wf = true) (ht : t.wf = true) (h : s.equals t = true) :
    t.equals s = true :=
  (SetTrie.equals_iff_same_members t s ht hs).2
    (fun q => ((SetTrie.equals_iff_same_members s t hs ht).1 h q).symm)

theorem managed_equals_refl {m : Managed} (hn : (m.map (·.1)).Nodup) (hwf : ∀ x ∈ m, x.2.set.wf = true) :
    Managed.equals m m = true := by
  rw [managed_equals_iff]
  exact ⟨rfl, fun k l hm => ⟨l, mfGet_of_mem_nodup hn hm, rfl, rfl, set_equals_refl (hwf _ hm)⟩⟩

/-- every manager of the right map is a manager of the left one when the maps are equal -/
theorem managed_equals_keys {a b : Managed} (ha : (a.map (·.1)).Nodup) (h : Managed.equals a b = true) :
    ∀ k r, (k, r) ∈ b → ∃ l, (k, l) ∈ a := by
  obtain ⟨hl, h⟩ := (managed_equals_iff a b).1 h
  intro k r hm
  have := subset_of_nodup_length_eq (a := a.map (·.1)) (b := b.map (·.1)) ha
    (by
      intro x hx
      obtain ⟨⟨k', l⟩, hm', rfl⟩ := List.mem_map.1 hx
      obtain ⟨r', hr', _⟩ := h k' l hm'
      exact List.mem_map.2 ⟨(k', r'), mem_of_mfGet hr', rfl⟩)
    (by simp [hl]) k (List.mem_map.2 ⟨(k, r), hm, rfl⟩)
  obtain ⟨⟨k', l⟩, hm', rfl⟩ := List.mem_map.1 this
  exact ⟨l, hm'⟩

theorem managed_equals_symm_of {a b : Managed} (ha : (a.map (·.1)).Nodup) (hb : (b.map (·.1)).Nodup)
    (hwa : ∀ x ∈ a, x.2.set.wf = true) (hwb : ∀ x ∈ b, x.2.set.wf = true)
    (h : Managed.equals a b = true) : Managed.equals b a = true := by
  have hk := managed_equals_keys ha h
  obtain ⟨hl, h⟩ := (managed_equals_iff a b).1 h
  rw [managed_equals_iff]
  refine ⟨hl.symm, fun k r hm => ?_⟩
  obtain ⟨l, hml⟩ := hk k r hm
  obtain ⟨r', hr', h1, h2, h3⟩ := h k l hml
  have : r' = r := by
    have := mfGet_of_mem_nodup hb hm
    rw [hr'] at this
    exact Option.some.inj this
  subst this
  exact ⟨l, mfGet_of_mem_nodup ha hml, h1.symm, h2.symm, set_equals_symm (hwa _ hml) (hwb _ hm) h3⟩

theorem foldl_const {α β : Type} (f : β → α → β) (init : β) :
    ∀ (l : List α), (∀ x ∈ l, f init x = init) → l.foldl f init = init
  | [], _ => rfl
  | x :: l, h => by
    rw [List.foldl_cons, h x (by simp)]
    exact foldl_const f init l (fun y hy => h y (by simp [hy]))

/-- the symmetric difference of two equal sets is empty -/
theorem symdiff_isEmpty_of_equals {s t : SetTrie} (hs : s.wf = true) (ht : t.wf = true)
    (h : s.equals t = true) : ((s.diff t).union (t.diff s)).isEmpty = true := by
  have hm := (SetTrie.equals_iff_same_members s t hs ht).1 h
  have hw : ((s.diff t).union (t.diff s)).wf = true :=
    SetTrie.wf_union _ _ (SetTrie.wf_diff _ _ hs ht) (SetTrie.wf_diff _ _ ht hs)
  cases he : ((s.diff t).union (t.diff s)).isEmpty with
  | true => rfl
  | false =>
    obtain ⟨q, hq⟩ := SetTrie.exists_has_of_not_isEmpty _ hw he
    rw [SetTrie.has_union q _ _ (SetTrie.wf_diff _ _ hs ht) (SetTrie.wf_diff _ _ ht hs),
      SetTrie.has_diff q _ _ hs ht, SetTrie.has_diff q _ _ ht hs, hm q] at hq
    cases hh : SetTrie.has q t <;> simp [hh] at hq

theorem managed_difference_of_equals {a b : Managed} (ha : (a.map (·.1)).Nodup)
    (hwa : ∀ x ∈ a, x.2.set.wf = true) (hwb : ∀ x ∈ b, x.2.set.wf = true)
    (h : Managed.equals a b = true) : Managed.difference a b = [] := by
  have hk := managed_equals_keys ha h
  obtain ⟨hl, h⟩ := (managed_equals_iff a b).1 h
  unfold Managed.difference
  rw [foldl_const (l := a)]
  · apply foldl_const
    rintro ⟨k, r⟩ hm
    obtain ⟨l, hml⟩ := hk k r hm
    simp only [mfGet_of_mem_nodup ha hml]
  · rintro ⟨k, l⟩ hm
    obtain ⟨r, hr, h1, h2, h3⟩ := h k l hm
    simp only [hr, h1, bne_self_eq_false, Bool.false_eq_true, if_false,
      symdiff_isEmpty_of_equals (hwa _ hm) (hwb _ (mem_of_mfGet hr)) h3, if_true]

/-! ### the conflict list of `updateCore` with the identity converter and no ignore configuration -/

/-- the conflict records the manager loop produces when every version sees the comparison `cmp` -/
def conflictRecords (cmp : Comparison) (w : String) (l : List (String × VersionedSet)) :
    List (String × VersionedSet) :=
  l.filterMap fun x =>
    if x.1 == w then none
    else if !(x.2.set.inter (cmp.modified.union cmp.added)).isEmpty then
      some (x.1, ⟨x.2.set.inter (cmp.modified.union cmp.added), x.2.version, false⟩)
    else none

/-- the removed records of the manager loop -/
def removedRecords (cmp : Comparison) (w : String) (l : List (String × VersionedSet)) :
    List (String × VersionedSet) :=
  l.filterMap fun x =>
    if x.1 == w then none
    else if !cmp.removed.isEmpty then some (x.1, ⟨cmp.removed, x.2.version, false⟩) else none

theorem cacheGet_of_all {versions : List (String × Comparison)} {cmp c : Comparison} {v : String}
    (hv : ∀ x ∈ versions, x.2 = cmp) (h : cacheGet versions v = some c) : c = cmp := by
  simp only [cacheGet, Option.map_eq_some_iff] at h
  obtain ⟨x, hx, rfl⟩ := h
  exact hv x (List.mem_of_find?_eq_some hx)

/-- with the identity converter and no ignore configuration every manager's version sees the one
comparison of the two objects: the loop never fails, deletes no manager and lists the records in manager
order -/
theorem updateLoop_identity_eq (u : Updater) (sc : Schema) (o n : TV) (w : String) (cmp : Comparison)
    (hconv : u.converter = Converter.identity) (hig : ∀ v, u.ignore v = none)
    (hcmp : compareTV sc o n = .ok cmp) :
    ∀ (l : List (String × VersionedSet)) (ms : Managed) (versions : List (String × Comparison))
      (conflicts removed : List (String × VersionedSet)), (∀ x ∈ versions, x.2 = cmp) →
      updateLoop u sc o n w l ms versions conflicts removed =
        .ok (ms, conflicts.reverse ++ conflictRecords cmp w l, removed.reverse ++ removedRecords cmp w l) := by
  intro l
  induction l with
  | nil => intros; simp [updateLoop, conflictRecords, removedRecords]
  | cons x rest ih =>
    obtain ⟨manager, vs⟩ := x
    intro ms versions conflicts removed hv
    rw [updateLoop]
    by_cases hw : (manager == w) = true
    · simp only [hw, if_true]
      rw [ih _ _ _ _ hv]
      have hw' : manager = w := by simpa using hw
      simp [conflictRecords, removedRecords, hw']
    · simp only [hw, Bool.false_eq_true, if_false]
      have key : ∀ versions', (∀ x ∈ versions', x.2 = cmp) →
          updateLoop u sc o n w rest ms versions'
            (if (!(vs.set.inter (cmp.modified.union cmp.added)).isEmpty) = true then
              (manager, ⟨vs.set.inter (cmp.modified.union cmp.added), vs.version, false⟩) :: conflicts else conflicts)
            (if (!cmp.removed.isEmpty) = true then (manager, ⟨cmp.removed, vs.version, false⟩) :: removed else removed)
          = .ok (ms, conflicts.reverse ++ conflictRecords cmp w ((manager, vs) :: rest),
              removed.reverse ++ removedRecords cmp w ((manager, vs) :: rest)) := by
        intro versions' hv'
        rw [ih _ _ _ _ hv']
        simp only [conflictRecords, removedRecords, List.filterMap_cons, hw, Bool.false_eq_true, if_false]
        split <;> split <;> simp
      cases hc : cacheGet versions vs.version with
      | some c =>
        have := cacheGet_of_all hv hc
        subst this
        exact key versions hv
      | none =>
        simp only [hconv, Converter.identity, hcmp, hig, filterCmp]
        exact key _ (by
          intro x hx
          rcases List.mem_cons.1 hx with rfl | hx
          · rfl
          · exact hv x hx)

theorem updateCore_identity_unforced (u : Updater) (sc : Schema) (o n : TV) (ver : String) (ms : Managed) (w : String)
    (cmp : Comparison) (hconv : u.converter = Converter.identity) (hig : ∀ v, u.ignore v = none)
    (hcmp : compareTV sc o n = .ok cmp) :
    (conflictRecords cmp w ms ≠ [] →
      updateCore u sc o n ver ms w false = .conflict (conflictsOf (conflictRecords cmp w ms))) ∧
    (conflictRecords cmp w ms = [] → ∃ r, updateCore u sc o n ver ms w false = .ok r) := by
  unfold updateCore
  simp only [hcmp, hig, filterCmp]
  rw [updateLoop_identity_eq u sc o n w cmp hconv hig hcmp ms ms _ [] []
    (by intro x hx; simp only [List.mem_singleton] at hx; subst hx; rfl)]
  simp only [List.reverse_nil, List.nil_append, Bool.not_false, Bool.true_and]
  constructor
  · intro h
    have : (conflictRecords cmp w ms).isEmpty = false := by
      cases hh : conflictRecords cmp w ms
      · exact absurd hh h
      · rfl
    simp [this]
  · intro h
    simp [h]

theorem mem_conflictRecords {cmp : Comparison} {w : String} {l : List (String × VersionedSet)}
    {k : String} {vs' : VersionedSet} : (k, vs') ∈ conflictRecords cmp w l ↔
      ∃ vs, (k, vs) ∈ l ∧ k ≠ w ∧ (vs.set.inter (cmp.modified.union cmp.added)).isEmpty = false ∧
        vs' = ⟨vs.set.inter (cmp.modified.union cmp.added), vs.version, false⟩ := by
  simp only [conflictRecords, List.mem_filterMap]
  constructor
  · rintro ⟨⟨k0, vs⟩, hm, h⟩
    split at h
    · cases h
    · rename_i hne
      split at h
      · rename_i he
        simp only [Option.some.injEq, Prod.mk.injEq] at h
        obtain ⟨rfl, rfl⟩ := h
        exact ⟨vs, hm, by simpa using hne, by simpa using he, rfl⟩
      · cases h
  · rintro ⟨vs, hm, hne, he, rfl⟩
    refine ⟨(k, vs), hm, ?_⟩
    have : (k == w) = false := by simpa using hne
    simp [this, he]

/-- exactness of the conflict list of an unforced `updateCore` (identity converter, no ignore
configuration, managed fields in key order with well-formed sets) -/
theorem conflicts_exact_core (u : Updater) (sc : Schema) (oldObj newObj : TV) (ver : String) (managers : Managed)
    (mgr : String) (cmp : Comparison)
    (hconv : u.converter = Converter.identity) (hig : ∀ v, u.ignore v = none)
    (hsorted : managers.Pairwise (fun a b => a.1 < b.1)) (hwf : ∀ x ∈ managers, x.2.set.wf = true)
    (hcmp : compareTV sc oldObj newObj = .ok cmp) :
    (∀ c, updateCore u sc oldObj newObj ver managers mgr false = .conflict c →
      ∀ k p, (∃ q, (k, q) ∈ c ∧ Path.equals q p = true) ↔
        (k ≠ mgr ∧ ∃ vs, mfGet managers k = some vs ∧ vs.set.has p = true ∧
          (cmp.modified.has p = true ∨ cmp.added.has p = true))) ∧
    ((∃ c, updateCore u sc oldObj newObj ver managers mgr false = .conflict c) ↔
      ∃ k vs p, k ≠ mgr ∧ mfGet managers k = some vs ∧ vs.set.has p = true ∧
        (cmp.modified.has p = true ∨ cmp.added.has p = true)) := by
  obtain ⟨-, wm, wa⟩ := compareTV_wf hcmp
  have hn := sortedManaged_nodup hsorted
  have wu : (cmp.modified.union cmp.added).wf = true := SetTrie.wf_union _ _ wm wa
  -- membership in one record's conflict set
  have hhas : ∀ (vs : VersionedSet) (p : Path), vs.set.wf = true →
      ((vs.set.inter (cmp.modified.union cmp.added)).has p = true ↔
        vs.set.has p = true ∧ (cmp.modified.has p = true ∨ cmp.added.has p = true)) := by
    intro vs p hw
    rw [SetTrie.has_inter p _ _ hw wu, SetTrie.has_union p _ _ wm wa]
    simp
  obtain ⟨hne, hnil⟩ := updateCore_identity_unforced u sc oldObj newObj ver managers mgr cmp hconv hig hcmp
  -- the pairs of the expected list
  have hpairs : ∀ k p, (∃ q, (k, q) ∈ conflictsOf (conflictRecords cmp mgr managers) ∧ Path.equals q p = true) ↔
      (k ≠ mgr ∧ ∃ vs, mfGet managers k = some vs ∧ vs.set.has p = true ∧
        (cmp.modified.has p = true ∨ cmp.added.has p = true)) := by
    intro k p
    constructor
    · rintro ⟨q, hq, he⟩
      simp only [conflictsOf, List.mem_flatMap, List.mem_map, Prod.mk.injEq] at hq
      obtain ⟨⟨k', vs'⟩, hm, q', hq', rfl, rfl⟩ := hq
      obtain ⟨vs, hmem, hk, -, rfl⟩ := mem_conflictRecords.1 hm
      have hw := hwf _ hmem
      have : (vs.set.inter (cmp.modified.union cmp.added)).has p = true :=
        (SetTrie.has_iff_mem_paths p _ (SetTrie.wf_inter _ _ hw wu)).2 ⟨q', hq', he⟩
      exact ⟨hk, vs, mfGet_of_mem_nodup hn hmem, (hhas vs p hw).1 this⟩
    · rintro ⟨hk, vs, hg, hp⟩
      have hmem := mem_of_mfGet hg
      have hw := hwf _ hmem
      have hin := (hhas vs p hw).2 hp
      obtain ⟨q, hq, he⟩ := (SetTrie.has_iff_mem_paths p _ (SetTrie.wf_inter _ _ hw wu)).1 hin
      refine ⟨q, ?_, he⟩
      simp only [conflictsOf, List.mem_flatMap, List.mem_map, Prod.mk.injEq]
      exact ⟨(k, ⟨vs.set.inter (cmp.modified.union cmp.added), vs.version, false⟩),
        mem_conflictRecords.2 ⟨vs, hmem, hk, SetTrie.not_isEmpty_of_has hin, rfl⟩, q, hq, rfl, rfl⟩
  constructor
  · intro c hc
    by_cases h : conflictRecords cmp mgr managers = []
    · obtain ⟨r, hr⟩ := hnil h
      rw [hr] at hc; cases hc
    · rw [hne h] at hc
      simp only [Outcome.conflict.injEq] at hc
      subst hc
      exact hpairs
  · constructor
    · rintro ⟨c, hc⟩
      by_cases h : conflictRecords cmp mgr managers = []
      · obtain ⟨r, hr⟩ := hnil h
        rw [hr] at hc; cases hc
      · cases hl : conflictRecords cmp mgr managers with
        | nil => exact absurd hl h
        | cons x rest =>
          obtain ⟨k, vs'⟩ := x
          have hm : (k, vs') ∈ conflictRecords cmp mgr managers := by simp [hl]
          obtain ⟨vs, hmem, hk, he, rfl⟩ := mem_conflictRecords.1 hm
          have hw := hwf _ hmem
          obtain ⟨p, hp⟩ := SetTrie.exists_has_of_not_isEmpty _ (SetTrie.wf_inter _ _ hw wu) he
          exact ⟨k, vs, p, hk, mfGet_of_mem_nodup hn hmem, (hhas vs p hw).1 hp⟩
    · rintro ⟨k, vs, p, hk, hg, hp⟩
      have hmem := mem_of_mfGet hg
      have hw := hwf _ hmem
      have hin := (hhas vs p hw).2 hp
      have hm : (k, (⟨vs.set.inter (cmp.modified.union cmp.added), vs.version, false⟩ : VersionedSet)) ∈
          conflictRecords cmp mgr managers :=
        mem_conflictRecords.2 ⟨vs, hmem, hk, SetTrie.not_isEmpty_of_has hin, rfl⟩
      exact ⟨_, hne (List.ne_nil_of_mem hm)⟩

end SMD
