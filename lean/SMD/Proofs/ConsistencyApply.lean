/- helper lemmas for SMD/Properties/C06Histories.lean -/
import SMD.Proofs.CompareFactsBridge
import SMD.Proofs.ApplyFrame
import SMD.Proofs.ApplyPrune
import SMD.Properties.C06Nodes
import SMD.Properties.C03Prune
import SMD.Proofs.NodePresenceCongr
import SMD.Proofs.ConsistencyApplyWitness
set_option linter.unusedVariables false
namespace SMD
open SetTrie

/-! ### what a successful `apply` did, whatever it returns -/

/-- decomposition of a successful `apply`: reconcile, merge, field set of the configuration, prune, and
the manager loop on the pruned object; the object returned is the pruned one, or nothing when it is
`Value.equals` to the live object -/
theorem apply_full_inv {u : Updater} {sc : Schema} {live cfg : TV} {ver : String} {m : Managed} {mgr : String}
    {force : Bool} {obj : Option TV} {mf : Managed}
    (h : apply u sc live cfg ver m mgr force = .ok (obj, mf)) :
    ∃ m0 merged fs newObj cmp, reconcileManaged u sc live m = .ok m0 ∧ mergeTV sc live cfg = .ok merged ∧
      toFieldSet sc cfg = .ok fs ∧
      prune u sc merged (mfSet m0 mgr ⟨applyIgnore u ver fs, ver, true⟩) mgr (mfGet m0 mgr) = .ok newObj ∧
      updateCore u sc live newObj ver (mfSet m0 mgr ⟨applyIgnore u ver fs, ver, true⟩) mgr force = .ok (mf, cmp) ∧
      (obj = some newObj ∨ (obj = none ∧ Value.equals live.value newObj.value = true)) := by
  rw [apply_eq] at h
  unfold applyPre at h
  cases hrec : reconcileManaged u sc live m with
  | ok m0 =>
    simp only [hrec] at h
    cases hm : mergeTV sc live cfg with
    | ok merged =>
      cases hfs : toFieldSet sc cfg with
      | ok fs =>
        simp only [hm, hfs, liftRes] at h
        cases hp : prune u sc merged (mfSet m0 mgr ⟨applyIgnore u ver fs, ver, true⟩) mgr (mfGet m0 mgr) with
        | ok newObj =>
          simp only [hp] at h
          obtain ⟨ms, cmp, hcore, hr⟩ := applyFinish_eq_ok h
          have h1 := congrArg Prod.fst hr
          have h2 := congrArg Prod.snd hr
          simp only at h1 h2
          subst h2
          refine ⟨m0, merged, fs, newObj, cmp, rfl, rfl, rfl, hp, hcore, ?_⟩
          by_cases hc : (!u.returnInputOnNoop && Value.equals live.value newObj.value) = true
          · rw [if_pos hc] at h1
            right
            simp only [Bool.and_eq_true] at hc
            exact ⟨h1, hc.2⟩
          · rw [if_neg hc] at h1
            left; exact h1
        | conflict c => simp [hp] at h
        | err => simp [hp] at h
        | panic => simp [hp] at h
      | err => simp [hm, hfs, liftRes] at h
      | panic => simp [hm, hfs, liftRes] at h
    | err => simp [hm, liftRes] at h
    | panic => simp [hm, liftRes] at h
  | conflict c => simp [hrec] at h
  | err => simp [hrec] at h
  | panic => simp [hrec] at h

theorem mergeTV_type {sc : Schema} {live cfg merged : TV} (h : mergeTV sc live cfg = .ok merged) :
    merged.type = live.type := by
  obtain ⟨out, _, rfl⟩ := mergeTV_inv h
  rfl

/-- identity converter (any versions): pruning keeps the type -/
theorem prune_identity_type (u : Updater) (sc : Schema) (merged out : TV) (managers : Managed) (mgr : String)
    (lastSet : Option VersionedSet) (hconv : u.converter = Converter.identity)
    (hprune : prune u sc merged managers mgr lastSet = .ok out) : out.type = merged.type := by
  cases lastSet with
  | none =>
    rw [prune_none] at hprune
    cases hprune; rfl
  | some last =>
    unfold prune at hprune
    simp only at hprune
    split at hprune
    · cases hprune; rfl
    · have hc : ∀ (x : TV) (w : String), u.converter.convert x w = .ok x := by
        intro x w; rw [hconv]; rfl
      rw [hc] at hprune
      simp only at hprune
      split at hprune
      · rename_i pr hown
        split at hprune
        · rename_i out' hdang
          rw [hc] at hprune
          simp only at hprune
          have hout : out' = out := Outcome.ok.inj hprune
          subst hout
          obtain ⟨ms, ps, _, _, hout⟩ := addBackDangling_identity_ok _ _ _ _ _ _ hconv hdang
          rw [hout]
          rfl
        · rename_i e hne
          exact absurd hprune (hne out)
      · rename_i e hne
        exact absurd hprune (hne out)

/-! ### one Apply keeps "every owned path is present" -/

/-- the records after an Apply: the applier's is part of the configuration's field set, the others' are
parts of what they had before (reconciled) -/
theorem apply_records {u : Updater} {sc : Schema} {ver : String} {m0 : Managed} {mgr : String} {fs : SetTrie}
    {o n : TV} {force : Bool} {mf : Managed} {cmp : Comparison}
    (hconv : u.converter = Converter.identity) (hig : ∀ v, u.ignore v = none)
    (hs0 : SortedManaged m0) (hw0 : ∀ x ∈ m0, x.2.set.wf = true) (hfsw : fs.wf = true)
    (hcore : updateCore u sc o n ver (mfSet m0 mgr ⟨fs, ver, true⟩) mgr force = .ok (mf, cmp)) :
    ∀ x ∈ mf, (x.1 = mgr → ∀ p, x.2.set.has p = true → fs.has p = true) ∧
      (x.1 ≠ mgr → ∃ y ∈ m0, x.1 = y.1 ∧ ∀ p, x.2.set.has p = true → y.2.set.has p = true) := by
  have hs1 : SortedManaged (mfSet m0 mgr ⟨fs, ver, true⟩) := sortedManaged_mfSet _ _ hs0
  have hw1 : ∀ x ∈ mfSet m0 mgr ⟨fs, ver, true⟩, x.2.set.wf = true := by
    intro x hx
    rcases mem_mfSet hx with rfl | hx
    · exact hfsw
    · exact hw0 x hx
  obtain ⟨_, hout⟩ := updateCore_removed hconv hig hs1 hw1 hcore
  intro x hx
  obtain ⟨_, ⟨y, hy, hxy, hsub⟩, _⟩ := hout x hx
  constructor
  · intro hk
    have hmem := mem_entriesOf hy (hxy.symm.trans hk)
    rw [entriesOf_mfSet_self_sorted _ _ hs0, List.mem_singleton] at hmem
    subst hmem
    exact hsub
  · intro hk
    rcases mem_mfSet hy with rfl | hy
    · exact absurd hxy hk
    · exact ⟨y, hy, hxy, hsub⟩

/-- an Apply that returns an object `o`: every owned path is present in `o`, provided `o` is valid and the
members of the configuration's field set are present in it -/
theorem apply_some_ownedIn {u : Updater} {sc : Schema} {tr : TypeRef} {live cfg : Value} {ver : String}
    {m : Managed} {mgr : String} {force : Bool} {o : TV} {mf : Managed} {P : Presence}
    (hP : PrefixClosed P) (hc : CompareFacts sc P)
    (hconv : u.converter = Converter.identity) (hig : ∀ v, u.ignore v = none)
    (hs : SortedManaged m) (hw : ∀ x ∈ m, x.2.set.wf = true)
    (hlive : validateV sc false tr live = .ok ())
    (hobjv : validateV sc false tr o.value = .ok ())
    (hcfg : ∀ fs, toFieldSet sc ⟨cfg, tr⟩ = .ok fs → ∀ p, fs.has p = true → P tr o.value p)
    (hinv : OwnedIn P tr live m)
    (hap : apply u sc ⟨live, tr⟩ ⟨cfg, tr⟩ ver m mgr force = .ok (some o, mf)) :
    OwnedIn P tr o.value mf := by
  obtain ⟨m0, merged, fs, newObj, cmp, hrec, hmerge, hfs, hprune, hcore, hobj⟩ := apply_full_inv hap
  have hon : o = newObj := by
    rcases hobj with h | ⟨h, _⟩
    · exact Option.some.inj h
    · cases h
  subst hon
  have hty : o.type = tr := by
    rw [prune_identity_type u sc merged o _ mgr _ hconv hprune, mergeTV_type hmerge]
  have hs0 := reconcileManaged_sorted hrec hs
  have hw0 := reconcileManaged_wf hrec hw
  have hinv0 : OwnedIn P tr live m0 := reconcileManaged_ownedIn (live := ⟨live, tr⟩) hP hrec hw hinv
  have hig' : applyIgnore u ver fs = fs := by simp [applyIgnore, hig]
  rw [hig'] at hcore
  have hs1 : SortedManaged (mfSet m0 mgr ⟨fs, ver, true⟩) := sortedManaged_mfSet _ _ hs0
  have hw1 : ∀ x ∈ mfSet m0 mgr ⟨fs, ver, true⟩, x.2.set.wf = true := by
    intro x hx
    rcases mem_mfSet hx with rfl | hx
    · exact toFieldSet_wf hfs
    · exact hw0 x hx
  obtain ⟨ov, ot⟩ := o
  simp only at hty hobjv hcfg ⊢
  subst hty
  have hothers := updateCore_ownedIn (o := ⟨live, ot⟩) (n := ⟨ov, ot⟩) hc hconv hig hs1 hw1 hlive hobjv
    (by
      intro y hy hne p hp
      rcases mem_mfSet hy with rfl | hy
      · exact absurd rfl hne
      · exact hinv0 y hy p hp) hcore
  have hrecs := apply_records hconv hig hs0 hw0 (toFieldSet_wf hfs) hcore
  intro x hx p hp
  by_cases hk : x.1 = mgr
  · exact hcfg fs hfs p ((hrecs x hx).1 hk p hp)
  · exact hothers x hx hk p hp

/-- an Apply that changes nothing (no object returned, the live object stays): every owned path is
present in the live object, provided the members of the configuration's field set are -/
theorem apply_none_ownedIn {u : Updater} {sc : Schema} {tr : TypeRef} {live cfg : Value} {ver : String}
    {m : Managed} {mgr : String} {force : Bool} {mf : Managed} {P : Presence}
    (hP : PrefixClosed P)
    (hconv : u.converter = Converter.identity) (hig : ∀ v, u.ignore v = none)
    (hs : SortedManaged m) (hw : ∀ x ∈ m, x.2.set.wf = true)
    (hcfg : ∀ fs, toFieldSet sc ⟨cfg, tr⟩ = .ok fs → ∀ p, fs.has p = true → P tr live p)
    (hinv : OwnedIn P tr live m)
    (hap : apply u sc ⟨live, tr⟩ ⟨cfg, tr⟩ ver m mgr force = .ok (none, mf)) :
    OwnedIn P tr live mf := by
  obtain ⟨m0, merged, fs, newObj, cmp, hrec, hmerge, hfs, hprune, hcore, _⟩ := apply_full_inv hap
  have hs0 := reconcileManaged_sorted hrec hs
  have hw0 := reconcileManaged_wf hrec hw
  have hinv0 : OwnedIn P tr live m0 := reconcileManaged_ownedIn (live := ⟨live, tr⟩) hP hrec hw hinv
  have hig' : applyIgnore u ver fs = fs := by simp [applyIgnore, hig]
  rw [hig'] at hcore
  have hrecs := apply_records hconv hig hs0 hw0 (toFieldSet_wf hfs) hcore
  intro x hx p hp
  by_cases hk : x.1 = mgr
  · exact hcfg fs hfs p ((hrecs x hx).1 hk p hp)
  · obtain ⟨y, hy, _, hsub⟩ := (hrecs x hx).2 hk
    exact hinv0 y hy p (hsub p hp)

end SMD
