/-
The D11 history of SMD/Properties/FindingWitnesses.lean (schema and values of
SMD/Proofs/FindingWorlds.lean) as data for the non-vacuity example of SMD/Properties/C06Histories.lean:
a1 applies `{l: [{name: c, sub: [0]}]}`, u1 updates to `{l: [{name: c, sub: [0, 1]}]}`, a1 re-applies
`{l: [{name: c}]}` (a1 has a previous record: the merge `{l: [{name: c, sub: [0, 1]}]}` is pruned to
`{l: [{name: c, sub: [1]}]}`).  Every object is valid and the members of each configuration's field set
designate nodes of the object returned.
-/
import SMD.Properties.FindingWitnesses
import SMD.Proofs.NodePresenceCongr
namespace SMD.FW
open SetTrie

theorem w_valid_null : validateV sc false rootTR .null = .ok () := by with_unfolding_all rfl
theorem w_valid_cfgSub0 : validateV sc false rootTR cfgSub0 = .ok () := by with_unfolding_all rfl
theorem w_valid_objSub01 : validateV sc false rootTR objSub01 = .ok () := by with_unfolding_all rfl
theorem w_valid_objSub1 : validateV sc false rootTR objSub1 = .ok () := by with_unfolding_all rfl
theorem w_valid_cfgBare : validateV sc false rootTR cfgBare = .ok () := by with_unfolding_all rfl

theorem w_fs_cfgSub0 : toFieldSet sc ⟨cfgSub0, rootTR⟩ = .ok setSub0 := by with_unfolding_all rfl
theorem w_fs_cfgBare : toFieldSet sc ⟨cfgBare, rootTR⟩ = .ok setBare := by with_unfolding_all rfl

theorem w_paths_sub0 : setSub0.paths =
    [[.field "l", keyC], [.field "l", keyC, .field "name"], [.field "l", keyC, .field "sub", .value (.int 0)]] := by
  with_unfolding_all rfl
theorem w_paths_bare : setBare.paths = [[.field "l", keyC], [.field "l", keyC, .field "name"]] := by
  with_unfolding_all rfl

theorem w_wf_sub0 : setSub0.wf = true := by decide
theorem w_wf_bare : setBare.wf = true := by decide

/-- the members of the field set of `{l: [{name: c, sub: [0]}]}` designate nodes of it -/
theorem w_cfgSub0_present : ∀ fs, toFieldSet sc ⟨cfgSub0, rootTR⟩ = .ok fs → ∀ p, fs.has p = true →
    NodePresence sc rootTR cfgSub0 p := by
  intro fs hfs
  rw [w_fs_cfgSub0] at hfs
  cases hfs
  apply nodePresence_of_paths w_wf_sub0
  intro p hp
  simp only [w_paths_sub0, List.mem_cons, List.not_mem_nil, or_false] at hp
  rcases hp with rfl | rfl | rfl <;>
    exact ⟨by simp, by with_unfolding_all rfl, by with_unfolding_all rfl⟩

/-- the members of the field set of `{l: [{name: c}]}` designate nodes of `{l: [{name: c, sub: [1]}]}` -/
theorem w_cfgBare_present : ∀ fs, toFieldSet sc ⟨cfgBare, rootTR⟩ = .ok fs → ∀ p, fs.has p = true →
    NodePresence sc rootTR objSub1 p := by
  intro fs hfs
  rw [w_fs_cfgBare] at hfs
  cases hfs
  apply nodePresence_of_paths w_wf_bare
  intro p hp
  simp only [w_paths_bare, List.mem_cons, List.not_mem_nil, or_false] at hp
  rcases hp with rfl | rfl <;>
    exact ⟨by simp, by with_unfolding_all rfl, by with_unfolding_all rfl⟩

/-- u1's record after the history owns `.l[name=c].sub[=1]` -/
theorem w_u1_owns : ∃ x ∈ mfKept "v1", x.1 = "u1" ∧ x.2.set.has pathSub1 = true :=
  ⟨("u1", ⟨setSub1, "v1", false⟩), by simp [mfKept], rfl, by with_unfolding_all rfl⟩

/-- the re-apply did prune: the object returned is not the merge -/
theorem w_pruned : objSub1 ≠ objSub01 := by
  intro h
  simp [objSub1, objSub01] at h

end SMD.FW
