/-
Concrete runs for SMD/Properties/C06.lean.

World: any schema (all types inline), the type `{f: set of strings}`; the objects `null` and `{f: ["x"]}`.
The comparison of `null` with `{f: ["x"]}` reports the paths `.f["x"]` AND `.f` as added (the comparing
walker records every node whose left side is absent, containers included: typed/compare.go, the
`!w.inLeaf` block at the end of `compare`), whereas the field set of `{f: ["x"]}` is `{.f["x"]}` only
(the field-set walker records a declared field holding a non-empty list through its items only).
Hence "added paths are members of the right operand's field set" fails, and after the Update
`null → {f: ["x"]}` the updating manager owns `.f`, which is no member of the live object's field set.
-/
import SMD.Proofs.OwnershipShape
namespace SMD.Counter06
open SetTrie

def strT : TypeRef := .mk none (.mk (some "string") none none) none
def setT : ListT := .mk strT "associative" []
/-- `{f: set of strings}` -/
def trF : TypeRef :=
  .mk none (.mk none none (some (.mk [.mk "f" (.mk none (.mk none (some setT) none) none) none] [] TypeRef.zero ""))) none
/-- `{f: ["x"]}` -/
def liveF : Value := .map [("f", .list [.str "x"])]
def upd : Updater := { converter := Converter.identity, ignore := fun _ => none }
def pX : Path := [.field "f", .value (.str "x")]
def pF : Path := [.field "f"]

theorem valid_null (sc : Schema) : validateV sc false trF .null = .ok () := rfl
theorem valid_liveF (sc : Schema) : validateV sc false trF liveF = .ok () := rfl
theorem fs_liveF (sc : Schema) : fsV sc trF liveF = .ok [pX, pX] := rfl
theorem fieldset_null (sc : Schema) : toFieldSet sc ⟨.null, trF⟩ = .ok (.ofPaths []) := rfl
theorem fieldset_liveF (sc : Schema) : toFieldSet sc ⟨liveF, trF⟩ = .ok (.ofPaths [pX, pX]) := rfl
theorem compare_null_liveF (sc : Schema) : compareTV sc ⟨.null, trF⟩ ⟨liveF, trF⟩ =
    .ok ⟨.ofPaths [], .ofPaths [], .ofPaths [pX, pF]⟩ := by with_unfolding_all rfl
theorem added_has_f : (SetTrie.ofPaths [pX, pF]).has pF = true := by with_unfolding_all rfl
theorem fieldset_lacks_f : (SetTrie.ofPaths [pX, pX]).has pF = false := by with_unfolding_all rfl

/-- an Update of an object nobody owns anything of succeeds as soon as the comparison does -/
theorem update_nil_ok (u : Updater) (sc : Schema) (live new : TV) (ver mgr : String) (cmp0 : Comparison)
    (hc : compareTV sc live new = .ok cmp0) : ∃ mf, update u sc live new ver [] mgr = .ok mf := by
  simp only [update, reconcileManaged, updateCore, hc, updateLoop,
    List.isEmpty_nil, List.reverse_nil, List.foldl_nil, List.filter_nil, Bool.not_true, Bool.and_false,
    Bool.false_eq_true, if_false]
  split <;> exact ⟨_, rfl⟩

/-- the first Update of the empty object succeeds -/
theorem update_ok (sc : Schema) : ∃ mf, update upd sc ⟨.null, trF⟩ ⟨liveF, trF⟩ "v" [] "m" = .ok mf :=
  update_nil_ok _ _ _ _ _ _ _ (compare_null_liveF sc)

/-- after it the updating manager owns `.f` -/
theorem update_owns_f (sc : Schema) (mf : Managed)
    (h : update upd sc ⟨.null, trF⟩ ⟨liveF, trF⟩ "v" [] "m" = .ok mf) :
    ∃ x ∈ mf, x.2.set.has pF = true := by
  have h1 := (update_owner_exact_of_nodup (u := upd) (m := []) (m0 := []) (mgr := "m") rfl rfl (by simp) (by simp)
    (compare_null_liveF sc) h).1 pF
  simp only [added_has_f, Bool.or_true] at h1
  cases hg : mfGet mf "m" with
  | none => rw [hg] at h1; cases h1
  | some vs =>
    rw [hg] at h1
    exact ⟨("m", vs), mem_of_mfGet hg, h1⟩

/-! ### the subtraction of removed paths needs the representation invariant of the managed fields

World: the type `{a: string, b: string}`, live object `{a: "x", b: "y"}`, new object `{b: "y"}`
(the comparison reports `.a` removed), manager "z" updates, manager "m" owns `.a`. -/

def trAB : TypeRef :=
  .mk none (.mk none none (some (.mk [.mk "a" strT none, .mk "b" strT none] [] TypeRef.zero ""))) none
def liveAB : Value := .map [("a", .str "x"), ("b", .str "y")]
def newB : Value := .map [("b", .str "y")]
def pA : Path := [.field "a"]
/-- "m" owns `.a`, recorded in a member list that repeats it (not a well-formed trie) -/
def mDup : Managed := [("m", ⟨node [.field "a", .field "a"] [], "v", false⟩)]
/-- "m" has two entries (keys not strictly ascending), each owning `.a` -/
def mTwo : Managed := [("m", ⟨node [.field "a"] [], "v", false⟩), ("m", ⟨node [.field "a"] [], "v", false⟩)]
def cmpAB : Comparison := ⟨.ofPaths [pA], .ofPaths [], .ofPaths []⟩

theorem valid_liveAB (sc : Schema) : validateV sc false trAB liveAB = .ok () := rfl
theorem valid_newB (sc : Schema) : validateV sc false trAB newB = .ok () := rfl
theorem fs_liveAB (sc : Schema) : fsV sc trAB liveAB = .ok [[.field "a"], [.field "b"]] := rfl
theorem fs_newB (sc : Schema) : fsV sc trAB newB = .ok [[.field "b"]] := rfl
theorem compare_AB (sc : Schema) : compareTV sc ⟨liveAB, trAB⟩ ⟨newB, trAB⟩ = .ok cmpAB := by
  with_unfolding_all rfl
theorem removed_has_a : cmpAB.removed.has pA = true := by with_unfolding_all rfl
theorem record_has_a : (node [PE.field "a"] []).has pA = true := by with_unfolding_all rfl

set_option maxRecDepth 5000 in
/-- the repeated member survives the subtraction -/
theorem core_dup (sc : Schema) : updateCore upd sc ⟨liveAB, trAB⟩ ⟨newB, trAB⟩ "v" mDup "z" true =
    .ok ([("m", ⟨node [.field "a"] [], "v", false⟩)], cmpAB) := by
  simp only [updateCore, compare_AB, filterCmp, upd, mDup, updateLoop, cmpAB, pA]
  simp [cacheGet, SetTrie.ofPaths, SetTrie.insert, SetTrie.empty, peInsert, union, peUnion, unionChildren, inter,
    peInter, interChildren, isEmpty, isEmptyChildren, PE.less, PE.compare, cmpStr, mfGet, mfSet, mfSet.ins, diff,
    peDiff, diffChildren]

set_option maxRecDepth 5000 in
/-- the second entry is never subtracted from -/
theorem core_two (sc : Schema) : updateCore upd sc ⟨liveAB, trAB⟩ ⟨newB, trAB⟩ "v" mTwo "z" true =
    .ok ([("m", ⟨node [.field "a"] [], "v", false⟩)], cmpAB) := by
  simp only [updateCore, compare_AB, filterCmp, upd, mTwo, updateLoop, cmpAB, pA]
  simp [cacheGet, SetTrie.ofPaths, SetTrie.insert, SetTrie.empty, peInsert, union, peUnion, unionChildren, inter,
    peInter, interChildren, isEmpty, isEmptyChildren, PE.less, PE.compare, cmpStr, mfGet, mfSet, mfSet.ins, diff,
    peDiff, diffChildren]

/-- "after `updateCore` no other manager keeps a removed path" fails on records that are not well formed
(here the keys are in order: one entry) -/
theorem removed_kept_without_wf : ¬ (∀ (u : Updater) (sc : Schema) (o n : TV) (ver : String) (ms : Managed)
    (w : String) (force : Bool) (out : Managed) (cmp : Comparison),
    u.converter = Converter.identity → (∀ v, u.ignore v = none) → SortedManaged ms →
    updateCore u sc o n ver ms w force = .ok (out, cmp) →
    ∀ x ∈ out, x.1 ≠ w → ∀ q, x.2.set.has q = true → cmp.removed.has q = false) := by
  intro h
  have := h upd ⟨[]⟩ _ _ _ mDup "z" true _ _ rfl (fun _ => rfl) (by simp [mDup]) (core_dup _) _
    List.mem_cons_self (by decide) pA record_has_a
  rw [removed_has_a] at this
  cases this

/-- …and on well-formed records when a manager has two entries -/
theorem removed_kept_without_sorted : ¬ (∀ (u : Updater) (sc : Schema) (o n : TV) (ver : String) (ms : Managed)
    (w : String) (force : Bool) (out : Managed) (cmp : Comparison),
    u.converter = Converter.identity → (∀ v, u.ignore v = none) → (∀ x ∈ ms, x.2.set.wf = true) →
    updateCore u sc o n ver ms w force = .ok (out, cmp) →
    ∀ x ∈ out, x.1 ≠ w → ∀ q, x.2.set.has q = true → cmp.removed.has q = false) := by
  intro h
  have hw : ∀ x ∈ mTwo, x.2.set.wf = true := by
    intro x hx
    simp only [mTwo, List.mem_cons, List.not_mem_nil, or_false, or_self] at hx
    subst hx
    decide
  have := h upd ⟨[]⟩ _ _ _ mTwo "z" true _ _ rfl (fun _ => rfl) hw (core_two _) _
    List.mem_cons_self (by decide) pA record_has_a
  rw [removed_has_a] at this
  cases this

end SMD.Counter06
